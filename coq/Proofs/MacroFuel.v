(* Proofs/MacroFuel.v — C19: the fuel `macro_eval` gives itself (8 * token size + 16) covers the depth of
   the expansion of every supported document (`dcost`, Proofs/MacroDoc.v). *)
From TV Require Import Base.Prelude Base.Utf8 Model.Datetime Model.DatetimeStd Model.Numbers Model.Macro Spec.Defs Spec.MacroSpec.
From TV Require Import Proofs.MacroMatch Proofs.MacroRules Proofs.MacroTails Proofs.MacroEval Proofs.MacroAux
  Proofs.MacroCtx Proofs.MacroStmt Proofs.MacroScalar Proofs.MacroDoc.
Require Import Lia.

Lemma tts_size_app : forall a b, tts_size (a ++ b) = tts_size a + tts_size b.
Proof. intros a b. unfold tts_size. induction a as [|t a IH]; [reflexivity|]. cbn [app fold_right]. rewrite IH. lia. Qed.
Lemma tts_size_cons : forall t a, tts_size (t :: a) = tt_size t + tts_size a.
Proof. reflexivity. Qed.
Lemma tt_size_pos : forall t, 1 <= tt_size t.
Proof. intros [s|l|c|d g]; cbn; lia. Qed.
Lemma tts_size_ge_length : forall a, List.length a <= tts_size a.
Proof. induction a as [|t a IH]; [cbn; lia|]. rewrite tts_size_cons. cbn [List.length]. pose proof (tt_size_pos t). lia. Qed.
Lemma tt_size_group : forall d g, tt_size (TGroup d g) = S (tts_size g).
Proof. reflexivity. Qed.

(* the invariant: cost + number of tokens + 2 <= 6 * size *)
Definition phi (v : aval) : Prop := vcost v + List.length (val_toks v) + 2 <= 6 * tts_size (val_toks v).

Lemma phi_scalar : forall v, vcost v = 1 -> val_toks v <> [] -> phi v.
Proof.
  intros v Hc Hne. unfold phi. rewrite Hc. pose proof (tts_size_ge_length (val_toks v)).
  destruct (val_toks v); [contradiction|]. cbn [List.length] in *. lia.
Qed.

Lemma join2 : forall (g g2 : list tt) gs,
  join_tts (Some c_comma) (g :: g2 :: gs) = g ++ [TPunct c_comma] ++ join_tts (Some c_comma) (g2 :: gs).
Proof. reflexivity. Qed.

Lemma arr_bound : forall l, Forall phi l ->
  List.length (join_tts (Some c_comma) (List.map val_toks l)) + elems_cost l
  <= 6 * tts_size (join_tts (Some c_comma) (List.map val_toks l)).
Proof.
  induction l as [|v [|v2 l] IH]; intro H; [cbn; lia| |].
  - inversion H as [|? ? Hv _]; subst. unfold phi in Hv. cbn [List.map join_tts elems_cost fold_right]. lia.
  - inversion H as [|? ? Hv Hrest]; subst. unfold phi in Hv. specialize (IH Hrest).
    change (List.map val_toks (v :: v2 :: l)) with (val_toks v :: val_toks v2 :: List.map val_toks l).
    rewrite join2. change (elems_cost (v :: v2 :: l)) with (2 + vcost v + elems_cost (v2 :: l)).
    change (val_toks v2 :: List.map val_toks l) with (List.map val_toks (v2 :: l)).
    rewrite !app_length, !tts_size_app. cbn [List.length]. change (tts_size [TPunct c_comma]) with 1. lia.
Qed.

Definition phi_pair (px : kpath * aval) : Prop := phi (snd px).

Lemma inl_bound : forall ps, Forall phi_pair ps ->
  List.length (join_tts (Some c_comma) (List.map pair_toks ps)) + pairs_cost ps
  <= 6 * tts_size (join_tts (Some c_comma) (List.map pair_toks ps)).
Proof.
  assert (Hone : forall px, phi_pair px -> List.length (pair_toks px) + 2 + vcost (snd px) <= 6 * tts_size (pair_toks px)).
  { intros [p v] Hv. unfold phi_pair, phi in Hv. cbn [snd] in *. unfold pair_toks. cbn [fst snd].
    rewrite !app_length, !tts_size_app. cbn [List.length]. change (tts_size [TPunct c_eq]) with 1.
    pose proof (tts_size_ge_length (key_toks p)). lia. }
  induction ps as [|px [|px2 ps] IH]; intro H; [cbn; lia| |].
  - inversion H as [|? ? Hv _]; subst. specialize (Hone px Hv). cbn [List.map join_tts pairs_cost fold_right]. lia.
  - inversion H as [|? ? Hv Hrest]; subst. specialize (Hone px Hv). specialize (IH Hrest).
    change (List.map pair_toks (px :: px2 :: ps)) with (pair_toks px :: pair_toks px2 :: List.map pair_toks ps).
    rewrite join2. change (pairs_cost (px :: px2 :: ps)) with (2 + vcost (snd px) + pairs_cost (px2 :: ps)).
    change (pair_toks px2 :: List.map pair_toks ps) with (List.map pair_toks (px2 :: ps)).
    rewrite !app_length, !tts_size_app. cbn [List.length]. change (tts_size [TPunct c_comma]) with 1. lia.
Qed.

Theorem phi_all : forall v, val_ok v = true -> phi v.
Proof.
  induction v as [s|sg t|sg t|sg nan|b|d|l tr IH|ps IH] using aval_ind'; intro Hok;
    try (apply phi_scalar; [reflexivity|apply val_toks_nonempty; exact Hok]).
  - unfold phi. rewrite val_toks_arr, vcost_arr. cbn [List.length]. rewrite tts_size_cons, tt_size_group.
    change (tts_size []) with 0.
    cbn [val_ok] in Hok. apply andb_true_iff in Hok as [Hall _].
    assert (HF : Forall phi l).
    { rewrite forallb_forall in Hall. rewrite Forall_forall in *. intros x Hx. apply IH; [exact Hx|apply Hall; exact Hx]. }
    pose proof (arr_bound l HF) as HB. unfold arr_inner. rewrite app_length, tts_size_app.
    destruct tr; cbn [List.length]; [change (tts_size [TPunct c_comma]) with 1|change (tts_size []) with 0]; lia.
  - unfold phi. rewrite val_toks_inl, vcost_inl. cbn [List.length]. rewrite tts_size_cons, tt_size_group.
    change (tts_size []) with 0.
    cbn [val_ok] in Hok.
    assert (HF : Forall phi_pair ps).
    { rewrite forallb_forall in Hok. rewrite Forall_forall in *. intros x Hx. unfold phi_pair. apply IH; [exact Hx|].
      specialize (Hok x Hx). apply andb_true_iff in Hok as [_ Hv]. exact Hv. }
    pose proof (inl_bound ps HF) as HB. unfold inl_inner. lia.
Qed.

Theorem dcost_bound : forall l, forallb stmt_ok l = true -> dcost l <= 6 * tts_size (tokens_of l) + 1.
Proof.
  induction l as [|s l IH]; intro H; [cbn; lia|].
  cbn [forallb] in H. apply andb_true_iff in H as [Hs Hl]. specialize (IH Hl).
  rewrite tokens_of_cons, tts_size_app. change (dcost (s :: l)) with (stmt_cost s + dcost l).
  destruct s as [p|p|p v]; cbn [stmt_cost stmt_toks stmt_ok] in *.
  - rewrite tts_size_cons, tt_size_group. lia.
  - rewrite tts_size_cons, tt_size_group. lia.
  - apply andb_true_iff in Hs as [_ Hv]. pose proof (phi_all v Hv) as Hphi. unfold phi in Hphi.
    rewrite !tts_size_app. lia.
Qed.

Theorem dcost_fuel : forall l, forallb stmt_ok l = true -> dcost l <= default_fuel (tokens_of l).
Proof. intros l H. pose proof (dcost_bound l H). unfold default_fuel. lia. Qed.

Lemma tokens_nonempty : forall l, macro_supported l = true -> tokens_of l <> [] /\ forallb stmt_ok l = true.
Proof.
  intros [|s l] H; [discriminate|]. unfold macro_supported in H. split; [|exact H].
  cbn [forallb] in H. apply andb_true_iff in H as [Hs _].
  rewrite tokens_of_cons. destruct (stmt_toks_head s Hs) as [t [X [E _]]]. rewrite E. discriminate.
Qed.
