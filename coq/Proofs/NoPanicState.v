(* Proofs/NoPanicState.v — C04, part 4: the ParseState machine (state.rs) never panics on a
   reachable state.  Discharges P_item_none, P_aot_empty, P_root_not_empty, P_debug_assert 0/1/2.

   Invariant `inv st`:
     * the detached current table is `good`: hereditarily no `Item::None`, no empty array of tables;
     * `fin_ok`: whatever good table the current one has become, `finalize_table` does not panic and
       leaves a good root, an empty current table and an empty path.
   The second clause hides the one delicate moment: `start_array_table` inserts an EMPTY array of
   tables at the header's path, filled only by the next `finalize_table`.  Between the two only
   `on_keyval` runs, on the detached current table, so no descent can reach the empty array; and
   `finalize_table` descends along the parent path only and meets it at the leaf
   (`aot_two_descents`). *)
From TV Require Import Base.Prelude Base.Utf8 Base.Winnow Gen.Consts.
From TV Require Import Model.Trivia Model.Strings Model.Datetime Model.Numbers Model.Tree Model.Parse Model.Document.
Require Import Lia.

Fixpoint good_item (it : item) : bool :=
  match it with
  | INone => false
  | IValue _ => true
  | ITable t => good_tbl t
  | IAot ts _ => match ts with [] => false | _ => true end && forallb good_tbl ts
  end
with good_tbl (t : tbl) : bool :=
  match t with Tbl items _ _ _ _ _ => forallb (fun kv => good_item (snd kv)) items end.

Definition good_items (m : kvs) : bool := forallb (fun kv => good_item (snd kv)) m.

Lemma good_tbl_items t : good_tbl t = good_items (t_items t).
Proof. destruct t; reflexivity. Qed.
Lemma good_set_items t m : good_tbl (t_set_items t m) = good_items m.
Proof. destruct t; reflexivity. Qed.
Lemma good_set_span t s : good_tbl (t_set_span t s) = good_tbl t.
Proof. destruct t; reflexivity. Qed.
Lemma items_set_items t m : t_items (t_set_items t m) = m.
Proof. destruct t; reflexivity. Qed.
Lemma good_tbl_new : good_tbl tbl_new = true. Proof. reflexivity. Qed.

(* ---- association lists ----------------------------------------------------------------------------- *)
Lemma good_items_get m k k' it : good_items m = true -> kv_get m k = Some (k', it) -> good_item it = true.
Proof.
  induction m as [|[k0 v0] m IH]; cbn [kv_get good_items forallb snd]; [discriminate|].
  intros H E. apply andb_true_iff in H as [H1 H2]. destruct (bytes_eqb _ _); [inversion E; subst; exact H1|].
  apply IH; assumption.
Qed.
Lemma good_items_push m k v : good_items m = true -> good_item v = true -> good_items (kv_push m k v) = true.
Proof.
  intros H1 H2. unfold kv_push, good_items in *. rewrite forallb_app, H1. cbn. rewrite H2. reflexivity.
Qed.
Lemma good_items_remove m k : good_items m = true -> good_items (kv_remove m k) = true.
Proof.
  induction m as [|[k0 v0] m IH]; [reflexivity|]. cbn [kv_remove good_items forallb snd]. intro H.
  apply andb_true_iff in H as [Ha Hb]. destruct (bytes_eqb _ _); [exact Hb|].
  cbn [forallb snd]. rewrite Ha. apply IH, Hb.
Qed.

(* all entries are good, except possibly the first one stored under k *)
Fixpoint gbf (k : bytes) (m : kvs) : bool :=
  match m with
  | [] => true
  | (k', v) :: tl => if bytes_eqb (k_key k') k then good_items tl else good_item v && gbf k tl
  end.
Lemma good_gbf k m : good_items m = true -> gbf k m = true.
Proof.
  induction m as [|[k0 v0] m IH]; [reflexivity|]. cbn [gbf good_items forallb snd]. intro H.
  apply andb_true_iff in H as [Ha Hb]. destruct (bytes_eqb _ _); [exact Hb|]. rewrite Ha. apply IH, Hb.
Qed.
Lemma gbf_set k m v : gbf k m = true -> good_item v = true -> good_items (kv_set m k v) = true.
Proof.
  intros H Hv. induction m as [|[k0 v0] m IH]; [reflexivity|]. cbn [gbf kv_set] in *.
  destruct (bytes_eqb _ _); cbn [good_items forallb snd].
  - rewrite Hv. exact H.
  - apply andb_true_iff in H as [Ha Hb]. rewrite Ha. apply IH, Hb.
Qed.
Lemma gbf_after_set k m v : gbf k m = true -> gbf k (kv_set m k v) = true.
Proof.
  intros H. induction m as [|[k0 v0] m IH]; [reflexivity|]. cbn [gbf kv_set] in *.
  destruct (bytes_eqb (k_key k0) k) eqn:E; cbn [gbf]; rewrite E; [exact H|].
  apply andb_true_iff in H as [Ha Hb]. rewrite Ha. apply IH, Hb.
Qed.
Lemma gbf_push k m kk v : good_items m = true -> kv_get m k = None -> k_key kk = k -> gbf k (kv_push m kk v) = true.
Proof.
  intros H G K. unfold kv_push. induction m as [|[k0 v0] m IH]; cbn [app gbf].
  - rewrite K, bytes_eqb_refl. reflexivity.
  - cbn [kv_get good_items forallb snd] in *. apply andb_true_iff in H as [Ha Hb].
    destruct (bytes_eqb (k_key k0) k); [discriminate|]. rewrite Ha. apply IH; assumption.
Qed.
Lemma good_items_set m k v : good_items m = true -> good_item v = true -> good_items (kv_set m k v) = true.
Proof. intros H Hv. apply gbf_set; [apply good_gbf, H|exact Hv]. Qed.

Lemma kv_get_set m k k' it v : kv_get m k = Some (k', it) -> kv_get (kv_set m k v) k = Some (k', v).
Proof.
  induction m as [|[k0 v0] m IH]; cbn [kv_get kv_set]; [discriminate|].
  destruct (bytes_eqb (k_key k0) k) eqn:E; cbn [kv_get]; rewrite E; [intro H; inversion H; reflexivity|apply IH].
Qed.
Lemma kv_get_push m kk v : kv_get m (k_key kk) = None -> kv_get (kv_push m kk v) (k_key kk) = Some (kk, v).
Proof.
  unfold kv_push. induction m as [|[k0 v0] m IH]; cbn [app kv_get].
  - rewrite bytes_eqb_refl. reflexivity.
  - destruct (bytes_eqb _ _); [discriminate|apply IH].
Qed.

Lemma forallb_rev {A} (f : A -> bool) l : forallb f (rev l) = forallb f l.
Proof.
  induction l as [|a l IH]; [reflexivity|]. cbn [rev forallb]. rewrite forallb_app, IH. cbn. rewrite andb_true_r.
  apply andb_comm.
Qed.
Lemma rev_cons_ne {A} (a : A) l : match rev (a :: l) with [] => false | _ => true end = true.
Proof. cbn [rev]. destruct (rev l); reflexivity. Qed.

(* a good array of tables, seen through `rev` (descend_path works on the last table) *)
Lemma good_aot_rev ts sp last rinit :
  good_item (IAot ts sp) = true -> rev ts = last :: rinit -> good_tbl last = true /\ forallb good_tbl rinit = true.
Proof.
  cbn [good_item]. intros H R. apply andb_true_iff in H as [_ H]. rewrite <- forallb_rev, R in H.
  cbn [forallb] in H. apply andb_true_iff in H. exact H.
Qed.
Lemma good_aot_build last rinit sp :
  good_tbl last = true -> forallb good_tbl rinit = true -> good_item (IAot (rev (last :: rinit)) sp) = true.
Proof.
  intros H1 H2. cbn [good_item]. rewrite rev_cons_ne, forallb_rev. cbn [forallb]. rewrite H1, H2. reflexivity.
Qed.
Lemma good_aot_nonempty ts sp : good_item (IAot ts sp) = true -> rev ts <> [].
Proof.
  cbn [good_item]. intros H R. apply andb_true_iff in H as [H _]. destruct ts; [discriminate|].
  apply (f_equal (@length tbl)) in R. rewrite rev_length in R. discriminate.
Qed.

(* ---- descend_path on a good table ------------------------------------------------------------------- *)
Definition cres_ok {X} (Q : tbl -> X -> Prop) (r : cres (tbl * X)) : Prop :=
  match r with COk (t, x) => Q t x | CErr _ => True | CPanic _ => False end.

Lemma wta_good {X} (Q : X -> Prop) : forall path t dotted (f : tbl -> cres (tbl * X)),
  good_tbl t = true ->
  (forall p, good_tbl p = true -> cres_ok (fun p' x => good_tbl p' = true /\ Q x) (f p)) ->
  cres_ok (fun t' x => good_tbl t' = true /\ Q x) (with_table_at t path dotted f).
Proof.
  induction path as [|k ptl IH]; intros t dotted f Ht Hf; cbn [with_table_at]; [apply Hf, Ht|].
  pose proof Ht as Hi. rewrite good_tbl_items in Hi.
  destruct (kv_get (t_items t) (k_key k)) as [[k' it]|] eqn:G.
  - pose proof (good_items_get _ _ _ _ Hi G) as Hit. destruct it as [|v|sub|ts sp].
    + discriminate Hit.
    + exact I.
    + destruct (dotted && negb (t_implicit sub)); [exact I|].
      specialize (IH sub dotted f Hit Hf). destruct (with_table_at sub ptl dotted f) as [[sub' x]| |]; auto.
      destruct IH as [Hs Hq]. cbn [cres_ok]. split; [|exact Hq]. rewrite good_set_items.
      apply good_items_set; [exact Hi|exact Hs].
    + destruct (dotted && _); [exact I|].
      destruct (rev ts) as [|last rinit] eqn:R; [exact (good_aot_nonempty _ _ Hit R)|].
      destruct (good_aot_rev _ _ _ _ Hit R) as [Hl Hr].
      specialize (IH last dotted f Hl Hf). destruct (with_table_at last ptl dotted f) as [[last' x]| |]; auto.
      destruct IH as [Hs Hq]. cbn [cres_ok]. split; [|exact Hq]. rewrite good_set_items.
      apply good_items_set; [exact Hi|]. apply good_aot_build; assumption.
  - specialize (IH (Tbl [] decor_default true dotted None None) dotted f eq_refl Hf).
    destruct (with_table_at _ ptl dotted f) as [[sub' x]| |]; auto.
    destruct IH as [Hs Hq]. cbn [cres_ok]. split; [|exact Hq]. rewrite good_set_items.
    apply good_items_push; [exact Hi|exact Hs].
Qed.

(* descent alone never panics on a good table, whatever the closure builds *)
Lemma wta_nopanic {X} : forall path t dotted (f : tbl -> cres (tbl * X)),
  good_tbl t = true ->
  (forall p, good_tbl p = true -> forall s, f p <> CPanic s) ->
  forall s, with_table_at t path dotted f <> CPanic s.
Proof.
  induction path as [|k ptl IH]; intros t dotted f Ht Hf s; cbn [with_table_at]; [apply Hf, Ht|].
  pose proof Ht as Hi. rewrite good_tbl_items in Hi.
  destruct (kv_get (t_items t) (k_key k)) as [[k' it]|] eqn:G.
  - pose proof (good_items_get _ _ _ _ Hi G) as Hit. destruct it as [|v|sub|ts sp].
    + discriminate Hit.
    + discriminate.
    + destruct (dotted && negb (t_implicit sub)); [discriminate|].
      specialize (IH sub dotted f Hit Hf). destruct (with_table_at sub ptl dotted f) as [[sub' x]| |]; try discriminate.
      intro E; inversion E; subst. eapply IH; reflexivity.
    + destruct (dotted && _); [discriminate|].
      destruct (rev ts) as [|last rinit] eqn:R; [destruct (good_aot_nonempty _ _ Hit R)|].
      destruct (good_aot_rev _ _ _ _ Hit R) as [Hl Hr].
      specialize (IH last dotted f Hl Hf). destruct (with_table_at last ptl dotted f) as [[last' x]| |]; try discriminate.
      intro E; inversion E; subst. eapply IH; reflexivity.
  - specialize (IH (Tbl [] decor_default true dotted None None) dotted f eq_refl Hf).
    destruct (with_table_at _ ptl dotted f) as [[sub' x]| |]; try discriminate.
    intro E; inversion E; subst. eapply IH; reflexivity.
Qed.

(* ---- on_keyval ---------------------------------------------------------------------------------------- *)
Lemma on_keyval_ok st path k v :
  good_tbl (st_current st) = true -> good_item v = true ->
  match on_keyval st path k v with
  | COk st' => good_tbl (st_current st') = true /\ st_root st' = st_root st
               /\ st_path st' = st_path st /\ st_is_array st' = st_is_array st
  | CErr _ => True
  | CPanic _ => False
  end.
Proof.
  intros Hc Hv. unfold on_keyval. cbv zeta.
  match goal with |- context [with_table_at ?cur path true ?f] =>
    pose proof (wta_good (fun _ : unit => True) path cur true f) as W end.
  match type of W with ?A -> ?B -> _ => assert (H1 : A); [|assert (H2 : B); [|specialize (W H1 H2)]] end.
  - destruct (t_span (st_current st)); [|exact Hc]. destruct (item_span v); [|exact Hc].
    rewrite good_set_span. exact Hc.
  - intros p Hp. destruct (Bool.eqb _ _); [exact I|]. destruct (kv_get _ _); [exact I|].
    cbn [cres_ok]. split; [|exact I]. rewrite good_set_items. rewrite good_tbl_items in Hp.
    apply good_items_push; assumption.
  - match type of W with cres_ok _ ?r => destruct r as [[cur' u]| |] end; cbn [cres_ok] in W; auto.
    cbn [st_current st_root st_path st_is_array]. tauto.
Qed.

Lemma set_dotted_spans_good : forall path t ve, good_tbl t = true -> good_tbl (set_dotted_spans t path ve) = true.
Proof.
  induction path as [|k ptl IH]; intros t ve Ht; cbn [set_dotted_spans]; [exact Ht|].
  pose proof Ht as Hi. rewrite good_tbl_items in Hi.
  destruct (kv_get (t_items t) (k_key k)) as [[k' it]|] eqn:G; [|exact Ht].
  pose proof (good_items_get _ _ _ _ Hi G) as Hit. destruct it as [|v|sub|ts sp]; try exact Ht.
  rewrite good_set_items. apply good_items_set; [exact Hi|]. cbn [good_item]. apply IH.
  cbn [good_item] in Hit. destruct (t_dotted sub); [|exact Hit].
  destruct (key_span k); [|exact Hit]. destruct ve; [|exact Hit]. rewrite good_set_span. exact Hit.
Qed.

Lemma on_keyval_sp_ok st path k v :
  good_tbl (st_current st) = true -> good_item v = true ->
  match on_keyval_sp st path k v with
  | COk st' => good_tbl (st_current st') = true /\ st_root st' = st_root st
               /\ st_path st' = st_path st /\ st_is_array st' = st_is_array st
  | CErr _ => True
  | CPanic _ => False
  end.
Proof.
  intros Hc Hv. unfold on_keyval_sp. pose proof (on_keyval_ok st path k v Hc Hv) as H.
  destruct (on_keyval st path k v) as [st'| |]; auto. destruct H as (H1 & H2 & H3 & H4).
  cbn [st_current st_root st_path st_is_array]. repeat split; auto. apply set_dotted_spans_good, H1.
Qed.

(* ---- finalize_table / start_table / start_array_table -------------------------------------------------- *)
Definition fin_post (r : cres pstate) : Prop :=
  match r with
  | COk st' => good_tbl (st_root st') = true /\ st_current st' = tbl_new /\ st_path st' = []
  | CErr _ => True
  | CPanic _ => False
  end.
Definition fin_ok (root : tbl) (path : list key) (is_array : bool) : Prop :=
  forall tr pos cur, good_tbl cur = true -> fin_post (finalize_table (mkState root tr pos cur is_array path)).

Definition inv (st : pstate) : Prop :=
  good_tbl (st_current st) = true /\ fin_ok (st_root st) (st_path st) (st_is_array st).

Lemma inv_fin st : inv st -> fin_post (finalize_table st).
Proof. intros [Hc Hf]. destruct st as [root tr pos cur ia path]. apply Hf, Hc. Qed.

Lemma inv_state_new : inv state_new.
Proof.
  split; [reflexivity|]. intros tr pos cur Hc. unfold finalize_table. cbn. repeat split. exact Hc.
Qed.

Lemma inv_on_ws st sp : inv st -> inv (on_ws st sp).
Proof. intros [Hc Hf]. split; assumption. Qed.

Lemma inv_on_keyval_sp st path k v :
  inv st -> good_item v = true ->
  match on_keyval_sp st path k v with COk st' => inv st' | CErr _ => True | CPanic _ => False end.
Proof.
  intros [Hc Hf] Hv. pose proof (on_keyval_sp_ok st path k v Hc Hv) as H.
  destruct (on_keyval_sp st path k v) as [st'| |]; auto. destruct H as (H1 & H2 & H3 & H4).
  split; [exact H1|]. rewrite H2, H3, H4. exact Hf.
Qed.

Lemma pop_key_some' (p : list key) : p <> [] -> exists ppath k, pop_key p = Some (ppath, k).
Proof.
  intro H. unfold pop_key. destruct (rev p) as [|last rinit] eqn:R; [|eauto].
  apply (f_equal (@length key)) in R. rewrite rev_length in R. destruct p; [congruence|discriminate].
Qed.

(* the closures handed to descend_path by finalize_table *)
Definition f_fin_std (k : key) (table : tbl) : tbl -> cres (tbl * unit) :=
  fun parent =>
    match kv_get (t_items parent) (k_key k) with
    | Some (_, ITable t) =>
      if t_implicit t then COk (t_set_items parent (kv_set (t_items parent) (k_key k) (ITable table)), tt)
      else CErr DuplicateKey
    | Some _ => CErr DuplicateKey
    | None => COk (t_set_items parent (kv_push (t_items parent) k (ITable table)), tt)
    end.
Definition f_fin_aot (k : key) (table : tbl) : tbl -> cres (tbl * unit) :=
  fun parent =>
    match kv_get (t_items parent) (k_key k) with
    | None => COk (t_set_items parent (kv_push (t_items parent) k (IAot [table] (union_span (t_span table) (t_span table)))), tt)
    | Some (_, IAot ts _) =>
      let ts' := ts ++ [table] in
      let sp := match ts' with
                | first :: _ => union_span (t_span first) (t_span table)
                | [] => None
                end in
      COk (t_set_items parent (kv_set (t_items parent) (k_key k) (IAot ts' sp)), tt)
    | Some _ => CErr DuplicateKey
    end.
Definition f_start_aot (k : key) : tbl -> cres (tbl * unit) :=
  fun parent =>
    match kv_get (t_items parent) (k_key k) with
    | None => COk (t_set_items parent (kv_push (t_items parent) k (IAot [] None)), tt)
    | Some (_, IAot _ _) => COk (parent, tt)
    | Some _ => CErr DuplicateKey
    end.

Lemma finalize_eq root tr pos cur ia path ppath k :
  pop_key path = Some (ppath, k) ->
  finalize_table (mkState root tr pos cur ia path) =
  match with_table_at root ppath false (if ia then f_fin_aot k cur else f_fin_std k cur) with
  | COk (root', _) => COk (mkState root' tr pos tbl_new ia [])
  | CErr c => CErr c
  | CPanic s => CPanic s
  end.
Proof. intro H. unfold finalize_table. cbn [st_current st_path st_root st_is_array st_trailing st_position]. rewrite H. destruct ia; reflexivity. Qed.

Lemma f_fin_std_good k table p :
  good_tbl table = true -> good_tbl p = true ->
  cres_ok (fun p' (_ : unit) => good_tbl p' = true /\ True) (f_fin_std k table p).
Proof.
  intros Ht Hp. unfold f_fin_std. rewrite good_tbl_items in Hp.
  destruct (kv_get (t_items p) (k_key k)) as [[k' it]|] eqn:G.
  - destruct it as [|v|t|ts sp]; try exact I. destruct (t_implicit t); [|exact I].
    cbn [cres_ok]. split; [|exact I]. rewrite good_set_items. apply good_items_set; assumption.
  - cbn [cres_ok]. split; [|exact I]. rewrite good_set_items. apply good_items_push; assumption.
Qed.

Lemma good_aot_snoc ts sp sp' table :
  good_item (IAot ts sp) = true -> good_tbl table = true -> good_item (IAot (ts ++ [table]) sp') = true.
Proof.
  cbn [good_item]. intros H Ht. apply andb_true_iff in H as [_ H]. rewrite forallb_app, H. cbn [forallb].
  rewrite Ht. destruct ts; reflexivity.
Qed.

Lemma f_fin_aot_good k table p :
  good_tbl table = true -> good_tbl p = true ->
  cres_ok (fun p' (_ : unit) => good_tbl p' = true /\ True) (f_fin_aot k table p).
Proof.
  intros Ht Hp. unfold f_fin_aot. rewrite good_tbl_items in Hp.
  destruct (kv_get (t_items p) (k_key k)) as [[k' it]|] eqn:G.
  - pose proof (good_items_get _ _ _ _ Hp G) as Hit. destruct it as [|v|t|ts sp]; try exact I.
    cbv zeta. cbn [cres_ok]. split; [|exact I]. rewrite good_set_items. apply good_items_set; [exact Hp|].
    eapply good_aot_snoc; eassumption.
  - cbn [cres_ok]. split; [|exact I]. rewrite good_set_items. apply good_items_push; [exact Hp|].
    cbn [good_item forallb]. rewrite Ht. reflexivity.
Qed.

(* finalize_table from a good root (no pending empty array of tables) *)
Lemma fin_ok_good root (path : list key) (ia : bool) : good_tbl root = true -> path <> [] ->
  forall ppath k, pop_key path = Some (ppath, k) ->
  (forall cur, good_tbl cur = true ->
     cres_ok (fun p' (_ : unit) => good_tbl p' = true /\ True)
             (with_table_at root ppath false (if ia then f_fin_aot k cur else f_fin_std k cur))) ->
  fin_ok root path ia.
Proof.
  intros Hr Hp ppath k Hpop H tr pos cur Hc. rewrite (finalize_eq _ _ _ _ _ _ _ _ Hpop).
  specialize (H cur Hc). destruct (with_table_at root ppath false _) as [[root' u]| |]; cbn [cres_ok] in H; auto.
  cbn [fin_post st_root st_current st_path]. tauto.
Qed.

(* the empty array of tables inserted by start_array_table is met by finalize_table at the leaf only *)
Lemma aot_two_descents k : forall ppath t t' x,
  good_tbl t = true ->
  with_table_at t ppath false (f_start_aot k) = COk (t', x) ->
  forall cur, good_tbl cur = true ->
  cres_ok (fun p' (_ : unit) => good_tbl p' = true /\ True) (with_table_at t' ppath false (f_fin_aot k cur)).
Proof.
  induction ppath as [|k0 ptl IH]; intros t t' x Ht H cur Hc.
  - cbn [with_table_at] in *. unfold f_start_aot in H. pose proof Ht as Hi. rewrite good_tbl_items in Hi.
    destruct (kv_get (t_items t) (k_key k)) as [[k' it]|] eqn:G.
    + destruct it as [|v|sub|ts sp]; try discriminate H. inversion H; subst t' x.
      apply f_fin_aot_good; assumption.
    + inversion H; subst t' x. unfold f_fin_aot. rewrite items_set_items, (kv_get_push _ _ _ G).
      cbv zeta. cbn [app cres_ok]. split; [|exact I]. rewrite good_set_items.
      apply gbf_set; [apply gbf_push; auto|]. cbn [good_item forallb]. rewrite Hc. reflexivity.
  - cbn [with_table_at] in H. pose proof Ht as Hi. rewrite good_tbl_items in Hi.
    destruct (kv_get (t_items t) (k_key k0)) as [[k' it]|] eqn:G.
    + pose proof (good_items_get _ _ _ _ Hi G) as Hit. destruct it as [|v|sub|ts sp]; try discriminate H.
      * (* ITable *)
        cbn [andb] in H.
        destruct (with_table_at sub ptl false (f_start_aot k)) as [[sub' x']| |] eqn:E; try discriminate H.
        inversion H; subst t' x. cbn [with_table_at]. rewrite items_set_items, (kv_get_set _ _ _ _ _ G).
        cbn [andb]. specialize (IH sub sub' x' Hit E cur Hc).
        destruct (with_table_at sub' ptl false (f_fin_aot k cur)) as [[sub'' u]| |]; cbn [cres_ok] in *; auto.
        split; [|exact I]. rewrite good_set_items. apply gbf_set; [|apply IH].
        apply gbf_after_set, good_gbf, Hi.
      * (* IAot *)
        cbn [andb] in H. destruct (rev ts) as [|last rinit] eqn:R; [discriminate H|].
        destruct (good_aot_rev _ _ _ _ Hit R) as [Hl Hr].
        destruct (with_table_at last ptl false (f_start_aot k)) as [[last' x']| |] eqn:E; try discriminate H.
        inversion H; subst t' x. cbn [with_table_at]. rewrite items_set_items, (kv_get_set _ _ _ _ _ G).
        cbn [andb]. change (rev rinit ++ [last']) with (rev (last' :: rinit)). rewrite rev_involutive. specialize (IH last last' x' Hl E cur Hc).
        destruct (with_table_at last' ptl false (f_fin_aot k cur)) as [[last'' u]| |]; cbn [cres_ok] in *; auto.
        split; [|exact I]. rewrite good_set_items. apply gbf_set; [apply gbf_after_set, good_gbf, Hi|].
        apply good_aot_build; [apply IH|exact Hr].
    + destruct (with_table_at (Tbl [] decor_default true false None None) ptl false (f_start_aot k))
        as [[sub' x']| |] eqn:E; try discriminate H.
      inversion H; subst t' x. cbn [with_table_at]. rewrite items_set_items, (kv_get_push _ _ _ G).
      cbn [andb]. specialize (IH (Tbl [] decor_default true false None None) sub' x' eq_refl E cur Hc).
      destruct (with_table_at sub' ptl false (f_fin_aot k cur)) as [[sub'' u]| |]; cbn [cres_ok] in *; auto.
      split; [|exact I]. rewrite good_set_items. apply gbf_set; [|apply IH]. apply gbf_push; auto.
Qed.

Definition step_post (r : cres pstate) : Prop :=
  match r with COk st' => inv st' | CErr _ => True | CPanic _ => False end.

Lemma start_table_ok st path dec sp :
  good_tbl (st_root st) = true -> st_current st = tbl_new -> st_path st = [] -> path <> [] ->
  step_post (start_table st path dec sp).
Proof.
  intros Hr Hc Hp Hne. unfold start_table. rewrite Hc, Hp. cbn [tbl_is_empty tbl_new t_items forallb negb].
  destruct (pop_key_some' path Hne) as (ppath & k & Hpop). rewrite Hpop.
  match goal with |- context [with_table_at _ ppath false ?f] =>
    pose proof (wta_good (fun x : option tbl => match x with Some t => good_tbl t = true | None => True end)
                         ppath (st_root st) false f Hr) as W end.
  match type of W with ?B -> _ => assert (H2 : B); [|specialize (W H2)] end.
  { intros p Hg. pose proof Hg as Hi. rewrite good_tbl_items in Hi.
    destruct (kv_get (t_items p) (k_key k)) as [[k' it]|] eqn:G; [|cbn [cres_ok]; auto].
    pose proof (good_items_get _ _ _ _ Hi G) as Hit. destruct it as [|v|t|ts sp0]; try exact I.
    destruct (t_implicit t && negb (t_dotted t)); [|exact I]. cbn [cres_ok]. split; [|exact Hit].
    rewrite good_set_items. apply good_items_remove, Hi. }
  match type of W with cres_ok _ ?r => destruct r as [[root' tk]| |] end; cbn [cres_ok] in W; auto.
  destruct W as [Hr' Htk]. cbn [step_post]. unfold open_table. split; cbn [st_current st_root st_path st_is_array].
  - destruct tk as [t|]; [rewrite good_tbl_items in Htk; exact Htk|reflexivity].
  - eapply fin_ok_good; [exact Hr'|exact Hne|exact Hpop|]. intros cur Hcur.
    apply (wta_good (fun _ : unit => True)); [exact Hr'|]. intros p Hg. apply f_fin_std_good; assumption.
Qed.

Lemma start_array_table_ok st path dec sp :
  good_tbl (st_root st) = true -> st_current st = tbl_new -> st_path st = [] -> path <> [] ->
  step_post (start_array_table st path dec sp).
Proof.
  intros Hr Hc Hp Hne. unfold start_array_table. rewrite Hc, Hp. cbn [tbl_is_empty tbl_new t_items forallb negb].
  destruct (pop_key_some' path Hne) as (ppath & k & Hpop). rewrite Hpop.
  change (fun parent : tbl => match kv_get (t_items parent) (k_key k) with
                              | Some (_, IAot _ _) => COk (parent, tt)
                              | Some (_, _) => CErr DuplicateKey
                              | None => COk (t_set_items parent (kv_push (t_items parent) k (IAot [] None)), tt)
                              end) with (f_start_aot k).
  destruct (with_table_at (st_root st) ppath false (f_start_aot k)) as [[root' u]| |] eqn:E.
  - cbn [step_post]. unfold open_table. split; cbn [st_current st_root st_path st_is_array]; [reflexivity|].
    intros tr pos cur Hcur. rewrite (finalize_eq _ _ _ _ _ _ _ _ Hpop).
    pose proof (aot_two_descents k ppath _ _ _ Hr E cur Hcur) as W.
    destruct (with_table_at root' ppath false (f_fin_aot k cur)) as [[root'' u']| |]; cbn [cres_ok] in W; auto.
    cbn [fin_post st_root st_current st_path]. tauto.
  - exact I.
  - exfalso. eapply (wta_nopanic ppath (st_root st) false (f_start_aot k) Hr); [|exact E].
    intros p Hg s0. unfold f_start_aot. destruct (kv_get (t_items p) (k_key k)) as [[k' it]|]; [|discriminate].
    destruct it; discriminate.
Qed.

(* on_std_header / on_array_header *)
Lemma on_header_ok ia st path trailing sp :
  inv st -> path <> [] -> step_post (on_header ia st path trailing sp).
Proof.
  intros Hi Hne. unfold on_header. destruct path as [|k0 ptl] eqn:Ep; [congruence|]. rewrite <- Ep in *.
  pose proof (inv_fin st Hi) as F. destruct (finalize_table st) as [st1| |]; cbn [fin_post] in F; auto.
  destruct F as (Hr & Hc & Hp). unfold take_trailing.
  destruct ia; [apply start_array_table_ok|apply start_table_ok]; cbn [st_root st_current st_path]; auto.
Qed.
