(* Proofs/EditTextClose.v — property C08, text half, closed against the WF backbone
   (Proofs/WFPrintTop.v: WF_print_parse; Proofs/WFParseTop.v: parse_WF; Proofs/WFReplay.v).

   The backbone speaks about `abs_doc d : stree dval` (Spec/Defs.v tree with kinds, leaves = data)
   and `abs_doc_of t` (the data Display of t defines).  Spec/EditSpec.v speaks about `abs t : plain`.
   The two abstractions do NOT keep the same things:
     (1) ORDER.  `abs` keeps the storage order of every table.  TOML's syntax forces, in every
         standard table, the key/value lines (values, and tables made of dotted keys) in front of
         the sub-tables / arrays of tables; `abs_doc_of` lists them that way.  A value inserted
         after a sub-table (`Table::insert` appends) therefore comes back in front of it.
     (2) FLAGS INSIDE VALUES.  `abs` keeps the dotted bit of inline tables (sort_values needs it);
         the data of a value (Proofs/GrammarBase.v absv) does not.
     (3) A dotted INLINE table directly below a standard table (left by `into_table` of
         `{ a.b = 1 }`) is printed as dotted keys and comes back as a standard dotted table.
     (4) `abs` does not keep header / super-table kinds at all (abs_doc does).
   So `abs (doc_root d) = abs t'` is FALSE in general for the text printed from a well-formed t'
   (roundtrip_exact_refuted in Props/C08.v).  What holds, and is proved here, is equality of the DATA:
     data_of x     the data of a plain tree, every table in STORAGE order      (= tree_dval ∘ abs_doc)
     text_data x   the data of a plain tree, in every standard table the key/value lines first
                   (= tree_dval ∘ abs_doc_of); empty arrays of tables / placeholders are not data; a table made of
                   dotted keys is listed with the lines while a line is left in it (`is_line`), with the sections
                   once only the headers below it mention it (Spec/WF.v's generalised dotted-table clause)
   `data_of (abs (doc_root d)) = text_data (abs t')`: the re-parsed text holds exactly the data of
   the edited tree, each standard table listed lines-first — the one reordering TOML imposes. *)
From TV Require Import Base.Prelude Base.Utf8 Base.Winnow Gen.Consts Spec.Abnf Spec.Lex Spec.Defs Spec.DatetimeSpec Spec.Syntax Spec.WF.
From TV Require Import Model.Datetime Model.Numbers Model.Tree Model.Parse Model.Document Model.Write Model.Encode.
From TV Require Import Proofs.DefsEquivBase Proofs.GrammarBase.
From TV Require Import Proofs.WFSem Proofs.WFSemDoc Proofs.WFPrintFlat Proofs.WFTree Proofs.WFPrintTop Proofs.WFBool Proofs.WFBoolSound
                       Proofs.WFReparse Proofs.WFParseTop Proofs.WFReplay.
From TV Require Spec.Ordered.
From TV Require Import Spec.EditSpec Model.Edit Proofs.EditRefineBase Proofs.EditRefine.
From TV Require Import Proofs.EditWF Proofs.PrintBackDespan.
From TV Require Import Proofs.EditWFTextBase Proofs.EditWFTextOps Proofs.EditWFText.
Require Import Lia.

(* ==================================================================================== *)
(** * The data of a plain tree *)

(* a value: inline tables in order, flags forgotten; anything that is not a value is no datum *)
Fixpoint pd_val (x : plain) : dval :=
  match x with
  | PScalar s => abs_scalar s
  | PArr false l => DArr (map pd_val l)
  | PTab true _ l => DTab (map (fun kv => match kv with (k, c) => (k, pd_val c) end) l)
  | _ => DTab []
  end.

(* storage order *)
Fixpoint pd_node (x : plain) : dval :=
  match x with
  | PNone => DArr []
  | PTab false _ l => DTab (map (fun kv => match kv with (k, c) => (k, pd_node c) end) l)
  | PArr true l => DArr (map pd_node l)
  | _ => pd_val x
  end.
Definition data_of (x : plain) : list (bytes * dval) :=
  match x with PTab _ _ l => map (fun kv => match kv with (k, c) => (k, pd_node c) end) l | _ => [] end.

(* lines first: what stands on a key/value line of a standard table: values, and a table made of dotted keys as long
   as a line is left in it (directly or through further dotted tables) ... *)
Fixpoint is_line (c : plain) : bool :=
  match c with
  | PScalar _ | PArr false _ | PTab true _ _ => true
  | PTab false true l => (fix go (l : entries) : bool := match l with [] => false | (_, x) :: tl => is_line x || go tl end) l
  | _ => false
  end.
Lemma is_line_dotted l : is_line (PTab false true l) = existsb (fun kv => is_line (snd kv)) l.
Proof. cbn [is_line]. induction l as [|[k x] l IH]; [reflexivity|]. cbn [existsb snd]. rewrite IH. reflexivity. Qed.
(* ... and what has a header of its own, or — a table made of dotted keys without a line left — is only mentioned by
   the headers below it *)
Definition is_sec (c : plain) : bool :=
  match c with
  | PTab false false _ | PArr true (_ :: _) => true
  | PTab false true _ => negb (is_line c)
  | _ => false
  end.
Fixpoint pd_text (x : plain) : dval :=
  match x with
  | PTab false _ l =>
    DTab (flat_map (fun kv => match kv with (k, c) => if is_line c then [(k, pd_text c)] else [] end) l
          ++ flat_map (fun kv => match kv with (k, c) => if is_sec c then [(k, pd_text c)] else [] end) l)
  | PArr true l => DArr (map pd_text l)
  | _ => pd_val x
  end.
Definition t_lines (l : entries) : list (bytes * dval) :=
  flat_map (fun kv => match kv with (k, c) => if is_line c then [(k, pd_text c)] else [] end) l.
Definition t_secs (l : entries) : list (bytes * dval) :=
  flat_map (fun kv => match kv with (k, c) => if is_sec c then [(k, pd_text c)] else [] end) l.
Definition text_data (x : plain) : list (bytes * dval) :=
  match x with PTab _ _ l => t_lines l ++ t_secs l | _ => [] end.
Lemma pd_text_tab d l : pd_text (PTab false d l) = DTab (t_lines l ++ t_secs l).
Proof. reflexivity. Qed.

(* ==================================================================================== *)
(** * Bridge 1: the data of a parsed document, in storage order *)

Lemma pd_val_abs :
  (forall v, pd_val (EditSpec.abs_value v) = absv v) /\ (forall i, pd_val (EditSpec.abs_item i) = absi i).
Proof.
  pose (Pv := fun v => pd_val (EditSpec.abs_value v) = absv v).
  pose (Pi := fun i => pd_val (EditSpec.abs_item i) = absi i).
  pose (Pt := fun _ : tbl => True).
  assert (HV : forall v, Pv v).
  { apply (value_ind4 Pv Pi Pt); unfold Pv, Pi, Pt; try (intros; exact I); try reflexivity.
    - intros vals tr c d sp IH. rewrite absv_array. cbn [EditSpec.abs_value pd_val]. f_equal.
      rewrite map_map. apply map_ext_in. intros x Hx. rewrite Forall_forall in IH. exact (IH x Hx).
    - intros items pre im dt d sp IH. cbn [EditSpec.abs_value pd_val absv]. f_equal.
      rewrite map_map. rewrite Forall_forall in IH.
      induction items as [|[k i] items IHi]; [reflexivity|]. cbn [map]. f_equal.
      + f_equal. exact (IH (k, i) (or_introl eq_refl)).
      + apply IHi. intros x Hx. apply IH. right. exact Hx.
    - intros v H. exact H.
    - intros [items d im dt p sp] _. reflexivity. }
  split; [exact HV|]. intros [|v|[items d im dt p sp]|ts sp]; try reflexivity. apply HV.
Qed.

Lemma data_of_abs_doc :
  forall r, tree_dval (smap absv (DefsEquivBase.abs_tbl r)) = data_of (EditSpec.abs r).
Proof.
  pose (Pt := fun r => tree_dval (smap absv (DefsEquivBase.abs_tbl r)) = data_of (EditSpec.abs r)).
  pose (Pi := fun i => node_dval (nmap absv (DefsEquivBase.abs_item i)) = pd_node (EditSpec.abs_item i)).
  pose (Pv := fun _ : value => True).
  assert (Htb : forall items d im dt p sp,
             Forall (fun kv => Pi (snd kv)) items -> Pt (Tbl items d im dt p sp)).
  { intros items d im dt p sp IH. unfold Pt. rewrite DefsEquivBase.abs_tbl_eq. cbn [t_items].
    unfold EditSpec.abs. cbn [EditSpec.abs_tbl data_of]. unfold abs_items, smap, tree_dval. rewrite !map_map.
    apply map_ext_in. intros [k i] Hin. rewrite Forall_forall in IH. cbn [abs_kv kmap fst snd]. f_equal.
    exact (IH (k, i) Hin). }
  apply (tbl_ind4 Pv Pi Pt); unfold Pv, Pi; try (intros; exact I); try exact Htb.
  - reflexivity.
  - intros v _. cbn [DefsEquivBase.abs_item nmap node_dval EditSpec.abs_item].
    rewrite <- (proj1 pd_val_abs v). destruct v as [s r d|vals tr c d sp|items pre im dt d sp]; reflexivity.
  - intros [items d im dt p sp] IH. cbn [DefsEquivBase.abs_item]. rewrite nmap_tab. cbn [node_dval].
    change (map (fun kn : bytes * node dval => (fst kn, node_dval (snd kn))) (smap absv (DefsEquivBase.abs_tbl (Tbl items d im dt p sp))))
      with (tree_dval (smap absv (DefsEquivBase.abs_tbl (Tbl items d im dt p sp)))).
    unfold Pt in IH. rewrite IH. reflexivity.
  - intros ts sp IH. rewrite abs_item_aot, nmap_aot. cbn [node_dval EditSpec.abs_item pd_node]. f_equal.
    rewrite !map_map. apply map_ext_in. intros e Hin. rewrite Forall_forall in IH. specialize (IH e Hin). unfold Pt in IH.
    change (map (fun kn : bytes * node dval => (fst kn, node_dval (snd kn))) (smap absv (DefsEquivBase.abs_tbl e)))
      with (tree_dval (smap absv (DefsEquivBase.abs_tbl e))).
    rewrite IH. destruct e as [items d im dt p sp0]. reflexivity.
Qed.

Lemma data_of_parsed d : tree_dval (abs_doc d) = data_of (EditSpec.abs (doc_root d)).
Proof. unfold abs_doc. apply data_of_abs_doc. Qed.

(* ==================================================================================== *)
(** * Bridge 2: the data Display of a tree defines, lines first *)

Lemma node_dval_dn_item : forall it, node_dval (dres_node dval (dn_item it)) = absi it.
Proof.
  induction it as [it IH] using item_dotted_ind. destruct it as [|v|t|ts sp]; try reflexivity.
  destruct v as [x r d|vals tr c d sp|sub pre im dt d sp]; try reflexivity. destruct dt; [|reflexivity].
  specialize (IH sub pre im d sp eq_refl). cbn [absi]. rewrite absv_inline. cbn [dn_item dres_node node_dval]. f_equal.
  rewrite !map_map. apply map_ext_in. intros [k i] Hin. rewrite Forall_forall in IH. unfold absi_kv. cbn [fst snd]. f_equal.
  exact (IH (k, i) Hin).
Qed.

Definition line_part (n : snode dval) : list (node dval) := match n with SV _ | SD _ => node_res dval n | _ => [] end.
Definition sec_part (n : snode dval) : list (node dval) := match n with ST _ _ | SA _ => node_res dval n | _ => [] end.

Lemma lres_parts l : lres dval l = flat_map (fun kn => map (fun r => (fst kn, r)) (line_part (snd kn))) l.
Proof. unfold lres. apply flat_map_ext. intros [k n]. destruct n; reflexivity. Qed.
Lemma sres_parts l : sres dval l = flat_map (fun kn => map (fun r => (fst kn, r)) (sec_part (snd kn))) l.
Proof. unfold sres. apply flat_map_ext. intros [k n]. destruct n; reflexivity. Qed.

Lemma tree_dval_flat (f : key * item -> list (node dval)) (g : plain -> bool) items :
  (forall kv, In kv items -> map node_dval (f kv) = if g (EditSpec.abs_item (snd kv)) then [pd_text (EditSpec.abs_item (snd kv))] else []) ->
  tree_dval (flat_map (fun kv => map (fun r => (k_key (fst kv), r)) (f kv)) items)
  = flat_map (fun kv : bytes * plain => match kv with (k, c) => if g c then [(k, pd_text c)] else [] end)
             (map (fun kv : key * item => match kv with (k, i) => (k_key k, EditSpec.abs_item i) end) items).
Proof.
  intros H. induction items as [|[k i] items IH]; [reflexivity|]. cbn [flat_map map]. unfold tree_dval in *. rewrite map_app.
  rewrite IH by (intros kv Hin; apply H; right; exact Hin). f_equal.
  specialize (H (k, i) (or_introl eq_refl)). cbn [fst snd] in *. rewrite map_map. cbn [fst snd].
  rewrite <- (map_map node_dval (fun r => (k_key k, r))). rewrite H. destruct (g (EditSpec.abs_item i)); reflexivity.
Qed.

Lemma flat_map_map_in {A B C} (f : A -> B) (g : B -> list C) l : flat_map g (map f l) = flat_map (fun x => g (f x)) l.
Proof. induction l as [|a l IH]; [reflexivity|]. cbn [map flat_map]. rewrite IH. reflexivity. Qed.

(* a table stands on lines exactly when Spec/WF.v says it has a line of its own *)
Lemma is_line_tbl : forall t, is_line (EditSpec.abs_tbl t) = t_dotted t && has_line t.
Proof.
  induction t as [items d im dt p sp IH] using tbl_sub_ind. cbn [EditSpec.abs_tbl t_dotted]. destruct dt; [|reflexivity]. cbn [andb].
  rewrite is_line_dotted, WFTree.has_line_eq. cbn [t_items]. induction items as [|[k it] items IHi]; [reflexivity|]. inversion IH as [|? ? H1 H2]; subst.
  cbn [map existsb snd]. rewrite (IHi H2). f_equal. destruct it as [|v|sub|ts asp]; try reflexivity.
  - destruct v; reflexivity.
  - exact H1.
Qed.

Lemma text_data_abs_doc_of :
  forall r, tree_dval (abs_doc_of r) = text_data (EditSpec.abs r).
Proof.
  pose (Pt := fun r => tree_dval (bres dval (sb_tbl r)) = text_data (EditSpec.abs r)).
  pose (Pi := fun i =>
     map node_dval (line_part (sn_item i)) = (if is_line (EditSpec.abs_item i) then [pd_text (EditSpec.abs_item i)] else [])
     /\ map node_dval (sec_part (sn_item i)) = (if is_sec (EditSpec.abs_item i) then [pd_text (EditSpec.abs_item i)] else [])).
  pose (Pv := fun _ : value => True).
  assert (Htd : forall r, Pt r -> DTab (tree_dval (bres dval (sb_tbl r))) = pd_text (EditSpec.abs_tbl r)).
  { intros [items d im dt p sp] H. unfold Pt in H. rewrite H. reflexivity. }
  assert (Htb : forall items d im dt p sp,
             Forall (fun kv => Pi (snd kv)) items -> Pt (Tbl items d im dt p sp)).
  { intros items d im dt p sp IH. unfold Pt. rewrite sb_tbl_eq. cbn [t_items].
    unfold EditSpec.abs. cbn [EditSpec.abs_tbl text_data]. unfold bres, tree_dval. rewrite map_app.
    rewrite lres_parts, sres_parts. rewrite !flat_map_map_in. cbn [fst snd]. rewrite Forall_forall in IH. f_equal.
    - apply (tree_dval_flat (fun kv => line_part (sn_item (snd kv))) is_line). intros kv Hin. exact (proj1 (IH kv Hin)).
    - apply (tree_dval_flat (fun kv => sec_part (sn_item (snd kv))) is_sec). intros kv Hin. exact (proj2 (IH kv Hin)). }
  intro r. unfold abs_doc_of. change (Pt r).
  apply (tbl_ind4 Pv Pi Pt); unfold Pv; try (intros; exact I); try exact Htb.
  - split; reflexivity.
  - intros v _. unfold Pi. cbn [sn_item EditSpec.abs_item].
    assert (E : line_part (sn_dn (dn_item (IValue v))) = [dres_node dval (dn_item (IValue v))]
                /\ sec_part (sn_dn (dn_item (IValue v))) = []).
    { pose proof (node_res_sn_dn dval (dn_item (IValue v))) as R. destruct (dn_item (IValue v)); cbn [sn_dn] in *; split; try reflexivity; exact R. }
    destruct E as [E1 E2]. rewrite E1, E2. cbn [map]. rewrite node_dval_dn_item. cbn [absi].
    rewrite <- (proj1 pd_val_abs v). destruct v as [s r0 d|vals tr c d sp|items pre im dt d sp]; split; reflexivity.
  - intros sub IH. unfold Pi. cbn [sn_item EditSpec.abs_item]. pose proof (Htd sub IH) as E. pose proof (is_line_tbl sub) as EL.
    destruct sub as [items d im dt p sp]. cbn [t_dotted]. cbn [EditSpec.abs_tbl t_dotted andb] in *. destruct dt.
    + cbn [is_sec]. rewrite EL. destruct (has_line (Tbl items d im true p sp)); cbn [negb line_part sec_part].
      * rewrite node_res_SD. cbn [map node_dval].
        change (map (fun kn : bytes * node dval => (fst kn, node_dval (snd kn))) (bres dval (sb_tbl (Tbl items d im true p sp))))
          with (tree_dval (bres dval (sb_tbl (Tbl items d im true p sp)))). rewrite E. split; reflexivity.
      * rewrite node_res_ST. cbn [map node_dval].
        change (map (fun kn : bytes * node dval => (fst kn, node_dval (snd kn))) (bres dval (sb_tbl (Tbl items d im true p sp))))
          with (tree_dval (bres dval (sb_tbl (Tbl items d im true p sp)))). rewrite E. split; reflexivity.
    + cbn [line_part sec_part is_line is_sec]. rewrite node_res_ST. cbn [map node_dval].
      change (map (fun kn : bytes * node dval => (fst kn, node_dval (snd kn))) (bres dval (sb_tbl (Tbl items d im false p sp))))
        with (tree_dval (bres dval (sb_tbl (Tbl items d im false p sp)))). rewrite E. split; reflexivity.
  - intros ts sp IH. unfold Pi. cbn [sn_item EditSpec.abs_item line_part sec_part is_line]. split; [reflexivity|].
    rewrite node_res_SA. destruct ts as [|e ts]; [reflexivity|]. remember (e :: ts) as l eqn:El.
    assert (E1 : is_sec (PArr true (map EditSpec.abs_tbl l)) = true) by (rewrite El; reflexivity). rewrite E1.
    destruct (map sb_tbl l) as [|b bs] eqn:Em; [rewrite El in Em; discriminate|]. rewrite <- Em. clear El E1 Em.
    cbn [map node_dval pd_text]. do 2 f_equal.
    rewrite !map_map. apply map_ext_in. intros x Hin. rewrite Forall_forall in IH.
    change (map (fun kn : bytes * node dval => (fst kn, node_dval (snd kn))) (bres dval (sb_tbl x))) with (tree_dval (bres dval (sb_tbl x))).
    apply Htd. apply IH. exact Hin.
Qed.

(* ==================================================================================== *)
(** * When the two orders agree: no key/value line stored behind a section *)

Fixpoint ls_sorted (seen : bool) (l : entries) : bool :=
  match l with
  | [] => true
  | (_, c) :: tl =>
    if is_line c then negb seen && ls_sorted seen tl
    else if is_sec c then ls_sorted true tl
    else false
  end.
Fixpoint lines_first (x : plain) : bool :=
  match x with
  | PTab false _ l =>
    ls_sorted false l
    && (fix go (l : entries) : bool := match l with [] => true | (_, c) :: tl => lines_first c && go tl end) l
  | PArr true l => (fix go (l : list plain) : bool := match l with [] => true | c :: tl => lines_first c && go tl end) l
  | PNone => false
  | _ => true
  end.
Lemma lines_first_tab d l :
  lines_first (PTab false d l) = ls_sorted false l && forallb (fun kv => lines_first (snd kv)) l.
Proof.
  cbn [lines_first]. f_equal. induction l as [|[k c] l IH]; [reflexivity|]. cbn [forallb snd]. rewrite IH. reflexivity.
Qed.
Lemma lines_first_aot l : lines_first (PArr true l) = forallb lines_first l.
Proof. cbn [lines_first]. induction l as [|c l IH]; [reflexivity|]. cbn [forallb]. rewrite IH. reflexivity. Qed.

Lemma ls_sorted_parts : forall l,
  (ls_sorted true l = true -> t_lines l = [] /\ t_secs l = map (fun kv => match kv with (k, c) => (k, pd_text c) end) l)
  /\ (ls_sorted false l = true -> t_lines l ++ t_secs l = map (fun kv => match kv with (k, c) => (k, pd_text c) end) l).
Proof.
  induction l as [|[k c] l [IH1 IH2]]; [split; intros _; [split|]; reflexivity|].
  unfold t_lines, t_secs in *. cbn [ls_sorted flat_map map]. destruct (is_line c) eqn:L.
  - assert (S : is_sec c = false) by (destruct c as [|s|[|] ?|[|] [|] ?]; first [reflexivity|discriminate|cbn [is_sec]; rewrite L; reflexivity]). rewrite S.
    split; [intro H; discriminate|]. cbn [negb andb app]. intro H. f_equal. exact (IH2 H).
  - destruct (is_sec c) eqn:S; [|split; intro H; discriminate]. cbn [app].
    assert (G : ls_sorted true l = true ->
                flat_map (fun kv : bytes * plain => let (k0, c0) := kv in if is_line c0 then [(k0, pd_text c0)] else []) l
                ++ (k, pd_text c) :: flat_map (fun kv : bytes * plain => let (k0, c0) := kv in if is_sec c0 then [(k0, pd_text c0)] else []) l
                = (k, pd_text c) :: map (fun kv : bytes * plain => let (k0, c0) := kv in (k0, pd_text c0)) l).
    { intro H. destruct (IH1 H) as [E1 E2]. rewrite E1, E2. reflexivity. }
    split; [|exact G]. intro H. destruct (IH1 H) as [E1 E2]. rewrite E1, E2. split; reflexivity.
Qed.

Lemma lines_first_text : forall x, lines_first x = true -> pd_text x = pd_node x.
Proof.
  induction x as [|s|a l IH|il d l IH] using plain_ind2; intro H; try reflexivity; try discriminate.
  - destruct a; [|reflexivity]. rewrite lines_first_aot in H. cbn [pd_text pd_node]. f_equal. apply map_ext_in. intros c Hin.
    rewrite Forall_forall in IH. apply (IH c Hin). rewrite forallb_forall in H. exact (H c Hin).
  - destruct il; [reflexivity|]. rewrite lines_first_tab in H. apply andb_true_iff in H as [H1 H2]. rewrite pd_text_tab. cbn [pd_node]. f_equal.
    rewrite (proj2 (ls_sorted_parts l) H1). apply map_ext_in. intros [k c] Hin. f_equal.
    rewrite Forall_forall in IH. apply (IH (k, c) Hin). rewrite forallb_forall in H2. exact (H2 (k, c) Hin).
Qed.

Lemma lines_first_data : forall r, lines_first (EditSpec.abs r) = true -> text_data (EditSpec.abs r) = data_of (EditSpec.abs r).
Proof.
  intros [items d im dt p sp] H. unfold EditSpec.abs in *. cbn [EditSpec.abs_tbl] in *. rewrite lines_first_tab in H.
  apply andb_true_iff in H as [H1 H2]. cbn [text_data data_of]. rewrite (proj2 (ls_sorted_parts _) H1).
  apply map_ext_in. intros [k c] Hin. f_equal. apply lines_first_text. rewrite forallb_forall in H2. exact (H2 (k, c) Hin).
Qed.

(* ==================================================================================== *)
(** * The bridge: what the backbone's conclusion says about `abs` *)

Theorem bridge : forall d t, abs_doc d = abs_doc_of t -> data_of (EditSpec.abs (doc_root d)) = text_data (EditSpec.abs t).
Proof. intros d t H. rewrite <- data_of_parsed, H. apply text_data_abs_doc_of. Qed.

(* a well-formed tree prints as a text that parses back to its own data *)
Theorem WF_print_parse_data : forall t trailing, WF t -> raw_ok SDocTrail trailing ->
  exists d, parse_document (display_document t trailing) = POk d
            /\ abs_doc d = abs_doc_of t
            /\ data_of (EditSpec.abs (doc_root d)) = text_data (EditSpec.abs t).
Proof.
  intros t trailing Hw Hr. destruct (WF_print_parse t trailing (conj Hw Hr)) as (d & Hp & Ha).
  exists d. split; [exact Hp|]. split; [exact Ha|]. exact (bridge d t Ha).
Qed.

(* ==================================================================================== *)
(** * The text half of C08, closed *)

Theorem text_roundtrip_any_trailing : forall ops t t' trailing,
  WF t -> raw_ok SDocTrail trailing -> apply_seq ops t = Some t' -> history_side ops t = true ->
  exists d, parse_document (display_document t' trailing) = POk d
            /\ abs_doc d = abs_doc_of t'
            /\ data_of (EditSpec.abs (doc_root d)) = text_data (EditSpec.abs t')
            /\ data_of (EditSpec.abs (doc_root d)) = text_data (spec_apply_all ops (EditSpec.abs t)).
Proof.
  intros ops t t' trailing Hw Hr H Hs.
  destruct (WF_print_parse_data t' trailing (history_WF ops t t' Hw H Hs) Hr) as (d & Hp & Ha & Hd).
  exists d. split; [exact Hp|]. split; [exact Ha|]. split; [exact Hd|].
  rewrite Hd. rewrite (history_content_all ops t t' H). reflexivity.
Qed.

Theorem text_roundtrip_closed : forall ops t t',
  WF t -> apply_seq ops t = Some t' -> history_side ops t = true ->
  exists d, parse_document (display_document t' REmpty) = POk d
            /\ data_of (EditSpec.abs (doc_root d)) = text_data (EditSpec.abs t')
            /\ data_of (EditSpec.abs (doc_root d)) = text_data (spec_apply_all ops (EditSpec.abs t)).
Proof.
  intros ops t t' Hw H Hs.
  destruct (text_roundtrip_any_trailing ops t t' REmpty Hw (raw_ok_empty SDocTrail) H Hs) as (d & Hp & _ & H1 & H2).
  exists d. auto.
Qed.

(* ... with the storage order itself when no key/value line of the edited tree is stored behind a
   sub-table (decidable on the reference side: `lines_first`) *)
Theorem text_roundtrip_exact_order : forall ops t t',
  WF t -> apply_seq ops t = Some t' -> history_side ops t = true ->
  lines_first (spec_apply_all ops (EditSpec.abs t)) = true ->
  exists d, parse_document (display_document t' REmpty) = POk d
            /\ data_of (EditSpec.abs (doc_root d)) = data_of (EditSpec.abs t')
            /\ data_of (EditSpec.abs (doc_root d)) = data_of (spec_apply_all ops (EditSpec.abs t)).
Proof.
  intros ops t t' Hw H Hs Hl. destruct (text_roundtrip_closed ops t t' Hw H Hs) as (d & Hp & H1 & H2).
  rewrite <- (history_content_all ops t t' H) in Hl. pose proof (lines_first_data t' Hl) as E.
  exists d. split; [exact Hp|]. rewrite <- (history_content_all ops t t' H). rewrite <- E. auto.
Qed.

(* ==================================================================================== *)
(** * Documents that were parsed first: the premise on the tree is the order of its sections only *)

Lemma parsed_slots_despan s d0 t : parse_document s = POk d0 -> tbl_despan s (doc_root d0) = Some t -> WF_slots t.
Proof.
  intros Hp Er. destruct (parse_WF_total s d0 Hp) as [H _]. destruct (tree_despan_t s) as (_ & _ & Ht). rewrite (Ht _ _ Er). exact H.
Qed.

Theorem parsed_text_roundtrip : forall s d0 t tr ops t',
  parse_document s = POk d0 -> tbl_despan s (doc_root d0) = Some t -> raw_despan s (doc_trailing d0) = Some tr ->
  order_ok t ->
  apply_seq ops t = Some t' -> history_side ops t = true ->
  exists d, parse_document (display_document t' tr) = POk d
            /\ abs_doc d = abs_doc_of t'
            /\ data_of (EditSpec.abs (doc_root d)) = text_data (EditSpec.abs t')
            /\ data_of (EditSpec.abs (doc_root d)) = text_data (spec_apply_all ops (EditSpec.abs t)).
Proof.
  intros s d0 t tr ops t' Hp Er Et Ho H Hs. destruct (parse_WF s d0 t tr Hp Er Et) as [(Hd & Hw & Hl) Hr].
  exact (text_roundtrip_any_trailing ops t t' tr (conj Hd (conj Hw (conj Hl Ho))) Hr H Hs).
Qed.

(* ==================================================================================== *)
(** * ... and without any premise on the order: the definition rules are run on the result *)

Definition slot_side (o : op) (t : tbl) : bool := wf_side o t && lim_side o t.
Fixpoint history_slot_side (ops : list op) (t : tbl) : bool :=
  match ops with
  | [] => true
  | o :: tl => match apply o t with
               | Some t' => slot_side o t && history_slot_side tl t'
               | None => false
               end
  end.

Lemma step_slots : forall t o t', WF_slots t -> apply o t = Some t' -> slot_side o t = true -> WF_slots t'.
Proof.
  intros t o t' (Hd & Hw & _) H Hs. unfold slot_side in Hs. apply andb_true_iff in Hs as [Hs Hl].
  unfold lim_side in Hl. rewrite H in Hl. destruct (step_tbl_wf t o t' Hw H Hs) as [Hw' (Hdd & _)].
  split; [rewrite <- Hdd; exact Hd|]. split; [exact Hw'|apply tbl_lim_b_sound; exact Hl].
Qed.
Lemma history_slots : forall ops t t',
  WF_slots t -> apply_seq ops t = Some t' -> history_slot_side ops t = true -> WF_slots t'.
Proof.
  induction ops as [|o ops IH]; intros t t' Hw H Hs; simpl in *.
  - injection H as <-. exact Hw.
  - destruct (apply o t) as [t1|] eqn:E; [|discriminate]. apply andb_true_iff in Hs as [H1 H2].
    exact (IH t1 t' (step_slots t o t1 Hw E H1) H H2).
Qed.
Lemma history_side_slot : forall ops t, history_side ops t = true -> history_slot_side ops t = true.
Proof.
  induction ops as [|o ops IH]; intros t H; [reflexivity|]. simpl in *. destruct (apply o t) as [t1|]; [|discriminate].
  apply andb_true_iff in H as [H1 H2]. unfold step_side in H1. apply andb_true_iff in H1 as [H1 _].
  apply andb_true_iff. split; [exact H1|exact (IH t1 H2)].
Qed.

(* the sections of t in the order Display prints them, replayed by the definition rules of
   Spec/Defs.v, define the data of t *)
Definition replay_ok (t : tbl) : bool :=
  match spec_run (replay_stmts t) with Valid T => stree_eqb T (abs_doc_of t) | _ => false end.

Theorem slots_print_parse_data : forall t trailing, WF_slots t -> raw_ok SDocTrail trailing -> replay_ok t = true ->
  exists d, parse_document (display_document t trailing) = POk d
            /\ abs_doc d = abs_doc_of t
            /\ data_of (EditSpec.abs (doc_root d)) = text_data (EditSpec.abs t).
Proof.
  intros t trailing Hs Hr Hc. unfold replay_ok in Hc. destruct (spec_run (replay_stmts t)) as [T| |] eqn:Erun; try discriminate.
  apply stree_eqb_eq in Hc. subst T. destruct (WF_print_parse_replay t trailing _ Hs Hr Erun) as (d & Hp & Ha).
  exists d. split; [exact Hp|]. split; [exact Ha|]. exact (bridge d t Ha).
Qed.

Theorem parsed_text_roundtrip_any_order : forall s d0 t tr ops t',
  parse_document s = POk d0 -> tbl_despan s (doc_root d0) = Some t -> raw_despan s (doc_trailing d0) = Some tr ->
  apply_seq ops t = Some t' -> history_slot_side ops t = true -> replay_ok t' = true ->
  exists d, parse_document (display_document t' tr) = POk d
            /\ abs_doc d = abs_doc_of t'
            /\ data_of (EditSpec.abs (doc_root d)) = text_data (EditSpec.abs t')
            /\ data_of (EditSpec.abs (doc_root d)) = text_data (spec_apply_all ops (EditSpec.abs t)).
Proof.
  intros s d0 t tr ops t' Hp Er Et H Hs Hc. destruct (parse_WF s d0 t tr Hp Er Et) as [Hsl Hr].
  destruct (slots_print_parse_data t' tr (history_slots ops t t' Hsl H Hs) Hr Hc) as (d & Hp' & Ha & Hd).
  exists d. split; [exact Hp'|]. split; [exact Ha|]. split; [exact Hd|].
  rewrite Hd. rewrite (history_content_all ops t t' H). reflexivity.
Qed.

(* ... and when the sections are so far out of order that a sub-table is printed in front of a key/value line of
   its parent (`[a.b]` in front of `[a]`), the order of the keys in the re-parsed tables is the order of first
   mention in the text, which `abs` cannot know (it does not keep positions).  Then: the same data as UNORDERED
   tables.  `dcanon` sorts the entries of every table by key (arrays keep their order) *)
Fixpoint dcanon (v : dval) : dval :=
  match v with
  | DArr l => DArr (map dcanon l)
  | DTab l =>
    DTab (Spec.Ordered.stable_sort (fun a b : bytes * dval => Spec.Ordered.key_leb (fst a) (fst b))
            ((fix go (l : list (bytes * dval)) : list (bytes * dval) :=
                match l with [] => [] | (k, x) :: tl => (k, dcanon x) :: go tl end) l))
  | _ => v
  end.
Definition same_data (a b : list (bytes * dval)) : Prop := dcanon (DTab a) = dcanon (DTab b).
Definition same_data_b (a b : list (bytes * dval)) : bool := dval_eqb (dcanon (DTab a)) (dcanon (DTab b)).
Lemma same_data_b_sound a b : same_data_b a b = true -> same_data a b.
Proof. apply dval_eqb_eq. Qed.
Lemma same_data_refl a : same_data a a. Proof. reflexivity. Qed.

Definition replay_unordered_ok (t : tbl) : bool :=
  match spec_run (replay_stmts t) with Valid T => same_data_b (tree_dval T) (text_data (EditSpec.abs t)) | _ => false end.

Theorem parsed_text_roundtrip_unordered : forall s d0 t tr ops t',
  parse_document s = POk d0 -> tbl_despan s (doc_root d0) = Some t -> raw_despan s (doc_trailing d0) = Some tr ->
  apply_seq ops t = Some t' -> history_slot_side ops t = true -> replay_unordered_ok t' = true ->
  exists d, parse_document (display_document t' tr) = POk d
            /\ same_data (data_of (EditSpec.abs (doc_root d))) (text_data (EditSpec.abs t'))
            /\ same_data (data_of (EditSpec.abs (doc_root d))) (text_data (spec_apply_all ops (EditSpec.abs t))).
Proof.
  intros s d0 t tr ops t' Hp Er Et H Hs Hc. destruct (parse_WF s d0 t tr Hp Er Et) as [Hsl Hr].
  unfold replay_unordered_ok in Hc. destruct (spec_run (replay_stmts t')) as [T| |] eqn:Erun; try discriminate.
  apply same_data_b_sound in Hc.
  destruct (WF_print_parse_replay t' tr T (history_slots ops t t' Hsl H Hs) Hr Erun) as (d & Hp' & Ha).
  exists d. split; [exact Hp'|]. rewrite <- data_of_parsed, Ha. split; [exact Hc|].
  rewrite <- (history_content_all ops t t' H). exact Hc.
Qed.
