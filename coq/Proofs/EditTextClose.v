(* Proofs/EditTextClose.v — property C08, text half, closed against the WF backbone
   (Proofs/WFPrintTop.v: WF_print_parse; Proofs/WFParseTop.v: parse_WF; Proofs/WFReplay.v).

   The backbone speaks about `abs_doc d : stree dval` (Spec/Defs.v tree with kinds, leaves = data)
   and `abs_doc_of t` (the data Display of t defines).  Spec/EditSpec.v speaks about `abs t : plain`.
   The two abstractions do NOT keep the same things:
     (1) ORDER.  `abs` keeps the storage order of every table.  TOML's syntax forces, in every
         standard table, the key/value lines (values, and tables made of dotted keys) in front of
         the sub-tables / arrays of tables; `abs_doc_of` lists them that way.  A value inserted
         after a sub-table (`Table::insert` appends) therefore comes back in front of it.
     (2) FLAGS INSIDE VALUES.  `abs` keeps the dotted bit of inline tables (sort_values needs it);
         the data of a value (Proofs/GrammarBase.v absv) does not.
     (3) A dotted INLINE table directly below a standard table (left by `into_table` of
         `{ a.b = 1 }`) is printed as dotted keys and comes back as a standard dotted table.
     (4) `abs` does not keep header / super-table kinds at all (abs_doc does).
   So `abs (doc_root d) = abs t'` is FALSE in general for the text printed from a well-formed t'
   (roundtrip_exact_refuted in Props/C08.v).  What holds, and is proved here, is equality of the DATA:
     data_of x     the data of a plain tree, every table in STORAGE order      (= tree_dval ∘ abs_doc)
     text_data x   the data of a plain tree, in every standard table the key/value lines first
                   (= tree_dval ∘ abs_doc_of); empty arrays of tables / placeholders are not data
   `data_of (abs (doc_root d)) = text_data (abs t')`: the re-parsed text holds exactly the data of
   the edited tree, each standard table listed lines-first — the one reordering TOML imposes. *)
From TV Require Import Base.Prelude Base.Utf8 Base.Winnow Gen.Consts Spec.Abnf Spec.Lex Spec.Defs Spec.DatetimeSpec Spec.Syntax Spec.WF.
From TV Require Import Model.Datetime Model.Numbers Model.Tree Model.Parse Model.Document Model.Write Model.Encode.
From TV Require Import Proofs.DefsEquivBase Proofs.GrammarBase.
From TV Require Import Proofs.WFSem Proofs.WFSemDoc Proofs.WFPrintFlat Proofs.WFTree Proofs.WFPrintTop Proofs.WFBool Proofs.WFBoolSound
                       Proofs.WFReparse Proofs.WFParseTop Proofs.WFReplay.
From TV Require Import Spec.EditSpec Model.Edit Proofs.EditRefineBase Proofs.EditRefine.
From TV Require Import Proofs.EditWFTextBase Proofs.EditWFTextOps Proofs.EditWFText.
Require Import Lia.

(* ==================================================================================== *)
(** * The data of a plain tree *)

(* a value: inline tables in order, flags forgotten; anything that is not a value is no datum *)
Fixpoint pd_val (x : plain) : dval :=
  match x with
  | PScalar s => abs_scalar s
  | PArr false l => DArr (map pd_val l)
  | PTab true _ l => DTab (map (fun kv => match kv with (k, c) => (k, pd_val c) end) l)
  | _ => DTab []
  end.

(* storage order *)
Fixpoint pd_node (x : plain) : dval :=
  match x with
  | PNone => DArr []
  | PTab false _ l => DTab (map (fun kv => match kv with (k, c) => (k, pd_node c) end) l)
  | PArr true l => DArr (map pd_node l)
  | _ => pd_val x
  end.
Definition data_of (x : plain) : list (bytes * dval) :=
  match x with PTab _ _ l => map (fun kv => match kv with (k, c) => (k, pd_node c) end) l | _ => [] end.

(* lines first: what stands on a key/value line of a standard table ... *)
Definition is_line (c : plain) : bool :=
  match c with
  | PScalar _ | PArr false _ | PTab true _ _ | PTab false true _ => true
  | _ => false
  end.
(* ... and what has a header of its own *)
Definition is_sec (c : plain) : bool :=
  match c with
  | PTab false false _ | PArr true (_ :: _) => true
  | _ => false
  end.
Fixpoint pd_text (x : plain) : dval :=
  match x with
  | PTab false _ l =>
    DTab (flat_map (fun kv => match kv with (k, c) => if is_line c then [(k, pd_text c)] else [] end) l
          ++ flat_map (fun kv => match kv with (k, c) => if is_sec c then [(k, pd_text c)] else [] end) l)
  | PArr true l => DArr (map pd_text l)
  | _ => pd_val x
  end.
Definition t_lines (l : entries) : list (bytes * dval) :=
  flat_map (fun kv => match kv with (k, c) => if is_line c then [(k, pd_text c)] else [] end) l.
Definition t_secs (l : entries) : list (bytes * dval) :=
  flat_map (fun kv => match kv with (k, c) => if is_sec c then [(k, pd_text c)] else [] end) l.
Definition text_data (x : plain) : list (bytes * dval) :=
  match x with PTab _ _ l => t_lines l ++ t_secs l | _ => [] end.
Lemma pd_text_tab d l : pd_text (PTab false d l) = DTab (t_lines l ++ t_secs l).
Proof. reflexivity. Qed.

(* ==================================================================================== *)
(** * Bridge 1: the data of a parsed document, in storage order *)

Lemma pd_val_abs :
  (forall v, pd_val (EditSpec.abs_value v) = absv v) /\ (forall i, pd_val (EditSpec.abs_item i) = absi i).
Proof.
  pose (Pv := fun v => pd_val (EditSpec.abs_value v) = absv v).
  pose (Pi := fun i => pd_val (EditSpec.abs_item i) = absi i).
  pose (Pt := fun _ : tbl => True).
  assert (HV : forall v, Pv v).
  { apply (value_ind4 Pv Pi Pt); unfold Pv, Pi, Pt; try (intros; exact I); try reflexivity.
    - intros vals tr c d sp IH. rewrite absv_array. cbn [EditSpec.abs_value pd_val]. f_equal.
      rewrite map_map. apply map_ext_in. intros x Hx. rewrite Forall_forall in IH. exact (IH x Hx).
    - intros items pre im dt d sp IH. cbn [EditSpec.abs_value pd_val absv]. f_equal.
      rewrite map_map. rewrite Forall_forall in IH.
      induction items as [|[k i] items IHi]; [reflexivity|]. cbn [map]. f_equal.
      + f_equal. exact (IH (k, i) (or_introl eq_refl)).
      + apply IHi. intros x Hx. apply IH. right. exact Hx.
    - intros v H. exact H.
    - intros [items d im dt p sp] _. reflexivity. }
  split; [exact HV|]. intros [|v|[items d im dt p sp]|ts sp]; try reflexivity. apply HV.
Qed.

Lemma data_of_abs_doc :
  forall r, tree_dval (smap absv (DefsEquivBase.abs_tbl r)) = data_of (EditSpec.abs r).
Proof.
  pose (Pt := fun r => tree_dval (smap absv (DefsEquivBase.abs_tbl r)) = data_of (EditSpec.abs r)).
  pose (Pi := fun i => node_dval (nmap absv (DefsEquivBase.abs_item i)) = pd_node (EditSpec.abs_item i)).
  pose (Pv := fun _ : value => True).
  assert (Htb : forall items d im dt p sp,
             Forall (fun kv => Pi (snd kv)) items -> Pt (Tbl items d im dt p sp)).
  { intros items d im dt p sp IH. unfold Pt. rewrite DefsEquivBase.abs_tbl_eq. cbn [t_items].
    unfold EditSpec.abs. cbn [EditSpec.abs_tbl data_of]. unfold abs_items, smap, tree_dval. rewrite !map_map.
    apply map_ext_in. intros [k i] Hin. rewrite Forall_forall in IH. cbn [abs_kv kmap fst snd]. f_equal.
    exact (IH (k, i) Hin). }
  apply (tbl_ind4 Pv Pi Pt); unfold Pv, Pi; try (intros; exact I); try exact Htb.
  - reflexivity.
  - intros v _. cbn [DefsEquivBase.abs_item nmap node_dval EditSpec.abs_item].
    rewrite <- (proj1 pd_val_abs v). destruct v as [s r d|vals tr c d sp|items pre im dt d sp]; reflexivity.
  - intros [items d im dt p sp] IH. cbn [DefsEquivBase.abs_item]. rewrite nmap_tab. cbn [node_dval].
    change (map (fun kn : bytes * node dval => (fst kn, node_dval (snd kn))) (smap absv (DefsEquivBase.abs_tbl (Tbl items d im dt p sp))))
      with (tree_dval (smap absv (DefsEquivBase.abs_tbl (Tbl items d im dt p sp)))).
    unfold Pt in IH. rewrite IH. reflexivity.
  - intros ts sp IH. rewrite abs_item_aot, nmap_aot. cbn [node_dval EditSpec.abs_item pd_node]. f_equal.
    rewrite !map_map. apply map_ext_in. intros e Hin. rewrite Forall_forall in IH. specialize (IH e Hin). unfold Pt in IH.
    change (map (fun kn : bytes * node dval => (fst kn, node_dval (snd kn))) (smap absv (DefsEquivBase.abs_tbl e)))
      with (tree_dval (smap absv (DefsEquivBase.abs_tbl e))).
    rewrite IH. destruct e as [items d im dt p sp0]. reflexivity.
Qed.

Lemma data_of_parsed d : tree_dval (abs_doc d) = data_of (EditSpec.abs (doc_root d)).
Proof. unfold abs_doc. apply data_of_abs_doc. Qed.
