(* Proofs/PrintBackDVals.v — C03, class (d): the key/value lines of a section, through the tables that
   dotted keys make (Model/Encode.v table_values), as a structural function of the tree (`tv`). *)
From TV Require Import Base.Prelude Base.Utf8 Base.Winnow Gen.Consts.
From TV Require Import Model.Datetime Model.Numbers Model.Tree Model.Parse Model.Document Model.Write Model.Encode.
From TV Require Import Proofs.SpansDefs Proofs.PrintBackBase Proofs.PrintBackValue Proofs.PrintBackDoc Proofs.PrintBackSort Proofs.PrintBackEnts.
Require Import Lia ZifyBool ZifyN ZifyNat Sorting.Sorted Sorting.Permutation.

Fixpoint tv (t : tbl) (p : list key) {struct t} : list (list key * value) :=
  match t with
  | Tbl items _ _ _ _ _ =>
    (fix go (l : list (key * item)) : list (list key * value) :=
       match l with [] => [] | (k, it) :: tl => tvit it (p ++ [k]) ++ go tl end) items
  end
with tvit (it : item) (p : list key) {struct it} : list (list key * value) :=
  match it with
  | IValue v => [(p, v)]
  | ITable sub => if t_dotted sub then tv sub p else []
  | _ => []
  end.
Definition tvi (items : list (key * item)) (p : list key) : list (list key * value) :=
  flat_map (fun kv => tvit (snd kv) (p ++ [fst kv])) items.

Lemma tv_eq t p : tv t p = tvi (t_items t) p.
Proof.
  destruct t as [items d im dt pos sp]. cbn [tv t_items]. unfold tvi.
  induction items as [|[k it] tl IH]; [reflexivity|]. cbn [flat_map fst snd]. rewrite <- IH. reflexivity.
Qed.
Lemma tvi_app a b p : tvi (a ++ b) p = tvi a p ++ tvi b p.
Proof. apply flat_map_app. Qed.

(* ---- Table::append_values with enough fuel ------------------------------------------------------------------- *)
Definition uvals (l : list (list key * value)) : Prop := Forall (fun kv : list key * value => undot (snd kv) = true) l.

Lemma table_values_tv : forall f t p, tbl_size t < f -> uvals (tv t p) -> table_values f p (t_items t) = tv t p.
Proof.
  induction f as [|f IH]; intros t p Hf Hu; [lia|]. rewrite tv_eq in *. cbn [table_values]. unfold tvi in *.
  apply flat_map_in_ext. intros [k it] Hin. cbn [fst snd].
  assert (Hsz : item_size it <= f).
  { pose proof (kv_size_in' (t_items t) (k, it) Hin) as H. cbn [snd] in H. destruct t as [items d im dt pos sp]. cbn [tbl_size t_items] in *. lia. }
  assert (Hu' : uvals (tvit it (p ++ [k]))).
  { unfold uvals in *. rewrite Forall_forall in *. intros x Hx. apply Hu. apply in_flat_map. exists (k, it). split; [exact Hin|exact Hx]. }
  destruct it as [|v|sub|ts sp]; try reflexivity.
  - cbn [tvit] in *. inversion Hu' as [|? ? Hv _]; subst. cbn [snd] in Hv. destruct v as [x r d|vs tr c d sp|its pre im dt d sp]; try reflexivity.
    cbn [undot] in Hv. destruct dt; [discriminate|reflexivity].
  - cbn [tvit] in *. destruct sub as [sitems sd sim sdt spos ssp] eqn:Es. cbn [t_dotted] in *. destruct sdt; [|reflexivity].
    rewrite <- Es in *. assert (E : sitems = t_items sub) by (rewrite Es; reflexivity). rewrite E. apply IH; [cbn [item_size] in Hsz; lia|exact Hu'].
Qed.

(* ---- substitution of spans ------------------------------------------------------------------------------------ *)
Definition tline (s : bytes) (kv : list key * value) : list key * value := (map (tkey s) (fst kv), tvalue s (snd kv)).

Lemma tv_ttbl s :
  (forall v : value, True)
  /\ (forall it, forall p, tvit (titem s it) (map (tkey s) p) = map (tline s) (tvit it p))
  /\ (forall t, forall p, tv (ttbl s t) (map (tkey s) p) = map (tline s) (tv t p)).
Proof.
  apply tree_ind3; try (intros; exact I).
  - intros p. reflexivity.
  - intros v _ p. reflexivity.
  - intros t IH p. change (titem s (ITable t)) with (ITable (ttbl s t)). cbn [tvit]. rewrite (ttbl_fields s t) at 1. cbn [t_dotted].
    destruct (t_dotted t); [apply IH|reflexivity].
  - intros ts sp IH p. reflexivity.
  - intros items d im dt pos sp IH p. rewrite !tv_eq, ttbl_fields. cbn [t_items]. unfold tvi.
    rewrite !flat_map_concat_map, concat_map, !map_map. f_equal.
    apply map_ext_Forall. eapply Forall_impl; [|exact IH]. intros [k it] Hk. unfold tkv. cbn [fst snd] in *. rewrite <- Hk, map_app. reflexivity.
Qed.

Lemma tv_ttbl_root s t : tv (ttbl s t) [] = map (tline s) (tv t []).
Proof. apply (proj2 (proj2 (tv_ttbl s)) t []). Qed.

(* ---- trees whose values satisfy P and are not inline tables implied by dotted keys (tables made by dotted keys allowed) ---- *)
Section Shape.
Variable P : value -> bool.
Fixpoint dsh_tbl (t : tbl) : bool :=
  match t with
  | Tbl items _ _ _ _ _ =>
    (fix go (l : list (key * item)) : bool := match l with [] => true | (_, it) :: tl => dsh_item it && go tl end) items
  end
with dsh_item (it : item) : bool :=
  match it with
  | INone => false
  | IValue v => P v && undot v
  | ITable sub => dsh_tbl sub
  | IAot ts _ => (fix goa (l : list tbl) : bool := match l with [] => true | sub :: tl => negb (t_dotted sub) && dsh_tbl sub && goa tl end) ts
  end.

Lemma dsh_tbl_eq t : dsh_tbl t = forallb (fun kv => dsh_item (snd kv)) (t_items t).
Proof.
  destruct t as [items d im dt pos sp]. cbn [dsh_tbl t_items].
  induction items as [|[k it] tl IH]; [reflexivity|]. cbn [forallb snd]. rewrite <- IH. reflexivity.
Qed.
Lemma dsh_item_aot ts sp : dsh_item (IAot ts sp) = forallb (fun sub => negb (t_dotted sub) && dsh_tbl sub) ts.
Proof. cbn [dsh_item]. induction ts as [|t tl IH]; [reflexivity|]. cbn [forallb]. rewrite <- IH. reflexivity. Qed.

Definition pvals (l : list (list key * value)) : Prop := Forall (fun kv : list key * value => P (snd kv) = true /\ undot (snd kv) = true) l.

Lemma dsh_tv :
  (forall v : value, True)
  /\ (forall it, forall p, dsh_item it = true -> pvals (tvit it p))
  /\ (forall t, forall p, dsh_tbl t = true -> pvals (tv t p)).
Proof.
  apply tree_ind3; try (intros; exact I).
  - intros; constructor.
  - intros v _ p Hv. cbn [dsh_item] in Hv. apply andb_true_iff in Hv. constructor; [exact Hv|constructor].
  - intros t IH p Hs. cbn [tvit]. destruct (t_dotted t); [apply IH, Hs|constructor].
  - intros; constructor.
  - intros items d im dt pos sp IH p Hs. rewrite tv_eq. rewrite dsh_tbl_eq in Hs. cbn [t_items] in *. rewrite forallb_forall in Hs.
    unfold tvi, pvals. rewrite Forall_forall in *. intros x Hx. apply in_flat_map in Hx as ([k it] & Hk & Hx). cbn [fst snd] in Hx.
    specialize (IH _ Hk (p ++ [k]) (Hs _ Hk)). cbn [snd] in IH. unfold pvals in IH. rewrite Forall_forall in IH. apply IH, Hx.
Qed.

Definition edsh (e : entry) : Prop := dsh_tbl (fst (fst e)) = true.

Lemma ents_dsh :
  (forall v : value, True)
  /\ (forall it, forall p, dsh_item it = true -> p <> [] -> Forall (fun e => edsh e /\ epath e <> []) (ients it p))
  /\ (forall t, forall p a, dsh_tbl t = true -> p <> [] -> Forall (fun e => edsh e /\ epath e <> []) (ents t p a)).
Proof.
  apply tree_ind3; try (intros; exact I).
  - intros; constructor.
  - intros; constructor.
  - intros t IH p Hs Hp. rewrite ients_table. apply IH; assumption.
  - intros ts sp IH p Hs Hp. rewrite ients_aot. rewrite dsh_item_aot in Hs. rewrite forallb_forall in Hs.
    rewrite Forall_forall in IH. apply Forall_forall. intros e He. apply in_flat_map in He as (t & Ht & He).
    pose proof (Hs t Ht) as Hst. apply andb_true_iff in Hst as [_ Hst].
    specialize (IH t Ht p true Hst Hp). rewrite Forall_forall in IH. apply IH, He.
  - intros items d im dt pos sp IH p a Hs Hp. rewrite ents_eq. pose proof Hs as Hs0. rewrite dsh_tbl_eq in Hs. cbn [t_dotted t_items] in *.
    apply Forall_app. split.
    + destruct dt; constructor; [|constructor]. split; [exact Hs0|exact Hp].
    + unfold sub_ents. rewrite forallb_forall in Hs. rewrite Forall_forall in IH. apply Forall_forall. intros e He. apply in_flat_map in He as ([k it] & Hk & He).
      cbn [fst snd] in He. specialize (IH (k, it) Hk (p ++ [k]) (Hs _ Hk)). cbn [snd] in IH.
      assert (Hne : p ++ [k] <> []) by (destruct p; discriminate). specialize (IH Hne). rewrite Forall_forall in IH. apply IH, He.
Qed.

Lemma sub_ents_dsh t : dsh_tbl t = true -> Forall (fun e => edsh e /\ epath e <> []) (sub_ents (t_items t) []).
Proof.
  intro Hs. rewrite dsh_tbl_eq in Hs. rewrite forallb_forall in Hs.
  unfold sub_ents. rewrite Forall_forall. intros e He. apply in_flat_map in He as ([k it] & Hk & He). cbn [fst snd app] in He.
  pose proof (proj1 (proj2 ents_dsh) it [k] (Hs _ Hk) ltac:(discriminate)) as H. rewrite Forall_forall in H. apply H, He.
Qed.
End Shape.

(* ---- what one table prints ---------------------------------------------------------------------------------- *)
Definition dline (s : bytes) (kv : list key * value) : bytes :=
  encode_key_path (map (tkey s) (fst kv)) DEFAULT_KEY_DECOR ++ [x3d]
  ++ encode_value (S (value_size (tvalue s (snd kv)))) (tvalue s (snd kv)) DEFAULT_VALUE_DECOR ++ [x0a].
Definition dtext (s : bytes) (t : tbl) : bytes := flat_map (dline s) (tv t []).
Definition no_tv (t : tbl) : bool := match tv t [] with [] => true | _ => false end.
Definition dvis (e : entry) : bool := let '(t, p, a) := e in a || negb (t_implicit t && no_tv t).
Definition detxt (s : bytes) (e : entry) : bytes :=
  let '(t, p, a) := e in
  match p with
  | [] => dtext s t
  | _ => raw_encode (traw s (match d_prefix (t_decor t) with Some r => r | None => REmpty end)) []
         ++ hdr_text s p a
         ++ raw_encode (traw s (match d_suffix (t_decor t) with Some r => r | None => REmpty end)) [] ++ [x0a]
         ++ dtext s t
  end.

Lemma children_dsh P s t : dsh_tbl P t = true ->
  table_values (S (tbl_size (ttbl s t))) [] (t_items (ttbl s t)) = map (tline s) (tv t []).
Proof.
  intro Hs. rewrite <- tv_ttbl_root. apply table_values_tv; [apply Nat.lt_succ_diag_r|]. rewrite tv_ttbl_root.
  pose proof (proj2 (proj2 (dsh_tv P)) t [] Hs) as Hp. unfold uvals, pvals in *. rewrite Forall_forall in *. intros x Hx.
  apply in_map_iff in Hx as (y & <- & Hy). unfold tline. cbn [snd]. rewrite undot_tvalue. apply (Hp y Hy).
Qed.

Lemma lines_dtext s (l : list (list key * value)) :
  flat_map (fun '(kp, v) => encode_key_path kp DEFAULT_KEY_DECOR ++ [x3d] ++ encode_value (S (value_size v)) v DEFAULT_VALUE_DECOR ++ [x0a])
           (map (tline s) l)
  = flat_map (dline s) l.
Proof.
  induction l as [|[k v] tl IH]; [reflexivity|]. cbn [map flat_map]. rewrite IH. unfold dline, tline. cbn [fst snd].
  repeat first [rewrite <- app_assoc | progress cbn [app]]. reflexivity.
Qed.

Lemma dvisit_invisible P s t p a b : dsh_tbl P t = true -> p <> [] -> dvis (t, p, a) = false ->
  visit_table (ttbl s t) (map (tkey s) p) a b = ([], b).
Proof.
  intros Hs Hp Hv. unfold visit_table. rewrite (children_dsh P s t Hs). cbn [dvis] in Hv.
  apply orb_false_iff in Hv as [-> Hv]. apply negb_false_iff, andb_true_iff in Hv as [Him Hn].
  unfold no_tv in Hn. destruct (tv t []) as [|x l] eqn:Ev; [|discriminate]. cbn [map].
  rewrite ttbl_fields. cbn [t_implicit]. rewrite Him. cbn [andb negb].
  destruct (map (tkey s) p) eqn:Ep; [destruct p; [congruence|discriminate]|]. reflexivity.
Qed.

Lemma dvisit_visible Pv s t p a b : dsh_tbl Pv t = true -> (p = [] \/ (dvis (t, p, a) = true /\ decor_some (t_decor t))) ->
  fst (visit_table (ttbl s t) (map (tkey s) p) a b) = detxt s (t, p, a).
Proof.
  intros Hs Hp. unfold visit_table. rewrite (children_dsh Pv s t Hs). rewrite lines_dtext. fold (dtext s t).
  destruct Hp as [-> | [Hv [Hd1 Hd2]]].
  - cbn [map detxt]. destruct (match map _ (tv t []) with [] => true | _ => false end); reflexivity.
  - destruct p as [|k0 p0]; [cbn [map detxt]; destruct (match map _ (tv t []) with [] => true | _ => false end); reflexivity|].
    cbn [dvis] in Hv. set (P := map (tkey s) (k0 :: p0)). assert (EP : exists q0 ql, P = q0 :: ql) by (eexists _, _; reflexivity).
    destruct EP as (q0 & ql & EP). cbn [detxt]. fold P. unfold hdr_text. fold P.
    assert (Hh : forall o c, (let default := if b then ([], snd DEFAULT_TABLE_DECOR) else DEFAULT_TABLE_DECOR in
                     decor_prefix (t_decor (ttbl s t)) (fst default) ++ encode_key_comments P ++ o
                     ++ encode_header_key_path P DEFAULT_KEY_PATH_DECOR ++ c
                     ++ decor_suffix (t_decor (ttbl s t)) (snd default) ++ [x0a])
                    = raw_encode (traw s (match d_prefix (t_decor t) with Some r => r | None => REmpty end)) []
                      ++ (encode_key_comments P ++ o ++ encode_header_key_path P DEFAULT_KEY_PATH_DECOR ++ c)
                      ++ raw_encode (traw s (match d_suffix (t_decor t) with Some r => r | None => REmpty end)) [] ++ [x0a]).
    { intros o c. cbv zeta. rewrite ttbl_fields. cbn [t_decor]. unfold decor_prefix, decor_suffix, tdecor. cbn [d_prefix d_suffix].
      destruct (d_prefix (t_decor t)) as [r1|]; [|congruence]. destruct (d_suffix (t_decor t)) as [r2|]; [|congruence]. cbn [toraw].
      assert (Hraw : forall r x y, raw_encode (traw s r) x = raw_encode (traw s r) y).
      { intros r x y. destruct r as [|u|u v]; cbn [traw]; try reflexivity. unfold raw_of_bytes. destruct (slice s u v); reflexivity. }
      rewrite (Hraw r1 _ []), (Hraw r2 _ []). rewrite <- !app_assoc. reflexivity. }
    rewrite EP. rewrite <- EP.
    destruct a.
    + rewrite EP. cbn [fst]. rewrite <- EP. cbv zeta in Hh. rewrite (Hh [x5b; x5b] [x5d; x5d]). unfold hdr_open, hdr_close. rewrite <- !app_assoc. reflexivity.
    + cbn [orb] in Hv. rewrite ttbl_fields. cbn [t_implicit].
      assert (Hvis : negb (t_implicit t && match map (tline s) (tv t []) with [] => true | _ => false end) = true).
      { unfold no_tv in Hv. destruct (tv t []); exact Hv. }
      rewrite Hvis. rewrite EP. cbn [fst]. rewrite <- EP. rewrite <- ttbl_fields. cbv zeta in Hh. rewrite (Hh [x5b] [x5d]).
      unfold hdr_open, hdr_close. rewrite <- !app_assoc. reflexivity.
Qed.

(* the shape for a weaker condition on the values *)
Lemma dsh_mono (P Q : value -> bool) : (forall v, P v = true -> Q v = true) ->
  (forall v : value, True)
  /\ (forall it, dsh_item P it = true -> dsh_item Q it = true)
  /\ (forall t, dsh_tbl P t = true -> dsh_tbl Q t = true).
Proof.
  intro HPQ. apply tree_ind3; try (intros; exact I); try (intros; assumption).
  - intros v _ H. cbn [dsh_item] in *. apply andb_true_iff in H as [H1 H2]. rewrite (HPQ v H1), H2. reflexivity.
  - intros t IH H. exact (IH H).
  - intros ts sp IH H. rewrite dsh_item_aot in *. rewrite forallb_forall in *. intros t Ht. specialize (H t Ht). apply andb_true_iff in H as [H1 H2].
    rewrite H1. rewrite Forall_forall in IH. rewrite (IH t Ht H2). reflexivity.
  - intros items d im dt pos sp IH H. rewrite dsh_tbl_eq in *. cbn [t_items] in *. rewrite forallb_forall in *. intros kv Hkv.
    rewrite Forall_forall in IH. apply (IH kv Hkv), H, Hkv.
Qed.
