(* Proofs/PrintBackDItems.v — C03, class (d): a print item as it was read: where it stands in the source and
   the text it prints as. *)
From TV Require Import Base.Prelude Base.Utf8 Base.Winnow Gen.Consts Spec.Abnf Spec.Lex Spec.Syntax.
From TV Require Import Model.Trivia Model.Strings Model.Datetime Model.Numbers Model.Tree Model.Parse Model.Document Model.Write Model.Encode.
From TV Require Import Proofs.LexEquivBase Proofs.PrintBackBase Proofs.PrintBackEnc Proofs.PrintBackKey Proofs.PrintBackValue Proofs.PrintBackDoc
                       Proofs.PrintBackSort Proofs.PrintBackEnts Proofs.PrintBackHKey Proofs.PrintBackDVals Proofs.PrintBackDAll Proofs.PrintBackDKey Proofs.PrintBackIValue.
From TV Require Import Spec.Norm Proofs.TilingNormScan Proofs.TilingNormStr Proofs.TilingCmt.
From TV Require Import Proofs.GrammarBase Proofs.GrammarValueBase.
Require Import Lia ZifyBool ZifyN ZifyNat.

(* the source position of an item: the start of the header's table span; the start of the line's last key *)
Definition ppos (x : pitem) : N :=
  match x with
  | PH (Some st) _ _ _ => st
  | PH None _ _ _ => 0%N
  | PL k _ => match k_repr k with Some (RSpanned a _) => a | _ => 0%N end
  end.

Definition sitem : Type := (pitem * bytes)%type.

Definition sitem_ok (s : bytes) (it : sitem) : Prop :=
  let '(x, txt) := it in
  match x with
  | PH st q a d =>
    exists start q0 lead trail Y,
      st = Some start /\ q = Some q0 /\ d = decor_new lead trail /\ hdr_at s start a Y
      /\ txt = raw_encode (traw s lead) [] ++ (hdr_open a ++ Y ++ hdr_close a) ++ raw_encode (traw s trail) [] ++ [x0a]
  | PL k' v =>
    exists j0 i0 ja jb po LS r,
      isrc s j0 /\ rest j0 = (pre_text s po k' ++ krepr s k') ++ LS ++ [x3d] ++ r
      /\ decor_suffix (k_leaf (tkey s k')) (snd DEFAULT_KEY_DECOR) = LS /\ ws_tok LS
      /\ k_repr k' = Some (raw_with_span (pos ja, pos jb)) /\ pos ja = (pos j0 + N.of_nat (length (pre_text s po k')))%N /\ pos ja <> pos jb
      /\ d_prefix (k_leaf k') = Some (raw_with_span (pos i0, pos j0)) /\ (pos i0 = pos j0 -> lstart s (N.to_nat (pos j0)))
      /\ Forall (hkey s) po /\ lkey s k'
      /\ (forall ks, pre_text s ks k' = pre_text s po k' -> vok s v = true -> dline s (ks ++ [k'], v) = txt)
  end.

(* the comments of an item: those of the text before its key path and of the text after it *)
Definition pre_raw (d : decor) : raw := match d_prefix d with Some r => r | None => REmpty end.
Definition suf_raw (d : decor) : raw := match d_suffix d with Some r => r | None => REmpty end.
Definition line_lead (s : bytes) (k' : key) : bytes := decor_prefix (k_leaf (tkey s k')) (fst DEFAULT_KEY_DECOR).
Definition line_rest (s : bytes) (k' : key) (v : value) : bytes :=
  decor_suffix (k_leaf (tkey s k')) (snd DEFAULT_KEY_DECOR) ++ [x3d]
  ++ encode_value (S (value_size (tvalue s v))) (tvalue s v) DEFAULT_VALUE_DECOR ++ [x0a].

(* where a value comes from: it denotes the data of a `val` of the grammar, and holds values only *)
Definition val_fact (v : value) : Prop :=
  exists t a, val_tok t a /\ absv v = den a /\ aval_ok a = true /\ vwf v = true.

Definition sitem_cj (s : bytes) (it : sitem) : Prop :=
  let '(x, txt) := it in
  match x with
  | PH st q a d =>
    exists cl ct,
      cj anyf (raw_encode (traw s (pre_raw d)) []) cl
      /\ cj anyf (raw_encode (traw s (suf_raw d)) [] ++ [x0a]) ct /\ (forall r, qstop ((raw_encode (traw s (suf_raw d)) [] ++ [x0a]) ++ r))
      /\ cj anyf txt (cl ++ ct)
  | PL k' v =>
    val_fact v /\
    (vok s v = true ->
    exists cl ct,
      cj anyf (line_lead s k') cl /\ cj anyf (line_rest s k' v) ct /\ (forall r, qstop (line_rest s k' v ++ r))
      /\ cj anyf txt (cl ++ ct))
  end.

Lemma ppos_line k v ja jb : k_repr k = Some (raw_with_span (pos ja, pos jb)) -> pos ja <> pos jb -> ppos (PL k v) = pos ja.
Proof.
  intros E Hne. cbn [ppos]. rewrite E. unfold raw_with_span. cbn [fst snd]. destruct (pos ja =? pos jb)%N eqn:Q; [apply N.eqb_eq in Q; congruence|reflexivity].
Qed.
