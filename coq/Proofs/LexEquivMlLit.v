(* Proofs/LexEquivMlLit.v — L1 for ml-literal-string: the quotes helper shared by both multi-line
   kinds, the body recogniser against the ABNF shape, CR LF normalisation, and the token lemma
   in both directions (maximal munch: what follows the token is not an apostrophe). *)
From TV Require Import Base.Prelude Base.Utf8 Base.Winnow Gen.Consts Spec.Abnf Spec.Lex.
From TV Require Import Model.Datetime Model.Trivia Model.Strings Model.Numbers.
From TV Require Import Proofs.ConstsOk Proofs.LexEquivBase Proofs.LexEquivTrivia Proofs.LexEquivInt
  Proofs.LexEquivStrings.
Require Import Lia ZifyBool ZifyN ZifyNat.

(* ---- mlb_quotes / mll_quotes: two quote characters followed by term, else one ------------------------ *)
Definition q_attempt (l : bytes) (term : parser unit) : parser bytes :=
  unchecked_utf8 3 (terminated (lit l) (peek term)).

Lemma quotes2_unfold q term i :
  quotes2 q term i = match q_attempt [q; q] term i with
                     | Bt _ _ => q_attempt [q] term i
                     | r => r
                     end.
Proof. reflexivity. Qed.

Lemma q_attempt_ok l term i s x j :
  rest i = l ++ s -> term (adv l i) = Ok x j -> utf8_valid_b l = true ->
  q_attempt l term i = Ok l (adv l i).
Proof.
  intros H T V. unfold q_attempt, terminated. apply unchecked_ok; [|exact V].
  rewrite (bind_ok _ _ _ _ _ (lit_ok l i s H)). rewrite (bind_ok _ _ _ _ _ (peek_ok _ _ _ _ T)). reflexivity.
Qed.

Lemma q_attempt_fails_lit l term i : (forall s, rest i <> l ++ s) -> fails (q_attempt l term) i.
Proof. intro H. unfold q_attempt, terminated. apply unchecked_fails, bind_fails, lit_fails. exact H. Qed.

Lemma q_attempt_fails_term l term i s :
  rest i = l ++ s -> fails term (adv l i) -> fails (q_attempt l term) i.
Proof.
  intros H T. unfold q_attempt, terminated. apply unchecked_fails. unfold fails.
  rewrite (bind_ok _ _ _ _ _ (lit_ok l i s H)). apply bind_fails, peek_fails. exact T.
Qed.

Lemma q_attempt_inv l term i r i' : q_attempt l term i = Ok r i' ->
  r = l /\ splits i l i' /\ exists x j, term i' = Ok x j.
Proof.
  unfold q_attempt, terminated. intro H. apply unchecked_inv in H as [H _].
  apply bind_inv in H as (a & i1 & H1 & H). apply lit_inv in H1 as [-> S].
  apply bind_inv in H as (x & i2 & H2 & H). apply peek_inv in H2 as (-> & j & T).
  apply ret_inv in H as [-> ->]. eauto.
Qed.

Lemma quotes2_two q term i s x j :
  rest i = [q; q] ++ s -> term (adv [q; q] i) = Ok x j -> ascii q = true ->
  quotes2 q term i = Ok [q; q] (adv [q; q] i).
Proof.
  intros H T A. rewrite quotes2_unfold. rewrite (q_attempt_ok [q; q] term i s x j H T); [reflexivity|].
  apply utf8_ascii. cbn [forallb]. rewrite A. reflexivity.
Qed.

Lemma quotes2_one q term i s x j :
  rest i = [q] ++ s -> fails (q_attempt [q; q] term) i -> term (adv [q] i) = Ok x j -> ascii q = true ->
  quotes2 q term i = Ok [q] (adv [q] i).
Proof.
  intros H (e & k & F) T A. rewrite quotes2_unfold, F. apply (q_attempt_ok [q] term i s x j H T).
  apply utf8_ascii. cbn [forallb]. rewrite A. reflexivity.
Qed.

Lemma quotes2_fails q term i :
  fails (q_attempt [q; q] term) i -> fails (q_attempt [q] term) i -> fails (quotes2 q term) i.
Proof. intros (e & k & F) F1. unfold fails. rewrite quotes2_unfold, F. exact F1. Qed.

Lemma quotes2_inv q term i r i' : quotes2 q term i = Ok r i' ->
  (r = [q] \/ r = [q; q]) /\ splits i r i' /\ exists x j, term i' = Ok x j.
Proof.
  rewrite quotes2_unfold. destruct (q_attempt [q; q] term i) as [a i1|e j| |] eqn:E; try discriminate.
  - intro H. injection H as -> ->. apply q_attempt_inv in E as (-> & S & T). auto.
  - intro H. apply q_attempt_inv in H as (-> & S & T). auto.
Qed.

(* the two terminators *)
Definition not_q (q : byte) : parser unit := pvoid (none_of (byte_eqb q)).
Definition delim3 (q : byte) : parser unit := pvoid (lit [q; q; q]).

Lemma not_q_ok q i b s : rest i = b :: s -> byte_eqb q b = false -> not_q q i = Ok tt (adv [b] i).
Proof.
  intros H N. unfold not_q, none_of. apply (pvoid_ok _ _ b). apply (one_of_ok _ i b s H). rewrite N. reflexivity.
Qed.
Lemma not_q_fails_q q i s : rest i = q :: s -> fails (not_q q) i.
Proof.
  intro H. unfold not_q, none_of. apply pvoid_fails, one_of_fails. rewrite H. cbn [stops].
  rewrite byte_eqb_refl. reflexivity.
Qed.
Lemma not_q_fails_eof q i : rest i = [] -> fails (not_q q) i.
Proof. intro H. unfold not_q, none_of. apply pvoid_fails, one_of_fails. rewrite H. exact I. Qed.
Lemma not_q_inv q i x j : not_q q i = Ok x j -> exists b s, rest i = b :: s /\ byte_eqb q b = false.
Proof.
  unfold not_q, none_of. intro H. apply pvoid_inv in H as (b & H). apply one_of_inv in H as [N [S _]].
  exists b, (rest j). split; [exact S|]. destruct (byte_eqb q b); [discriminate|reflexivity].
Qed.

Lemma delim3_ok q i s : rest i = [q; q; q] ++ s -> delim3 q i = Ok tt (adv [q; q; q] i).
Proof. intro H. unfold delim3. apply (pvoid_ok _ _ [q; q; q]). apply (lit_ok _ i s H). Qed.
Lemma delim3_fails q i : (forall s, rest i <> [q; q; q] ++ s) -> fails (delim3 q) i.
Proof. intro H. unfold delim3. apply pvoid_fails, lit_fails. exact H. Qed.
Lemma delim3_inv q i x j : delim3 q i = Ok x j -> exists s, rest i = [q; q; q] ++ s.
Proof.
  unfold delim3. intro H. apply pvoid_inv in H as (a & H). apply lit_inv in H as [_ [S _]]. eauto.
Qed.

(* runs of quote characters before the closing delimiter: q^(k+3) followed by something else *)
Lemma quotes2_not_q_fails q i s :
  rest i = q :: q :: q :: s -> fails (quotes2 q (not_q q)) i.
Proof.
  intro H. apply quotes2_fails.
  - apply (q_attempt_fails_term [q; q] _ i (q :: s) H). apply (not_q_fails_q q _ s). apply (rest_adv [q; q] _ i H).
  - apply (q_attempt_fails_term [q] _ i (q :: q :: s) H). apply (not_q_fails_q q _ (q :: s)). apply (rest_adv [q] _ i H).
Qed.

(* the closing delimiter directly: no quotes belong to the body *)
Lemma quotes2_delim_0 q i s : ascii q = true ->
  rest i = q :: q :: q :: s -> stops (byte_eqb q) s -> fails (quotes2 q (delim3 q)) i.
Proof.
  intros A H Hs. apply quotes2_fails.
  - apply (q_attempt_fails_term [q; q] _ i (q :: s) H). apply delim3_fails. intros s' E.
    rewrite (rest_adv [q; q] (q :: s) i H) in E. injection E as E. subst s. cbn [stops] in Hs.
    rewrite byte_eqb_refl in Hs. discriminate.
  - apply (q_attempt_fails_term [q] _ i (q :: q :: s) H). apply delim3_fails. intros s' E.
    rewrite (rest_adv [q] (q :: q :: s) i H) in E. injection E as E. subst s. cbn [stops] in Hs.
    rewrite byte_eqb_refl in Hs. discriminate.
Qed.

(* one quote, then the delimiter *)
Lemma quotes2_delim_1 q i s : ascii q = true ->
  rest i = q :: q :: q :: q :: s -> stops (byte_eqb q) s ->
  quotes2 q (delim3 q) i = Ok [q] (adv [q] i).
Proof.
  intros A H Hs. apply (quotes2_one q _ i (q :: q :: q :: s) tt (adv [q; q; q] (adv [q] i)) H); [| |exact A].
  - apply (q_attempt_fails_term [q; q] _ i (q :: q :: s) H). apply delim3_fails. intros s' E.
    rewrite (rest_adv [q; q] (q :: q :: s) i H) in E. injection E as E. subst s. cbn [stops] in Hs.
    rewrite byte_eqb_refl in Hs. discriminate.
  - apply (delim3_ok q _ s). apply (rest_adv [q] _ i H).
Qed.

(* two quotes, then the delimiter *)
Lemma quotes2_delim_2 q i s : ascii q = true ->
  rest i = q :: q :: q :: q :: q :: s ->
  quotes2 q (delim3 q) i = Ok [q; q] (adv [q; q] i).
Proof.
  intros A H. apply (quotes2_two q _ i (q :: q :: q :: s) tt (adv [q; q; q] (adv [q; q] i)) H); [|exact A].
  apply (delim3_ok q _ s). apply (rest_adv [q; q] _ i H).
Qed.

(* one or two quotes followed by a byte that is not a quote *)
Lemma quotes2_not_q_ok q i l b s : ascii q = true -> (l = [q] \/ l = [q; q]) ->
  rest i = l ++ b :: s -> byte_eqb q b = false -> quotes2 q (not_q q) i = Ok l (adv l i).
Proof.
  intros A [-> | ->] H N.
  - apply (quotes2_one q _ i (b :: s) tt (adv [b] (adv [q] i)) H); [| |exact A].
    + apply q_attempt_fails_lit. intros s' E. rewrite H in E. injection E as E _. subst b.
      rewrite byte_eqb_refl in N. discriminate.
    + apply (not_q_ok q _ b s); [apply (rest_adv [q] _ i H)|exact N].
  - apply (quotes2_two q _ i (b :: s) tt (adv [b] (adv [q; q] i)) H); [|exact A].
    apply (not_q_ok q _ b s); [apply (rest_adv [q; q] _ i H)|exact N].
Qed.

(* ---- CR LF normalisation ------------------------------------------------------------------------------------------ *)
(* reading the text of a language from the left commutes with replace_crlf *)
Definition crlf_ok (L : lang) : Prop := forall t v, L t v -> forall s, replace_crlf (t ++ s) = v ++ replace_crlf s.

Lemma replace_crlf_cons b s : byte_eqb b x0d = false -> replace_crlf (b :: s) = b :: replace_crlf s.
Proof. intro H. destruct s as [|c r]; [reflexivity|]. cbn [replace_crlf]. rewrite H. reflexivity. Qed.

Lemma crlf_ok_one cl : (forall b, cl b = true -> byte_eqb b x0d = false) -> crlf_ok (one cl).
Proof. intros H t v (b & Hb & -> & ->) s. cbn [app]. apply replace_crlf_cons. apply H. exact Hb. Qed.

Lemma crlf_ok_newline : crlf_ok newline_lf.
Proof.
  intros t v [[-> | ->] ->] s; cbn [app].
  - apply replace_crlf_cons. reflexivity.
  - reflexivity.
Qed.

Lemma crlf_ok_keep l : forallb (fun b => negb (byte_eqb b x0d)) l = true -> crlf_ok (keep l).
Proof.
  intros H t v [-> ->] s. induction l as [|b l IH]; [reflexivity|].
  cbn [forallb] in H. apply andb_true_iff in H as [Hb Hl]. cbn [app].
  rewrite replace_crlf_cons by (destruct (byte_eqb b x0d); [discriminate|reflexivity]).
  rewrite IH by exact Hl. reflexivity.
Qed.

Lemma crlf_ok_either L1 L2 : crlf_ok L1 -> crlf_ok L2 -> crlf_ok (either L1 L2).
Proof. intros H1 H2 t v [H | H]; [apply H1|apply H2]; exact H. Qed.

Lemma crlf_ok_cat L1 L2 : crlf_ok L1 -> crlf_ok L2 -> crlf_ok (cat L1 L2).
Proof.
  intros H1 H2 t v (t1 & v1 & t2 & v2 & -> & -> & A & B) s.
  rewrite <- !app_assoc. rewrite (H1 t1 v1 A). rewrite (H2 t2 v2 B). reflexivity.
Qed.

Lemma crlf_ok_star L : crlf_ok L -> crlf_ok (star L).
Proof.
  intros H t v St. induction St as [|t1 v1 t2 v2 A _ IH]; intro s; [reflexivity|].
  rewrite <- !app_assoc. rewrite (H t1 v1 A). rewrite IH. reflexivity.
Qed.

Lemma crlf_ok_maybe L : crlf_ok L -> crlf_ok (maybe L).
Proof. intros H t v [[-> ->] | A] s; [reflexivity|apply H; exact A]. Qed.

Lemma mll_char_not_cr b : mll_char b = true -> byte_eqb b x0d = false.
Proof. cls. lia. Qed.

Lemma crlf_ok_mll_body : crlf_ok ml_literal_body_tok.
Proof.
  assert (C : crlf_ok mll_content_tok) by (apply crlf_ok_either; [apply crlf_ok_one, mll_char_not_cr|apply crlf_ok_newline]).
  assert (Q : crlf_ok mll_quotes) by (apply crlf_ok_either; apply crlf_ok_keep; reflexivity).
  apply crlf_ok_cat; [apply crlf_ok_star, C|]. apply crlf_ok_cat; [|apply crlf_ok_maybe, Q].
  apply crlf_ok_star, crlf_ok_cat; [exact Q|]. apply crlf_ok_cat; [exact C|apply crlf_ok_star, C].
Qed.

(* C02: the decoded value of a body is its text with CR LF replaced by LF *)
Lemma mll_body_value t v : ml_literal_body_tok t v -> v = replace_crlf t.
Proof.
  intro H. pose proof (crlf_ok_mll_body t v H []) as E. rewrite !app_nil_r in E. symmetry. exact E.
Qed.

(* ---- mll-content = mll-char / newline ---------------------------------------------------------------------------------- *)
Lemma mll_char_not_nl b : mll_char b = true ->
  byte_eqb x27 b = false /\ byte_eqb b x0a = false /\ byte_eqb b x0d = false.
Proof. cls. lia. Qed.

Lemma mll_content_head t v : mll_content_tok t v -> exists b t', t = b :: t' /\ byte_eqb x27 b = false.
Proof.
  intros [(b & Hb & -> & ->) | [[-> | ->] _]].
  - exists b, []. split; [reflexivity|apply (mll_char_not_nl b Hb)].
  - exists x0a, []. auto.
  - exists x0d, [x0a]. auto.
Qed.

Lemma mll_content_ok i t v r : mll_content_tok t v -> rest i = t ++ r -> exists b, mll_content i = Ok b (adv t i).
Proof.
  intros [(b & Hb & -> & ->) | [Hn ->]] H; unfold mll_content.
  - exists b. apply alt_ok. apply (one_of_ok _ i b r H). rewrite MLL_CHAR_ok. exact Hb.
  - exists x0a. rewrite alt_fails_l; [apply (pvalue_ok _ _ _ tt), (newline_complete i t r H Hn)|].
    apply one_of_fails. rewrite H. destruct Hn as [-> | ->]; reflexivity.
Qed.

Lemma mll_content_inv i b i' : mll_content i = Ok b i' ->
  exists t v, mll_content_tok t v /\ splits i t i'.
Proof.
  unfold mll_content. intro H. apply alt_inv in H as [H | [_ H]].
  - apply one_of_inv in H as [Hb S]. rewrite MLL_CHAR_ok in Hb. exists [b], [b].
    split; [left; exists b; auto|exact S].
  - apply pvalue_inv in H as (_ & u & H). apply newline_sound in H as (t & Ht & S).
    exists t, [x0a]. split; [right; split; auto|exact S].
Qed.

Lemma mll_content_shrinking : shrinking mll_content.
Proof. apply splits_shrinking. intros i a i' H. apply mll_content_inv in H as (t & _ & _ & S). eauto. Qed.

Lemma mll_content_fails_apos i s : rest i = x27 :: s -> fails mll_content i.
Proof.
  intro H. unfold mll_content. apply alt_fails.
  - apply one_of_fails. rewrite H. reflexivity.
  - apply pvalue_fails, newline_fails. rewrite H. intros (nl & t' & [-> | ->] & E); discriminate.
Qed.

Lemma runs_mll_sound i l i' : runs mll_content i l i' ->
  exists t v, star mll_content_tok t v /\ splits i t i'.
Proof.
  induction 1 as [i F|i a i1 l i2 E _ _ (t2 & v2 & St & S2)].
  - exists [], []. split; [apply star_nil|apply splits_nil].
  - apply mll_content_inv in E as (t1 & v1 & C & S1). exists (t1 ++ t2), (v1 ++ v2).
    split; [apply star_cons; assumption|apply (splits_trans _ _ _ _ _ S1 S2)].
Qed.

Lemma runs_mll_complete t v : star mll_content_tok t v -> forall i s, rest i = t ++ x27 :: s ->
  exists l, runs mll_content i l (adv t i).
Proof.
  induction 1 as [|t1 v1 t2 v2 C _ IH]; intros i s H.
  - exists []. rewrite adv_nil. apply runs_nil. apply (mll_content_fails_apos i s H).
  - rewrite <- app_assoc in H. destruct (mll_content_ok i t1 v1 _ C H) as (b & E).
    pose proof (rest_adv _ _ _ H) as R. destruct (IH _ s R) as (l & Rl).
    exists (b :: l). rewrite <- adv_adv. eapply runs_cons; [exact E| |exact Rl].
    rewrite R, H, !app_length. destruct (mll_content_head t1 v1 C) as (c & t' & -> & _). simpl; lia.
Qed.

(* ---- the body recogniser --------------------------------------------------------------------------------------------------- *)
Definition mll_qel : parser (list byte) :=
  quotes2 x27 (not_q x27) ;;; repeat1 mll_content.
Definition mll_body_rec : parser (option bytes) :=
  repeat0 mll_content ;;; repeat0 mll_qel ;;; opt (quotes2 x27 (delim3 x27)).

Lemma ml_literal_body_unfold i : ml_literal_body i = from_utf8 (taken mll_body_rec) i.
Proof. reflexivity. Qed.

Lemma mll_quotes_cases q v : mll_quotes q v -> (q = [x27] \/ q = [x27; x27]) /\ v = q.
Proof. intros [[-> ->] | [-> ->]]; auto. Qed.

Lemma mll_qel_inv i l i' : mll_qel i = Ok l i' ->
  exists t v, cat mll_quotes (star1 mll_content_tok) t v /\ splits i t i'.
Proof.
  unfold mll_qel. intro H. apply bind_inv in H as (q & i1 & H1 & H).
  apply quotes2_inv in H1 as (Hq & S1 & _).
  apply (repeat1_inv _ _ _ _ mll_content_shrinking) in H as (a & i2 & l' & -> & E & R).
  apply mll_content_inv in E as (t1 & v1 & C & S2). apply runs_mll_sound in R as (t2 & v2 & St & S3).
  exists (q ++ t1 ++ t2), (q ++ v1 ++ v2). split.
  - exists q, q, (t1 ++ t2), (v1 ++ v2). repeat split.
    + destruct Hq as [-> | ->]; [left|right]; split; reflexivity.
    + exists t1, v1, t2, v2. auto.
  - apply (splits_trans _ _ _ _ _ S1 (splits_trans _ _ _ _ _ S2 S3)).
Qed.

Lemma mll_qel_shrinking : shrinking mll_qel.
Proof. apply splits_shrinking. intros i a i' H. apply mll_qel_inv in H as (t & _ & _ & S). eauto. Qed.

Lemma runs_qel_sound i l i' : runs mll_qel i l i' ->
  exists t v, star (cat mll_quotes (star1 mll_content_tok)) t v /\ splits i t i'.
Proof.
  induction 1 as [i F|i a i1 l i2 E _ _ (t2 & v2 & St & S2)].
  - exists [], []. split; [apply star_nil|apply splits_nil].
  - apply mll_qel_inv in E as (t1 & v1 & C & S1). exists (t1 ++ t2), (v1 ++ v2).
    split; [apply star_cons; assumption|apply (splits_trans _ _ _ _ _ S1 S2)].
Qed.

Lemma mll_body_rec_sound i o i' : mll_body_rec i = Ok o i' ->
  exists t v, ml_literal_body_tok t v /\ splits i t i'.
Proof.
  unfold mll_body_rec. intro H. apply bind_inv in H as (l1 & i1 & H1 & H).
  apply (repeat0_inv _ _ _ _ mll_content_shrinking) in H1. apply runs_mll_sound in H1 as (t1 & v1 & A & S1).
  apply bind_inv in H as (l2 & i2 & H2 & H).
  apply (repeat0_inv _ _ _ _ mll_qel_shrinking) in H2. apply runs_qel_sound in H2 as (t2 & v2 & B & S2).
  assert (C : exists t3 v3, maybe mll_quotes t3 v3 /\ splits i2 t3 i').
  { apply opt_inv in H as [(q & -> & H) | (-> & -> & _)].
    - apply quotes2_inv in H as (Hq & S3 & _). exists q, q. split; [|exact S3].
      right. destruct Hq as [-> | ->]; [left|right]; split; reflexivity.
    - exists [], []. split; [left; auto|apply splits_nil]. }
  destruct C as (t3 & v3 & C & S3).
  exists (t1 ++ t2 ++ t3), (v1 ++ v2 ++ v3). split.
  - exists t1, v1, (t2 ++ t3), (v2 ++ v3). repeat split; [exact A|]. exists t2, v2, t3, v3. auto.
  - apply (splits_trans _ _ _ _ _ S1 (splits_trans _ _ _ _ _ S2 S3)).
Qed.

(* completeness: the body, then the closing delimiter, then something that is not an apostrophe *)
Lemma star1_head t v : star1 mll_content_tok t v -> exists b t', t = b :: t' /\ byte_eqb x27 b = false.
Proof.
  intros (t1 & v1 & t2 & v2 & -> & _ & C & _). destruct (mll_content_head t1 v1 C) as (b & t' & -> & N).
  exists b, (t' ++ t2). auto.
Qed.

Lemma mll_qel_ok i q vq c vc s :
  mll_quotes q vq -> star1 mll_content_tok c vc -> rest i = (q ++ c) ++ x27 :: s ->
  exists l, mll_qel i = Ok l (adv (q ++ c) i).
Proof.
  intros Hq Hc H. apply mll_quotes_cases in Hq as [Hq _].
  destruct (star1_head c vc Hc) as (b & c' & Ec & N).
  destruct Hc as (t1 & v1 & t2 & v2 & -> & _ & C & St).
  rewrite <- app_assoc in H.
  assert (H' : rest i = q ++ b :: (c' ++ x27 :: s)) by (rewrite H, Ec; reflexivity).
  unfold mll_qel. rewrite (bind_ok _ _ _ _ _ (quotes2_not_q_ok x27 i q b _ eq_refl Hq H' N)).
  pose proof (rest_adv _ _ _ H) as R. rewrite <- app_assoc in R.
  destruct (mll_content_ok _ t1 v1 _ C R) as (a & E). pose proof (rest_adv _ _ _ R) as R2.
  destruct (runs_mll_complete t2 v2 St _ s R2) as (l & Rl).
  exists (a :: l). rewrite (repeat1_runs _ _ _ _ _ _ E Rl). rewrite !adv_adv. reflexivity.
Qed.

Lemma mll_qel_fails_delim i s : rest i = x27 :: x27 :: x27 :: s -> fails mll_qel i.
Proof. intro H. unfold mll_qel. apply bind_fails. apply (quotes2_not_q_fails x27 i s H). Qed.

Lemma maybe_quotes_cases t v : maybe mll_quotes t v -> t = [] \/ t = [x27] \/ t = [x27; x27].
Proof. intros [[-> _] | [[-> _] | [-> _]]]; auto. Qed.

Lemma runs_qel_complete t v : star (cat mll_quotes (star1 mll_content_tok)) t v ->
  forall i s, rest i = t ++ x27 :: x27 :: x27 :: s -> exists l, runs mll_qel i l (adv t i).
Proof.
  induction 1 as [|t1 v1 t2 v2 (q & vq & c & vc & -> & -> & Hq & Hc) St IH]; intros i s H.
  - exists []. rewrite adv_nil. apply runs_nil. apply (mll_qel_fails_delim i s H).
  - rewrite <- app_assoc in H.
    assert (Hd : exists s', t2 ++ x27 :: x27 :: x27 :: s = x27 :: s').
    { destruct St as [|ta va tb vb (q' & vq' & c' & vc' & -> & -> & Hq' & _) _]; [cbn [app]; eauto|].
      apply mll_quotes_cases in Hq' as [[-> | ->] _]; cbn [app]; eauto. }
    destruct Hd as (s' & Es'). rewrite Es' in H.
    destruct (mll_qel_ok i q vq c vc s' Hq Hc H) as (a & E).
    pose proof (rest_adv _ _ _ H) as R. rewrite <- Es' in R. destruct (IH _ s R) as (l & Rl).
    exists (a :: l). rewrite <- adv_adv. eapply runs_cons; [exact E| |exact Rl].
    rewrite R, H, Es', !app_length. apply mll_quotes_cases in Hq as [[-> | ->] _]; simpl; lia.
Qed.

Lemma mll_body_rec_complete i t v s :
  ml_literal_body_tok t v -> rest i = t ++ [x27; x27; x27] ++ s -> stops (byte_eqb x27) s ->
  exists o, mll_body_rec i = Ok o (adv t i).
Proof.
  intros (t1 & v1 & t23 & v23 & -> & -> & A & (t2 & v2 & t3 & v3 & -> & -> & B & C)) H Hs.
  apply maybe_quotes_cases in C. rewrite <- !app_assoc in H.
  (* what follows the leading content starts with an apostrophe *)
  assert (Hd : exists s', t2 ++ t3 ++ [x27; x27; x27] ++ s = x27 :: s').
  { destruct B as [|ta va tb vb (q' & vq' & c' & vc' & -> & -> & Hq' & _) _].
    - destruct C as [-> | [-> | ->]]; cbn [app]; eauto.
    - apply mll_quotes_cases in Hq' as [[-> | ->] _]; cbn [app]; eauto. }
  destruct Hd as (s' & Es'). unfold mll_body_rec.
  assert (H1 : rest i = t1 ++ x27 :: s') by (rewrite H, Es'; reflexivity).
  destruct (runs_mll_complete t1 v1 A i s' H1) as (l1 & R1).
  rewrite (bind_ok _ _ _ _ _ (repeat0_runs _ _ _ _ R1)).
  pose proof (rest_adv _ _ _ H) as R.
  assert (Hd2 : exists s2, t3 ++ [x27; x27; x27] ++ s = x27 :: x27 :: x27 :: s2).
  { destruct C as [-> | [-> | ->]]; cbn [app]; eauto. }
  destruct Hd2 as (s2 & Es2).
  assert (H2 : rest (adv t1 i) = t2 ++ x27 :: x27 :: x27 :: s2) by (rewrite R, Es2; reflexivity).
  destruct (runs_qel_complete t2 v2 B _ s2 H2) as (l2 & R2).
  rewrite (bind_ok _ _ _ _ _ (repeat0_runs _ _ _ _ R2)).
  pose proof (rest_adv _ _ _ R) as R3.
  destruct C as [-> | [-> | ->]]; cbn [app] in R3.
  - exists None. rewrite (opt_fails _ _ (quotes2_delim_0 x27 _ s eq_refl R3 Hs)).
    rewrite !adv_adv, app_nil_r. reflexivity.
  - exists (Some [x27]). rewrite (opt_ok _ _ _ _ (quotes2_delim_1 x27 _ s eq_refl R3 Hs)).
    rewrite !adv_adv. reflexivity.
  - exists (Some [x27; x27]). rewrite (opt_ok _ _ _ _ (quotes2_delim_2 x27 _ s eq_refl R3)).
    rewrite !adv_adv. reflexivity.
Qed.

(* ---- ml-literal-string ------------------------------------------------------------------------------------------------------------ *)
Lemma ml_literal_string_unfold i :
  ml_literal_string i =
  ((lit ML_LITERAL_STRING_DELIM ;;; opt newline) ;;;
   c <- context (cut_err (pmap replace_crlf ml_literal_body)) ;;
   context (cut_err (lit ML_LITERAL_STRING_DELIM)) ;;; ret c) i.
Proof. reflexivity. Qed.

Lemma newline_tok_ascii nl : newline_tok nl -> forallb ascii nl = true.
Proof. intros [-> | ->]; reflexivity. Qed.

Lemma newline_tok_unique a b ra rb : newline_tok a -> newline_tok b -> a ++ ra = b ++ rb -> a = b.
Proof. intros [-> | ->] [-> | ->] E; try reflexivity; discriminate. Qed.

Theorem ml_literal_string_sound i v i' : ml_literal_string i = Ok v i' ->
  exists t, ml_literal_string_tok t v /\ splits i t i'.
Proof.
  rewrite ml_literal_string_unfold. unfold ML_LITERAL_STRING_DELIM. intro H.
  apply bind_inv in H as (o & i2 & H12 & H). apply bind_inv in H12 as (x & i1 & H1 & H2).
  apply lit_inv in H1 as [_ S1].
  apply bind_inv in H as (c & i3 & H3 & H). apply context_inv, cut_err_inv, pmap_inv in H3 as (T & H3 & ->).
  rewrite ml_literal_body_unfold in H3. apply from_utf8_inv in H3 as [H3 V].
  apply taken_inv in H3 as (o3 & H3 & ET). apply mll_body_rec_sound in H3 as (body & w & Hb & S3).
  rewrite (splits_taken _ _ _ S3) in ET. subst T.
  apply bind_inv in H as (y & i4 & H4 & H). apply context_inv, cut_err_inv, lit_inv in H4 as [_ S4].
  apply ret_inv in H as [-> ->].
  assert (N : exists nl, first_newline nl body /\ splits i1 nl i2).
  { apply opt_inv in H2 as [(u & -> & H2) | (-> & E2 & F)].
    - apply newline_sound in H2 as (nl & Hn & S). exists nl. split; [left; exact Hn|exact S].
    - subst i2. exists []. split; [|apply splits_nil]. right. split; [reflexivity|].
      intros (nl & t' & Hn & E). destruct S3 as [E3 _]. rewrite E, <- app_assoc in E3.
      destruct F as (e & j & F). rewrite (newline_complete i1 nl _ E3 Hn) in F. discriminate. }
  destruct N as (nl & Hnl & S2).
  exists ([x27; x27; x27] ++ nl ++ body ++ [x27; x27; x27]). split.
  - split.
    + rewrite utf8_app_ascii by reflexivity.
      assert (An : forallb ascii nl = true) by (destruct Hnl as [Hn | [-> _]]; [apply newline_tok_ascii; exact Hn|reflexivity]).
      rewrite (utf8_app_ascii nl _ An). apply utf8_join; [exact V|reflexivity].
    + exists nl, body. split; [reflexivity|]. split; [exact Hnl|].
      rewrite <- (mll_body_value body w Hb). exact Hb.
  - apply (splits_trans _ _ _ _ _ S1 (splits_trans _ _ _ _ _ S2 (splits_trans _ _ _ _ _ S3 S4))).
Qed.

(* the first byte of a body is not the start of a newline, unless the body starts with one *)
Lemma mll_body_head body v s : ml_literal_body_tok body v -> ~ starts_with_newline body ->
  ~ starts_with_newline (body ++ x27 :: s).
Proof.
  intros (t1 & v1 & t23 & v23 & -> & -> & A & (t2 & v2 & t3 & v3 & -> & -> & B & C)) N.
  assert (Hd : exists s', (t2 ++ t3) ++ x27 :: s = x27 :: s').
  { destruct B as [|ta va tb vb (q' & vq' & c' & vc' & -> & -> & Hq' & _) _].
    - apply maybe_quotes_cases in C. destruct C as [-> | [-> | ->]]; cbn [app]; eauto.
    - apply mll_quotes_cases in Hq' as [[-> | ->] _]; cbn [app]; eauto. }
  destruct Hd as (s' & Es'). rewrite <- app_assoc, Es'.
  destruct A as [|ta va tb vb [(b & Hb & -> & ->) | [Hn ->]] _].
  - cbn [app]. intros (nl & t' & [-> | ->] & E); discriminate.
  - destruct (mll_char_not_nl b Hb) as (_ & N1 & N2).
    intros (nl & t' & [-> | ->] & E); injection E as -> _; discriminate.
  - destruct N. exists ta, (tb ++ t2 ++ t3). split; [exact Hn|]. rewrite <- app_assoc. reflexivity.
Qed.

Theorem ml_literal_string_complete i t v r : ml_literal_string_tok t v -> rest i = t ++ r ->
  stops (byte_eqb x27) r -> ml_literal_string i = Ok v (adv t i).
Proof.
  intros (V & nl & body & -> & Hnl & Hb) H Hr. rewrite ml_literal_string_unfold. unfold ML_LITERAL_STRING_DELIM.
  rewrite <- !app_assoc in H.
  rewrite (bind_ok _ _ i (match nl with [] => None | _ => Some tt end) (adv nl (adv [x27; x27; x27] i))).
  2:{ rewrite (bind_ok _ _ _ _ _ (lit_ok _ i _ H)). pose proof (rest_adv _ _ _ H) as R.
      destruct Hnl as [Hn | [-> N]].
      - rewrite (opt_ok _ _ _ _ (newline_complete _ nl _ R Hn)). destruct Hn as [-> | ->]; reflexivity.
      - rewrite adv_nil. apply opt_fails, newline_fails. rewrite R. cbn [app].
        apply (mll_body_head body v _ Hb N). }
  pose proof (rest_adv _ _ _ (rest_adv _ _ _ H)) as R.
  (* well-formedness of the body *)
  assert (An : forallb ascii nl = true) by (destruct Hnl as [Hn | [-> _]]; [apply newline_tok_ascii; exact Hn|reflexivity]).
  rewrite utf8_app_ascii in V by reflexivity. rewrite (utf8_app_ascii nl _ An) in V.
  destruct (utf8_split body x27 _ eq_refl V) as [Vb _].
  destruct (mll_body_rec_complete _ body v r Hb R Hr) as (o & E).
  rewrite (bind_ok _ _ _ v (adv body (adv nl (adv [x27; x27; x27] i)))).
  - pose proof (rest_adv _ _ _ R) as R2.
    rewrite (bind_ok _ _ _ _ _ (context_ok _ _ _ _ (cut_err_ok _ _ _ _ (lit_ok [x27; x27; x27] _ r R2)))).
    unfold ret. rewrite !adv_adv. reflexivity.
  - apply context_ok, cut_err_ok. rewrite (mll_body_value body v Hb). apply pmap_ok.
    rewrite ml_literal_body_unfold. apply from_utf8_ok; [|exact Vb].
    apply (taken_ok _ _ o); [exact E|]. apply (splits_adv _ _ _ R).
Qed.

Lemma ml_literal_string_fails i : (forall s, rest i <> [x27; x27; x27] ++ s) -> fails ml_literal_string i.
Proof.
  intro H. unfold fails. rewrite ml_literal_string_unfold. unfold ML_LITERAL_STRING_DELIM.
  apply bind_fails, bind_fails, lit_fails. exact H.
Qed.

Corollary ml_literal_string_cut_only i e j : ml_literal_string i = Cut e j ->
  forall t v r, rest i = t ++ r -> stops (byte_eqb x27) r -> ~ ml_literal_string_tok t v.
Proof. intros H t v r E Hr Ht. rewrite (ml_literal_string_complete i t v r Ht E Hr) in H. discriminate. Qed.
