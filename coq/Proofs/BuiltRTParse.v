(* Proofs/BuiltRTParse.v — C06: a small "this parser reads exactly this text" calculus over the
   mini-winnow combinators (positions existentially quantified: spans do not matter for C06),
   trivia on the blanks the printer emits, the separated loops on printed lists, check_recursion. *)
From TV Require Import Base.Prelude Base.Utf8 Base.Winnow Gen.Consts.
From TV Require Import Model.Trivia Model.Strings Model.Datetime Model.Numbers Model.Tree Model.Parse.
From TV Require Import Proofs.StringsRTDefs Proofs.StringsRTBase Proofs.StringsRTMlLit.
Require Import Lia ZifyBool ZifyN ZifyNat.

(* q reads exactly t in front of r (at any offset, at nesting depth d) and its result satisfies Q *)
Definition pto {A} (q : parser A) (t r : bytes) (d : nat) (Q : A -> Prop) : Prop :=
  forall p, exists a p', q (mkIn (t ++ r) p d) = Ok a (mkIn r p' d) /\ Q a.

Lemma pto_weaken {A} (q : parser A) t r d (Q Q' : A -> Prop) :
  pto q t r d Q -> (forall a, Q a -> Q' a) -> pto q t r d Q'.
Proof. intros H HQ p. destruct (H p) as (a & p' & E & Ha). exists a, p'. auto. Qed.

Lemma pto_bind {A B} (q : parser A) (f : A -> parser B) t1 t2 r d (Q1 : A -> Prop) (Q2 : B -> Prop) :
  pto q t1 (t2 ++ r) d Q1 -> (forall a, Q1 a -> pto (f a) t2 r d Q2) -> pto (bind q f) (t1 ++ t2) r d Q2.
Proof.
  intros H1 H2 p. destruct (H1 p) as (a & p1 & E1 & HQ). destruct (H2 a HQ p1) as (b & p2 & E2 & HQ2).
  exists b, p2. split; [|exact HQ2]. rewrite <- app_assoc. rewrite (bind_ok _ _ _ _ _ E1). exact E2.
Qed.

Lemma pto_ret {A} (a : A) r d (Q : A -> Prop) : Q a -> pto (ret a) [] r d Q.
Proof. intros H p. exists a, p. split; [reflexivity|exact H]. Qed.

Lemma pto_pmap {A B} (f : A -> B) (q : parser A) t r d (Q : B -> Prop) :
  pto q t r d (fun a => Q (f a)) -> pto (pmap f q) t r d Q.
Proof. intros H p. destruct (H p) as (a & p' & E & Ha). exists (f a), p'. rewrite (pmap_ok _ _ _ _ _ E). auto. Qed.

Lemma pto_cut_err {A} (q : parser A) t r d (Q : A -> Prop) : pto q t r d Q -> pto (cut_err q) t r d Q.
Proof. intros H p. destruct (H p) as (a & p' & E & Ha). exists a, p'. rewrite (cut_err_ok _ _ _ _ E). auto. Qed.

Lemma pto_context {A} (q : parser A) t r d (Q : A -> Prop) : pto q t r d Q -> pto (context q) t r d Q.
Proof. intros H p. destruct (H p) as (a & p' & E & Ha). exists a, p'. rewrite (context_ok _ _ _ _ E). auto. Qed.

Lemma pto_span {A} (q : parser A) t r d (Q0 : A -> Prop) : pto q t r d Q0 -> pto (span_ q) t r d (fun _ => True).
Proof. intros H p. destruct (H p) as (a & p' & E & Ha). exists (p, p'), p'. unfold span_. rewrite E. auto. Qed.

Lemma pto_with_span {A} (q : parser A) t r d (Q0 : A -> Prop) :
  pto q t r d Q0 -> pto (with_span q) t r d (fun x => Q0 (fst x)).
Proof. intros H p. destruct (H p) as (a & p' & E & Ha). exists (a, (p, p')), p'. unfold with_span. rewrite E. auto. Qed.

Lemma pto_alt_l {A} (q q' : parser A) t r d (Q : A -> Prop) : pto q t r d Q -> pto (alt q q') t r d Q.
Proof. intros H p. destruct (H p) as (a & p' & E & Ha). exists a, p'. rewrite (alt_ok _ _ _ _ _ E). auto. Qed.

Lemma pto_byte x r d : pto (byte_ x) [x] r d (fun _ => True).
Proof. intro p. exists x, (p + 1)%N. split; [apply byte_yes|exact I]. Qed.

Lemma pto_eq {A} (q q' : parser A) t r d (Q : A -> Prop) :
  (forall p, q (mkIn (t ++ r) p d) = q' (mkIn (t ++ r) p d)) -> pto q' t r d Q -> pto q t r d Q.
Proof. intros E H p. rewrite E. apply H. Qed.

Lemma pto_bind_ret {A B} (q : parser A) (f : A -> B) t r d (Q1 : A -> Prop) (Q2 : B -> Prop) :
  pto q t r d Q1 -> (forall a, Q1 a -> Q2 (f a)) -> pto (bind q (fun a => ret (f a))) t r d Q2.
Proof.
  intros H HQ p. destruct (H p) as (a & p' & E & Ha). exists (f a), p'.
  rewrite (bind_ok _ _ _ _ _ E). split; [reflexivity|auto].
Qed.

Lemma pto_try_map {A B} (f : A -> tm B) (q : parser A) t r d (Q0 : A -> Prop) (Q : B -> Prop) :
  pto q t r d Q0 -> (forall a, Q0 a -> exists b, f a = TmOk b /\ Q b) -> pto (try_map f q) t r d Q.
Proof.
  intros H Hf p. destruct (H p) as (a & p' & E & Ha). destruct (Hf a Ha) as (b & Eb & Hb).
  exists b, p'. unfold try_map. rewrite E, Eb. auto.
Qed.

(* ---- blanks ------------------------------------------------------------------------------------------ *)
(* the only trivia the printer emits around constructed values and keys: nothing or one space *)
Definition sp (a : bytes) : Prop := a = [] \/ a = [x20].

Lemma pto_ws a r d : sp a -> stops (in_class WSCHAR) r -> pto ws a r d (fun _ => True).
Proof.
  intros [-> | ->] Hr p.
  - exists [], p. split; [apply ws_none; exact Hr | exact I].
  - exists [x20], (p + 1)%N. split; [|exact I]. cbn [app].
    unfold ws, unchecked_utf8, take_while0.
    pose proof (take_while_yes 0 (in_class WSCHAR) [x20] r p d eq_refl Hr (Nat.le_0_l _)) as Ht.
    cbn [app] in Ht. rewrite Ht. reflexivity.
Qed.

(* the head of r ends a run of whitespace / comments / newlines *)
Definition wscn_stop (r : bytes) : Prop :=
  match r with
  | [] => True
  | b :: _ => in_class WSCHAR b = false /\ byte_eqb b x23 = false /\ byte_eqb b x0a = false /\ byte_eqb b x0d = false
  end.

Lemma wscn_stop_ws r : wscn_stop r -> stops (in_class WSCHAR) r.
Proof. destruct r as [|b r]; [auto|]. intros [H _]. exact H. Qed.

Lemma pto_wscn a r d : sp a -> wscn_stop r -> pto ws_comment_newline a r d (fun _ => True).
Proof.
  intros Ha Hr p. destruct (pto_ws a r d Ha (wscn_stop_ws r Hr) p) as (w & p' & E & _).
  exists tt, p'. split; [|exact I].
  unfold ws_comment_newline. cbn [ws_comment_newline_f rest]. rewrite E. cbn [rest].
  destruct r as [|b r]; [reflexivity|]. destruct Hr as (_ & H1 & H2 & H3). rewrite H1, H2, H3. reflexivity.
Qed.

(* a line break and an indentation of k spaces (the multi-line array layout: k = 4 before an element, k = 0
   before the closing bracket) *)
Lemma spaces_ws k : forallb (in_class WSCHAR) (repeat x20 k) = true.
Proof. induction k as [|k IH]; [reflexivity|]. cbn [repeat forallb]. rewrite IH. reflexivity. Qed.
Lemma spaces_utf8 k : utf8_valid_b (repeat x20 k) = true.
Proof. induction k as [|k IH]; [reflexivity|]. cbn [repeat]. rewrite utf8_cons_ascii by (cbn; lia). exact IH. Qed.

Lemma ws_spaces k r p d : stops (in_class WSCHAR) r ->
  ws (mkIn (repeat x20 k ++ r) p d) = Ok (repeat x20 k) (after (repeat x20 k) r p d).
Proof.
  intro Hr. unfold ws, unchecked_utf8, take_while0.
  rewrite (take_while_yes 0 (in_class WSCHAR) (repeat x20 k) r p d (spaces_ws k) Hr (Nat.le_0_l _)).
  rewrite spaces_utf8. reflexivity.
Qed.

Definition nl_blank (k : nat) : bytes := x0a :: repeat x20 k.

Lemma wscn_f_nl f start X p d :
  ws_comment_newline_f (S f) start (mkIn (x0a :: X) p d)
  = if ((p + 1)%N =? start)%N then Ok tt (mkIn X (p + 1)%N d) else ws_comment_newline_f f (p + 1)%N (mkIn X (p + 1)%N d).
Proof.
  cbn [ws_comment_newline_f]. rewrite (ws_none (x0a :: X) p d) by reflexivity. cbn [rest].
  change (byte_eqb x0a x23) with false. change (byte_eqb x0a x0a) with true. cbv iota.
  rewrite newline_lf. cbn [pos]. reflexivity.
Qed.

Lemma wscn_f_spaces f start k r p d : wscn_stop r ->
  ws_comment_newline_f (S f) start (mkIn (repeat x20 k ++ r) p d) = Ok tt (after (repeat x20 k) r p d).
Proof.
  intro Hr. cbn [ws_comment_newline_f]. rewrite (ws_spaces k r p d (wscn_stop_ws r Hr)). unfold after. cbn [rest].
  destruct r as [|b r']; [reflexivity|]. destruct Hr as (_ & H1 & H2 & H3). rewrite H1, H2, H3. reflexivity.
Qed.

Lemma pto_wscn_nl k r d : wscn_stop r -> pto ws_comment_newline (nl_blank k) r d (fun _ => True).
Proof.
  intros Hr p. unfold nl_blank.
  exists tt, (p + 1 + N.of_nat (length (repeat x20 k)))%N. split; [|exact I].
  unfold ws_comment_newline. cbn [rest app length pos].
  rewrite wscn_f_nl. replace ((p + 1 =? p)%N) with false by (symmetry; apply N.eqb_neq; lia).
  rewrite (wscn_f_spaces _ _ k r (p + 1)%N d Hr). reflexivity.
Qed.

(* ---- check_recursion ---------------------------------------------------------------------------------- *)
Lemma pto_check_recursion {A} (q : parser A) t r d (Q : A -> Prop) :
  S d < LIMIT -> pto q t r (S d) Q -> pto (check_recursion q) t r d Q.
Proof.
  intros Hd H p. destruct (H p) as (a & p' & E & Ha). exists a, p'. split; [|exact Ha].
  unfold check_recursion, set_depth. cbn [rest pos depth].
  destruct (Nat.leb LIMIT (S d)) eqn:El; [apply Nat.leb_le in El; lia|].
  rewrite E. reflexivity.
Qed.

(* ---- separated(.., q, byte) on a printed list -------------------------------------------------------- *)
Section SepLoop.
  Context {A : Type}.
  Variable q : parser A.
  Variable sepb : byte.
  Variable d : nat.
  Variable C : bytes -> Prop.           (* what may follow an element *)

  Record seg : Type := mkSeg { seg_txt : bytes; seg_ok : A -> Prop }.
  Definition seg_parses (s : seg) : Prop := forall R, C R -> pto q (seg_txt s) R d (seg_ok s).
  Fixpoint segs_txt (l : list seg) : bytes :=
    match l with [] => [] | s :: tl => sepb :: seg_txt s ++ segs_txt tl end.

  Hypothesis C_sep : forall R, C (sepb :: R).

  Lemma C_segs tl Rend : C Rend -> C (segs_txt tl ++ Rend).
  Proof. destruct tl as [|s tl]; [auto|]. intros _. cbn [segs_txt app]. apply C_sep. Qed.

  Lemma separated_loop_segs l Rend :
    Forall seg_parses l -> C Rend -> stops (byte_eqb sepb) Rend ->
    forall fuel acc p, length (segs_txt l ++ Rend) < fuel ->
    exists res p', separated_loop fuel q (byte_ sepb) acc (mkIn (segs_txt l ++ Rend) p d)
                   = Ok (rev acc ++ res) (mkIn Rend p' d) /\ Forall2 (fun s a => seg_ok s a) l res.
  Proof.
    intros Hl HC Hstop. induction Hl as [|s tl Hs Htl IH]; intros fuel acc p Hf.
    - destruct fuel as [|f]; [lia|]. exists [], p. cbn [segs_txt app separated_loop].
      rewrite (byte_no sepb Rend p d Hstop). rewrite app_nil_r. split; [reflexivity|constructor].
    - destruct fuel as [|f]; [lia|].
      assert (Et : segs_txt (s :: tl) ++ Rend = sepb :: seg_txt s ++ segs_txt tl ++ Rend).
      { cbn [segs_txt app]. rewrite <- app_assoc. reflexivity. }
      rewrite Et in Hf |- *. cbn [separated_loop].
      rewrite byte_yes. cbn [rest length].
      rewrite (eqb_lt (length (seg_txt s ++ segs_txt tl ++ Rend))) by lia.
      destruct (Hs (segs_txt tl ++ Rend) (C_segs tl Rend HC) (p + 1)%N) as (a & p1 & E & Ha).
      rewrite E.
      destruct (IH f (a :: acc) p1) as (res & p2 & E2 & Hres).
      { cbn [length] in Hf. rewrite app_length in Hf. lia. }
      exists (a :: res), p2. split.
      + rewrite E2. cbn [rev]. rewrite <- app_assoc. reflexivity.
      + constructor; assumption.
  Qed.

  (* the same when a separator FOLLOWS the last element and the element parser backtracks on what comes after it
     (a trailing comma): the loop gives the separator back *)
  Definition bt_after (R : bytes) : Prop := forall p, exists e i', q (mkIn R p d) = Bt e i'.

  Lemma separated_loop_segs_tr l R :
    Forall seg_parses l -> bt_after R ->
    forall fuel acc p, length (segs_txt l ++ sepb :: R) < fuel ->
    exists res p', separated_loop fuel q (byte_ sepb) acc (mkIn (segs_txt l ++ sepb :: R) p d)
                   = Ok (rev acc ++ res) (mkIn (sepb :: R) p' d) /\ Forall2 (fun s a => seg_ok s a) l res.
  Proof.
    intros Hl Hbt. induction Hl as [|s tl Hs Htl IH]; intros fuel acc p Hf.
    - destruct fuel as [|f]; [lia|]. exists [], p. cbn [segs_txt app separated_loop].
      rewrite byte_yes. cbn [rest length]. rewrite (eqb_lt (length R)) by lia.
      destruct (Hbt (p + 1)%N) as (e & i' & E). rewrite E. rewrite app_nil_r. split; [reflexivity|constructor].
    - destruct fuel as [|f]; [lia|].
      assert (Et : segs_txt (s :: tl) ++ sepb :: R = sepb :: seg_txt s ++ segs_txt tl ++ sepb :: R).
      { cbn [segs_txt app]. rewrite <- app_assoc. reflexivity. }
      rewrite Et in Hf |- *. cbn [separated_loop].
      rewrite byte_yes. cbn [rest length].
      rewrite (eqb_lt (length (seg_txt s ++ segs_txt tl ++ sepb :: R))) by lia.
      destruct (Hs (segs_txt tl ++ sepb :: R) (C_segs tl (sepb :: R) (C_sep R)) (p + 1)%N) as (a & p1 & E & Ha).
      rewrite E.
      destruct (IH f (a :: acc) p1) as (res & p2 & E2 & Hres).
      { cbn [length] in Hf. rewrite app_length in Hf. lia. }
      exists (a :: res), p2. split.
      + rewrite E2. cbn [rev]. rewrite <- app_assoc. reflexivity.
      + constructor; assumption.
  Qed.

  Lemma separated0_segs_tr s0 l R :
    seg_parses s0 -> Forall seg_parses l -> bt_after R ->
    forall p, exists res p', separated0 q (byte_ sepb) (mkIn (seg_txt s0 ++ segs_txt l ++ sepb :: R) p d)
                             = Ok res (mkIn (sepb :: R) p' d) /\ Forall2 (fun s a => seg_ok s a) (s0 :: l) res.
  Proof.
    intros H0 Hl Hbt p.
    destruct (H0 (segs_txt l ++ sepb :: R) (C_segs l (sepb :: R) (C_sep R)) p) as (a & p1 & E & Ha).
    destruct (separated_loop_segs_tr l R Hl Hbt (S (length (segs_txt l ++ sepb :: R))) [a] p1 (Nat.lt_succ_diag_r _))
      as (res & p2 & E2 & Hres).
    exists (a :: res), p2. unfold separated0. rewrite E. cbn [rest]. rewrite E2. split; [reflexivity|].
    constructor; assumption.
  Qed.

  (* separated0 / separated1 on  t0 sep t1 sep t2 ... *)
  Lemma separated0_segs s0 l Rend :
    seg_parses s0 -> Forall seg_parses l -> C Rend -> stops (byte_eqb sepb) Rend ->
    forall p, exists res p', separated0 q (byte_ sepb) (mkIn (seg_txt s0 ++ segs_txt l ++ Rend) p d)
                             = Ok res (mkIn Rend p' d) /\ Forall2 (fun s a => seg_ok s a) (s0 :: l) res.
  Proof.
    intros H0 Hl HC Hstop p.
    destruct (H0 (segs_txt l ++ Rend) (C_segs l Rend HC) p) as (a & p1 & E & Ha).
    destruct (separated_loop_segs l Rend Hl HC Hstop (S (length (segs_txt l ++ Rend))) [a] p1 (Nat.lt_succ_diag_r _))
      as (res & p2 & E2 & Hres).
    exists (a :: res), p2. unfold separated0. rewrite E. cbn [rest]. rewrite E2. split; [reflexivity|].
    constructor; assumption.
  Qed.

  Lemma separated1_segs s0 l Rend :
    seg_parses s0 -> Forall seg_parses l -> C Rend -> stops (byte_eqb sepb) Rend ->
    forall p, exists res p', separated1 q (byte_ sepb) (mkIn (seg_txt s0 ++ segs_txt l ++ Rend) p d)
                             = Ok res (mkIn Rend p' d) /\ Forall2 (fun s a => seg_ok s a) (s0 :: l) res.
  Proof.
    intros H0 Hl HC Hstop p.
    destruct (H0 (segs_txt l ++ Rend) (C_segs l Rend HC) p) as (a & p1 & E & Ha).
    destruct (separated_loop_segs l Rend Hl HC Hstop (S (length (segs_txt l ++ Rend))) [a] p1 (Nat.lt_succ_diag_r _))
      as (res & p2 & E2 & Hres).
    exists (a :: res), p2. unfold separated1. rewrite E. cbn [rest]. rewrite E2. split; [reflexivity|].
    constructor; assumption.
  Qed.
End SepLoop.
