(* Proofs/WFParseTop.v — parsed documents are well-formed, top: every accepted document, despanned, satisfies all
   clauses of Spec/WF.v `WF` except `order_ok` (which is false for documents whose sections are not in the order of
   the tree walk): `parse_WF_slots`.  Assembled from
     Proofs/WFParseDoc.v    parsed_slots: decor, reprs, keys, values, limits (through the parser);
     C09's simulation       (Proofs/DefsEquivSim.v Inv, replayed as in Proofs/GrammarDoc.v): keys distinct, no
                            Item::None, arrays of tables non-empty with undotted elements;
     Proofs/WFParseFlags.v  the tree is built by the definition rules, hence super-tables are not empty and tables
                            made of dotted keys hold lines. *)
From TV Require Import Base.Prelude Base.Utf8 Base.Winnow Gen.Consts Spec.Abnf Spec.Lex Spec.Defs Spec.DatetimeSpec Spec.Syntax Spec.WF.
From TV Require Import Model.Trivia Model.Strings Model.Datetime Model.Numbers Model.Tree Model.Parse Model.Document Model.Write Model.Encode.
From TV Require Import Proofs.DefsEquivBase Proofs.DefsEquivSpec Proofs.DefsEquivSim Proofs.DefsEquivMain.
From TV Require Import Proofs.LexEquivBase Proofs.GrammarBase Proofs.GrammarDocBase Proofs.GrammarDocLine Proofs.GrammarDoc Proofs.GrammarTop.
From TV Require Import Proofs.PrintBackBase Proofs.PrintBackDespan.
From TV Require Import Proofs.WFSem Proofs.WFTok Proofs.WFPrintKey Proofs.WFPrintFlat Proofs.WFPrintValue Proofs.WFTree
                       Proofs.WFParseBase Proofs.WFParseValue Proofs.WFParseState Proofs.WFParseDoc Proofs.WFParseFlags.
Require Import Lia NArith.

(* ---- structure, from C09's simulation --------------------------------------------------------------------------------- *)
Theorem parsed_struct s d : parse_document s = POk d ->
  mok_tbl (doc_root d) = true /\ swf_tree (abs_tbl (doc_root d)) = true.
Proof.
  unfold parse_document, parse_all. intro H.
  destruct ((a <- document ;; eof ;;; ret a) (new_input s)) as [st i|e j|e j|x] eqn:E; try discriminate.
  destruct (finalize_table st) as [st'| |] eqn:Ef; try discriminate. injection H as <-. cbn [doc_root].
  apply bind_inv in E as (st0 & i0 & E & E'). apply bind_inv in E' as (u0 & i0' & _ & E'). apply ret_inv in E' as [-> _].
  rewrite document_unfold in E.
  apply bind_inv in E as (o & i1 & Eb & E). apply bind_inv in E as (stw & i2 & Ew & E).
  apply bind_inv in E as (stl & i3 & El & E). apply bind_inv in E as (u & i4 & Ee & E).
  apply eof_inv in Ee as [-> Rend]. apply ret_inv in E as [-> ->].
  apply parse_ws_inv in Ew as (w0 & sp & Hw0 & Sw & _ & ->).
  assert (D2 : depth i2 = 0).
  { rewrite (splits_depth _ _ _ Sw). apply opt_inv in Eb as [(x & _ & Eb) | (_ & -> & _)]; [|reflexivity].
    apply lit_inv in Eb as [_ Sb]. rewrite (splits_depth _ _ _ Sb). reflexivity. }
  destruct (doc_loop_sound _ _ _ _ _ sstate0 El D2 (Inv_on_ws _ _ sp Inv_init)) as (t & l & [T cp] & St & Hdl & HI & _).
  destruct (finalize_sim stl T cp HI) as (root' & Ef' & Ha & Hm). rewrite Ef' in Ef. injection Ef as <-. cbn [finalized st_root].
  split; [exact Hm|]. rewrite Ha. destruct HI as (_ & _ & _ & _ & _ & HsT & _). exact HsT.
Qed.

(* ---- flags, from the specification side -------------------------------------------------------------------------------- *)
Fixpoint flagF (t : tbl) {struct t} : Prop :=
  match t with
  | Tbl items _ _ _ _ _ =>
    all_P (fun kv => match snd kv with
                     | ITable sub => flagF sub /\ (if t_dotted sub then has_line sub = true else shown sub = true \/ prints_header sub = true)
                     | IAot ts _ => ts <> [] /\ all_P flagF ts
                     | _ => True
                     end) items
  end.
Definition fentry (kv : key * item) : Prop :=
  match snd kv with
  | ITable sub => flagF sub /\ (if t_dotted sub then has_line sub = true else shown sub = true \/ prints_header sub = true)
  | IAot ts _ => ts <> [] /\ all_P flagF ts
  | _ => True
  end.
Lemma flagF_eq t : flagF t <-> all_P fentry (t_items t).
Proof. destruct t; reflexivity. Qed.

(* a dotted table is implicit, everywhere *)
Fixpoint di_all (t : tbl) {struct t} : Prop :=
  match t with
  | Tbl items _ im dt _ _ =>
    (dt = true -> im = true)
    /\ all_P (fun kv => match snd kv with ITable sub => di_all sub | IAot ts _ => all_P di_all ts | _ => True end) items
  end.
Definition dentry (kv : key * item) : Prop := match snd kv with ITable sub => di_all sub | IAot ts _ => all_P di_all ts | _ => True end.
Lemma di_all_eq t : di_all t <-> (t_dotted t = true -> t_implicit t = true) /\ all_P dentry (t_items t).
Proof. destruct t; reflexivity. Qed.

Lemma twl_di s : forall t top h n, twl s top h n t -> di_all t.
Proof.
  induction t as [items d im dt p sp IH] using tbl_sub_ind. intros top h n H. apply twl_eq in H as (_ & Hdi & Hall). apply di_all_eq. split; [exact Hdi|].
  cbn [t_items] in *. induction items as [|[k it] items IHi]; [exact I|]. inversion IH as [|? ? H1 H2]; subst. destruct Hall as [[_ Hent] Hall].
  split; [|apply IHi; assumption]. unfold dentry. cbn [snd] in *. destruct it as [|v|sub|ts asp]; auto.
  - destruct (t_dotted sub); [eapply H1, Hent|eapply H1, (proj2 Hent)].
  - destruct Hent as [_ Hts]. clear -H1 Hts. induction ts as [|e ts IHt]; [exact I|]. inversion H1; subst. destruct Hts as [He Hts]. split; [eauto|auto].
Qed.

Lemma kind_of_dotted sub : (t_dotted sub = true -> t_implicit sub = true) ->
  kind_of sub = if t_dotted sub then KDotted else if t_implicit sub then KSuper else KHeader.
Proof. unfold kind_of. destruct (t_dotted sub), (t_implicit sub); auto. intro H. discriminate (H eq_refl). Qed.

Lemma smap_abs_tbl t : smap absv (abs_tbl t) = map (fun kv => (k_key (fst kv), nmap absv (abs_item (snd kv)))) (t_items t).
Proof. rewrite abs_tbl_eq. unfold smap, abs_items. rewrite map_map. reflexivity. Qed.

Lemma has_line_abs : forall t, di_all t -> t_line dval (smap absv (abs_tbl t)) = has_line t.
Proof.
  induction t as [items d im dt p sp IH] using tbl_sub_ind. intro Hd. apply di_all_eq in Hd as [_ Hall]. rewrite smap_abs_tbl, has_line_eq. cbn [t_items] in *.
  unfold t_line. induction items as [|[k it] items IHi]; [reflexivity|]. inversion IH as [|? ? H1 H2]; subst. destruct Hall as [Hent Hall].
  cbn [map existsb fst snd]. rewrite (IHi H2 Hall). f_equal. unfold dentry in Hent. cbn [snd] in *. destruct it as [|v|sub|ts asp]; try reflexivity.
  cbn [abs_item]. rewrite nmap_tab. pose proof Hent as Hent'. apply di_all_eq in Hent' as [Hdi _]. rewrite (kind_of_dotted sub Hdi).
  destruct (t_dotted sub); [rewrite lineish_dotted; apply H1, Hent|]. destruct (t_implicit sub); reflexivity.
Qed.

Lemma mok_items_in m k it : mok_items m = true -> In (k, it) m -> mok_item it = true.
Proof. unfold mok_items. rewrite forallb_forall. intros H Hin. exact (H (k, it) Hin). Qed.

(* a table with an entry prints something *)
Lemma nonempty_visible t : flagF t -> mok_tbl t = true -> t_items t <> [] -> has_line t = true \/ prints_header t = true.
Proof.
  intros Hf Hm Hne. apply flagF_eq in Hf. rewrite mok_tbl_eq in Hm. rewrite has_line_eq, prints_header_eq.
  destruct (t_items t) as [|[k it] items]; [congruence|]. destruct Hf as [Hent _]. unfold mok_items in Hm. cbn [forallb snd] in Hm. apply andb_true_iff in Hm as [Hm _].
  unfold fentry in Hent. cbn [existsb snd] in *. destruct it as [|v|sub|ts asp].
  - discriminate.
  - left. reflexivity.
  - destruct Hent as [_ Hc]. destruct (t_dotted sub); [left; rewrite Hc; reflexivity|]. right. cbn [negb andb]. destruct Hc as [-> | ->]; [reflexivity|apply orb_true_iff; left; apply orb_true_r].
  - right. destruct Hent as [Hn _]. destruct ts; [congruence|reflexivity].
Qed.

Lemma gtree_map_inv (items : kvs) :
  gtree dval (map (fun kv => (k_key (fst kv), nmap absv (abs_item (snd kv)))) items) ->
  Forall (fun kv => gnode dval (nmap absv (abs_item (snd kv)))) items.
Proof. unfold gtree. rewrite Forall_map. exact (fun H => H). Qed.

Theorem flags_of_gtree : forall t, di_all t -> mok_tbl t = true -> gtree dval (smap absv (abs_tbl t)) -> flagF t.
Proof.
  induction t as [items d im dt p sp IH] using tbl_sub_ind. intros Hd Hm Hg. apply di_all_eq in Hd as [_ Hd]. rewrite mok_tbl_eq in Hm. rewrite smap_abs_tbl in Hg.
  apply gtree_map_inv in Hg. apply flagF_eq. cbn [t_items] in *.
  induction items as [|[k it] items IHi]; [exact I|]. inversion IH as [|? ? H1 H2]; subst. inversion Hg as [|? ? G1 G2]; subst. destruct Hd as [Hent Hd].
  unfold mok_items in Hm. cbn [forallb snd] in Hm. apply andb_true_iff in Hm as [Hm1 Hm2].
  split; [|apply IHi; assumption]. unfold fentry, dentry in *. cbn [snd] in *. destruct it as [|v|sub|ts asp]; try exact I.
  - cbn [abs_item mok_item] in *. rewrite nmap_tab in G1. apply gnode_tab in G1 as [Gk Gt].
    assert (Hfs : flagF sub) by (apply H1; assumption). split; [exact Hfs|].
    pose proof Hent as Hent'. apply di_all_eq in Hent' as [Hdi _]. rewrite (kind_of_dotted sub Hdi) in Gk.
    destruct (t_dotted sub).
    + rewrite <- (has_line_abs sub Hent). exact Gk.
    + unfold shown. destruct (t_implicit sub); [|left; reflexivity]. cbn [andb].
      assert (Hne : t_items sub <> []).
      { intro E. apply Gk. rewrite smap_abs_tbl, E. reflexivity. }
      destruct (nonempty_visible sub Hfs Hm1 Hne) as [Hl|Hp]; [left; rewrite Hl; reflexivity|right; exact Hp].
  - rewrite abs_item_aot, nmap_aot in G1. apply gnode_aot in G1 as [Gn Ges]. rewrite mok_item_aot in Hm1.
    split; [destruct ts; [exfalso; apply Gn; reflexivity|discriminate]|].
    clear -H1 Hent Hm1 Ges. induction ts as [|e ts IHt]; [exact I|]. inversion H1; subst. cbn [map] in Ges. inversion Ges; subst. destruct Hent as [He Hent].
    cbn [forallb] in Hm1. apply andb_true_iff in Hm1 as [Hme Hm1]. unfold mok_elem in Hme. apply andb_true_iff in Hme as [_ Hme].
    split; [apply H2; assumption|apply IHt; assumption].
Qed.

(* ---- despanning does not touch the flags ----------------------------------------------------------------------------- *)
Section T.
  Variable s : bytes.
  Lemma t_flags_t t : t_dotted (ttbl s t) = t_dotted t /\ t_implicit (ttbl s t) = t_implicit t.
  Proof. destruct t. rewrite ttbl_eq. auto. Qed.
  Lemma t_items_t t : t_items (ttbl s t) = map (tkv s) (t_items t).
  Proof. destruct t. rewrite ttbl_eq. reflexivity. Qed.
  Lemma has_line_t : forall t, has_line (ttbl s t) = has_line t.
  Proof.
    induction t as [items d im dt p sp IH] using tbl_sub_ind. rewrite !has_line_eq, t_items_t. cbn [t_items].
    induction items as [|[k it] items IHi]; [reflexivity|]. inversion IH as [|? ? H1 H2]; subst. cbn [map existsb tkv fst snd]. rewrite (IHi H2). f_equal.
    destruct it as [|v|sub|ts asp]; try reflexivity. change (titem s (ITable sub)) with (ITable (ttbl s sub)). cbv beta iota.
    rewrite (proj1 (t_flags_t sub)). cbn [snd] in H1. rewrite H1. reflexivity.
  Qed.
  Lemma shown_t t : shown (ttbl s t) = shown t.
  Proof. unfold shown. rewrite has_line_t, (proj2 (t_flags_t t)). reflexivity. Qed.
  Lemma prints_header_t : forall t, prints_header (ttbl s t) = prints_header t.
  Proof.
    induction t as [items d im dt p sp IH] using tbl_sub_ind. rewrite !prints_header_eq, t_items_t. cbn [t_items].
    induction items as [|[k it] items IHi]; [reflexivity|]. inversion IH as [|? ? H1 H2]; subst. cbn [map existsb tkv fst snd]. rewrite (IHi H2). f_equal.
    destruct it as [|v|sub|ts asp]; try reflexivity.
    - change (titem s (ITable sub)) with (ITable (ttbl s sub)). cbv beta iota. rewrite (proj1 (t_flags_t sub)), shown_t. cbn [snd] in H1. rewrite H1. reflexivity.
    - rewrite titem_aot. destruct ts; reflexivity.
  Qed.

  Lemma snodup_nodup {V} (t : stree V) : snodup t = true -> NoDup (map fst t).
  Proof.
    induction t as [|[k n] t IH]; [constructor|]. cbn [snodup map fst]. destruct (sget t k) eqn:E; [discriminate|]. intro H.
    constructor; [apply (sget_none_notin V), E|apply IH, H].
  Qed.

  (* ---- all together ---------------------------------------------------------------------------------------------------- *)
  Lemma assemble : forall t top h n,
    twl s top h n t -> swf_tree (abs_tbl t) = true -> mok_tbl t = true -> flagF t ->
    tbl_wf top (ttbl s t) /\ tbl_lim h n (ttbl s t).
  Proof.
    induction t as [items d im dt p sp IH] using tbl_sub_ind. intros top h n Ht Hs Hm Hf.
    apply twl_eq in Ht as (Hd & _ & Hall). apply flagF_eq in Hf. rewrite mok_tbl_eq in Hm. rewrite abs_tbl_eq in Hs. cbn [t_items t_decor] in *.
    unfold swf_tree in Hs. apply andb_true_iff in Hs as [Hsn Hnd].
    rewrite ttbl_eq. cbn [tbl_wf tbl_lim].
    assert (Hkeys : NoDup (kkeys (map (tkv s) items))).
    { rewrite kkeys_tkv. apply snodup_nodup in Hnd. unfold abs_items in Hnd. rewrite map_map in Hnd. exact Hnd. }
    assert (G : all_P (fun kv => key_wf true (fst kv) /\
                                 match snd kv with
                                 | INone => False
                                 | IValue _ => pair_wf true (snd kv)
                                 | ITable sub => tbl_wf false sub /\ (if t_dotted sub then has_line sub = true \/ prints_header sub = true
                                                                      else shown sub = true \/ prints_header sub = true)
                                 | IAot ts _ => ts <> [] /\ all_P (fun e => t_dotted e = false /\ tbl_wf false e) ts
                                 end) (map (tkv s) items)
                /\ all_P (fun kv => match snd kv with
                                    | IValue _ => line_lim (S n) (snd kv)
                                    | ITable sub => if t_dotted sub then tbl_lim (S h) (S n) sub else S h < LIMIT /\ tbl_lim (S h) 0 sub
                                    | IAot ts _ => S h < LIMIT /\ all_P (fun e => tbl_lim (S h) 0 e) ts
                                    | INone => True
                                    end) (map (tkv s) items)).
    { clear Hkeys Hnd Hd. unfold abs_items in Hsn. rewrite forallb_map in Hsn || idtac.
      induction items as [|[k it] items IHi]; [split; exact I|]. inversion IH as [|? ? H1 H2]; subst.
      destruct Hall as [[Hk Hent] Hall]. destruct Hf as [Hfe Hf]. unfold mok_items in Hm. cbn [forallb snd] in Hm. apply andb_true_iff in Hm as [Hm1 Hm2].
      cbn [map forallb abs_kv fst snd] in Hsn. apply andb_true_iff in Hsn as [Hs1 Hs2].
      destruct (IHi H2 Hall Hs2 Hm2 Hf) as [G1 G2]. cbn [map all_P tkv fst snd]. unfold fentry in Hfe. cbn [snd fst] in *.
      destruct it as [|v|sub|ts asp].
      - discriminate.
      - change (titem s (IValue v)) with (IValue (tvalue s v)). destruct Hent as [Hw Hl]. split; (split; [|assumption]); auto.
      - change (titem s (ITable sub)) with (ITable (ttbl s sub)). cbn [abs_item mok_item] in *. rewrite swf_node_tab in Hs1. destruct Hfe as [Hfs Hfc].
        rewrite (proj1 (t_flags_t sub)), has_line_t, shown_t, prints_header_t.
        destruct (t_dotted sub) eqn:Ed.
        + destruct (H1 false (S h) (S n) Hent Hs1 Hm1 Hfs) as [W L]. split; (split; [|assumption]); auto.
        + destruct Hent as [Hh Hent]. destruct (H1 false (S h) 0 Hent Hs1 Hm1 Hfs) as [W L]. split; (split; [|assumption]); auto.
      - rewrite titem_aot. rewrite abs_item_aot, swf_node_aot in Hs1. apply andb_true_iff in Hs1 as [_ Hs1]. rewrite mok_item_aot in Hm1.
        destruct Hent as [Hh Hts]. destruct Hfe as [Hne Hfts].
        assert (Gts : all_P (fun e => t_dotted e = false /\ tbl_wf false e) (map (ttbl s) ts) /\ all_P (fun e => tbl_lim (S h) 0 e) (map (ttbl s) ts)).
        { clear -H1 Hts Hfts Hs1 Hm1. induction ts as [|e ts IHt]; [split; exact I|]. inversion H1; subst. destruct Hts as [He Hts]. destruct Hfts as [Hfe Hfts].
          cbn [forallb map] in *. apply andb_true_iff in Hs1 as [Hse Hs1]. apply andb_true_iff in Hm1 as [Hme Hm1]. unfold mok_elem in Hme. apply andb_true_iff in Hme as [Hde Hme].
          rewrite forallb_map in Hse || idtac.
          destruct (IHt Hts Hs1 Hm1 Hfts H3) as [A B]. destruct (H2 false (S h) 0 He Hse Hme Hfe) as [W L]. cbn [all_P].
          rewrite (proj1 (t_flags_t e)). apply negb_true_iff in Hde. auto. }
        destruct Gts as [A B]. split; (split; [|assumption]); auto. split; [exact Hk|]. split; [destruct ts; [congruence|discriminate]|exact A]. }
    destruct G as [G1 G2]. split; [split; [exact Hd|split; [exact Hkeys|exact G1]]|exact G2].
  Qed.
End T.

(* ---- THE theorem: every accepted document is well-formed, up to the order of its sections ------------------------- *)
Definition WF_slots (root : tbl) : Prop := t_dotted root = false /\ tbl_wf true root /\ tbl_lim 0 0 root.

Theorem parse_WF_total s d : parse_document s = POk d ->
  WF_slots (ttbl s (doc_root d)) /\ raw_ok SDocTrail (traw s (doc_trailing d)).
Proof.
  intro Hp. destruct (parsed_slots s d Hp) as (Htw & Hrd & Htr). destruct (parsed_struct s d Hp) as [Hm Hs].
  destruct (parse_document_sound s d Hp) as (stmts & _ & _ & _ & Hrun).
  pose proof (code_run_g dval _ _ Hrun) as Hg. unfold abs_doc in Hg.
  pose proof (flags_of_gtree (doc_root d) (twl_di s _ _ _ _ Htw) Hm Hg) as Hf.
  destruct (assemble s (doc_root d) true 0 0 Htw Hs Hm Hf) as [W L].
  split; [|exact Htr]. split; [|split; [exact W|exact L]].
  rewrite (proj1 (t_flags_t s (doc_root d))). exact Hrd.
Qed.

(* in terms of the partial despan of Model/Encode.v (ImDocument::into_mut) *)
Theorem parse_WF s d r t : parse_document s = POk d ->
  tbl_despan s (doc_root d) = Some r -> raw_despan s (doc_trailing d) = Some t ->
  WF_slots r /\ raw_ok SDocTrail t.
Proof.
  intros Hp Er Et. destruct (parse_WF_total s d Hp) as [H1 H2].
  rewrite (raw_despan_traw s _ _ Et). destruct (tree_despan_t s) as (_ & _ & Ht). rewrite (Ht _ _ Er). auto.
Qed.
