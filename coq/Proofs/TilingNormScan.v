(* Proofs/TilingNormScan.v — C03, scanner side, part 1: the streaming view of Spec/Norm.v.
     - a labelled text zs : list (byte * label); `outz` (the bytes kept) and the line flag
       `flag` (FFresh / FStmt / FCmt) are folds that distribute over ++;
     - `normalize_eq`: normalize s = outz zs ++ tail_lf zs for the labelled text zs of drop_bom s
       (the python-mirror `has_stmt (last_line zs)` is `flag FFresh zs = FStmt`);
     - `piece F zs`: scanning txt zs in state SNormal, whatever text r with F r follows, gives the
       labels lab zs and leaves the scanner in state SNormal in front of r;
     - `til k F t o`: the text t is a piece with follow condition F, output o and flag behaviour
       k (CS statement-like / CB blanks / CT trivia), with the composition table `til_app`;
     - the leaf pieces that need no string scanning: plain texts, whitespace, newlines,
       comments, ws-comment-newline. *)
From TV Require Import Base.Prelude Base.Utf8 Spec.Abnf Spec.Lex Spec.Defs Spec.Syntax Spec.Norm.
From TV Require Import Proofs.LexEquivBase Proofs.TilingDefs.
Require Import Lia ZifyBool ZifyN ZifyNat.

(* ================================================================================================= *)
(* labelled texts                                                                                    *)
(* ================================================================================================= *)
Definition lz := list (byte * label).
Definition txt (zs : lz) : bytes := map fst zs.
Definition lab (zs : lz) : list label := map snd zs.
Definition outz (zs : lz) : bytes := map fst (filter kept zs).

Lemma txt_app a b : txt (a ++ b) = txt a ++ txt b.
Proof. apply map_app. Qed.
Lemma lab_app a b : lab (a ++ b) = lab a ++ lab b.
Proof. apply map_app. Qed.
Lemma outz_app a b : outz (a ++ b) = outz a ++ outz b.
Proof. unfold outz. rewrite filter_app, map_app. reflexivity. Qed.

Lemma combine_txt_lab zs : combine (txt zs) (lab zs) = zs.
Proof. unfold txt, lab. induction zs as [|[b l] zs IH]; [reflexivity|]. cbn [map combine fst snd]. rewrite IH. reflexivity. Qed.

(* the same label on every byte *)
Definition tag (l : label) (t : bytes) : lz := map (fun b => (b, l)) t.

Lemma txt_tag l t : txt (tag l t) = t.
Proof. unfold txt, tag. rewrite map_map. cbn. apply map_id. Qed.
Lemma lab_tag l t : lab (tag l t) = map (fun _ => l) t.
Proof. unfold lab, tag. rewrite map_map. reflexivity. Qed.
Lemma tag_app l a b : tag l (a ++ b) = tag l a ++ tag l b.
Proof. apply map_app. Qed.

(* ---- the bytes kept ------------------------------------------------------------------------------ *)
Lemma outz_tag_ml l t : in_ml l = true -> outz (tag l t) = t.
Proof.
  intro H. induction t as [|b t IH]; [reflexivity|].
  unfold outz in *. cbn [tag map filter]. unfold kept at 1. cbn [fst snd]. rewrite H.
  rewrite andb_false_r. cbn [negb map fst]. unfold tag in IH. rewrite IH. reflexivity.
Qed.

Lemma outz_tag_ncr l t : in_ml l = false -> outz (tag l t) = ncr t.
Proof.
  intro H. induction t as [|b t IH]; [reflexivity|].
  unfold outz in *. cbn [tag map filter ncr]. unfold kept at 1. cbn [fst snd]. rewrite H.
  cbn [negb]. rewrite andb_true_r. unfold tag, ncr in IH.
  destruct (byte_eqb b x0d); cbn [negb map fst]; rewrite IH; reflexivity.
Qed.

Definition nocr (t : bytes) : Prop := forallb (fun b => negb (byte_eqb b x0d)) t = true.

Lemma ncr_nocr t : nocr t -> ncr t = t.
Proof.
  unfold nocr, ncr. induction t as [|b t IH]; [reflexivity|]. cbn [forallb filter].
  intro H. apply andb_true_iff in H as [Hb Ht]. rewrite Hb. rewrite IH by exact Ht. reflexivity.
Qed.

Lemma ncr_app a b : ncr (a ++ b) = ncr a ++ ncr b.
Proof. apply filter_app. Qed.

(* ---- the end of the output ----------------------------------------------------------------------- *)
Lemma ends_lf_snoc a b : ends_lf (a ++ [b]) = byte_eqb b x0a.
Proof. unfold ends_lf. rewrite rev_app_distr. reflexivity. Qed.

Lemma ends_lf_app a b : b <> [] -> ends_lf (a ++ b) = ends_lf b.
Proof.
  intro H. destruct (exists_last H) as (b' & x & ->). rewrite app_assoc, !ends_lf_snoc. reflexivity.
Qed.

Lemma ends_lf_app_false a b : ends_lf a = false -> ends_lf b = false -> ends_lf (a ++ b) = false.
Proof.
  intros Ha Hb. destruct b as [|x b]; [rewrite app_nil_r; exact Ha|].
  rewrite ends_lf_app by discriminate. exact Hb.
Qed.

(* ================================================================================================= *)
(* the line flag                                                                                     *)
(* ================================================================================================= *)
Inductive lflag : Set := FFresh | FStmt | FCmt.

Definition blank (c : byte) : bool := byte_eqb c x20 || byte_eqb c x09 || byte_eqb c x0d.

Definition flag_step (f : lflag) (z : byte * label) : lflag :=
  if line_nl z then FFresh
  else match f with
       | FFresh => if is_comment (snd z) then FCmt else if blank (fst z) then FFresh else FStmt
       | _ => f
       end.

Definition flag (f : lflag) (zs : lz) : lflag := fold_left flag_step zs f.

Lemma flag_app f a b : flag f (a ++ b) = flag (flag f a) b.
Proof. apply fold_left_app. Qed.
Lemma flag_cons f z zs : flag f (z :: zs) = flag (flag_step f z) zs.
Proof. reflexivity. Qed.
Lemma flag_nil f : flag f [] = f.
Proof. reflexivity. Qed.

Definition is_stmt (f : lflag) : bool := match f with FStmt => true | _ => false end.

Definition no_nl (zs : lz) : Prop := Forall (fun z => line_nl z = false) zs.

Lemma no_nl_app a b : no_nl a -> no_nl b -> no_nl (a ++ b).
Proof. intros Ha Hb. apply Forall_app. split; assumption. Qed.

Lemma flag_stmt_no_nl zs : no_nl zs -> flag FStmt zs = FStmt.
Proof.
  induction 1 as [|z zs Hz _ IH]; [reflexivity|]. rewrite flag_cons. unfold flag_step. rewrite Hz. exact IH.
Qed.
Lemma flag_cmt_no_nl zs : no_nl zs -> flag FCmt zs = FCmt.
Proof.
  induction 1 as [|z zs Hz _ IH]; [reflexivity|]. rewrite flag_cons. unfold flag_step. rewrite Hz. exact IH.
Qed.

Lemma has_stmt_flag_line zs : no_nl zs -> has_stmt zs = is_stmt (flag FFresh zs).
Proof.
  induction 1 as [|[c l] zs Hz Hzs IH]; [reflexivity|].
  rewrite flag_cons. unfold flag_step. rewrite Hz. cbn [has_stmt fst snd].
  destruct (is_comment l).
  - rewrite flag_cmt_no_nl by exact Hzs. reflexivity.
  - fold (blank c). destruct (blank c).
    + exact IH.
    + rewrite flag_stmt_no_nl by exact Hzs. reflexivity.
Qed.

Lemma last_line_snoc zs z : last_line (zs ++ [z]) = if line_nl z then [] else last_line zs ++ [z].
Proof.
  unfold last_line. rewrite rev_app_distr. cbn [rev app before_nl].
  destruct (line_nl z); reflexivity.
Qed.

Lemma before_nl_no_nl zs : no_nl (before_nl zs).
Proof.
  induction zs as [|z zs IH]; [constructor|]. cbn [before_nl].
  destruct (line_nl z) eqn:E; [constructor|]. constructor; assumption.
Qed.

Lemma last_line_no_nl zs : no_nl (last_line zs).
Proof. unfold last_line, no_nl. apply Forall_rev. apply before_nl_no_nl. Qed.

Lemma flag_snoc f zs z : flag f (zs ++ [z]) = flag_step (flag f zs) z.
Proof. rewrite flag_app. reflexivity. Qed.

Lemma flag_last_line zs : flag FFresh zs = flag FFresh (last_line zs).
Proof.
  induction zs as [|z zs IH] using rev_ind; [reflexivity|].
  rewrite flag_snoc, last_line_snoc, IH. destruct (line_nl z) eqn:E.
  - unfold flag_step. rewrite E. reflexivity.
  - rewrite flag_snoc. reflexivity.
Qed.

(* the python mirror and the streaming flag agree, on every labelled text *)
Lemma has_stmt_flag zs : has_stmt (last_line zs) = is_stmt (flag FFresh zs).
Proof. rewrite flag_last_line. apply has_stmt_flag_line. apply last_line_no_nl. Qed.

Definition tail_lf (zs : lz) : bytes :=
  if is_stmt (flag FFresh zs) && negb (ends_lf (outz zs)) then [x0a] else [].

Lemma normalize_eq s :
  normalize s = outz (combine (drop_bom s) (labels SNormal (drop_bom s)))
                ++ tail_lf (combine (drop_bom s) (labels SNormal (drop_bom s))).
Proof.
  unfold normalize, tail_lf. cbv zeta. rewrite has_stmt_flag. fold (outz (combine (drop_bom s) (labels SNormal (drop_bom s)))).
  destruct (is_stmt _ && negb _); [reflexivity|rewrite app_nil_r; reflexivity].
Qed.

(* a statement flag needs a kept byte *)
Lemma stmt_outz_nonempty zs f : f <> FStmt -> flag f zs = FStmt -> outz zs <> [].
Proof.
  revert f. induction zs as [|[c l] zs IH]; intros f Hf H; [cbn in H; congruence|].
  rewrite flag_cons in H. unfold outz. cbn [filter].
  destruct (kept (c, l)) eqn:K; [discriminate|].
  apply (IH (flag_step f (c, l))); [|exact H].
  unfold flag_step. unfold kept in K. cbn [fst snd] in *. apply negb_false_iff in K. apply andb_true_iff in K as [K1 K2].
  unfold line_nl. cbn [fst snd]. apply byte_eqb_eq in K1. subst c. cbn [byte_eqb Byte.eqb andb].
  change (byte_eqb x0d x0a) with false. cbn [andb].
  destruct f; try congruence. destruct (is_comment l); [discriminate|]. unfold blank. rewrite byte_eqb_refl, !orb_true_r. discriminate.
Qed.

(* ================================================================================================= *)
(* scanning                                                                                          *)
(* ================================================================================================= *)
Lemma labels_cons st c tl :
  labels st (c :: tl) = fst (step st c (c :: tl)) :: labels (snd (step st c (c :: tl))) tl.
Proof. cbn [labels]. destruct (step st c (c :: tl)); reflexivity. Qed.

Lemma labels_emit ls : forall next s r, length s = length ls ->
  labels (emit ls next) (s ++ r) = ls ++ labels next r.
Proof.
  induction ls as [|l ls IH]; intros next s r H.
  - destruct s; [reflexivity|discriminate].
  - destruct s as [|c s]; [discriminate|]. cbn [emit app]. rewrite labels_cons. cbn [step fst snd].
    rewrite IH by (cbn in H; lia). reflexivity.
Qed.

(* a text F-followed is scanned from SNormal to SNormal with the labels lab zs *)
Definition piece (F : bytes -> Prop) (zs : lz) : Prop :=
  forall r, F r -> labels SNormal (txt zs ++ r) = lab zs ++ labels SNormal r.

Definition anyf (r : bytes) : Prop := True.

Lemma piece_nil F : piece F [].
Proof. intros r _. reflexivity. Qed.

Lemma piece_weaken (F G : bytes -> Prop) zs : (forall r, G r -> F r) -> piece F zs -> piece G zs.
Proof. intros H P r Hr. apply P, H, Hr. Qed.

Lemma piece_app (F1 F2 : bytes -> Prop) z1 z2 :
  piece F1 z1 -> piece F2 z2 -> (forall r, F2 r -> F1 (txt z2 ++ r)) -> piece F2 (z1 ++ z2).
Proof.
  intros P1 P2 H r Hr. rewrite txt_app, lab_app, <- !app_assoc.
  rewrite P1 by (apply H, Hr). rewrite P2 by exact Hr. reflexivity.
Qed.

(* ---- bytes that are neither "#" nor a quote: state SNormal ignores them ------------------------------ *)
Definition nqb (b : byte) : bool := negb (byte_eqb b x23) && negb (byte_eqb b x22) && negb (byte_eqb b x27).

Lemma starts3_head q c tl : byte_eqb c q = false -> starts3 q (c :: tl) = false.
Proof. intro H. unfold starts3. destruct tl as [|a [|b tl]]; try reflexivity. rewrite H. reflexivity. Qed.

Lemma step_normal_nq c tl : nqb c = true -> step SNormal c (c :: tl) = (LNormal, SNormal).
Proof.
  unfold nqb. intro H. apply andb_true_iff in H as [H H3]. apply andb_true_iff in H as [H1 H2].
  apply negb_true_iff in H1, H2, H3. unfold step. rewrite H1, H2, H3.
  rewrite !starts3_head by assumption. reflexivity.
Qed.

Lemma labels_nq t r : forallb nqb t = true -> labels SNormal (t ++ r) = map (fun _ => LNormal) t ++ labels SNormal r.
Proof.
  induction t as [|c t IH]; [reflexivity|]. cbn [forallb]. intro H. apply andb_true_iff in H as [Hc Ht].
  cbn [app]. rewrite labels_cons, step_normal_nq by exact Hc. cbn [fst snd map app]. rewrite IH by exact Ht. reflexivity.
Qed.

Lemma piece_nq t : forallb nqb t = true -> piece anyf (tag LNormal t).
Proof. intros H r _. rewrite txt_tag, lab_tag. apply labels_nq, H. Qed.

(* plain bytes: additionally no CR and no LF *)
Definition plainb (b : byte) : bool :=
  nqb b && negb (byte_eqb b x0d) && negb (byte_eqb b x0a).
Definition plain (t : bytes) : Prop := forallb plainb t = true.

Lemma plain_app a b : plain a -> plain b -> plain (a ++ b).
Proof. unfold plain. intros Ha Hb. rewrite forallb_app, Ha, Hb. reflexivity. Qed.

Lemma plain_nq t : plain t -> forallb nqb t = true.
Proof.
  unfold plain. induction t as [|b t IH]; [reflexivity|]. cbn [forallb]. intro H.
  apply andb_true_iff in H as [Hb Ht]. rewrite IH by exact Ht. unfold plainb in Hb.
  apply andb_true_iff in Hb as [Hb _]. apply andb_true_iff in Hb as [Hb _]. rewrite Hb. reflexivity.
Qed.

Lemma plain_nocr t : plain t -> nocr t.
Proof.
  unfold plain, nocr. induction t as [|b t IH]; [reflexivity|]. cbn [forallb]. intro H.
  apply andb_true_iff in H as [Hb Ht]. rewrite IH by exact Ht. unfold plainb in Hb.
  apply andb_true_iff in Hb as [Hb _]. apply andb_true_iff in Hb as [_ Hb]. rewrite Hb. reflexivity.
Qed.

Lemma plain_no_nl l t : plain t -> no_nl (tag l t).
Proof.
  unfold plain, no_nl. induction t as [|b t IH]; [constructor|]. cbn [forallb]. intro H.
  apply andb_true_iff in H as [Hb Ht]. cbn [tag map]. constructor; [|apply IH, Ht].
  unfold line_nl. cbn [fst snd]. unfold plainb in Hb. apply andb_true_iff in Hb as [_ Hb].
  apply negb_true_iff in Hb. rewrite Hb. reflexivity.
Qed.

Lemma ml_no_nl l t : in_ml l = true -> no_nl (tag l t).
Proof.
  intro H. unfold no_nl. induction t as [|b t IH]; [constructor|]. cbn [tag map]. constructor; [|exact IH].
  unfold line_nl. cbn [fst snd]. rewrite H. apply andb_false_r.
Qed.

Lemma plain_ends_lf t : plain t -> ends_lf t = false.
Proof.
  intro H. destruct t as [|b t] using rev_ind; [reflexivity|]. rewrite ends_lf_snoc.
  unfold plain in H. rewrite forallb_app in H. apply andb_true_iff in H as [_ H]. cbn [forallb] in H.
  rewrite andb_true_r in H. unfold plainb in H. apply andb_true_iff in H as [_ H]. apply negb_true_iff in H. exact H.
Qed.

(* ================================================================================================= *)
(* the three kinds of pieces                                                                         *)
(* ================================================================================================= *)
Inductive kind : Set := CS | CB | CT.

(* CS: a statement part: from FFresh/FStmt to FStmt, the output is not empty and does not end in LF
   CB: blanks: no flag changes, the output does not end in LF
   CT: trivia (ws-comment-newline, array values): never ends inside a comment *)
Definition summ (k : kind) (zs : lz) (o : bytes) : Prop :=
  outz zs = o /\
  match k with
  | CS => (forall f, f <> FCmt -> flag f zs = FStmt) /\ o <> [] /\ ends_lf o = false
  | CB => (forall f, flag f zs = f) /\ ends_lf o = false
  | CT => forall f, f <> FCmt -> flag f zs <> FCmt
  end.

Definition til (k : kind) (F : bytes -> Prop) (t o : bytes) : Prop :=
  exists zs, txt zs = t /\ piece F zs /\ summ k zs o.

Definition mul (k1 k2 : kind) : kind :=
  match k1, k2 with
  | CB, k => k
  | k, CB => k
  | _, CS => CS
  | _, CT => CT
  end.

Lemma summ_sub k zs o : summ k zs o -> summ CT zs o.
Proof.
  destruct k; intros [Ho H]; (split; [exact Ho|]).
  - destruct H as (H & _). intros f Hf. rewrite H by exact Hf. discriminate.
  - destruct H as (H & _). intros f Hf. rewrite H. exact Hf.
  - exact H.
Qed.

Lemma summ_app k1 k2 z1 z2 o1 o2 : summ k1 z1 o1 -> summ k2 z2 o2 -> summ (mul k1 k2) (z1 ++ z2) (o1 ++ o2).
Proof.
  intros [Ho1 H1] [Ho2 H2]. split; [rewrite outz_app, Ho1, Ho2; reflexivity|].
  destruct k1, k2; cbn [mul].
  - (* S S *) destruct H1 as (F1 & N1 & E1), H2 as (F2 & N2 & E2). split; [|split].
    + intros f Hf. rewrite flag_app, F1 by exact Hf. apply F2. discriminate.
    + destruct o1; [congruence|discriminate].
    + apply ends_lf_app_false; assumption.
  - (* S B *) destruct H1 as (F1 & N1 & E1), H2 as (F2 & E2). split; [|split].
    + intros f Hf. rewrite flag_app, F2. apply F1, Hf.
    + destruct o1; [congruence|discriminate].
    + apply ends_lf_app_false; assumption.
  - (* S T *) destruct H1 as (F1 & N1 & E1). intros f Hf. rewrite flag_app, F1 by exact Hf. apply H2. discriminate.
  - (* B S *) destruct H1 as (F1 & E1), H2 as (F2 & N2 & E2). split; [|split].
    + intros f Hf. rewrite flag_app, F1. apply F2, Hf.
    + destruct o1; [exact N2|discriminate].
    + apply ends_lf_app_false; assumption.
  - (* B B *) destruct H1 as (F1 & E1), H2 as (F2 & E2). split.
    + intros f. rewrite flag_app, F1. apply F2.
    + apply ends_lf_app_false; assumption.
  - (* B T *) destruct H1 as (F1 & E1). intros f Hf. rewrite flag_app, F1. apply H2, Hf.
  - (* T S *) destruct H2 as (F2 & N2 & E2). split; [|split].
    + intros f Hf. rewrite flag_app. apply F2, H1, Hf.
    + destruct o1; [exact N2|discriminate].
    + rewrite ends_lf_app by exact N2. exact E2.
  - (* T B *) destruct H2 as (F2 & E2). intros f Hf. rewrite flag_app, F2. apply H1, Hf.
  - (* T T *) intros f Hf. rewrite flag_app. apply H2, H1, Hf.
Qed.

Lemma til_app k1 k2 (F1 F2 : bytes -> Prop) t1 t2 o1 o2 :
  til k1 F1 t1 o1 -> til k2 F2 t2 o2 -> (forall r, F2 r -> F1 (t2 ++ r)) ->
  til (mul k1 k2) F2 (t1 ++ t2) (o1 ++ o2).
Proof.
  intros (z1 & T1 & P1 & S1) (z2 & T2 & P2 & S2) H. exists (z1 ++ z2).
  split; [rewrite txt_app, T1, T2; reflexivity|]. split; [|apply summ_app; assumption].
  apply (piece_app F1 F2); [assumption|assumption|]. rewrite T2. exact H.
Qed.

(* the same with a first part that needs no follow condition *)
Lemma til_app_any k1 k2 (F2 : bytes -> Prop) t1 t2 o1 o2 :
  til k1 anyf t1 o1 -> til k2 F2 t2 o2 -> til (mul k1 k2) F2 (t1 ++ t2) (o1 ++ o2).
Proof. intros H1 H2. apply (til_app k1 k2 anyf F2); [assumption|assumption|]. intros; exact I. Qed.

Lemma til_weaken k (F G : bytes -> Prop) t o : (forall r, G r -> F r) -> til k F t o -> til k G t o.
Proof. intros H (zs & T & P & S). exists zs. split; [exact T|]. split; [apply (piece_weaken F G); assumption|exact S]. Qed.

Lemma til_any k (F : bytes -> Prop) t o : til k anyf t o -> til k F t o.
Proof. apply til_weaken. intros; exact I. Qed.

Lemma til_sub k F t o : til k F t o -> til CT F t o.
Proof. intros (zs & T & P & S). exists zs. split; [exact T|]. split; [exact P|apply (summ_sub k), S]. Qed.

Lemma til_nil F : til CB F [] [].
Proof.
  exists []. split; [reflexivity|]. split; [apply piece_nil|]. split; [reflexivity|]. split; [reflexivity|reflexivity].
Qed.

(* ================================================================================================= *)
(* quiet pieces: tokens — no byte in a comment, kept verbatim                                        *)
(* ================================================================================================= *)
Definition nocmt (zs : lz) : Prop := forallb (fun z => negb (is_comment (snd z))) zs = true.

Lemma nocmt_app a b : nocmt a -> nocmt b -> nocmt (a ++ b).
Proof. unfold nocmt. intros Ha Hb. rewrite forallb_app, Ha, Hb. reflexivity. Qed.

Lemma nocmt_tag l t : is_comment l = false -> nocmt (tag l t).
Proof. intro H. unfold nocmt, tag. induction t as [|b t IH]; [reflexivity|]. cbn [map forallb snd]. rewrite H, IH. reflexivity. Qed.

Definition qt (k : kind) (F : bytes -> Prop) (t : bytes) : Prop :=
  exists zs, txt zs = t /\ piece F zs /\ summ k zs t /\ nocmt zs.

Lemma qt_til k F t : qt k F t -> til k F t t.
Proof. intros (zs & T & P & S & _). exists zs. auto. Qed.

Lemma qt_app k1 k2 (F1 F2 : bytes -> Prop) t1 t2 :
  qt k1 F1 t1 -> qt k2 F2 t2 -> (forall r, F2 r -> F1 (t2 ++ r)) -> qt (mul k1 k2) F2 (t1 ++ t2).
Proof.
  intros (z1 & T1 & P1 & S1 & Q1) (z2 & T2 & P2 & S2 & Q2) H. exists (z1 ++ z2).
  split; [rewrite txt_app, T1, T2; reflexivity|]. split; [|split; [apply summ_app; assumption|apply nocmt_app; assumption]].
  apply (piece_app F1 F2); [assumption|assumption|]. rewrite T2. exact H.
Qed.

Lemma qt_app_any k1 k2 (F2 : bytes -> Prop) t1 t2 : qt k1 anyf t1 -> qt k2 F2 t2 -> qt (mul k1 k2) F2 (t1 ++ t2).
Proof. intros H1 H2. apply (qt_app k1 k2 anyf F2); [assumption|assumption|]. intros; exact I. Qed.

Lemma qt_weaken k (F G : bytes -> Prop) t : (forall r, G r -> F r) -> qt k F t -> qt k G t.
Proof. intros H (zs & T & P & S). exists zs. split; [exact T|]. split; [apply (piece_weaken F G); assumption|exact S]. Qed.

Lemma qt_any k (F : bytes -> Prop) t : qt k anyf t -> qt k F t.
Proof. apply qt_weaken. intros; exact I. Qed.

(* ================================================================================================= *)
(* leaves                                                                                            *)
(* ================================================================================================= *)

(* ---- whitespace ------------------------------------------------------------------------------------ *)
Lemma wschar_plain b : wschar b = true -> plainb b = true.
Proof. unfold plainb, nqb. cls. lia. Qed.

Lemma wschar_blank b : wschar b = true -> blank b = true.
Proof. unfold blank. cls. lia. Qed.

Lemma ws_plain w : ws_tok w -> plain w.
Proof.
  unfold ws_tok, all, plain. induction w as [|b w IH]; [reflexivity|]. cbn [forallb]. intro H.
  apply andb_true_iff in H as [Hb Hw]. rewrite wschar_plain by exact Hb. apply IH, Hw.
Qed.

Lemma flag_ws f w : ws_tok w -> flag f (tag LNormal w) = f.
Proof.
  unfold ws_tok, all. revert f. induction w as [|b w IH]; intros f H; [reflexivity|]. cbn [forallb] in H.
  apply andb_true_iff in H as [Hb Hw]. cbn [tag map]. rewrite flag_cons. fold (tag LNormal w).
  replace (flag_step f (b, LNormal)) with f; [apply IH, Hw|].
  unfold flag_step, line_nl. cbn [fst snd is_comment]. rewrite (wschar_blank b Hb).
  pose proof (wschar_plain b Hb) as Hp. unfold plainb in Hp. apply andb_true_iff in Hp as [_ Hp].
  apply negb_true_iff in Hp. rewrite Hp. cbn [andb]. destruct f; reflexivity.
Qed.

Lemma qt_ws w : ws_tok w -> qt CB anyf w.
Proof.
  intro H. exists (tag LNormal w). split; [apply txt_tag|]. split; [apply piece_nq, plain_nq, ws_plain, H|].
  split; [|apply nocmt_tag; reflexivity].
  split; [rewrite outz_tag_ncr by reflexivity; apply ncr_nocr, plain_nocr, ws_plain, H|].
  split; [intro f; apply flag_ws, H|apply plain_ends_lf, ws_plain, H].
Qed.

Lemma til_ws w : ws_tok w -> til CB anyf w w.
Proof. intro H. apply qt_til, qt_ws, H. Qed.

(* ---- plain tokens ---------------------------------------------------------------------------------- *)
Lemma qt_plain b t : plain (b :: t) -> blank b = false -> qt CS anyf (b :: t).
Proof.
  intros Hp Hb. exists (tag LNormal (b :: t)). split; [apply txt_tag|]. split; [apply piece_nq, plain_nq, Hp|].
  split; [|apply nocmt_tag; reflexivity].
  split; [rewrite outz_tag_ncr by reflexivity; apply ncr_nocr, plain_nocr, Hp|].
  split; [|split; [discriminate|apply plain_ends_lf, Hp]].
  intros f Hf. pose proof (plain_no_nl LNormal (b :: t) Hp) as Hn. cbn [tag map] in *. rewrite flag_cons.
  inversion Hn as [|z zs Hz Hzs]; subst. fold (tag LNormal t) in *.
  replace (flag_step f (b, LNormal)) with FStmt; [apply flag_stmt_no_nl, Hzs|].
  unfold flag_step. rewrite Hz. cbn [fst snd is_comment]. rewrite Hb. destruct f; congruence.
Qed.

Lemma til_plain b t : plain (b :: t) -> blank b = false -> til CS anyf (b :: t) (b :: t).
Proof. intros Hp Hb. apply qt_til, qt_plain; assumption. Qed.

(* one punctuation byte *)
Lemma qt_byte b : plainb b = true -> blank b = false -> qt CS anyf [b].
Proof. intros Hp Hb. apply qt_plain; [unfold plain; cbn [forallb]; rewrite Hp; reflexivity|exact Hb]. Qed.

Lemma til_byte b : plainb b = true -> blank b = false -> til CS anyf [b] [b].
Proof. intros Hp Hb. apply qt_til, qt_byte; assumption. Qed.

(* ---- newline ------------------------------------------------------------------------------------------ *)
Lemma newline_nq nl : newline_tok nl -> forallb nqb nl = true.
Proof. intros [-> | ->]; reflexivity. Qed.

Lemma newline_outz nl : newline_tok nl -> outz (tag LNormal nl) = [x0a].
Proof. intros [-> | ->]; reflexivity. Qed.

Lemma newline_flag nl f : newline_tok nl -> flag f (tag LNormal nl) = FFresh.
Proof. intros [-> | ->]; destruct f; reflexivity. Qed.

Lemma til_newline nl : newline_tok nl -> til CT anyf nl [x0a].
Proof.
  intro H. exists (tag LNormal nl). split; [apply txt_tag|]. split; [apply piece_nq, newline_nq, H|].
  split; [apply newline_outz, H|]. intros f _. rewrite newline_flag by exact H. discriminate.
Qed.

(* ---- comments ----------------------------------------------------------------------------------------- *)
(* the end of a line: the end of the text or a newline *)
Definition lendf (r : bytes) : Prop := r = [] \/ exists nl r', newline_tok nl /\ r = nl ++ r'.

Lemma non_eol_plainish b : non_eol b = true -> byte_eqb b x0d = false /\ byte_eqb b x0a = false.
Proof. cls. lia. Qed.

Lemma step_comment_in c tl : non_eol c = true -> step SComment c (c :: tl) = (LComment, SComment).
Proof.
  intro H. destruct (non_eol_plainish c H) as [H1 H2]. unfold step. rewrite H1, H2. reflexivity.
Qed.

Lemma labels_comment_end r : lendf r -> labels SComment r = labels SNormal r.
Proof.
  intros [-> | (nl & r' & [-> | ->] & ->)]; [reflexivity| |].
  - cbn [app]. rewrite !labels_cons. reflexivity.
  - cbn [app]. rewrite !labels_cons. reflexivity.
Qed.

Lemma labels_comment_body u r : all non_eol u -> lendf r ->
  labels SComment (u ++ r) = map (fun _ => LComment) u ++ labels SNormal r.
Proof.
  unfold all. intros Hu Hr. induction u as [|c u IH]; [apply labels_comment_end, Hr|].
  cbn [forallb] in Hu. apply andb_true_iff in Hu as [Hc Hu]. cbn [app].
  rewrite labels_cons, step_comment_in by exact Hc. cbn [fst snd map app]. rewrite IH by exact Hu. reflexivity.
Qed.

Lemma piece_comment c : comment_tok c -> piece lendf (tag LComment c).
Proof.
  intros (u & -> & Hu) r Hr. rewrite txt_tag, lab_tag. cbn [app map]. rewrite labels_cons.
  assert (E : step SNormal x23 (x23 :: u ++ r) = (LComment, SComment)) by reflexivity.
  rewrite E. cbn [fst snd]. rewrite labels_comment_body by assumption. reflexivity.
Qed.

Lemma comment_nocrlf c : comment_tok c -> forallb (fun b => negb (byte_eqb b x0d) && negb (byte_eqb b x0a)) c = true.
Proof.
  intros (u & -> & Hu). cbn [forallb]. change (negb (byte_eqb x23 x0d) && negb (byte_eqb x23 x0a)) with true. cbn [andb].
  unfold all in Hu. induction u as [|b u IH]; [reflexivity|]. cbn [forallb] in *. apply andb_true_iff in Hu as [Hb Hu].
  destruct (non_eol_plainish b Hb) as [H1 H2]. rewrite H1, H2, IH by exact Hu. reflexivity.
Qed.

Lemma nocrlf_nocr c : forallb (fun b => negb (byte_eqb b x0d) && negb (byte_eqb b x0a)) c = true -> nocr c.
Proof.
  unfold nocr. induction c as [|b c IH]; [reflexivity|]. cbn [forallb]. intro H. apply andb_true_iff in H as [Hb Hc].
  apply andb_true_iff in Hb as [Hb _]. rewrite Hb, IH by exact Hc. reflexivity.
Qed.

Lemma nocrlf_no_nl l c : forallb (fun b => negb (byte_eqb b x0d) && negb (byte_eqb b x0a)) c = true -> no_nl (tag l c).
Proof.
  unfold no_nl. induction c as [|b c IH]; [constructor|]. cbn [forallb]. intro H. apply andb_true_iff in H as [Hb Hc].
  apply andb_true_iff in Hb as [_ Hb]. apply negb_true_iff in Hb. cbn [tag map]. constructor; [|apply IH, Hc].
  unfold line_nl. cbn [fst snd]. rewrite Hb. reflexivity.
Qed.

Lemma nocrlf_ends_lf c : forallb (fun b => negb (byte_eqb b x0d) && negb (byte_eqb b x0a)) c = true -> ends_lf c = false.
Proof.
  intro H. destruct c as [|b c] using rev_ind; [reflexivity|]. rewrite ends_lf_snoc.
  rewrite forallb_app in H. apply andb_true_iff in H as [_ H]. cbn [forallb] in H.
  rewrite andb_true_r in H. apply andb_true_iff in H as [_ H]. apply negb_true_iff in H. exact H.
Qed.

Lemma comment_outz c : comment_tok c -> outz (tag LComment c) = c.
Proof. intro H. rewrite outz_tag_ncr by reflexivity. apply ncr_nocr, nocrlf_nocr, comment_nocrlf, H. Qed.

Lemma comment_no_nl c : comment_tok c -> no_nl (tag LComment c).
Proof. intro H. apply nocrlf_no_nl, comment_nocrlf, H. Qed.

Lemma comment_flag_fresh c : comment_tok c -> flag FFresh (tag LComment c) = FCmt.
Proof.
  intro H. pose proof (comment_no_nl c H) as Hn. destruct H as (u & -> & Hu). cbn [tag map] in *.
  inversion Hn as [|z zs Hz Hzs]; subst. rewrite flag_cons. unfold flag_step. rewrite Hz. cbn [snd is_comment].
  apply flag_cmt_no_nl, Hzs.
Qed.

(* ---- ws-comment-newline ---------------------------------------------------------------------------------- *)
Lemma lendf_newline nl r : newline_tok nl -> lendf (nl ++ r).
Proof. intro H. right. exists nl, r. auto. Qed.

Lemma til_wscn w : wscn_tok w -> til CT anyf w (ncr w).
Proof.
  induction 1 as [|b t Hb Ht IH|c nl t Hc Hn Ht IH].
  - apply (til_sub CB), til_nil.
  - change (b :: t) with ([b] ++ t). rewrite ncr_app.
    assert (Hw : ws_tok [b]) by (unfold ws_tok, all; cbn [forallb]; rewrite Hb; reflexivity).
    replace (ncr [b]) with [b] by (symmetry; apply ncr_nocr, plain_nocr, ws_plain, Hw).
    apply (til_app_any CB CT); [apply til_ws, Hw|exact IH].
  - rewrite !ncr_app. replace (ncr nl) with [x0a] by (destruct Hn as [-> | ->]; reflexivity).
    destruct IH as (zt & Tt & Pt & Ot & Ft).
    assert (Pn : piece anyf (tag LNormal nl ++ zt)).
    { apply (piece_app anyf anyf); [apply piece_nq, newline_nq, Hn|exact Pt|]. intros; exact I. }
    destruct Hc as [-> | Hc].
    + exists (tag LNormal nl ++ zt). split; [rewrite txt_app, txt_tag, Tt; reflexivity|]. split; [exact Pn|].
      split; [rewrite outz_app, newline_outz, Ot by exact Hn; reflexivity|].
      intros f _. rewrite flag_app, newline_flag by exact Hn. apply Ft. discriminate.
    + replace (ncr c) with c by (symmetry; apply ncr_nocr, nocrlf_nocr, comment_nocrlf, Hc).
      exists (tag LComment c ++ tag LNormal nl ++ zt).
      split; [rewrite !txt_app, !txt_tag, Tt; reflexivity|]. split.
      * apply (piece_app lendf anyf); [apply piece_comment, Hc|exact Pn|]. intros r _.
        rewrite txt_app, txt_tag, <- app_assoc. apply lendf_newline, Hn.
      * split; [rewrite !outz_app, comment_outz, newline_outz, Ot by assumption; reflexivity|].
        intros f _. rewrite !flag_app, newline_flag by exact Hn. apply Ft. discriminate.
Qed.
