(* Proofs/PrintBackDState.v — C03, class (d): what finalize_table / start_table / start_array_table /
   on_keyval (any key path) do to the multiset of print items of the tree. *)
From TV Require Import Base.Prelude Base.Utf8 Base.Winnow Gen.Consts.
From TV Require Import Model.Datetime Model.Numbers Model.Tree Model.Parse Model.Document Model.Write Model.Encode.
From TV Require Import Proofs.SpansDefs Proofs.DefsEquivSim Proofs.PrintBackBase Proofs.PrintBackValue Proofs.PrintBackDoc Proofs.PrintBackSort
                       Proofs.PrintBackEnts Proofs.PrintBackDisplay Proofs.PrintBackSecs Proofs.PrintBackDVals Proofs.PrintBackDAll Proofs.PrintBackSecDoc.
Require Import Lia ZifyBool ZifyN ZifyNat Sorting.Sorted Sorting.Permutation.

Lemma perm_nil_r {A} (l1 l2 : list A) : Permutation (l1 ++ []) (l2 ++ []) -> Permutation l1 l2.
Proof. rewrite !app_nil_r. auto. Qed.

Section DState.
  Variable K : key -> Prop.

  Lemma finalize_all st st' ppath k :
    pop_key (st_path st) = Some (ppath, k) -> finalize_table st = COk st' ->
    uk2 K (st_root st) -> uk2 K (st_current st) -> K k -> Forall K ppath ->
    (st_is_array st = false -> exists par, reach (st_root st) ppath = Some par /\ kv_get (t_items par) (k_key k) = None) ->
    st' = finalized st (st_root st') /\ hframe (st_root st) (st_root st') /\ uk2 K (st_root st')
    /\ Permutation (ALLI (t_items (st_root st'))) (ALLI (t_items (st_root st)) ++ ALL (st_current st) (st_is_array st)).
  Proof.
    intros Ep Hf Hur Huc Hk Hpp Habs. rewrite finalize_table_eq, Ep in Hf.
    destruct (with_table_at (st_root st) ppath false ((if st_is_array st then faf else ftf) k (st_current st))) as [[root' u]| |] eqn:E; try discriminate.
    injection Hf as <-. cbn [finalized st_root]. split; [reflexivity|].
    destruct (wta_dctx false _ _ _ _ _ E) as (par & par' & Hfp & Hc).
    destruct (dctx_uk2 K _ _ _ _ _ _ Hc Hpp Hur) as [Hupar Hup']. apply uk2_eq in Hupar as (Hn & Hs).
    destruct (st_is_array st) eqn:Ea.
    - unfold faf in Hfp. destruct (kv_get (t_items par) (k_key k)) as [[k0 it]|] eqn:G.
      + destruct it as [|v|sub|ts sp]; try discriminate. injection Hfp as <-.
        split; [apply (dctx_hframe _ _ _ _ _ _ Hc (hframe_set_items _ _))|]. split.
        * apply Hup'. destruct (uks2_get K _ _ _ _ Hs G) as [Hk0 Hts]. apply uki2_aot in Hts.
          apply uk2_set_items; [rewrite keys_set; exact Hn|].
          apply (uks2_set K _ _ _ _ _ Hs G); [exact Hk0|]. apply uki2_aot. apply Forall_app. split; [exact Hts|constructor; [exact Huc|constructor]].
        * apply perm_nil_r. rewrite <- app_assoc. apply (dctx_perm _ _ _ _ _ _ _ _ Hc (hframe_set_items _ _)). rewrite t_items_set. apply (ALLI_set _ _ _ _ _ _ _ G).
          rewrite !ALLit_aot, flat_map_app. cbn [flat_map]. rewrite !app_nil_r. reflexivity.
      + injection Hfp as <-.
        split; [apply (dctx_hframe _ _ _ _ _ _ Hc (hframe_set_items _ _))|]. split.
        * apply Hup'. apply uk2_set_items; [apply nodup_push; assumption|].
          apply uks2_push; [exact Hs|intros _; exact Hk|]. apply uki2_aot. constructor; [exact Huc|constructor].
        * apply perm_nil_r. rewrite <- app_assoc. apply (dctx_perm _ _ _ _ _ _ _ _ Hc (hframe_set_items _ _)). rewrite t_items_set. unfold kv_push. rewrite ALLI_app, app_nil_r.
          apply Permutation_app_head. cbn [ALLI flat_map fst snd]. rewrite ALLit_aot. cbn [flat_map]. rewrite !app_nil_r. reflexivity.
    - destruct (Habs eq_refl) as (par0 & Hr & Hg). destruct (dctx_reach _ _ _ _ _ _ Hc) as [_ Hpar]. rewrite (Hpar par0 Hr) in Hg.
      unfold ftf in Hfp. rewrite Hg in Hfp. injection Hfp as <-.
      split; [apply (dctx_hframe _ _ _ _ _ _ Hc (hframe_set_items _ _))|]. split.
      + apply Hup'. apply uk2_set_items; [apply nodup_push; assumption|]. apply uks2_push; [exact Hs|intros _; exact Hk|exact Huc].
      + apply perm_nil_r. rewrite <- app_assoc. apply (dctx_perm _ _ _ _ _ _ _ _ Hc (hframe_set_items _ _)). rewrite t_items_set. unfold kv_push. rewrite ALLI_app, app_nil_r.
        apply Permutation_app_head. cbn [ALLI flat_map fst snd ALLit]. rewrite app_nil_r. reflexivity.
  Qed.

  Lemma start_table_all st path dec sp st' ppath k :
    start_table st path dec sp = COk st' -> pop_key path = Some (ppath, k) -> uk2 K (st_root st) -> Forall K ppath -> t_items (st_current st) = [] ->
    exists T0,
      st' = open_table st (st_root st') (Tbl T0 decor_default false false None None) path dec sp false
      /\ uks2 K T0 /\ NoDup (map kk T0)
      /\ hframe (st_root st) (st_root st') /\ uk2 K (st_root st')
      /\ Permutation (ALLI (t_items (st_root st')) ++ ALLI T0) (ALLI (t_items (st_root st)))
      /\ exists par, reach (st_root st') ppath = Some par /\ kv_get (t_items par) (k_key k) = None.
  Proof.
    intros H Ep Hur Hpp Hcur. unfold start_table in H. destruct (negb (tbl_is_empty (st_current st))); [discriminate|].
    destruct (st_path st); [|discriminate]. rewrite Ep in H.
    match type of H with match with_table_at _ _ _ ?f with _ => _ end = _ => set (F := f) in * end.
    destruct (with_table_at (st_root st) ppath false F) as [[root' taken_]| |] eqn:E; try discriminate. injection H as <-.
    destruct (wta_dctx false _ _ _ _ _ E) as (par & par' & Hfp & Hc).
    destruct (dctx_uk2 K _ _ _ _ _ _ Hc Hpp Hur) as [Hupar Hup']. pose proof Hupar as Hupar0. apply uk2_eq in Hupar as (Hn & Hs).
    destruct (dctx_reach _ _ _ _ _ _ Hc) as [Hreach _]. unfold F in Hfp.
    destruct (kv_get (t_items par) (k_key k)) as [[k0 it]|] eqn:G.
    - destruct it as [|v|t|ts asp]; try discriminate. destruct (t_implicit t && negb (t_dotted t)) eqn:Et; [|discriminate].
      injection Hfp as <- <-. apply andb_true_iff in Et as [Eim Edt].
      destruct (uks2_get K _ _ _ _ Hs G) as [_ Hut]. cbn [uki2] in Hut. apply uk2_eq in Hut as (Hnt & Hst).
      destruct (nodup_remove _ _ _ _ Hn G) as [Hn' Hg'].
      exists (t_items t). cbn [open_table st_root]. split; [destruct t; reflexivity|].
      split; [exact Hst|]. split; [exact Hnt|]. split; [apply (dctx_hframe _ _ _ _ _ _ Hc (hframe_set_items _ _))|]. split.
      + apply Hup'. apply uk2_set_items; [exact Hn'|apply uks2_remove, Hs].
      + split.
        * rewrite <- (app_nil_r (ALLI (t_items (st_root st)))). apply (dctx_perm _ _ _ _ _ _ _ _ Hc (hframe_set_items _ _)). rewrite t_items_set, app_nil_r.
          destruct (kv_get_split _ _ _ _ G) as (A & B & EA & _ & _ & ER). rewrite ER, EA, !ALLI_app.
          change (ALLI ((k0, ITable t) :: B)) with (ALL t false ++ ALLI B). rewrite ALL_eq.
          assert (Hh : hdr t false = []) by (unfold hdr; rewrite Eim; cbn [negb andb]; apply negb_true_iff in Edt; rewrite Edt; reflexivity).
          rewrite Hh. cbn [app]. rewrite <- !app_assoc. apply Permutation_app_head, Permutation_app_comm.
        * exists (t_set_items par (kv_remove (t_items par) (k_key k))). split; [exact Hreach|]. rewrite t_items_set. exact Hg'.
    - injection Hfp as <- <-. exists []. cbn [st_root].
      split; [unfold open_table; rewrite Hcur; reflexivity|]. split; [constructor|]. split; [constructor|].
      split; [apply (dctx_hframe _ _ _ _ _ _ Hc (hframe_refl par))|]. split; [apply Hup', Hupar0|]. split.
      + cbn [ALLI flat_map]. rewrite <- (app_nil_r (ALLI (t_items (st_root st)))). apply (dctx_perm _ _ _ _ _ _ _ _ Hc (hframe_refl par)). reflexivity.
      + exists par. split; [exact Hreach|exact G].
  Qed.

  Lemma start_array_all st path dec sp st' ppath k :
    start_array_table st path dec sp = COk st' -> pop_key path = Some (ppath, k) -> uk2 K (st_root st) -> Forall K ppath -> K k ->
    st' = open_table st (st_root st') (st_current st) path dec sp true
    /\ hframe (st_root st) (st_root st') /\ uk2 K (st_root st')
    /\ Permutation (ALLI (t_items (st_root st'))) (ALLI (t_items (st_root st))).
  Proof.
    intros H Ep Hur Hpp Hk. unfold start_array_table in H. destruct (negb (tbl_is_empty (st_current st))); [discriminate|].
    destruct (st_path st); [|discriminate]. rewrite Ep in H.
    match type of H with match with_table_at _ _ _ ?f with _ => _ end = _ => set (F := f) in * end.
    destruct (with_table_at (st_root st) ppath false F) as [[root' u]| |] eqn:E; try discriminate. injection H as <-.
    destruct (wta_dctx false _ _ _ _ _ E) as (par & par' & Hfp & Hc).
    destruct (dctx_uk2 K _ _ _ _ _ _ Hc Hpp Hur) as [Hupar Hup']. pose proof Hupar as Hupar0. apply uk2_eq in Hupar as (Hn & Hs).
    unfold F in Hfp. cbn [open_table st_root]. split; [reflexivity|].
    destruct (kv_get (t_items par) (k_key k)) as [[k0 it]|] eqn:G.
    - destruct it as [|v|t|ts asp]; try discriminate. injection Hfp as <-.
      split; [apply (dctx_hframe _ _ _ _ _ _ Hc (hframe_refl par))|]. split; [apply Hup', Hupar0|].
      apply perm_nil_r. apply (dctx_perm _ _ _ _ _ _ _ _ Hc (hframe_refl par)). reflexivity.
    - injection Hfp as <-.
      split; [apply (dctx_hframe _ _ _ _ _ _ Hc (hframe_set_items _ _))|]. split.
      + apply Hup'. apply uk2_set_items; [apply nodup_push; assumption|].
        apply uks2_push; [exact Hs|intros _; exact Hk|]. apply uki2_aot. constructor.
      + apply perm_nil_r. apply (dctx_perm _ _ _ _ _ _ _ _ Hc (hframe_set_items _ _)).
        rewrite t_items_set. unfold kv_push. rewrite ALLI_app. cbn [ALLI flat_map fst snd ALLit app]. rewrite !app_nil_r. reflexivity.
  Qed.

  (* ---- the span bookkeeping of dotted tables changes nothing that prints ----------------------------------------- *)
  Lemma ALLI_set_eq m k k0 it it' : kv_get m k = Some (k0, it) -> ALLit k0 it' = ALLit k0 it -> ALLI (kv_set m k it') = ALLI m.
  Proof.
    intros Hg He. destruct (kv_get_split m k k0 it Hg) as (A & B & -> & _ & Hs & _). rewrite Hs, !ALLI_app.
    change (ALLI ((k0, it') :: B)) with (ALLit k0 it' ++ ALLI B). change (ALLI ((k0, it) :: B)) with (ALLit k0 it ++ ALLI B). rewrite He. reflexivity.
  Qed.

  Lemma uk2_items t t' : t_items t' = t_items t -> uk2 K t -> uk2 K t'.
  Proof. intros E H. apply uk2_eq. rewrite E. apply uk2_eq, H. Qed.

  Lemma sds_props : forall path t ve, uk2 K t ->
    hframe t (set_dotted_spans t path ve) /\ ALLI (t_items (set_dotted_spans t path ve)) = ALLI (t_items t) /\ uk2 K (set_dotted_spans t path ve).
  Proof.
    induction path as [|k ptl IH]; intros t ve Hu; cbn [set_dotted_spans]; [split; [apply hframe_refl|split; [reflexivity|exact Hu]]|].
    destruct (kv_get (t_items t) (k_key k)) as [[k0 it]|] eqn:G; [|split; [apply hframe_refl|split; [reflexivity|exact Hu]]].
    destruct it as [|v|sub|ts asp]; try (split; [apply hframe_refl|split; [reflexivity|exact Hu]]).
    set (sub1 := if t_dotted sub then match key_span k, ve with Some ks, Some e => t_set_span sub (widen (t_span sub) ks e) | _, _ => sub end else sub).
    pose proof Hu as Hu0. apply uk2_eq in Hu as (Hn & Hs). destruct (uks2_get K _ _ _ _ Hs G) as [Hk0 Hsub]. cbn [uki2] in Hsub.
    assert (Hi1 : t_items sub1 = t_items sub).
    { unfold sub1. destruct (t_dotted sub); [|reflexivity]. destruct (key_span k), ve; try reflexivity. destruct sub; reflexivity. }
    assert (Hh1 : hdr sub1 false = hdr sub false).
    { unfold sub1. destruct (t_dotted sub) eqn:Ed; [|reflexivity]. destruct (key_span k), ve; try reflexivity.
      unfold hdr. destruct sub; cbn [t_set_span t_dotted] in *. rewrite Ed. reflexivity. }
    destruct (IH sub1 ve (uk2_items sub sub1 Hi1 Hsub)) as (Hf & Ha & Hu1).
    split; [apply hframe_set_items|]. rewrite t_items_set. split.
    - apply (ALLI_set_eq _ _ _ _ _ G). cbn [ALLit]. rewrite !ALL_eq, Ha, (hframe_hdr _ _ false Hf), Hh1, Hi1. reflexivity.
    - apply uk2_set_items; [rewrite keys_set; exact Hn|]. apply (uks2_set K _ _ _ _ _ Hs G); [intros _; apply Hk0; reflexivity|exact Hu1].
  Qed.

  (* ---- on_keyval, any key path: one more key/value item --------------------------------------------------------- *)
  Lemma on_keyval_all st path k v st' :
    on_keyval_sp st path k (IValue v) = COk st' -> uk2 K (st_current st) -> Forall K path ->
    st_root st' = st_root st /\ st_path st' = st_path st /\ st_position st' = st_position st /\ st_is_array st' = st_is_array st
    /\ st_trailing st' = None
    /\ hframe (st_current st) (st_current st') /\ uk2 K (st_current st')
    /\ Permutation (ALLI (t_items (st_current st'))) (ALLI (t_items (st_current st)) ++ [PL (with_prefix k (merged_prefix st k)) v]).
  Proof.
    intros H Hu HK. unfold on_keyval_sp in H. destruct (on_keyval st path k (IValue v)) as [st0| |] eqn:E; try discriminate.
    injection H as <-. cbn [st_root st_path st_position st_is_array st_trailing st_current].
    unfold on_keyval in E. fold (merged_prefix st k) in E. fold (with_prefix k (merged_prefix st k)) in E.
    set (k' := with_prefix k (merged_prefix st k)) in *.
    set (cur0 := match t_span (st_current st), item_span (IValue v) with
                 | Some e, Some vs => t_set_span (st_current st) (Some (fst e, snd vs)) | _, _ => st_current st end) in *.
    assert (Hi0 : t_items cur0 = t_items (st_current st)).
    { unfold cur0. destruct (t_span (st_current st)), (item_span (IValue v)); try reflexivity. destruct (st_current st); reflexivity. }
    assert (Hf0 : hframe (st_current st) cur0).
    { unfold cur0. destruct (t_span (st_current st)) as [e|] eqn:Es; [|apply hframe_refl]. destruct (item_span (IValue v)); [|apply hframe_refl].
      destruct (st_current st). cbn [t_span t_set_span] in *. subst. repeat split. }
    match type of E with match with_table_at _ _ _ ?f with _ => _ end = _ => set (F := f) in * end.
    destruct (with_table_at cur0 path true F) as [[cur' u]| |] eqn:Ew; try discriminate. injection E as <-.
    cbn [st_root st_path st_position st_is_array st_trailing st_current].
    destruct (wta_dctx true _ _ _ _ _ Ew) as (par & par' & Hfp & Hc).
    destruct (dctx_uk2 K _ _ _ _ _ _ Hc HK (uk2_items _ _ Hi0 Hu)) as [Hupar Hup']. apply uk2_eq in Hupar as (Hn & Hs).
    unfold F in Hfp. destruct (Bool.eqb (t_dotted par) match path with [] => true | _ => false end); [discriminate|].
    destruct (kv_get (t_items par) (k_key k')) eqn:G; [discriminate|]. injection Hfp as <-.
    assert (Hu' : uk2 K cur').
    { apply Hup'. apply uk2_set_items; [apply nodup_push; assumption|]. apply uks2_push; [exact Hs|discriminate|exact I]. }
    assert (Hp' : Permutation (ALLI (t_items cur')) (ALLI (t_items cur0) ++ [PL k' v])).
    { apply perm_nil_r. rewrite <- app_assoc. apply (dctx_perm _ _ _ _ _ _ _ _ Hc (hframe_set_items _ _)). rewrite t_items_set. unfold kv_push.
      rewrite ALLI_app, app_nil_r. reflexivity. }
    destruct (sds_props path cur' (item_end (IValue v)) Hu') as (Hf2 & Ha2 & Hu2).
    repeat (split; [reflexivity|]). split.
    - pose proof (dctx_hframe _ _ _ _ _ _ Hc (hframe_set_items _ _)) as Hf1.
      destruct Hf0 as (A1 & A2 & A3 & A4 & A5), Hf1 as (B1 & B2 & B3 & B4 & B5), Hf2 as (C1 & C2 & C3 & C4 & C5).
      repeat split; congruence.
    - split; [exact Hu2|]. rewrite Ha2, Hp', Hi0. reflexivity.
  Qed.
End DState.
