(* Proofs/SpansBd.v — C14, character boundaries, part 4: every span endpoint stored in the tree satisfies G,
   for any predicate G on offsets that holds at the cursor positions where spans are recorded (instantiated
   with "is a character boundary of the source" in Proofs/SpansBdDoc.v).

   The state machine and the inline-table builder never invent an offset: every endpoint they store is an
   endpoint they were given, or the minimum / maximum of two such. *)
From TV Require Import Base.Prelude Base.Utf8 Base.Winnow Gen.Consts.
From TV Require Import Model.Trivia Model.Strings Model.Datetime Model.Numbers Model.Tree Model.Parse Model.Document.
From TV Require Import Proofs.NoPanicBase Proofs.NoPanicState.
From TV Require Import Proofs.SpansDefs Proofs.SpansBase Proofs.SpansLex Proofs.SpansState Proofs.SpansDoc.
Require Import Lia ZifyBool ZifyN ZifyNat.

Section G.
  Variable G : N -> bool.

  Definition sp_g (sp : N * N) : bool := G (fst sp) && G (snd sp).
  Definition osp_g (o : ospan) : bool := match o with Some sp => sp_g sp | None => true end.
  Definition raw_g (r : raw) : bool := osp_g (raw_span r).
  Definition oraw_g (o : option raw) : bool := match o with Some r => raw_g r | None => true end.
  Definition decor_g (d : decor) : bool := oraw_g (d_prefix d) && oraw_g (d_suffix d).
  Definition key_g (k : key) : bool := oraw_g (k_repr k) && decor_g (k_leaf k) && decor_g (k_dotted k).

  Fixpoint value_g (v : value) : bool :=
    match v with
    | VScalar _ r d => oraw_g r && decor_g d
    | VArray vals tr _ d sp => forallb item_g vals && raw_g tr && decor_g d && osp_g sp
    | VInline items pre _ _ d sp =>
      forallb (fun kv => key_g (fst kv) && item_g (snd kv)) items && raw_g pre && decor_g d && osp_g sp
    end
  with item_g (it : item) : bool :=
    match it with
    | INone => true
    | IValue v => value_g v
    | ITable t => tbl_g t
    | IAot ts sp => forallb tbl_g ts && osp_g sp
    end
  with tbl_g (t : tbl) : bool :=
    match t with
    | Tbl items d _ _ _ sp =>
      forallb (fun kv => key_g (fst kv) && item_g (snd kv)) items && decor_g d && osp_g sp
    end.
  Definition kv_g (kv : key * item) : bool := key_g (fst kv) && item_g (snd kv).
  Definition items_g (m : kvs) : bool := forallb kv_g m.
  Definition keys_g (l : list key) : bool := forallb key_g l.

  (* equations *)
  Lemma value_g_scalar s r d : value_g (VScalar s r d) = oraw_g r && decor_g d. Proof. reflexivity. Qed.
  Lemma value_g_array vals tr c d sp :
    value_g (VArray vals tr c d sp) = forallb item_g vals && raw_g tr && decor_g d && osp_g sp.
  Proof. reflexivity. Qed.
  Lemma value_g_inline items pre im dt d sp :
    value_g (VInline items pre im dt d sp) = items_g items && raw_g pre && decor_g d && osp_g sp.
  Proof. reflexivity. Qed.
  Lemma item_g_value v : item_g (IValue v) = value_g v. Proof. reflexivity. Qed.
  Lemma item_g_table t : item_g (ITable t) = tbl_g t. Proof. reflexivity. Qed.
  Lemma item_g_aot ts sp : item_g (IAot ts sp) = forallb tbl_g ts && osp_g sp. Proof. reflexivity. Qed.
  Lemma item_g_inline items pre im dt d sp :
    item_g (IValue (VInline items pre im dt d sp)) = items_g items && raw_g pre && decor_g d && osp_g sp.
  Proof. reflexivity. Qed.
  Lemma tbl_g_items t : tbl_g t = items_g (t_items t) && decor_g (t_decor t) && osp_g (t_span t).
  Proof. destruct t; reflexivity. Qed.

  Lemma sp_g_pair a b : G a = true -> G b = true -> sp_g (a, b) = true.
  Proof. intros H1 H2. unfold sp_g; cbn [fst snd]. rewrite H1, H2. reflexivity. Qed.
  Lemma sp_g_fst sp : sp_g sp = true -> G (fst sp) = true.
  Proof. unfold sp_g. intro H. apply andb_true_iff in H. tauto. Qed.
  Lemma sp_g_snd sp : sp_g sp = true -> G (snd sp) = true.
  Proof. unfold sp_g. intro H. apply andb_true_iff in H. tauto. Qed.
  Lemma raw_with_span_g sp : sp_g sp = true -> raw_g (raw_with_span sp) = true.
  Proof. intro H. unfold raw_with_span. destruct (fst sp =? snd sp)%N; [reflexivity|exact H]. Qed.
  Lemma decor_g_new p s : raw_g p = true -> raw_g s = true -> decor_g (decor_new p s) = true.
  Proof. intros H1 H2. unfold decor_g, decor_new; cbn [d_prefix d_suffix oraw_g]. rewrite H1, H2. reflexivity. Qed.
  Lemma G_min a b : G a = true -> G b = true -> G (N.min a b) = true.
  Proof. intros H1 H2. destruct (N.min_dec a b) as [-> | ->]; assumption. Qed.
  Lemma G_max a b : G a = true -> G b = true -> G (N.max a b) = true.
  Proof. intros H1 H2. destruct (N.max_dec a b) as [-> | ->]; assumption. Qed.

  Lemma value_g_decorate v p s : value_g v = true -> raw_g p = true -> raw_g s = true -> value_g (value_decorate v p s) = true.
  Proof.
    intros Hv Hp Hs. pose proof (decor_g_new p s Hp Hs) as D.
    destruct v as [x r d|vals tr c d sp|items pre im dt d sp]; cbn [value_decorate].
    - rewrite value_g_scalar in *. apply andb_true_iff in Hv as [H1 _]. rewrite H1, D. reflexivity.
    - rewrite value_g_array in *. apply andb4 in Hv as (H1 & H2 & _ & H4). apply andb4. auto.
    - rewrite value_g_inline in *. apply andb4 in Hv as (H1 & H2 & _ & H4). apply andb4. auto.
  Qed.

  Lemma item_span_g v sp : item_g v = true -> item_span v = Some sp -> sp_g sp = true.
  Proof.
    intros H S. destruct v as [|val|t|ts asp]; cbn [item_span] in S; [discriminate| | |].
    - rewrite item_g_value in H. destruct val as [s r d|vals tr c d sp0|items pre im dt d sp0]; cbn [value_span] in S.
      + destruct r as [r|]; [|discriminate]. rewrite value_g_scalar in H. apply andb_true_iff in H as [H _].
        cbn [oraw_g] in H. unfold raw_g in H. rewrite S in H. exact H.
      + rewrite value_g_array in H. apply andb4 in H as (_ & _ & _ & H). subst sp0. exact H.
      + rewrite value_g_inline in H. apply andb4 in H as (_ & _ & _ & H). subst sp0. exact H.
    - rewrite item_g_table, tbl_g_items in H. apply andb3 in H as (_ & _ & H). rewrite S in H. exact H.
    - rewrite item_g_aot in H. apply andb_true_iff in H as [_ H]. subst asp. exact H.
  Qed.
  Lemma key_span_g k ks : key_g k = true -> key_span k = Some ks -> sp_g ks = true.
  Proof.
    unfold key_g, key_span. intros H E. apply andb3 in H as (H & _ & _). destruct (k_repr k) as [r|]; [|discriminate].
    cbn [oraw_g] in H. unfold raw_g in H. rewrite E in H. exact H.
  Qed.
  Lemma widen_g sp ks e : osp_g sp = true -> sp_g ks = true -> G e = true -> osp_g (widen sp ks e) = true.
  Proof.
    unfold widen. intros H1 H2 H3. destruct sp as [s|]; cbn [osp_g] in *; apply sp_g_pair; auto using sp_g_fst, sp_g_snd.
    - apply G_min; [apply sp_g_fst, H1|apply sp_g_fst, H2].
    - apply G_max; [apply sp_g_snd, H1|exact H3].
  Qed.

  (* ---- association lists -------------------------------------------------------------------------------------- *)
  Lemma items_g_get m k k' it : items_g m = true -> kv_get m k = Some (k', it) -> key_g k' = true /\ item_g it = true.
  Proof.
    induction m as [|[k0 v0] m IH]; cbn [kv_get items_g forallb]; [discriminate|].
    intros H E. apply andb_true_iff in H as [H1 H2]. destruct (bytes_eqb _ _).
    - inversion E; subst. unfold kv_g in H1; cbn [fst snd] in H1. apply andb_true_iff in H1. exact H1.
    - apply IH; assumption.
  Qed.
  Lemma items_g_push m k v : items_g m = true -> key_g k = true -> item_g v = true -> items_g (kv_push m k v) = true.
  Proof.
    intros H1 H2 H3. unfold kv_push, items_g in *. rewrite forallb_app, H1. cbn [forallb]. unfold kv_g; cbn [fst snd].
    rewrite H2, H3. reflexivity.
  Qed.
  Lemma items_g_set m k v : items_g m = true -> item_g v = true -> items_g (kv_set m k v) = true.
  Proof.
    intros H1 H2. induction m as [|[k0 v0] m IH]; [reflexivity|]. cbn [kv_set items_g forallb] in *.
    apply andb_true_iff in H1 as [Ha Hb]. destruct (bytes_eqb _ _); cbn [forallb].
    - unfold kv_g in *; cbn [fst snd] in *. apply andb_true_iff in Ha as [Ha _]. rewrite Ha, H2. exact Hb.
    - rewrite Ha. apply IH, Hb.
  Qed.
  Lemma items_g_remove m k : items_g m = true -> items_g (kv_remove m k) = true.
  Proof.
    induction m as [|[k0 v0] m IH]; [reflexivity|]. cbn [kv_remove items_g forallb]. intro H.
    apply andb_true_iff in H as [Ha Hb]. destruct (bytes_eqb _ _); [exact Hb|]. cbn [forallb]. rewrite Ha. apply IH, Hb.
  Qed.
  Lemma tbl_g_set_items t m : tbl_g t = true -> items_g m = true -> tbl_g (t_set_items t m) = true.
  Proof.
    rewrite !tbl_g_items. intros H Hm. apply andb3 in H as (_ & H2 & H3). destruct t as [i d im dt p sp].
    cbn [t_set_items t_items t_decor t_span] in *. rewrite Hm, H2, H3. reflexivity.
  Qed.
  Lemma tbl_g_set_span t sp : tbl_g t = true -> osp_g sp = true -> tbl_g (t_set_span t sp) = true.
  Proof.
    rewrite !tbl_g_items. intros H Hs. apply andb3 in H as (H1 & H2 & _). destruct t as [i d im dt p sp0].
    cbn [t_set_span t_items t_decor t_span] in *. rewrite H1, H2, Hs. reflexivity.
  Qed.
  Lemma tbl_g_get_items t : tbl_g t = true -> items_g (t_items t) = true.
  Proof. rewrite tbl_g_items. intro H. apply andb3 in H. tauto. Qed.
  Lemma tbl_g_span t : tbl_g t = true -> osp_g (t_span t) = true.
  Proof. rewrite tbl_g_items. intro H. apply andb3 in H. tauto. Qed.

  Lemma keys_g_rev l : keys_g (rev l) = keys_g l.
  Proof. apply forallb_rev. Qed.
  Lemma pop_key_g kp path k : keys_g kp = true -> pop_key kp = Some (path, k) -> keys_g path = true /\ key_g k = true.
  Proof.
    unfold pop_key. intros H E. rewrite <- keys_g_rev in H. destruct (rev kp) as [|last rinit]; [discriminate|].
    inversion E; subst. cbn [keys_g forallb] in H. apply andb_true_iff in H as [H1 H2]. rewrite keys_g_rev. auto.
  Qed.

  (* ---- inline tables ----------------------------------------------------------------------------------------------- *)
  Lemma inline_insert_g : forall path m dh pe k v m',
    items_g m = true -> keys_g path = true -> key_g k = true -> item_g v = true ->
    inline_insert m dh path pe k v = COk m' -> items_g m' = true.
  Proof.
    induction path as [|pk ptl IH]; intros m dh pe k v m' Hm Hp Hk Hv E; cbn [inline_insert] in E.
    - destruct (Bool.eqb dh pe); [discriminate|]. destruct (kv_get m (k_key k)); [discriminate|].
      inversion E; subst. apply items_g_push; assumption.
    - cbn [keys_g forallb] in Hp. apply andb_true_iff in Hp as [Hpk Hptl].
      destruct (kv_get m (k_key pk)) as [[k' it]|] eqn:Gt.
      + destruct (items_g_get _ _ _ _ Hm Gt) as [_ Hit]. destruct it as [|val| |]; try discriminate E.
        destruct val as [s r d|vals tr c d sp|sub pre imp dt dec sp]; try discriminate E.
        destruct (negb imp); [discriminate|].
        destruct (inline_insert sub dt ptl pe k v) as [sub'| |] eqn:R; try discriminate E. inversion E; subst.
        rewrite item_g_inline in Hit. apply andb4 in Hit as (H1 & H2 & H3 & H4).
        apply items_g_set; [exact Hm|]. rewrite item_g_inline. apply andb4. repeat split; auto.
        eapply IH; [exact H1|exact Hptl|exact Hk|exact Hv|exact R].
      + destruct (inline_insert [] true ptl pe k v) as [sub'| |] eqn:R; try discriminate E. inversion E; subst.
        apply items_g_push; [exact Hm|exact Hpk|]. rewrite item_g_inline. apply andb4.
        repeat split; auto. eapply IH; [|exact Hptl|exact Hk|exact Hv|exact R]; reflexivity.
  Qed.

  Definition pair_g (x : list key * (key * item)) : Prop :=
    keys_g (fst x) = true /\ key_g (fst (snd x)) = true /\ item_g (snd (snd x)) = true.

  Lemma table_from_pairs_loop_d_g : forall pairs m m',
    items_g m = true -> Forall pair_g pairs -> table_from_pairs_loop_d m pairs = COk m' -> items_g m' = true.
  Proof.
    induction pairs as [|[path [k v]] tl IH]; intros m m' Hm Hp E; cbn [table_from_pairs_loop_d] in E.
    - inversion E; subst. exact Hm.
    - inversion Hp as [|? ? Hx Htl]; subst. destruct Hx as (H1 & H2 & H3). cbn [fst snd] in *.
      destruct (check_depth _); [discriminate|].
      destruct (inline_insert m false path _ k v) as [m1| |] eqn:R; try discriminate E.
      eapply IH; [|exact Htl|exact E]. eapply inline_insert_g; eauto.
  Qed.

  Lemma inline_set_spans_g : forall path m ve,
    items_g m = true -> keys_g path = true -> (forall e, ve = Some e -> G e = true) ->
    items_g (inline_set_spans m path ve) = true.
  Proof.
    induction path as [|k ptl IH]; intros m ve Hm Hp Hve; cbn [inline_set_spans]; [exact Hm|].
    cbn [keys_g forallb] in Hp. apply andb_true_iff in Hp as [Hk Hptl].
    destruct (kv_get m (k_key k)) as [[k' it]|] eqn:Gt; [|exact Hm].
    destruct (items_g_get _ _ _ _ Hm Gt) as [_ Hit]. destruct it as [|val| |]; try exact Hm.
    destruct val as [s r d|vals tr c d sp|sub pre imp dt dec sp]; try exact Hm.
    rewrite item_g_inline in Hit. apply andb4 in Hit as (H1 & H2 & H3 & H4).
    apply items_g_set; [exact Hm|]. rewrite item_g_inline. apply andb4. repeat split; auto.
    destruct dt; [|exact H4]. destruct (key_span k) as [ks|] eqn:K; [|exact H4]. destruct ve as [e|]; [|exact H4].
    apply widen_g; [exact H4|eapply key_span_g; eauto|apply Hve; reflexivity].
  Qed.

  Lemma item_end_g v e : item_g v = true -> item_end v = Some e -> G e = true.
  Proof.
    unfold item_end. destruct (item_span v) as [sp|] eqn:S; [|discriminate]. intros H E. inversion E; subst.
    apply sp_g_snd. eapply item_span_g; eauto.
  Qed.

  Lemma inline_spans_pass_g : forall pairs m,
    items_g m = true -> Forall pair_g pairs -> items_g (inline_spans_pass m pairs) = true.
  Proof.
    unfold inline_spans_pass. induction pairs as [|[path [k v]] tl IH]; intros m Hm Hp; cbn [fold_left]; [exact Hm|].
    inversion Hp as [|? ? Hx Htl]; subst. apply IH; [|exact Htl]. destruct Hx as (H1 & H2 & H3). cbn [fst snd] in *.
    apply inline_set_spans_g; [exact Hm|exact H1|]. intros e E. eapply item_end_g; eauto.
  Qed.

  Lemma table_from_pairs_g pairs pre v :
    Forall pair_g pairs -> raw_g pre = true -> table_from_pairs pairs pre = TmOk v -> value_g v = true.
  Proof.
    intros Hp Hpre E. unfold table_from_pairs in E.
    destruct (table_from_pairs_loop_d [] pairs) as [m| |] eqn:R; try discriminate E. inversion E; subst.
    rewrite value_g_inline. apply andb4. repeat split; auto.
    apply inline_spans_pass_g; [|exact Hp]. eapply table_from_pairs_loop_d_g; [|exact Hp|exact R]. reflexivity.
  Qed.

  (* ---- keys ------------------------------------------------------------------------------------------------------------- *)
  Lemma key_g_set_leaf k d : key_g k = true -> decor_g d = true -> key_g (set_leaf k d) = true.
  Proof.
    unfold key_g, set_leaf; cbn [k_repr k_leaf k_dotted]. intros H Hd. apply andb3 in H as (H1 & _ & H3). rewrite H1, Hd, H3. reflexivity.
  Qed.
  Lemma key_g_dotted k : key_g k = true ->
    oraw_g (d_prefix (k_dotted k)) = true /\ oraw_g (d_suffix (k_dotted k)) = true.
  Proof. unfold key_g, decor_g. intro H. apply andb3 in H as (_ & _ & H). apply andb_true_iff in H. exact H. Qed.
  Lemma key_g_set_dotted_prefix k : key_g k = true -> key_g (set_dotted_prefix k REmpty) = true.
  Proof.
    unfold key_g, set_dotted_prefix; cbn [k_repr k_leaf k_dotted]. intros H. apply andb3 in H as (H1 & H2 & H3).
    rewrite H1, H2. unfold decor_g in *; cbn [d_prefix d_suffix oraw_g]. apply andb_true_iff in H3 as [_ H3]. rewrite H3. reflexivity.
  Qed.
  Lemma key_g_set_dotted_suffix k : key_g k = true -> key_g (set_dotted_suffix k REmpty) = true.
  Proof.
    unfold key_g, set_dotted_suffix; cbn [k_repr k_leaf k_dotted]. intros H. apply andb3 in H as (H1 & H2 & H3).
    rewrite H1, H2. unfold decor_g in *; cbn [d_prefix d_suffix oraw_g]. apply andb_true_iff in H3 as [H3 _]. rewrite H3. reflexivity.
  Qed.
  Lemma fix_key_path_g path p : keys_g path = true -> fix_key_path path = Some p -> keys_g p = true.
  Proof.
    unfold fix_key_path. destruct path as [|first tl]; [discriminate|]. intros H E.
    cbn [keys_g forallb] in H. apply andb_true_iff in H as [Hf Ht].
    set (leaf_pre := match d_prefix (k_dotted first) with Some p0 => p0 | None => REmpty end) in *.
    set (first' := match d_prefix (k_dotted first) with Some _ => set_dotted_prefix first REmpty | None => first end) in *.
    assert (Hlp : raw_g leaf_pre = true).
    { subst leaf_pre. destruct (key_g_dotted _ Hf) as [H1 _]. destruct (d_prefix (k_dotted first)); [exact H1|reflexivity]. }
    assert (Hf' : key_g first' = true).
    { subst first'. destruct (d_prefix (k_dotted first)); [apply key_g_set_dotted_prefix|]; exact Hf. }
    assert (Hall : keys_g (rev (first' :: tl)) = true).
    { rewrite keys_g_rev. cbn [keys_g forallb]. rewrite Hf'. exact Ht. }
    destruct (rev (first' :: tl)) as [|last rinit]; [discriminate|]. inversion E; subst p. clear E.
    cbn [keys_g forallb] in Hall. apply andb_true_iff in Hall as [Hl Hr].
    unfold keys_g. cbn [rev]. rewrite forallb_app, forallb_rev. unfold keys_g in Hr. rewrite Hr. cbn [forallb andb]. rewrite andb_true_r.
    apply key_g_set_leaf.
    - destruct (d_suffix (k_dotted last)); [apply key_g_set_dotted_suffix|]; exact Hl.
    - apply decor_g_new; [exact Hlp|]. destruct (key_g_dotted _ Hl) as [_ H2].
      destruct (d_suffix (k_dotted last)); [exact H2|reflexivity].
  Qed.

  (* ---- descend_path / the state machine ----------------------------------------------------------------------------------- *)
  Lemma wta_g {X} (Q : X -> Prop) : forall path t dotted (f : tbl -> cres (tbl * X)),
    tbl_g t = true -> keys_g path = true ->
    (forall p, tbl_g p = true -> cres_post (fun p' x => tbl_g p' = true /\ Q x) (f p)) ->
    cres_post (fun t' x => tbl_g t' = true /\ Q x) (with_table_at t path dotted f).
  Proof.
    induction path as [|k ptl IH]; intros t dotted f Ht Hp Hf; cbn [with_table_at]; [apply Hf, Ht|].
    cbn [keys_g forallb] in Hp. apply andb_true_iff in Hp as [Hk Hptl]. pose proof (tbl_g_get_items _ Ht) as Hi.
    destruct (kv_get (t_items t) (k_key k)) as [[k' it]|] eqn:Gt.
    - destruct (items_g_get _ _ _ _ Hi Gt) as [_ Hit]. destruct it as [|v|sub|ts sp]; try exact I.
      + destruct (dotted && negb (t_implicit sub)); [exact I|]. rewrite item_g_table in Hit.
        specialize (IH sub dotted f Hit Hptl Hf). destruct (with_table_at sub ptl dotted f) as [[sub' x]| |]; try exact I.
        destruct IH as [Hs Hq]. cbn [cres_post]. split; [|exact Hq].
        apply tbl_g_set_items; [exact Ht|]. apply items_g_set; [exact Hi|]. rewrite item_g_table. exact Hs.
      + destruct (dotted && _); [exact I|]. destruct (rev ts) as [|last rinit] eqn:R; [exact I|].
        rewrite item_g_aot in Hit. apply andb_true_iff in Hit as [Hts Hsp].
        rewrite <- forallb_rev, R in Hts. cbn [forallb] in Hts. apply andb_true_iff in Hts as [Hl Hr].
        specialize (IH last dotted f Hl Hptl Hf). destruct (with_table_at last ptl dotted f) as [[last' x]| |]; try exact I.
        destruct IH as [Hs Hq]. cbn [cres_post]. split; [|exact Hq].
        apply tbl_g_set_items; [exact Ht|]. apply items_g_set; [exact Hi|]. rewrite item_g_aot.
        rewrite forallb_rev. cbn [forallb]. rewrite Hs, Hr, Hsp. reflexivity.
    - specialize (IH (Tbl [] decor_default true dotted None None) dotted f eq_refl Hptl Hf).
      destruct (with_table_at _ ptl dotted f) as [[sub' x]| |]; try exact I.
      destruct IH as [Hs Hq]. cbn [cres_post]. split; [|exact Hq].
      apply tbl_g_set_items; [exact Ht|]. apply items_g_push; [exact Hi|exact Hk|]. rewrite item_g_table. exact Hs.
  Qed.

  Definition st_g (st : pstate) : Prop :=
    tbl_g (st_root st) = true /\ tbl_g (st_current st) = true /\ osp_g (st_trailing st) = true /\ keys_g (st_path st) = true.

  Lemma st_g_new : G 0%N = true -> st_g state_new.
  Proof. intro H. unfold st_g. cbn. unfold sp_g; cbn. rewrite H. auto. Qed.
  Lemma st_g_on_ws st sp : st_g st -> sp_g sp = true -> st_g (on_ws st sp).
  Proof.
    intros (H1 & H2 & H3 & H4) Hs. unfold st_g, on_ws; cbn [st_root st_current st_trailing st_path]. repeat split; auto.
    destruct (st_trailing st) as [old|]; cbn [osp_g] in *; [|exact Hs]. apply sp_g_pair; [apply sp_g_fst, H3|apply sp_g_snd, Hs].
  Qed.

  Lemma key_g_leaf_prefix k r : key_g k = true -> d_prefix (k_leaf k) = Some r -> raw_g r = true.
  Proof.
    unfold key_g, decor_g. intros H E. apply andb3 in H as (_ & H & _). apply andb_true_iff in H as [H _]. rewrite E in H. exact H.
  Qed.
  Lemma key_g_leaf_suffix k : key_g k = true -> oraw_g (d_suffix (k_leaf k)) = true.
  Proof. unfold key_g, decor_g. intros H. apply andb3 in H as (_ & H & _). apply andb_true_iff in H as [_ H]. exact H. Qed.

  Lemma on_keyval_g st path k v st' :
    st_g st -> keys_g path = true -> key_g k = true -> item_g v = true -> on_keyval st path k v = COk st' -> st_g st'.
  Proof.
    intros (Hr & Hc & Ht & Hp) Hpath Hk Hv E. unfold on_keyval in E. cbv zeta in E.
    set (kpre := match d_prefix (k_leaf k) with Some r => raw_span r | None => None end) in *.
    set (prefix := match st_trailing st, kpre with
                   | Some p0, Some kk => Some (fst p0, snd kk) | Some p0, None => Some p0
                   | None, Some p0 => Some p0 | None, None => None end) in *.
    set (k' := set_leaf k _) in *.
    set (cur := match t_span (st_current st), item_span v with
                | Some e, Some vs => t_set_span (st_current st) (Some (fst e, snd vs)) | _, _ => st_current st end) in *.
    assert (Hkpre : osp_g kpre = true).
    { subst kpre. destruct (d_prefix (k_leaf k)) as [r|] eqn:D; [|reflexivity]. apply (key_g_leaf_prefix _ _ Hk D). }
    assert (Hprefix : osp_g prefix = true).
    { subst prefix. destruct (st_trailing st) as [p0|], kpre as [kk|]; cbn [osp_g] in *; auto.
      apply sp_g_pair; [apply sp_g_fst, Ht|apply sp_g_snd, Hkpre]. }
    assert (Hk' : key_g k' = true).
    { subst k'. apply key_g_set_leaf; [exact Hk|]. unfold decor_g; cbn [d_prefix d_suffix oraw_g]. apply andb_true_iff. split.
      - destruct prefix as [sp|]; [apply raw_with_span_g, Hprefix|reflexivity].
      - apply key_g_leaf_suffix, Hk. }
    assert (Hcur : tbl_g cur = true).
    { subst cur. destruct (t_span (st_current st)) as [e0|] eqn:S; [|exact Hc]. destruct (item_span v) as [vs|] eqn:V; [|exact Hc].
      apply tbl_g_set_span; [exact Hc|]. cbn [osp_g]. apply sp_g_pair.
      - apply sp_g_fst. pose proof (tbl_g_span _ Hc) as X. rewrite S in X. exact X.
      - apply sp_g_snd. eapply item_span_g; eauto. }
    match type of E with context [with_table_at cur path true ?f] =>
      pose proof (wta_g (fun _ : unit => True) path cur true f Hcur Hpath) as W end.
    match type of W with ?B -> _ => assert (X2 : B); [|specialize (W X2)] end.
    { intros t Ht0. destruct (Bool.eqb _ _); [exact I|]. destruct (kv_get _ _); [exact I|].
      cbn [cres_post]. split; [|exact I]. apply tbl_g_set_items; [exact Ht0|].
      apply items_g_push; [apply tbl_g_get_items, Ht0|exact Hk'|exact Hv]. }
    match type of E with match ?r with _ => _ end = _ => destruct r as [[cur' u]| |] eqn:R; try discriminate E end.
    inversion E; subst st'. cbn [cres_post] in W. destruct W as [W _].
    unfold st_g; cbn [st_root st_current st_trailing st_path]. auto.
  Qed.

  Lemma set_dotted_spans_g : forall path t ve,
    tbl_g t = true -> keys_g path = true -> (forall e, ve = Some e -> G e = true) ->
    tbl_g (set_dotted_spans t path ve) = true.
  Proof.
    induction path as [|k ptl IH]; intros t ve Ht Hp Hve; cbn [set_dotted_spans]; [auto|].
    cbn [keys_g forallb] in Hp. apply andb_true_iff in Hp as [Hk Hptl]. pose proof (tbl_g_get_items _ Ht) as Hi.
    destruct (kv_get (t_items t) (k_key k)) as [[k' it]|] eqn:Gt; [|auto].
    destruct (items_g_get _ _ _ _ Hi Gt) as [_ Hit]. destruct it as [|v|sub|ts sp]; auto.
    rewrite item_g_table in Hit. apply tbl_g_set_items; [exact Ht|]. apply items_g_set; [exact Hi|]. rewrite item_g_table.
    apply IH; auto. destruct (t_dotted sub); [|exact Hit]. destruct (key_span k) as [ks|] eqn:K; [|exact Hit].
    destruct ve as [e|]; [|exact Hit]. apply tbl_g_set_span; [exact Hit|].
    apply widen_g; [apply tbl_g_span, Hit|eapply key_span_g; eauto|apply Hve; reflexivity].
  Qed.

  Lemma on_keyval_sp_g st path k v st' :
    st_g st -> keys_g path = true -> key_g k = true -> item_g v = true -> on_keyval_sp st path k v = COk st' -> st_g st'.
  Proof.
    intros Hst Hpath Hk Hv E. unfold on_keyval_sp in E.
    destruct (on_keyval st path k v) as [st1| |] eqn:R; try discriminate E. inversion E; subst st'. clear E.
    destruct (on_keyval_g _ _ _ _ _ Hst Hpath Hk Hv R) as (H1 & H2 & H3 & H4).
    unfold st_g; cbn [st_root st_current st_trailing st_path]. repeat split; auto.
    apply set_dotted_spans_g; [exact H2|exact Hpath|]. intros e He. eapply item_end_g; eauto.
  Qed.

  Lemma finalize_g st st' :
    st_g st -> finalize_table st = COk st' ->
    tbl_g (st_root st') = true /\ st_trailing st' = st_trailing st /\ st_current st' = tbl_new /\ st_path st' = [].
  Proof.
    intros (Hr & Hc & Ht & Hp) E. destruct st as [root tr posn cur ia path].
    cbn [st_current st_root st_trailing st_path] in *.
    destruct (pop_key path) as [[ppath k]|] eqn:P.
    - rewrite (finalize_eq _ _ _ _ _ _ _ _ P) in E. destruct (pop_key_g _ _ _ Hp P) as [Hpp Hk].
      assert (W : cres_post (fun p' (_ : unit) => tbl_g p' = true /\ True)
                            (with_table_at root ppath false (if ia then f_fin_aot k cur else f_fin_std k cur))).
      { apply (wta_g (fun _ : unit => True)); [exact Hr|exact Hpp|]. intros parent Hpar. pose proof (tbl_g_get_items _ Hpar) as Hi.
        destruct ia.
        - unfold f_fin_aot. destruct (kv_get (t_items parent) (k_key k)) as [[k' it]|] eqn:Gt.
          + destruct (items_g_get _ _ _ _ Hi Gt) as [_ Hit]. destruct it as [|v|t|ts sp]; try exact I. cbv zeta.
            cbn [cres_post]. split; [|exact I]. apply tbl_g_set_items; [exact Hpar|]. apply items_g_set; [exact Hi|].
            rewrite item_g_aot in *. apply andb_true_iff in Hit as [Hts _]. rewrite forallb_app. cbn [forallb]. rewrite Hts, Hc. cbn [andb].
            pose proof (tbl_g_span _ Hc) as Sc.
            destruct ts as [|first tl]; cbn [app].
            * destruct (t_span cur) as [x|]; [|reflexivity]. cbn [union_span osp_g] in *.
              apply sp_g_pair; [apply sp_g_fst, Sc|apply sp_g_snd, Sc].
            * cbn [forallb] in Hts. apply andb_true_iff in Hts as [Hf _]. pose proof (tbl_g_span _ Hf) as Sf.
              destruct (t_span first) as [x|]; [|reflexivity]. destruct (t_span cur) as [y|]; [|reflexivity].
              cbn [union_span osp_g] in *. apply sp_g_pair; [apply sp_g_fst, Sf|apply sp_g_snd, Sc].
          + cbn [cres_post]. split; [|exact I]. apply tbl_g_set_items; [exact Hpar|].
            apply items_g_push; [exact Hi|exact Hk|]. rewrite item_g_aot. cbn [forallb]. rewrite Hc. cbn [andb].
            pose proof (tbl_g_span _ Hc) as Sc. destruct (t_span cur) as [x|]; [|reflexivity]. cbn [union_span osp_g] in *.
            apply sp_g_pair; [apply sp_g_fst, Sc|apply sp_g_snd, Sc].
        - unfold f_fin_std. destruct (kv_get (t_items parent) (k_key k)) as [[k' it]|].
          + destruct it as [|v|t|ts sp]; try exact I. destruct (t_implicit t); [|exact I]. cbn [cres_post]. split; [|exact I].
            apply tbl_g_set_items; [exact Hpar|]. apply items_g_set; [exact Hi|]. rewrite item_g_table. exact Hc.
          + cbn [cres_post]. split; [|exact I]. apply tbl_g_set_items; [exact Hpar|].
            apply items_g_push; [exact Hi|exact Hk|rewrite item_g_table; exact Hc]. }
      destruct (with_table_at root ppath false _) as [[root' u]| |]; try discriminate E. inversion E; subst st'.
      cbn [cres_post] in W. cbn [st_current st_root st_trailing st_path]. tauto.
    - unfold finalize_table in E. cbn [st_current st_root st_trailing st_path st_is_array st_position] in E. rewrite P in E.
      destruct (tbl_is_empty root); [|discriminate]. inversion E; subst st'. cbn [st_current st_root st_trailing st_path]. auto.
  Qed.

  Lemma start_g (ia : bool) st path dec sp st' :
    tbl_g (st_root st) = true -> st_current st = tbl_new -> keys_g path = true -> decor_g dec = true -> sp_g sp = true ->
    (if ia then start_array_table st path dec sp else start_table st path dec sp) = COk st' ->
    st_trailing st = None -> st_g st'.
  Proof.
    intros Hr Hc Hpath Hdec Hsp E Htr. destruct ia.
    - unfold start_array_table in E. destruct (negb _); [discriminate|]. destruct (st_path st); [|discriminate].
      destruct (pop_key path) as [[ppath k]|] eqn:P; [|discriminate]. destruct (pop_key_g _ _ _ Hpath P) as [Hpp Hk].
      match type of E with context [with_table_at _ ppath false ?f] =>
        pose proof (wta_g (fun _ : unit => True) ppath (st_root st) false f Hr Hpp) as W end.
      match type of W with ?B -> _ => assert (X2 : B); [|specialize (W X2)] end.
      { intros parent Hpar. destruct (kv_get (t_items parent) (k_key k)) as [[k' it]|].
        - destruct it; try exact I. cbn [cres_post]. auto.
        - cbn [cres_post]. split; [|exact I]. apply tbl_g_set_items; [exact Hpar|].
          apply items_g_push; [apply tbl_g_get_items, Hpar|exact Hk|reflexivity]. }
      match type of E with match ?r with _ => _ end = _ => destruct r as [[root' u]| |]; try discriminate E end.
      inversion E; subst st'. cbn [cres_post] in W. destruct W as [W _]. unfold open_table, st_g.
      cbn [st_current st_root st_trailing st_path]. rewrite Hc, Htr. cbn [t_items tbl_new]. repeat split; auto.
      cbn [tbl_g forallb osp_g]. rewrite Hdec, Hsp. reflexivity.
    - unfold start_table in E. destruct (negb _); [discriminate|]. destruct (st_path st); [|discriminate].
      destruct (pop_key path) as [[ppath k]|] eqn:P; [|discriminate]. destruct (pop_key_g _ _ _ Hpath P) as [Hpp Hk].
      match type of E with context [with_table_at _ ppath false ?f] =>
        pose proof (wta_g (fun x : option tbl => match x with Some t => tbl_g t = true | None => True end)
                          ppath (st_root st) false f Hr Hpp) as W end.
      match type of W with ?B -> _ => assert (X2 : B); [|specialize (W X2)] end.
      { intros parent Hpar. destruct (kv_get (t_items parent) (k_key k)) as [[k' it]|] eqn:Gt; [|cbn [cres_post]; auto].
        destruct (items_g_get _ _ _ _ (tbl_g_get_items _ Hpar) Gt) as [_ Hit].
        destruct it as [|v|t|ts sp0]; try exact I. destruct (t_implicit t && negb (t_dotted t)); [|exact I].
        cbn [cres_post]. split; [|exact Hit]. apply tbl_g_set_items; [exact Hpar|].
        apply items_g_remove, tbl_g_get_items, Hpar. }
      match type of E with match ?r with _ => _ end = _ => destruct r as [[root' tk]| |]; try discriminate E end.
      inversion E; subst st'. cbn [cres_post] in W. destruct W as [W Wt]. unfold open_table, st_g.
      cbn [st_current st_root st_trailing st_path]. rewrite Htr. repeat split; auto.
      rewrite tbl_g_items. cbn [t_items t_decor t_span osp_g]. rewrite Hdec, Hsp, !andb_true_r.
      destruct tk as [t|]; [apply tbl_g_get_items, Wt|rewrite Hc; reflexivity].
  Qed.

  Lemma on_header_g (ia : bool) st path trailing sp st' :
    st_g st -> keys_g path = true -> sp_g trailing = true -> sp_g sp = true ->
    on_header ia st path trailing sp = COk st' -> st_g st'.
  Proof.
    intros Hst Hpath Htrail Hsp E. unfold on_header in E. destruct path as [|k0 ptl] eqn:Ep; [discriminate|]. rewrite <- Ep in *.
    destruct (finalize_table st) as [st1| |] eqn:F; try discriminate E.
    destruct (finalize_g _ _ Hst F) as (Hr & Htr & Hc & Hp). unfold take_trailing in E.
    destruct Hst as (_ & _ & Ht & _).
    eapply (start_g ia); [| | | | |exact E|]; cbn [st_root st_current st_trailing]; auto.
    apply decor_g_new; [|apply raw_with_span_g, Htrail].
    rewrite Htr. destruct (st_trailing st) as [sp0|]; [apply raw_with_span_g, Ht|reflexivity].
  Qed.

  (* ---- to the list of all spans ---------------------------------------------------------------------------------------------- *)
  Let ok := forallb sp_g.
  Lemma ospan_spans_g o : osp_g o = true -> ok (ospan_spans o) = true.
  Proof. destruct o; cbn; [intro H; rewrite H; reflexivity|auto]. Qed.
  Lemma oraw_spans_g o : oraw_g o = true -> ok (oraw_spans o) = true.
  Proof. destruct o as [r|]; [apply ospan_spans_g|reflexivity]. Qed.
  Lemma decor_spans_g d : decor_g d = true -> ok (decor_spans d) = true.
  Proof.
    unfold decor_g, decor_spans, ok. intro H. apply andb_true_iff in H as [H1 H2].
    rewrite forallb_app. fold ok. rewrite (oraw_spans_g _ H1), (oraw_spans_g _ H2). reflexivity.
  Qed.
  Lemma key_spans_g k : key_g k = true -> ok (key_spans k) = true.
  Proof.
    unfold key_g, key_spans, ok. intro H. apply andb3 in H as (H1 & H2 & H3).
    rewrite !forallb_app. fold ok. rewrite (oraw_spans_g _ H1), (decor_spans_g _ H2), (decor_spans_g _ H3). reflexivity.
  Qed.
  Lemma kvs_spans_g (l : list (key * item)) :
    Forall (fun kv => item_g (snd kv) = true -> ok (item_spans (snd kv)) = true) l ->
    forallb (fun kv => key_g (fst kv) && item_g (snd kv)) l = true ->
    ok (flat_map (fun kv => key_spans (fst kv) ++ item_spans (snd kv)) l) = true.
  Proof.
    intros IH H. unfold ok. rewrite forallb_flat_map. revert H. apply forallb_Forall_imp.
    eapply Forall_impl; [|exact IH]. intros kv Hkv E. apply andb_true_iff in E as [E1 E2].
    rewrite forallb_app. fold ok. rewrite (key_spans_g _ E1), (Hkv E2). reflexivity.
  Qed.
  Lemma tree_spans_g :
    (forall v, value_g v = true -> ok (value_spans v) = true)
    /\ (forall it, item_g it = true -> ok (item_spans it) = true)
    /\ (forall t, tbl_g t = true -> ok (tbl_spans t) = true).
  Proof.
    apply tree_ind3.
    - intros s r d H. rewrite value_g_scalar in H. apply andb_true_iff in H as [H1 H2]. cbn [value_spans].
      unfold ok. rewrite forallb_app. fold ok. rewrite (oraw_spans_g _ H1), (decor_spans_g _ H2). reflexivity.
    - intros vals tr c d sp IH H. rewrite value_g_array in H. apply andb4 in H as (H1 & H2 & H3 & H4). cbn [value_spans].
      unfold ok. rewrite !forallb_app. fold ok. rewrite (ospan_spans_g _ H4), (decor_spans_g _ H3).
      unfold raw_spans. rewrite (ospan_spans_g _ H2), andb_true_r. cbn [andb].
      unfold ok. rewrite forallb_flat_map. revert H1. apply forallb_Forall_imp. exact IH.
    - intros items pre im dt d sp IH H. rewrite value_g_inline in H. apply andb4 in H as (H1 & H2 & H3 & H4). cbn [value_spans].
      unfold ok. rewrite !forallb_app. fold ok. rewrite (ospan_spans_g _ H4), (decor_spans_g _ H3).
      unfold raw_spans. rewrite (ospan_spans_g _ H2), andb_true_r. cbn [andb]. apply kvs_spans_g; assumption.
    - reflexivity.
    - intros v IH H. exact (IH H).
    - intros t IH H. exact (IH H).
    - intros ts sp IH H. rewrite item_g_aot in H. apply andb_true_iff in H as [H1 H2]. cbn [item_spans].
      unfold ok. rewrite forallb_app. fold ok. rewrite (ospan_spans_g _ H2). cbn [andb].
      unfold ok. rewrite forallb_flat_map. revert H1. apply forallb_Forall_imp. exact IH.
    - intros items d im dt p sp IH H. rewrite tbl_g_items in H. cbn [t_items t_decor t_span] in H.
      apply andb3 in H as (H1 & H2 & H3). cbn [tbl_spans].
      unfold ok. rewrite !forallb_app. fold ok. rewrite (ospan_spans_g _ H3), (decor_spans_g _ H2). cbn [andb].
      apply kvs_spans_g; assumption.
  Qed.
End G.
