(* Proofs/SerdeRTRoot.v — C07: the document-root rule of the five text / document routes.
     ep epp doc  toml_edit::ser::{to_string, to_string_pretty, to_document}   ser_edit_root
     tp tpp      toml::{to_string, to_string_pretty}                          ser_toml_root
   Both read back through the document deserializer, which on the level of the value tree is
   de_value applied to the root table. *)
From TV Require Import Base.Prelude Base.Utf8 Model.Datetime Model.DatetimeStd Model.WriteFloat Model.SerNum
  Spec.DatetimeSpec Spec.SerdeData Model.Ser Model.De
  Proofs.DatetimeEq Proofs.SerdeRTBase Proofs.SerdeRTEq Proofs.SerdeRTLeaf Proofs.SerdeRTLists Proofs.SerdeRT
  Proofs.SerdeRTErr.

Definition is_tab (x : tomlval) : bool := match x with VTab _ => true | _ => false end.

Lemma root_table_spec x : root_table x = if is_tab x then Ok x else Err (EUnsupportedType None).
Proof. destruct x; reflexivity. Qed.

(* which values ValueSerializer writes as a table *)
Lemma ser_value_shape t : forall v x, has_type_b t v = true -> ser_value t v = Ok x -> is_tab x = table_shaped t v.
Proof.
  induction t using ty_ind2 with (Q := fun _ => True); try exact I; intros v x Hty Hser.
  - destruct v; simpl in Hser; try discriminate Hser. injection Hser as <-. reflexivity.
  - destruct v; simpl in Hser; try discriminate Hser. unfold ser_int_value in Hser.
    destruct (ser_int w z); [injection Hser as <-; reflexivity|discriminate Hser].
  - destruct w; destruct v; simpl in Hser; try discriminate Hser; injection Hser as <-; reflexivity.
  - destruct v; simpl in Hser; try discriminate Hser. injection Hser as <-. reflexivity.
  - destruct v; simpl in Hser; try discriminate Hser. injection Hser as <-. reflexivity.
  - destruct v; simpl in Hser; try discriminate Hser. unfold ser_datetime in Hser.
    apply rmap_ok in Hser as (d' & _ & ->). reflexivity.
  - destruct v; simpl in Hser; discriminate Hser.
  - destruct v; simpl in Hser; discriminate Hser.
  - destruct v; try (simpl in Hser; discriminate Hser). rewrite sv_opt_some in Hser. rewrite ht_opt_some in Hty.
    apply (IHt v x Hty Hser).
  - destruct v; try (simpl in Hser; discriminate Hser). rewrite sv_seq in Hser. apply rmap_ok in Hser as (xs & _ & ->). reflexivity.
  - destruct v; try (simpl in Hser; discriminate Hser). rewrite sv_tuple in Hser. apply rmap_ok in Hser as (xs & _ & ->). reflexivity.
  - destruct v; try (simpl in Hser; discriminate Hser). rewrite sv_map in Hser. apply rmap_ok in Hser as (xs & _ & ->). reflexivity.
  - destruct v; try (simpl in Hser; discriminate Hser).
    rewrite ht_struct in Hty. apply andb_true_iff in Hty as [Hty _]. apply andb_true_iff in Hty as [Hpriv _].
    apply negb_true_iff in Hpriv. rewrite sv_struct, (private_not_dt n Hpriv) in Hser.
    apply rmap_ok in Hser as (xs & _ & ->). reflexivity.
  - destruct v; try (simpl in Hser; discriminate Hser). rewrite sv_newtype in Hser. rewrite ht_newtype in Hty.
    apply (IHt v x Hty Hser).
  - destruct v; try (simpl in Hser; discriminate Hser). rewrite sv_tuple_struct in Hser. apply rmap_ok in Hser as (xs & _ & ->). reflexivity.
  - destruct v as [| | | | | | | | | | | | | |i p]; try (simpl in Hser; discriminate Hser). rewrite sv_enum in Hser.
    destruct (pick_cases (ser_variant p) (Err EBadCase) vs i) as [([vn var] & Hn & E)|[_ E]]; rewrite E in Hser; [|discriminate].
    simpl. rewrite (pick_nth _ _ _ _ _ Hn). unfold ser_variant in Hser. simpl in Hser. simpl.
    destruct var.
    + destruct p; try discriminate Hser. injection Hser as <-. reflexivity.
    + apply rmap_ok in Hser as (y & _ & ->). reflexivity.
    + apply rmap_ok in Hser as (y & _ & ->). reflexivity.
    + apply rmap_ok in Hser as (y & _ & ->). reflexivity.
Qed.

(* ---- toml_edit's document routes ---- *)
Theorem edit_root_roundtrip t v out : has_type v t -> ser_edit_root t v = Ok out ->
  exists v', de_value t out = Ok v' /\ sval_eq v v'.
Proof.
  intros Hty H. apply edit_root_is_table in H as (es & _ & H). apply (roundtrip_value t v out Hty H).
Qed.

Theorem edit_root_errors t v e : has_type v t -> ser_edit_root t v = Err e ->
  unsupported CElem t v e \/ (e = EUnsupportedType None /\ table_shaped t v = false).
Proof.
  intros Hty H. unfold ser_edit_root in H. apply rbind_err in H as [H|(x & Hx & H)].
  - left. apply errors_documented; assumption.
  - right. rewrite root_table_spec in H. rewrite (ser_value_shape t v x Hty Hx) in H.
    destruct (table_shaped t v); [discriminate|]. injection H as <-. auto.
Qed.

Theorem edit_root_supported t v : has_type v t -> supported t v -> table_shaped t v = true ->
  exists out, ser_edit_root t v = Ok out.
Proof.
  intros Hty Hs Hsh. destruct (supported_ok t v Hty Hs) as (x & Hx). exists x.
  unfold ser_edit_root. rewrite Hx. simpl. rewrite root_table_spec, (ser_value_shape t v x Hty Hx), Hsh. reflexivity.
Qed.

(* ---- toml's document routes ---- *)
Lemma de_root_datetime k d : in_range d = true -> dt_kind_ok k d = true ->
  de_value (TDatetime k) (VTab [(DT_FIELD, VStr (display_datetime d))]) = Ok (SDt d).
Proof.
  intros Hr Hk. cbn [de_value de_datetime]. rewrite bytes_eqb_refl. unfold de_dt_str.
  rewrite (print_parse_std d Hr). simpl. unfold dt_kind_check. rewrite Hk. reflexivity.
Qed.

Theorem toml_root_roundtrip t v out : has_type v t -> ser_toml_root t v = Ok out ->
  exists v', de_value t out = Ok v' /\ sval_eq v v'.
Proof.
  intros Hty H. unfold has_type in Hty.
  destruct t; try (apply (edit_root_roundtrip _ _ _ Hty); destruct v; exact H).
  - (* an enum at the root (everything else goes to toml_edit's ValueSerializer, the struct's name included) *)
    destruct v as [| | | | | | | | | | | | | |i p]; try (apply (edit_root_roundtrip _ _ _ Hty); exact H).
    simpl in H.
    match type of H with pick ?f ?d vs i = _ => destruct (pick_cases f d vs i) as [([vn var] & Hn & E)|[_ E]]; rewrite E in H end;
      [|discriminate].
    simpl in H. destruct var; try discriminate H.
    + apply (edit_root_roundtrip _ _ _ Hty). exact H.
    + apply (edit_root_roundtrip _ _ _ Hty). exact H.
    + destruct p; try discriminate H. destruct (zipM ser_value ts vs0); discriminate H.
Qed.

Theorem toml_root_errors t v e : has_type v t -> ser_toml_root t v = Err e ->
  unsupported CElem t v e
  \/ (e = EUnsupportedType None /\ toml_root_shaped t v = false)
  \/ (exists n, e = EUnsupportedType (Some n) /\ root_struct_variant t v n).
Proof.
  intros Hty H.
  assert (Hedit : ser_toml_root t v = ser_edit_root t v -> toml_root_shaped t v = table_shaped t v ->
                  unsupported CElem t v e \/ (e = EUnsupportedType None /\ toml_root_shaped t v = false)
                  \/ (exists n, e = EUnsupportedType (Some n) /\ root_struct_variant t v n)).
  { intros E1 E2. rewrite E1 in H. destruct (edit_root_errors t v e Hty H) as [U|[-> S]]; [left; exact U|].
    right; left. rewrite E2. auto. }
  unfold has_type in Hty.
  destruct t; try (apply Hedit; destruct v; reflexivity).
  - destruct v as [| | | | | | | | | | | | | |i p]; try (apply Hedit; reflexivity).
    pose proof Hty as Hty'. rewrite ht_enum in Hty'. apply andb_true_iff in Hty' as [_ Hp].
    simpl in H.
    match type of H with pick ?f ?d vs i = _ => destruct (pick_cases f d vs i) as [([vn var] & Hn & E)|[Hn E]]; rewrite E in H end.
    + simpl in H. rewrite (pick_nth _ _ _ _ _ Hn) in Hp. simpl in Hp. destruct var.
      * destruct (edit_root_errors _ _ e Hty H) as [U|[-> S]]; [left; exact U|]. right; left. split; [reflexivity|].
        simpl. rewrite (pick_nth _ _ _ _ _ Hn). reflexivity.
      * destruct (edit_root_errors _ _ e Hty H) as [U|[-> S]]; [left; exact U|].
        exfalso. simpl in S. rewrite (pick_nth _ _ _ _ _ Hn) in S. discriminate S.
      * destruct p; try (simpl in Hp; discriminate Hp). rewrite htv_tuple in Hp.
        apply rbind_err in H as [H|(xs & _ & H)].
        -- left. destruct (errs_tuple ts vs0 e) as (j & t & v & H1 & H2 & H3); [|exact Hp|exact H|].
           ++ apply Forall_forall. intros t _. apply errors_documented.
           ++ eapply u_variant; [exact Hn|]. eapply uv_tuple; eassumption.
        -- injection H as <-. right; left. split; [reflexivity|]. simpl. rewrite (pick_nth _ _ _ _ _ Hn). reflexivity.
      * injection H as <-. right; right. exists name. split; [reflexivity|].
        exists vs, i, p, vn, fs. auto.
    + rewrite (pick_none _ _ _ _ Hn) in Hp. discriminate Hp.
Qed.

Theorem toml_root_supported t v : has_type v t -> supported t v -> toml_root_shaped t v = true ->
  exists out, ser_toml_root t v = Ok out.
Proof.
  intros Hty Hs Hsh. destruct (ser_toml_root t v) as [x|e] eqn:E; [exists x; reflexivity|exfalso].
  destruct (toml_root_errors t v e Hty E) as [U|[[_ S]|(n & _ & (vs & i & p & vn & fs & -> & -> & Hn))]].
  - apply (Hs e U).
  - congruence.
  - simpl in Hsh. rewrite (pick_nth _ _ _ _ _ Hn) in Hsh. discriminate Hsh.
Qed.
