(* Proofs/SerdeRTEq.v — C07: unfolding equations of the nested mutual fixpoints (all by computation),
   so that the proofs never `simpl` them. *)
From TV Require Import Base.Prelude Base.Utf8 Model.Datetime Model.DatetimeStd Model.WriteFloat Model.SerNum
  Spec.DatetimeSpec Spec.SerdeData Model.Ser Model.De.

(* ---- has_type_b ---- *)
Lemma ht_opt_some t v : has_type_b (TOpt t) (SSome v) = has_type_b t v. Proof. reflexivity. Qed.
Lemma ht_seq t vs : has_type_b (TSeq t) (SSeq vs) = forallb (has_type_b t) vs. Proof. reflexivity. Qed.
Lemma ht_tuple ts vs : has_type_b (TTuple ts) (SSeq vs) = all2b has_type_b ts vs. Proof. reflexivity. Qed.
Lemma ht_tuple_struct n ts vs : has_type_b (TTupleStruct n ts) (SSeq vs) = all2b has_type_b ts vs. Proof. reflexivity. Qed.
Lemma ht_map kt vt es : has_type_b (TMap kt vt) (SMap es) =
  negb (is_opt vt) && forallb (fun kv => has_type_b kt (fst kv) && has_type_b vt (snd kv)) es
  && nodup_bytes (somes (map (fun kv => key_text kt (fst kv)) es)).
Proof. reflexivity. Qed.
Lemma ht_struct n fs vs : has_type_b (TStruct n fs) (SRec vs) =
  negb (private_name n) && nodup_bytes (map fst fs) && all2b (fun ft v' => has_type_b (snd ft) v') fs vs.
Proof. reflexivity. Qed.
Lemma ht_newtype n t v : has_type_b (TNewtype n t) (SNewtype v) = has_type_b t v. Proof. reflexivity. Qed.
Lemma ht_enum n vs i p : has_type_b (TEnum n vs) (SVariant i p) =
  nodup_bytes (map fst vs) && pick (fun nv => has_type_variant_b (snd nv) p) false vs i.
Proof. reflexivity. Qed.
Lemma htv_newtype t p : has_type_variant_b (VNewtype t) p = has_type_b t p. Proof. destruct p; reflexivity. Qed.
Lemma htv_tuple ts vs : has_type_variant_b (VTuple ts) (SSeq vs) = all2b has_type_b ts vs. Proof. reflexivity. Qed.
Lemma htv_struct fs vs : has_type_variant_b (VStruct fs) (SRec vs) =
  nodup_bytes (map fst fs) && all2b (fun ft v' => has_type_b (snd ft) v') fs vs.
Proof. reflexivity. Qed.

(* ---- ser_value ---- *)
Definition ser_fields (fs : list (bytes * ty)) (vs : list sval) : result (list (option (bytes * tomlval))) :=
  zipM (fun ft v' => rmap (optmap (fun x => (fst ft, x))) (ser_map_value ser_value (snd ft) v')) fs vs.
Definition ser_entries (kt vt : ty) (es : list (sval * sval)) : result (list (option (bytes * tomlval))) :=
  mapM (fun kv => rbind (ser_key kt (fst kv)) (fun k =>
                  rmap (optmap (fun x => (k, x))) (ser_map_value ser_value vt (snd kv)))) es.
Definition table_of (ps : list (option (bytes * tomlval))) : tomlval := VTab (tab_of_pairs (somes_pairs ps)).

Lemma sv_opt_some t v : ser_value (TOpt t) (SSome v) = ser_value t v. Proof. reflexivity. Qed.
Lemma sv_seq t vs : ser_value (TSeq t) (SSeq vs) = rmap VArr (mapM (ser_value t) vs). Proof. reflexivity. Qed.
Lemma sv_tuple ts vs : ser_value (TTuple ts) (SSeq vs) = rmap VArr (zipM ser_value ts vs). Proof. reflexivity. Qed.
Lemma sv_tuple_struct n ts vs : ser_value (TTupleStruct n ts) (SSeq vs) = rmap VArr (zipM ser_value ts vs).
Proof. reflexivity. Qed.
Lemma sv_map kt vt es : ser_value (TMap kt vt) (SMap es) = rmap table_of (ser_entries kt vt es). Proof. reflexivity. Qed.
Lemma sv_struct n fs vs : ser_value (TStruct n fs) (SRec vs) =
  if bytes_eqb n DT_NAME then ser_dt_struct fs vs None else rmap table_of (ser_fields fs vs).
Proof. reflexivity. Qed.
Lemma sv_newtype n t v : ser_value (TNewtype n t) (SNewtype v) = ser_value t v. Proof. reflexivity. Qed.
Definition ser_variant (p : sval) (nv : bytes * variant) : result tomlval :=
  match snd nv with
  | VUnit => match p with SUnit => Ok (VStr (fst nv)) | _ => Err EBadCase end
  | _ => rmap (fun x => VTab [(fst nv, x)]) (ser_payload (snd nv) p)
  end.
Lemma sv_enum n vs i p : ser_value (TEnum n vs) (SVariant i p) = pick (ser_variant p) (Err EBadCase) vs i.
Proof. reflexivity. Qed.
Lemma sp_newtype t p : ser_payload (VNewtype t) p = ser_value t p. Proof. destruct p; reflexivity. Qed.
Lemma sp_tuple ts vs : ser_payload (VTuple ts) (SSeq vs) = rmap VArr (zipM ser_value ts vs). Proof. reflexivity. Qed.
Lemma sp_struct fs vs : ser_payload (VStruct fs) (SRec vs) = rmap table_of (ser_fields fs vs). Proof. reflexivity. Qed.

(* ---- de_value ---- *)
Definition de_entries (kt vt : ty) (es : list (bytes * tomlval)) : result (list (sval * sval)) :=
  mapM (fun kx => rbind (de_key kt (fst kx)) (fun k => rmap (fun v => (k, v)) (de_value vt (snd kx)))) es.
Definition de_unit_only (i : nat) (var : variant) : result sval :=
  match var with VUnit => Ok (SVariant i SUnit) | _ => Err EDe end.

Lemma dv_opt t x : de_value (TOpt t) x = rmap SSome (de_value t x). Proof. reflexivity. Qed.
Lemma dv_seq t xs : de_value (TSeq t) (VArr xs) = rmap SSeq (mapM (de_value t) xs). Proof. reflexivity. Qed.
Lemma dv_tuple ts xs : de_value (TTuple ts) (VArr xs) = rmap (fun r => SSeq (fst r)) (de_pos de_value (fun t' => t') ts xs).
Proof. reflexivity. Qed.
Lemma dv_tuple_struct n ts xs :
  de_value (TTupleStruct n ts) (VArr xs) = rmap (fun r => SSeq (fst r)) (de_pos de_value (fun t' => t') ts xs).
Proof. reflexivity. Qed.
Lemma dv_map kt vt es : de_value (TMap kt vt) (VTab es) = rmap (fun ps => SMap (smap_of_pairs ps)) (de_entries kt vt es).
Proof. reflexivity. Qed.
Lemma dv_struct n fs es : de_value (TStruct n fs) (VTab es) =
  if private_name n then Err EUnmodelled else rmap SRec (de_struct_map de_value fs es).
Proof. reflexivity. Qed.
Lemma dv_newtype n t x : de_value (TNewtype n t) x = rmap SNewtype (de_value t x). Proof. reflexivity. Qed.
Lemma dv_enum_str n vs s : de_value (TEnum n vs) (VStr s) = find_name de_unit_only (Err EDe) s vs 0.
Proof. reflexivity. Qed.
Lemma dv_enum_tab n vs k y : de_value (TEnum n vs) (VTab [(k, y)]) =
  find_name (fun i var => rmap (SVariant i) (de_payload var y)) (Err EDe) k vs 0.
Proof. reflexivity. Qed.
Lemma dp_newtype t y : de_payload (VNewtype t) y = de_value t y. Proof. reflexivity. Qed.
Lemma dp_tuple ts xs : de_payload (VTuple ts) (VArr xs) =
  if Nat.eqb (length xs) (length ts) then rmap (fun r => SSeq (fst r)) (de_pos de_value (fun t' => t') ts xs) else Err EDe.
Proof. reflexivity. Qed.
Lemma dp_struct fs es : de_payload (VStruct fs) (VTab es) =
  if struct_keys_ok (map fst fs) es then rmap SRec (de_struct_map de_value fs es) else Err EDe.
Proof. reflexivity. Qed.
Lemma dk_newtype n t k : de_key (TNewtype n t) k = rmap SNewtype (de_key t k). Proof. reflexivity. Qed.
Lemma dk_enum n vs k : de_key (TEnum n vs) k = find_name de_unit_only (Err EDe) k vs 0. Proof. reflexivity. Qed.
Lemma sk_newtype n t v : ser_key (TNewtype n t) (SNewtype v) = ser_key t v. Proof. reflexivity. Qed.
Definition key_variant (nv : bytes * variant) : result bytes :=
  match snd nv with VUnit => Ok (fst nv) | _ => Err EKeyNotString end.
Lemma sk_enum n vs i p : ser_key (TEnum n vs) (SVariant i p) = pick key_variant (Err EBadCase) vs i.
Proof. reflexivity. Qed.
Definition key_text_variant (nv : bytes * variant) : option bytes :=
  match snd nv with VUnit => Some (fst nv) | _ => None end.
Lemma kt_newtype n t v : key_text (TNewtype n t) (SNewtype v) = key_text t v. Proof. reflexivity. Qed.
Lemma kt_enum n vs i p : key_text (TEnum n vs) (SVariant i p) = pick key_text_variant None vs i. Proof. reflexivity. Qed.
