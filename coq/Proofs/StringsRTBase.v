(* Proofs/StringsRTBase.v — byte-class facts (by comparison of byte values, never by a 256-way
   case split inside a goal), UTF-8 cutting at ASCII bytes, span_while facts, and the behaviour
   of the mini-winnow primitives on an input written `mkIn (token ++ rest) pos depth`. *)
From TV Require Import Base.Prelude Base.Utf8 Base.Winnow Gen.Consts.
From TV Require Import Model.Trivia Model.Strings Model.Write Proofs.StringsRTDefs.
Require Import Lia ZifyBool ZifyN ZifyNat.

(* ---- bytes as numbers ------------------------------------------------------------------- *)
Lemma b2n_lt b : (b2n b < 256)%N.
Proof. unfold b2n. pose proof (Byte.to_N_bounded b). lia. Qed.

Lemma b2n_inj a b : b2n a = b2n b -> a = b.
Proof.
  unfold b2n. intro H. pose proof (Byte.of_to_N a) as Ha. pose proof (Byte.of_to_N b) as Hb.
  rewrite H in Ha. congruence.
Qed.

Lemma byte_eqb_n a b : byte_eqb a b = (b2n a =? b2n b)%N.
Proof.
  destruct (byte_eqb a b) eqn:E.
  - apply byte_eqb_eq in E. subst. symmetry. apply N.eqb_refl.
  - symmetry. apply N.eqb_neq. intro H. apply b2n_inj in H. subst.
    rewrite byte_eqb_refl in E. discriminate.
Qed.

Lemma byte_eqb_sym a b : byte_eqb a b = byte_eqb b a.
Proof. rewrite !byte_eqb_n. apply N.eqb_sym. Qed.

Lemma n2b_b2n b : n2b (b2n b) = b.
Proof. unfold n2b, b2n. rewrite Byte.of_to_N. reflexivity. Qed.

Lemma b2n_n2b n : (n < 256)%N -> b2n (n2b n) = n.
Proof.
  intro H. unfold n2b, b2n. destruct (Byte.of_N n) eqn:E.
  - apply Byte.to_of_N in E. exact E.
  - apply Byte.of_N_None_iff in E. lia.
Qed.

(* turn every byte test of the goal into a comparison on [b2n b] *)
Ltac byten :=
  unfold plain, is_ctrl, is_unquoted_byte, is_cont, inr, in_class,
    BASIC_UNESCAPED, MLB_UNESCAPED, LITERAL_CHAR, MLL_CHAR, UNQUOTED_CHAR, WSCHAR, HEXDIG, NON_EOL,
    QUOTATION_MARK, APOSTROPHE, ESCAPE, LF, CR in *;
  cbn [existsb fst snd] in *;
  rewrite ?byte_eqb_n in *;
  cbn [b2n Byte.to_N] in *.

(* evaluate byte tests on concrete bytes (leaves tests on variables alone) *)
Ltac beq_compute :=
  repeat match goal with
  | |- context [byte_eqb ?a ?b] =>
      let v := eval vm_compute in (byte_eqb a b) in
      match v with true => idtac | false => idtac end;
      change (byte_eqb a b) with v
  | |- context [is_ctrl ?a] =>
      let v := eval vm_compute in (is_ctrl a) in
      match v with true => idtac | false => idtac end;
      change (is_ctrl a) with v
  end.

(* ---- byte classes ----------------------------------------------------------------------- *)
Lemma plain_basic b : plain b = true -> in_class BASIC_UNESCAPED b = true.
Proof. pose proof (b2n_lt b). byten. lia. Qed.
Lemma plain_mlb b : plain b = true -> in_class MLB_UNESCAPED b = true.
Proof. pose proof (b2n_lt b). byten. lia. Qed.
Lemma plain_high b : (128 <= b2n b)%N -> plain b = true.
Proof. pose proof (b2n_lt b). byten. lia. Qed.
Lemma not_plain_ascii b : plain b = false -> (b2n b <= 127)%N.
Proof. pose proof (b2n_lt b). byten. lia. Qed.
Lemma plain_not_quote b : plain b = true -> byte_eqb b x22 = false.
Proof. byten. lia. Qed.

(* the first byte of every escape, the quotation mark and LF stop an unescaped chunk *)
Lemma basic_stop b : byte_eqb b x22 = true \/ byte_eqb b x5c = true \/ byte_eqb b x0a = true ->
  in_class BASIC_UNESCAPED b = false.
Proof. byten. lia. Qed.
Lemma mlb_stop b : byte_eqb b x22 = true \/ byte_eqb b x5c = true \/ byte_eqb b x0a = true ->
  in_class MLB_UNESCAPED b = false.
Proof. byten. lia. Qed.

(* literal strings: everything but control characters (tab allowed) and the apostrophe *)
Lemma literal_char_ok b : (is_ctrl b = false \/ byte_eqb b x09 = true) -> byte_eqb b x27 = false ->
  in_class LITERAL_CHAR b = true.
Proof. pose proof (b2n_lt b). byten. lia. Qed.
Lemma mll_char_ok b : (is_ctrl b = false \/ byte_eqb b x09 = true) -> byte_eqb b x27 = false ->
  in_class MLL_CHAR b = true.
Proof. pose proof (b2n_lt b). byten. lia. Qed.
Lemma literal_char_apos : in_class LITERAL_CHAR x27 = false.
Proof. reflexivity. Qed.
Lemma mll_char_apos : in_class MLL_CHAR x27 = false.
Proof. reflexivity. Qed.
Lemma mll_char_lf : in_class MLL_CHAR x0a = false.
Proof. reflexivity. Qed.

Lemma unquoted_class b : is_unquoted_byte b = in_class UNQUOTED_CHAR b.
Proof. byten. lia. Qed.
Lemma unquoted_not_quote b : is_unquoted_byte b = true ->
  byte_eqb b x22 = false /\ byte_eqb b x27 = false.
Proof. byten. lia. Qed.

(* ---- UTF-8: cutting a valid string at an ASCII byte -------------------------------------- *)
Lemma utf8_cons_ascii b s : (b2n b <= 127)%N -> utf8_valid_b (b :: s) = utf8_valid_b s.
Proof. intro H. cbn [utf8_valid_b]. apply N.leb_le in H. rewrite H. reflexivity. Qed.

Lemma ascii_not_cont b : (b2n b <= 127)%N -> is_cont b = false.
Proof. unfold is_cont. lia. Qed.
Lemma ascii_not_inr lo hi b : (b2n b <= 127)%N -> (128 <= lo)%N -> inr lo hi b = false.
Proof. unfold inr. lia. Qed.

Lemma utf8_split_n n : forall a b c, length a <= n -> (b2n b <= 127)%N ->
  utf8_valid_b (a ++ b :: c) = true -> utf8_valid_b a = true /\ utf8_valid_b c = true.
Proof.
  induction n as [|n IH]; intros a b c Hn Hb H.
  - destruct a; [|simpl in Hn; lia]. simpl app in H. rewrite utf8_cons_ascii in H by exact Hb. auto.
  - destruct a as [|a0 a1].
    { simpl app in H. rewrite utf8_cons_ascii in H by exact Hb. auto. }
    simpl in Hn. pose proof (ascii_not_cont b Hb) as Hc.
    assert (Hi : forall lo hi, (128 <= lo)%N -> inr lo hi b = false) by (intros; apply ascii_not_inr; assumption).
    cbn [app utf8_valid_b] in H. cbn [utf8_valid_b].
    destruct (b2n a0 <=? 127)%N.
    { apply (IH a1 b c); [lia|exact Hb|exact H]. }
    destruct (inr 194 223 a0).
    { destruct a1 as [|a2 a3]; cbn [app] in H.
      - rewrite Hc in H. discriminate.
      - apply andb_true_iff in H as [H1 H2]. rewrite H1. cbn [andb].
        apply (IH a3 b c); [simpl in Hn; lia|exact Hb|exact H2]. }
    assert (Hfirst : forall x, (if (b2n a0 =? x)%N then inr 160 191 b else if (b2n a0 =? 237)%N then inr 128 159 b else is_cont b) = false).
    { intro x. rewrite !Hi by lia. rewrite Hc. destruct (b2n a0 =? x)%N; [reflexivity|]. destruct (b2n a0 =? 237)%N; reflexivity. }
    assert (Hfirst4 : forall x, (if (b2n a0 =? x)%N then inr 144 191 b else if (b2n a0 =? 244)%N then inr 128 143 b else is_cont b) = false).
    { intro x. rewrite !Hi by lia. rewrite Hc. destruct (b2n a0 =? x)%N; [reflexivity|]. destruct (b2n a0 =? 244)%N; reflexivity. }
    destruct (inr 224 239 a0).
    { destruct a1 as [|a2 [|a3 a4]]; cbn [app] in H.
      - destruct c as [|c0 c1]; [discriminate|]. rewrite Hfirst in H. discriminate.
      - rewrite Hc in H. rewrite andb_false_r in H. discriminate.
      - apply andb_true_iff in H as [H1 H2]. rewrite H1. cbn [andb].
        apply (IH a4 b c); [simpl in Hn; lia|exact Hb|exact H2]. }
    destruct (inr 240 244 a0); [|discriminate].
    destruct a1 as [|a2 [|a3 [|a4 a5]]]; cbn [app] in H.
    + destruct c as [|c0 [|c1 c2]]; try discriminate. rewrite Hfirst4 in H. discriminate.
    + destruct c as [|c0 c1]; [discriminate|]. rewrite Hc in H. rewrite andb_false_r in H. discriminate.
    + rewrite Hc in H. rewrite andb_false_r in H. discriminate.
    + apply andb_true_iff in H as [H1 H2]. rewrite H1. cbn [andb].
      apply (IH a5 b c); [simpl in Hn; lia|exact Hb|exact H2].
Qed.

Lemma utf8_split a b c : (b2n b <= 127)%N -> utf8_valid_b (a ++ b :: c) = true ->
  utf8_valid_b a = true /\ utf8_valid_b c = true.
Proof. apply (utf8_split_n (length a)). lia. Qed.

(* ---- span_while --------------------------------------------------------------------------- *)
Definition stops (f : byte -> bool) (r : bytes) : Prop :=
  match r with [] => True | b :: _ => f b = false end.

Lemma span_while_exact f a r : forallb f a = true -> stops f r -> span_while f (a ++ r) = (a, r).
Proof.
  induction a as [|x a IH]; intros Ha Hr.
  - simpl app. destruct r as [|b r]; [reflexivity|]. simpl in Hr. simpl. rewrite Hr. reflexivity.
  - simpl in Ha. apply andb_true_iff in Ha as [Hx Ha]. simpl. rewrite Hx. rewrite (IH Ha Hr). reflexivity.
Qed.

Lemma span_while_split f s : exists a r, s = a ++ r /\ forallb f a = true /\ stops f r.
Proof.
  exists (fst (span_while f s)), (snd (span_while f s)).
  split; [symmetry; apply span_while_app|split; [apply span_while_all|]].
  pose proof (span_while_stop f s) as H. unfold stops. destruct (snd (span_while f s)); exact H.
Qed.

Lemma skipn_app_len {A} (a r : list A) : skipn (length a) (a ++ r) = r.
Proof. induction a; simpl; auto. Qed.
Lemma firstn_app_len {A} (a r : list A) : firstn (length a) (a ++ r) = a.
Proof. induction a; simpl; congruence. Qed.

(* ---- inputs -------------------------------------------------------------------------------- *)
Lemma advance_app a r p d : advance (length a) (mkIn (a ++ r) p d) = after a r p d.
Proof. unfold advance, after. cbn [rest pos depth]. rewrite skipn_app_len. reflexivity. Qed.

Lemma after_nil r p d : after [] r p d = mkIn r p d.
Proof. unfold after. cbn [length]. f_equal. lia. Qed.

Lemma after_after t1 t2 r p d : after t2 r (p + N.of_nat (length t1)) d = after (t1 ++ t2) r p d.
Proof. unfold after. f_equal. rewrite app_length. lia. Qed.

Lemma mkIn_eq r r' p p' d : r = r' -> p = p' -> mkIn r p d = mkIn r' p' d.
Proof. intros; subst; reflexivity. Qed.

(* prove an equality between two inputs that differ only in how the position is written *)
Ltac inp :=
  unfold after; apply mkIn_eq;
  [ repeat (rewrite <- ?app_assoc; cbn [app]); try reflexivity
  | repeat rewrite app_length; cbn [length]; lia ].

Lemma ok_inp {A} (a a' : A) i i' : a = a' -> i = i' -> Ok a i = Ok a' i'.
Proof. intros; subst; reflexivity. Qed.

(* ---- sequencing ------------------------------------------------------------------------------ *)
Lemma bind_ok {A B} (p : parser A) (f : A -> parser B) i a i' :
  p i = Ok a i' -> bind p f i = f a i'.
Proof. intro H. unfold bind. rewrite H. reflexivity. Qed.
Lemma bind_bt {A B} (p : parser A) (f : A -> parser B) i e i' :
  p i = Bt e i' -> bind p f i = Bt e i'.
Proof. intro H. unfold bind. rewrite H. reflexivity. Qed.
Lemma alt_ok {A} (p q : parser A) i a i' : p i = Ok a i' -> alt p q i = Ok a i'.
Proof. intro H. unfold alt. rewrite H. reflexivity. Qed.
Lemma alt_bt {A} (p q : parser A) i e i' : p i = Bt e i' -> alt p q i = q i.
Proof. intro H. unfold alt. rewrite H. reflexivity. Qed.
Lemma opt_ok {A} (p : parser A) i a i' : p i = Ok a i' -> opt p i = Ok (Some a) i'.
Proof. intro H. unfold opt. rewrite H. reflexivity. Qed.
Lemma opt_bt {A} (p : parser A) i e i' : p i = Bt e i' -> opt p i = Ok None i.
Proof. intro H. unfold opt. rewrite H. reflexivity. Qed.
Lemma pmap_ok {A B} (f : A -> B) (p : parser A) i a i' : p i = Ok a i' -> pmap f p i = Ok (f a) i'.
Proof. intro H. unfold pmap. rewrite H. reflexivity. Qed.
Lemma pmap_bt {A B} (f : A -> B) (p : parser A) i e i' : p i = Bt e i' -> pmap f p i = Bt e i'.
Proof. intro H. unfold pmap. rewrite H. reflexivity. Qed.
Lemma cut_err_ok {A} (p : parser A) i a i' : p i = Ok a i' -> cut_err p i = Ok a i'.
Proof. intro H. unfold cut_err. rewrite H. reflexivity. Qed.
Lemma context_ok {A} (p : parser A) i a i' : p i = Ok a i' -> context p i = Ok a i'.
Proof. intro H. unfold context. rewrite H. reflexivity. Qed.
Lemma peek_ok {A} (p : parser A) i a i' : p i = Ok a i' -> peek p i = Ok a i.
Proof. intro H. unfold peek. rewrite H. reflexivity. Qed.
Lemma peek_bt {A} (p : parser A) i e i' : p i = Bt e i' -> peek p i = Bt e i.
Proof. intro H. unfold peek. rewrite H. reflexivity. Qed.

(* ---- primitives -------------------------------------------------------------------------------- *)
Lemma any_cons b r p d : any (mkIn (b :: r) p d) = Ok b (mkIn r (p + 1)%N d).
Proof. reflexivity. Qed.
Lemma any_nil p d : any (mkIn [] p d) = Bt err0 (mkIn [] p d).
Proof. reflexivity. Qed.
Lemma one_of_cons f b r p d :
  one_of f (mkIn (b :: r) p d) = if f b then Ok b (mkIn r (p + 1)%N d) else Bt err0 (mkIn (b :: r) p d).
Proof. reflexivity. Qed.
Lemma one_of_yes f b r p d : f b = true -> one_of f (mkIn (b :: r) p d) = Ok b (mkIn r (p + 1)%N d).
Proof. intro H. rewrite one_of_cons, H. reflexivity. Qed.
Lemma one_of_no f r p d : stops f r -> one_of f (mkIn r p d) = Bt err0 (mkIn r p d).
Proof. destruct r as [|b r]; [reflexivity|]. simpl. intro H. rewrite one_of_cons, H. reflexivity. Qed.
Lemma byte_yes x r p d : byte_ x (mkIn (x :: r) p d) = Ok x (mkIn r (p + 1)%N d).
Proof. unfold byte_. apply one_of_yes. apply byte_eqb_refl. Qed.
Lemma byte_no x r p d : stops (byte_eqb x) r -> byte_ x (mkIn r p d) = Bt err0 (mkIn r p d).
Proof. apply one_of_no. Qed.

Lemma lit_yes l r p d : lit l (mkIn (l ++ r) p d) = Ok l (after l r p d).
Proof.
  unfold lit. cbn [rest]. assert (H : strip_prefix l (l ++ r) = Some r) by (apply strip_prefix_spec; reflexivity).
  rewrite H. rewrite advance_app. reflexivity.
Qed.
Lemma lit_no l r p d : strip_prefix l r = None -> lit l (mkIn r p d) = Bt err0 (mkIn r p d).
Proof. intro H. unfold lit. cbn [rest]. rewrite H. reflexivity. Qed.

Lemma take_while_yes m f a r p d : forallb f a = true -> stops f r -> m <= length a ->
  take_while_mn m None f (mkIn (a ++ r) p d) = Ok a (after a r p d).
Proof.
  intros Ha Hr Hm. unfold take_while_mn. cbn [rest]. rewrite (span_while_exact f a r Ha Hr). cbn [fst].
  destruct (Nat.ltb (length a) m) eqn:E; [apply Nat.ltb_lt in E; lia|].
  rewrite advance_app. reflexivity.
Qed.
Lemma take_while1_no f r p d : stops f r -> take_while1 f (mkIn r p d) = Bt err0 (mkIn r p d).
Proof.
  intro Hr. unfold take_while1, take_while_mn. cbn [rest].
  pose proof (span_while_exact f [] r eq_refl Hr) as H. cbn [app] in H. rewrite H. reflexivity.
Qed.
Lemma take_while0_none f r p d : stops f r -> take_while0 f (mkIn r p d) = Ok [] (mkIn r p d).
Proof.
  intro Hr. unfold take_while0. pose proof (take_while_yes 0 f [] r p d eq_refl Hr (Nat.le_refl _)) as H.
  cbn [app] in H. rewrite H, after_nil. reflexivity.
Qed.

(* trivia.rs ws on an input that does not start with a blank *)
Lemma ws_none r p d : stops (in_class WSCHAR) r -> ws (mkIn r p d) = Ok [] (mkIn r p d).
Proof. intro H. unfold ws, unchecked_utf8. rewrite take_while0_none by exact H. reflexivity. Qed.

(* the progress checks of the loops *)
Lemma eqb_lt n m : n < m -> Nat.eqb n m = false.
Proof. intro H. apply Nat.eqb_neq. lia. Qed.
