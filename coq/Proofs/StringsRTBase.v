(* Proofs/StringsRTBase.v — byte-class facts (by comparison of byte values, never by a 256-way
   case split inside a goal), UTF-8 cutting at ASCII bytes, span_while facts, and the behaviour
   of the mini-winnow primitives on an input written `mkIn (token ++ rest) pos depth`. *)
From TV Require Import Base.Prelude Base.Utf8 Base.Winnow Gen.Consts.
From TV Require Import Model.Trivia Model.Strings Model.Write Proofs.StringsRTDefs.
Require Import Lia ZifyBool ZifyN ZifyNat.

(* ---- bytes as numbers ------------------------------------------------------------------- *)
Lemma b2n_lt b : (b2n b < 256)%N.
Proof. unfold b2n. pose proof (Byte.to_N_bounded b). lia. Qed.

Lemma b2n_inj a b : b2n a = b2n b -> a = b.
Proof.
  unfold b2n. intro H. pose proof (Byte.of_to_N a) as Ha. pose proof (Byte.of_to_N b) as Hb.
  rewrite H in Ha. congruence.
Qed.

Lemma byte_eqb_n a b : byte_eqb a b = (b2n a =? b2n b)%N.
Proof.
  destruct (byte_eqb a b) eqn:E.
  - apply byte_eqb_eq in E. subst. symmetry. apply N.eqb_refl.
  - symmetry. apply N.eqb_neq. intro H. apply b2n_inj in H. subst.
    rewrite byte_eqb_refl in E. discriminate.
Qed.

Lemma byte_eqb_sym a b : byte_eqb a b = byte_eqb b a.
Proof. rewrite !byte_eqb_n. apply N.eqb_sym. Qed.

Lemma n2b_b2n b : n2b (b2n b) = b.
Proof. unfold n2b, b2n. rewrite Byte.of_to_N. reflexivity. Qed.

Lemma b2n_n2b n : (n < 256)%N -> b2n (n2b n) = n.
Proof.
  intro H. unfold n2b, b2n. destruct (Byte.of_N n) eqn:E.
  - apply Byte.to_of_N in E. exact E.
  - apply Byte.of_N_None_iff in E. lia.
Qed.

(* turn every byte test of the goal into a comparison on [b2n b] *)
Ltac byten :=
  unfold plain, is_ctrl, is_unquoted_byte, is_cont, inr, in_class,
    BASIC_UNESCAPED, MLB_UNESCAPED, LITERAL_CHAR, MLL_CHAR, UNQUOTED_CHAR, WSCHAR, HEXDIG, NON_EOL,
    QUOTATION_MARK, APOSTROPHE, ESCAPE, LF, CR in *;
  cbn [existsb fst snd] in *;
  rewrite ?byte_eqb_n in *;
  cbn [b2n Byte.to_N] in *.

(* ---- byte classes ----------------------------------------------------------------------- *)
Lemma plain_basic b : plain b = true -> in_class BASIC_UNESCAPED b = true.
Proof. pose proof (b2n_lt b). byten. lia. Qed.
Lemma plain_mlb b : plain b = true -> in_class MLB_UNESCAPED b = true.
Proof. pose proof (b2n_lt b). byten. lia. Qed.
Lemma plain_high b : (128 <= b2n b)%N -> plain b = true.
Proof. pose proof (b2n_lt b). byten. lia. Qed.
Lemma not_plain_ascii b : plain b = false -> (b2n b <= 127)%N.
Proof. pose proof (b2n_lt b). byten. lia. Qed.
Lemma plain_not_quote b : plain b = true -> byte_eqb b x22 = false.
Proof. byten. lia. Qed.

(* the first byte of every escape, the quotation mark and LF stop an unescaped chunk *)
Lemma basic_stop b : byte_eqb b x22 = true \/ byte_eqb b x5c = true \/ byte_eqb b x0a = true ->
  in_class BASIC_UNESCAPED b = false.
Proof. byten. lia. Qed.
Lemma mlb_stop b : byte_eqb b x22 = true \/ byte_eqb b x5c = true \/ byte_eqb b x0a = true ->
  in_class MLB_UNESCAPED b = false.
Proof. byten. lia. Qed.

(* literal strings: everything but control characters (tab allowed) and the apostrophe *)
Lemma literal_char_ok b : (is_ctrl b = false \/ byte_eqb b x09 = true) -> byte_eqb b x27 = false ->
  in_class LITERAL_CHAR b = true.
Proof. pose proof (b2n_lt b). byten. lia. Qed.
Lemma mll_char_ok b : (is_ctrl b = false \/ byte_eqb b x09 = true) -> byte_eqb b x27 = false ->
  in_class MLL_CHAR b = true.
Proof. pose proof (b2n_lt b). byten. lia. Qed.
Lemma literal_char_apos : in_class LITERAL_CHAR x27 = false.
Proof. reflexivity. Qed.
Lemma mll_char_apos : in_class MLL_CHAR x27 = false.
Proof. reflexivity. Qed.
Lemma mll_char_lf : in_class MLL_CHAR x0a = false.
Proof. reflexivity. Qed.

Lemma unquoted_class b : is_unquoted_byte b = in_class UNQUOTED_CHAR b.
Proof. byten. lia. Qed.
Lemma unquoted_not_quote b : is_unquoted_byte b = true ->
  byte_eqb b x22 = false /\ byte_eqb b x27 = false.
Proof. byten. lia. Qed.

(* ---- UTF-8: cutting a valid string at an ASCII byte -------------------------------------- *)
Lemma utf8_cons_ascii b s : (b2n b <= 127)%N -> utf8_valid_b (b :: s) = utf8_valid_b s.
Proof. intro H. cbn [utf8_valid_b]. apply N.leb_le in H. rewrite H. reflexivity. Qed.

Lemma ascii_not_cont b : (b2n b <= 127)%N -> is_cont b = false.
Proof. unfold is_cont. lia. Qed.
Lemma ascii_not_inr lo hi b : (b2n b <= 127)%N -> (128 <= lo)%N -> inr lo hi b = false.
Proof. unfold inr. lia. Qed.

Lemma utf8_split_n n : forall a b c, length a <= n -> (b2n b <= 127)%N ->
  utf8_valid_b (a ++ b :: c) = true -> utf8_valid_b a = true /\ utf8_valid_b c = true.
Proof.
  induction n as [|n IH]; intros a b c Hn Hb H.
  - destruct a; [|simpl in Hn; lia]. simpl app in H. rewrite utf8_cons_ascii in H by exact Hb. auto.
  - destruct a as [|a0 a1].
    { simpl app in H. rewrite utf8_cons_ascii in H by exact Hb. auto. }
    simpl in Hn. pose proof (ascii_not_cont b Hb) as Hc.
    assert (Hi : forall lo hi, (128 <= lo)%N -> inr lo hi b = false) by (intros; apply ascii_not_inr; assumption).
    cbn [app utf8_valid_b] in H. cbn [utf8_valid_b].
    destruct (b2n a0 <=? 127)%N.
    { apply (IH a1 b c); [lia|exact Hb|exact H]. }
    destruct (inr 194 223 a0).
    { destruct a1 as [|a2 a3]; cbn [app] in H.
      - rewrite Hc in H. discriminate.
      - apply andb_true_iff in H as [H1 H2]. rewrite H1. cbn [andb].
        apply (IH a3 b c); [simpl in Hn; lia|exact Hb|exact H2]. }
    assert (Hfirst : forall x, (if (b2n a0 =? x)%N then inr 160 191 b else if (b2n a0 =? 237)%N then inr 128 159 b else is_cont b) = false).
    { intro x. rewrite !Hi by lia. rewrite Hc. destruct (b2n a0 =? x)%N; [reflexivity|]. destruct (b2n a0 =? 237)%N; reflexivity. }
    assert (Hfirst4 : forall x, (if (b2n a0 =? x)%N then inr 144 191 b else if (b2n a0 =? 244)%N then inr 128 143 b else is_cont b) = false).
    { intro x. rewrite !Hi by lia. rewrite Hc. destruct (b2n a0 =? x)%N; [reflexivity|]. destruct (b2n a0 =? 244)%N; reflexivity. }
    destruct (inr 224 239 a0).
    { destruct a1 as [|a2 [|a3 a4]]; cbn [app] in H.
      - destruct c as [|c0 c1]; [discriminate|]. rewrite Hfirst in H. discriminate.
      - rewrite Hc in H. rewrite andb_false_r in H. discriminate.
      - apply andb_true_iff in H as [H1 H2]. rewrite H1. cbn [andb].
        apply (IH a4 b c); [simpl in Hn; lia|exact Hb|exact H2]. }
    destruct (inr 240 244 a0); [|discriminate].
    destruct a1 as [|a2 [|a3 [|a4 a5]]]; cbn [app] in H.
    + destruct c as [|c0 [|c1 c2]]; try discriminate. rewrite Hfirst4 in H. discriminate.
    + destruct c as [|c0 c1]; [discriminate|]. rewrite Hc in H. rewrite andb_false_r in H. discriminate.
    + rewrite Hc in H. rewrite andb_false_r in H. discriminate.
    + apply andb_true_iff in H as [H1 H2]. rewrite H1. cbn [andb].
      apply (IH a5 b c); [simpl in Hn; lia|exact Hb|exact H2].
Qed.

Lemma utf8_split a b c : (b2n b <= 127)%N -> utf8_valid_b (a ++ b :: c) = true ->
  utf8_valid_b a = true /\ utf8_valid_b c = true.
Proof. apply (utf8_split_n (length a)). lia. Qed.
