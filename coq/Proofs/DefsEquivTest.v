(* Proofs/DefsEquivTest.v — C09: validation of Spec/Defs.v against the model BY COMPUTATION,
   done before (and kept beside) the proofs.  This is a test, not the theorem.
   Bound: all statement sequences of length <= 3 whose statements are [p], [[p]] or p = <i>
   with p a path of length <= 2 over the keys {a, b} (18 statements, 6175 sequences). *)
From TV Require Import Base.Prelude Base.Winnow Model.Tree Model.Parse Model.Document Spec.Defs.
From TV Require Import Proofs.DefsEquivBase.

Definition veqb (a b : value) : bool :=
  match a, b with
  | VScalar (SInt x) _ _, VScalar (SInt y) _ _ => Z.eqb x y
  | _, _ => false
  end.

Definition kind_eqb (a b : kind) : bool :=
  match a, b with KSuper, KSuper | KHeader, KHeader | KDotted, KDotted => true | _, _ => false end.

Fixpoint node_eqb (a b : node value) {struct a} : bool :=
  match a, b with
  | NVal x, NVal y => veqb x y
  | NTab ka ia, NTab kb ib =>
    kind_eqb ka kb &&
    (fix go (l : list (bytes * node value)) (r : list (bytes * node value)) {struct l} : bool :=
       match l, r with
       | [], [] => true
       | (k1, n1) :: l', (k2, n2) :: r' => bytes_eqb k1 k2 && node_eqb n1 n2 && go l' r'
       | _, _ => false
       end) ia ib
  | NAot ea, NAot eb =>
    (fix goe (l : list (list (bytes * node value))) (r : list (list (bytes * node value))) {struct l} : bool :=
       match l, r with
       | [], [] => true
       | x :: l', y :: r' =>
         (fix go (l : list (bytes * node value)) (r : list (bytes * node value)) {struct l} : bool :=
            match l, r with
            | [], [] => true
            | (k1, n1) :: l', (k2, n2) :: r' => bytes_eqb k1 k2 && node_eqb n1 n2 && go l' r'
            | _, _ => false
            end) x y && goe l' r'
       | _, _ => false
       end) ea eb
  | _, _ => false
  end.
Definition stree_eqb (a b : stree value) : bool := node_eqb (NTab KHeader a) (NTab KHeader b).

(* a statement shape: form (0 = [p], 1 = [[p]], 2 = p = v) and path *)
Definition paths : list (list byte) :=
  [[x61]; [x62]; [x61; x61]; [x61; x62]; [x62; x61]; [x62; x62]].
Definition shapes : list (nat * list byte) :=
  flat_map (fun p => [(0, p); (1, p); (2, p)]) paths.

Definition mk_stmt (i : Z) (sh : nat * list byte) : mstmt :=
  let '(form, p) := sh in
  match pop_key (map tkey p) with
  | None => MKeyVal [] (tkey x61) (tval i)          (* unreachable: paths are non-empty *)
  | Some (pre, k) =>
    match form with
    | 0 => MHeader false pre k (0, 0)%N (0, 0)%N
    | 1 => MHeader true pre k (0, 0)%N (0, 0)%N
    | _ => MKeyVal pre k (tval i)
    end
  end.

Fixpoint number (i : Z) (l : list (nat * list byte)) : list mstmt :=
  match l with [] => [] | sh :: tl => mk_stmt i sh :: number (i + 1) tl end.

Fixpoint seqs (n : nat) : list (list (nat * list byte)) :=      (* exactly n statements *)
  match n with
  | O => [[]]
  | S m => flat_map (fun tl => map (fun sh => sh :: tl) shapes) (seqs m)
  end.
Definition all_seqs : list (list mstmt) :=
  map (number 1) (seqs 0 ++ seqs 1 ++ seqs 2 ++ seqs 3).

(* spec Invalid => model CErr; spec Valid t => model COk r with abs r = t; the code-policy run
   is never Undecided and agrees with the strict run wherever that one decides *)
Definition check (ms : list mstmt) : bool :=
  let l := map erase ms in
  (match spec_run l with
   | Invalid => match run_state ms with CErr _ => true | _ => false end
   | Valid t => match run_state ms with COk r => stree_eqb (abs_tbl r) t | _ => false end
   | Undecided => true
   end) &&
  (match code_run l with
   | Invalid => match run_state ms with CErr _ => true | _ => false end
   | Valid t => match run_state ms with COk r => stree_eqb (abs_tbl r) t | _ => false end
   | Undecided => false
   end).

Example all_seqs_count : length all_seqs = 6175.
Proof. vm_compute. reflexivity. Qed.

Example spec_agrees_with_model_on_all_small_sequences : forallb check all_seqs = true.
Proof. vm_compute. reflexivity. Qed.

(* how many of them are in U1 / valid / invalid (so the test is visibly not vacuous) *)
Definition count (f : list mstmt -> bool) : nat := length (filter f all_seqs).
Definition census (l : list (list mstmt)) : nat * nat * nat :=
  (length (filter (fun ms => u1_b (map erase ms)) l),
   length (filter (fun ms => match spec_run (map erase ms) with Valid _ => true | _ => false end) l),
   length (filter (fun ms => match spec_run (map erase ms) with Invalid => true | _ => false end) l)).
Example census_small : census all_seqs = (0, 3447, 2728).      (* U1 needs a path of length 3 *)
Proof. vm_compute. reflexivity. Qed.

(* second bound, reaching class U1: paths of length <= 3 over {a, b} (42 statements),
   sequences of length <= 3 (75895 sequences) *)
Definition paths3 : list (list byte) :=
  paths ++ flat_map (fun p => [x61 :: p; x62 :: p]) [[x61; x61]; [x61; x62]; [x62; x61]; [x62; x62]].
Definition shapes3 : list (nat * list byte) :=
  flat_map (fun p => [(0, p); (1, p); (2, p)]) paths3.
Fixpoint seqs3 (n : nat) : list (list (nat * list byte)) :=
  match n with
  | O => [[]]
  | S m => flat_map (fun tl => map (fun sh => sh :: tl) shapes3) (seqs3 m)
  end.
Definition all_seqs3 : list (list mstmt) :=
  map (number 1) (seqs3 0 ++ seqs3 1 ++ seqs3 2 ++ seqs3 3).

Example spec_agrees_with_model_on_all_small_sequences3 : forallb check all_seqs3 = true.
Proof. vm_compute. reflexivity. Qed.
Definition censusN (l : list (list mstmt)) : N * (N * N * N) :=
  let '(a, b, c) := census l in (N.of_nat (length l), (N.of_nat a, N.of_nat b, N.of_nat c)).
Example census3 : censusN all_seqs3 = (75895, (96, 52447, 23352))%N.   (* total, (U1, valid, invalid) *)
Proof. vm_compute. reflexivity. Qed.
