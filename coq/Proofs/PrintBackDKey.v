(* Proofs/PrintBackDKey.v — C03, class (d): dotted keys of key/value lines.  The last key of a path as
   `key` records it (exact spans); encode_key_path as leaf prefix, the text of the prefix keys, the
   last key, leaf suffix; two key texts in front of the same `=` are the same text. *)
From TV Require Import Base.Prelude Base.Utf8 Base.Winnow Gen.Consts Spec.Abnf Spec.Lex Spec.Syntax.
From TV Require Import Model.Trivia Model.Strings Model.Datetime Model.Numbers Model.Tree Model.Parse Model.Document Model.Write Model.Encode.
From TV Require Import Proofs.LexEquivBase Proofs.LexEquivTrivia Proofs.LexEquivStrings Proofs.GrammarSep Proofs.LexEquivKey
                       Proofs.GrammarValueSound Proofs.TilingDefs Proofs.PrintBackBase Proofs.PrintBackEnc Proofs.PrintBackKey
                       Proofs.PrintBackSort Proofs.PrintBackEnts Proofs.PrintBackHKey.
Require Import Lia ZifyBool ZifyN ZifyNat.

(* ---- the last part read by the separated1 loop ends where the loop ends -------------------------------------------- *)
Lemma seps_last i l i' : seps key_part dot_sep i l i' -> l <> [] ->
  exists mid jn d, splits i mid jn /\ key_part jn = Ok (last l d) i'.
Proof.
  induction 1 as [i F|i x i1 E Hlt F|i x i1 a i2 l i3 E Hlt E2 Hle R IH]; intro Hne; try congruence.
  apply byte_inv in E as [_ S1]. destruct l as [|b l'].
  - inversion R; subst; exists [x2e], i1, a; (split; [exact S1|exact E2]).
  - destruct (IH ltac:(discriminate)) as (mid & jn & d & Sm & Ek).
    apply key_part_sound in E2 as (w0 & t & w & _ & _ & _ & S2 & _).
    exists ([x2e] ++ (w0 ++ t ++ w) ++ mid), jn, d. split; [exact (splits_trans _ _ _ _ _ S1 (splits_trans _ _ _ _ _ S2 Sm))|].
    cbn [last] in *. exact Ek.
Qed.

(* what fix_key_path makes of the last part *)
Lemma fix_key_path_last a l p : fix_key_path (a :: l) = Some p ->
  exists path k, p = path ++ [k] /\ k_key k = k_key (last l a) /\ k_repr k = k_repr (last l a)
    /\ k_leaf k = decor_new (match d_prefix (k_dotted a) with Some x => x | None => REmpty end)
                            (match d_suffix (k_dotted (last l a)) with Some x => x | None => REmpty end).
Proof.
  unfold fix_key_path. set (first' := match d_prefix (k_dotted a) with Some _ => set_dotted_prefix a REmpty | None => a end).
  assert (Hf : k_key first' = k_key a /\ k_repr first' = k_repr a /\ d_suffix (k_dotted first') = d_suffix (k_dotted a))
    by (unfold first'; destruct (d_prefix (k_dotted a)); repeat split).
  destruct Hf as (F1 & F2 & F3).
  destruct (rev (first' :: l)) as [|lst rinit] eqn:Er; [discriminate|]. intro H. injection H as <-.
  assert (El : (lst = first' /\ l = []) \/ (lst = last l a /\ l <> [])).
  { destruct l as [|b l'] using rev_ind; [left; cbn in Er; injection Er as <- _; auto|right]. clear IHl'.
    change (first' :: l' ++ [b]) with ((first' :: l') ++ [b]) in Er. rewrite rev_app_distr in Er. cbn [rev app] in Er. injection Er as <- _.
    split; [rewrite last_last; reflexivity|destruct l'; discriminate]. }
  set (lst' := match d_suffix (k_dotted lst) with Some _ => set_dotted_suffix lst REmpty | None => lst end).
  assert (Hl : k_key lst' = k_key lst /\ k_repr lst' = k_repr lst) by (unfold lst'; destruct (d_suffix (k_dotted lst)); split; reflexivity).
  destruct Hl as [L1 L2].
  exists (rev rinit), (set_leaf lst' (decor_new (match d_prefix (k_dotted a) with Some p => p | None => REmpty end)
                                                (match d_suffix (k_dotted lst) with Some p => p | None => REmpty end))).
  split; [reflexivity|]. cbn [set_leaf k_key k_repr k_leaf]. rewrite L1, L2.
  destruct El as [[-> ->] | [-> _]]; cbn [last]; [rewrite F1, F2, F3|]; auto.
Qed.

(* the last key of a key path, with the spans it records *)
Theorem key_exact s i kp i' : isrc s i -> key_ i = Ok kp i' ->
  exists path k j0 ja jb w0 pre R w1,
    kp = path ++ [k] /\ ws_tok w0 /\ ws_tok w1
    /\ splits i w0 j0 /\ splits j0 pre ja /\ splits ja R jb /\ splits jb w1 i'
    /\ k_repr k = Some (raw_with_span (pos ja, pos jb))
    /\ k_leaf k = decor_new (raw_with_span (pos i, pos j0)) (raw_with_span (pos jb, pos i')).
Proof.
  intros Hi H. rewrite key_unfold in H. apply bind_inv in H as (path0 & j & H1 & H).
  apply try_map_inv in H1 as (path1 & H1 & Hc). unfold key_check in Hc.
  destruct (check_depth (length path1)); [discriminate|]. injection Hc as ->.
  apply context_inv in H1. apply (separated1_inv _ _ _ _ _ key_part_shrinking dot_sep_shrinking) in H1 as (a & i1 & l & -> & Ea & R).
  destruct (fix_key_path (a :: l)) as [p|] eqn:Ef; [|discriminate]. apply ret_inv in H as [-> ->].
  destruct (fix_key_path_last a l p Ef) as (path & k & -> & _ & Er & El).
  destruct (key_part_exact i a i1 Ea) as (j1 & j2 & w0 & t & w & Hw0 & Ht & Hw & S1 & S2 & S3 & Ea').
  destruct l as [|b l'].
  - (* one part *)
    inversion R; subst i1; clear R.
    + exists path, k, j1, j1, j2, w0, [], t, w. cbn [last] in *. rewrite Ea' in Er, El. cbn [k_repr k_dotted decor_new d_prefix d_suffix] in Er, El.
      split; [reflexivity|]. split; [exact Hw0|]. split; [exact Hw|]. split; [exact S1|]. split; [apply splits_nil|]. auto. Show.
    + exists path, k, j1, j1, j2, w0, [], t, w. cbn [last] in *. rewrite Ea' in Er, El. cbn [k_repr k_dotted decor_new d_prefix d_suffix] in Er, El.
      split; [reflexivity|]. split; [exact Hw0|]. split; [exact Hw|]. split; [exact S1|]. split; [apply splits_nil|]. auto.
  - (* several parts *)
    destruct (seps_last i1 (b :: l') j R ltac:(discriminate)) as (mid & jn & d & Sm & Ek).
    assert (Ed : last (b :: l') d = last (b :: l') a) by (apply last_nonempty_irrel; discriminate). rewrite Ed in Ek.
    destruct (key_part_exact jn _ j Ek) as (n1 & n2 & v0 & tn & vn & Hv0 & Htn & Hvn & T1 & T2 & T3 & En).
    exists path, k, j1, n1, n2, w0, ((t ++ w) ++ mid ++ v0), tn, vn.
    rewrite En in Er, El. rewrite Ea' in El. cbn [k_repr k_dotted decor_new d_prefix d_suffix] in Er, El.
    split; [reflexivity|]. split; [exact Hw0|]. split; [exact Hvn|]. split; [exact S1|].
    split; [exact (splits_trans _ _ _ _ _ (splits_trans _ _ _ _ _ S2 S3) (splits_trans _ _ _ _ _ Sm T1))|]. auto.
Qed.
