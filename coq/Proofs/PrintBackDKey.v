(* Proofs/PrintBackDKey.v — C03, class (d): dotted keys of key/value lines.  The last key of a path as
   `key` records it (exact spans); encode_key_path as leaf prefix, the text of the prefix keys, the
   last key, leaf suffix; two key texts in front of the same `=` are the same text. *)
From TV Require Import Base.Prelude Base.Utf8 Base.Winnow Gen.Consts Spec.Abnf Spec.Lex Spec.Syntax.
From TV Require Import Model.Trivia Model.Strings Model.Datetime Model.Numbers Model.Tree Model.Parse Model.Document Model.Write Model.Encode.
From TV Require Import Proofs.LexEquivBase Proofs.LexEquivTrivia Proofs.LexEquivStrings Proofs.GrammarSep Proofs.LexEquivKey
                       Proofs.GrammarValueSound Proofs.TilingDefs Proofs.PrintBackBase Proofs.PrintBackEnc Proofs.PrintBackKey
                       Proofs.PrintBackSort Proofs.PrintBackEnts Proofs.PrintBackHKey.
Require Import Lia ZifyBool ZifyN ZifyNat.

(* ---- the last part read by the separated1 loop ends where the loop ends -------------------------------------------- *)
Lemma seps_last i l i' : seps key_part dot_sep i l i' -> l <> [] ->
  exists mid jn d, splits i mid jn /\ key_part jn = Ok (last l d) i'.
Proof.
  induction 1 as [i F|i x i1 E Hlt F|i x i1 a i2 l i3 E Hlt E2 Hle R IH]; intro Hne; try congruence.
  apply byte_inv in E as [_ S1]. destruct l as [|b l'].
  - inversion R; subst; exists [x2e], i1, a; (split; [exact S1|exact E2]).
  - destruct (IH ltac:(discriminate)) as (mid & jn & d & Sm & Ek).
    apply key_part_sound in E2 as (w0 & t & w & _ & _ & _ & S2 & _).
    exists ([x2e] ++ (w0 ++ t ++ w) ++ mid), jn, d. split; [exact (splits_trans _ _ _ _ _ S1 (splits_trans _ _ _ _ _ S2 Sm))|].
    cbn [last] in *. exact Ek.
Qed.

Lemma last_nonempty_irrel {A} (l : list A) d d' : l <> [] -> last l d = last l d'.
Proof. induction l as [|x l IH]; [congruence|]. intros _. destruct l; [reflexivity|]. apply IH. discriminate. Qed.

(* what fix_key_path makes of the last part *)
Lemma fix_key_path_last a l p : fix_key_path (a :: l) = Some p ->
  exists path k, p = path ++ [k] /\ k_key k = k_key (last l a) /\ k_repr k = k_repr (last l a)
    /\ k_leaf k = decor_new (match d_prefix (k_dotted a) with Some x => x | None => REmpty end)
                            (match d_suffix (k_dotted (last l a)) with Some x => x | None => REmpty end).
Proof.
  unfold fix_key_path. set (first' := match d_prefix (k_dotted a) with Some _ => set_dotted_prefix a REmpty | None => a end).
  assert (Hf : k_key first' = k_key a /\ k_repr first' = k_repr a /\ d_suffix (k_dotted first') = d_suffix (k_dotted a))
    by (unfold first'; destruct (d_prefix (k_dotted a)); repeat split).
  destruct Hf as (F1 & F2 & F3).
  destruct (rev (first' :: l)) as [|lst rinit] eqn:Er; [discriminate|]. intro H. injection H as <-.
  assert (El : (lst = first' /\ l = []) \/ (lst = last l a /\ l <> [])).
  { destruct l as [|b l'] using rev_ind; [left; cbn in Er; injection Er as <- _; auto|right]. clear IHl'.
    change (first' :: l' ++ [b]) with ((first' :: l') ++ [b]) in Er. rewrite rev_app_distr in Er. cbn [rev app] in Er. injection Er as <- _.
    split; [rewrite last_last; reflexivity|destruct l'; discriminate]. }
  set (lst' := match d_suffix (k_dotted lst) with Some _ => set_dotted_suffix lst REmpty | None => lst end).
  assert (Hl : k_key lst' = k_key lst /\ k_repr lst' = k_repr lst) by (unfold lst'; destruct (d_suffix (k_dotted lst)); split; reflexivity).
  destruct Hl as [L1 L2].
  exists (rev rinit), (set_leaf lst' (decor_new (match d_prefix (k_dotted a) with Some p => p | None => REmpty end)
                                                (match d_suffix (k_dotted lst) with Some p => p | None => REmpty end))).
  split; [reflexivity|]. cbn [set_leaf k_key k_repr k_leaf]. rewrite L1, L2.
  destruct El as [[-> ->] | [-> _]]; cbn [last]; [rewrite F1, F2, F3|]; auto.
Qed.

(* the last key of a key path, with the spans it records *)
Theorem key_exact s i kp i' : isrc s i -> key_ i = Ok kp i' ->
  exists path k j0 ja jb w0 pre R w1,
    kp = path ++ [k] /\ ws_tok w0 /\ ws_tok w1
    /\ splits i w0 j0 /\ splits j0 pre ja /\ splits ja R jb /\ splits jb w1 i'
    /\ k_repr k = Some (raw_with_span (pos ja, pos jb))
    /\ k_leaf k = decor_new (raw_with_span (pos i, pos j0)) (raw_with_span (pos jb, pos i')).
Proof.
  intros Hi H. rewrite key_unfold in H. apply bind_inv in H as (path0 & j & H1 & H).
  apply try_map_inv in H1 as (path1 & H1 & Hc). unfold key_check in Hc.
  destruct (check_depth (length path1)); [discriminate|]. injection Hc as ->.
  apply context_inv in H1. apply (separated1_inv _ _ _ _ _ key_part_shrinking dot_sep_shrinking) in H1 as (a & i1 & l & -> & Ea & R).
  destruct (fix_key_path (a :: l)) as [p|] eqn:Ef; [|discriminate]. apply ret_inv in H as [-> ->].
  destruct (fix_key_path_last a l p Ef) as (path & k & -> & _ & Er & El).
  destruct (key_part_exact i a i1 Ea) as (j1 & j2 & w0 & t & w & Hw0 & Ht & Hw & S1 & S2 & S3 & Ea').
  destruct l as [|b l'].
  - (* one part *)
    inversion R; subst; clear R.
    + exists path, k, j1, j1, j2, w0, [], t, w. cbn [last] in *. rewrite Ea' in Er, El. cbn [k_repr k_dotted decor_new d_prefix d_suffix] in Er, El.
      split; [reflexivity|]. split; [exact Hw0|]. split; [exact Hw|]. split; [exact S1|]. split; [apply splits_nil|]. auto.
    + exists path, k, j1, j1, j2, w0, [], t, w. cbn [last] in *. rewrite Ea' in Er, El. cbn [k_repr k_dotted decor_new d_prefix d_suffix] in Er, El.
      split; [reflexivity|]. split; [exact Hw0|]. split; [exact Hw|]. split; [exact S1|]. split; [apply splits_nil|]. auto.
  - (* several parts *)
    destruct (seps_last i1 (b :: l') j R ltac:(discriminate)) as (mid & jn & d & Sm & Ek).
    assert (Ed : last (b :: l') d = last (b :: l') a) by (apply last_nonempty_irrel; discriminate). rewrite Ed in Ek.
    destruct (key_part_exact jn _ j Ek) as (n1 & n2 & v0 & tn & vn & Hv0 & Htn & Hvn & T1 & T2 & T3 & En).
    exists path, k, j1, n1, n2, w0, ((t ++ w) ++ mid ++ v0), tn, vn.
    rewrite En in Er, El. rewrite Ea' in El. cbn [k_repr k_dotted decor_new d_prefix d_suffix] in Er, El.
    split; [reflexivity|]. split; [exact Hw0|]. split; [exact Hvn|]. split; [exact S1|].
    split; [exact (splits_trans _ _ _ _ _ (splits_trans _ _ _ _ _ S2 S3) (splits_trans _ _ _ _ _ Sm T1))|]. auto.
Qed.

(* ---- encode_key_path: leaf prefix, the prefix keys with their dots, the last key, leaf suffix ------------------- *)
Definition kdpre (s : bytes) (k : key) : bytes := decor_prefix (k_dotted (tkey s k)) (fst DEFAULT_KEY_PATH_DECOR).
Definition kdsuf (s : bytes) (k : key) : bytes := decor_suffix (k_dotted (tkey s k)) (snd DEFAULT_KEY_PATH_DECOR).
Definition krepr (s : bytes) (k : key) : bytes := key_display_repr (tkey s k).

Fixpoint mid_text (s : bytes) (ks : list key) (k' : key) : bytes :=
  match ks with
  | [] => [x2e] ++ kdpre s k'
  | k :: r => [x2e] ++ kdpre s k ++ krepr s k ++ kdsuf s k ++ mid_text s r k'
  end.
Definition pre_text (s : bytes) (ks : list key) (k' : key) : bytes :=
  match ks with
  | [] => []
  | k :: r => krepr s k ++ kdsuf s k ++ mid_text s r k'
  end.

Lemma loop_split s leaf D : forall ks k',
  encode_key_path_loop leaf D false (map (tkey s) (ks ++ [k'])) = mid_text s ks k' ++ krepr s k' ++ decor_suffix leaf (snd D).
Proof.
  induction ks as [|k r IH]; intro k'.
  - cbn [app map]. rewrite loop_cons. cbv iota. cbn [encode_key_path_loop mid_text]. unfold kdpre, krepr. rewrite app_nil_r, <- !app_assoc. reflexivity.
  - change (map (tkey s) ((k :: r) ++ [k'])) with (tkey s k :: map (tkey s) (r ++ [k'])). rewrite loop_cons, IH.
    assert (Hl : match map (tkey s) (r ++ [k']) with [] => true | _ => false end = false) by (rewrite map_app; destruct (map (tkey s) r); reflexivity).
    rewrite Hl. cbn [mid_text]. unfold kdpre, kdsuf, krepr. rewrite <- !app_assoc. reflexivity.
Qed.

Theorem enc_split s ks k' D :
  encode_key_path (map (tkey s) (ks ++ [k'])) D
  = decor_prefix (k_leaf (tkey s k')) (fst D) ++ pre_text s ks k' ++ krepr s k' ++ decor_suffix (k_leaf (tkey s k')) (snd D).
Proof.
  assert (Er : rev (map (tkey s) (ks ++ [k'])) = tkey s k' :: rev (map (tkey s) ks)) by (rewrite map_app, rev_app_distr; reflexivity).
  unfold encode_key_path. rewrite Er.
  destruct ks as [|k r].
  - cbn [app map pre_text]. rewrite loop_cons. cbv iota. cbn [encode_key_path_loop]. unfold krepr. rewrite app_nil_r. reflexivity.
  - change (map (tkey s) ((k :: r) ++ [k'])) with (tkey s k :: map (tkey s) (r ++ [k'])). rewrite loop_cons, loop_split. cbv iota.
    assert (Hl : match map (tkey s) (r ++ [k']) with [] => true | _ => false end = false) by (rewrite map_app; destruct (map (tkey s) r); reflexivity).
    rewrite Hl. cbn [pre_text]. unfold kdsuf, krepr. rewrite <- !app_assoc. reflexivity.
Qed.

(* the text of the keys of a line is a key: prefix keys read from key paths, any last key with blank dotted decor *)
Definition lkey (s : bytes) (k : key) : Prop :=
  (exists t, repr_str (toraw s (k_repr k)) = Some t /\ simple_key_tok t (k_key k))
  /\ blankraw s (d_prefix (k_dotted k)) /\ blankraw s (d_suffix (k_leaf k)).

Lemma hkey_lkey s k : hkey s k -> lkey s k.
Proof. intros (H1 & _ & H3 & H4 & _). split; [exact H1|]. auto. Qed.

Lemma krepr_tok s k : lkey s k -> simple_key_tok (krepr s k) (k_key k).
Proof. intros ((t & Hr & Ht) & _). unfold krepr, key_display_repr. rewrite tkey_fields. cbn [k_repr]. rewrite Hr. exact Ht. Qed.

Lemma kdpre_ws s k : blankraw s (d_prefix (k_dotted k)) -> ws_tok (kdpre s k).
Proof. intro H. unfold kdpre. rewrite tkey_fields. unfold decor_prefix, tdecor. cbn [k_dotted d_prefix]. apply (blank_encode s _ _ H ws_nil). Qed.
Lemma kdsuf_ws s k : blankraw s (d_suffix (k_dotted k)) -> ws_tok (kdsuf s k).
Proof. intro H. unfold kdsuf. rewrite tkey_fields. unfold decor_suffix, tdecor. cbn [k_dotted d_suffix]. apply (blank_encode s _ _ H ws_nil). Qed.

Lemma mid_shape s : forall ks k', Forall (hkey s) ks -> lkey s k' ->
  exists w t, ws_tok w /\ key_tok t (map k_key (ks ++ [k'])) /\ mid_text s ks k' ++ krepr s k' = [x2e] ++ w ++ t.
Proof.
  induction ks as [|k r IH]; intros k' HF Hk'.
  - exists (kdpre s k'), (krepr s k'). split; [apply kdpre_ws, Hk'|]. split; [apply key_one, krepr_tok, Hk'|]. cbn [mid_text]. rewrite <- !app_assoc. reflexivity.
  - inversion HF as [|? ? Hk HF']; subst. destruct (IH k' HF' Hk') as (w & t & Hw & Ht & E).
    pose proof Hk as Hk0. destruct Hk as (Hr & _ & _ & Hdp & Hds).
    exists (kdpre s k), (krepr s k ++ kdsuf s k ++ [x2e] ++ w ++ t). split; [apply kdpre_ws, Hdp|]. split.
    + cbn [app map]. apply key_dot; [apply krepr_tok, hkey_lkey, Hk0|apply kdsuf_ws, Hds|exact Hw|exact Ht].
    + cbn [mid_text]. rewrite <- !app_assoc. do 4 f_equal. rewrite <- ?app_assoc in E. exact E.
Qed.

Theorem pre_shape s ks k' : Forall (hkey s) ks -> lkey s k' ->
  exists t, key_tok t (map k_key (ks ++ [k'])) /\ pre_text s ks k' ++ krepr s k' = t.
Proof.
  intros HF Hk'. destruct ks as [|k r].
  - exists (krepr s k'). split; [apply key_one, krepr_tok, Hk'|reflexivity].
  - inversion HF as [|? ? Hk HF']; subst. destruct (mid_shape s r k' HF' Hk') as (w & t & Hw & Ht & E).
    pose proof Hk as Hk0. destruct Hk as (Hr & _ & _ & Hdp & Hds).
    exists (krepr s k ++ kdsuf s k ++ [x2e] ++ w ++ t). split.
    + cbn [app map]. apply key_dot; [apply krepr_tok, hkey_lkey, Hk0|apply kdsuf_ws, Hds|exact Hw|exact Ht].
    + cbn [pre_text]. rewrite <- !app_assoc. do 2 f_equal. exact E.
Qed.

(* ---- two key texts in front of the same `=` ------------------------------------------------------------------------ *)
Lemma key_text_unique tx px lx r1 ty py ly r2 :
  key_tok tx px -> ws_tok lx -> key_tok ty py -> ws_tok ly ->
  tx ++ lx ++ [x3d] ++ r1 = ty ++ ly ++ [x3d] ++ r2 -> tx ++ lx = ty ++ ly.
Proof.
  intros Hx Hlx Hy Hly E.
  set (i := new_input (tx ++ lx ++ [x3d] ++ r1)).
  assert (Sx : key_stop ([x3d] ++ r1)) by (eexists _, _; split; [reflexivity|left; reflexivity]).
  assert (Sy : key_stop ([x3d] ++ r2)) by (eexists _, _; split; [reflexivity|left; reflexivity]).
  destruct (key_raw_complete i [] tx px lx _ ws_nil Hx Hlx eq_refl Sx) as (p1 & E1 & _).
  assert (Ri : rest i = [] ++ ty ++ ly ++ [x3d] ++ r2) by (unfold i; cbn [new_input rest app]; exact E).
  destruct (key_raw_complete i [] ty py ly _ ws_nil Hy Hly Ri Sy) as (p2 & E2 & _).
  assert (Ea : adv ([] ++ tx ++ lx) i = adv ([] ++ ty ++ ly) i) by congruence. cbn [app] in Ea.
  assert (L : length (tx ++ lx) = length (ty ++ ly)) by (apply (f_equal pos) in Ea; rewrite !pos_adv in Ea; lia).
  assert (E' : (tx ++ lx) ++ [x3d] ++ r1 = (ty ++ ly) ++ [x3d] ++ r2) by (rewrite <- !app_assoc; exact E).
  apply (app_same_length _ _ _ _ E' L).
Qed.

(* ---- a key has no line feed in it ---------------------------------------------------------------------------------- *)
Definition nolf (t : bytes) : Prop := forallb (fun b => negb (byte_eqb b x0a)) t = true.

Lemma nolf_app a b : nolf (a ++ b) <-> nolf a /\ nolf b.
Proof. unfold nolf. rewrite forallb_app, andb_true_iff. reflexivity. Qed.
Lemma nolf_nil : nolf [].
Proof. reflexivity. Qed.
Lemma nolf_class (c : byte -> bool) t : (forall b, c b = true -> byte_eqb b x0a = false) -> all c t -> nolf t.
Proof.
  intros Hc H. unfold nolf, all in *. rewrite forallb_forall in *. intros b Hb. rewrite (Hc b (H b Hb)). reflexivity.
Qed.
Lemma nolf_ws w : ws_tok w -> nolf w.
Proof. apply nolf_class. intros b Hb. revert Hb. cls. lia. Qed.

Lemma nolf_star_one (c : byte -> bool) t v : (forall b, c b = true -> byte_eqb b x0a = false) -> star (one c) t v -> nolf t.
Proof.
  intros Hc H. induction H as [|t1 v1 t2 v2 (b & Hb & -> & ->) _ IH]; [reflexivity|]. apply nolf_app. split; [|exact IH].
  unfold nolf. cbn [forallb]. rewrite (Hc b Hb). reflexivity.
Qed.

Lemma escaped_nolf t v : escaped_tok t v -> nolf t.
Proof.
  intros [b n Hb|b k h Hb Hl Hh _].
  - unfold nolf. cbn [forallb]. rewrite andb_true_r. apply andb_true_iff. split; [reflexivity|].
    destruct (byte_eqb b x0a) eqn:E; [|reflexivity]. apply byte_eqb_eq in E. subst b. discriminate Hb.
  - unfold nolf. cbn [forallb]. apply andb_true_iff. split; [reflexivity|]. apply andb_true_iff. split.
    + destruct (byte_eqb b x0a) eqn:E; [|reflexivity]. apply byte_eqb_eq in E. subst b. discriminate Hb.
    + apply (nolf_class Abnf.hexdig); [|exact Hh]. intros c Hc. revert Hc. cls. lia.
Qed.

Lemma basic_body_nolf t v : star basic_char t v -> nolf t.
Proof.
  intro H. induction H as [|t1 v1 t2 v2 H1 _ IH]; [reflexivity|]. apply nolf_app. split; [|exact IH].
  destruct H1 as [(b & Hb & -> & ->) | H1]; [|apply (escaped_nolf _ _ H1)].
  unfold nolf. cbn [forallb]. rewrite andb_true_r. apply negb_true_iff. revert Hb. cls. lia.
Qed.

Lemma simple_key_nolf t k : simple_key_tok t k -> nolf t.
Proof.
  intros [(_ & body & -> & Hb) | [(_ & body & -> & Hb) | [[_ Ha] _]]].
  - apply nolf_app. split; [reflexivity|]. apply nolf_app. split; [apply (basic_body_nolf _ _ Hb)|reflexivity].
  - apply nolf_app. split; [reflexivity|]. apply nolf_app. split; [|reflexivity].
    apply (nolf_star_one literal_char _ _) in Hb; [exact Hb|]. intros b Hc. revert Hc. cls. lia.
  - apply (nolf_class unquoted_key_char); [|exact Ha]. intros b Hc. revert Hc. cls. lia.
Qed.

Lemma key_nolf t p : key_tok t p -> nolf t.
Proof.
  induction 1 as [t k Ht|t k w1 w2 u ks Ht Hw1 Hw2 _ IH]; [apply (simple_key_nolf _ _ Ht)|].
  repeat (apply nolf_app; split); [apply (simple_key_nolf _ _ Ht)|apply nolf_ws, Hw1|reflexivity|apply nolf_ws, Hw2|exact IH].
Qed.

(* ---- where the line of a key starts ---------------------------------------------------------------------------------- *)
Definition bomlen (s : bytes) : nat := match strip_prefix Document.bom s with Some _ => 3 | None => 0 end.

Fixpoint after_last_lf (l : bytes) (p : nat) (acc : option nat) : option nat :=
  match l with
  | [] => acc
  | b :: tl => after_last_lf tl (S p) (if byte_eqb b x0a then Some (S p) else acc)
  end.
(* the start of the line that holds position ra: after the last LF before ra, or after the byte-order mark *)
Definition lsb (s : bytes) (ra : nat) : nat :=
  match after_last_lf (firstn ra s) 0 None with Some p => p | None => bomlen s end.

Definition lstart (s : bytes) (n : nat) : Prop := n = bomlen s \/ exists A r, s = A ++ [x0a] ++ r /\ n = length A + 1.

Lemma after_last_lf_app l1 : forall l2 p acc,
  after_last_lf (l1 ++ l2) p acc = after_last_lf l2 (p + length l1) (after_last_lf l1 p acc).
Proof.
  induction l1 as [|b l1 IH]; intros l2 p acc; cbn [app after_last_lf length]; [rewrite Nat.add_0_r; reflexivity|].
  rewrite IH. f_equal. lia.
Qed.
Lemma after_last_lf_nolf l : nolf l -> forall p acc, after_last_lf l p acc = acc.
Proof.
  unfold nolf. induction l as [|b l IH]; intros H p acc; [reflexivity|]. cbn [forallb after_last_lf] in *.
  apply andb_true_iff in H as [Hb Hl]. apply negb_true_iff in Hb. rewrite Hb. apply IH, Hl.
Qed.

Lemma lsb_spec s P Y r : s = P ++ Y ++ r -> nolf Y -> lstart s (length P) -> lsb s (length P + length Y) = length P.
Proof.
  intros Es HY Hl. unfold lsb.
  assert (Ef : firstn (length P + length Y) s = P ++ Y).
  { rewrite Es, app_assoc. rewrite <- app_length. apply firstn_app_len. }
  rewrite Ef, after_last_lf_app, (after_last_lf_nolf Y HY).
  destruct Hl as [Hb | (A & r' & EA & Hn)].
  - (* the text before is the byte-order mark, or nothing *)
    assert (HP : nolf P).
    { unfold bomlen in Hb. destruct (strip_prefix Document.bom s) as [r0|] eqn:Q.
      - apply strip_prefix_spec in Q. rewrite Es in Q. destruct P as [|a [|b [|c [|d P']]]]; try (cbn in Hb; lia).
        cbn [app] in Q. injection Q as -> -> -> _. reflexivity.
      - destruct P; [reflexivity|discriminate Hb]. }
    rewrite (after_last_lf_nolf P HP). exact (eq_sym Hb).
  - assert (EP : P = A ++ [x0a]).
    { rewrite Es in EA. assert (L : length P = length (A ++ [x0a])) by (rewrite app_length; cbn [length]; lia).
      assert (EA' : P ++ (Y ++ r) = (A ++ [x0a]) ++ r') by (rewrite <- app_assoc; exact EA).
      apply (app_same_length _ _ _ _ EA' L). }
    rewrite EP, after_last_lf_app. cbn [after_last_lf]. rewrite byte_eqb_refl. rewrite app_length. cbn [length]. f_equal. lia.
Qed.

(* ---- the check on a key/value line of the tree, and what it gives --------------------------------------------------- *)
Definition kline_ok (s : bytes) (ks : list key) (k' : key) : bool :=
  match k_repr k' with
  | Some (RSpanned ra rb) =>
    let X := pre_text s ks k' in
    let jx := N.to_nat ra - length X in
    (length X <=? N.to_nat ra)
    && starts_with (X ++ krepr s k' ++ decor_suffix (k_leaf (tkey s k')) (snd DEFAULT_KEY_DECOR) ++ [x3d]) (skipn jx s)
    && match d_prefix (k_leaf k') with
       | Some (RSpanned p q) => Nat.eqb (N.to_nat q) jx
       | Some REmpty => Nat.eqb (lsb s (N.to_nat ra)) jx
       | _ => false
       end
  | _ => false
  end.

Theorem kline_unique s j0 i0 ja jb ks po k' LS r :
  isrc s j0 -> rest j0 = (pre_text s po k' ++ krepr s k') ++ LS ++ [x3d] ++ r ->
  decor_suffix (k_leaf (tkey s k')) (snd DEFAULT_KEY_DECOR) = LS -> ws_tok LS ->
  k_repr k' = Some (raw_with_span (pos ja, pos jb)) -> pos ja = (pos j0 + N.of_nat (length (pre_text s po k')))%N -> pos ja <> pos jb ->
  d_prefix (k_leaf k') = Some (raw_with_span (pos i0, pos j0)) -> (pos i0 = pos j0 -> lstart s (N.to_nat (pos j0))) ->
  Forall (hkey s) po -> Forall (hkey s) ks -> lkey s k' ->
  kline_ok s ks k' = true -> pre_text s ks k' = pre_text s po k'.
Proof.
  intros Hj0 Rj ELS HLS Erepr Eja Hne Epre Hls Hpo Hks Hk' Hok.
  set (X := pre_text s ks k') in *. set (Y := pre_text s po k') in *. set (R := krepr s k') in *.
  destruct (pre_shape s ks k' Hks Hk') as (tx & Htx & Etx). destruct (pre_shape s po k' Hpo Hk') as (ty & Hty & Ety). fold X R in Etx. fold Y R in Ety.
  destruct Hj0 as (p & Es & Ep).
  unfold kline_ok in Hok. rewrite Erepr in Hok. unfold raw_with_span in Hok. cbn [fst snd] in Hok.
  destruct (pos ja =? pos jb)%N eqn:Q; [apply N.eqb_eq in Q; congruence|]. fold X R in Hok. rewrite ELS in Hok. cbv zeta in Hok.
  apply andb_true_iff in Hok as [Hok Hanchor]. apply andb_true_iff in Hok as [Hle Hsw]. apply Nat.leb_le in Hle.
  (* the key text starts where the line's key starts *)
  assert (Ejx : N.to_nat (pos ja) - length X = length p).
  { rewrite Epre in Hanchor. unfold raw_with_span in Hanchor. cbn [fst snd] in Hanchor. destruct (pos i0 =? pos j0)%N eqn:Q0.
    - apply N.eqb_eq in Q0. apply Nat.eqb_eq in Hanchor. rewrite <- Hanchor.
      assert (Era : N.to_nat (pos ja) = length p + length Y) by lia. rewrite Era.
      apply (lsb_spec s p Y (R ++ LS ++ [x3d] ++ r)).
      + rewrite Es, Rj, <- !app_assoc. reflexivity.
      + pose proof (key_nolf _ _ Hty) as Hn. rewrite <- Ety in Hn. apply nolf_app in Hn as [Hn _]. exact Hn.
      + specialize (Hls Q0). rewrite Ep, Nat2N.id in Hls. exact Hls.
    - apply Nat.eqb_eq in Hanchor. rewrite <- Hanchor. lia. }
  rewrite Ejx in Hsw. unfold starts_with in Hsw. destruct (strip_prefix _ _) as [r1|] eqn:Q1; [|discriminate]. apply strip_prefix_spec in Q1.
  rewrite Es, skipn_app_len, Rj in Q1.
  assert (E : ty ++ LS ++ [x3d] ++ r = tx ++ LS ++ [x3d] ++ r1).
  { rewrite <- Etx, <- Ety. rewrite <- ?app_assoc in Q1. rewrite <- ?app_assoc. exact Q1. }
  pose proof (key_text_unique _ _ _ _ _ _ _ _ Hty HLS Htx HLS E) as E2. apply app_inv_tail in E2. rewrite <- Etx, <- Ety in E2.
  apply app_inv_tail in E2. symmetry. exact E2.
Qed.
