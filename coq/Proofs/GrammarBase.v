(* Proofs/GrammarBase.v — C01/C02 layer L2, shared definitions: the abstraction from the
   toml_edit tree to the data of Spec/Syntax.v (`absv`, `abs_doc`), mapping the values of a
   Spec/Defs.v tree, and small list / input facts used by the Grammar*.v files. *)
From TV Require Import Base.Prelude Base.Utf8 Base.Winnow Gen.Consts Spec.Abnf Spec.Lex Spec.Defs Spec.Syntax.
From TV Require Import Model.Trivia Model.Strings Model.Datetime Model.Numbers Model.Tree Model.Parse Model.Document.
From TV Require Import Proofs.LexEquivBase Proofs.DefsEquivBase.
Require Import Lia ZifyBool ZifyN ZifyNat.

(* ---- model tree -> data ------------------------------------------------------------------------ *)
Definition abs_scalar (s : scalar) : dval :=
  match s with
  | SString x => DStr x
  | SInt z => DInt z
  | SFloat f => DFloat f
  | SBool b => DBool b
  | SDatetime d => DDate d
  end.

(* forget decor, reprs, spans, key spellings, trailing commas, the implicit / dotted flags of
   inline tables; a non-value item inside a value (never stored by the parser: NoPanicValue
   `vgood`) goes to an arbitrary datum *)
Fixpoint absv (v : value) : dval :=
  match v with
  | VScalar s _ _ => abs_scalar s
  | VArray vals _ _ _ _ =>
    DArr ((fix go (l : list item) : list dval :=
             match l with [] => [] | it :: tl => absi it :: go tl end) vals)
  | VInline items _ _ _ _ _ =>
    DTab ((fix go (l : list (key * item)) : list (bytes * dval) :=
             match l with [] => [] | (k, it) :: tl => (k_key k, absi it) :: go tl end) items)
  end
with absi (it : item) : dval :=
  match it with
  | IValue v => absv v
  | _ => DTab []
  end.

Definition absi_kv (kv : key * item) : bytes * dval := (k_key (fst kv), absi (snd kv)).

Lemma absv_array vals tr c d sp : absv (VArray vals tr c d sp) = DArr (map absi vals).
Proof.
  cbn [absv]. f_equal; try (induction vals as [|it tl IH]; [reflexivity | cbn [map]; rewrite <- IH; reflexivity]).
Qed.

Lemma absv_inline items pre im dt d sp : absv (VInline items pre im dt d sp) = DTab (map absi_kv items).
Proof.
  cbn [absv]. f_equal; try (induction items as [|[k it] tl IH];
    [reflexivity | cbn [map absi_kv fst snd]; rewrite <- IH; reflexivity]).
Qed.

Lemma absv_decorate v p s : absv (value_decorate v p s) = absv v.
Proof. destruct v; reflexivity. Qed.

Lemma absv_apply_raw v sp : absv (apply_raw v sp) = absv v.
Proof. destruct v; reflexivity. Qed.

(* ---- mapping the values of a Spec/Defs.v tree ------------------------------------------------- *)
Section NMap.
  Context {V W : Type}.
  Variable f : V -> W.
  Fixpoint nmap (n : node V) : node W :=
    match n with
    | NVal v => NVal (f v)
    | NTab kd items =>
      NTab kd ((fix go (l : list (bytes * node V)) : list (bytes * node W) :=
                  match l with [] => [] | (k, n') :: tl => (k, nmap n') :: go tl end) items)
    | NAot es =>
      NAot ((fix goe (l : list (list (bytes * node V))) : list (list (bytes * node W)) :=
               match l with
               | [] => []
               | e :: tl =>
                 ((fix go (l : list (bytes * node V)) : list (bytes * node W) :=
                     match l with [] => [] | (k, n') :: tl => (k, nmap n') :: go tl end) e) :: goe tl
               end) es)
    end.
  Definition kmap (kn : bytes * node V) : bytes * node W := (fst kn, nmap (snd kn)).
  Definition smap (t : stree V) : stree W := map kmap t.

  Lemma nmap_tab kd items : nmap (NTab kd items) = NTab kd (smap items).
  Proof.
    cbn [nmap]. f_equal; try (unfold smap; induction items as [|[k n] tl IH];
      [reflexivity | cbn [map kmap fst snd]; rewrite <- IH; reflexivity]).
  Qed.
  Lemma nmap_aot es : nmap (NAot es) = NAot (map smap es).
  Proof.
    cbn [nmap]. f_equal; try (induction es as [|e tl IH]; [reflexivity|]; cbn [map]; rewrite <- IH; f_equal;
    try (unfold smap; induction e as [|[k n] tl' IH']; [reflexivity | cbn [map kmap fst snd]; rewrite <- IH'; reflexivity])).
  Qed.
End NMap.

Definition stmt_map {V W} (f : V -> W) (s : stmt V) : stmt W :=
  match s with SHeader p => SHeader p | SArrHeader p => SArrHeader p | SKeyVal p v => SKeyVal p (f v) end.

Definition verdict_map {V W} (f : V -> W) (v : Defs.verdict V) : Defs.verdict W :=
  match v with Valid t => Valid (smap f t) | Invalid => Invalid | Undecided => Undecided end.

(* the data of a parsed document: the table kinds of Spec/Defs.v (header / super / dotted) are
   kept, everything else of the toml_edit tree that is not data is forgotten *)
Definition abs_doc (d : doc) : stree dval := smap absv (abs_tbl (doc_root d)).
