(* Proofs/GrammarTop.v — the whole-document statements of C01 / C02 (Props/C01doc.v, C02doc.v),
   assembled from Proofs/GrammarDoc.v (soundness), Proofs/GrammarDocComplete.v (completeness) and
   C09's facts about the two runs of the definition rules (spec_run: the specification, Undecided
   exactly on class U1; code_run: the pinned code's resolution of U1). *)
From TV Require Import Base.Prelude Base.Utf8 Base.Winnow Gen.Consts Spec.Abnf Spec.Lex Spec.Defs Spec.Syntax.
From TV Require Import Model.Tree Model.Parse Model.Document.
From TV Require Import Proofs.DefsEquivBase Proofs.DefsEquivKv Proofs.DefsEquivMain.
From TV Require Import Proofs.GrammarBase Proofs.GrammarDoc Proofs.GrammarDocComplete Proofs.GrammarDocReject.

Lemma verdict_valid stmts T : verdict stmts = Valid T ->
  forallb stmt_ok stmts = true /\ spec_run (map stmt_den stmts) = Valid T /\ code_run (map stmt_den stmts) = Valid T.
Proof.
  unfold verdict. destruct (forallb stmt_ok stmts); [|discriminate]. intro H. split; [reflexivity|]. split; [exact H|].
  rewrite spec_run_code_run; [exact H|]. rewrite H. discriminate.
Qed.

Lemma verdict_of_code stmts T : forallb stmt_ok stmts = true -> code_run (map stmt_den stmts) = Valid T ->
  verdict stmts <> Invalid /\ (forall T', verdict stmts = Valid T' -> T' = T).
Proof.
  intros Hok Hc. unfold verdict. rewrite Hok. split.
  - intro H. rewrite spec_run_code_run in Hc by (rewrite H; discriminate). congruence.
  - intros T' H. rewrite spec_run_code_run in Hc by (rewrite H; discriminate). congruence.
Qed.

Theorem c01_sound s d : parse_document s = POk d ->
  exists stmts, toml_text s stmts /\ verdict stmts <> Invalid /\ within_limits stmts = true.
Proof.
  intro H. destruct (parse_document_sound s d H) as (stmts & Ht & Hok & Hwi & Hc).
  exists stmts. split; [exact Ht|]. split; [apply (verdict_of_code stmts _ Hok Hc)|exact Hwi].
Qed.

Theorem c01_complete s stmts T : toml_text s stmts -> verdict stmts = Valid T -> within_limits stmts = true ->
  exists d, parse_document s = POk d.
Proof.
  intros Ht Hv Hwi. destruct (verdict_valid stmts T Hv) as (Hok & _ & Hc).
  destruct (parse_document_complete s stmts T Ht Hok Hwi Hc) as (d & Hd & _). eauto.
Qed.

(* a valid text outside class U1 is refused only because of the implementation limits *)
Corollary c01_only_limits_refused s stmts T : toml_text s stmts -> verdict stmts = Valid T ->
  (forall d, parse_document s <> POk d) -> within_limits stmts = false.
Proof.
  intros Ht Hv Hn. destruct (within_limits stmts) eqn:E; [|reflexivity].
  destruct (c01_complete s stmts T Ht Hv E) as (d & Hd). exfalso. apply (Hn d Hd).
Qed.

Theorem c02_tree_partial s d stmts T :
  parse_document s = POk d -> toml_text s stmts -> verdict stmts = Valid T -> within_limits stmts = true ->
  abs_doc d = T.
Proof.
  intros Hp Ht Hv Hwi. destruct (verdict_valid stmts T Hv) as (Hok & _ & Hc).
  destruct (parse_document_complete s stmts T Ht Hok Hwi Hc) as (d' & Hd & Ha). congruence.
Qed.

(* the tree of an accepted document is the one denoted by the statements of a derivation of its
   text — under the specification when that decides, under the code's resolution of U1 always *)
Theorem c02_tree_witness s d : parse_document s = POk d ->
  exists stmts, toml_text s stmts /\ within_limits stmts = true /\ verdict stmts <> Invalid
                /\ (forall T, verdict stmts = Valid T -> abs_doc d = T)
                /\ code_run (map stmt_den stmts) = Valid (abs_doc d).
Proof.
  intro H. destruct (parse_document_sound s d H) as (stmts & Ht & Hok & Hwi & Hc).
  destruct (verdict_of_code stmts _ Hok Hc) as [Hn Hu].
  exists stmts. split; [exact Ht|]. split; [exact Hwi|]. split; [exact Hn|]. split; [|exact Hc].
  intros T HT. symmetry. apply (Hu T HT).
Qed.

(* ---- from ANY derivation of the text (Proofs/GrammarDocReject.v) ------------------------------------ *)
Theorem c02_tree s d stmts T :
  parse_document s = POk d -> toml_text s stmts -> verdict stmts = Valid T -> abs_doc d = T.
Proof.
  intros Hp Ht Hv. destruct (verdict_valid stmts T Hv) as (_ & _ & Hc).
  destruct (parse_document_total s d stmts Hp Ht) as (_ & _ & Hc'). congruence.
Qed.

(* a text with a derivation that the specification forbids, or that is outside the limits, is refused *)
Theorem c01_invalid_rejected s stmts : toml_text s stmts ->
  verdict stmts = Invalid \/ within_limits stmts = false -> forall d, parse_document s <> POk d.
Proof.
  intros Ht Hbad d Hp. destruct (parse_document_total s d stmts Hp Ht) as (Hok & Hwi & Hc).
  destruct Hbad as [Hv | Hw]; [|congruence]. apply (proj1 (verdict_of_code stmts _ Hok Hc)), Hv.
Qed.

(* acceptance, decided on any derivation outside class U1 *)
Theorem c01_exact s stmts : toml_text s stmts -> verdict stmts <> Undecided ->
  ((exists d, parse_document s = POk d) <-> ((exists T, verdict stmts = Valid T) /\ within_limits stmts = true)).
Proof.
  intros Ht Hu. split.
  - intros (d & Hp). destruct (parse_document_total s d stmts Hp Ht) as (Hok & Hwi & Hc). split; [|exact Hwi].
    destruct (verdict stmts) as [T| |] eqn:Ev; [eauto| |congruence].
    exfalso. apply (proj1 (verdict_of_code stmts _ Hok Hc)), Ev.
  - intros [(T & Hv) Hwi]. apply (c01_complete s stmts T Ht Hv Hwi).
Qed.

(* all derivations of an accepted text denote the same tree *)
Corollary c02_derivations_agree s d l1 l2 T1 T2 :
  parse_document s = POk d -> toml_text s l1 -> toml_text s l2 -> verdict l1 = Valid T1 -> verdict l2 = Valid T2 -> T1 = T2.
Proof. intros Hp H1 H2 V1 V2. rewrite <- (c02_tree s d l1 T1 Hp H1 V1). apply (c02_tree s d l2 T2 Hp H2 V2). Qed.
