(* Proofs/SerdeRTBTree.v — C07: toml::Table without preserve_order is a BTreeMap<String, Value>; the
   model keeps its entries as a list sorted by key (Model/Ser.v btree_insert).  Inserting entries
   with pairwise distinct keys yields a permutation of them with pairwise distinct keys. *)
From TV Require Import Base.Prelude Spec.SerdeData Model.Ser Model.De Proofs.LexEquivBase Proofs.SerdeRTBase.
From Coq Require Import Permutation Sorted.
Require Import Lia ZifyBool ZifyN ZifyNat.

Lemma b2n_inj x y : b2n x = b2n y -> x = y.
Proof. intro H. rewrite <- (n2b_b2n x), <- (n2b_b2n y), H. reflexivity. Qed.

Lemma bytes_ltb_irrefl a : bytes_ltb a a = false.
Proof. induction a as [|x a IH]; simpl; [reflexivity|]. rewrite IH. lia. Qed.

Lemma bytes_ltb_trans a : forall b c, bytes_ltb a b = true -> bytes_ltb b c = true -> bytes_ltb a c = true.
Proof.
  induction a as [|x a IH]; intros [|y b] [|z c] H1 H2; simpl in *; try discriminate; try reflexivity.
  apply orb_true_iff in H1. apply orb_true_iff in H2. apply orb_true_iff.
  destruct H1 as [H1|H1]; destruct H2 as [H2|H2].
  - left. lia.
  - left. apply andb_true_iff in H2 as [H2 _]. lia.
  - left. apply andb_true_iff in H1 as [H1 _]. lia.
  - apply andb_true_iff in H1 as [E1 L1]. apply andb_true_iff in H2 as [E2 L2].
    right. apply andb_true_iff. split; [lia|]. eapply IH; eassumption.
Qed.

Lemma bytes_ltb_total a : forall b, bytes_ltb a b = false -> a <> b -> bytes_ltb b a = true.
Proof.
  induction a as [|x a IH]; intros [|y b] H Hne; simpl in *; try discriminate; try reflexivity; try congruence.
  apply orb_false_iff in H as [H1 H2].
  destruct (N.eq_dec (b2n x) (b2n y)) as [E|E].
  - apply b2n_inj in E. subst y. apply orb_true_iff. right. apply andb_true_iff. split; [lia|].
    apply IH; [|congruence]. destruct (bytes_ltb a b); [|reflexivity]. rewrite N.eqb_refl in H2. discriminate.
  - apply orb_true_iff. left. lia.
Qed.

Definition key_lt (p q : bytes * tomlval) : Prop := bytes_ltb (fst p) (fst q) = true.
Definition bsorted (es : list (bytes * tomlval)) : Prop := StronglySorted key_lt es.

Lemma bsorted_nodup es : bsorted es -> NoDup (map fst es).
Proof.
  induction 1 as [|p es _ IH Hall]; simpl; constructor; [|exact IH].
  intro Hin. apply in_map_iff in Hin as (q & Hq & Hin). rewrite Forall_forall in Hall.
  specialize (Hall q Hin). unfold key_lt in Hall. rewrite Hq, bytes_ltb_irrefl in Hall. discriminate.
Qed.

(* what an insert does to membership, on a sorted table *)
Lemma btree_insert_spec k x es : bsorted es ->
  bsorted (btree_insert k x es) /\
  (forall k' x', In (k', x') (btree_insert k x es) <-> ((k' = k /\ x' = x) \/ (k' <> k /\ In (k', x') es))).
Proof.
  induction 1 as [|[k0 x0] es Hs IH Hall]; simpl.
  - split; [repeat constructor|]. intros k' x'. split.
    + intros [H|[]]. injection H as <- <-. left; auto.
    + intros [[-> ->]|[_ []]]. left; reflexivity.
  - destruct IH as [IHs IHm]. rewrite Forall_forall in Hall.
    destruct (bytes_eqb k0 k) eqn:E.
    + apply bytes_eqb_eq in E. subst k0. split.
      * constructor; [exact Hs|]. apply Forall_forall. intros q Hq. apply (Hall q Hq).
      * intros k' x'. split.
        -- intros [H|H]; [injection H as <- <-; left; auto|].
           right. split; [|right; exact H]. intros ->. specialize (Hall _ H). unfold key_lt in Hall. simpl in Hall.
           rewrite bytes_ltb_irrefl in Hall. discriminate.
        -- intros [[-> ->]|[Hne [H|H]]]; [left; reflexivity| |right; exact H].
           injection H as <- _. congruence.
    + apply bytes_eqb_neq in E. destruct (bytes_ltb k k0) eqn:L.
      * split.
        -- constructor; [constructor; [exact Hs|apply Forall_forall; exact Hall]|].
           constructor; [exact L|]. apply Forall_forall. intros q Hq. unfold key_lt. simpl.
           eapply bytes_ltb_trans; [exact L|]. apply (Hall q Hq).
        -- intros k' x'. split.
           ++ intros [H|H]; [injection H as <- <-; left; auto|]. right. split; [|exact H].
              intros ->. destruct H as [H|H]; [injection H as -> _; congruence|].
              specialize (Hall _ H). unfold key_lt in Hall. simpl in Hall.
              assert (Hkk : bytes_ltb k k = true) by (eapply bytes_ltb_trans; [exact L|exact Hall]).
              rewrite bytes_ltb_irrefl in Hkk. discriminate.
           ++ intros [[-> ->]|[_ H]]; [left; reflexivity|right; exact H].
      * assert (L' : bytes_ltb k0 k = true) by (apply bytes_ltb_total; [exact L|congruence]).
        split.
        -- constructor; [exact IHs|]. apply Forall_forall. intros [k' x'] Hq. apply IHm in Hq.
           unfold key_lt. simpl. destruct Hq as [[-> ->]|[_ Hq]]; [exact L'|apply (Hall _ Hq)].
        -- intros k' x'. split.
           ++ intros [H|H]; [injection H as <- <-; right; split; [exact E|left; reflexivity]|].
              apply IHm in H. destruct H as [H|[Hne H]]; [left; exact H|right; split; [exact Hne|right; exact H]].
           ++ intros [H|[Hne [H|H]]].
              ** right. apply IHm. left. exact H.
              ** left. exact H.
              ** right. apply IHm. right. auto.
Qed.

(* inserting entries whose keys are pairwise distinct *)
Lemma btree_fold_spec : forall ps acc, bsorted acc -> NoDup (map fst ps) ->
  (forall k, In k (map fst ps) -> ~ In k (map fst acc)) ->
  bsorted (fold_left (fun acc p => btree_insert (fst p) (snd p) acc) ps acc) /\
  (forall kx, In kx (fold_left (fun acc p => btree_insert (fst p) (snd p) acc) ps acc) <-> In kx acc \/ In kx ps).
Proof.
  induction ps as [|[k x] ps IH]; intros acc Hs Hnd Hdis; simpl.
  - split; [exact Hs|]. intro kx. tauto.
  - destruct (btree_insert_spec k x acc Hs) as [Hs' Hm]. simpl in Hnd, Hdis.
    inversion Hnd as [|? ? Hnot Hnd']; subst.
    assert (Hk : ~ In k (map fst acc)) by (apply Hdis; left; reflexivity).
    destruct (IH (btree_insert k x acc) Hs' Hnd') as [R1 R2].
    { intros k' Hin Hin'. apply in_map_iff in Hin' as ([k'' x''] & Hk' & Hin'). simpl in Hk'. subst k''.
      apply Hm in Hin'. destruct Hin' as [[-> _]|[_ Hin']]; [apply Hnot; exact Hin|].
      apply (Hdis k' (or_intror Hin)). apply (in_map fst) in Hin'. exact Hin'. }
    split; [exact R1|]. intros [k' x']. rewrite R2, Hm. split.
    + intros [[[-> ->]|[_ H]]|H]; [right; left; reflexivity|left; exact H|right; right; exact H].
    + intros [H|[H|H]]; [left; right; split; [|exact H]|left; left; injection H as <- <-; auto|right; exact H].
      intros ->. apply Hk. apply (in_map fst) in H. exact H.
Qed.

Lemma btree_of_pairs_spec ps : NoDup (map fst ps) ->
  bsorted (btree_of_pairs ps) /\ (forall kx, In kx (btree_of_pairs ps) <-> In kx ps).
Proof.
  intro Hnd. destruct (btree_fold_spec ps [] (SSorted_nil _) Hnd) as [R1 R2]; [intros k _ []|].
  split; [exact R1|]. intro kx. unfold btree_of_pairs. rewrite R2. simpl. tauto.
Qed.

Lemma btree_of_pairs_perm ps : NoDup (map fst ps) -> Permutation ps (btree_of_pairs ps).
Proof.
  intro Hnd. destruct (btree_of_pairs_spec ps Hnd) as [Hs Hm].
  apply NoDup_Permutation.
  - apply (NoDup_map_inv fst). exact Hnd.
  - apply (NoDup_map_inv fst). apply bsorted_nodup. exact Hs.
  - intro kx. symmetry. apply Hm.
Qed.
