(* Proofs/SerdeRTRefuse.v — C07, the converse of errors_documented for toml_edit's ValueSerializer:
   a value containing a documented unsupported shape is refused (nothing is silently dropped or
   altered instead).  Together: ser_value succeeds IFF the value has no unsupported shape. *)
From TV Require Import Base.Prelude Base.Utf8 Model.Datetime Model.DatetimeStd Model.WriteFloat Model.SerNum
  Spec.DatetimeSpec Spec.SerdeData Model.Ser Model.De
  Proofs.SerdeRTBase Proofs.SerdeRTEq Proofs.SerdeRTLeaf Proofs.SerdeRTLists Proofs.SerdeRT Proofs.SerdeRTErr.

Scheme unsupported_min := Minimality for unsupported Sort Prop
  with unsupported_variant_min := Minimality for unsupported_variant Sort Prop.

Lemma mapM_fails {A C} (f : A -> result C) l a e : In a l -> f a = Err e -> exists e', mapM f l = Err e'.
Proof.
  induction l as [|x l IH]; intros Hin Ha; [contradiction|]. simpl.
  destruct Hin as [->|Hin].
  - rewrite Ha. simpl. eauto.
  - destruct (f x); simpl; [|eauto]. destruct (IH Hin Ha) as (e' & ->). simpl. eauto.
Qed.

Lemma zipM_fails {A B C} (g : A -> B -> result C) l1 : forall l2 i a b e,
  nth_error l1 i = Some a -> nth_error l2 i = Some b -> g a b = Err e -> exists e', zipM g l1 l2 = Err e'.
Proof.
  induction l1 as [|x l1 IH]; intros [|y l2] [|i] a b e H1 H2 Hg; simpl in *; try discriminate.
  - injection H1 as ->. injection H2 as ->. rewrite Hg. simpl. eauto.
  - destruct (g x y); simpl; [|eauto]. destruct (IH l2 i a b e H1 H2 Hg) as (e' & ->). simpl. eauto.
Qed.

Lemma all2b_nth {A B} (f : A -> B -> bool) l1 l2 i a b :
  all2b f l1 l2 = true -> nth_error l1 i = Some a -> nth_error l2 i = Some b -> f a b = true.
Proof. intro H. apply all2b_Forall2 in H. intros H1 H2. apply (Forall2_nth _ _ _ _ _ _ H H1 H2). Qed.

Lemma ser_map_value_not_none ser t v : v <> SNone -> ser_map_value ser t v = rmap Some (ser t v).
Proof. intro H. destruct t; try reflexivity. destruct v; try reflexivity. contradiction. Qed.

Lemma bad_key_fails t a e : bad_key t a e -> has_type_b t a = true -> exists e', ser_key t a = Err e'.
Proof.
  induction 1 as [n t v e _ IH|v|v|t v Hk Hn H1 H2]; intro Hty.
  - rewrite sk_newtype. apply IH. rewrite ht_newtype in Hty. exact Hty.
  - exists (EInt128 false). destruct v; reflexivity.
  - exists (EInt128 true). destruct v; reflexivity.
  - destruct t; try (eexists; destruct v; reflexivity).
    + (* TInt *) destruct v; simpl; destruct (ser_method_of w); eauto.
    + (* TStr *) destruct v; simpl in Hty; try discriminate Hty. simpl in Hk. discriminate Hk.
    + (* TNewtype *) exfalso. eapply Hn. reflexivity.
    + (* TEnum *) destruct v as [| | | | | | | | | | | | | |i p]; try (simpl in Hty; discriminate Hty).
      rewrite ht_enum in Hty. apply andb_true_iff in Hty as [_ Hp]. rewrite kt_enum in Hk. rewrite sk_enum.
      destruct (pick_cases key_variant (Err EBadCase) vs i) as [([vn var] & Hnth & E)|[_ E]]; rewrite E; [|eauto].
      rewrite (pick_nth _ _ _ _ _ Hnth) in Hk. unfold key_text_variant in Hk. unfold key_variant. simpl in *.
      destruct var; try discriminate Hk; eauto.
Qed.

Definition REF (c : ctx) (t : ty) (v : sval) (e : err) : Prop :=
  has_type_b t v = true ->
  exists e', ser_value t v = Err e' /\ (c = CField -> ser_map_value ser_value t v = Err e').
Definition REFV (var : variant) (p : sval) (e : err) : Prop :=
  has_type_variant_b var p = true -> exists e', ser_payload var p = Err e'.

Ltac field_part := intros _; rewrite ser_map_value_not_none by discriminate.

Theorem unsupported_refused_gen : forall c t v e, unsupported c t v e -> REF c t v e.
Proof.
  apply (unsupported_min REF REFV); unfold REF, REFV.
  - (* u_none *) intros t _. exists EUnsupportedNone. split; [reflexivity|discriminate].
  - (* u_some *) intros c t v e _ IH Hty. rewrite ht_opt_some in Hty. destruct (IH Hty) as (e' & E & _).
    exists e'. rewrite sv_opt_some. split; [exact E|]. field_part. rewrite sv_opt_some, E. reflexivity.
  - intros c _. eexists. split; [reflexivity|]. field_part. reflexivity.
  - intros c n _. eexists. split; [reflexivity|]. field_part. reflexivity.
  - (* u_u64 *) intros c w z M F _. exists (EOutOfRange (Some S_u64)).
    assert (E : ser_value (TInt w) (SInt z) = Err (EOutOfRange (Some S_u64))).
    { simpl. unfold ser_int_value, ser_int, int_err. rewrite M. unfold serialize_u64. rewrite F. reflexivity. }
    split; [exact E|]. field_part. rewrite E. reflexivity.
  - intros c w z M _. exists (EInt128 false).
    assert (E : ser_value (TInt w) (SInt z) = Err (EInt128 false)).
    { simpl. unfold ser_int_value, ser_int, int_err. rewrite M. reflexivity. }
    split; [exact E|]. field_part. rewrite E. reflexivity.
  - intros c w z M _. exists (EInt128 true).
    assert (E : ser_value (TInt w) (SInt z) = Err (EInt128 true)).
    { simpl. unfold ser_int_value, ser_int, int_err. rewrite M. reflexivity. }
    split; [exact E|]. field_part. rewrite E. reflexivity.
  - (* u_seq *) intros c t vs v e Hin _ IH Hty. rewrite ht_seq in Hty. rewrite forallb_forall in Hty.
    destruct (IH (Hty v Hin)) as (e' & E & _). destruct (mapM_fails (ser_value t) vs v e' Hin E) as (e'' & E'').
    exists e''. assert (E3 : ser_value (TSeq t) (SSeq vs) = Err e'') by (rewrite sv_seq, E''; reflexivity).
    split; [exact E3|]. field_part. rewrite E3. reflexivity.
  - (* u_tuple *) intros c ts vs i t v e H1 H2 _ IH Hty. rewrite ht_tuple in Hty.
    destruct (IH (all2b_nth _ _ _ _ _ _ Hty H1 H2)) as (e' & E & _).
    destruct (zipM_fails ser_value ts vs i t v e' H1 H2 E) as (e'' & E'').
    exists e''. assert (E3 : ser_value (TTuple ts) (SSeq vs) = Err e'') by (rewrite sv_tuple, E''; reflexivity).
    split; [exact E3|]. field_part. rewrite E3. reflexivity.
  - (* u_tuple_struct *) intros c n ts vs i t v e H1 H2 _ IH Hty. rewrite ht_tuple_struct in Hty.
    destruct (IH (all2b_nth _ _ _ _ _ _ Hty H1 H2)) as (e' & E & _).
    destruct (zipM_fails ser_value ts vs i t v e' H1 H2 E) as (e'' & E'').
    exists e''. assert (E3 : ser_value (TTupleStruct n ts) (SSeq vs) = Err e'') by (rewrite sv_tuple_struct, E''; reflexivity).
    split; [exact E3|]. field_part. rewrite E3. reflexivity.
  - (* u_map_key *) intros c kt vt es k v e Hin Hbk Hty. rewrite ht_map in Hty.
    apply andb_true_iff in Hty as [Hty _]. apply andb_true_iff in Hty as [_ Hes]. rewrite forallb_forall in Hes.
    pose proof (Hes _ Hin) as Hkv. simpl in Hkv. apply andb_true_iff in Hkv as [Hk _].
    destruct (bad_key_fails kt k e Hbk Hk) as (e' & E).
    destruct (mapM_fails (fun kv => rbind (ser_key kt (fst kv)) (fun k0 =>
                 rmap (optmap (fun x => (k0, x))) (ser_map_value ser_value vt (snd kv)))) es (k, v) e' Hin) as (e'' & E'').
    { simpl. rewrite E. reflexivity. }
    exists e''. assert (E3 : ser_value (TMap kt vt) (SMap es) = Err e'') by (rewrite sv_map; unfold ser_entries; rewrite E''; reflexivity).
    split; [exact E3|]. field_part. rewrite E3. reflexivity.
  - (* u_map_val *) intros c kt vt es k v e Hin _ IH Hty. rewrite ht_map in Hty.
    apply andb_true_iff in Hty as [Hty _]. apply andb_true_iff in Hty as [_ Hes]. rewrite forallb_forall in Hes.
    pose proof (Hes _ Hin) as Hkv. simpl in Hkv. apply andb_true_iff in Hkv as [_ Hv].
    destruct (IH Hv) as (e' & _ & E). specialize (E eq_refl).
    assert (exists e0, rbind (ser_key kt k) (fun k0 => rmap (optmap (fun x => (k0, x))) (ser_map_value ser_value vt v)) = Err e0) as (e0 & E0).
    { destruct (ser_key kt k); simpl; [rewrite E; simpl|]; eauto. }
    destruct (mapM_fails (fun kv => rbind (ser_key kt (fst kv)) (fun k0 =>
                 rmap (optmap (fun x => (k0, x))) (ser_map_value ser_value vt (snd kv)))) es (k, v) e0 Hin E0) as (e'' & E'').
    exists e''. assert (E3 : ser_value (TMap kt vt) (SMap es) = Err e'') by (rewrite sv_map; unfold ser_entries; rewrite E''; reflexivity).
    split; [exact E3|]. field_part. rewrite E3. reflexivity.
  - (* u_struct *) intros c n fs vs i f t v e H1 H2 _ IH Hty. rewrite ht_struct in Hty.
    apply andb_true_iff in Hty as [Hty Hvs]. apply andb_true_iff in Hty as [Hpriv _]. apply negb_true_iff in Hpriv.
    pose proof (all2b_nth _ _ _ _ _ _ Hvs H1 H2) as Hv. simpl in Hv.
    destruct (IH Hv) as (e' & _ & E). specialize (E eq_refl).
    destruct (zipM_fails (fun ft v' => rmap (optmap (fun x => (fst ft, x))) (ser_map_value ser_value (snd ft) v')) fs vs i (f, t) v e' H1 H2)
      as (e'' & E''); [simpl; rewrite E; reflexivity|].
    exists e''. assert (E3 : ser_value (TStruct n fs) (SRec vs) = Err e'').
    { rewrite sv_struct, (private_not_dt n Hpriv). unfold ser_fields. rewrite E''. reflexivity. }
    split; [exact E3|]. field_part. rewrite E3. reflexivity.
  - (* u_newtype *) intros c n t v e _ IH Hty. rewrite ht_newtype in Hty. destruct (IH Hty) as (e' & E & _).
    exists e'. rewrite sv_newtype. split; [exact E|]. field_part. rewrite sv_newtype, E. reflexivity.
  - (* u_variant *) intros c n vs i vn var p e Hn Hu IH Hty. rewrite ht_enum in Hty. apply andb_true_iff in Hty as [_ Hp].
    rewrite (pick_nth _ _ _ _ _ Hn) in Hp. simpl in Hp. destruct (IH Hp) as (e' & E).
    exists e'. assert (E3 : ser_value (TEnum n vs) (SVariant i p) = Err e').
    { rewrite sv_enum, (pick_nth _ _ _ _ _ Hn). unfold ser_variant. simpl. destruct var; [inversion Hu| | |]; rewrite E; reflexivity. }
    split; [exact E3|]. field_part. rewrite E3. reflexivity.
  - (* uv_newtype *) intros t p e _ IH Hty. rewrite htv_newtype in Hty. destruct (IH Hty) as (e' & E & _).
    exists e'. rewrite sp_newtype. exact E.
  - (* uv_tuple *) intros ts vs i t v e H1 H2 _ IH Hty. rewrite htv_tuple in Hty.
    destruct (IH (all2b_nth _ _ _ _ _ _ Hty H1 H2)) as (e' & E & _).
    destruct (zipM_fails ser_value ts vs i t v e' H1 H2 E) as (e'' & E'').
    exists e''. rewrite sp_tuple, E''. reflexivity.
  - (* uv_struct *) intros fs vs i f t v e H1 H2 _ IH Hty. rewrite htv_struct in Hty. apply andb_true_iff in Hty as [_ Hvs].
    pose proof (all2b_nth _ _ _ _ _ _ Hvs H1 H2) as Hv. simpl in Hv.
    destruct (IH Hv) as (e' & _ & E). specialize (E eq_refl).
    destruct (zipM_fails (fun ft v' => rmap (optmap (fun x => (fst ft, x))) (ser_map_value ser_value (snd ft) v')) fs vs i (f, t) v e' H1 H2)
      as (e'' & E''); [simpl; rewrite E; reflexivity|].
    exists e''. rewrite sp_struct. unfold ser_fields. rewrite E''. reflexivity.
Qed.

Theorem unsupported_refused t v e : has_type v t -> unsupported CElem t v e -> exists e', ser_value t v = Err e'.
Proof. intros Hty U. destruct (unsupported_refused_gen _ _ _ _ U Hty) as (e' & E & _). eauto. Qed.

(* ValueSerializer accepts a well-typed value exactly when it has no documented unsupported shape *)
Theorem ser_ok_iff_supported t v : has_type v t -> ((exists x, ser_value t v = Ok x) <-> supported t v).
Proof.
  intro Hty. split.
  - intros (x & Hx) e U. destruct (unsupported_refused t v e Hty U) as (e' & E). congruence.
  - apply supported_ok. exact Hty.
Qed.
