(* Proofs/BuiltRTDatetime.v — C06: the Display text of an in-range date-time is read back by the value
   parser as the same date-time in front of anything that can follow a value (C12 proves this for the
   complete string; here the stage lemmas of Proofs/DatetimeEq.v are composed in context). *)
From TV Require Import Base.Prelude Base.Utf8 Base.Winnow Gen.Consts.
From TV Require Import Model.Trivia Model.Strings Model.Datetime Model.DatetimeStd Spec.DatetimeSpec Model.Numbers Model.Tree Model.Parse.
From TV Require Import Model.Write Model.Encode Model.Build.
From TV Require Import Proofs.DatetimeEq Proofs.NoPanicBase Proofs.NoPanicLex.
From TV Require Import Proofs.NumbersRT_Lex Proofs.NumbersRT_Int Proofs.NumbersRT_Value.
From TV Require Import Proofs.StringsRTDefs Proofs.StringsRTBase.
From TV Require Import Proofs.BuiltRTBase Proofs.BuiltRTEncode Proofs.BuiltRTParse Proofs.BuiltRTKey Proofs.BuiltRTValue Proofs.BuiltRTLeaf.
Require Import Lia ZifyBool ZifyN ZifyNat.

Lemma beq_neq a b : a <> b -> byte_eqb a b = false.
Proof. intro H. destruct (byte_eqb a b) eqn:E; [apply byte_eqb_eq in E; contradiction|reflexivity]. Qed.

Lemma nterm_stops2 r : nterm r -> stops2 r.
Proof.
  destruct r as [|b r']; [auto|]. intros (H1 & _ & H3 & _). split; [exact H1|].
  destruct (byte_eqb b dot) eqn:E; [apply byte_eqb_eq in E; contradiction|reflexivity].
Qed.

(* ---- the offset in front of a continuation --------------------------------------------------------------- *)
Lemma offset_print_rest o rest : offset_ok o = true -> std_offset (display_offset o ++ rest) = Some (Some o, rest).
Proof.
  destruct o as [|m]; [reflexivity|]. unfold offset_ok, display_offset. intro Hok.
  set (a := Z.to_N (Z.abs m)). set (sg := if (m <? 0)%Z then dash else plus).
  change ((sg :: pad0 2 (a / 60) ++ [colon] ++ pad0 2 (a mod 60)) ++ rest)
    with (sg :: (pad0 2 (a / 60) ++ [colon] ++ pad0 2 (a mod 60)) ++ rest).
  rewrite std_offset_nf.
  assert (Ha : (a <= 1439)%N) by (unfold a; lia).
  assert (H5 : hm5 ((pad0 2 (a / 60) ++ [colon] ++ pad0 2 (a mod 60)) ++ rest)
               = Some ((a / 60, a mod 60)%N, rest)).
  { unfold hm5, sbind. rewrite <- !app_assoc. rewrite two_pad by lia. cbn [app]. rewrite sexpect_same.
    rewrite two_pad by lia. reflexivity. }
  rewrite H5.
  destruct ((23 <? a / 60)%N || (59 <? a mod 60)%N) eqn:E1; [lia|].
  unfold sg. destruct (m <? 0)%Z eqn:Em.
  - change (byte_eqb dash x5a || byte_eqb dash x7a) with false.
    change (sign_of dash) with (Some (-1)%Z). cbv iota.
    assert (Hx : (-1 * Z.of_N (a / 60 * 60 + a mod 60))%Z = m) by (unfold a; lia).
    rewrite Hx. destruct ((-1440 <=? m)%Z && (m <=? 1440)%Z) eqn:E2; [reflexivity|lia].
  - change (byte_eqb plus x5a || byte_eqb plus x7a) with false.
    change (sign_of plus) with (Some 1%Z). cbv iota.
    assert (Hx : (1 * Z.of_N (a / 60 * 60 + a mod 60))%Z = m) by (unfold a; lia).
    rewrite Hx. destruct ((-1440 <=? m)%Z && (m <=? 1440)%Z) eqn:E2; [reflexivity|lia].
Qed.

Lemma opt_offset_none R p d : nterm R -> opt time_offset (mkIn R p d) = Ok None (mkIn R p d).
Proof.
  destruct R as [|b R']; [reflexivity|].
  intros (_ & _ & _ & _ & Hdash & _ & _ & _ & _ & _ & _ & HZ & Hz & Hplus & _).
  unfold opt, time_offset, context, alt, pvalue, pmap, verify, bind, one_of. cbn [rest].
  assert (E1 : byte_eqb b x5a = false) by (apply beq_neq; exact HZ).
  assert (E2 : byte_eqb b x7a = false) by (apply beq_neq; exact Hz).
  assert (E3 : byte_eqb b plus = false) by (apply beq_neq; exact Hplus).
  assert (E4 : byte_eqb b dash = false) by (apply beq_neq; exact Hdash).
  rewrite E1, E2, E3, E4. reflexivity.
Qed.

Definition after_date_p : parser (option (time * option offset)) :=
  opt (time_delim ;;; t <- partial_time ;; off <- opt time_offset ;; ret (t, off)).

Lemma after_date_none R p d : nterm R -> after_date_p (mkIn R p d) = Ok None (mkIn R p d).
Proof.
  destruct R as [|b R']; [reflexivity|]. intro Hn.
  destruct Hn as (_ & _ & _ & _ & _ & _ & _ & _ & _ & HT & Ht & _ & _ & _ & Hsp).
  unfold after_date_p, opt, time_delim. unfold bind at 1. unfold one_of. cbn [rest].
  rewrite in_class_delim.
  assert (E1 : byte_eqb b x54 = false) by (apply beq_neq; exact HT).
  assert (E2 : byte_eqb b x74 = false) by (apply beq_neq; exact Ht).
  rewrite E1, E2. cbn [orb].
  destruct (byte_eqb b x20) eqn:E3; [|reflexivity].
  apply byte_eqb_eq in E3. specialize (Hsp E3).
  unfold partial_time, time_hour, two_digit_field, bind, try_map.
  rewrite (unsigned_digits_nodigit 1 (advance 1 (mkIn (b :: R') p d))); [reflexivity|].
  rewrite rest_advance. cbn [rest skipn]. exact Hsp.
Qed.

(* ---- date_time on the Display text, in context ------------------------------------------------------------- *)
Lemma date_time_ctx dt R p d :
  in_range dt = true -> nterm R ->
  exists p', date_time (mkIn (display_datetime dt ++ R) p d) = Ok dt (mkIn R p' d).
Proof.
  intros Hr Hn.
  assert (G : exists p' d', date_time (mkIn (display_datetime dt ++ R) p d) = Ok dt (mkIn R p' d')).
  2:{ destruct G as (p' & d' & E). exists p'. pose proof (date_time_mono _ _ _ E) as Hext.
      apply ext_depth in Hext. cbn [depth] in Hext. subst d'. exact E. }
  destruct dt as [[da|] [t|] oo]; unfold in_range in Hr; cbn [d_date d_time d_offset] in Hr.
  - (* date, time, optional offset *)
    assert (Hd : date_ok da = true) by (destruct oo; lia).
    assert (Ht : time_ok t = true) by (destruct oo; lia).
    assert (Ho : forall o, oo = Some o -> offset_ok o = true) by (intros o ->; lia).
    unfold display_datetime. cbn [d_date d_time d_offset].
    set (OFF := match oo with Some o => display_offset o | None => [] end).
    match goal with |- context [mkIn ?X p d] =>
      assert (Es : X = display_date da ++ x54 :: display_time t ++ OFF ++ R)
        by (unfold OFF; rewrite <- !app_assoc; reflexivity);
      rewrite Es
    end.
    pose proof (date_stage (display_date da ++ x54 :: display_time t ++ OFF ++ R) p d) as HD.
    rewrite (date_print da _ Hd) in HD.
    destruct HD as (p1 & d1 & E1).
    assert (Hst2 : stops2 (OFF ++ R)).
    { unfold OFF. destruct oo as [[|m]|]; cbn [app]; [split; reflexivity| |apply nterm_stops2, Hn].
      unfold display_offset. destruct (m <? 0)%Z; split; reflexivity. }
    pose proof (time_stage (display_time t ++ OFF ++ R) (p1 + N.of_nat 1)%N d1) as HT.
    rewrite (time_print t _ Ht Hst2) in HT. destruct HT as (p3 & d3 & E3).
    assert (HO : exists p4 d4, opt time_offset (mkIn (OFF ++ R) p3 d3) = Ok oo (mkIn R p4 d4)).
    { unfold OFF. destruct oo as [o|]; cbn [app].
      - pose proof (offset_stage (display_offset o ++ R) p3 d3 _ eq_refl) as HO.
        rewrite (offset_print_rest o R (Ho o eq_refl)) in HO. exact HO.
      - exists p3, d3. apply opt_offset_none, Hn. }
    destruct HO as (p4 & d4 & E4).
    exists p4, d4. unfold date_time, alt, context. unfold bind at 1. rewrite E1.
    unfold bind at 1. unfold opt at 1. unfold bind at 1. unfold time_delim, one_of. cbn [rest].
    change (in_class TIME_DELIM x54) with true. cbv iota.
    unfold advance. cbn [rest pos depth skipn].
    unfold bind at 1. rewrite E3. unfold bind at 1. rewrite E4. reflexivity.
  - (* date only *)
    destruct oo; [discriminate|]. rename Hr into Hd.
    unfold display_datetime. cbn [d_date d_time d_offset]. rewrite !app_nil_r.
    pose proof (date_stage (display_date da ++ R) p d) as HD. rewrite (date_print da _ Hd) in HD.
    destruct HD as (p1 & d1 & E1).
    exists p1, d1. unfold date_time, alt, context. unfold bind at 1. rewrite E1.
    unfold bind at 1. fold after_date_p. rewrite (after_date_none R p1 d1 Hn). reflexivity.
  - (* time only *)
    destruct oo; [discriminate|]. rename Hr into Ht.
    unfold display_datetime. cbn [d_date d_time d_offset app]. rewrite app_nil_r.
    assert (H3 : nth_error (display_time t ++ R) 2 = Some colon) by (apply time_third, Ht).
    assert (Hs : soft (full_date (mkIn (display_time t ++ R) p d))).
    { apply full_date_soft. destruct (display_time t ++ R) as [|a [|b [|c r]]]; try discriminate H3.
      cbn [nth_error] in H3. injection H3 as ->. apply four_third. reflexivity. }
    rewrite (date_time_soft _ Hs).
    pose proof (time_stage (display_time t ++ R) p d) as HT.
    rewrite (time_print t _ Ht (nterm_stops2 R Hn)) in HT. destruct HT as (p3 & d3 & E3).
    exists p3, d3. unfold context, pmap. rewrite E3. reflexivity.
  - destruct oo; discriminate.
Qed.

(* the text starts with a digit *)
Lemma pad0_head k n : (1 <= k <= 40)%nat -> (n < pow10 k)%N -> exists b tl, pad0 k n = b :: tl /\ is_digit b = true.
Proof.
  intros Hk Hn. rewrite (pad0_digs k n Hk Hn). pose proof (digs_digits k n) as Hd. pose proof (digs_length k n) as Hl.
  destruct (digs k n) as [|b tl]; [cbn in Hl; lia|]. exists b, tl. split; [reflexivity|].
  cbn [forallb] in Hd. apply andb_true_iff in Hd. tauto.
Qed.

Lemma display_datetime_head dt : in_range dt = true ->
  exists b tl, display_datetime dt = b :: tl /\ is_digit b = true.
Proof.
  intro Hr. destruct dt as [[da|] [t|] oo]; unfold in_range in Hr; cbn [d_date d_time d_offset] in Hr;
    unfold display_datetime; cbn [d_date d_time d_offset].
  - assert (Hd : date_ok da = true) by (destruct oo; lia). unfold date_ok in Hd.
    destruct (pad0_head 4 (year da)) as (b & tl & E & Hb); [lia|change (pow10 4) with 10000%N; lia|].
    unfold display_date. rewrite E. cbn [app]. eauto.
  - destruct oo; [discriminate|]. unfold date_ok in Hr.
    destruct (pad0_head 4 (year da)) as (b & tl & E & Hb); [lia|change (pow10 4) with 10000%N; lia|].
    unfold display_date. rewrite E. cbn [app]. eauto.
  - destruct oo; [discriminate|]. unfold time_ok in Hr.
    destruct (pad0_head 2 (hour t)) as (b & tl & E & Hb); [lia|change (pow10 2) with 100%N; lia|].
    unfold display_time. rewrite E. cbn [app]. eauto.
  - destruct oo; discriminate.
Qed.

Lemma leaf_datetime ftext dt : in_range dt = true -> leaf_ok ftext (SDatetime dt).
Proof.
  intro Hr. destruct (display_datetime_head dt Hr) as (b & tl & Eh & Hb).
  assert (Hns : num_start b = true) by (unfold num_start; rewrite Hb; reflexivity).
  apply leaf_intro'; cbn [scalar_txt scalar_default_repr].
  - exists b, tl. split; [exact Eh|apply num_start_vstart, Hns].
  - intros vr r p d Hv. pose proof (vterm_nterm r Hv) as Hn.
    destruct (date_time_ctx dt r p d Hr Hn) as (p' & E). exists p'.
    rewrite (value_body_number vr _ b (tl ++ r)); [|cbn [rest]; rewrite Eh; reflexivity|exact Hns].
    unfold number_arm. apply alt_ok. rewrite (pmap_ok _ _ _ _ _ E). reflexivity.
Qed.
