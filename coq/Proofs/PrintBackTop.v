(* Proofs/PrintBackTop.v — C03 exactness for documents whose root table holds plain values only
   (class (a) + (b): `key = value` lines with a plain key, comments, blank lines; the values may be
   arrays and inline tables with plain keys, nested).  The condition is decided on the tree. *)
From TV Require Import Base.Prelude Base.Utf8 Base.Winnow Gen.Consts Spec.Abnf Spec.Lex Spec.Defs Spec.Syntax Spec.Norm.
From TV Require Import Model.Trivia Model.Strings Model.Datetime Model.Numbers Model.Tree Model.Parse Model.Document Model.Write Model.Encode.
From TV Require Import Proofs.ConstsOk Proofs.NoPanicBase Proofs.NoPanicLex Proofs.NoPanicValue.
From TV Require Import Proofs.LexEquivBase Proofs.LexEquivTrivia Proofs.LexEquivKey Proofs.GrammarSep Proofs.GrammarBase
                       Proofs.GrammarValueBase Proofs.GrammarValueSound Proofs.GrammarDocLine Proofs.GrammarDoc Proofs.GrammarDocReject
                       Proofs.DefsEquivBase Proofs.DefsEquivSim
                       Proofs.TilingDefs Proofs.TilingNormDoc
                       Proofs.PrintBackBase Proofs.PrintBackEnc Proofs.PrintBackKey Proofs.PrintBackValue Proofs.PrintBackDoc.
Require Import Lia ZifyBool ZifyN ZifyNat.

(* ---- Spec/Defs.v: a tree with only values at the root was made by single-key lines of the root section ---- *)
Section OnlyVals.
  Context {V : Type}.
  Definition is_val (n : node V) : bool := match n with NVal _ => true | _ => false end.
  Definition only_vals (t : stree V) : bool := forallb (fun kn => is_val (snd kn)) t.
  Definition flat_s (st : stmt V) : bool := match st with SKeyVal p _ => Nat.eqb (length p) 1 | _ => false end.

  Lemma only_vals_push t k n : only_vals (spush t k n) = only_vals t && is_val n.
  Proof. unfold only_vals, spush. rewrite forallb_app. cbn [forallb snd]. rewrite andb_true_r. reflexivity. Qed.

  Lemma only_vals_sset : forall t k n n0, sget t k = Some n0 -> is_val n = false -> only_vals (sset t k n) = false.
  Proof.
    induction t as [|[k' n'] tl IH]; intros k n n0 G Hn; cbn [sget sset] in *; [discriminate|].
    destruct (bytes_eqb k' k); unfold only_vals; cbn [forallb snd].
    - rewrite Hn. reflexivity.
    - fold (only_vals (sset tl k n)). rewrite (IH k n n0 G Hn). apply andb_false_r.
  Qed.

  Lemma at_path_cons k p f (t t' : stree V) : at_path (k :: p) f t = ROk t' -> only_vals t' = false.
  Proof.
    cbn [at_path]. destruct (sget t k) as [[v|kd c|es]|] eqn:G.
    - discriminate.
    - destruct (at_path p f c); cbn [rbind]; try discriminate. intro E. injection E as <-. apply (only_vals_sset t k _ _ G). reflexivity.
    - destruct (rev es); [discriminate|]. destruct (at_path p f l); cbn [rbind]; try discriminate. intro E. injection E as <-.
      apply (only_vals_sset t k _ _ G). reflexivity.
    - destruct (at_path p f []); cbn [rbind]; try discriminate. intro E. injection E as <-. rewrite only_vals_push. apply andb_false_r.
  Qed.

  Lemma insert_kv_vals p v (t t' : stree V) : insert_kv false p v t = ROk t' -> only_vals t' = true ->
    only_vals t = true /\ length p = 1.
  Proof.
    destruct p as [|k [|k2 p'']]; [discriminate| |].
    - cbn [insert_kv]. destruct (sget t k); [discriminate|]. intro E. injection E as <-. rewrite only_vals_push, andb_true_r. auto.
    - intros E Hv. exfalso. revert E. change (insert_kv false (k :: k2 :: p'') v t)
        with (match sget t k with
              | None => c <~ insert_kv false (k2 :: p'') v [] ;; ROk (spush t k (NTab KDotted c))
              | Some (NTab KDotted c) => c' <~ insert_kv false (k2 :: p'') v c ;; ROk (sset t k (NTab KDotted c'))
              | Some (NTab KSuper c) =>
                match p'' with
                | [] => RInvalid
                | _ => c' <~ insert_kv false (k2 :: p'') v c ;; ROk (sset t k (NTab KSuper c'))
                end
              | Some _ => RInvalid
              end).
      destruct (sget t k) as [[v0|kd c|es]|] eqn:G; try discriminate.
      + destruct kd; try discriminate.
        * destruct p''; [discriminate|]. destruct (insert_kv false _ v c); cbn [rbind]; try discriminate.
          intro E. injection E as <-. rewrite (only_vals_sset t k _ _ G) in Hv; [discriminate|reflexivity].
        * destruct (insert_kv false _ v c); cbn [rbind]; try discriminate.
          intro E. injection E as <-. rewrite (only_vals_sset t k _ _ G) in Hv; [discriminate|reflexivity].
      + destruct (insert_kv false _ v []); cbn [rbind]; try discriminate.
        intro E. injection E as <-. rewrite only_vals_push, andb_false_r in Hv. discriminate.
  Qed.

  Lemma def_table_vals k (t t' : stree V) : def_table k t = ROk t' -> only_vals t' = false.
  Proof.
    unfold def_table. destruct (sget t k) as [[v|kd c|es]|]; try discriminate.
    - destruct kd; try discriminate. intro E. injection E as <-. rewrite only_vals_push. apply andb_false_r.
    - intro E. injection E as <-. rewrite only_vals_push. apply andb_false_r.
  Qed.

  Lemma def_elem_vals k (t t' : stree V) : def_elem k t = ROk t' -> only_vals t' = false.
  Proof.
    unfold def_elem. destruct (sget t k) as [[v|kd c|es]|] eqn:G; try discriminate.
    - intro E. injection E as <-. apply (only_vals_sset t k _ _ G). reflexivity.
    - intro E. injection E as <-. rewrite only_vals_push. apply andb_false_r.
  Qed.

  Lemma step_vals (s s' : Defs.sstate V) st : spec_step false s st = ROk s' -> only_vals (fst s') = true ->
    only_vals (fst s) = true /\ flat_s st = true.
  Proof.
    destruct s as [t cur]. destruct st as [p|p|p v]; cbn [spec_step fst].
    - destruct (unsnoc p) as [[pre k]|]; [|discriminate]. destruct (at_path pre (def_table k) t) as [t'| |] eqn:E; cbn [rbind]; try discriminate.
      intro H. injection H as <-. cbn [fst]. intro Hv. exfalso. destruct pre as [|k0 pre].
      + cbn [at_path] in E. rewrite (def_table_vals _ _ _ E) in Hv. discriminate.
      + rewrite (at_path_cons _ _ _ _ _ E) in Hv. discriminate.
    - destruct (unsnoc p) as [[pre k]|]; [|discriminate]. destruct (at_path pre (def_elem k) t) as [t'| |] eqn:E; cbn [rbind]; try discriminate.
      intro H. injection H as <-. cbn [fst]. intro Hv. exfalso. destruct pre as [|k0 pre].
      + cbn [at_path] in E. rewrite (def_elem_vals _ _ _ E) in Hv. discriminate.
      + rewrite (at_path_cons _ _ _ _ _ E) in Hv. discriminate.
    - destruct (at_path cur (insert_kv false p v) t) as [t'| |] eqn:E; cbn [rbind]; try discriminate.
      intro H. injection H as <-. cbn [fst]. intro Hv. destruct cur as [|k0 cur].
      + cbn [at_path] in E. destruct (insert_kv_vals _ _ _ _ E Hv) as [H1 H2]. split; [exact H1|]. cbn [flat_s]. apply Nat.eqb_eq, H2.
      + rewrite (at_path_cons _ _ _ _ _ E) in Hv. discriminate.
  Qed.

  Lemma fold_vals : forall l (s : Defs.sstate V) T c, spec_fold false s l = ROk (T, c) -> only_vals T = true ->
    only_vals (fst s) = true /\ forallb flat_s l = true.
  Proof.
    induction l as [|st tl IH]; intros s T c H Hv; cbn [spec_fold] in H.
    - injection H as ->. auto.
    - destruct (spec_step false s st) as [s'| |] eqn:E; cbn [rbind] in H; try discriminate.
      destruct (IH s' T c H Hv) as [Hv' Hf]. destruct (step_vals s s' st E Hv') as [H1 H2]. cbn [forallb]. rewrite H2, Hf. auto.
  Qed.

  Lemma code_run_vals l (T : stree V) : code_run l = Valid T -> only_vals T = true -> forallb flat_s l = true.
  Proof.
    unfold code_run, run. destruct (spec_fold false Defs.sstate0 l) as [[T' c]| |] eqn:E; try discriminate.
    intro H. injection H as ->. intro Hv. apply (fold_vals l Defs.sstate0 T c E Hv).
  Qed.
End OnlyVals.

(* ---- the condition on the tree ---------------------------------------------------------------------------------- *)
(* every item of the root table is a value without dotted keys inside: no [header], no dotted key *)
Definition flat_doc (d : doc) : bool := items_plain (t_items (doc_root d)).

Lemma flat_doc_only_vals d : flat_doc d = true -> only_vals (abs_doc d) = true.
Proof.
  unfold flat_doc, abs_doc. rewrite abs_tbl_eq. generalize (t_items (doc_root d)). unfold items_plain, only_vals, smap, abs_items.
  induction l as [|[k it] tl IH]; [reflexivity|]. cbn [forallb map snd abs_kv kmap]. intro H. apply andb_true_iff in H as [H1 H2].
  rewrite (IH H2), andb_true_r. destruct it; try discriminate. reflexivity.
Qed.

Lemma flat_den l : forallb flat_s (map stmt_den l) = flat l.
Proof. unfold flat. induction l as [|st tl IH]; [reflexivity|]. cbn [map forallb]. rewrite IH. destruct st; reflexivity. Qed.

Lemma lines_dlines t l o : lines_text t l o -> dlines t l.
Proof.
  induction 1 as [|w0 e l o Hw0 He|w0 e l o nl w t l' o' Hw0 He Hn Hw Hl IH].
  - apply dl_nil.
  - apply dl_last; [exact Hw0|apply (item_text_item e l o He)].
  - apply dl_cons; try assumption. apply (item_text_item e l o He).
Qed.

(* the statements of the lines of a flat document are single-key lines *)
Lemma flat_doc_lines s d w t l o : parse_document s = POk d -> strip_bom s = w ++ t -> ws_tok w -> lines_text t l o ->
  flat_doc d = true -> flat l = true.
Proof.
  intros Hp Es Hw Hl Hf.
  assert (Ht : toml_text s l) by (unfold toml_text; rewrite Es; apply toml_tok_ws; [exact Hw|apply dlines_toml, (lines_dlines t l o Hl)]).
  destruct (parse_document_total s d l Hp Ht) as (_ & _ & Hc).
  rewrite <- flat_den. apply (code_run_vals _ _ Hc). apply flat_doc_only_vals, Hf.
Qed.

(* ---- the document ------------------------------------------------------------------------------------------------ *)
Lemma concat_outs s kvl outs : Forall2 (line_out s) kvl outs -> Forall (fun kv : key * value => vplain (snd kv) = true) kvl ->
  flat_map (kv_line s) kvl = concat outs.
Proof.
  induction 1 as [|kv ol kvl outs H _ IH]; intro Hp; [reflexivity|]. inversion Hp as [|? ? Hv Hp']; subst.
  cbn [flat_map concat]. rewrite (H Hv), (IH Hp'). reflexivity.
Qed.

Theorem doc_render s d : parse_document s = POk d ->
  exists w t l o, strip_bom s = w ++ t /\ ws_tok w /\ lines_text t l o /\ (flat_doc d = true -> render s d = w ++ o).
Proof.
  intro Hp. pose proof Hp as H. unfold parse_document, parse_all in H.
  destruct ((a <- document ;; eof ;;; ret a) (new_input s)) as [st i|e j|e j|x] eqn:E; try discriminate.
  destruct (finalize_table st) as [st'| |] eqn:Ef; try discriminate. injection H as Hd.
  apply bind_inv in E as (st0 & i0 & E & E'). apply bind_inv in E' as (u0 & i0' & _ & E'). apply ret_inv in E' as [-> _].
  rewrite document_unfold in E.
  apply bind_inv in E as (ob & i1 & Eb & E). apply bind_inv in E as (stw & i2 & Ew & E).
  apply bind_inv in E as (stl & i3 & El & E). apply bind_inv in E as (u & i4 & Ee & E).
  apply eof_inv in Ee as [-> Rend]. apply ret_inv in E as [-> ->].
  apply parse_ws_exact in Ew as (w0 & Hw0 & Sw & ->).
  assert (Sb : exists bm, splits (new_input s) bm i1 /\ strip_bom s = w0 ++ rest i2).
  { apply opt_inv in Eb as [(x & -> & Eb) | (-> & -> & (e & j & F))].
    - apply lit_inv in Eb as [_ Sb]. exists Document.bom. split; [exact Sb|]. destruct Sb as [R _]. cbn [new_input rest] in R.
      destruct (strip_bom_cases s) as [(r & Er & ->) | [Hn _]]; [|exfalso; apply (Hn _ R)].
      rewrite Er in R. apply app_inv_head in R. subst r. apply Sw.
    - exists []. split; [apply splits_nil|]. destruct (strip_bom_cases s) as [(r & Er & _) | [_ ->]].
      + exfalso. unfold lit in F. cbn [new_input rest] in F.
        destruct (strip_prefix Document.bom s) eqn:Q; [discriminate|].
        assert (Q' : strip_prefix Document.bom s = Some r) by (apply strip_prefix_spec; exact Er). congruence.
      + apply Sw. }
  destruct Sb as (bm & Sb & Es).
  destruct (isrc_splits s _ bm i1 (isrc_new s) Sb) as [Hi1 _]. destruct (isrc_splits s i1 w0 i2 Hi1 Sw) as [Hi2 _].
  destruct (doc_loop_render s _ _ _ _ _ Hi2 El) as (t & l & o & St & Hlt & Hi3 & Hok).
  assert (Et : rest i2 = t) by (destruct St as [Rt _]; rewrite Rend, app_nil_r in Rt; exact Rt).
  rewrite Et in Es. exists w0, t, l, o. split; [exact Es|]. split; [exact Hw0|]. split; [exact Hlt|]. intro Hf.
  pose proof (flat_doc_lines s d w0 t l o Hp Es Hw0 Hlt Hf) as Hfl.
  assert (HI0 : flat_inv s (on_ws state_new (pos i1, pos i2)) i2 [] [] i1 w0).
  { unfold flat_inv, on_ws, state_new. cbn [st_root st_path st_current st_trailing map].
    split; [reflexivity|]. split; [reflexivity|]. split; [eexists _, _; reflexivity|]. split; [constructor|]. auto. }
  destruct (Hok [] [] i1 w0 HI0 Hfl) as (kvl & outs & j0 & pend & (Hr & Hpa & (ps & sp & Hc) & Hou & Htr & Hj0 & Spend) & Eo).
  unfold finalize_table in Ef. rewrite Hpa in Ef. cbn [pop_key rev] in Ef. rewrite Hr in Ef. cbn [tbl_is_empty tbl_new t_items forallb] in Ef.
  injection Ef as <-. cbn [st_root st_trailing] in Hd. rewrite Htr, Hc in Hd. subst d.
  unfold flat_doc in Hf. cbn [doc_root t_items] in Hf. pose proof (items_plain_mk kvl Hf) as Hpl.
  unfold render. cbn [doc_root doc_trailing]. rewrite (display_flat s kvl ps sp _ Hpl).
  rewrite (span_prints s j0 pend i3 [] Hj0 Spend). rewrite (concat_outs s kvl outs Hou Hpl).
  unfold flat_out in Eo. cbn [concat app] in Eo. rewrite (ncr_ws w0 Hw0) in Eo. exact Eo.
Qed.

(* C03 (classes a + b): an unedited document whose root table holds plain values prints back as its
   normal form *)
Theorem render_normalize_values s d : parse_document s = POk d -> flat_doc d = true -> render s d = normalize s.
Proof.
  intros Hp Hf. destruct (doc_render s d Hp) as (w & t & l & o & Es & Hw & Hl & Hr).
  rewrite (Hr Hf). symmetry. apply (norm_lines s w t l o); [rewrite drop_bom_strip_bom; exact Es|exact Hw|exact Hl].
Qed.

(* C03 tiling, every accepted document: the text is whitespace, then complete lines, and the normal
   form of the lines is what the scanner of Spec/Norm.v computes *)
Theorem document_tiling s d : parse_document s = POk d ->
  exists w t l o, strip_bom s = w ++ t /\ ws_tok w /\ lines_text t l o /\ normalize s = w ++ o.
Proof.
  intro Hp. destruct (doc_render s d Hp) as (w & t & l & o & Es & Hw & Hl & _).
  exists w, t, l, o. repeat (split; [assumption|]). apply (norm_lines s w t l o); [rewrite drop_bom_strip_bom; exact Es|exact Hw|exact Hl].
Qed.
