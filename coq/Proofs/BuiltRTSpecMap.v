(* Proofs/BuiltRTSpecMap.v — C06: the definition rules of Spec/Defs.v do not look at values: mapping the
   values of the statements maps the resulting tree (used to go from the values the parser produced to
   their abstract trees). *)
From TV Require Import Base.Prelude Spec.Defs.

Section Map.
  Context {V W : Type}.
  Variable g : V -> W.

  Fixpoint map_node (n : node V) : node W :=
    match n with
    | NVal v => NVal (g v)
    | NTab kd items => NTab kd (map (fun kn => (fst kn, map_node (snd kn))) items)
    | NAot es => NAot (map (map (fun kn => (fst kn, map_node (snd kn)))) es)
    end.
  Definition map_tree (t : stree V) : stree W := map (fun kn => (fst kn, map_node (snd kn))) t.

  Definition map_stmt (s : stmt V) : stmt W :=
    match s with
    | SHeader p => SHeader p
    | SArrHeader p => SArrHeader p
    | SKeyVal p v => SKeyVal p (g v)
    end.

  Definition map_res {A B} (f : A -> B) (r : res A) : res B :=
    match r with ROk a => ROk (f a) | RInvalid => RInvalid | RUndecided => RUndecided end.
  Definition map_state (s : sstate V) : sstate W := (map_tree (fst s), snd s).

  Lemma map_node_tab kd items : map_node (NTab kd items) = NTab kd (map_tree items).
  Proof. reflexivity. Qed.
  Lemma map_node_aot es : map_node (NAot es) = NAot (map map_tree es).
  Proof. reflexivity. Qed.

  Lemma sget_map t k : sget (map_tree t) k = option_map map_node (sget t k).
  Proof.
    induction t as [|[k' n] t IH]; [reflexivity|]. cbn [map_tree map fst snd sget].
    destruct (bytes_eqb k' k); [reflexivity|exact IH].
  Qed.
  Lemma sset_map t k n : sset (map_tree t) k (map_node n) = map_tree (sset t k n).
  Proof.
    induction t as [|[k' n'] t IH]; [reflexivity|]. cbn [map_tree map fst snd sset].
    destruct (bytes_eqb k' k); cbn [map fst snd]; [reflexivity|]. f_equal. exact IH.
  Qed.
  Lemma spush_map t k n : spush (map_tree t) k (map_node n) = map_tree (spush t k n).
  Proof. unfold spush, map_tree. rewrite map_app. reflexivity. Qed.
  Lemma sremove_map t k : sremove (map_tree t) k = map_tree (sremove t k).
  Proof.
    induction t as [|[k' n'] t IH]; [reflexivity|]. cbn [map_tree map fst snd sremove].
    destruct (bytes_eqb k' k); cbn [map fst snd]; [reflexivity|]. f_equal. exact IH.
  Qed.

  Lemma map_res_bind {A B A' B'} (fa : A -> A') (fb : B -> B') (r : res A) (k : A -> res B) (k' : A' -> res B') :
    (forall a, k' (fa a) = map_res fb (k a)) ->
    rbind (map_res fa r) k' = map_res fb (rbind r k).
  Proof. intro H. destruct r; cbn; [apply H|reflexivity|reflexivity]. Qed.

  Lemma at_path_map p (f : stree V -> res (stree V)) (f' : stree W -> res (stree W)) :
    (forall t, f' (map_tree t) = map_res map_tree (f t)) ->
    forall t, at_path p f' (map_tree t) = map_res map_tree (at_path p f t).
  Proof.
    intro Hf. induction p as [|k p IH]; intro t; cbn [at_path]; [apply Hf|].
    rewrite sget_map. destruct (sget t k) as [[v|kd c|es]|]; cbn [option_map map_node].
    - reflexivity.
    - fold (map_tree c). rewrite IH. apply map_res_bind. intro c'. cbn [map_res]. f_equal.
      rewrite <- map_node_tab. apply sset_map.
    - change (map (map (fun kn => (fst kn, map_node (snd kn)))) es) with (map map_tree es).
      rewrite <- map_rev. unfold stree in *. destruct (rev es) as [|e before]; cbn [map]; [reflexivity|].
      rewrite IH. apply map_res_bind. intro e'. cbn [map_res]. f_equal.
      rewrite <- map_rev. change [map_tree e'] with (map map_tree [e']). rewrite <- map_app, <- map_node_aot.
      apply sset_map.
    - change (@nil (bytes * node W)) with (map_tree []). rewrite IH. apply map_res_bind. intro c'. cbn [map_res]. f_equal.
      rewrite <- map_node_tab. apply spush_map.
  Qed.

  Lemma def_table_map k t : def_table k (map_tree t) = map_res map_tree (def_table k t).
  Proof.
    unfold def_table. rewrite sget_map. destruct (sget t k) as [[v|kd c|es]|]; cbn [option_map map_node map_res]; try reflexivity.
    - destruct kd; cbn [map_res]; try reflexivity. f_equal. rewrite sremove_map.
      change (map (fun kn => (fst kn, map_node (snd kn))) c) with (map_tree c). rewrite <- map_node_tab. apply spush_map.
    - f_equal. change (@NTab W KHeader []) with (map_node (@NTab V KHeader [])). apply spush_map.
  Qed.

  Lemma def_elem_map k t : def_elem k (map_tree t) = map_res map_tree (def_elem k t).
  Proof.
    unfold def_elem. rewrite sget_map. destruct (sget t k) as [[v|kd c|es]|]; cbn [option_map map_node map_res]; try reflexivity.
    - f_equal. change (map (map (fun kn => (fst kn, map_node (snd kn)))) es) with (map map_tree es).
      rewrite <- (sset_map t k (NAot (es ++ [[]]))). f_equal. rewrite map_node_aot, map_app. reflexivity.
    - f_equal. change (@NAot W [[]]) with (map_node (@NAot V [[]])). apply spush_map.
  Qed.

  Lemma insert_kv_map b p v : forall t, insert_kv b p (g v) (map_tree t) = map_res map_tree (insert_kv b p v t).
  Proof.
    induction p as [|k p IH]; intro t; [reflexivity|]. destruct p as [|k2 p''].
    - cbn [insert_kv]. rewrite sget_map. destruct (sget t k); cbn [option_map map_res]; [reflexivity|].
      f_equal. change (@NVal W (g v)) with (map_node (@NVal V v)). apply spush_map.
    - cbn [insert_kv] in *. rewrite sget_map. destruct (sget t k) as [[v0|kd c|es]|]; cbn [option_map map_node]; try reflexivity.
      + change (map (fun kn => (fst kn, map_node (snd kn))) c) with (map_tree c).
        destruct kd; try reflexivity.
        * destruct b; [reflexivity|]. destruct p''; [reflexivity|].
          rewrite IH. apply map_res_bind. intro c'. cbn [map_res]. f_equal. rewrite <- map_node_tab. apply sset_map.
        * rewrite IH. apply map_res_bind. intro c'. cbn [map_res]. f_equal. rewrite <- map_node_tab. apply sset_map.
      + change (@nil (bytes * node W)) with (map_tree []). rewrite IH. apply map_res_bind. intro c'. cbn [map_res]. f_equal.
        rewrite <- map_node_tab. apply spush_map.
  Qed.

  Theorem spec_step_map b S s : spec_step b (map_state S) (map_stmt s) = map_res map_state (spec_step b S s).
  Proof.
    destruct S as [T cp]. destruct s as [p|p|p v]; cbn [map_stmt spec_step map_state fst snd].
    - destruct (unsnoc p) as [[pre k]|]; [|reflexivity].
      rewrite (at_path_map pre (def_table k) (def_table k) (def_table_map k)).
      destruct (at_path pre (def_table k) T); reflexivity.
    - destruct (unsnoc p) as [[pre k]|]; [|reflexivity].
      rewrite (at_path_map pre (def_elem k) (def_elem k) (def_elem_map k)).
      destruct (at_path pre (def_elem k) T); reflexivity.
    - rewrite (at_path_map cp (insert_kv b p v) (insert_kv b p (g v)) (insert_kv_map b p v)).
      destruct (at_path cp (insert_kv b p v) T); reflexivity.
  Qed.
End Map.
