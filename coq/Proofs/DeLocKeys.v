(* Proofs/DeLocKeys.v — the key path of a deserialization error (Model/DeLoc.v), on any tree and under
   any configuration: it lists exactly the keys of the steps that go through
   TableMapAccess::next_value_seed (`added_keys` of the ghost path) — struct fields and map entries, not
   array indices, not the key an error is raised AT, and NOT the key of an enum variant or of a tuple
   variant's component (known finding C15-de-keypath-omits-enum-variant). *)
From TV Require Import Base.Prelude Base.Utf8 Model.Datetime Model.DatetimeStd Model.SerNum Spec.SerdeData Model.De Model.SerdeSpanned.
From TV Require Import Model.DeLoc Proofs.DeLocBase.

Definition kinv (e : lerr) : Prop :=
  e_keys e = added_keys (e_at e) (e_onkey e) /\ (e_onkey e = true -> e_at e <> []).

Lemma kinv_fresh e : fresh e -> kinv e.
Proof. intros (K & A & O). unfold kinv. rewrite K, A, O. split; [reflexivity|discriminate]. Qed.

Lemma kinv_fresh_nospan e : fresh_nospan e -> kinv e.
Proof. intros [F _]. apply kinv_fresh. exact F. Qed.

Lemma K_raise {A} k : errs kinv (@raise A k).
Proof. apply kinv_fresh. repeat split. Qed.
Lemma K_raise_at {A} k sp : errs kinv (@raise_at A k sp).
Proof. apply kinv_fresh. repeat split. Qed.

Lemma K_wrap {A} sp (r : lres A) : errs kinv r -> errs kinv (wrap sp r).
Proof.
  intro H. unfold wrap. eapply errs_map_err; [exact H|]. intros e K. destruct (e_span e); exact K.
Qed.
Lemma K_wrap_always {A} sp (r : lres A) : errs kinv r -> errs kinv (wrap_always sp r).
Proof. intro H. unfold wrap_always. eapply errs_map_err; [exact H|]. intros e K. exact K. Qed.

Lemma added_keys_cons_key i k p o : p <> [] \/ o = false ->
  added_keys (SKey i k :: p) o = k :: added_keys p o.
Proof.
  intros [H|H]; destruct p as [|x p']; try congruence; try reflexivity. subst. reflexivity.
Qed.

Lemma K_value_of_entry {A} i en (r : lres A) : errs kinv r -> errs kinv (value_of_entry i en r).
Proof.
  intro H. unfold value_of_entry, under, addkey. eapply errs_map_err; [|intros e K; exact K].
  eapply errs_map_err; [apply K_wrap; exact H|]. cbn beta. intros e [K O]. split; cbn [e_keys e_at e_onkey].
  - rewrite added_keys_cons_key.
    + rewrite K. reflexivity.
    + destruct (e_onkey e); [left; apply O; reflexivity|right; reflexivity].
  - intros _. discriminate.
Qed.

Lemma K_key_of_entry {A} i en (r : lres A) : errs fresh r -> errs kinv (key_of_entry i en r).
Proof.
  intro H. destruct r as [a|e]; [exact I|]. destruct H as (K & P & O).
  unfold key_of_entry, under, on_key, wrap. cbn [map_err errs].
  destruct (e_span e); split; cbn [e_keys e_at e_onkey set_span]; rewrite ?K, ?P; try reflexivity; intros _; discriminate.
Qed.

Lemma K_under_quiet {A} st (r : lres A) :
  (match st with SKey _ _ => False | _ => True end) -> errs kinv r -> errs kinv (under st r).
Proof.
  intros Hs H. unfold under. eapply errs_map_err; [exact H|]. intros e [K O].
  split; cbn [e_keys e_at e_onkey]; [|intros _; discriminate].
  destruct st; try contradiction; exact K.
Qed.

Lemma K_on_key_quiet {A} st (r : lres A) :
  (match st with SKey _ _ => False | _ => True end) -> errs fresh r -> errs kinv (under st (on_key r)).
Proof.
  intros Hs H. destruct r as [a|e]; [exact I|]. destruct H as (K & P & O).
  unfold under, on_key. cbn [map_err errs]. split; cbn [e_keys e_at e_onkey]; [|intros _; discriminate].
  rewrite K, P. destruct st; try contradiction; reflexivity.
Qed.

Lemma fresh_wrap {A} sp (r : lres A) : errs fresh r -> errs fresh (wrap sp r).
Proof.
  intro H. unfold wrap. eapply errs_map_err; [exact H|]. intros e F. destruct (e_span e); exact F.
Qed.
Lemma fresh_of_nospan {A} (r : lres A) : errs fresh_nospan r -> errs fresh r.
Proof. intro H. eapply errs_impl; [exact H|]. intros e [F _]. exact F. Qed.

(* ---- the visitors ---- *)
Section Visitors.
  Variable de : ty -> stree -> lres sval.
  Definition kok (t : ty) : Prop := forall s, errs kinv (de t s).

  Lemma K_seq_elems t xs : kok t -> forall i, errs kinv (seq_elems de t xs i).
  Proof.
    intro Hde. induction xs as [|x xs IH]; intro i; [exact I|]. cbn [seq_elems].
    apply errs_lbind; [apply K_under_quiet; [exact I|apply K_wrap; apply Hde]|]. intros v _.
    apply errs_lbind; [apply IH|]. intros vs _. exact I.
  Qed.

  Lemma K_pos_elems {A} (proj : A -> ty) l :
    Forall (fun a => kok (proj a)) l -> forall xs i, errs kinv (pos_elems de proj l xs i).
  Proof.
    induction l as [|a l IH]; intros F xs i; [exact I|]. inversion F; subst. cbn [pos_elems].
    destruct xs as [|x xs]; [apply (@K_raise (list sval))|].
    apply errs_lbind; [apply K_under_quiet; [exact I|apply K_wrap; auto]|]. intros v _.
    apply errs_lbind; [apply IH; assumption|]. intros vs _. exact I.
  Qed.

  Lemma K_map_entries kt vt es : kok vt -> forall i, errs kinv (map_entries de kt vt es i).
  Proof.
    intro Hde. induction es as [|e es IH]; intro i; [exact I|]. cbn [map_entries].
    apply errs_lbind; [apply K_key_of_entry; apply fresh_of_nospan; apply fresh_de_key|]. intros k _.
    apply errs_lbind; [apply K_value_of_entry; apply Hde|]. intros v _.
    apply errs_lbind; [apply IH|]. intros ps _. exact I.
  Qed.

  Lemma K_struct_scan fs denied es :
    Forall (fun ft => kok (snd ft)) fs -> forall i seen, errs kinv (struct_scan de fs denied es i seen).
  Proof.
    intro F. induction es as [|e es IH]; intros i seen; [exact I|]. cbn [struct_scan].
    apply find_name_errs.
    - destruct denied; [apply K_key_of_entry; repeat split|apply IH].
    - intros j t Hin. rewrite Forall_forall in F. specialize (F _ Hin). cbn [snd] in F.
      destruct (existsb (Nat.eqb j) seen); [apply (@K_raise (list (nat * sval)))|].
      apply errs_lbind; [apply K_value_of_entry; apply F|]. intros v _.
      apply errs_lbind; [apply IH|]. intros r _. exact I.
  Qed.

  Lemma K_struct_finish fs : forall j got, errs kinv (struct_finish fs j got).
  Proof.
    induction fs as [|[f t] fs IH]; intros j got; [exact I|]. cbn [struct_finish].
    apply errs_lbind.
    - destruct (assoc_nat j got); [exact I|]. destruct t; try apply (@K_raise sval). exact I.
    - intros v _. apply errs_lbind; [apply IH|]. intros vs _. exact I.
  Qed.

  Lemma K_struct_from_table fs denied es :
    Forall (fun ft => kok (snd ft)) fs -> errs kinv (struct_from_table de fs denied es).
  Proof.
    intro F. unfold struct_from_table. apply errs_lbind; [apply K_struct_scan; exact F|]. intros got _. apply K_struct_finish.
  Qed.

  Lemma K_pos_entries ts : Forall kok ts -> forall xs, errs kinv (pos_entries de ts xs).
  Proof.
    induction ts as [|t ts IH]; intros F xs; [exact I|]. inversion F; subst. cbn [pos_entries].
    destruct xs as [|[i e] xs]; [apply (@K_raise (list sval))|].
    apply errs_lbind; [apply K_under_quiet; [exact I|apply K_wrap; auto]|]. intros v _.
    apply errs_lbind; [apply IH; assumption|]. intros vs _. exact I.
  Qed.
End Visitors.

Lemma K_index_entries es : forall i n, errs kinv (index_entries i n es).
Proof.
  induction es as [|e es IH]; intros i n; [exact I|]. cbn [index_entries].
  destruct (parse_usize (en_key e)) as [j|].
  - destruct (j =? n)%N.
    + apply errs_lmap. apply IH.
    + apply K_on_key_quiet; [exact I|repeat split].
  - apply K_on_key_quiet; [exact I|repeat split].
Qed.

Lemma K_de_datetime s : errs kinv (de_datetime_l s).
Proof.
  unfold de_datetime_l. destruct s as [sp x|sp xs|sp es].
  - destruct x; try (apply K_wrap; apply (@K_raise datetime)).
    apply K_wrap. eapply errs_impl; [apply fresh_de_dt|apply kinv_fresh_nospan].
  - apply K_wrap. apply (@K_raise datetime).
  - destruct es as [|e es]; [apply K_wrap; apply (@K_raise datetime)|].
    apply K_wrap. apply errs_lbind.
    + apply K_key_of_entry. destruct (bytes_eqb (en_key e) DT_FIELD); [exact I|repeat split].
    + intros _ _. apply K_value_of_entry. apply K_wrap.
      destruct (en_val e) as [sp' x'|sp' xs'|sp' es']; try apply (@K_raise datetime).
      destruct x'; try apply (@K_raise datetime).
      eapply errs_impl; [apply fresh_de_dt|apply kinv_fresh_nospan].
Qed.

(* ---- the deserializer ---- *)
Theorem K_de_loc c t : forall s, errs kinv (de_loc c t s).
Proof.
  induction t using ty_ind2 with (Q := fun var => forall y, errs kinv (de_payload c var y)); intro s;
    try (cbn [de_loc]; apply K_wrap; eapply errs_impl; [apply fresh_visit_scalar|apply kinv_fresh_nospan]).
  - (* datetime *)
    cbn [de_loc]. apply errs_lbind; [apply K_de_datetime|]. intros d _.
    destruct (dt_kind_ok k d); [exact I|apply (@K_raise sval)].
  - (* option *)
    cbn [de_loc]. destruct (opt_overwrite c); [apply K_wrap_always|apply K_wrap]; apply errs_lmap; apply IHt.
  - (* seq *)
    cbn [de_loc]. apply K_wrap. destruct s; try apply (@K_raise sval). apply errs_lmap. apply K_seq_elems. exact IHt.
  - (* tuple *)
    cbn [de_loc]. apply K_wrap. destruct s; try apply (@K_raise sval). apply errs_lmap. apply K_pos_elems. exact H.
  - (* map *)
    cbn [de_loc]. apply K_wrap. destruct s as [sp x|sp xs|sp es]; try apply (@K_raise sval).
    + destruct x; apply (@K_raise sval).
    + apply errs_lmap. apply K_map_entries. exact IHt2.
  - (* struct *)
    cbn [de_loc]. destruct (private_name n); [apply (@K_raise sval)|]. apply K_wrap.
    destruct s as [sp x|sp xs|sp es].
    + destruct x; apply (@K_raise sval).
    + apply errs_lmap. apply K_pos_elems. exact H.
    + apply errs_lmap. apply K_struct_from_table. exact H.
  - (* newtype *)
    cbn [de_loc]. apply K_wrap. apply errs_lmap. apply IHt.
  - (* tuple struct *)
    cbn [de_loc]. apply K_wrap. destruct s; try apply (@K_raise sval). apply errs_lmap. apply K_pos_elems. exact H.
  - (* enum *)
    cbn [de_loc]. apply K_wrap. destruct s as [sp x|sp xs|sp es].
    + destruct x; try apply (@K_raise_at sval).
      apply find_name_errs; [apply (@K_raise sval)|]. intros j a _. destruct a; try exact I; apply (@K_raise sval).
    + apply (@K_raise_at sval).
    + destruct es as [|e [|e' es]]; try apply (@K_raise_at sval).
      apply find_name_errs.
      * apply K_on_key_quiet; [exact I|]. apply fresh_wrap. repeat split.
      * intros j var Hin. rewrite Forall_forall in H. specialize (H (en_key e, var) Hin). cbn [snd] in H.
        apply errs_lmap. apply K_under_quiet; [exact I|apply H].
  - (* unit variant *)
    rename s into y. cbn [de_payload]. destruct (sempty_container y); [exact I|apply (@K_raise_at sval)].
  - (* newtype variant *)
    rename s into y. cbn [de_payload]. apply K_wrap. apply IHt.
  - (* tuple variant *)
    rename s into y. cbn [de_payload]. destruct y as [sp x|sp xs|sp es].
    + apply (@K_raise_at sval).
    + destruct (Nat.eqb (length xs) (length ts)); [|apply (@K_raise_at sval)]. apply errs_lmap. apply K_pos_elems. exact H.
    + apply errs_lbind; [apply K_index_entries|]. intros xs _.
      destruct (Nat.eqb (length xs) (length ts)); [|apply (@K_raise_at sval)]. apply errs_lmap. apply K_pos_entries. exact H.
  - (* struct variant *)
    rename s into y. cbn [de_payload]. destruct y as [sp x|sp xs|sp es].
    + destruct x; try (apply K_wrap; apply (@K_raise sval)). apply (@K_raise sval).
    + apply K_wrap. apply errs_lmap. apply K_pos_elems. exact H.
    + destruct (first_extra_key (map fst fs) es 0) as [[i e]|].
      * apply K_wrap. unfold under, on_key, raise_at. cbn. split; cbn; [reflexivity|discriminate].
      * apply K_wrap. apply errs_lmap. apply K_struct_from_table. exact H.
Qed.

(* ---- without spans anywhere (DocumentMut, toml::Value): the error has no span ---- *)
Definition nospan (e : lerr) : Prop := e_span e = None.

Fixpoint ns (s : stree) : Prop :=
  span_of s = None /\
  match s with
  | NLeaf _ _ => True
  | NArr _ xs => (fix all (l : list stree) : Prop := match l with [] => True | x :: l' => ns x /\ all l' end) xs
  | NTab _ es => (fix all (l : list entry) : Prop :=
                    match l with [] => True | e :: l' => (en_kspan e = None /\ ns (en_val e)) /\ all l' end) es
  end.

Lemma ns_arr sp xs : ns (NArr sp xs) -> sp = None /\ Forall ns xs.
Proof.
  cbn [ns span_of]. intros [E H]. split; [exact E|]. induction xs as [|x xs IH]; [constructor|].
  destruct H as [H1 H2]. constructor; [exact H1|apply IH; exact H2].
Qed.
Lemma ns_tab sp es : ns (NTab sp es) -> sp = None /\ Forall (fun e => en_kspan e = None /\ ns (en_val e)) es.
Proof.
  cbn [ns span_of]. intros [E H]. split; [exact E|]. induction es as [|x xs IH]; [constructor|].
  destruct H as [H1 H2]. constructor; [exact H1|apply IH; exact H2].
Qed.

Fixpoint ns_despan (s : stree) : ns (despan s) :=
  match s return ns (despan s) with
  | NLeaf sp x => conj eq_refl I
  | NArr sp xs =>
    conj eq_refl
         ((fix G (l : list stree) :
             (fix all (l : list stree) : Prop := match l with [] => True | x :: l' => ns x /\ all l' end) (map despan l) :=
             match l with [] => I | x :: l' => conj (ns_despan x) (G l') end) xs)
  | NTab sp es =>
    conj eq_refl
         ((fix G (l : list (bytes * ospan * stree)) :
             (fix all (l : list entry) : Prop :=
                match l with [] => True | e :: l' => (en_kspan e = None /\ ns (en_val e)) /\ all l' end)
               (map (fun e => (fst (fst e), None, despan (snd e))) l) :=
             match l with [] => I | e :: l' => conj (conj eq_refl (ns_despan (snd e))) (G l') end) es)
  end.

Lemma N_raise {A} k : errs nospan (@raise A k).
Proof. reflexivity. Qed.
Lemma N_wrap_none {A} (r : lres A) : errs nospan r -> errs nospan (wrap None r).
Proof.
  intro H. unfold wrap. eapply errs_map_err; [exact H|]. intros e E. unfold nospan in *. rewrite E. reflexivity.
Qed.
Lemma N_map_err {A} g (r : lres A) : (forall e, e_span (g e) = e_span e) -> errs nospan r -> errs nospan (map_err g r).
Proof. intros Hg H. eapply errs_map_err; [exact H|]. intros e E. unfold nospan in *. rewrite Hg. exact E. Qed.
Lemma N_under {A} st (r : lres A) : errs nospan r -> errs nospan (under st r).
Proof. apply N_map_err. reflexivity. Qed.
Lemma N_on_key {A} (r : lres A) : errs nospan r -> errs nospan (on_key r).
Proof. apply N_map_err. reflexivity. Qed.
Lemma N_addkey {A} k (r : lres A) : errs nospan r -> errs nospan (addkey k r).
Proof. apply N_map_err. reflexivity. Qed.
Lemma N_of_fresh {A} (r : lres A) : errs fresh_nospan r -> errs nospan r.
Proof. intro H. eapply errs_impl; [exact H|]. intros e [_ E]. exact E. Qed.

Lemma N_value_of_entry {A} i e (r : lres A) :
  en_kspan e = None -> span_of (en_val e) = None -> errs nospan r -> errs nospan (value_of_entry i e r).
Proof.
  intros K V H. unfold value_of_entry. apply N_under, N_addkey. rewrite V, K. apply N_wrap_none. exact H.
Qed.
Lemma N_key_of_entry {A} i e (r : lres A) : en_kspan e = None -> errs nospan r -> errs nospan (key_of_entry i e r).
Proof. intros K H. unfold key_of_entry. apply N_under, N_on_key. rewrite K. apply N_wrap_none. exact H. Qed.

Lemma ns_span s : ns s -> span_of s = None.
Proof. destruct s; intros [E _]; exact E. Qed.

Section NVisitors.
  Variable de : ty -> stree -> lres sval.
  Definition nok (t : ty) : Prop := forall s, ns s -> errs nospan (de t s).

  Lemma N_seq_elems t xs : nok t -> Forall ns xs -> forall i, errs nospan (seq_elems de t xs i).
  Proof.
    intros Hde F. induction F as [|x xs Hx _ IH]; intro i; [exact I|]. cbn [seq_elems].
    apply errs_lbind; [apply N_under; rewrite (ns_span x Hx); apply N_wrap_none; apply Hde; exact Hx|]. intros v _.
    apply errs_lbind; [apply IH|]. intros vs _. exact I.
  Qed.

  Lemma N_pos_elems {A} (proj : A -> ty) l :
    Forall (fun a => nok (proj a)) l -> forall xs i, Forall ns xs -> errs nospan (pos_elems de proj l xs i).
  Proof.
    induction l as [|a l IH]; intros F xs i Fx; [exact I|]. inversion F; subst. cbn [pos_elems].
    destruct xs as [|x xs]; [apply (@N_raise (list sval))|]. inversion Fx; subst.
    apply errs_lbind; [apply N_under; rewrite (ns_span x) by assumption; apply N_wrap_none; auto|]. intros v _.
    apply errs_lbind; [apply IH; assumption|]. intros vs _. exact I.
  Qed.

  Lemma N_map_entries kt vt es : nok vt -> Forall (fun e => en_kspan e = None /\ ns (en_val e)) es ->
    forall i, errs nospan (map_entries de kt vt es i).
  Proof.
    intros Hde F. induction F as [|e es [Hk Hv] _ IH]; intro i; [exact I|]. cbn [map_entries].
    apply errs_lbind; [apply N_key_of_entry; [exact Hk|apply N_of_fresh; apply fresh_de_key]|]. intros k _.
    apply errs_lbind; [apply N_value_of_entry; [exact Hk|destruct (en_val e); exact (proj1 Hv)|apply Hde; exact Hv]|]. intros v _.
    apply errs_lbind; [apply IH|]. intros ps _. exact I.
  Qed.

  Lemma N_struct_scan fs denied es :
    Forall (fun ft => nok (snd ft)) fs -> Forall (fun e => en_kspan e = None /\ ns (en_val e)) es ->
    forall i seen, errs nospan (struct_scan de fs denied es i seen).
  Proof.
    intros Ff F. induction F as [|e es [Hk Hv] _ IH]; intros i seen; [exact I|]. cbn [struct_scan].
    apply find_name_errs.
    - destruct denied; [apply N_key_of_entry; [exact Hk|reflexivity]|apply IH].
    - intros j t Hin. rewrite Forall_forall in Ff. specialize (Ff _ Hin). cbn [snd] in Ff.
      destruct (existsb (Nat.eqb j) seen); [apply (@N_raise (list (nat * sval)))|].
      apply errs_lbind; [apply N_value_of_entry; [exact Hk|destruct (en_val e); exact (proj1 Hv)|apply Ff; exact Hv]|]. intros v _.
      apply errs_lbind; [apply IH|]. intros r _. exact I.
  Qed.

  Lemma N_struct_finish fs : forall j got, errs nospan (struct_finish fs j got).
  Proof.
    induction fs as [|[f t] fs IH]; intros j got; [exact I|]. cbn [struct_finish].
    apply errs_lbind.
    - destruct (assoc_nat j got); [exact I|]. destruct t; try apply (@N_raise sval). exact I.
    - intros v _. apply errs_lbind; [apply IH|]. intros vs _. exact I.
  Qed.

  Lemma N_struct_from_table fs denied es :
    Forall (fun ft => nok (snd ft)) fs -> Forall (fun e => en_kspan e = None /\ ns (en_val e)) es ->
    errs nospan (struct_from_table de fs denied es).
  Proof.
    intros Ff F. unfold struct_from_table. apply errs_lbind; [apply N_struct_scan; assumption|]. intros got _. apply N_struct_finish.
  Qed.

  Lemma N_pos_entries ts : Forall nok ts -> forall xs, Forall (fun ie => ns (en_val (snd ie))) xs -> errs nospan (pos_entries de ts xs).
  Proof.
    induction ts as [|t ts IH]; intros F xs Fx; [exact I|]. inversion F; subst. cbn [pos_entries].
    destruct xs as [|[i e] xs]; [apply (@N_raise (list sval))|]. inversion Fx; subst. cbn [snd] in *.
    apply errs_lbind; [apply N_under; rewrite (ns_span (en_val e)) by assumption; apply N_wrap_none; auto|]. intros v _.
    apply errs_lbind; [apply IH; assumption|]. intros vs _. exact I.
  Qed.
End NVisitors.

Lemma N_index_entries es : Forall (fun e => en_kspan e = None /\ ns (en_val e)) es ->
  forall i n, errs (fun e => nospan e) (index_entries i n es) /\
              (forall xs, index_entries i n es = LOk xs -> Forall (fun ie => ns (en_val (snd ie))) xs).
Proof.
  intro F. induction F as [|e es [Hk Hv] _ IH]; intros i n.
  - split; [exact I|]. intros xs E. injection E as <-. constructor.
  - cbn [index_entries]. destruct (parse_usize (en_key e)) as [j|].
    + destruct (j =? n)%N.
      * destruct (IH (S i) (n + 1)%N) as [H1 H2]. split; [apply errs_lmap; exact H1|].
        intros xs E. destruct (index_entries (S i) (n + 1) es) as [ys|]; [|discriminate].
        injection E as <-. constructor; [exact Hv|apply H2; reflexivity].
      * split; [|discriminate]. rewrite Hk. reflexivity.
    + split; [|discriminate]. rewrite Hk. reflexivity.
Qed.

Lemma N_de_datetime s : ns s -> errs nospan (de_datetime_l s).
Proof.
  intro H. unfold de_datetime_l. destruct s as [sp x|sp xs|sp es].
  - destruct H as [E _]. cbn [span_of] in E. subst sp.
    destruct x; try (apply N_wrap_none; apply (@N_raise datetime)). apply N_wrap_none. apply N_of_fresh. apply fresh_de_dt.
  - destruct H as [E _]. cbn [span_of] in *. subst sp. apply N_wrap_none. apply (@N_raise datetime).
  - apply ns_tab in H as [-> F]. destruct es as [|e es]; [apply N_wrap_none; apply (@N_raise datetime)|].
    inversion F as [|? ? [Hk Hv] _]; subst. apply N_wrap_none. apply errs_lbind.
    + apply N_key_of_entry; [exact Hk|]. destruct (bytes_eqb (en_key e) DT_FIELD); [exact I|reflexivity].
    + intros _ _. assert (V : span_of (en_val e) = None) by (destruct (en_val e); exact (proj1 Hv)).
      apply N_value_of_entry; [exact Hk|exact V|]. rewrite V. apply N_wrap_none.
      destruct (en_val e) as [sp' x'|sp' xs'|sp' es']; try apply (@N_raise datetime).
      destruct x'; try apply (@N_raise datetime). apply N_of_fresh. apply fresh_de_dt.
Qed.

Theorem N_de_loc c t : forall s, ns s -> errs nospan (de_loc c t s).
Proof.
  induction t using ty_ind2 with (Q := fun var => forall y, ns y -> errs nospan (de_payload c var y)); intros s Hs;
    pose proof (ns_span s Hs) as Sp;
    try (cbn [de_loc]; rewrite Sp; apply N_wrap_none; apply N_of_fresh; apply fresh_visit_scalar).
  - cbn [de_loc]. apply errs_lbind; [apply N_de_datetime; exact Hs|]. intros d _.
    destruct (dt_kind_ok k d); [exact I|apply (@N_raise sval)].
  - cbn [de_loc]. rewrite Sp. destruct (opt_overwrite c).
    + unfold wrap_always. eapply errs_map_err; [apply errs_lmap; apply IHt; exact Hs|]. intros e _. reflexivity.
    + apply N_wrap_none. apply errs_lmap. apply IHt. exact Hs.
  - cbn [de_loc]. rewrite Sp. apply N_wrap_none. destruct s as [sp x|sp xs|sp es]; try apply (@N_raise sval).
    apply ns_arr in Hs as [_ F]. apply errs_lmap. apply N_seq_elems; [exact IHt|exact F].
  - cbn [de_loc]. rewrite Sp. apply N_wrap_none. destruct s as [sp x|sp xs|sp es]; try apply (@N_raise sval).
    apply ns_arr in Hs as [_ F]. apply errs_lmap. apply N_pos_elems; [exact H|exact F].
  - cbn [de_loc]. rewrite Sp. apply N_wrap_none. destruct s as [sp x|sp xs|sp es]; try apply (@N_raise sval).
    + destruct x; apply (@N_raise sval).
    + apply ns_tab in Hs as [_ F]. apply errs_lmap. apply N_map_entries; [exact IHt2|exact F].
  - cbn [de_loc]. destruct (private_name n); [apply (@N_raise sval)|]. rewrite Sp. apply N_wrap_none.
    destruct s as [sp x|sp xs|sp es].
    + destruct x; apply (@N_raise sval).
    + apply ns_arr in Hs as [_ F]. apply errs_lmap. apply N_pos_elems; [exact H|exact F].
    + apply ns_tab in Hs as [_ F]. apply errs_lmap. apply N_struct_from_table; [exact H|exact F].
  - cbn [de_loc]. rewrite Sp. apply N_wrap_none. apply errs_lmap. apply IHt. exact Hs.
  - cbn [de_loc]. rewrite Sp. apply N_wrap_none. destruct s as [sp x|sp xs|sp es]; try apply (@N_raise sval).
    apply ns_arr in Hs as [_ F]. apply errs_lmap. apply N_pos_elems; [exact H|exact F].
  - cbn [de_loc]. rewrite Sp. apply N_wrap_none. destruct s as [sp x|sp xs|sp es].
    + cbn [span_of] in Sp. subst sp. destruct x; try reflexivity.
      apply find_name_errs; [apply (@N_raise sval)|]. intros j a _. destruct a; try exact I; apply (@N_raise sval).
    + cbn [span_of] in Sp. subst sp. reflexivity.
    + apply ns_tab in Hs as [-> F]. destruct es as [|e [|e' es]]; try reflexivity.
      inversion F as [|? ? [Hk Hv] _]; subst.
      apply find_name_errs.
      * apply N_under, N_on_key. rewrite Hk. apply N_wrap_none. apply (@N_raise sval).
      * intros j var Hin. rewrite Forall_forall in H. specialize (H (en_key e, var) Hin). cbn [snd] in H.
        apply errs_lmap. apply N_under. apply H. exact Hv.
  - cbn [de_payload]. destruct (sempty_container s); [exact I|]. unfold raise_at, nospan. cbn. exact Sp.
  - cbn [de_payload]. rewrite Sp. apply N_wrap_none. apply IHt. exact Hs.
  - cbn [de_payload]. destruct s as [sp x|sp xs|sp es].
    + unfold raise_at, nospan. cbn. exact Sp.
    + apply ns_arr in Hs as [-> F].
      destruct (Nat.eqb (length xs) (length ts)); [|reflexivity]. apply errs_lmap. apply N_pos_elems; [exact H|exact F].
    + apply ns_tab in Hs as [-> F]. destruct (N_index_entries es F 0 0%N) as [H1 H2].
      apply errs_lbind; [exact H1|]. intros xs E.
      destruct (Nat.eqb (length xs) (length ts)); [|reflexivity]. apply errs_lmap. apply N_pos_entries; [exact H|apply H2; exact E].
  - cbn [de_payload]. destruct s as [sp x|sp xs|sp es].
    + cbn [span_of] in Sp. subst sp. destruct x; try (apply N_wrap_none; apply (@N_raise sval)). apply (@N_raise sval).
    + apply ns_arr in Hs as [-> F]. apply N_wrap_none. apply errs_lmap. apply N_pos_elems; [exact H|exact F].
    + apply ns_tab in Hs as [-> F]. destruct (first_extra_key (map fst fs) es 0) as [[i e]|] eqn:FE.
      * apply N_wrap_none. apply N_under, N_on_key. unfold raise_at, nospan. cbn.
        assert (G : forall es i0, Forall (fun e => en_kspan e = None /\ ns (en_val e)) es ->
                    first_extra_key (map fst fs) es i0 = Some (i, e) -> en_kspan e = None).
        { clear. induction es as [|e0 es IH]; intros i0 F E; [discriminate|]. inversion F as [|? ? [Hk _] F']; subst.
          cbn [first_extra_key] in E. destruct (mem_bytes (en_key e0) (map fst fs)); [exact (IH _ F' E)|].
          injection E as _ <-. exact Hk. }
        exact (G es 0 F FE).
      * apply N_wrap_none. apply errs_lmap. apply N_struct_from_table; [exact H|exact F].
Qed.

(* ---- the key path without source text ---- *)
Theorem keys_without_text c t s e :
  de_loc c t (despan s) = LErr e ->
  e_span e = None /\ e_keys e = added_keys (e_at e) (e_onkey e).
Proof.
  intro E. split.
  - pose proof (N_de_loc c t (despan s) (ns_despan s)) as H. rewrite E in H. exact H.
  - pose proof (K_de_loc c t (despan s)) as H. rewrite E in H. exact (proj1 H).
Qed.

(* outside the class of the known finding the plumbing produces the ideal key path *)
Lemma added_ideal p o : below_variant p = false -> o = false -> added_keys p o = ideal_keys p.
Proof.
  intros B ->. induction p as [|st p IH]; [reflexivity|]. unfold below_variant in *. cbn [existsb] in B.
  destruct st; cbn [orb] in B; try discriminate; cbn [added_keys ideal_keys].
  - destruct p as [|st' p']; [reflexivity|]. rewrite (IH B). reflexivity.
  - apply IH. exact B.
Qed.
