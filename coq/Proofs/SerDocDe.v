(* Proofs/SerDocDe.v — C07 through text, the deserializer's side: what ValueSerializer wrote reads back as an equal
   value ALSO from a tree that differs from the one written in the two ways a printed-and-parsed document differs:
     - the entries of a table come in another order (key/value lines before [sub-tables]),
     - a NaN has lost its payload (the text is `nan`).
   This is eng-c07's induction (Proofs/SerdeRT.v roundtrip_value) replayed with the relation `tv_equiv` between the tree
   written and the tree read; his container lemmas (Proofs/SerdeRTLists.v) are stated for tables in any order and are
   reused.  Structs and struct variants look their fields up by name; maps are rebuilt entry by entry, which is
   insensitive to the order because no two keys of a typed map value are equal; sequences and tuples are arrays, whose
   order the text keeps. *)
From TV Require Import Base.Prelude Base.Utf8 Model.Datetime Model.DatetimeStd Model.WriteFloat Model.SerNum
  Spec.DatetimeSpec Spec.SerdeData Model.Ser Model.De
  Proofs.SerdeRTBase Proofs.SerdeRTEq Proofs.SerdeRTLeaf Proofs.SerdeRTLists Proofs.SerdeRT Proofs.SerdeRTRoot.
From Coq Require Import Permutation.
Require Import Lia ZifyBool ZifyN ZifyNat.

(* ---- the relation ---------------------------------------------------------------------------------------------- *)
Inductive tv_equiv : tomlval -> tomlval -> Prop :=
| te_str s : tv_equiv (VStr s) (VStr s)
| te_int z : tv_equiv (VInt z) (VInt z)
| te_float a b : f64_eq a b -> tv_equiv (VFloat a) (VFloat b)
| te_bool b : tv_equiv (VBool b) (VBool b)
| te_dt d : tv_equiv (VDatetime d) (VDatetime d)
| te_arr xs ys : Forall2 tv_equiv xs ys -> tv_equiv (VArr xs) (VArr ys)
| te_tab es es' fs : Permutation es es' ->
    Forall2 (fun p q => fst p = fst q /\ tv_equiv (snd p) (snd q)) es' fs -> tv_equiv (VTab es) (VTab fs).

Definition entry_equiv (p q : bytes * tomlval) : Prop := fst p = fst q /\ tv_equiv (snd p) (snd q).

(* ---- lists ------------------------------------------------------------------------------------------------------ *)
Lemma Forall2_perm_r {A B} (R : A -> B -> Prop) l2 l2' : Permutation l2 l2' ->
  forall l1, Forall2 R l1 l2 -> exists l1', Permutation l1 l1' /\ Forall2 R l1' l2'.
Proof.
  induction 1 as [|x l l' _ IH|x y l|l l' l'' _ IH1 _ IH2]; intros l1 F.
  - inversion F; subst. exists []. split; constructor.
  - inversion F as [|a ? l1t ? Ha Ft]; subst. destruct (IH l1t Ft) as (l1' & P & F'). exists (a :: l1'). split; constructor; assumption.
  - inversion F as [|a ? l1t ? Ha Ft]; subst. inversion Ft as [|b ? l1u ? Hb Fu]; subst.
    exists (b :: a :: l1u). split; [apply perm_swap|repeat constructor; assumption].
  - destruct (IH1 l1 F) as (l1' & P1 & F1). destruct (IH2 l1' F1) as (l1'' & P2 & F2).
    exists l1''. split; [eapply Permutation_trans; eassumption|exact F2].
Qed.

Lemma Forall2_flip {A B} (R : A -> B -> Prop) l1 l2 : Forall2 R l1 l2 -> Forall2 (fun b a => R a b) l2 l1.
Proof. induction 1; constructor; assumption. Qed.

Lemma Forall2_perm_l {A B} (R : A -> B -> Prop) l1 l1' : Permutation l1 l1' ->
  forall l2, Forall2 R l1 l2 -> exists l2', Permutation l2 l2' /\ Forall2 R l1' l2'.
Proof.
  intros P l2 F. apply Forall2_flip in F. destruct (Forall2_perm_r _ _ _ P l2 F) as (l2' & P' & F').
  exists l2'. split; [exact P'|]. apply Forall2_flip in F'. exact F'.
Qed.

Lemma Forall2_compose {A B C} (R1 : A -> B -> Prop) (R2 : B -> C -> Prop) (R3 : A -> C -> Prop) l1 l2 l3 :
  (forall a b c, R1 a b -> R2 b c -> R3 a c) -> Forall2 R1 l1 l2 -> Forall2 R2 l2 l3 -> Forall2 R3 l1 l3.
Proof.
  intros H F1. revert l3. induction F1; intros l3 F2; inversion F2; subst; constructor; eauto.
Qed.

Lemma Forall2_fst_eq {A B C} (R : A * B -> A * C -> Prop) l1 l2 :
  (forall p q, R p q -> fst p = fst q) -> Forall2 R l1 l2 -> map fst l1 = map fst l2.
Proof. intros H F. induction F; simpl; [reflexivity|]. rewrite (H _ _ H0), IHF. reflexivity. Qed.

Lemma Forall3_and {A B C} (R1 R2 : A -> B -> C -> Prop) la lb lc :
  Forall3 R1 la lb lc -> Forall3 R2 la lb lc -> Forall3 (fun a b c => R1 a b c /\ R2 a b c) la lb lc.
Proof. intro F1. induction F1; intro F2; inversion F2; subst; constructor; auto. Qed.

Lemma Forall3_Forall_l {A B C} (P : A -> Prop) (R : A -> B -> C -> Prop) la lb lc :
  Forall P la -> Forall3 R la lb lc -> Forall3 (fun a b c => R a b c /\ P a) la lb lc.
Proof. intros FP F. induction F; inversion FP; subst; constructor; auto. Qed.

(* ---- floats ----------------------------------------------------------------------------------------------------- *)
Lemma f64_eq_trans a b c : f64_eq a b -> f64_eq b c -> f64_eq a c.
Proof.
  intros [->|[H1 H2]] [->|[H3 H4]]; try (left; reflexivity); right; split; assumption.
Qed.

Ltac Zify.zify_post_hook ::= Z.div_mod_to_equations.
(* `v as f32` of any NaN is a NaN *)
Lemma narrow32_nan c : is_nan64 c = true -> is_nan32 (narrow32 c) = true.
Proof.
  unfold is_nan64. intro H. apply andb_true_iff in H as [He Hm]. apply N.eqb_eq in He. apply negb_true_iff in Hm.
  unfold narrow32. rewrite He. unfold narrow_mag. rewrite N.eqb_refl, Hm.
  set (s := ((c / 2 ^ 63) mod 2)%N). set (x := (((c mod 2 ^ 52) / 2 ^ 29) mod 2 ^ 22)%N).
  assert (Hs : (s < 2)%N) by (unfold s; apply N.mod_lt; discriminate).
  assert (Hx : (x < 4194304)%N) by (unfold x; change (2 ^ 22)%N with 4194304%N; apply N.mod_lt; discriminate).
  clearbody s x. unfold is_nan32.
  change (2 ^ 31)%N with 2147483648%N. change (2 ^ 23)%N with 8388608%N. change (2 ^ 22)%N with 4194304%N. change (2 ^ 8)%N with 256%N.
  apply andb_true_iff. split; [apply N.eqb_eq|apply negb_true_iff, N.eqb_neq]; lia.
Qed.
Ltac Zify.zify_post_hook ::= idtac.

(* ---- tables: lookups agree up to the relation --------------------------------------------------------------------- *)
Lemma tab_get_Some_In k x es : tab_get k es = Some x -> In (k, x) es.
Proof.
  induction es as [|[k' y] es IH]; simpl; intro G; [discriminate|].
  destruct (bytes_eqb k' k) eqn:E; [apply bytes_eqb_eq in E; subst; injection G as ->; left; reflexivity|].
  right. apply IH, G.
Qed.
Lemma tab_get_None_notin k es : tab_get k es = None -> ~ In k (map fst es).
Proof.
  induction es as [|[k' y] es IH]; simpl; intros G Hin; [contradiction|].
  destruct (bytes_eqb k' k) eqn:E; [discriminate|]. destruct Hin as [->|Hin]; [rewrite bytes_eqb_refl in E; discriminate|].
  apply (IH G Hin).
Qed.

Lemma tab_equiv_inv es y : tv_equiv (VTab es) y ->
  exists es' fs, y = VTab fs /\ Permutation es es' /\ Forall2 entry_equiv es' fs.
Proof. intro H. inversion H; subst. eauto. Qed.

Lemma equiv_keys es' fs : Forall2 entry_equiv es' fs -> map fst es' = map fst fs.
Proof. apply Forall2_fst_eq. intros p q [H _]. exact H. Qed.

Lemma tab_equiv_get es es' fs : Permutation es es' -> Forall2 entry_equiv es' fs -> NoDup (map fst es) ->
  NoDup (map fst fs) /\ Permutation (map fst es) (map fst fs) /\
  forall k, match tab_get k es with
            | Some x => exists y, tab_get k fs = Some y /\ tv_equiv x y
            | None => tab_get k fs = None
            end.
Proof.
  intros P F Hnd. pose proof (equiv_keys _ _ F) as Ek.
  assert (Pk : Permutation (map fst es) (map fst fs)) by (rewrite <- Ek; apply Permutation_map, P).
  assert (Hnd' : NoDup (map fst fs)) by (apply (Permutation_NoDup Pk Hnd)).
  split; [exact Hnd'|]. split; [exact Pk|]. intro k. destruct (tab_get k es) as [x|] eqn:G.
  - apply tab_get_Some_In in G. apply (Permutation_in _ P) in G.
    destruct (Forall2_In_l _ _ _ _ F G) as ([k' y] & Hin & Hk & He). simpl in Hk, He. subst k'.
    exists y. split; [apply tab_get_In; assumption|exact He].
  - apply tab_get_None_notin in G. apply tab_get_notin. intro Hin. apply G.
    apply (Permutation_in _ (Permutation_sym Pk)), Hin.
Qed.

(* ---- the statement proved by induction on the type ------------------------------------------------------------------- *)
Definition RTE (t : ty) : Prop :=
  forall v x y, has_type_b t v = true -> ser_value t v = Ok x -> tv_equiv x y ->
                exists v', de_value t y = Ok v' /\ sval_eq v v'.
Definition RTEV (var : variant) : Prop :=
  forall p x y, has_type_variant_b var p = true -> ser_payload var p = Ok x -> tv_equiv x y ->
                exists p', de_payload var y = Ok p' /\ sval_eq p p'.

(* where the tree read is the tree written *)
Lemma rte_same t : (forall v x y, has_type_b t v = true -> ser_value t v = Ok x -> tv_equiv x y -> y = x) -> RTE t.
Proof. intros H v x y Hty Hser He. rewrite (H v x y Hty Hser He). apply (roundtrip_value t v x Hty Hser). Qed.

(* ---- sequences, tuples ---- *)
Lemma rte_list t : RTE t -> forall vs xs ys,
  forallb (has_type_b t) vs = true -> mapM (ser_value t) vs = Ok xs -> Forall2 tv_equiv xs ys ->
  exists vs', mapM (de_value t) ys = Ok vs' /\ Forall2 sval_eq vs vs'.
Proof.
  intros IH. induction vs as [|v vs IHvs]; intros xs ys Hty H F; simpl in *.
  - injection H as <-. inversion F; subst. exists []. split; [reflexivity|constructor].
  - apply andb_true_iff in Hty as [Hv Hvs].
    apply rbind_ok in H as (x & Hx & H). apply rbind_ok in H as (xs' & Hxs & H). injection H as <-.
    inversion F as [|? y ? ys' Hy Fys]; subst.
    destruct (IH v x y Hv Hx Hy) as (v' & Dv & Ev). destruct (IHvs xs' ys' Hvs Hxs Fys) as (vs' & Dvs & Evs).
    exists (v' :: vs'). simpl. rewrite Dv, Dvs. simpl. split; [reflexivity|constructor; assumption].
Qed.

Lemma rte_tuple ts : Forall RTE ts -> forall vs xs ys,
  all2b has_type_b ts vs = true -> zipM ser_value ts vs = Ok xs -> Forall2 tv_equiv xs ys ->
  length ys = length ts /\
  exists vs', de_pos de_value (fun t' => t') ts ys = Ok (vs', []) /\ Forall2 sval_eq vs vs'.
Proof.
  induction 1 as [|t ts IHt _ IH]; intros [|v vs] xs ys Hty H F; simpl in *; try discriminate.
  - injection H as <-. inversion F; subst. split; [reflexivity|]. exists []. split; [reflexivity|constructor].
  - apply andb_true_iff in Hty as [Hv Hvs].
    apply rbind_ok in H as (x & Hx & H). apply rbind_ok in H as (xs' & Hxs & H). injection H as <-.
    inversion F as [|? y ? ys' Hy Fys]; subst.
    destruct (IHt v x y Hv Hx Hy) as (v' & Dv & Ev). destruct (IH vs xs' ys' Hvs Hxs Fys) as (Hl & vs' & Dvs & Evs).
    split; [simpl; congruence|].
    exists (v' :: vs'). simpl. rewrite Dv. simpl. rewrite Dvs. simpl. split; [reflexivity|constructor; assumption].
Qed.

(* ---- struct fields ---- *)
(* what the field loop wrote, with the serializer's side kept *)
Definition field_ser (ft : bytes * ty) (v : sval) (p : option (bytes * tomlval)) : Prop :=
  match p with
  | None => v = SNone /\ is_opt (snd ft) = true
  | Some (k, x) => k = fst ft /\ has_type_b (snd ft) v = true /\ ser_value (snd ft) v = Ok x
  end.

Lemma ser_fields_info fs : forall vs ps,
  all2b (fun ft v' => has_type_b (snd ft) v') fs vs = true -> ser_fields fs vs = Ok ps ->
  Forall3 field_ser fs vs ps.
Proof.
  unfold ser_fields.
  induction fs as [|[f t] fs IH]; intros [|v vs] ps Hty H; simpl in *; try discriminate.
  - injection H as <-. constructor.
  - apply andb_true_iff in Hty as [Hv Hvs].
    apply rbind_ok in H as (p & Hp & H). apply rbind_ok in H as (ps' & Hps & H). injection H as <-.
    constructor; [|apply IH; assumption].
    apply rmap_ok in Hp as (ox & Hox & ->).
    destruct (ser_map_value_cases ser_value t v) as [(t' & -> & -> & E)|[_ E]]; rewrite E in Hox.
    + injection Hox as <-. simpl. auto.
    + apply rmap_ok in Hox as (x & Hx & ->). simpl. auto.
Qed.

Lemma de_fields_equiv es es' :
  (forall k, match tab_get k es with
             | Some x => exists y, tab_get k es' = Some y /\ tv_equiv x y
             | None => tab_get k es' = None
             end) ->
  forall fs vs ps seen,
  Forall3 (fun ft v p => (field_ser ft v p /\ tab_get (fst ft) es = optmap snd p) /\ RTE (snd ft)) fs vs ps ->
  NoDup (map fst fs) -> (forall f, In f seen -> ~ In f (map fst fs)) ->
  exists vs', de_fields_map de_value es' seen fs = Ok vs' /\ Forall2 sval_eq vs vs'.
Proof.
  intros Hget fs vs ps seen F. revert seen.
  induction F as [|[f t] v p fs vs ps [[Hser Hg] IHt] _ IH]; intros seen Hnd Hseen; simpl.
  - exists []. split; [reflexivity|constructor].
  - inversion Hnd as [|? ? Hnot Hnd']; subst. simpl in Hg, IHt.
    assert (Hmem : mem_bytes f seen = false).
    { apply mem_bytes_false. intro Hin. apply (Hseen f Hin). left; reflexivity. }
    rewrite Hmem.
    destruct (IH (f :: seen) Hnd') as (vs' & Dvs & Evs).
    { intros g [<-|Hin] Hgin; [apply Hnot; exact Hgin|]. apply (Hseen g Hin). right; exact Hgin. }
    specialize (Hget f). rewrite Hg in Hget.
    destruct p as [[k x]|]; simpl in Hser, Hget.
    + destruct Hser as (_ & Hty & Hx). destruct Hget as (y & Gy & He). rewrite Gy.
      destruct (IHt v x y Hty Hx He) as (v' & Dv & Ev). rewrite Dv. simpl. rewrite Dvs. simpl.
      exists (v' :: vs'). split; [reflexivity|constructor; assumption].
    + destruct Hser as (-> & Hopt). rewrite Hget. destruct t; try discriminate. simpl. rewrite Dvs. simpl.
      exists (SNone :: vs'). split; [reflexivity|constructor; [constructor|assumption]].
Qed.

Lemma rte_struct_fields fs : Forall (fun ft => RTE (snd ft)) fs -> forall vs ps y,
  nodup_bytes (map fst fs) = true ->
  all2b (fun ft v' => has_type_b (snd ft) v') fs vs = true -> ser_fields fs vs = Ok ps ->
  tv_equiv (table_of ps) y ->
  exists es', y = VTab es' /\ struct_keys_ok (map fst fs) es' = true /\
              exists vs', de_struct_map de_value fs es' = Ok vs' /\ Forall2 sval_eq vs vs'.
Proof.
  intros IH vs ps y Hnd Hty H He. apply nodup_bytes_NoDup in Hnd.
  assert (IH0 : Forall (fun ft : bytes * ty => RT (snd ft)) fs) by (apply Forall_forall; intros ft _; apply roundtrip_value).
  pose proof (rt_fields fs IH0 vs ps Hty H) as F.
  destruct (rt_struct_insertion de_value fs vs ps F Hnd) as (E1 & Ekeys & _).
  pose proof (fields_somes_nodup de_value _ _ _ F Hnd) as Hes.
  unfold table_of, somes_pairs in He. rewrite E1 in He.
  destruct (tab_equiv_inv _ _ He) as (es1 & es' & -> & P & F2).
  destruct (tab_equiv_get _ _ _ P F2 Hes) as (Hnd' & Pk & Hget).
  exists es'. split; [reflexivity|]. split.
  - unfold struct_keys_ok in *. rewrite forallb_forall in *. intros [k y] Hin. simpl.
    assert (Hk : In k (map fst (somes ps))).
    { apply (Permutation_in _ (Permutation_sym Pk)). apply (in_map fst _ _ Hin). }
    apply in_map_iff in Hk as ([k' x] & Hk' & Hin'). simpl in Hk'. subst k'. apply (Ekeys _ Hin').
  - unfold de_struct_map. rewrite dup_field_hit_nodup by exact Hnd'.
    pose proof (fields_lookup de_value (somes ps) fs vs ps F Hnd Hes) as L.
    assert (L' : Forall3 (fun ft v p => field_rt de_value ft v p /\ tab_get (fst ft) (somes ps) = optmap snd p) fs vs ps).
    { apply L; [intros kx Hin; apply somes_In; exact Hin|intros k x Hin _; apply somes_In; exact Hin]. }
    pose proof (ser_fields_info fs vs ps Hty H) as S.
    apply (de_fields_equiv (somes ps) es' Hget fs vs ps []); [|exact Hnd|intros f []].
    apply Forall3_Forall_l; [exact IH|].
    eapply Forall3_impl; [|apply (Forall3_and _ _ _ _ _ S L')].
    intros a b c _ [H1 [_ H2]]. split; assumption.
Qed.

(* ---- maps ---- *)
Lemma ser_entries_info kt vt : is_opt vt = false -> forall es ps,
  forallb (fun kv => has_type_b kt (fst kv) && has_type_b vt (snd kv)) es = true ->
  ser_entries kt vt es = Ok ps ->
  exists xs, ps = map Some xs /\
    Forall2 (fun kv kx => key_text kt (fst kv) = Some (fst kx) /\ de_key kt (fst kx) = Ok (fst kv) /\ sval_eq (fst kv) (fst kv) /\
                          has_type_b vt (snd kv) = true /\ ser_value vt (snd kv) = Ok (snd kx)) es xs.
Proof.
  intros Hno. unfold ser_entries.
  induction es as [|[k v] es IH]; intros ps Hty H; simpl in *.
  - injection H as <-. exists []. split; [reflexivity|constructor].
  - apply andb_true_iff in Hty as [Hkv Hes]. apply andb_true_iff in Hkv as [Hk Hv].
    apply rbind_ok in H as (p & Hp & H). apply rbind_ok in H as (ps' & Hps & H). injection H as <-.
    apply rbind_ok in Hp as (s & Hs & Hp). apply rmap_ok in Hp as (ox & Hox & ->).
    destruct (key_roundtrip kt k s Hk Hs) as (K1 & K2 & K3).
    destruct (ser_map_value_cases ser_value vt v) as [(t' & -> & _)|[_ E]]; [discriminate|]. rewrite E in Hox.
    apply rmap_ok in Hox as (x & Hx & ->).
    destruct (IH ps' Hes Hps) as (xs & -> & F).
    exists ((s, x) :: xs). split; [reflexivity|]. constructor; [|exact F]. simpl. auto.
Qed.

Lemma rte_map kt vt : RTE vt -> RTE (TMap kt vt).
Proof.
  intros IHv v x y Hty H He. destruct v; try (simpl in Hty; discriminate).
  rewrite ht_map in Hty. apply andb_true_iff in Hty as [Hty Hnd]. apply andb_true_iff in Hty as [Hno Hes].
  apply negb_true_iff in Hno. apply nodup_bytes_NoDup in Hnd.
  rewrite sv_map in H. apply rmap_ok in H as (ps & Hps & ->).
  destruct (ser_entries_info kt vt Hno es ps Hes Hps) as (xs & -> & F).
  assert (Hk : somes (map (fun kv => key_text kt (fst kv)) es) = map fst xs).
  { apply (entries_keys kt es xs (fun kv kx => de_key kt (fst kx) = Ok (fst kv) /\ sval_eq (fst kv) (fst kv) /\
                                    has_type_b vt (snd kv) = true /\ ser_value vt (snd kv) = Ok (snd kx))). exact F. }
  rewrite Hk in Hnd.
  unfold table_of, somes_pairs in He. rewrite somes_map_Some, (tab_of_pairs_nodup xs Hnd) in He.
  destruct (tab_equiv_inv _ _ He) as (xs' & ys & -> & P & F2).
  destruct (tab_equiv_get _ _ _ P F2 Hnd) as (Hnd' & _ & _).
  (* the entries of the value, in the order of the table read *)
  destruct (Forall2_perm_r _ _ _ P es F) as (es1 & Pe & F1).
  assert (F3 : Forall2 (fun kv q => key_text kt (fst kv) = Some (fst q) /\ de_key kt (fst q) = Ok (fst kv) /\ sval_eq (fst kv) (fst kv) /\
                                    exists v', de_value vt (snd q) = Ok v' /\ sval_eq (snd kv) v') es1 ys).
  { eapply Forall2_compose; [|exact F1|exact F2].
    intros kv kx q (K1 & K2 & K3 & Hv & Hx) [Hf Hq]. rewrite <- Hf. repeat split; try assumption.
    apply (IHv (snd kv) (snd kx) (snd q) Hv Hx Hq). }
  rewrite dv_map.
  assert (D : exists es2, de_entries kt vt ys = Ok es2 /\
                Forall2 (fun p q => fst p = fst q /\ sval_eq (fst p) (fst q) /\ sval_eq (snd p) (snd q)) es1 es2).
  { clear - F3. unfold de_entries. induction F3 as [|[k v] [s y] es xs (K1 & K2 & K3 & v' & Dv & Ev) _ IH]; simpl.
    - exists []. split; [reflexivity|constructor].
    - destruct IH as (es' & D & E). simpl in *. rewrite K2. simpl. rewrite Dv. simpl. rewrite D. simpl.
      exists ((k, v') :: es'). split; [reflexivity|]. constructor; [simpl; auto|exact E]. }
  destruct D as (es2 & D & E). rewrite D. simpl.
  assert (Hdist : ForallOrdPairs (fun p q => sval_beq (fst p) (fst q) = false) es2).
  { clear D.
    assert (Ht : Forall2 (fun q kx => key_text kt (fst q) = Some (fst kx)) es2 ys).
    { clear - F3 E. revert es2 E. induction F3 as [|kv kx es xs (K1 & _) _ IH]; intros es2 E; inversion E; subst; constructor.
      - destruct H1 as (<- & _). exact K1.
      - apply IH. assumption. }
    clear - Ht Hnd'. revert Hnd'. induction Ht as [|q kx es' xs Hq Ht IH]; intro Hnd; [constructor|].
    simpl in Hnd. inversion Hnd as [|? ? Hnot Hnd']; subst. constructor; [|apply IH; exact Hnd'].
    clear IH. rewrite Forall_forall. intros q' Hin.
    destruct (Forall2_In_l _ _ _ _ Ht Hin) as (kx' & Hin' & Hq').
    eapply key_text_distinct; [exact Hq|exact Hq'|]. intro Heq. apply Hnot. rewrite Heq. apply in_map. exact Hin'. }
  rewrite (smap_of_pairs_distinct es2 Hdist).
  exists (SMap es2). split; [reflexivity|].
  destruct (Forall2_perm_l _ _ _ (Permutation_sym Pe) es2 E) as (es3 & P3 & E3).
  apply (eq_map es es2 es3 P3).
  clear - E3. induction E3 as [|p q es es' (_ & H1 & H2) _ IH]; constructor; auto.
Qed.

(* ---- the induction ---- *)
Lemma equiv_str s y : tv_equiv (VStr s) y -> y = VStr s. Proof. intro H; inversion H; reflexivity. Qed.
Lemma equiv_int z y : tv_equiv (VInt z) y -> y = VInt z. Proof. intro H; inversion H; reflexivity. Qed.
Lemma equiv_bool b y : tv_equiv (VBool b) y -> y = VBool b. Proof. intro H; inversion H; reflexivity. Qed.
Lemma equiv_dt d y : tv_equiv (VDatetime d) y -> y = VDatetime d. Proof. intro H; inversion H; reflexivity. Qed.
Lemma equiv_arr xs y : tv_equiv (VArr xs) y -> exists ys, y = VArr ys /\ Forall2 tv_equiv xs ys.
Proof. intro H; inversion H; subst; eauto. Qed.
Lemma equiv_one k x y : tv_equiv (VTab [(k, x)]) y -> exists x', y = VTab [(k, x')] /\ tv_equiv x x'.
Proof.
  intro H. destruct (tab_equiv_inv _ _ H) as (es' & fs & -> & P & F).
  apply Permutation_length_1_inv in P. subst es'.
  inversion F as [|? [k' x'] ? ? [Hk He] Ft]; subst. inversion Ft; subst. simpl in Hk, He. subst k'. eauto.
Qed.

Lemma rte_float w : RTE (TFloat w).
Proof.
  intros v x y Hty Hser He.
  destruct w; destruct v; cbn [ser_value] in Hser; try discriminate; injection Hser as <-; cbn [has_type_b] in Hty;
    inversion He as [| |a b' Hab| | | |]; subst; cbn [de_value]; (eexists; split; [reflexivity|]); constructor.
  - (* f32 *) apply N.ltb_lt in Hty. pose proof (f32_roundtrip bits Hty) as R.
    destruct Hab as [<-|[Hn1 Hn2]]; [exact R|].
    right. split; [|apply narrow32_nan, Hn2].
    destruct (is_nan64 (widen32 bits)) eqn:En; [rewrite widen32_is_nan in En; exact En|].
    rewrite (canon_nan_not_nan _ En) in Hn1. congruence.
  - (* f64 *) eapply f64_eq_trans; [apply f64_roundtrip|exact Hab].
Qed.

Theorem roundtrip_equiv : forall t, RTE t.
Proof.
  induction t using ty_ind2 with (Q := RTEV); unfold RTEV in *.
  - (* TBool *) apply rte_same. intros v x y _ Hser He. destruct v; simpl in Hser; try discriminate. injection Hser as <-.
    apply equiv_bool, He.
  - (* TInt *) apply rte_same. intros v x y Hty Hser He. destruct v; simpl in Hser; try discriminate. simpl in Hty.
    destruct (ser_int_value_ok w z x Hty Hser) as (-> & _). apply equiv_int, He.
  - (* TFloat *) apply rte_float.
  - (* TChar *) apply rte_same. intros v x y _ Hser He. destruct v; simpl in Hser; try discriminate. injection Hser as <-.
    apply equiv_str, He.
  - (* TStr *) apply rte_same. intros v x y _ Hser He. destruct v; simpl in Hser; try discriminate. injection Hser as <-.
    apply equiv_str, He.
  - (* TDatetime *) apply rte_same. intros v x y Hty Hser He. destruct v; simpl in Hser; try discriminate. simpl in Hty.
    apply andb_true_iff in Hty as [Hr _]. rewrite (ser_datetime_ok d x Hr Hser) in *. apply equiv_dt, He.
  - (* TUnit *) intros v x y Hty Hser. destruct v; simpl in Hser; discriminate.
  - (* TUnitStruct *) intros v x y Hty Hser. destruct v; simpl in Hser; discriminate.
  - (* TOpt *) intros v x y Hty Hser He. destruct v; try (simpl in Hser; discriminate).
    rewrite sv_opt_some in Hser. rewrite ht_opt_some in Hty. destruct (IHt v x y Hty Hser He) as (v' & D & E).
    rewrite dv_opt, D. eexists; split; [reflexivity|constructor; exact E].
  - (* TSeq *) intros v x y Hty Hser He. destruct v; try (simpl in Hser; discriminate).
    rewrite sv_seq in Hser. rewrite ht_seq in Hty. apply rmap_ok in Hser as (xs & Hxs & ->).
    destruct (equiv_arr _ _ He) as (ys & -> & Fy).
    destruct (rte_list t IHt vs xs ys Hty Hxs Fy) as (vs' & D & E).
    rewrite dv_seq, D. eexists; split; [reflexivity|constructor; exact E].
  - (* TTuple *) intros v x y Hty Hser He. destruct v; try (simpl in Hser; discriminate).
    rewrite sv_tuple in Hser. rewrite ht_tuple in Hty. apply rmap_ok in Hser as (xs & Hxs & ->).
    destruct (equiv_arr _ _ He) as (ys & -> & Fy).
    destruct (rte_tuple ts H vs xs ys Hty Hxs Fy) as (_ & vs' & D & E).
    rewrite dv_tuple, D. eexists; split; [reflexivity|constructor; exact E].
  - (* TMap *) apply rte_map. exact IHt2.
  - (* TStruct *) intros v x y Hty Hser He. destruct v; try (simpl in Hser; discriminate).
    rewrite ht_struct in Hty. apply andb_true_iff in Hty as [Hty Hvs]. apply andb_true_iff in Hty as [Hpriv Hnd].
    apply negb_true_iff in Hpriv. rewrite sv_struct, (private_not_dt n Hpriv) in Hser.
    apply rmap_ok in Hser as (ps & Hps & ->).
    destruct (rte_struct_fields fs H vs ps y Hnd Hvs Hps He) as (es & -> & _ & vs' & D & E).
    rewrite dv_struct, Hpriv, D. eexists; split; [reflexivity|constructor; exact E].
  - (* TNewtype *) intros v x y Hty Hser He. destruct v; try (simpl in Hser; discriminate).
    rewrite sv_newtype in Hser. rewrite ht_newtype in Hty. destruct (IHt v x y Hty Hser He) as (v' & D & E).
    rewrite dv_newtype, D. eexists; split; [reflexivity|constructor; exact E].
  - (* TTupleStruct *) intros v x y Hty Hser He. destruct v; try (simpl in Hser; discriminate).
    rewrite sv_tuple_struct in Hser. rewrite ht_tuple_struct in Hty. apply rmap_ok in Hser as (xs & Hxs & ->).
    destruct (equiv_arr _ _ He) as (ys & -> & Fy).
    destruct (rte_tuple ts H vs xs ys Hty Hxs Fy) as (_ & vs' & D & E).
    rewrite dv_tuple_struct, D. eexists; split; [reflexivity|constructor; exact E].
  - (* TEnum *) intros v x y Hty Hser He. destruct v as [| | | | | | | | | | | | | |i p]; try (simpl in Hser; discriminate).
    rewrite ht_enum in Hty. apply andb_true_iff in Hty as [Hnd Hp]. apply nodup_bytes_NoDup in Hnd.
    rewrite sv_enum in Hser.
    destruct (pick_cases (ser_variant p) (Err EBadCase) vs i) as [([vn var] & Hn & E)|[_ E]]; rewrite E in Hser; [|discriminate].
    rewrite (pick_nth _ _ _ _ _ Hn) in Hp. simpl in Hp.
    assert (HQ : forall q x0 y0, has_type_variant_b var q = true -> ser_payload var q = Ok x0 -> tv_equiv x0 y0 ->
                                 exists q', de_payload var y0 = Ok q' /\ sval_eq q q').
    { rewrite Forall_forall in H. apply (H (vn, var)). eapply nth_error_In; exact Hn. }
    unfold ser_variant in Hser. simpl in Hser.
    destruct var as [|tv|tsv|fsv].
    + apply htv_unit in Hp. subst p. injection Hser as <-. apply equiv_str in He. subst y.
      rewrite dv_enum_str, (find_name_nth _ _ _ _ _ _ _ Hnd Hn). simpl.
      eexists; split; [reflexivity|constructor; constructor].
    + apply rmap_ok in Hser as (x0 & Hx0 & ->). destruct (equiv_one _ _ _ He) as (y0 & -> & He0).
      destruct (HQ p x0 y0 Hp Hx0 He0) as (p' & D & Ep).
      rewrite dv_enum_tab, (find_name_nth _ _ _ _ _ _ _ Hnd Hn). rewrite D. simpl.
      eexists; split; [reflexivity|constructor; exact Ep].
    + apply rmap_ok in Hser as (x0 & Hx0 & ->). destruct (equiv_one _ _ _ He) as (y0 & -> & He0).
      destruct (HQ p x0 y0 Hp Hx0 He0) as (p' & D & Ep).
      rewrite dv_enum_tab, (find_name_nth _ _ _ _ _ _ _ Hnd Hn). rewrite D. simpl.
      eexists; split; [reflexivity|constructor; exact Ep].
    + apply rmap_ok in Hser as (x0 & Hx0 & ->). destruct (equiv_one _ _ _ He) as (y0 & -> & He0).
      destruct (HQ p x0 y0 Hp Hx0 He0) as (p' & D & Ep).
      rewrite dv_enum_tab, (find_name_nth _ _ _ _ _ _ _ Hnd Hn). rewrite D. simpl.
      eexists; split; [reflexivity|constructor; exact Ep].
  - (* VUnit *) intros p x y Hty Hser. simpl in Hser. discriminate.
  - (* VNewtype *) intros p x y Hty Hser He. rewrite sp_newtype in Hser. rewrite htv_newtype in Hty.
    rewrite dp_newtype. apply (IHt p x y Hty Hser He).
  - (* VTuple *) intros p x y Hty Hser He. destruct p; try (simpl in Hty; discriminate).
    rewrite sp_tuple in Hser. rewrite htv_tuple in Hty. apply rmap_ok in Hser as (xs & Hxs & ->).
    destruct (equiv_arr _ _ He) as (ys & -> & Fy).
    destruct (rte_tuple ts H vs xs ys Hty Hxs Fy) as (Hl & vs' & D & E).
    rewrite dp_tuple, Hl, Nat.eqb_refl, D. eexists; split; [reflexivity|constructor; exact E].
  - (* VStruct *) intros p x y Hty Hser He. destruct p; try (simpl in Hty; discriminate).
    rewrite htv_struct in Hty. apply andb_true_iff in Hty as [Hnd Hvs].
    rewrite sp_struct in Hser. apply rmap_ok in Hser as (ps & Hps & ->).
    destruct (rte_struct_fields fs H vs ps y Hnd Hvs Hps He) as (es & -> & Hk & vs' & D & E).
    rewrite dp_struct, Hk, D. eexists; split; [reflexivity|constructor; exact E].
Qed.

(* ---- the document roots of the text routes ---- *)
Theorem edit_root_equiv t v out y : has_type v t -> ser_edit_root t v = Ok out -> tv_equiv out y ->
  exists v', de_value t y = Ok v' /\ sval_eq v v'.
Proof.
  intros Hty H He. apply edit_root_is_table in H as (es & _ & H). apply (roundtrip_equiv t v out y Hty H He).
Qed.

Theorem toml_root_equiv t v out y : has_type v t -> ser_toml_root t v = Ok out -> tv_equiv out y ->
  exists v', de_value t y = Ok v' /\ sval_eq v v'.
Proof.
  intros Hty H He. unfold has_type in Hty.
  assert (Edit : ser_edit_root t v = Ok out -> exists v', de_value t y = Ok v' /\ sval_eq v v')
    by (intro H0; apply (edit_root_equiv _ _ _ _ Hty H0 He)).
  destruct t; try (apply Edit; destruct v; exact H).
  - (* an enum at the root (every other root goes to toml_edit's ValueSerializer, a struct with its name) *)
    destruct v as [| | | | | | | | | | | | | |i p]; try (apply Edit; exact H).
    simpl in H.
    match type of H with pick ?f ?d vs i = _ => destruct (pick_cases f d vs i) as [([vn var] & Hn & E)|[_ E]]; rewrite E in H end;
      [|discriminate].
    simpl in H. destruct var; try discriminate H.
    + apply Edit. exact H.
    + apply Edit. exact H.
    + destruct p; try discriminate H. destruct (zipM ser_value ts vs0); discriminate H.
Qed.
