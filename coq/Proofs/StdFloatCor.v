(* Proofs/StdFloatCor.v — C06 and C07 restated over the ONE std-float hypothesis of Proofs/StdFloat.v (`std_float shortest
   back`: C11's `std_roundtrip_hyp` on the text std prints, plus the infinities and what the parser makes of zero /
   inf / nan): a float leaf is `fd_std shortest b` for the f64 pattern b the program put in (Value::from(f64) /
   serialize_f64), its printed text is `write_f64 b (shortest b)` (Model/WriteFloat.v, the repository's writer on
   std's text). *)
From TV Require Import Base.Prelude Base.Utf8 Base.Winnow Gen.Consts.
From TV Require Import Model.Datetime Spec.DatetimeSpec Model.Numbers Model.Tree Model.Parse Model.Document Model.Write Model.WriteFloat Model.Encode Model.Build.
From TV Require Import Proofs.BuiltRTEncode Proofs.BuiltRTValue Proofs.BuiltRTLeaf Proofs.BuiltRTTop Proofs.BuiltRTDocEncode Proofs.BuiltRTDoc.
From TV Require Import Spec.SerdeData Model.Ser Model.De Model.SerFmt Model.SerDoc.
From TV Require Import Proofs.NumbersRT_Float Proofs.SerDocDe Proofs.SerDocTop Proofs.StdFloat.

Section Cor.
  Variable shortest : N -> bytes.
  Variable back : fval -> N.
  Hypothesis H : std_float shortest back.

  (* the leaves a program can put into a tree: a float is an f64 *)
  Definition scalar_ok_std (s : Tree.scalar) : Prop :=
    match s with
    | SFloat f => exists b, (b < 2 ^ 64)%N /\ f = fd_std shortest b
    | _ => scalar_ok s
    end.

  Lemma scalar_ok_of_std s : scalar_ok_std s -> scalar_ok s.
  Proof.
    destruct s; try (intro Hs; exact Hs). intros (b & Hb & ->). cbn [scalar_ok].
    apply (fd_std_leaf shortest back H b Hb).
  Qed.

  (* C06_value *)
  Theorem value_roundtrip_std v :
    BuiltValue scalar_ok_std key_ok v -> value_depth v < LIMIT -> top_plain v ->
    exists v', parse_value_raw (display_value (render_value float_text v)) = POk v' /\ abs_value v' = abs_value v.
  Proof.
    intros Hb. apply built_value_roundtrip.
    apply (BuiltValue_mono scalar_ok_std scalar_ok key_ok key_ok scalar_ok_of_std (fun k Hk => Hk) v Hb).
  Qed.

  (* C06_document *)
  Theorem document_roundtrip_std t :
    BuiltTbl scalar_ok_std key_ok t -> tbl_hdepth t < LIMIT -> tbl_vdepth t < LIMIT ->
    exists d, parse_document (display_document (render_tbl float_text t) REmpty) = POk d
              /\ abs_tbl (doc_root d) = printed_entries (abs_tbl t).
  Proof.
    intros (l & im & pos & Hl & Hpos & ->). apply document_roundtrip.
    exists l, im, pos. split; [|auto].
    apply (proj2 (Built_mono scalar_ok_std scalar_ok key_ok key_ok scalar_ok_of_std (fun k Hk => Hk))), Hl.
  Qed.

  (* C07_text_roundtrip *)
  Theorem text_roundtrip_std r t v x :
    has_type v t -> utf8_ty t = true -> utf8_sv v = true ->
    ser_text r t v = SerdeData.Ok x -> tv_depth x <= LIMIT ->
    exists T d v',
      ser_doc (fd_std shortest) r t v = Some T
      /\ parse_document (display_document (render_tbl float_text T) REmpty) = POk d
      /\ de_doc back t (abs_tbl (doc_root d)) = SerdeData.Ok v' /\ sval_eq v v'.
  Proof. apply text_roundtrip_main. apply (float_oracle_from_std shortest back H). Qed.
End Cor.
