(* Proofs/CanonicalTop.v — the statements of property C17 about the model of the serializer
   (Model/TomlValue.v), assembled from CanonicalEmit / CanonicalRead / CanonicalOrder. *)
From TV Require Import Base.Prelude Spec.Ordered Model.TomlValue Spec.Canonical.
From TV Require Import Proofs.ContainersOrder Proofs.CanonicalBase Proofs.CanonicalEmit Proofs.CanonicalRead Proofs.CanonicalOrder.
From Coq Require Import Permutation.

(* the printers write the canonical document *)
Lemma canonical_document w ml m : emit_doc w ml m = sections_of ml (w_three w) (w_tn w) m.
Proof.
  destruct w; [apply emit_value_doc_canonical|apply emit_table_doc_canonical|apply emit_struct_doc_canonical].
Qed.

(* ---- values before tables ---- *)

(* any table, written at any path (as the root, as a sub-table, as an array element), by either
   kind of serializer (tn = true: ser_value, tn = false: ser_plain) *)
Lemma table_shape ml tn m t p a :
  fmt_item ml (ser_g tn (TTab m)) = ITbl t ->
  exists rest,
    flat_map visit_table (visit_nested t p a)
    = (if own_visible (kind_of p a) m (own_lines ml tn tn m) then [mkSec p (kind_of p a) (own_lines ml tn tn m)] else []) ++ rest /\
    Forall (fun s => strict_prefix p (s_path s)) rest.
Proof.
  rewrite fmt_item_tab. intro E. injection E as <-. exists (rest_secs ml tn tn m p).
  rewrite (emit_eq_all ml tn tn m p a). apply own_section_first.
Qed.

Lemma values_before_tables_model ml tn m t p a pre s post :
  fmt_item ml (ser_g tn (TTab m)) = ITbl t ->
  flat_map visit_table (visit_nested t p a) = pre ++ s :: post ->
  strict_prefix p (s_path s) ->
  Forall (fun s' => strict_prefix p (s_path s')) post.
Proof.
  rewrite fmt_item_tab. intro E. injection E as <-.
  rewrite (emit_eq_all ml tn tn m p a). apply values_before_tables.
Qed.

Lemma strict_prefix_nil q : strict_prefix [] q <-> q <> [].
Proof.
  split.
  - intros (k & r & ->). discriminate.
  - intro H. destruct q as [|k r]; [congruence|]. exists k, r. reflexivity.
Qed.

(* the whole document: once a header has been written no root key/value line follows *)
Lemma values_before_tables_doc w ml m pre s post :
  emit_doc w ml m = pre ++ s :: post ->
  s_path s <> [] -> Forall (fun s' => s_path s' <> []) post.
Proof.
  intros E Hs. apply strict_prefix_nil in Hs. rewrite canonical_document in E.
  pose proof (values_before_tables ml (w_three w) (w_tn w) m [] KRoot pre s post E Hs) as H.
  eapply Forall_impl; [|exact H]. intros s' H'. apply strict_prefix_nil. exact H'.
Qed.

(* ---- the document decodes to the value, whatever the order of the maps ---- *)

Lemma read_back_emit w ml m :
  wf_tv (TTab m) = true -> read_back (emit_doc w ml m) = Some (canon_root ml (w_three w) (w_tn w) m).
Proof. intro W. rewrite canonical_document. apply read_back_canonical. exact W. Qed.

Lemma any_order_decodes w ml m :
  wf_tv (TTab m) = true ->
  exists r, read_back (emit_doc w ml m) = Some r /\ tv_equiv (TTab r) (TTab m) /\ wf_tv (TTab r) = true.
Proof.
  intro W. exists (canon_root ml (w_three w) (w_tn w) m). split; [apply read_back_emit; exact W|]. split.
  - unfold tv_equiv. apply canon_root_equiv. exact W.
  - apply wf_canon_root. exact W.
Qed.

(* two values that differ only in the order of map entries decode to values that differ only so *)
Lemma any_order_same_value w w' ml ml' m m' :
  wf_tv (TTab m) = true -> wf_tv (TTab m') = true -> tv_equiv (TTab m) (TTab m') ->
  exists r r', read_back (emit_doc w ml m) = Some r /\ read_back (emit_doc w' ml' m') = Some r' /\
               tv_equiv (TTab r) (TTab r').
Proof.
  intros W W' E. destruct (any_order_decodes w ml m W) as (r & Hr & Er & _).
  destruct (any_order_decodes w' ml' m' W') as (r' & Hr' & Er' & _).
  exists r, r'. repeat split; try assumption. unfold tv_equiv in *. congruence.
Qed.

(* reordering the entries of the root map is such a difference (and so is reordering any nested map,
   because sort_tv sorts every level) *)
Lemma permutation_equiv m m' :
  NoDup (map fst m) -> Permutation m m' -> tv_equiv (TTab m) (TTab m').
Proof.
  intros ND P. unfold tv_equiv. rewrite !sort_tv_tab. f_equal. apply sort_entries_perm.
  - apply Permutation_map. exact P.
  - rewrite map_fst_map. exact ND.
Qed.

(* under BTreeMap the decoded value is the sorted value: exactly v when v is a BTreeMap-backed value *)
Lemma decode_sorted w ml m :
  wf_tv (TTab m) = true ->
  exists r, decode OSorted (emit_doc w ml m) = Some r /\ TTab r = sort_tv (TTab m).
Proof.
  intro W. unfold decode. rewrite (read_back_emit w ml m W).
  pose proof (canon_root_equiv ml (w_three w) (w_tn w) m W) as E.
  rewrite (sort_tv_tab (canon_root ml (w_three w) (w_tn w) m)) in E.
  rewrite (sort_tv_tab (canon_root ml (w_three w) (w_tn w) m)).
  eexists. split; [reflexivity|]. exact E.
Qed.

Lemma decode_sorted_exact w ml m :
  wf_tv (TTab m) = true -> sorted_tv (TTab m) -> decode OSorted (emit_doc w ml m) = Some m.
Proof.
  intros W S. destruct (decode_sorted w ml m W) as (r & Hr & Er). rewrite Hr. unfold sorted_tv in S.
  rewrite S in Er. injection Er as ->. reflexivity.
Qed.

(* ---- one-step fixed point ---- *)

(* for the serializers of toml::Value and toml::Table (w_tn w = true) *)
Lemma fixpoint w o ml ml' m :
  w_tn w = true -> wf_tv (TTab m) = true -> order_inv o m ->
  exists r, decode o (emit_doc w ml m) = Some r /\ emit_doc w ml' r = emit_doc w ml' m.
Proof.
  intros Tn W I. destruct o.
  - exists m. split; [apply decode_sorted_exact; assumption|reflexivity].
  - exists (canon_root ml (w_three w) (w_tn w) m). split.
    + unfold decode. rewrite (read_back_emit w ml m W). reflexivity.
    + rewrite !canonical_document. rewrite Tn. apply fixpoint_canonical.
Qed.

(* sorting: well-formedness and idempotence *)
Lemma wf_sort v : wf_tv v = true -> wf_tv (sort_tv v) = true.
Proof.
  induction v as [t|l IH|m IH] using tv_ind'; intro W.
  - reflexivity.
  - cbn [sort_tv wf_tv]. rewrite forallb_map. apply forallb_forall. intros e He.
    rewrite Forall_forall in IH. apply IH; [exact He|]. apply wf_arr in W. rewrite Forall_forall in W. apply W. exact He.
  - rewrite sort_tv_tab. apply wf_tab in W as [ND W].
    assert (P : Permutation (sort_entries (map (fun kv => (fst kv, sort_tv (snd kv))) m)) (map (fun kv => (fst kv, sort_tv (snd kv))) m))
      by apply (stable_sort_perm kle).
    apply wf_tab_intro.
    + eapply Permutation_NoDup; [apply Permutation_map; symmetry; exact P|]. rewrite map_fst_map. exact ND.
    + apply Forall_forall. intros kv Hin. apply (Permutation_in _ P) in Hin.
      apply in_map_iff in Hin as (kv' & <- & Hin'). cbn [snd].
      rewrite Forall_forall in IH, W. apply IH; [exact Hin'|apply W; exact Hin'].
Qed.

Lemma sort_idem v : wf_tv v = true -> sort_tv (sort_tv v) = sort_tv v.
Proof.
  induction v as [t|l IH|m IH] using tv_ind'; intro W.
  - reflexivity.
  - cbn [sort_tv]. f_equal. rewrite map_map. apply map_ext_in. intros e He.
    rewrite Forall_forall in IH. apply IH; [exact He|]. apply wf_arr in W. rewrite Forall_forall in W. apply W. exact He.
  - rewrite !sort_tv_tab. f_equal. apply wf_tab in W as [ND W].
    set (g := fun kv : bytes * tv => (fst kv, sort_tv (snd kv))).
    assert (P : Permutation (sort_entries (map g m)) (map g m)) by apply (stable_sort_perm kle).
    transitivity (sort_entries (map g (map g m))).
    + apply sort_entries_perm; [apply Permutation_map; exact P|].
      unfold g at 1. rewrite map_fst_map.
      eapply Permutation_NoDup; [apply Permutation_map; symmetry; exact P|]. unfold g. rewrite map_fst_map. exact ND.
    + f_equal. rewrite map_map. apply map_ext_in. intros kv Hin. unfold g. cbn [fst snd]. f_equal.
      rewrite Forall_forall in IH, W. apply IH; [exact Hin|apply W; exact Hin].
Qed.

(* a struct's document, read as a toml::Value and printed: that second text is a fixed point *)
Lemma struct_second_print o ml ml' m :
  wf_tv (TTab m) = true ->
  exists r, decode o (emit_doc WStruct ml m) = Some r /\ tv_equiv (TTab r) (TTab m) /\
  exists r2, decode o (emit_doc WValue ml' r) = Some r2 /\ emit_doc WValue ml' r2 = emit_doc WValue ml' r.
Proof.
  intro W. destruct o.
  - destruct (decode_sorted WStruct ml m W) as (r & Hr & Er). exists r. split; [exact Hr|].
    assert (Wr : wf_tv (TTab r) = true) by (rewrite Er; apply wf_sort; exact W).
    assert (Sr : sorted_tv (TTab r)) by (unfold sorted_tv; rewrite Er; apply sort_idem; exact W).
    split; [unfold tv_equiv; rewrite Er; apply sort_idem; exact W|].
    apply (fixpoint WValue OSorted ml' ml' r eq_refl Wr Sr).
  - destruct (any_order_decodes WStruct ml m W) as (r & Hr & Er & Wr). exists r.
    split; [unfold decode; rewrite Hr; reflexivity|]. split; [exact Er|].
    apply (fixpoint WValue OInsertion ml' ml' r eq_refl Wr I).
Qed.

(* ---- plain and pretty ---- *)

Lemma plain_pretty w o m :
  wf_tv (TTab m) = true ->
  decode o (emit_doc w true m) = decode o (emit_doc w false m) /\
  decode o (emit_doc w false m) <> None.
Proof.
  intro W. unfold decode. rewrite !(read_back_emit w _ m W). rewrite (canon_root_layout true (w_three w) (w_tn w) m).
  split; [reflexivity|discriminate].
Qed.

(* ---- "up to the order of map entries", spelled out ---- *)

Lemma Forall2_map_eq {A B C} (f : A -> C) (g : B -> C) l l' :
  Forall2 (fun a b => f a = g b) l l' -> map f l = map g l'.
Proof. induction 1 as [|a b l l' H _ IH]; [reflexivity|]. cbn [map]. rewrite H, IH. reflexivity. Qed.

Lemma wf_perm m m1 : Permutation m m1 -> wf_tv (TTab m) = true -> wf_tv (TTab m1) = true.
Proof.
  intros P W. apply wf_tab in W as [ND W]. cbn [wf_tv]. apply andb_true_iff. split.
  - apply keys_distinct_spec. eapply Permutation_NoDup; [|exact ND]. apply Permutation_map. exact P.
  - assert (F : Forall (fun kv => wf_tv (snd kv) = true) m1).
    { rewrite Forall_forall in W |- *. intros kv Hin. apply W. eapply Permutation_in; [symmetry; exact P|exact Hin]. }
    clear -F. induction m1 as [|[k x] r IH]; [reflexivity|]. inversion F; subst. cbn [snd] in *.
    apply andb_true_iff. split; [assumption|apply IH; assumption].
Qed.

Lemma perm_tv_equiv v : forall w, perm_tv v w -> wf_tv v = true -> tv_equiv v w.
Proof.
  unfold tv_equiv. induction v as [t|l IH|m IH] using tv_ind'; intros w P W; inversion P; subst.
  - reflexivity.
  - cbn [sort_tv]. f_equal. apply wf_arr in W.
    match goal with H : Forall2 perm_tv l _ |- _ => rename H into F end.
    clear P. revert IH W. induction F as [|a b l l' Hab _ IHF]; intros IH W; [reflexivity|].
    inversion IH; subst. inversion W; subst. cbn [map]. f_equal; [auto|apply IHF; assumption].
  - match goal with H : Permutation m _ |- _ => rename H into Pm end.
    match goal with H : Forall2 _ m1 _ |- _ => rename H into F end.
    pose proof (wf_perm m m1 Pm W) as W1. apply wf_tab in W as [ND Wm]. apply wf_tab in W1 as [ND1 Wm1].
    rewrite !sort_tv_tab. f_equal.
    transitivity (sort_entries (map (fun kv => (fst kv, sort_tv (snd kv))) m1)).
    + apply sort_entries_perm; [apply Permutation_map; exact Pm|rewrite map_fst_map; exact ND].
    + f_equal.
      assert (IH1 : Forall (fun kv => forall w, perm_tv (snd kv) w -> wf_tv (snd kv) = true -> sort_tv (snd kv) = sort_tv w) m1).
      { rewrite Forall_forall in IH |- *. intros kv Hin. apply IH. eapply Permutation_in; [symmetry; exact Pm|exact Hin]. }
      clear -F IH1 Wm1. induction F as [|a b l l' [Hk Hab] _ IHF]; [reflexivity|].
      inversion IH1; subst. inversion Wm1; subst. cbn [map]. f_equal; [|apply IHF; assumption].
      rewrite Hk. f_equal. auto.
Qed.

Lemma Forall2_weaken {A B} (P Q : A -> B -> Prop) l l' :
  (forall a b, P a b -> Q a b) -> Forall2 P l l' -> Forall2 Q l l'.
Proof. intros H F. induction F; constructor; auto. Qed.

Lemma perm_tv_wf v : forall w, perm_tv v w -> wf_tv v = true -> wf_tv w = true.
Proof.
  induction v as [t|l IH|m IH] using tv_ind'; intros w P W; inversion P; subst.
  - reflexivity.
  - apply wf_arr in W. cbn [wf_tv]. apply forallb_forall.
    match goal with H : Forall2 perm_tv l _ |- _ => rename H into F end.
    clear P. revert IH W. induction F as [|a b l l' Hab _ IHF]; intros IH W x Hin; [destruct Hin|].
    inversion IH; subst. inversion W; subst. destruct Hin as [<-|Hin]; [auto|apply IHF; assumption].
  - match goal with H : Permutation m _ |- _ => rename H into Pm end.
    match goal with H : Forall2 _ m1 _ |- _ => rename H into F end.
    pose proof (wf_perm m m1 Pm W) as W1. apply wf_tab in W1 as [ND1 Wm1].
    assert (IH1 : Forall (fun kv => forall w, perm_tv (snd kv) w -> wf_tv (snd kv) = true -> wf_tv w = true) m1).
    { rewrite Forall_forall in IH |- *. intros kv Hin. apply IH. eapply Permutation_in; [symmetry; exact Pm|exact Hin]. }
    apply wf_tab_intro.
    + rewrite <- (Forall2_map_eq fst fst m1 m'); [exact ND1|].
      eapply Forall2_weaken; [|exact F]. intros a b [H _]. exact H.
    + clear -F IH1 Wm1. induction F as [|a b l l' [Hk Hab] _ IHF]; [constructor|].
      inversion IH1; subst. inversion Wm1; subst. constructor; [eauto|apply IHF; assumption].
Qed.

(* whatever the order of the entries of every map of v: both documents are accepted and decode to
   v up to that order *)
Lemma any_permutation_decodes w w' ml ml' m m' :
  wf_tv (TTab m) = true -> perm_tv (TTab m) (TTab m') ->
  exists r r',
    read_back (emit_doc w ml m) = Some r /\ read_back (emit_doc w' ml' m') = Some r' /\
    tv_equiv (TTab r) (TTab m) /\ tv_equiv (TTab r') (TTab m).
Proof.
  intros W P. pose proof (perm_tv_equiv _ _ P W) as E. pose proof (perm_tv_wf _ _ P W) as W'.
  destruct (any_order_decodes w ml m W) as (r & Hr & Er & _).
  destruct (any_order_decodes w' ml' m' W') as (r' & Hr' & Er' & _).
  exists r, r'. repeat split; try assumption. unfold tv_equiv in *. congruence.
Qed.
