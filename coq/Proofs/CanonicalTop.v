(* Proofs/CanonicalTop.v — the statements of property C17 about the model of the serializer
   (Model/TomlValue.v), assembled from CanonicalEmit / CanonicalRead / CanonicalOrder. *)
From TV Require Import Base.Prelude Spec.Ordered Model.TomlValue Spec.Canonical.
From TV Require Import Proofs.ContainersOrder Proofs.CanonicalBase Proofs.CanonicalEmit Proofs.CanonicalRead Proofs.CanonicalOrder.
From Coq Require Import Permutation.

(* the printers write the canonical document *)
Lemma canonical_document ml m :
  emit_value_doc ml m = sections_of ml true m /\ emit_table_doc ml m = sections_of ml false m.
Proof. split; [apply emit_value_doc_canonical|apply emit_table_doc_canonical]. Qed.

(* ---- values before tables ---- *)

(* any table value, written at any path (as the root, as a sub-table, as an array element) *)
Lemma table_shape ml m t p a :
  fmt_item ml (ser_value (TTab m)) = ITbl t ->
  flat_map visit_table (visit_nested t p a)
  = own_section ml true m p (kind_of p a) ++ rest_secs ml true m p /\
  Forall (fun s => strict_prefix p (s_path s)) (rest_secs ml true m p).
Proof.
  rewrite fmt_item_tab. intro E. injection E as <-.
  rewrite (proj1 (emit_ok_all ml (TTab m)) m eq_refl p a). apply own_section_first.
Qed.

Lemma values_before_tables_model ml m t p a pre s post :
  fmt_item ml (ser_value (TTab m)) = ITbl t ->
  flat_map visit_table (visit_nested t p a) = pre ++ s :: post ->
  strict_prefix p (s_path s) ->
  Forall (fun s' => strict_prefix p (s_path s')) post.
Proof.
  rewrite fmt_item_tab. intro E. injection E as <-.
  rewrite (proj1 (emit_ok_all ml (TTab m)) m eq_refl p a). apply values_before_tables.
Qed.

Lemma strict_prefix_nil q : strict_prefix [] q <-> q <> [].
Proof.
  split.
  - intros (k & r & ->). discriminate.
  - intro H. destruct q as [|k r]; [congruence|]. exists k, r. reflexivity.
Qed.

(* the whole document: once a header has been written no root key/value line follows *)
Lemma values_before_tables_doc ml m pre s post :
  (emit_value_doc ml m = pre ++ s :: post \/ emit_table_doc ml m = pre ++ s :: post) ->
  s_path s <> [] -> Forall (fun s' => s_path s' <> []) post.
Proof.
  intros E Hs. apply strict_prefix_nil in Hs.
  assert (H : Forall (fun s' => strict_prefix [] (s_path s')) post).
  { destruct E as [E|E].
    - rewrite emit_value_doc_canonical in E. exact (values_before_tables ml true m [] KRoot pre s post E Hs).
    - rewrite emit_table_doc_canonical in E. exact (values_before_tables ml false m [] KRoot pre s post E Hs). }
  eapply Forall_impl; [|exact H]. intros s' H'. apply strict_prefix_nil. exact H'.
Qed.

(* ---- the document decodes to the value, whatever the order of the maps ---- *)

Lemma emit_doc_cases (three : bool) ml m :
  (if three then emit_value_doc ml m else emit_table_doc ml m) = sections_of ml three m.
Proof. destruct three; [apply emit_value_doc_canonical|apply emit_table_doc_canonical]. Qed.

Definition emit_doc (three ml : bool) (m : list (bytes * tv)) : list section :=
  if three then emit_value_doc ml m else emit_table_doc ml m.

Lemma read_back_emit three ml m :
  wf_tv (TTab m) = true -> read_back (emit_doc three ml m) = Some (canon_root ml three m).
Proof. intro W. unfold emit_doc. rewrite emit_doc_cases. apply read_back_canonical. exact W. Qed.

Lemma any_order_decodes three ml m :
  wf_tv (TTab m) = true ->
  exists r, read_back (emit_doc three ml m) = Some r /\ tv_equiv (TTab r) (TTab m).
Proof.
  intro W. exists (canon_root ml three m). split; [apply read_back_emit; exact W|].
  unfold tv_equiv. apply canon_root_equiv. exact W.
Qed.

(* two values that differ only in the order of map entries decode to values that differ only so *)
Lemma any_order_same_value three three' ml ml' m m' :
  wf_tv (TTab m) = true -> wf_tv (TTab m') = true -> tv_equiv (TTab m) (TTab m') ->
  exists r r', read_back (emit_doc three ml m) = Some r /\ read_back (emit_doc three' ml' m') = Some r' /\
               tv_equiv (TTab r) (TTab r').
Proof.
  intros W W' E. destruct (any_order_decodes three ml m W) as (r & Hr & Er).
  destruct (any_order_decodes three' ml' m' W') as (r' & Hr' & Er').
  exists r, r'. repeat split; try assumption. unfold tv_equiv in *. congruence.
Qed.

(* reordering the entries of the root map is such a difference (and so is reordering any nested map,
   because sort_tv sorts every level) *)
Lemma permutation_equiv m m' :
  NoDup (map fst m) -> Permutation m m' -> tv_equiv (TTab m) (TTab m').
Proof.
  intros ND P. unfold tv_equiv. rewrite !sort_tv_tab. f_equal. apply sort_entries_perm.
  - apply Permutation_map. exact P.
  - rewrite map_fst_map. exact ND.
Qed.

Definition sorted_tv (v : tv) : Prop := sort_tv v = v.

(* under BTreeMap the decoded value is the sorted value: exactly v when v is a BTreeMap-backed value *)
Lemma decode_sorted three ml m :
  wf_tv (TTab m) = true ->
  exists r, decode OSorted (emit_doc three ml m) = Some r /\ TTab r = sort_tv (TTab m).
Proof.
  intro W. unfold decode. rewrite (read_back_emit three ml m W).
  pose proof (canon_root_equiv ml three m W) as E.
  rewrite (sort_tv_tab (canon_root ml three m)) in E. rewrite (sort_tv_tab (canon_root ml three m)).
  eexists. split; [reflexivity|]. exact E.
Qed.

Lemma decode_sorted_exact three ml m :
  wf_tv (TTab m) = true -> sorted_tv (TTab m) -> decode OSorted (emit_doc three ml m) = Some m.
Proof.
  intros W S. destruct (decode_sorted three ml m W) as (r & Hr & Er). rewrite Hr. unfold sorted_tv in S.
  rewrite S in Er. injection Er as ->. reflexivity.
Qed.

(* ---- one-step fixed point ---- *)

Definition order_inv (o : morder) (m : list (bytes * tv)) : Prop :=
  match o with OSorted => sorted_tv (TTab m) | OInsertion => True end.

Lemma fixpoint three o ml ml' m :
  wf_tv (TTab m) = true -> order_inv o m ->
  exists r, decode o (emit_doc three ml m) = Some r /\ emit_doc three ml' r = emit_doc three ml' m.
Proof.
  intros W I. destruct o.
  - exists m. split; [apply decode_sorted_exact; assumption|reflexivity].
  - exists (canon_root ml three m). split.
    + unfold decode. rewrite (read_back_emit three ml m W). reflexivity.
    + unfold emit_doc. rewrite !emit_doc_cases. apply fixpoint_canonical.
Qed.

(* ---- plain and pretty ---- *)

Lemma plain_pretty three o m :
  wf_tv (TTab m) = true ->
  decode o (emit_doc three true m) = decode o (emit_doc three false m) /\
  decode o (emit_doc three false m) <> None.
Proof.
  intro W. unfold decode. rewrite !(read_back_emit three _ m W). rewrite (canon_root_layout true three m).
  split; [reflexivity|discriminate].
Qed.
