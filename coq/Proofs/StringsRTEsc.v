(* Proofs/StringsRTEsc.v — the escaping writer against a content parser, generically:
   every escape sequence the writer emits is read back by `escaped`; the writer's output for a
   string is consumed chunk by chunk (`content_step`, `content_run`) by any content parser that
   accepts plain chunks, escapes and (multi-line only) LF.  Instantiated for basic_chars and
   mlb_content in StringsRTBasic.v / StringsRTMlBasic.v. *)
From TV Require Import Base.Prelude Base.Utf8 Base.Winnow Gen.Consts.
From TV Require Import Model.Trivia Model.Strings Model.Write.
From TV Require Import Proofs.StringsRTDefs Proofs.StringsRTBase Proofs.StringsRTWrite.
Require Import Lia ZifyBool ZifyN ZifyNat.

(* ---- escape sequences ------------------------------------------------------------------------ *)
(* the byte after the backslash of a two-character escape is not blank and not a line end,
   so `mlb_escaped_nl` does not take it for a line continuation *)
Definition esc_letter (c : byte) : Prop :=
  in_class WSCHAR c = false /\ byte_eqb c x0a = false /\ byte_eqb c x0d = false.

Lemma short_escape_spec is_ml b c : short_escape is_ml b = Some c ->
  assoc_byte ESCAPE_SIMPLE c = Some (b2n b) /\ utf8_encode (b2n b) = [b] /\ esc_letter c.
Proof.
  unfold short_escape, esc_letter.
  destruct (byte_eqb b x08) eqn:E08.
  { apply byte_eqb_eq in E08. subst b. intro H. injection H as <-. vm_compute. auto. }
  destruct (byte_eqb b x09) eqn:E09.
  { apply byte_eqb_eq in E09. subst b. intro H. injection H as <-. vm_compute. auto. }
  destruct (byte_eqb b x0a) eqn:E0a.
  { apply byte_eqb_eq in E0a. subst b. destruct is_ml; [discriminate|]. intro H. injection H as <-. vm_compute. auto. }
  destruct (byte_eqb b x0c) eqn:E0c.
  { apply byte_eqb_eq in E0c. subst b. intro H. injection H as <-. vm_compute. auto. }
  destruct (byte_eqb b x0d) eqn:E0d.
  { apply byte_eqb_eq in E0d. subst b. intro H. injection H as <-. vm_compute. auto. }
  destruct (byte_eqb b x5c) eqn:E5c.
  { apply byte_eqb_eq in E5c. subst b. intro H. injection H as <-. vm_compute. auto. }
  discriminate.
Qed.

Lemma quote_escape_spec :
  assoc_byte ESCAPE_SIMPLE x22 = Some (b2n x22) /\ utf8_encode (b2n x22) = [x22] /\ esc_letter x22.
Proof. vm_compute. auto. Qed.

Lemma escaped_simple c v X p d : assoc_byte ESCAPE_SIMPLE c = Some v ->
  escaped (mkIn (x5c :: c :: X) p d) = Ok (utf8_encode v) (after [x5c; c] X p d).
Proof.
  intro H. unfold escaped, preceded, ESCAPE.
  rewrite (bind_ok _ _ _ _ _ (byte_yes x5c (c :: X) p d)).
  unfold escape_seq_char. rewrite (bind_ok _ _ _ _ _ (any_cons c X (p + 1) d)).
  rewrite H. unfold ret. apply ok_inp; [reflexivity|inp].
Qed.

(* \u00XY for a control character *)
Lemma hex_escape_facts b : is_ctrl b = true ->
  let h1 := hex_upper (b2n b / 16) in
  let h2 := hex_upper (b2n b mod 16) in
  in_class HEXDIG h1 = true /\ in_class HEXDIG h2 = true /\
  utf8_valid_b [x30; x30; h1; h2] = true /\
  u32_from_hex [x30; x30; h1; h2] = Some (b2n b) /\
  is_scalar (b2n b) = true /\ utf8_encode (b2n b) = [b].
Proof. destruct b; intro H; try discriminate H; vm_compute; auto 10. Qed.

Lemma escaped_hex b X p d : is_ctrl b = true ->
  escaped (mkIn (u_escape b ++ X) p d) = Ok [b] (after (u_escape b) X p d).
Proof.
  intro Hc. destruct (hex_escape_facts b Hc) as [H1 [H2 [H3 [H4 [H5 H6]]]]].
  unfold u_escape. cbn [app].
  set (h1 := hex_upper (b2n b / 16)) in *. set (h2 := hex_upper (b2n b mod 16)) in *.
  unfold escaped, preceded, ESCAPE.
  rewrite (bind_ok _ _ _ _ _ (byte_yes x5c _ p d)).
  unfold escape_seq_char. rewrite (bind_ok _ _ _ _ _ (any_cons x75 _ (p + 1) d)).
  change (assoc_byte ESCAPE_SIMPLE x75) with (@None N).
  change (assoc_byte ESCAPE_HEX x75) with (Some 4).
  cbv beta iota.
  assert (Hh : hexescape 4 (mkIn (x30 :: x30 :: h1 :: h2 :: X) (p + 1 + 1) d)
               = Ok [b] (mkIn X (p + 1 + 1 + 4)%N d)).
  { unfold hexescape, try_map, verify_map, unchecked_utf8, verify, take_while_mn.
    cbn [rest take_upto]. change (in_class HEXDIG x30) with true. cbv iota. rewrite H1, H2.
    cbn [length Nat.ltb Nat.leb Nat.eqb]. rewrite H3, H4, H5, H6. reflexivity. }
  unfold context, cut_err. rewrite Hh. apply ok_inp; [reflexivity|inp].
Qed.

Lemma u_escape_shape b : exists h1 h2, u_escape b = [x5c; x75; x30; x30; h1; h2].
Proof. unfold u_escape. eauto. Qed.

(* ---- shape of the writer's output --------------------------------------------------------------- *)
(* a content chunk ends in front of a quotation mark, a backslash, LF or the end of input *)
Definition hstop (X : bytes) : Prop :=
  match X with
  | [] => True
  | b :: _ => byte_eqb b x22 = true \/ byte_eqb b x5c = true \/ byte_eqb b x0a = true
  end.

Lemma hstop_basic X : hstop X -> stops (in_class BASIC_UNESCAPED) X.
Proof. destruct X as [|b X]; [auto|]. apply basic_stop. Qed.
Lemma hstop_mlb X : hstop X -> stops (in_class MLB_UNESCAPED) X.
Proof. destruct X as [|b X]; [auto|]. apply mlb_stop. Qed.

Lemma plain_facts is_ml b : plain b = true ->
  byte_eqb b x22 = false /\ short_escape is_ml b = None /\ byte_eqb b x0a = false /\ is_ctrl b = false.
Proof.
  intro H. assert (H22 : byte_eqb b x22 = false) by (byten; lia).
  assert (Hc : is_ctrl b = false) by (byten; lia).
  assert (H0a : byte_eqb b x0a = false) by (byten; lia).
  repeat split; auto. unfold short_escape.
  assert (E08 : byte_eqb b x08 = false) by (byten; lia). rewrite E08.
  assert (E09 : byte_eqb b x09 = false) by (byten; lia). rewrite E09.
  rewrite H0a.
  assert (E0c : byte_eqb b x0c = false) by (byten; lia). rewrite E0c.
  assert (E0d : byte_eqb b x0d = false) by (byten; lia). rewrite E0d.
  assert (E5c : byte_eqb b x5c = false) by (byten; lia). rewrite E5c.
  reflexivity.
Qed.

Lemma enc_plain_cons is_ml seq b r : plain b = true -> enc is_ml seq (b :: r) = b :: enc is_ml 0 r.
Proof.
  intro H. destruct (plain_facts is_ml b H) as [H1 [H2 [H3 H4]]].
  cbn [enc]. rewrite H1, H2, H3, H4. reflexivity.
Qed.

Lemma enc_plain_chunk is_ml : forall c seq b r, forallb plain (b :: c) = true ->
  enc is_ml seq ((b :: c) ++ r) = (b :: c) ++ enc is_ml 0 r.
Proof.
  induction c as [|b' c IH]; intros seq b r H; cbn [forallb] in H; apply andb_true_iff in H as [Hb Hc].
  - cbn [app]. apply enc_plain_cons. exact Hb.
  - cbn [app]. rewrite enc_plain_cons by exact Hb. f_equal. apply (IH 0%N b' r). exact Hc.
Qed.

(* the encoding of a string that starts with a non-plain byte starts with a backslash, a quotation mark or LF *)
Lemma enc_head_stop is_ml s X : stops plain s -> hstop X -> hstop (enc is_ml 0 s ++ X).
Proof.
  intros Hs HX. destruct s as [|b r]; [exact HX|]. cbn in Hs. cbn [enc].
  destruct (byte_eqb b x22) eqn:E22.
  { destruct ((if is_ml then 2 else 0) <? 0 + 1)%N; cbn; [right; left; reflexivity|left; reflexivity]. }
  destruct (short_escape is_ml b) as [c|] eqn:Es.
  { cbn. right; left; reflexivity. }
  destruct (byte_eqb b x0a) eqn:E0a.
  { cbn. right; right; reflexivity. }
  destruct (is_ctrl b) eqn:Ec.
  { unfold u_escape. cbn. right; left; reflexivity. }
  exfalso. unfold plain in Hs. rewrite Ec, E22 in Hs. cbn in Hs.
  unfold short_escape in Es.
  destruct (byte_eqb b x08); [discriminate|]. destruct (byte_eqb b x09); [discriminate|].
  rewrite E0a in Es. destruct (byte_eqb b x0c); [discriminate|]. destruct (byte_eqb b x0d); [discriminate|].
  destruct (byte_eqb b x5c); [discriminate|]. discriminate.
Qed.

Lemma forallb_impl {A} (f g : A -> bool) l : (forall x, f x = true -> g x = true) ->
  forallb f l = true -> forallb g l = true.
Proof.
  intros H. induction l as [|x l IH]; [auto|]. cbn. intro Hl. apply andb_true_iff in Hl as [H1 H2].
  rewrite (H _ H1), (IH H2). reflexivity.
Qed.

(* cutting a valid string in front of a non-plain byte *)
Lemma utf8_cut c s1 : stops plain s1 -> utf8_valid_b (c ++ s1) = true ->
  utf8_valid_b c = true /\ utf8_valid_b s1 = true.
Proof.
  intros Hs H. destruct s1 as [|b r].
  - rewrite app_nil_r in H. auto.
  - cbn in Hs. apply not_plain_ascii in Hs. destruct (utf8_split c b r Hs H) as [H1 H2].
    split; [exact H1|]. rewrite utf8_cons_ascii by exact Hs. exact H2.
Qed.

(* ---- one step and a whole run of a content parser ------------------------------------------------- *)
Section Content.
  Variable is_ml : bool.
  Variable P : parser bytes.
  Hypothesis P_plain : forall c X p d, c <> [] -> forallb plain c = true -> utf8_valid_b c = true -> hstop X ->
      P (mkIn (c ++ X) p d) = Ok c (after c X p d).
  Hypothesis P_simple : forall c v X p d, assoc_byte ESCAPE_SIMPLE c = Some v -> esc_letter c ->
      P (mkIn (x5c :: c :: X) p d) = Ok (utf8_encode v) (after [x5c; c] X p d).
  Hypothesis P_hex : forall b X p d, is_ctrl b = true ->
      P (mkIn (u_escape b ++ X) p d) = Ok [b] (after (u_escape b) X p d).
  Hypothesis P_lf : is_ml = true -> forall X p d,
      P (mkIn (x0a :: X) p d) = Ok [x0a] (after [x0a] X p d).

  Lemma content_step b s0 :
    utf8_valid_b (b :: s0) = true -> (is_ml = true -> byte_eqb b x22 = false) ->
    exists c1 s1 e1,
      b :: s0 = c1 ++ s1 /\ length s1 < length (b :: s0) /\ e1 <> [] /\
      enc is_ml 0 (b :: s0) = e1 ++ enc is_ml 0 s1 /\ utf8_valid_b s1 = true /\
      forall T p d, hstop T ->
        P (mkIn (enc is_ml 0 (b :: s0) ++ T) p d) = Ok c1 (after e1 (enc is_ml 0 s1 ++ T) p d).
  Proof.
    intros Hu Hq.
    (* a single escaped byte *)
    assert (Hone : forall e, e <> [] -> (b2n b <= 127)%N ->
              enc is_ml 0 (b :: s0) = e ++ enc is_ml 0 s0 ->
              (forall X p d, P (mkIn (e ++ X) p d) = Ok [b] (after e X p d)) ->
              exists c1 s1 e1,
                b :: s0 = c1 ++ s1 /\ length s1 < length (b :: s0) /\ e1 <> [] /\
                enc is_ml 0 (b :: s0) = e1 ++ enc is_ml 0 s1 /\ utf8_valid_b s1 = true /\
                forall T p d, hstop T ->
                  P (mkIn (enc is_ml 0 (b :: s0) ++ T) p d) = Ok c1 (after e1 (enc is_ml 0 s1 ++ T) p d)).
    { intros e He Hb Henc HP. exists [b], s0, e. repeat split; auto.
      - rewrite utf8_cons_ascii in Hu by exact Hb. exact Hu.
      - intros T p d _. rewrite Henc, <- app_assoc. apply HP. }
    destruct (byte_eqb b x22) eqn:E22.
    { destruct is_ml eqn:Eml; [specialize (Hq eq_refl); discriminate|].
      apply byte_eqb_eq in E22. subst b.
      destruct quote_escape_spec as [Q1 [Q2 Q3]].
      apply (Hone [x5c; x22]); [discriminate|vm_compute; discriminate|reflexivity|].
      intros X p d. cbn [app]. rewrite (P_simple x22 _ X p d Q1 Q3), Q2. reflexivity. }
    destruct (short_escape is_ml b) as [c|] eqn:Es.
    { destruct (short_escape_spec is_ml b c Es) as [S1 [S2 S3]].
      apply (Hone [x5c; c]); [discriminate| |cbn [enc]; rewrite E22, Es; reflexivity|].
      - unfold short_escape in Es. pose proof (b2n_lt b).
        destruct (byte_eqb b x08) eqn:E1; [byten; lia|]. destruct (byte_eqb b x09) eqn:E2; [byten; lia|].
        destruct (byte_eqb b x0a) eqn:E3; [byten; lia|]. destruct (byte_eqb b x0c) eqn:E4; [byten; lia|].
        destruct (byte_eqb b x0d) eqn:E5; [byten; lia|]. destruct (byte_eqb b x5c) eqn:E6; [byten; lia|]. discriminate.
      - intros X p d. cbn [app]. rewrite (P_simple c _ X p d S1 S3), S2. reflexivity. }
    destruct (byte_eqb b x0a) eqn:E0a.
    { assert (Eml : is_ml = true).
      { unfold short_escape in Es. destruct (byte_eqb b x08); [discriminate|]. destruct (byte_eqb b x09); [discriminate|].
        rewrite E0a in Es. destruct is_ml; [reflexivity|discriminate]. }
      apply byte_eqb_eq in E0a. subst b.
      apply (Hone [x0a]); [discriminate|vm_compute; discriminate| |].
      - cbn [enc]. rewrite Es. reflexivity.
      - intros X p d. cbn [app]. apply P_lf. exact Eml. }
    destruct (is_ctrl b) eqn:Ec.
    { apply (Hone (u_escape b)).
      - unfold u_escape. discriminate.
      - byten. lia.
      - cbn [enc]. rewrite E22, Es, E0a, Ec. reflexivity.
      - intros X p d. apply P_hex. exact Ec. }
    (* a plain chunk *)
    assert (Hp : plain b = true).
    { unfold plain. rewrite Ec, E22. cbn. unfold short_escape in Es.
      destruct (byte_eqb b x08); [discriminate|]. destruct (byte_eqb b x09); [discriminate|].
      rewrite E0a in Es. destruct (byte_eqb b x0c); [discriminate|]. destruct (byte_eqb b x0d); [discriminate|].
      destruct (byte_eqb b x5c); [discriminate|reflexivity]. }
    destruct (span_while_split plain s0) as [c [s1 [Hs0 [Hc Hs1]]]].
    exists (b :: c), s1, (b :: c).
    assert (Hall : forallb plain (b :: c) = true) by (cbn [forallb]; rewrite Hp, Hc; reflexivity).
    assert (Hcut : utf8_valid_b (b :: c) = true /\ utf8_valid_b s1 = true).
    { apply utf8_cut; [exact Hs1|]. cbn [app]. rewrite <- Hs0. exact Hu. }
    assert (Henc : enc is_ml 0 (b :: s0) = (b :: c) ++ enc is_ml 0 s1).
    { rewrite Hs0. apply (enc_plain_chunk is_ml c 0%N b s1). exact Hall. }
    repeat split.
    - rewrite Hs0. reflexivity.
    - rewrite Hs0. cbn [length]. rewrite app_length. lia.
    - discriminate.
    - exact Henc.
    - tauto.
    - intros T p d HT. rewrite Henc, <- app_assoc. apply P_plain; [discriminate|exact Hall|tauto|].
      apply enc_head_stop; assumption.
  Qed.

  (* a run of content: the whole of `c` when it holds no quotation mark that the parser must
     treat specially (multi-line), ending in front of a tail the content parser refuses *)
  Lemma content_run : forall n c T acc p d fuel,
    length c <= n -> utf8_valid_b c = true ->
    (is_ml = true -> forallb (fun b => negb (byte_eqb b x22)) c = true) ->
    hstop T -> (forall p' d', exists e i', P (mkIn T p' d') = Bt e i') ->
    length (enc is_ml 0 c ++ T) < fuel ->
    chunks_f fuel P acc (mkIn (enc is_ml 0 c ++ T) p d) = Ok (acc ++ c) (after (enc is_ml 0 c) T p d).
  Proof.
    induction n as [|n IH]; intros c T acc p d fuel Hn Hu Hq HT Hend Hf.
    - destruct c; [|cbn in Hn; lia]. cbn [enc app] in *. destruct fuel as [|f]; [lia|].
      cbn [chunks_f]. destruct (Hend p d) as [e [i' He]]. rewrite He. rewrite app_nil_r, after_nil. reflexivity.
    - destruct c as [|b s0].
      { cbn [enc app] in *. destruct fuel as [|f]; [lia|].
        cbn [chunks_f]. destruct (Hend p d) as [e [i' He]]. rewrite He. rewrite app_nil_r, after_nil. reflexivity. }
      assert (Hb : is_ml = true -> byte_eqb b x22 = false).
      { intro E. specialize (Hq E). cbn [forallb] in Hq. apply andb_true_iff in Hq as [Hq _].
        destruct (byte_eqb b x22); [discriminate|reflexivity]. }
      destruct (content_step b s0 Hu Hb) as [c1 [s1 [e1 [Hs [Hl [He1 [Henc [Hu1 HP]]]]]]]].
      destruct fuel as [|f]; [lia|]. cbn [chunks_f]. rewrite (HP T p d HT).
      unfold after. cbn [rest].
      assert (Hlen : Nat.eqb (length (enc is_ml 0 s1 ++ T)) (length (enc is_ml 0 (b :: s0) ++ T)) = false).
      { apply Nat.eqb_neq. rewrite Henc. rewrite !app_length. destruct e1; [congruence|]. cbn [length]. lia. }
      rewrite Hlen.
      assert (Hq1 : is_ml = true -> forallb (fun b => negb (byte_eqb b x22)) s1 = true).
      { intro E. specialize (Hq E). rewrite Hs in Hq. rewrite forallb_app in Hq. apply andb_true_iff in Hq. tauto. }
      rewrite (IH s1 T (acc ++ c1) (p + N.of_nat (length e1))%N d f); auto.
      + apply ok_inp; [rewrite Hs, app_assoc; reflexivity|]. rewrite Henc. apply mkIn_eq; [reflexivity|rewrite app_length; lia].
      + cbn [length] in *. lia.
      + rewrite Henc in Hf. rewrite !app_length in *. destruct e1; [congruence|]. cbn [length] in *. lia.
  Qed.
End Content.
