(* Proofs/StringsRTEsc.v — the escaping writer against a content parser, generically:
   every escape sequence the writer emits is read back by `escaped`; the writer's output for a
   string is consumed chunk by chunk (`content_step`, `content_run`) by any content parser that
   accepts plain chunks, escapes and (multi-line only) LF.  Instantiated for basic_chars and
   mlb_content in StringsRTBasic.v / StringsRTMlBasic.v. *)
From TV Require Import Base.Prelude Base.Utf8 Base.Winnow Gen.Consts.
From TV Require Import Model.Trivia Model.Strings Model.Write.
From TV Require Import Proofs.StringsRTDefs Proofs.StringsRTBase Proofs.StringsRTWrite.
Require Import Lia ZifyBool ZifyN ZifyNat.

(* ---- escape sequences ------------------------------------------------------------------------ *)
(* the byte after the backslash of a two-character escape is not blank and not a line end,
   so `mlb_escaped_nl` does not take it for a line continuation *)
Definition esc_letter (c : byte) : Prop :=
  in_class WSCHAR c = false /\ byte_eqb c x0a = false /\ byte_eqb c x0d = false.

Lemma short_escape_spec is_ml b c : short_escape is_ml b = Some c ->
  assoc_byte ESCAPE_SIMPLE c = Some (b2n b) /\ utf8_encode (b2n b) = [b] /\ esc_letter c.
Proof.
  unfold short_escape, esc_letter.
  destruct (byte_eqb b x08) eqn:E08.
  { apply byte_eqb_eq in E08. subst b. intro H. injection H as <-. vm_compute. auto. }
  destruct (byte_eqb b x09) eqn:E09.
  { apply byte_eqb_eq in E09. subst b. intro H. injection H as <-. vm_compute. auto. }
  destruct (byte_eqb b x0a) eqn:E0a.
  { apply byte_eqb_eq in E0a. subst b. destruct is_ml; [discriminate|]. intro H. injection H as <-. vm_compute. auto. }
  destruct (byte_eqb b x0c) eqn:E0c.
  { apply byte_eqb_eq in E0c. subst b. intro H. injection H as <-. vm_compute. auto. }
  destruct (byte_eqb b x0d) eqn:E0d.
  { apply byte_eqb_eq in E0d. subst b. intro H. injection H as <-. vm_compute. auto. }
  destruct (byte_eqb b x5c) eqn:E5c.
  { apply byte_eqb_eq in E5c. subst b. intro H. injection H as <-. vm_compute. auto. }
  discriminate.
Qed.

Lemma quote_escape_spec :
  assoc_byte ESCAPE_SIMPLE x22 = Some (b2n x22) /\ utf8_encode (b2n x22) = [x22] /\ esc_letter x22.
Proof. vm_compute. auto. Qed.

Lemma escaped_simple c v X p d : assoc_byte ESCAPE_SIMPLE c = Some v ->
  escaped (mkIn (x5c :: c :: X) p d) = Ok (utf8_encode v) (after [x5c; c] X p d).
Proof.
  intro H. unfold escaped, preceded, ESCAPE.
  rewrite (bind_ok _ _ _ _ _ (byte_yes x5c (c :: X) p d)).
  unfold escape_seq_char. rewrite (bind_ok _ _ _ _ _ (any_cons c X (p + 1) d)).
  rewrite H. unfold ret. apply ok_inp; [reflexivity|inp].
Qed.

(* \u00XY for a control character *)
Lemma hex_escape_facts b : is_ctrl b = true ->
  let h1 := hex_upper (b2n b / 16) in
  let h2 := hex_upper (b2n b mod 16) in
  in_class HEXDIG h1 = true /\ in_class HEXDIG h2 = true /\
  utf8_valid_b [x30; x30; h1; h2] = true /\
  u32_from_hex [x30; x30; h1; h2] = Some (b2n b) /\
  is_scalar (b2n b) = true /\ utf8_encode (b2n b) = [b].
Proof. destruct b; intro H; try discriminate H; vm_compute; auto 10. Qed.

Lemma escaped_hex b X p d : is_ctrl b = true ->
  escaped (mkIn (u_escape b ++ X) p d) = Ok [b] (after (u_escape b) X p d).
Proof.
  intro Hc. destruct (hex_escape_facts b Hc) as [H1 [H2 [H3 [H4 [H5 H6]]]]].
  unfold u_escape. cbn [app].
  set (h1 := hex_upper (b2n b / 16)) in *. set (h2 := hex_upper (b2n b mod 16)) in *.
  unfold escaped, preceded, ESCAPE.
  rewrite (bind_ok _ _ _ _ _ (byte_yes x5c _ p d)).
  unfold escape_seq_char. rewrite (bind_ok _ _ _ _ _ (any_cons x75 _ (p + 1) d)).
  change (assoc_byte ESCAPE_SIMPLE x75) with (@None N).
  change (assoc_byte ESCAPE_HEX x75) with (Some 4).
  cbv beta iota.
  assert (Hh : hexescape 4 (mkIn (x30 :: x30 :: h1 :: h2 :: X) (p + 1 + 1) d)
               = Ok [b] (mkIn X (p + 1 + 1 + 4)%N d)).
  { unfold hexescape, try_map, verify_map, unchecked_utf8, verify, take_while_mn.
    cbn [rest take_upto]. change (in_class HEXDIG x30) with true. cbv iota. rewrite H1, H2.
    cbn [length Nat.ltb Nat.leb Nat.eqb]. rewrite H3, H4, H5, H6. reflexivity. }
  unfold context, cut_err. rewrite Hh. apply ok_inp; [reflexivity|inp].
Qed.

Lemma u_escape_shape b : exists h1 h2, u_escape b = [x5c; x75; x30; x30; h1; h2].
Proof. unfold u_escape. eauto. Qed.
