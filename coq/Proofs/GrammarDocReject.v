(* Proofs/GrammarDocReject.v — C01 layers L2 + L3 for whole documents, the reject half: if the
   text has a derivation whose statements are ill-defined, outside the limits, or refused by
   the definition rules (as the code resolves them), the parser fails with commitment at the
   first such statement — whatever other readings of the text one might try.  With
   Proofs/GrammarDocComplete.v this determines the outcome of `parse_document` on every text
   that has a derivation, from ANY of its derivations. *)
From TV Require Import Base.Prelude Base.Utf8 Base.Winnow Gen.Consts Spec.Abnf Spec.Lex Spec.Defs Spec.Syntax.
From TV Require Import Model.Trivia Model.Strings Model.Datetime Model.Numbers Model.Tree Model.Parse Model.Document.
From TV Require Import Proofs.ConstsOk Proofs.NoPanicBase Proofs.NoPanicLex Proofs.NoPanicValue.
From TV Require Import Proofs.DefsEquivBase Proofs.DefsEquivSpec Proofs.DefsEquivKv Proofs.DefsEquivSim Proofs.DefsEquivMain.
From TV Require Import Proofs.LexEquivBase Proofs.LexEquivTrivia Proofs.LexEquivKey Proofs.GrammarSep Proofs.GrammarBase Proofs.GrammarParam
                       Proofs.GrammarValueBase Proofs.GrammarValueSound Proofs.GrammarValueComplete Proofs.GrammarValueReject
                       Proofs.GrammarDocBase Proofs.GrammarDocLine Proofs.GrammarDoc Proofs.GrammarDocComplete.
Require Import Lia ZifyBool ZifyN ZifyNat.

(* ---- the statements run with their side conditions --------------------------------------------------- *)
Definition sgoodb (s : astmt) : bool := stmt_ok s && stmt_within s.

Fixpoint drun (S : sstate dval) (l : list astmt) : res (sstate dval) :=
  match l with
  | [] => ROk S
  | s :: tl =>
    if sgoodb s
    then match spec_step false S (stmt_den s) with
         | ROk S1 => drun S1 tl
         | RInvalid => RInvalid
         | RUndecided => RUndecided
         end
    else RInvalid
  end.

Lemma drun_app l1 : forall S l2,
  drun S (l1 ++ l2) = match drun S l1 with ROk S1 => drun S1 l2 | RInvalid => RInvalid | RUndecided => RUndecided end.
Proof.
  induction l1 as [|s l1 IH]; intros S l2; [reflexivity|]. cbn [app drun]. destruct (sgoodb s); [|reflexivity].
  destruct (spec_step false S (stmt_den s)); [apply IH|reflexivity|reflexivity].
Qed.

Lemma drun_decides l : forall S, drun S l <> RUndecided.
Proof.
  induction l as [|s l IH]; intros S; cbn [drun]; [discriminate|]. destruct (sgoodb s); [|discriminate].
  destruct (spec_step false S (stmt_den s)) eqn:E; [apply IH|discriminate|]. exfalso. apply (spec_step_code_decides S _ E).
Qed.

Lemma drun_ok l : forall S X, drun S l = ROk X ->
  forallb stmt_ok l = true /\ forallb stmt_within l = true /\ spec_fold false S (map stmt_den l) = ROk X.
Proof.
  induction l as [|s l IH]; intros S X H; cbn [drun] in H; [injection H as <-; auto|].
  destruct (sgoodb s) eqn:G; [|discriminate]. unfold sgoodb in G. apply andb_true_iff in G as [G1 G2].
  destruct (spec_step false S (stmt_den s)) as [S1| |] eqn:E; try discriminate.
  destruct (IH S1 X H) as (I1 & I2 & I3). cbn [forallb map]. rewrite G1, G2, I1, I2, spec_fold_cons, E. auto.
Qed.

Lemma drun_of_ok l : forall S X, forallb stmt_ok l = true -> forallb stmt_within l = true ->
  spec_fold false S (map stmt_den l) = ROk X -> drun S l = ROk X.
Proof.
  induction l as [|s l IH]; intros S X H1 H2 H3; cbn [map] in H3; [exact H3|].
  cbn [forallb] in H1, H2. apply andb_true_iff in H1 as [G1 H1]. apply andb_true_iff in H2 as [G2 H2].
  rewrite spec_fold_cons in H3. cbn [drun]. unfold sgoodb. rewrite G1, G2. cbn [andb].
  destruct (spec_step false S (stmt_den s)) as [S1| |]; try discriminate. apply IH; assumption.
Qed.

(* ---- a refused step of the state machine ------------------------------------------------------------------ *)
Lemma step_invalid_from_data strict S m :
  spec_step strict (dstate S) (stmt_map absv m) = RInvalid -> spec_step strict S m = RInvalid.
Proof. unfold dstate. rewrite spec_step_smap. destruct (spec_step strict S m); cbn [rmap]; try discriminate. reflexivity. Qed.

Lemma kv_step_invalid st S path k v :
  Inv st S -> spec_step false S (SKeyVal (keys path ++ [k_key k]) v) = RInvalid ->
  exists c, on_keyval_sp st path k (IValue v) = CErr c.
Proof.
  intros HI Es. rewrite on_keyval_sp_eq.
  pose proof (mstep_sim st S (MKeyVal path k v) HI) as Hs. cbn [mstep erase] in Hs. rewrite Es in Hs. cbn [simstep] in Hs.
  destruct Hs as [c Hc]. rewrite Hc. eauto.
Qed.

Lemma hdr_step_invalid arr st S pre k tr sp :
  Inv st S -> spec_step false S (hdr_stmt arr (keys pre ++ [k_key k])) = RInvalid ->
  exists c, on_header arr st (pre ++ [k]) tr sp = CErr c.
Proof.
  intros HI Es. pose proof (mstep_sim st S (MHeader arr pre k tr sp) HI) as Hs. cbn [mstep] in Hs.
  assert (Ee : erase (MHeader arr pre k tr sp) = hdr_stmt arr (keys pre ++ [k_key k])) by (destruct arr; reflexivity).
  rewrite Ee, Es in Hs. cbn [simstep] in Hs. exact Hs.
Qed.

Lemma drun_one S s : drun S [s] = RInvalid ->
  sgoodb s = false \/ (sgoodb s = true /\ spec_step false S (stmt_den s) = RInvalid).
Proof.
  cbn [drun]. destruct (sgoodb s); [|auto]. intro H. right. split; [reflexivity|].
  destruct (spec_step false S (stmt_den s)) as [S1| |] eqn:E; [discriminate|reflexivity|].
  exfalso. apply (spec_step_code_decides S _ E).
Qed.

(* ---- one line ------------------------------------------------------------------------------------------------ *)
Lemma keyval_reject st S i t p a w c le r :
  keyval_tok t p a -> ws_tok w -> opt_comment c -> rest i = (t ++ w ++ c) ++ le ++ r -> lend le r ->
  depth i = 0 -> Inv st S -> drun (dstate S) [SKeyVal p a] = RInvalid -> cuts (cut_err (keyval st)) i.
Proof.
  intros Ht Hw Hc H Hl Hd HI Hbad. unfold keyval.
  destruct (Nat.ltb (length p) LIMIT) eqn:Lp.
  2:{ (* the key path is too long: key refuses, the committed alternative fails *)
      apply Nat.ltb_ge in Lp. apply cuts_cut_err_fails, try_map_fails. unfold fails. rewrite parse_keyval_unfold. apply bind_fails.
      destruct Ht as (kt & w1 & w2 & v & -> & Hkt & Hw1 & Hw2 & Hv).
      assert (H1 : rest i = [] ++ kt ++ w1 ++ (x3d :: w2 ++ v ++ w ++ c ++ le ++ r)) by (rewrite H, <- !app_assoc; reflexivity).
      destruct (key_too_long i [] kt p w1 _ eq_refl Hkt Hw1 H1
                  (ex_intro _ x3d (ex_intro _ _ (conj eq_refl (or_introl eq_refl)))) Lp) as (j & Ek).
      exists (err_of RecursionLimit), j. exact Ek. }
  apply Nat.ltb_lt in Lp.
  destruct (vgoodb 0 a) eqn:Ga.
  - (* the pair is read; the state machine refuses it *)
    destruct (vgoodb_true _ _ Ga) as [Hok Hwi]. rewrite <- Hd in Hwi.
    destruct (parse_keyval_complete i t p a w c le r Ht Hw Hc H Hl Lp Hok Hwi) as ([path [k it]] & Ep & [Hpp (v & Hit & Hv)]).
    cbn [fst snd] in Hpp, Hit, Hv. subst it. destruct Hv as (Ha & _).
    destruct (drun_one _ _ Hbad) as [G | [_ Es]].
    { exfalso. unfold sgoodb in G. cbn [stmt_ok stmt_within] in G. rewrite Hd in Hwi.
      apply ltb_true in Lp. rewrite Hok, Lp, Hwi in G. discriminate. }
    rewrite <- (kv_stmt_den path k v p a Hpp Ha) in Es. apply step_invalid_from_data in Es.
    destruct (kv_step_invalid st S path k v HI Es) as (ce & Est).
    apply cuts_cut_err_fails. apply (fails_try_map_err _ _ _ (path, (k, IValue v)) _ ce Ep). cbv beta iota. rewrite Est. reflexivity.
  - (* the value is ill-defined or outside the limits: value_ commits *)
    apply cuts_cut_err, cuts_try_map. unfold cuts. rewrite parse_keyval_unfold.
    destruct Ht as (kt & w1 & w2 & v & -> & Hkt & Hw1 & Hw2 & Hv).
    assert (H1 : rest i = [] ++ kt ++ w1 ++ (x3d :: w2 ++ v ++ w ++ c ++ le ++ r)) by (rewrite H, <- !app_assoc; reflexivity).
    destruct (key_complete i [] kt p w1 _ eq_refl Hkt Hw1 H1
                (ex_intro _ x3d (ex_intro _ _ (conj eq_refl (or_introl eq_refl)))) Lp) as (kp & Ek & _).
    eapply cuts_bind_ok; [exact Ek|]. apply cuts_bind, cuts_cut_err. cbn [app]. set (j1 := adv (kt ++ w1) i).
    assert (R1 : rest j1 = x3d :: w2 ++ v ++ w ++ c ++ le ++ r) by (apply rest_adv; rewrite H1, <- !app_assoc; reflexivity).
    eapply cuts_bind_ok; [apply (context_ok _ _ _ _ (byte_ok KEYVAL_SEP j1 _ R1))|].
    assert (R2 : rest (adv [KEYVAL_SEP] j1) = w2 ++ v ++ w ++ c ++ le ++ r) by (apply (rest_adv [x3d]); exact R1).
    destruct (val_tok_head v a Hv) as (b & v' & E & Hb).
    assert (S2 : stops wschar (v ++ w ++ c ++ le ++ r)) by (rewrite E; apply (vhead_facts b Hb)).
    eapply cuts_bind_ok; [apply (span_ws_complete _ w2 _ R2 Hw2 S2)|]. apply cuts_bind.
    assert (Hf : vfollow (w ++ c ++ le ++ r)).
    { exists w, (c ++ le ++ r). split; [reflexivity|]. split; [exact Hw|apply opt_comment_lend_vstop; assumption]. }
    apply (value_reject v a _ _ Hv (rest_adv w2 _ _ R2) Hf).
    change (depth (adv w2 (adv [KEYVAL_SEP] j1))) with (depth i). rewrite Hd. exact Ga.
Qed.

Lemma header_reject arr st S i t p w c le r :
  table_tok arr t p -> ws_tok w -> opt_comment c -> rest i = (t ++ w ++ c) ++ le ++ r -> lend le r ->
  Inv st S -> drun (dstate S) [if arr then SArrHeader p else SHeader p] = RInvalid ->
  cuts (cut_err (table st)) i.
Proof.
  intros Ht Hw Hc H Hl HI Hbad.
  assert (Hr : rest i = t ++ ((w ++ c) ++ le ++ r)) by (rewrite H, <- !app_assoc; reflexivity).
  destruct (Nat.ltb (length p) LIMIT) eqn:Lp.
  - apply Nat.ltb_lt in Lp.
    destruct (header_text_complete arr i t p w c le r Ht Hw Hc H Hl Lp) as (kp & sp & tr & Eh & Hkp).
    assert (Hne : kp <> []).
    { intros ->. apply table_tok_eq in Ht as (w1 & k & w2 & _ & _ & Hk & _). apply (key_tok_nonempty _ _ Hk). rewrite <- Hkp. reflexivity. }
    destruct (pop_key_total kp Hne) as (pre & k & Ep). pose proof (pop_key_some _ _ _ Ep) as Ekp. subst kp.
    unfold keys in Hkp. rewrite map_app in Hkp. cbn [map] in Hkp. fold (keys pre) in Hkp.
    destruct (drun_one _ _ Hbad) as [G | [_ Es]].
    { exfalso. unfold sgoodb in G. apply ltb_true in Lp. destruct arr; cbn [stmt_ok stmt_within andb] in G; rewrite Lp in G; discriminate. }
    assert (Es' : spec_step false (dstate S) (stmt_map absv (hdr_stmt arr (keys pre ++ [k_key k]))) = RInvalid)
      by (rewrite Hkp; destruct arr; exact Es).
    clear Es. rename Es' into Es. apply step_invalid_from_data in Es.
    destruct (hdr_step_invalid arr st S pre k tr sp HI Es) as (ce & Est).
    apply cuts_cut_err_fails. unfold fails. rewrite (table_dispatch arr st i t p _ Ht Hr). apply context_fails.
    rewrite header_unfold. apply (fails_try_map_err _ _ _ ((pre ++ [k], sp), tr) _ ce Eh). cbv beta iota. rewrite Est. reflexivity.
  - (* too many key parts: `cut_err key` commits *)
    apply Nat.ltb_ge in Lp. apply cuts_cut_err. unfold cuts. rewrite (table_dispatch arr st i t p _ Ht Hr). apply cuts_context.
    rewrite header_unfold. apply cuts_try_map. unfold header_text, pair_. apply cuts_bind, cuts_with_span. unfold delimited.
    apply table_tok_eq in Ht as (w1 & kt & w2 & -> & Hw1 & Hkt & Hw2).
    assert (H0 : rest i = topen arr ++ w1 ++ kt ++ w2 ++ (tclose arr ++ w ++ c ++ le ++ r)) by (rewrite H, <- !app_assoc; reflexivity).
    eapply cuts_bind_ok; [apply (open_p_ok arr i _ H0)|]. apply cuts_bind, cuts_cut_err_fails.
    destruct (key_too_long _ w1 kt p w2 _ Hw1 Hkt Hw2 (rest_adv _ _ i H0) (tclose_key_stop arr _) Lp) as (j & Ek).
    exists (err_of RecursionLimit), j. exact Ek.
Qed.

Lemma line_p_reject st S i e l le r :
  item_tok e l -> rest i = e ++ le ++ r -> lend le r -> depth i = 0 -> Inv st S ->
  drun (dstate S) l = RInvalid -> exists b tl, rest i = b :: tl /\ cuts (line_p st b) i.
Proof.
  intros He H Hl Hd HI Hbad.
  destruct He as [|c Hc|t p a w c Ht Hw Hc|t p w c Ht Hw Hc|t p w c Ht Hw Hc]; try discriminate Hbad.
  - destruct (keyval_tok_khead t p a Ht) as (b & t' & Et & Hb). destruct (khead_facts b Hb) as (_ & B1 & B2 & B3 & B4).
    exists b, (t' ++ (w ++ c) ++ le ++ r). split; [rewrite H, Et, <- !app_assoc; reflexivity|].
    unfold line_p. rewrite B1, B2, B3, B4. cbn [orb].
    apply (keyval_reject st S i t p a w c le r Ht Hw Hc H Hl Hd HI Hbad).
  - destruct (table_tok_head false t p Ht) as (t' & Et).
    exists x5b, (t' ++ (w ++ c) ++ le ++ r). split; [rewrite H, Et, <- !app_assoc; reflexivity|].
    change (line_p st x5b) with (cut_err (table st)). apply (header_reject false st S i t p w c le r Ht Hw Hc H Hl HI Hbad).
  - destruct (table_tok_head true t p Ht) as (t' & Et).
    exists x5b, (t' ++ (w ++ c) ++ le ++ r). split; [rewrite H, Et, <- !app_assoc; reflexivity|].
    change (line_p st x5b) with (cut_err (table st)). apply (header_reject true st S i t p w c le r Ht Hw Hc H Hl HI Hbad).
Qed.

Lemma doc_line_reject st S i e l le r :
  item_tok e l -> rest i = e ++ le ++ r -> lend le r -> depth i = 0 -> Inv st S ->
  drun (dstate S) l = RInvalid -> cuts (doc_line st) i.
Proof.
  intros He H Hl Hd HI Hbad. destruct (line_p_reject st S i e l le r He H Hl Hd HI Hbad) as (b & tl & Hb & Hc).
  unfold cuts. rewrite doc_line_unfold. eapply cuts_bind_ok; [apply (peek_ok _ _ _ _ (any_ok i b tl Hb))|]. apply cuts_bind, Hc.
Qed.

(* ---- the loop ------------------------------------------------------------------------------------------------ *)
Lemma doc_loop_cut_line fuel st i : cuts (doc_line st) i -> 0 < fuel -> exists e j, doc_loop fuel st i = Cut e j.
Proof. intros (e & j & F) Hf. destruct fuel as [|f]; [lia|]. cbn [doc_loop]. rewrite F. eauto. Qed.

Lemma doc_loop_reject s l : toml_tok s l -> forall fuel w s' i st S,
  s = w ++ s' -> ws_tok w -> stops wschar s' -> rest i = s' -> depth i = 0 -> length s' < fuel -> Inv st S ->
  drun (dstate S) l = RInvalid -> exists e j, doc_loop fuel st i = Cut e j.
Proof.
  induction 1 as [e l He|e l nl t l' He Hn Ht IH]; intros fuel w s' i st S Es Hw Hs' Ri Hd Hfuel HI Hbad.
  - apply expression_item in He as (w1 & e' & -> & Hw1 & Hi).
    assert (Hse : stops wschar e').
    { destruct (item_cases e' l Hi) as [[-> _] | (b & tl & -> & Hb)]; [exact I|exact Hb]. }
    destruct (ws_prefix_unique w1 e' w s' Hw1 Hw Hse Hs' Es) as [-> ->].
    assert (H0 : rest i = s' ++ [] ++ []) by (rewrite Ri, !app_nil_r; reflexivity).
    apply doc_loop_cut_line; [|lia].
    apply (doc_line_reject st S i s' l [] [] Hi H0 (or_intror (conj eq_refl eq_refl)) Hd HI Hbad).
  - apply expression_item in He as (w1 & e' & -> & Hw1 & Hi).
    assert (Hse : stops wschar (e' ++ nl ++ t)).
    { destruct (item_cases e' l Hi) as [[-> _] | (b & tl & -> & Hb)]; [cbn [app]; apply newline_stops_wschar, Hn|exact Hb]. }
    rewrite <- app_assoc in Es.
    destruct (ws_prefix_unique w1 (e' ++ nl ++ t) w s' Hw1 Hw Hse Hs' Es) as [-> <-].
    rewrite drun_app in Hbad.
    destruct (drun (dstate S) l) as [X1| |] eqn:E1.
    + (* this line is fine; the failure is further down *)
      destruct (drun_ok _ _ _ E1) as (Hok & Hwi & Hf1).
      destruct (ws_split t) as (w' & t' & Et & Hw' & Hst').
      assert (H0 : rest i = e' ++ nl ++ w' ++ t') by (rewrite Ri, Et; reflexivity).
      assert (Hne : e' ++ nl <> []).
      { destruct (newline_tok_head nl Hn) as (b & tl & -> & _). destruct e'; discriminate. }
      destruct (doc_line_complete st S i e' l nl w' t' X1 Hi H0 (or_introl Hn) Hw' Hst' Hne Hd HI Hok Hwi Hf1)
        as (st1 & S1 & El & HI1 & EX).
      set (i1 := adv (e' ++ nl ++ w') i) in *.
      assert (R1 : rest i1 = t') by (apply rest_adv; rewrite H0, <- !app_assoc; reflexivity).
      assert (Ll : length (rest i1) < length (rest i)).
      { rewrite R1, H0, !app_length. destruct (newline_tok_head nl Hn) as (b & tl & -> & _). cbn [length]. lia. }
      destruct fuel as [|f]; [lia|]. rewrite <- EX in Hbad.
      destruct (IH f w' t' i1 st1 S1 Et Hw' Hst' R1 Hd ltac:(rewrite <- R1; rewrite Ri in Ll; lia) HI1 Hbad) as (e0 & j0 & Eloop).
      cbn [doc_loop]. rewrite El.
      destruct (Nat.eqb (length (rest i1)) (length (rest i))) eqn:Q; [apply Nat.eqb_eq in Q; lia|]. eauto.
    + (* this line fails *)
      assert (H0 : rest i = e' ++ nl ++ t) by exact Ri.
      apply doc_loop_cut_line; [|lia].
      apply (doc_line_reject st S i e' l nl t Hi H0 (or_introl Hn) Hd HI E1).
    + exfalso. apply (drun_decides l _ E1).
Qed.

(* ---- parse_document ---------------------------------------------------------------------------------------- *)
Theorem parse_document_reject s stmts :
  toml_text s stmts -> drun sstate0 stmts = RInvalid -> forall d, parse_document s <> POk d.
Proof.
  unfold toml_text. intros Ht Hbad d.
  assert (Eb : exists o bm, opt (lit bom) (new_input s) = Ok o (adv bm (new_input s)) /\ s = bm ++ strip_bom s).
  { destruct (strip_bom_cases s) as [(r & Er & ->) | [Hn ->]].
    - exists (Some bom), bom. split; [|exact Er]. apply opt_ok. apply (lit_ok bom (new_input s) r). exact Er.
    - exists None, []. split; [|reflexivity]. rewrite adv_nil. apply opt_fails, lit_fails. exact Hn. }
  destruct Eb as (o & bm & Eb & Es).
  destruct (ws_split (strip_bom s)) as (w & s' & Esb & Hw & Hs').
  set (i1 := adv bm (new_input s)).
  assert (R1 : rest i1 = w ++ s') by (apply rest_adv; cbn [new_input rest]; rewrite <- Esb; exact Es).
  destruct (parse_ws_complete state_new i1 w s' R1 Hw Hs') as (sp & Ew).
  set (i2 := adv w i1). assert (R2 : rest i2 = s') by (apply rest_adv; exact R1).
  change (@sstate0 dval) with (dstate sstate0) in Hbad.
  destruct (doc_loop_reject _ _ Ht (S (length (rest i2))) w s' i2 (on_ws state_new sp) sstate0 Esb Hw Hs' R2 eq_refl
              ltac:(rewrite R2; lia) (Inv_on_ws _ _ sp Inv_init) Hbad) as (e & j & El).
  assert (Ed : document (new_input s) = Cut e j).
  { rewrite document_unfold. rewrite (bind_ok _ _ _ _ _ Eb). fold i1. rewrite (bind_ok _ _ _ _ _ Ew). fold i2.
    unfold bind at 1. rewrite El. reflexivity. }
  unfold parse_document, parse_all. unfold bind at 1. rewrite Ed. discriminate.
Qed.

(* the outcome of the parser on a text, read off ANY derivation of that text *)
Theorem parse_document_total s d stmts :
  parse_document s = POk d -> toml_text s stmts ->
  forallb stmt_ok stmts = true /\ within_limits stmts = true /\ code_run (map stmt_den stmts) = Valid (abs_doc d).
Proof.
  intros Hp Ht. destruct (drun sstate0 stmts) as [[T cp]| |] eqn:E.
  - destruct (drun_ok _ _ _ E) as (Hok & Hwi & Hf).
    assert (Hc : code_run (map stmt_den stmts) = Valid T) by (unfold code_run, run; rewrite Hf; reflexivity).
    destruct (parse_document_complete s stmts T Ht Hok Hwi Hc) as (d' & Hd & Ha).
    rewrite Hp in Hd. injection Hd as <-. rewrite Ha. auto.
  - exfalso. apply (parse_document_reject s stmts Ht E d Hp).
  - exfalso. apply (drun_decides stmts _ E).
Qed.
