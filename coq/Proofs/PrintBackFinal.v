(* Proofs/PrintBackFinal.v — C03, class (c): a tree of sections whose sections are known (as a
   multiset, each with the text it was read from) prints as these texts in the order of their
   positions, provided every header prints with the spelling it has in the source. *)
From TV Require Import Base.Prelude Base.Utf8 Base.Winnow Gen.Consts Spec.Abnf Spec.Lex Spec.Syntax.
From TV Require Import Model.Datetime Model.Numbers Model.Tree Model.Parse Model.Document Model.Write Model.Encode.
From TV Require Import Proofs.SpansDefs Proofs.LexEquivBase Proofs.PrintBackBase Proofs.PrintBackEnc Proofs.PrintBackValue Proofs.PrintBackDoc Proofs.PrintBackSort
                       Proofs.PrintBackEnts Proofs.PrintBackDisplay Proofs.PrintBackSecs Proofs.PrintBackState Proofs.PrintBackHKey.
Require Import Lia ZifyBool ZifyN ZifyNat Sorting.Sorted Sorting.Permutation.

(* ---- every header prints as it is spelled in the source, at the start of its table's span --------------------- *)
Definition spelled (s : bytes) (r : tbl) : bool :=
  forallb (fun e : entry => let '(t, p, a) := e in
             negb (svis e) ||
             match t_span t with
             | Some sp => starts_with (hdr_text s p a) (skipn (N.to_nat (fst sp)) s)
             | None => false
             end) (sub_ents (t_items r) []).

(* ---- a section as read: its record, the text of its header key, its normal form ------------------------------- *)
Definition dsec : Type := (psec * bytes * bytes)%type.
Definition d_sec (d : dsec) : psec := fst (fst d).
Definition d_out (d : dsec) : bytes := snd d.
Definition plain_vals (vs : list (key * value)) : Prop := Forall (fun kv : key * value => vplain (snd kv) = true) vs.

Definition stext (s : bytes) (x : psec) (h : bytes) : bytes :=
  let '(q, (a, d, st, vs)) := x in
  raw_encode (traw s (match d_prefix d with Some r => r | None => REmpty end)) [] ++ h
  ++ raw_encode (traw s (match d_suffix d with Some r => r | None => REmpty end)) [] ++ [x0a]
  ++ flat_map (kv_line s) vs.

Definition root_ok (s : bytes) (d : dsec) : Prop :=
  let '(x, Y, ot) := d in
  fst x = 0%N /\ (plain_vals (snd (snd x)) -> flat_map (kv_line s) (snd (snd x)) = ot).

Definition hdr_ok (s : bytes) (d : dsec) : Prop :=
  let '(x, Y, ot) := d in
  exists q a lead trail start vs,
    x = (q, (a, decor_new lead trail, Some start, vs)) /\ q <> 0%N /\ hdr_at s start a Y
    /\ (plain_vals vs -> stext s x (hdr_open a ++ Y ++ hdr_close a) = ot).

(* ---- helper facts ------------------------------------------------------------------------------------------------ *)
Lemma map_pair_ext {A B C D} (f : A -> C) (g : B -> C) (F : A -> D) (G : B -> D) : forall l1 l2,
  map f l1 = map g l2 -> (forall a b, In a l1 -> In b l2 -> f a = g b -> F a = G b) -> map F l1 = map G l2.
Proof.
  induction l1 as [|a l1 IH]; intros [|b l2] E H; try discriminate; [reflexivity|]. cbn [map] in *. injection E as E1 E2.
  rewrite (H a b (or_introl eq_refl) (or_introl eq_refl) E1). f_equal. apply IH; [exact E2|].
  intros a0 b0 Ha Hb. apply H; right; assumption.
Qed.

Lemma sorted_lt_nodup (l : list N) : StronglySorted N.lt l -> NoDup l.
Proof.
  induction 1 as [|x l _ IH Hx]; constructor; [|exact IH]. intro Hin. rewrite Forall_forall in Hx. specialize (Hx x Hin). lia.
Qed.

Lemma ents_paths K :
  (forall v : value, True)
  /\ (forall it, forall p, uki K it -> Forall K p -> Forall (fun e => Forall K (epath e)) (ients it p))
  /\ (forall t, forall p a, uk K t -> Forall K p -> Forall (fun e => Forall K (epath e)) (ents t p a)).
Proof.
  apply tree_ind3; try (intros; exact I).
  - intros; constructor.
  - intros; constructor.
  - intros t IH p Hu Hp. rewrite ients_table. apply IH; assumption.
  - intros ts sp IH p Hu Hp. rewrite ients_aot. apply uki_aot in Hu. rewrite Forall_forall in IH, Hu. apply Forall_forall. intros e He.
    apply in_flat_map in He as (t & Ht & He). specialize (IH t Ht p true (Hu t Ht) Hp). rewrite Forall_forall in IH. apply IH, He.
  - intros items d im dt pos sp IH p a Hu Hp. rewrite ents_eq. apply uk_eq in Hu as (_ & _ & Hs). cbn [t_dotted t_items] in *.
    apply Forall_app. split; [destruct dt; constructor; [exact Hp|constructor]|].
    unfold sub_ents, uks in *. rewrite Forall_forall in *. intros e He. apply in_flat_map in He as ([k it] & Hk & He). cbn [fst snd] in He.
    destruct (Hs _ Hk) as [HK Hi]. cbn [fst snd] in *. destruct it as [|v|sub|ts asp]; [destruct He|destruct He| |].
    + specialize (IH _ Hk (p ++ [k]) Hi). cbn [snd] in IH. assert (Hpk : Forall K (p ++ [k])).
      { apply Forall_forall. intros x Hx. apply in_app_iff in Hx as [Hx | [<- | []]]; [apply Hp, Hx|apply HK; reflexivity]. }
      specialize (IH Hpk). rewrite Forall_forall in IH. apply IH, He.
    + specialize (IH _ Hk (p ++ [k]) Hi). cbn [snd] in IH. assert (Hpk : Forall K (p ++ [k])).
      { apply Forall_forall. intros x Hx. apply in_app_iff in Hx as [Hx | [<- | []]]; [apply Hp, Hx|apply HK; reflexivity]. }
      specialize (IH Hpk). rewrite Forall_forall in IH. apply IH, He.
Qed.

Lemma sub_ents_paths K r : uk K r -> Forall (fun e => Forall K (epath e)) (sub_ents (t_items r) []).
Proof.
  intro Hu. pose proof (proj2 (proj2 (ents_paths K)) r [] false Hu (Forall_nil _)) as H. rewrite ents_eq in H.
  apply Forall_app in H as [_ H]. exact H.
Qed.

Lemma sec_vals_plain t : sec_tbl t = true -> plain_vals (vals (t_items t)).
Proof.
  intro Hs. rewrite sec_tbl_eq in Hs. apply andb_true_iff in Hs as [_ Hi]. rewrite forallb_forall in Hi. unfold plain_vals, vals.
  apply Forall_forall. intros [k v] Hin. apply in_flat_map in Hin as ([k0 it] & Hk & Hin). specialize (Hi _ Hk). cbn [fst snd] in *.
  destruct it as [|v0|sub|ts asp]; [destruct Hin| |destruct Hin|destruct Hin]. destruct Hin as [E | []]. injection E as <- <-. exact Hi.
Qed.

(* ---- the theorem ---------------------------------------------------------------------------------------------------- *)
Theorem sections_render s r tr (d0 : dsec) (ds : list dsec) :
  sec_tbl r = true -> t_decor r = decor_default -> t_position r = None -> uk (hkey s) r ->
  Permutation (Proot r) (map d_sec (d0 :: ds)) -> root_ok s d0 -> Forall (hdr_ok s) ds ->
  StronglySorted N.lt (map (fun d => fst (d_sec d)) (d0 :: ds)) -> spelled s r = true ->
  display_document (ttbl s r) tr = concat (map d_out (d0 :: ds)) ++ raw_encode tr [].
Proof.
  intros Hs Hd Hp Hu Hperm H0 Hds Hsort Hsp.
  set (rest := sub_ents (t_items r) []) in *. set (root := (r, @nil key, false) : entry).
  pose proof (sub_ents_sec r Hs) as Hrest. fold rest in Hrest.
  pose proof (sub_ents_paths _ r Hu) as Hpaths. fold rest in Hpaths.
  assert (E1 : map pe (root :: filter svis rest) = Proot r).
  { cbn [map]. unfold Proot. f_equal. apply (sub_ents_P r Hs). }
  (* positions are distinct; the root has position 0 *)
  assert (Hnd : NoDup (map fst (Proot r))).
  { apply (Permutation_NoDup (l := map fst (map d_sec (d0 :: ds)))); [apply Permutation_map, Permutation_sym, Hperm|].
    rewrite map_map. apply sorted_lt_nodup, Hsort. }
  assert (Hq0 : fst (d_sec d0) = 0%N) by (destruct d0 as [[x Y] O]; apply H0).
  assert (Hqs : Forall (fun d => fst (d_sec d) <> 0%N) ds).
  { eapply Forall_impl; [|exact Hds]. intros [[x Y] O] (q & a & lead & trail & start & vs & -> & Hq & _). exact Hq. }
  assert (Hsub : forall e, In e (filter svis rest) -> fst (pe e) <> 0%N /\ exists d, In d ds /\ d_sec d = pe e).
  { intros e He. assert (Hin : In (pe e) (PI (t_items r))) by (rewrite <- (sub_ents_P r Hs); apply in_map, He).
    assert (Hne : fst (pe e) <> 0%N).
    { unfold Proot in Hnd. cbn [map] in Hnd. inversion Hnd as [|? ? Hni _]; subst. intro Hz. apply Hni.
      rewrite Hp, <- Hz. apply in_map, Hin. }
    split; [exact Hne|].
    assert (Hin2 : In (pe e) (map d_sec (d0 :: ds))) by (apply (Permutation_in _ Hperm); right; exact Hin).
    cbn [map] in Hin2. destruct Hin2 as [E | Hin2]; [rewrite <- E in Hne; congruence|].
    apply in_map_iff in Hin2 as (d & Ed & Hd0). exists d. auto. }
  rewrite (display_sections s r tr Hs Hd Hp).
  2:{ apply Forall_forall. intros e He Hv. assert (Hf : In e (filter svis rest)) by (apply filter_In; auto).
      destruct (Hsub e Hf) as [Hne (d & Hdin & Ed)]. split.
      - intro Hn. apply Hne. unfold pe, sec_of. cbn [fst]. rewrite Hn. reflexivity.
      - rewrite Forall_forall in Hds. specialize (Hds d Hdin). destruct d as [[x Y] O].
        destruct Hds as (q & a & lead & trail & start & vs & Ex & _). unfold d_sec in Ed. cbn [fst] in Ed. rewrite Ex in Ed.
        unfold pe, sec_of in Ed. injection Ed as _ _ Edec _ _. rewrite <- Edec. split; discriminate. }
  f_equal. f_equal.
  (* pair the entries with the sections read *)
  assert (Hperm' : Permutation (map pe (root :: filter svis rest)) (map d_sec (d0 :: ds))) by (rewrite E1; exact Hperm).
  apply Permutation_map_inv in Hperm' as (D' & ED' & HD').
  assert (Epair : map (fun e => (epos e, etxt s e)) (root :: filter svis rest) = map (fun d => (fst (d_sec d), d_out d)) D').
  { apply (map_pair_ext pe d_sec _ _ _ _ ED'). intros e d He Hdin Eed.
    assert (Hdin' : In d (d0 :: ds)) by (apply (Permutation_in _ (Permutation_sym HD')), Hdin).
    f_equal; [rewrite <- Eed; reflexivity|].
    destruct He as [<- | He].
    - (* the root section *)
      assert (Ed0 : d = d0).
      { destruct Hdin' as [E | Hin]; [symmetry; exact E|]. rewrite Forall_forall in Hqs. exfalso. apply (Hqs d Hin). rewrite <- Eed.
        unfold pe, sec_of, root, etbl. cbn [fst]. rewrite Hp. reflexivity. }
      subst d. destruct d0 as [[x Y] O]. unfold d_sec, d_out in *. cbn [fst snd] in *. destruct H0 as [_ H0]. subst x.
      unfold pe, sec_of, root, etbl in H0. cbn [fst snd] in H0. cbn [root etxt]. unfold ktext. apply H0, sec_vals_plain, Hs.
    - (* a header section *)
      destruct (Hsub e He) as [Hne _]. destruct Hdin' as [E | Hin]; [exfalso; apply Hne; rewrite Eed, <- E; exact Hq0|].
      rewrite Forall_forall in Hds. specialize (Hds d Hin). destruct d as [[x Y] O]. unfold d_sec, d_out in *. cbn [fst snd] in *.
      destruct Hds as (q & a & lead & trail & start & vs & Ex & _ & Hat & Hprom). apply filter_In in He as [He Hv].
      rewrite Forall_forall in Hrest, Hpaths. destruct (Hrest e He) as [Hse Hpe]. specialize (Hpaths e He).
      destruct e as [[t p] a']. unfold esec, epath, pe, etbl, sec_of in *. cbn [fst snd] in *. rewrite Ex in Eed.
      injection Eed as Eq Ea Edec Espan Evals. subst a'.
      (* the header as spelled *)
      unfold spelled in Hsp. rewrite forallb_forall in Hsp. specialize (Hsp _ He). cbn beta iota in Hsp. rewrite Hv in Hsp. cbn [negb orb] in Hsp.
      destruct (t_span t) as [sp|]; [|discriminate]. injection Espan as Estart. rewrite Estart in Hsp.
      pose proof (hdr_unique s p a start Y Hpaths Hpe Hat Hsp) as Eh.
      rewrite <- (Hprom ltac:(rewrite <- Evals; apply sec_vals_plain, Hse)). rewrite Ex. cbn [stext].
      destruct p as [|k0 p0]; [congruence|]. cbn [etxt]. unfold ktext. rewrite Eh, Edec, Evals. cbn [decor_new d_prefix d_suffix].
      reflexivity. }
  transitivity (map snd (map (fun d : dsec => (fst (d_sec d), d_out d)) (d0 :: ds))); [|rewrite map_map; reflexivity]. f_equal.
  change ((r, @nil key, false) :: filter svis (sub_ents (t_items r) [])) with (root :: filter svis rest).
  rewrite Epair. apply stable_sort_unique.
  - clear -Hsort. remember (d0 :: ds) as D eqn:ED. clear ED. induction D as [|d D IH]; [constructor|]. cbn [map] in *.
    inversion Hsort as [|? ? Hs' Hx]; subst. constructor; [apply IH, Hs'|]. rewrite Forall_map in *. exact Hx.
  - apply Permutation_map, Permutation_sym, HD'.
Qed.
