(* Proofs/MacroEval.v — C19: one expansion step of `invoke` per kind of rule body, and the judgement
   `Ev cur input r n`: every fuel >= n makes `invoke` return r on this input (r is never EFuel in uses).
   Fuel is the DEPTH of the expansion (a value is expanded inside the step of its statement). *)
From TV Require Import Base.Prelude Model.Macro Proofs.MacroMatch.

Definition Ev (cur : mval) (input : list tt) (r : eres mval) (n : nat) : Prop :=
  forall f, n <= f -> invoke f cur input = r.

Lemma Ev_mono : forall cur input r n m, Ev cur input r n -> n <= m -> Ev cur input r m.
Proof. intros cur input r n m H Hle f Hf. apply H. lia. Qed.

Lemma Ev_nothing : forall cur input e, first_match rules input = Some (BNothing, e) -> Ev cur input (EOk cur) 1.
Proof. intros cur input e H f Hf. destruct f as [|f]; [lia|]. cbn [invoke]. rewrite H. reflexivity. Qed.

Lemma Ev_invoke : forall cur input q e r n, first_match rules input = Some (BInvoke q, e) ->
  Ev cur (transcribe_seq q e) r n -> Ev cur input r (S n).
Proof.
  intros cur input q e r n H H1 f Hf. destruct f as [|f]; [lia|]. cbn [invoke]. rewrite H. apply H1. lia.
Qed.

Definition keys_of_env (top : bool) (x : var) (e : env) : eres (list bytes) :=
  pre <== (if top then path_strs (env_tts Vpath e) else EOk []) ;;
  ks <== key_strs (env_segs x e) ;;
  EOk (pre ++ ks).

Lemma Ev_insert : forall cur input top next e path v val cur' r n1 n2,
  first_match rules input = Some (BInsert top next, e) ->
  keys_of_env top Vk e = EOk path ->
  env_tt Vv e = EOk v ->
  Ev (MTab []) (state_toks id_value ++ [v]) (EOk val) n1 ->
  insert_toml cur path val = Some cur' ->
  Ev cur' (transcribe_seq next e) r n2 ->
  Ev cur input r (S (Nat.max n1 n2)).
Proof.
  intros cur input top next e path v val cur' r n1 n2 H Hk Hv H1 Hi H2 f Hf.
  destruct f as [|f]; [lia|]. cbn [invoke]. rewrite H.
  unfold keys_of_env in Hk. rewrite Hk. cbn [ebind]. rewrite Hv. cbn [ebind].
  rewrite (H1 f) by lia. cbn [ebind]. rewrite Hi. apply H2. lia.
Qed.

Lemma Ev_insert_dt : forall cur input top next e path val cur' r n,
  first_match rules input = Some (BInsertDt top next, e) ->
  keys_of_env top Vk e = EOk path ->
  datetime_value (env_tts Vdatetime e) = EOk val ->
  insert_toml cur path val = Some cur' ->
  Ev cur' (transcribe_seq next e) r n ->
  Ev cur input r (S n).
Proof.
  intros cur input top next e path val cur' r n H Hk Hv Hi H2 f Hf.
  destruct f as [|f]; [lia|]. cbn [invoke]. rewrite H.
  unfold keys_of_env in Hk. rewrite Hk. cbn [ebind]. rewrite Hv. cbn [ebind]. rewrite Hi. apply H2. lia.
Qed.

Lemma Ev_arrheader : forall cur input e path rt cur' r n,
  first_match rules input = Some (BArrHeader, e) ->
  key_strs (env_segs Vpath e) = EOk path ->
  env_tt Vroot e = EOk rt ->
  push_toml cur path = Some cur' ->
  Ev cur' (state_toks id_toplevel ++ [rt; TGroup DBracket (List.map path_tok path)] ++ env_tts Vrest e) r n ->
  Ev cur input r (S n).
Proof.
  intros cur input e path rt cur' r n H Hk Hr Hp H2 f Hf.
  destruct f as [|f]; [lia|]. cbn [invoke]. rewrite H. rewrite Hk. cbn [ebind]. rewrite Hr. cbn [ebind]. rewrite Hp.
  apply H2. lia.
Qed.

Lemma Ev_tabheader : forall cur input e path rt cur' r n,
  first_match rules input = Some (BTabHeader, e) ->
  key_strs (env_segs Vpath e) = EOk path ->
  env_tt Vroot e = EOk rt ->
  insert_table_toml cur path = Some cur' ->
  Ev cur' (state_toks id_toplevel ++ [rt; TGroup DBracket (List.map path_tok path)] ++ env_tts Vrest e) r n ->
  Ev cur input r (S n).
Proof.
  intros cur input e path rt cur' r n H Hk Hr Hp H2 f Hf.
  destruct f as [|f]; [lia|]. cbn [invoke]. rewrite H. rewrite Hk. cbn [ebind]. rewrite Hr. cbn [ebind]. rewrite Hp.
  apply H2. lia.
Qed.

Lemma Ev_arrpush : forall l input next e v val r n1 n2,
  first_match rules input = Some (BArrPush next, e) ->
  env_tt Vv e = EOk v ->
  Ev (MTab []) (state_toks id_value ++ [v]) (EOk val) n1 ->
  Ev (MArr (l ++ [val])) (transcribe_seq next e) r n2 ->
  Ev (MArr l) input r (S (Nat.max n1 n2)).
Proof.
  intros l input next e v val r n1 n2 H Hv H1 H2 f Hf.
  destruct f as [|f]; [lia|]. cbn [invoke]. rewrite H. rewrite Hv. cbn [ebind].
  rewrite (H1 f) by lia. cbn [ebind]. apply H2. lia.
Qed.

Lemma Ev_arrpush_dt : forall l input next e val r n,
  first_match rules input = Some (BArrPushDt next, e) ->
  datetime_value (env_tts Vdatetime e) = EOk val ->
  Ev (MArr (l ++ [val])) (transcribe_seq next e) r n ->
  Ev (MArr l) input r (S n).
Proof.
  intros l input next e val r n H Hv H2 f Hf.
  destruct f as [|f]; [lia|]. cbn [invoke]. rewrite H. rewrite Hv. cbn [ebind]. apply H2. lia.
Qed.

Lemma Ev_valtable : forall cur input q e r n,
  first_match rules input = Some (BValTable q, e) ->
  Ev (MTab []) (transcribe_seq q e) r n -> Ev cur input r (S n).
Proof.
  intros cur input q e r n H H1 f Hf. destruct f as [|f]; [lia|]. cbn [invoke]. rewrite H. apply H1. lia.
Qed.

Lemma Ev_valarray : forall cur input q e r n,
  first_match rules input = Some (BValArray q, e) ->
  Ev (MArr []) (transcribe_seq q e) r n -> Ev cur input r (S n).
Proof.
  intros cur input q e r n H H1 f Hf. destruct f as [|f]; [lia|]. cbn [invoke]. rewrite H. apply H1. lia.
Qed.

Lemma Ev_valconst : forall cur input c e,
  first_match rules input = Some (BValConst c, e) -> Ev cur input (EOk (MFloat c)) 1.
Proof. intros cur input c e H f Hf. destruct f as [|f]; [lia|]. cbn [invoke]. rewrite H. reflexivity. Qed.

Lemma Ev_valother : forall cur input e v r,
  first_match rules input = Some (BValOther, e) ->
  env_tt Vv e = EOk v -> rust_expr_value v = r -> Ev cur input r 1.
Proof.
  intros cur input e v r H Hv Hr f Hf. destruct f as [|f]; [lia|]. cbn [invoke]. rewrite H, Hv. cbn [ebind]. exact Hr.
Qed.

Lemma Ev_valneg : forall cur input e v r,
  first_match rules input = Some (BValNeg, e) ->
  env_tt Vv e = EOk v -> rust_neg_value v = r -> Ev cur input r 1.
Proof.
  intros cur input e v r H Hv Hr f Hf. destruct f as [|f]; [lia|]. cbn [invoke]. rewrite H, Hv. cbn [ebind]. exact Hr.
Qed.

(* the fuel the model gives itself is enough whenever some n below it is *)
Lemma Ev_macro_eval : forall ts r n, ts <> [] ->
  Ev (MTab []) (state_toks id_toplevel ++ [TIdent id_root; TGroup DBracket []] ++ ts) r n ->
  n <= default_fuel ts -> macro_eval ts = r.
Proof.
  intros ts r n Hne H Hn. unfold macro_eval, toml_macro. destruct ts as [|t ts']; [contradiction|]. apply H. exact Hn.
Qed.
