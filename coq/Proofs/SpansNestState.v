(* Proofs/SpansNestState.v — C14, nesting in tables: the ParseState machine keeps `tnest`.

   Working invariant `tnestH h t` = `tnest t` plus three facts that make it inductive:
     * every array-of-tables span ends at or before h (h = start of the current table's header: what was
       finalized earlier lies to the left — this orders the elements of an array of tables);
     * a table made of a dotted key has a span;
     * an implicit super-table holds no values (only a table made of a dotted key or the current table
       receives values).
   on_keyval_sp = insertion (descend_path) + span bookkeeping (set_dotted_spans) on the same path is
   treated as ONE step (`okf_sds_nest`), as state.rs performs it. *)
From TV Require Import Base.Prelude Base.Utf8 Base.Winnow Gen.Consts.
From TV Require Import Model.Trivia Model.Strings Model.Datetime Model.Numbers Model.Tree Model.Parse Model.Document.
From TV Require Import Proofs.NoPanicBase Proofs.NoPanicState.
From TV Require Import Proofs.SpansDefs Proofs.SpansBase Proofs.SpansLex Proofs.SpansValue Proofs.SpansState
                       Proofs.SpansNestLex Proofs.SpansNestInline.
Require Import Lia ZifyBool ZifyN ZifyNat.

Definition is_value (it : item) : bool := match it with IValue _ => true | _ => false end.
Definition no_values (m : kvs) : bool := forallb (fun kv => negb (is_value (snd kv))) m.

Section H.
  Variable h : N.
  Definition aot_end_ok (asp : ospan) : bool := match asp with Some sp => (snd sp <=? h)%N | None => true end.

  Fixpoint tnestH (t : tbl) : bool :=
    match t with
    | Tbl items _ im dt _ sp =>
      (negb dt || negb (ospan_none sp))
      && (negb (im && negb dt) || forallb (fun kv => negb (is_value (snd kv))) items)
      && forallb (fun kv =>
                    match snd kv with
                    | INone => true
                    | IValue v => tn_value sp (fst kv) v
                    | ITable sub => tnestH sub
                    | IAot ts asp =>
                      aot_nest (map t_span ts) asp && aot_end_ok asp
                      && forallb (fun e => negb (t_dotted e)) ts && forallb tnestH ts
                    end) items
    end.

  Definition tnH1 (sp : ospan) (kv : key * item) : bool :=
    match snd kv with
    | INone => true
    | IValue v => tn_value sp (fst kv) v
    | ITable sub => tnestH sub
    | IAot ts asp =>
      aot_nest (map t_span ts) asp && aot_end_ok asp && forallb (fun e => negb (t_dotted e)) ts && forallb tnestH ts
    end.
  Definition tflags (t : tbl) (m : kvs) (sp : ospan) : bool :=
    (negb (t_dotted t) || negb (ospan_none sp)) && (negb (t_implicit t && negb (t_dotted t)) || no_values m).

  Lemma tnestH_mk t m s : tnestH (t_set_span (t_set_items t m) s) = tflags t m s && forallb (tnH1 s) m.
  Proof. destruct t; reflexivity. Qed.
  Lemma tnestH_unfold t : tnestH t = tflags t (t_items t) (t_span t) && forallb (tnH1 (t_span t)) (t_items t).
  Proof. destruct t; reflexivity. Qed.
End H.

Lemma set_items_same t : t_set_items t (t_items t) = t. Proof. destruct t; reflexivity. Qed.
Lemma set_span_same t : t_set_span t (t_span t) = t. Proof. destruct t; reflexivity. Qed.
Lemma set_span_set_items t m s : t_set_span (t_set_items t m) s = t_set_items (t_set_span t s) m.
Proof. destruct t; reflexivity. Qed.
Lemma set_span_set_span t s1 s2 : t_set_span (t_set_span t s1) s2 = t_set_span t s2. Proof. destruct t; reflexivity. Qed.
Lemma set_items_set_items t m1 m2 : t_set_items (t_set_items t m1) m2 = t_set_items t m2. Proof. destruct t; reflexivity. Qed.
Lemma dotted_set_items t m : t_dotted (t_set_items t m) = t_dotted t. Proof. destruct t; reflexivity. Qed.
Lemma implicit_set_items t m : t_implicit (t_set_items t m) = t_implicit t. Proof. destruct t; reflexivity. Qed.
Lemma implicit_set_span t s : t_implicit (t_set_span t s) = t_implicit t. Proof. destruct t; reflexivity. Qed.
Lemma tflags_set_items t m m' s : tflags (t_set_items t m') m s = tflags t m s.
Proof. destruct t; reflexivity. Qed.
Lemma tflags_set_span t m s' s : tflags (t_set_span t s') m s = tflags t m s.
Proof. destruct t; reflexivity. Qed.

Lemma tnestH_set_span h t s : tnestH h (t_set_span t s) = tflags t (t_items t) s && forallb (tnH1 h s) (t_items t).
Proof. rewrite <- (set_items_same t) at 1. apply tnestH_mk. Qed.
Lemma tnestH_set_items h t m : tnestH h (t_set_items t m) = tflags t m (t_span t) && forallb (tnH1 h (t_span t)) m.
Proof. rewrite <- (set_span_same (t_set_items t m)). rewrite span_set_items. apply tnestH_mk. Qed.

(* ---- generic association-list facts ----------------------------------------------------------------------- *)
Section Fb.
  Variable P : key * item -> bool.
  Lemma fb_get m k k0 it : forallb P m = true -> kv_get m k = Some (k0, it) -> P (k0, it) = true.
  Proof.
    induction m as [|[k1 v1] m IH]; cbn [kv_get forallb]; [discriminate|].
    intros H E. apply andb_true_iff in H as [H1 H2]. destruct (bytes_eqb _ _); [inversion E; subst; exact H1|].
    apply IH; assumption.
  Qed.
  Lemma fb_set m k k0 old new : forallb P m = true -> kv_get m k = Some (k0, old) -> P (k0, new) = true ->
    forallb P (kv_set m k new) = true.
  Proof.
    induction m as [|[k1 v1] m IH]; cbn [kv_get kv_set forallb]; [discriminate|].
    intros H E Hn. apply andb_true_iff in H as [H1 H2]. destruct (bytes_eqb _ _); cbn [forallb].
    - inversion E; subst. rewrite Hn. exact H2.
    - rewrite H1. apply IH; assumption.
  Qed.
  Lemma fb_push m k v : forallb P m = true -> P (k, v) = true -> forallb P (kv_push m k v) = true.
  Proof. intros H1 H2. unfold kv_push. rewrite forallb_app, H1. cbn. rewrite H2. reflexivity. Qed.
  Lemma fb_remove m k : forallb P m = true -> forallb P (kv_remove m k) = true.
  Proof.
    induction m as [|[k1 v1] m IH]; [reflexivity|]. cbn [kv_remove forallb]. intro H.
    apply andb_true_iff in H as [Ha Hb]. destruct (bytes_eqb _ _); [exact Hb|]. cbn [forallb]. rewrite Ha. apply IH, Hb.
  Qed.
End Fb.

Lemma no_values_set m k k0 old new : no_values m = true -> kv_get m k = Some (k0, old) -> is_value new = false ->
  no_values (kv_set m k new) = true.
Proof. intros H G N. eapply (fb_set (fun kv => negb (is_value (snd kv)))); eauto. cbn [snd]. rewrite N. reflexivity. Qed.
Lemma no_values_push m k v : no_values m = true -> is_value v = false -> no_values (kv_push m k v) = true.
Proof. intros H N. apply (fb_push (fun kv => negb (is_value (snd kv)))); auto. cbn [snd]. rewrite N. reflexivity. Qed.

(* flags: a table update that stores no value keeps the flags *)
Lemma tflags_keep t m m' s : tflags t m s = true -> (no_values m = true -> no_values m' = true) -> tflags t m' s = true.
Proof.
  unfold tflags. intros H Hn. apply andb_true_iff in H as [H1 H2]. rewrite H1. cbn [andb].
  destruct (negb (t_implicit t && negb (t_dotted t))); [reflexivity|]. cbn [orb] in *. auto.
Qed.

(* ---- widening a table's span keeps its own keys and values inside ------------------------------------------ *)
Lemma tn_value_widen a b a' b' k v : (a' <= a)%N -> (b <= b')%N ->
  tn_value (Some (a, b)) k v = true -> tn_value (Some (a', b')) k v = true.
Proof.
  intros L U. unfold tn_value. intro H. apply andb_true_iff in H as [H1 H2]. apply andb_true_iff in H1 as [H1 H3].
  unfold kspan_in in *. rewrite (oraw_in_mono a b a' b' L U _ H1), (osp_in_mono a b a' b' L U _ H3), H2. reflexivity.
Qed.
Lemma tnH1_widen h a b a' b' kv : (a' <= a)%N -> (b <= b')%N -> tnH1 h (Some (a, b)) kv = true -> tnH1 h (Some (a', b')) kv = true.
Proof.
  intros L U. unfold tnH1. destruct (snd kv) as [|v|sub|ts asp]; auto. apply tn_value_widen; assumption.
Qed.
Lemma tnestH_widen h t a b a' b' : (a' <= a)%N -> (b <= b')%N ->
  tnestH h t = true -> t_span t = Some (a, b) -> tnestH h (t_set_span t (Some (a', b'))) = true.
Proof.
  intros L U H S. rewrite tnestH_unfold, S in H. apply andb_true_iff in H as [H1 H2]. rewrite tnestH_set_span.
  apply andb_true_iff. split.
  - unfold tflags in *. apply andb_true_iff in H1 as [_ H1]. rewrite H1. cbn [ospan_none negb]. rewrite orb_true_r. reflexivity.
  - revert H2. apply forallb_Forall_imp. apply Forall_forall. intros kv _. apply tnH1_widen; assumption.
Qed.

(* ---- monotone in h; implies the official predicate ----------------------------------------------------------- *)
Section TblInd.
  Variable P : tbl -> Prop.
  Hypothesis Hstep : forall items d im dt p sp,
      Forall (fun kv : key * item => match snd kv with
                                     | ITable sub => P sub
                                     | IAot ts _ => Forall P ts
                                     | _ => True
                                     end) items -> P (Tbl items d im dt p sp).
  Lemma tbl_ind2 : forall t, P t.
  Proof.
    apply (tree_ind3 (fun _ => True) (fun it => match it with ITable sub => P sub | IAot ts _ => Forall P ts | _ => True end) P); auto.
  Qed.
End TblInd.

Lemma tnestH_mono h h' : (h <= h')%N -> forall t, tnestH h t = true -> tnestH h' t = true.
Proof.
  intro Hle. apply (tbl_ind2 (fun t => tnestH h t = true -> tnestH h' t = true)).
  intros items d im dt p sp IH H. rewrite tnestH_unfold in *. cbn [t_items t_span] in *.
  apply andb_true_iff in H as [H1 H2]. rewrite H1. cbn [andb]. revert H2. apply forallb_Forall_imp.
  eapply Forall_impl; [|exact IH]. intros [k it] Hk. unfold tnH1. cbn [snd fst] in *.
  destruct it as [|v|sub|ts asp]; auto. intro H. apply andb4 in H as (A1 & A2 & A3 & A4). apply andb4. repeat split; auto.
  - unfold aot_end_ok in *. destruct asp as [sp0|]; [nlia|reflexivity].
  - revert A4. apply forallb_Forall_imp. exact Hk.
Qed.

Lemma tnestH_tnest h : forall t, tnestH h t = true -> tnest t = true.
Proof.
  apply (tbl_ind2 (fun t => tnestH h t = true -> tnest t = true)).
  intros items d im dt p sp IH H. rewrite tnestH_unfold in H. cbn [t_items t_span] in H.
  apply andb_true_iff in H as [H1 H2]. unfold tflags in H1. cbn [t_dotted t_implicit] in H1. apply andb_true_iff in H1 as [H1 _].
  change (tnest (Tbl items d im dt p sp)) with
      ((negb dt || negb (ospan_none sp))
       && forallb (fun kv => match snd kv with
                             | INone => true
                             | IValue v => tn_value sp (fst kv) v
                             | ITable sub => tnest sub
                             | IAot ts asp => aot_nest (map t_span ts) asp && forallb (fun e => negb (t_dotted e)) ts && forallb tnest ts
                             end) items).
  rewrite H1. cbn [andb]. revert H2. apply forallb_Forall_imp.
  eapply Forall_impl; [|exact IH]. intros [k it] Hk. unfold tnH1. cbn [snd fst] in *.
  destruct it as [|v|sub|ts asp]; auto. intro H. apply andb4 in H as (A1 & A2 & A3 & A4). apply andb3. repeat split; auto.
  revert A4. apply forallb_Forall_imp. exact Hk.
Qed.

(* ---- flags and span through descend_path / set_dotted_spans ---------------------------------------------------- *)
Lemma wta_flags {X} : forall path t dotted (f : tbl -> cres (tbl * X)) t' x,
  (forall p p' y, f p = COk (p', y) -> t_dotted p' = t_dotted p /\ t_implicit p' = t_implicit p) ->
  with_table_at t path dotted f = COk (t', x) -> t_dotted t' = t_dotted t /\ t_implicit t' = t_implicit t.
Proof.
  induction path as [|k ptl IH]; intros t dotted f t' x Hf E; cbn [with_table_at] in E; [eapply Hf, E|].
  destruct (kv_get (t_items t) (k_key k)) as [[k' it]|].
  - destruct it as [|v|sub|ts sp]; try discriminate E.
    + destruct (dotted && negb (t_implicit sub)); [discriminate|].
      destruct (with_table_at sub ptl dotted f) as [[sub' y]| |]; try discriminate E. inversion E; subst.
      rewrite dotted_set_items, implicit_set_items. auto.
    + destruct (dotted && _); [discriminate|]. destruct (rev ts) as [|last rinit]; [discriminate|].
      destruct (with_table_at last ptl dotted f) as [[last' y]| |]; try discriminate E. inversion E; subst.
      rewrite dotted_set_items, implicit_set_items. auto.
  - destruct (with_table_at _ ptl dotted f) as [[sub' y]| |]; try discriminate E. inversion E; subst.
    rewrite dotted_set_items, implicit_set_items. auto.
Qed.

Lemma sds_props : forall path t ve,
  t_span (set_dotted_spans t path ve) = t_span t /\ t_dotted (set_dotted_spans t path ve) = t_dotted t
  /\ t_implicit (set_dotted_spans t path ve) = t_implicit t.
Proof.
  intros [|k ptl] t ve; cbn [set_dotted_spans]; [auto|].
  destruct (kv_get (t_items t) (k_key k)) as [[k' it]|]; [|auto]. destruct it; auto.
  rewrite span_set_items, dotted_set_items, implicit_set_items. auto.
Qed.

(* ---- on_keyval_sp as one step --------------------------------------------------------------------------------------- *)
Section Step.
  Variable h : N.
  Variables (k' : key) (val : value) (pe : bool) (mid av e : N).
  Hypothesis Sv : value_span val = Some (av, e).
  Hypothesis L1 : (mid <= av)%N.
  Hypothesis L2 : (av <= e)%N.
  Hypothesis Hval : vnest val = true.

  Definition okf : tbl -> cres (tbl * unit) :=
    fun table =>
      if Bool.eqb (t_dotted table) pe then CErr DuplicateKey
      else match kv_get (t_items table) (k_key k') with
           | None => COk (t_set_items table (kv_push (t_items table) k' (IValue val)), tt)
           | Some _ => CErr DuplicateKey
           end.

  Lemma okf_flags p p' y : okf p = COk (p', y) -> t_dotted p' = t_dotted p /\ t_implicit p' = t_implicit p.
  Proof.
    unfold okf. destruct (Bool.eqb _ _); [discriminate|]. destruct (kv_get _ _); [discriminate|].
    intro E; inversion E; subst. rewrite dotted_set_items, implicit_set_items. auto.
  Qed.
  Lemma okf_span p p' y : okf p = COk (p', y) -> t_span p' = t_span p.
  Proof.
    unfold okf. destruct (Bool.eqb _ _); [discriminate|]. destruct (kv_get _ _); [discriminate|].
    intro E; inversion E; subst. apply span_set_items.
  Qed.

  Lemma okf_sds_nest : forall path t s c t' u,
    tnestH h (t_set_span t s) = true ->
    kchain c mid (path ++ [k']) ->
    ((t_dotted t = true \/ pe = true) -> forall a b, s = Some (a, b) -> (a <= c)%N /\ (e <= b)%N) ->
    (pe = true -> t_implicit t = false) ->
    (path <> [] -> pe = false) ->
    with_table_at t path true okf = COk (t', u) ->
    tnestH h (set_dotted_spans (t_set_span t' s) path (Some e)) = true.
  Proof.
    induction path as [|pk ptl IH]; intros t s c t' u Ht Hch Hwin Himp Hpe E; cbn [with_table_at] in E.
    - (* the table that receives the key/value pair *)
      cbn [set_dotted_spans]. unfold okf in E. destruct (Bool.eqb (t_dotted t) pe) eqn:B; [discriminate|].
      destruct (kv_get (t_items t) (k_key k')); [discriminate|]. inversion E; subst t'. clear E.
      rewrite tnestH_set_span in Ht. apply andb_true_iff in Ht as [F1 F2]. rewrite tnestH_mk. apply andb_true_iff. split.
      + unfold tflags in *. apply andb_true_iff in F1 as [F1 _]. rewrite F1. cbn [andb].
        destruct (t_implicit t) eqn:Im; [|reflexivity]. destruct (t_dotted t) eqn:Dt; [reflexivity|].
        destruct (Bool.bool_dec pe true) as [Pq|Pq].
        { pose proof (Himp Pq) as X. discriminate X. }
        apply Bool.not_true_is_false in Pq. rewrite Pq in B. discriminate B.
      + apply fb_push; [exact F2|]. unfold tnH1. cbn [snd fst]. unfold tn_value. rewrite Hval, andb_true_r.
        destruct s as [[a b]|]; [|reflexivity].
        assert (Hp : t_dotted t = true \/ pe = true).
        { destruct (t_dotted t); [auto|]. right. destruct (Bool.bool_dec pe true) as [Pq|Pq]; [exact Pq|].
          apply Bool.not_true_is_false in Pq. rewrite Pq in B. discriminate B. }
        destruct (Hwin Hp a b eq_refl) as [La Ub].
        unfold kchain in Hch. cbn [app map chain] in Hch. destruct Hch as (x & y & Sk & G1 & G2 & G3).
        rewrite (kspan_of_key_span a b k' x y Sk) by nlia. rewrite Sv. cbn [osp_in]. apply sp_in_pair; nlia.
    - assert (Pe : pe = false) by (apply Hpe; discriminate).
      unfold kchain in Hch. cbn [app map chain] in Hch. destruct Hch as (x & y & Sk & G1 & G2 & G3).
      fold (kchain y mid (ptl ++ [k'])) in G3. pose proof (chain_le _ _ _ G3) as Gle.
      rewrite tnestH_set_span in Ht. apply andb_true_iff in Ht as [F1 F2].
      destruct (kv_get (t_items t) (k_key pk)) as [[k0 it]|] eqn:G.
      + pose proof (fb_get _ _ _ _ _ F2 G) as Hit. destruct it as [|v|sub|ts asp]; try discriminate E.
        * (* an existing table: implicit *)
          cbn [andb] in E. destruct (negb (t_implicit sub)) eqn:Imp; [discriminate|].
          destruct (with_table_at sub ptl true okf) as [[sub' y0]| |] eqn:R; try discriminate E. inversion E; subst t' u. clear E.
          unfold tnH1 in Hit. cbn [snd] in Hit.
          destruct (wta_flags _ _ _ _ _ _ okf_flags R) as [Fd Fi]. pose proof (wta_span _ _ _ _ _ _ okf_span R) as Fs.
          cbn [set_dotted_spans]. rewrite items_set_span, items_set_items, (kv_get_set _ _ _ _ _ G). rewrite Fd, Sk, Fs.
          rewrite kv_set_set. rewrite <- set_span_set_items, set_items_set_items.
          set (sub1 := if t_dotted sub then t_set_span sub' (widen (t_span sub) (x, y) e) else sub').
          assert (HY : tnestH h (set_dotted_spans sub1 ptl (Some e)) = true
                       /\ (is_value (ITable (set_dotted_spans sub1 ptl (Some e))) = false)).
          { split; [|reflexivity]. subst sub1. destruct (t_dotted sub) eqn:Dt.
            - (* a table made of a dotted key: widened *)
              rewrite tnestH_unfold in Hit. pose proof Hit as Hit0. apply andb_true_iff in Hit as [Fl _].
              unfold tflags in Fl. rewrite Dt in Fl. cbn [negb orb andb] in Fl. apply andb_true_iff in Fl as [Fl _].
              destruct (t_span sub) as [[a0 b0]|] eqn:Ss; [|discriminate Fl]. unfold widen; cbn [fst snd].
              eapply (IH sub (Some (N.min a0 x, N.max b0 e)) y); [| | | | |exact R].
              + apply (tnestH_widen h sub a0 b0); [nlia|nlia|rewrite tnestH_unfold, Ss; exact Hit0|exact Ss].
              + exact G3.
              + intros _ a b Eab. inversion Eab; subst. nlia.
              + intro X; rewrite X in Pe; discriminate.
              + intros _. exact Pe.
            - (* an implicit super-table on the way: untouched *)
              rewrite <- (set_span_same sub'). rewrite Fs.
              eapply (IH sub (t_span sub) y); [| | | | |exact R].
              + rewrite set_span_same. exact Hit.
              + exact G3.
              + intros [X|X]; [rewrite X in Dt; discriminate|rewrite X in Pe; discriminate].
              + intro X; rewrite X in Pe; discriminate.
              + intros _. exact Pe. }
          destruct HY as [HY HYv]. rewrite tnestH_mk. apply andb_true_iff. split.
          -- eapply tflags_keep; [exact F1|]. intro Nv. eapply no_values_set; eauto.
          -- eapply fb_set; [exact F2|exact G|]. unfold tnH1. cbn [snd]. exact HY.
        * (* an array of tables: a dotted key never extends one *)
          destruct ptl as [|x0 ptl0]; cbn [andb] in E; [|discriminate].
          destruct (rev ts) as [|last rinit] eqn:Rv; [discriminate|]. cbn [with_table_at] in E.
          unfold tnH1 in Hit. cbn [snd] in Hit. apply andb4 in Hit as (_ & _ & A3 & _).
          rewrite <- forallb_rev, Rv in A3. cbn [forallb] in A3. apply andb_true_iff in A3 as [A3 _].
          unfold okf in E. rewrite Pe in E. destruct (t_dotted last); [discriminate A3|]. cbn [Bool.eqb] in E. discriminate E.
      + (* a new table made of a dotted key *)
        destruct (with_table_at (Tbl [] decor_default true true None None) ptl true okf) as [[sub' y0]| |] eqn:R; try discriminate E.
        inversion E; subst t' u. clear E.
        destruct (wta_flags _ _ _ _ _ _ okf_flags R) as [Fd Fi]. pose proof (wta_span _ _ _ _ _ _ okf_span R) as Fs.
        cbn [t_dotted t_span] in Fd, Fs.
        cbn [set_dotted_spans]. rewrite items_set_span, items_set_items, (kv_get_push _ _ _ G). rewrite Fd, Sk, Fs.
        unfold widen; cbn [fst snd]. rewrite (kv_set_push_none _ _ _ _ G). rewrite <- set_span_set_items, set_items_set_items.
        assert (HY : tnestH h (set_dotted_spans (t_set_span sub' (Some (x, e))) ptl (Some e)) = true).
        { eapply (IH (Tbl [] decor_default true true None None) (Some (x, e)) y); [| | | | |exact R].
          - reflexivity.
          - exact G3.
          - intros _ a b Eab. inversion Eab; subst. nlia.
          - intro X; rewrite X in Pe; discriminate.
          - intros _. exact Pe. }
        rewrite tnestH_mk. apply andb_true_iff. split.
        -- eapply tflags_keep; [exact F1|]. intro Nv. apply no_values_push; [exact Nv|reflexivity].
        -- apply fb_push; [exact F2|]. unfold tnH1. cbn [snd]. exact HY.
  Qed.
End Step.

(* ---- the state invariant ------------------------------------------------------------------------------------------------ *)
Definition st_nest (st : pstate) : Prop :=
  exists a b, t_span (st_current st) = Some (a, b)
              /\ tnestH a (st_root st) = true /\ tnestH a (st_current st) = true
              /\ t_dotted (st_current st) = false /\ t_implicit (st_current st) = false.

Lemma st_nest_new : st_nest state_new.
Proof. exists 0%N, 0%N. cbn. auto. Qed.
Lemma st_nest_on_ws st sp : st_nest st -> st_nest (on_ws st sp).
Proof. intros H. exact H. Qed.

Lemma map_key_span_set_leaf path k d : map key_span (path ++ [set_leaf k d]) = map key_span (path ++ [k]).
Proof. rewrite !map_app. reflexivity. Qed.

Lemma on_keyval_sp_nest p c mid av e st path k val st' :
  st_in p st -> st_nest st -> (p <= c)%N ->
  kchain c mid (path ++ [k]) -> value_span val = Some (av, e) -> (mid <= av)%N -> (av <= e)%N -> vnest val = true ->
  on_keyval_sp st path k (IValue val) = COk st' -> st_nest st'.
Proof.
  intros (a0 & b0 & S0 & I1 & I2 & _) (a & b & S & Hr & Hc & Hd & Hi) Lc Hch Sv L1 L2 Hval E.
  rewrite S in S0. inversion S0; subst a0 b0. clear S0. pose proof (chain_le _ _ _ Hch) as Cle.
  unfold on_keyval_sp in E. destruct (on_keyval st path k (IValue val)) as [st1| |] eqn:R; try discriminate E.
  inversion E; subst st'. clear E. unfold on_keyval in R. cbv zeta in R. cbn [item_span] in R. rewrite S, Sv in R. cbn [fst snd] in R.
  set (k' := set_leaf k _) in *. set (pe := match path with [] => true | _ => false end) in *.
  set (cur1 := t_set_span (st_current st) (Some (a, e))) in *.
  match type of R with context [with_table_at cur1 path true ?f] => change f with (okf k' val pe) in R end.
  destruct (with_table_at cur1 path true (okf k' val pe)) as [[cur' u]| |] eqn:W; try discriminate R. inversion R; subst st1. clear R.
  cbn [st_root st_current st_trailing st_position st_is_array st_path]. unfold item_end. cbn [item_span]. rewrite Sv. cbn [snd].
  destruct (wta_flags _ _ _ _ _ _ (okf_flags k' val pe) W) as [Fd Fi]. pose proof (wta_span _ _ _ _ _ _ (okf_span k' val pe) W) as Fs.
  subst cur1. rewrite span_set_span in Fs. rewrite dotted_set_span in Fd. rewrite implicit_set_span in Fi.
  destruct (sds_props path cur' (Some e)) as (P1 & P2 & P3).
  exists a, e. cbn [st_current st_root]. rewrite P1, P2, P3, Fs, Fd, Fi. repeat split; auto.
  rewrite <- (set_span_same cur'), Fs.
  eapply (okf_sds_nest a k' val pe mid av e Sv L1 L2 Hval path _ (Some (a, e)) c); [| | | | |exact W].
  - rewrite set_span_set_span. eapply tnestH_widen; [| |exact Hc|exact S]; nlia.
  - unfold kchain. subst k'. rewrite map_key_span_set_leaf. exact Hch.
  - intros _ x y Exy. inversion Exy; subst. nlia.
  - intros _. rewrite implicit_set_span. exact Hi.
  - subst pe. destruct path; [congruence|reflexivity].
Qed.

(* ---- descend_path for headers (dotted = false) --------------------------------------------------------------------------- *)
Lemma tnH1_mono h h' sp kv : (h <= h')%N -> tnH1 h sp kv = true -> tnH1 h' sp kv = true.
Proof.
  intros Hle. unfold tnH1. destruct (snd kv) as [|v|sub|ts asp]; auto; [apply tnestH_mono, Hle|].
  intro H. apply andb4 in H as (A1 & A2 & A3 & A4). apply andb4. repeat split; auto.
  - unfold aot_end_ok in *. destruct asp; [nlia|reflexivity].
  - revert A4. apply forallb_Forall_imp. apply Forall_forall. intros t _. apply tnestH_mono, Hle.
Qed.
Lemma tnH1_novalue h sp sp' kv : is_value (snd kv) = false -> tnH1 h sp kv = tnH1 h sp' kv.
Proof. unfold tnH1. destruct (snd kv); [reflexivity|discriminate|reflexivity|reflexivity]. Qed.

Lemma map_span_rev_last (last last' : tbl) rinit :
  t_span last' = t_span last -> map t_span (rev (last' :: rinit)) = map t_span (rev (last :: rinit)).
Proof. intro H. cbn [rev]. rewrite !map_app. cbn [map]. rewrite H. reflexivity. Qed.

Definition wpost (h : N) {X} (Q : X -> Prop) (t : tbl) : tbl -> X -> Prop :=
  fun t' x => tnestH h t' = true /\ t_span t' = t_span t /\ t_dotted t' = t_dotted t /\ Q x.

Lemma wta_nest h h' {X} (Q : X -> Prop) : (h <= h')%N ->
  forall path t (f : tbl -> cres (tbl * X)),
  tnestH h t = true ->
  (forall p, tnestH h p = true -> cres_post (wpost h' Q p) (f p)) ->
  cres_post (wpost h' Q t) (with_table_at t path false f).
Proof.
  intros Hle. induction path as [|k ptl IH]; intros t f Ht Hf; cbn [with_table_at]; [apply Hf, Ht|].
  pose proof (tnestH_mono h h' Hle t Ht) as Ht'. rewrite tnestH_unfold in Ht, Ht'.
  apply andb_true_iff in Ht as [F1 F2]. apply andb_true_iff in Ht' as [F1' F2'].
  destruct (kv_get (t_items t) (k_key k)) as [[k0 it]|] eqn:G.
  - pose proof (fb_get _ _ _ _ _ F2 G) as Hit. destruct it as [|v|sub|ts asp]; try exact I.
    + cbn [andb]. unfold tnH1 in Hit; cbn [snd] in Hit. specialize (IH sub f Hit Hf).
      destruct (with_table_at sub ptl false f) as [[sub' x]| |]; try exact I. destruct IH as (N1 & N2 & N3 & N4).
      cbn [cres_post]. unfold wpost. rewrite span_set_items, dotted_set_items. repeat split; auto.
      rewrite tnestH_set_items. apply andb_true_iff. split.
      * eapply tflags_keep; [exact F1'|]. intro Nv. eapply no_values_set; eauto.
      * eapply fb_set; [exact F2'|exact G|]. unfold tnH1; cbn [snd]. exact N1.
    + cbn [andb]. destruct (rev ts) as [|last rinit] eqn:Rv; [exact I|].
      unfold tnH1 in Hit; cbn [snd] in Hit. apply andb4 in Hit as (A1 & A2 & A3 & A4).
      assert (Hl : tnestH h last = true /\ forallb (tnestH h) rinit = true).
      { rewrite <- forallb_rev, Rv in A4. cbn [forallb] in A4. apply andb_true_iff in A4. exact A4. }
      destruct Hl as [Hl Hri]. specialize (IH last f Hl Hf).
      destruct (with_table_at last ptl false f) as [[last' x]| |]; try exact I. destruct IH as (N1 & N2 & N3 & N4).
      cbn [cres_post]. unfold wpost. rewrite span_set_items, dotted_set_items. repeat split; auto.
      rewrite tnestH_set_items. apply andb_true_iff. split.
      * eapply tflags_keep; [exact F1'|]. intro Nv. eapply no_values_set; eauto.
      * eapply fb_set; [exact F2'|exact G|]. unfold tnH1; cbn [snd]. apply andb4. repeat split.
        -- rewrite (map_span_rev_last last last' rinit N2), <- Rv, rev_involutive. exact A1.
        -- unfold aot_end_ok in *. destruct asp; [nlia|reflexivity].
        -- rewrite forallb_rev. cbn [forallb]. rewrite N3. rewrite <- forallb_rev, Rv in A3. exact A3.
        -- rewrite forallb_rev. cbn [forallb]. rewrite N1. cbn [andb]. revert Hri. apply forallb_Forall_imp.
           apply Forall_forall. intros t0 _. apply tnestH_mono, Hle.
  - specialize (IH (Tbl [] decor_default true false None None) f eq_refl Hf).
    destruct (with_table_at _ ptl false f) as [[sub' x]| |]; try exact I. destruct IH as (N1 & N2 & N3 & N4).
    cbn [cres_post]. unfold wpost. rewrite span_set_items, dotted_set_items. repeat split; auto.
    rewrite tnestH_set_items. apply andb_true_iff. split.
    + eapply tflags_keep; [exact F1'|]. intro Nv. apply no_values_push; [exact Nv|reflexivity].
    + apply fb_push; [exact F2'|]. unfold tnH1; cbn [snd]. exact N1.
Qed.

(* ---- finalize_table -------------------------------------------------------------------------------------------------------- *)
Lemma f_fin_std_nest h k table parent :
  tnestH h table = true -> tnestH h parent = true -> cres_post (wpost h (fun _ : unit => True) parent) (f_fin_std k table parent).
Proof.
  intros Ht Hp. rewrite tnestH_unfold in Hp. apply andb_true_iff in Hp as [F1 F2]. unfold f_fin_std.
  destruct (kv_get (t_items parent) (k_key k)) as [[k0 it]|] eqn:G.
  - destruct it as [|v|t|ts sp]; try exact I. destruct (t_implicit t); [|exact I]. cbn [cres_post]. unfold wpost.
    rewrite span_set_items, dotted_set_items. repeat split; auto. rewrite tnestH_set_items. apply andb_true_iff. split.
    + eapply tflags_keep; [exact F1|]. intro Nv. eapply no_values_set; eauto.
    + eapply fb_set; [exact F2|exact G|]. unfold tnH1; cbn [snd]. exact Ht.
  - cbn [cres_post]. unfold wpost. rewrite span_set_items, dotted_set_items. repeat split; auto.
    rewrite tnestH_set_items. apply andb_true_iff. split.
    + eapply tflags_keep; [exact F1|]. intro Nv. apply no_values_push; [exact Nv|reflexivity].
    + apply fb_push; [exact F2|]. unfold tnH1; cbn [snd]. exact Ht.
Qed.

Lemma aot_single a b : (a <= b)%N -> aot_nest (@cons ospan (Some (a, b)) nil) (Some (a, b)) = true.
Proof. intro H. cbn [aot_nest forallb osp_in]. rewrite N.eqb_refl, (sp_in_pair a b a b) by nlia. reflexivity. Qed.

(* the finished table (span (a, b), b <= p) joins an array of tables whose span ends at or before a *)
Lemma f_fin_aot_nest a b p k table parent : (a <= b)%N -> (b <= p)%N ->
  tnestH p table = true -> t_span table = Some (a, b) -> t_dotted table = false ->
  tnestH a parent = true -> cres_post (wpost p (fun _ : unit => True) parent) (f_fin_aot k table parent).
Proof.
  intros Hab Hbp Ht S Hd Hp. assert (Hap : (a <= p)%N) by nlia.
  pose proof (tnestH_mono a p Hap parent Hp) as Hp'. rewrite tnestH_unfold in Hp, Hp'.
  apply andb_true_iff in Hp as [F1 F2]. apply andb_true_iff in Hp' as [F1' F2']. unfold f_fin_aot.
  destruct (kv_get (t_items parent) (k_key k)) as [[k0 it]|] eqn:G.
  - pose proof (fb_get _ _ _ _ _ F2 G) as Hit. destruct it as [|v|t|ts asp]; try exact I. cbv zeta.
    unfold tnH1 in Hit; cbn [snd] in Hit. apply andb4 in Hit as (A1 & A2 & A3 & A4).
    cbn [cres_post]. unfold wpost. rewrite span_set_items, dotted_set_items. repeat split; auto.
    rewrite tnestH_set_items. apply andb_true_iff. split.
    + eapply tflags_keep; [exact F1'|]. intro Nv. eapply no_values_set; eauto.
    + eapply fb_set; [exact F2'|exact G|]. unfold tnH1; cbn [snd].
      assert (T4 : forallb (tnestH p) (ts ++ [table]) = true).
      { rewrite forallb_app. cbn [forallb]. rewrite Ht, andb_true_r. revert A4. apply forallb_Forall_imp.
        apply Forall_forall. intros t0 _. apply tnestH_mono, Hap. }
      assert (T3 : forallb (fun e => negb (t_dotted e)) (ts ++ [table]) = true).
      { rewrite forallb_app, A3. cbn [forallb]. rewrite Hd. reflexivity. }
      destruct ts as [|first tl].
      * cbn [app map]. rewrite S. cbn [union_span fst snd]. apply andb4. repeat split; auto.
        -- apply aot_single, Hab.
        -- unfold aot_end_ok; cbn [snd]. nlia.
      * cbn [app]. cbn [map] in A1. destruct asp as [[a0 b0]|]; [|discriminate A1].
        cbn [aot_nest] in A1. destruct (t_span first) as [[x y]|] eqn:Sf; [|discriminate A1].
        apply andb_true_iff in A1 as [X1 X2]. apply N.eqb_eq in X1. subst x.
        unfold aot_end_ok in A2; cbn [snd] in A2. cbn [forallb] in X2. apply andb_true_iff in X2 as [X2 X3].
        cbn [osp_in] in X2. unfold sp_in in X2; cbn [fst snd] in X2.
        rewrite S. cbn [union_span fst snd]. apply andb4. repeat split; auto.
        -- cbn [map aot_nest]. rewrite Sf, N.eqb_refl. cbn [andb forallb osp_in].
           rewrite (sp_in_pair a0 b a0 y) by nlia. cbn [andb]. rewrite map_app, forallb_app. cbn [map forallb].
           rewrite S. cbn [osp_in]. rewrite (sp_in_pair a0 b a b) by nlia. rewrite andb_true_r.
           revert X3. apply forallb_Forall_imp. apply Forall_forall. intros o _. apply osp_in_mono; nlia.
        -- unfold aot_end_ok; cbn [snd]. nlia.
  - cbn [cres_post]. unfold wpost. rewrite span_set_items, dotted_set_items. repeat split; auto.
    rewrite tnestH_set_items. apply andb_true_iff. split.
    + eapply tflags_keep; [exact F1'|]. intro Nv. apply no_values_push; [exact Nv|reflexivity].
    + apply fb_push; [exact F2'|]. unfold tnH1; cbn [snd]. rewrite S. cbn [union_span fst snd map forallb].
      rewrite S, Hd, Ht. cbn [negb andb]. rewrite (aot_single a b Hab). unfold aot_end_ok; cbn [snd andb].
      rewrite andb_true_r. nlia.
Qed.

Lemma finalize_nest p st st' :
  st_in p st -> st_nest st -> finalize_table st = COk st' -> tnestH p (st_root st') = true.
Proof.
  intros (a0 & b0 & S0 & I1 & I2 & _) (a & b & S & Hr & Hc & Hd & Hi) E.
  rewrite S in S0. inversion S0; subst a0 b0. clear S0. assert (Hap : (a <= p)%N) by nlia.
  destruct st as [root tr posn cur ia path]. cbn [st_current st_root st_trailing st_path] in *.
  pose proof (tnestH_mono a p Hap cur Hc) as Hc'.
  destruct (pop_key path) as [[ppath k]|] eqn:P.
  - rewrite (finalize_eq _ _ _ _ _ _ _ _ P) in E.
    assert (W : cres_post (wpost p (fun _ : unit => True) root)
                          (with_table_at root ppath false (if ia then f_fin_aot k cur else f_fin_std k cur))).
    { apply (wta_nest a p (fun _ : unit => True) Hap); [exact Hr|]. intros parent Hpar. destruct ia.
      - apply (f_fin_aot_nest a b p); assumption.
      - apply f_fin_std_nest; [exact Hc'|]. apply (tnestH_mono a p Hap), Hpar. }
    destruct (with_table_at root ppath false _) as [[root' u]| |]; try discriminate E. inversion E; subst st'.
    cbn [cres_post] in W. cbn [st_root]. apply W.
  - unfold finalize_table in E. cbn [st_current st_root st_trailing st_path st_is_array st_position] in E. rewrite P in E.
    destruct (tbl_is_empty root); [|discriminate]. inversion E; subst st'. cbn [st_root]. exact Hc'.
Qed.

(* ---- start_table / start_array_table ------------------------------------------------------------------------------------------ *)
Lemma start_nest (ia : bool) p e st path dec st' :
  tnestH p (st_root st) = true -> st_current st = tbl_new ->
  (if ia then start_array_table st path dec (p, e) else start_table st path dec (p, e)) = COk st' -> st_nest st'.
Proof.
  intros Hr Hc E. destruct ia.
  - unfold start_array_table in E. destruct (negb _); [discriminate|]. destruct (st_path st); [|discriminate].
    destruct (pop_key path) as [[ppath k]|] eqn:P; [|discriminate].
    match type of E with context [with_table_at _ ppath false ?f] =>
      pose proof (wta_nest p p (fun _ : unit => True) (N.le_refl _) ppath (st_root st) f Hr) as W end.
    match type of W with ?B -> _ => assert (X2 : B); [|specialize (W X2)] end.
    { intros parent Hpar. pose proof Hpar as Hpar0. rewrite tnestH_unfold in Hpar. apply andb_true_iff in Hpar as [F1 F2].
      destruct (kv_get (t_items parent) (k_key k)) as [[k0 it]|].
      - destruct it; try exact I. cbn [cres_post]. unfold wpost. auto.
      - cbn [cres_post]. unfold wpost. rewrite span_set_items, dotted_set_items. repeat split; auto.
        rewrite tnestH_set_items. apply andb_true_iff. split.
        + eapply tflags_keep; [exact F1|]. intro Nv. apply no_values_push; [exact Nv|reflexivity].
        + apply fb_push; [exact F2|]. reflexivity. }
    match type of E with match ?r with _ => _ end = _ => destruct r as [[root' u]| |]; try discriminate E end.
    inversion E; subst st'. cbn [cres_post] in W. destruct W as (W & _). unfold open_table.
    exists p, e. cbn [st_current st_root t_span t_dotted t_implicit]. rewrite Hc. cbn [t_items tbl_new]. repeat split; auto.
  - unfold start_table in E. destruct (negb _); [discriminate|]. destruct (st_path st); [|discriminate].
    destruct (pop_key path) as [[ppath k]|] eqn:P; [|discriminate].
    match type of E with context [with_table_at _ ppath false ?f] =>
      pose proof (wta_nest p p (fun x : option tbl => match x with
                                                      | Some t => tnestH p t = true /\ t_implicit t = true /\ t_dotted t = false
                                                      | None => True end)
                           (N.le_refl _) ppath (st_root st) f Hr) as W end.
    match type of W with ?B -> _ => assert (X2 : B); [|specialize (W X2)] end.
    { intros parent Hpar. pose proof Hpar as Hpar0. rewrite tnestH_unfold in Hpar. apply andb_true_iff in Hpar as [F1 F2].
      destruct (kv_get (t_items parent) (k_key k)) as [[k0 it]|] eqn:G; [|cbn [cres_post]; unfold wpost; auto].
      pose proof (fb_get _ _ _ _ _ F2 G) as Hit.
      destruct it as [|v|t|ts sp]; try exact I. destruct (t_implicit t) eqn:Im; cbn [andb]; [|exact I].
      destruct (t_dotted t) eqn:Dt; cbn [negb]; [exact I|].
      cbn [cres_post]. unfold wpost. rewrite span_set_items, dotted_set_items. repeat split; auto.
      rewrite tnestH_set_items. apply andb_true_iff. split.
      - eapply tflags_keep; [exact F1|]. intro Nv. apply (fb_remove (fun kv => negb (is_value (snd kv)))), Nv.
      - apply fb_remove, F2. }
    match type of E with match ?r with _ => _ end = _ => destruct r as [[root' tk]| |]; try discriminate E end.
    inversion E; subst st'. cbn [cres_post] in W. destruct W as (W & _ & _ & Wt). unfold open_table.
    exists p, e. cbn [st_current st_root t_span t_dotted t_implicit]. repeat split; auto.
    destruct tk as [t|].
    + destruct Wt as (T1 & T2 & T3). rewrite tnestH_unfold in T1. apply andb_true_iff in T1 as [G1 G2].
      unfold tflags in G1. rewrite T2, T3 in G1. cbn [negb andb orb] in G1.
      rewrite tnestH_unfold. cbn [t_items t_span t_dotted t_implicit]. unfold tflags. cbn [t_dotted t_implicit negb andb orb].
      apply forallb_forall. intros kv Hin. unfold no_values in G1.
      pose proof (proj1 (forallb_forall _ _) G1 kv Hin) as Nv. pose proof (proj1 (forallb_forall _ _) G2 kv Hin) as Hkv.
      rewrite (tnH1_novalue p (Some (p, e)) (t_span t) kv); [exact Hkv|]. apply negb_true_iff in Nv. exact Nv.
    + rewrite Hc. reflexivity.
Qed.

Lemma on_header_nest (ia : bool) p e st path trailing st' :
  st_in p st -> st_nest st -> on_header ia st path trailing (p, e) = COk st' -> st_nest st'.
Proof.
  intros Hst Hn E. unfold on_header in E. destruct path as [|k0 ptl] eqn:Ep; [discriminate|]. rewrite <- Ep in *.
  destruct (finalize_table st) as [st1| |] eqn:F; try discriminate E.
  pose proof (finalize_nest _ _ _ Hst Hn F) as Hr. destruct (finalize_in _ _ _ Hst F) as (_ & _ & Hc & _).
  unfold take_trailing in E. eapply (start_nest ia p e); [| |exact E]; cbn [st_root st_current]; assumption.
Qed.
