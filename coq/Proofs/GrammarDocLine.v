(* Proofs/GrammarDocLine.v — C01/C02 layer L2, one line of a document: the text parsers of
   document.rs / table.rs (`parse_keyval`, the two table headers, comment lines, `line_trailing`,
   `line_ending`) against expression / keyval / std-table / array-table of Spec/Syntax.v.
   An `item` is an expression without its leading whitespace (the document loop reads that
   whitespace at the end of the previous iteration). *)
From TV Require Import Base.Prelude Base.Utf8 Base.Winnow Gen.Consts Spec.Abnf Spec.Lex Spec.Defs Spec.Syntax.
From TV Require Import Model.Trivia Model.Strings Model.Datetime Model.Numbers Model.Tree Model.Parse Model.Document.
From TV Require Import Proofs.ConstsOk Proofs.NoPanicBase Proofs.NoPanicLex Proofs.NoPanicValue.
From TV Require Import Proofs.DefsEquivBase.
From TV Require Import Proofs.LexEquivBase Proofs.LexEquivTrivia Proofs.LexEquivKey Proofs.GrammarSep Proofs.GrammarBase
                       Proofs.GrammarValueBase Proofs.GrammarValueTok Proofs.GrammarValueSound Proofs.GrammarValueComplete.
Require Import Lia ZifyBool ZifyN ZifyNat.

(* ---- items --------------------------------------------------------------------------------------- *)
Inductive item_tok : bytes -> list astmt -> Prop :=
| it_blank : item_tok [] []
| it_comment c : comment_tok c -> item_tok c []
| it_keyval t p a w c : keyval_tok t p a -> ws_tok w -> opt_comment c -> item_tok (t ++ w ++ c) [SKeyVal p a]
| it_std t p w c : std_table_tok t p -> ws_tok w -> opt_comment c -> item_tok (t ++ w ++ c) [SHeader p]
| it_arr t p w c : array_table_tok t p -> ws_tok w -> opt_comment c -> item_tok (t ++ w ++ c) [SArrHeader p].

Lemma expression_item e l : expression_tok e l <-> exists w e', e = w ++ e' /\ ws_tok w /\ item_tok e' l.
Proof.
  split.
  - intros [w c Hw Hc|w t p a w2 c Hw Ht Hw2 Hc|w t p w2 c Hw Ht Hw2 Hc|w t p w2 c Hw Ht Hw2 Hc].
    + exists w, c. split; [reflexivity|]. split; [exact Hw|]. destruct Hc as [-> | Hc]; [apply it_blank|apply it_comment, Hc].
    + exists w, (t ++ w2 ++ c). split; [reflexivity|]. split; [exact Hw|]. apply it_keyval; assumption.
    + exists w, (t ++ w2 ++ c). split; [reflexivity|]. split; [exact Hw|]. apply it_std; assumption.
    + exists w, (t ++ w2 ++ c). split; [reflexivity|]. split; [exact Hw|]. apply it_arr; assumption.
  - intros (w & e' & -> & Hw & [|c Hc|t p a w2 c Ht Hw2 Hc|t p w2 c Ht Hw2 Hc|t p w2 c Ht Hw2 Hc]).
    + apply ex_blank; [exact Hw|left; reflexivity].
    + apply ex_blank; [exact Hw|right; exact Hc].
    + apply ex_keyval; assumption.
    + apply ex_std_table; assumption.
    + apply ex_array_table; assumption.
Qed.

(* the end of a line: a newline, or the end of the text *)
Definition lend (le r : bytes) : Prop := newline_tok le \/ (le = [] /\ r = []).

(* what follows an item and its line end is empty or starts a new line *)
Lemma lend_stops_ws le r : lend le r -> stops wschar (le ++ r).
Proof. intros [H | [-> ->]]; [apply newline_stops_wschar, H|exact I]. Qed.
Lemma lend_stops_non_eol le r : lend le r -> stops non_eol (le ++ r).
Proof. intros [H | [-> ->]]; [apply newline_stops_non_eol, H|exact I]. Qed.
Lemma lend_stops_hash le r : lend le r -> stops (byte_eqb x23) (le ++ r).
Proof. intros [[-> | ->] | [-> ->]]; reflexivity. Qed.
Lemma lend_vstop le r : lend le r -> vstop (le ++ r).
Proof. intros [[-> | ->] | [-> ->]]; cbn [app vstop]; auto. Qed.

Lemma comment_head c : comment_tok c -> exists u, c = x23 :: u.
Proof. intros (u & -> & _). eauto. Qed.

Lemma opt_comment_lend_vstop c le r : opt_comment c -> lend le r -> vstop (c ++ le ++ r).
Proof. intros [-> | Hc] Hl; [cbn [app]; apply lend_vstop, Hl|]. destruct (comment_head c Hc) as (u & ->). cbn [app vstop]. auto. Qed.

Lemma opt_comment_lend_stops_ws c le r : opt_comment c -> lend le r -> stops wschar (c ++ le ++ r).
Proof. intros [-> | Hc] Hl; [cbn [app]; apply lend_stops_ws, Hl|]. destruct (comment_head c Hc) as (u & ->). reflexivity. Qed.

(* ---- line_ending, line_trailing ------------------------------------------------------------------ *)
Lemma line_ending_complete i le r : rest i = le ++ r -> lend le r -> line_ending i = Ok tt (adv le i).
Proof.
  intros H [Hn | [-> ->]]; unfold line_ending.
  - apply alt_ok. apply (newline_complete i le r H Hn).
  - cbn [app] in H. rewrite alt_fails_l.
    + rewrite adv_nil. apply eof_ok, H.
    + unfold newline. apply bind_fails, any_fails, H.
Qed.

Lemma line_ending_sound i u i' : line_ending i = Ok u i' -> exists le, splits i le i' /\ lend le (rest i').
Proof.
  unfold line_ending. intro H. apply alt_inv in H as [H | [_ H]].
  - apply newline_sound in H as (le & Hn & S). exists le. split; [exact S|left; exact Hn].
  - apply eof_inv in H as [-> R]. exists []. split; [apply splits_nil|right; auto].
Qed.

Lemma line_trailing_unfold i :
  line_trailing i = (a <- span_ (ws ;;; opt comment) ;; line_ending ;;; ret a) i.
Proof. reflexivity. Qed.

Lemma line_trailing_complete i w c le r :
  rest i = w ++ c ++ le ++ r -> ws_tok w -> opt_comment c -> lend le r ->
  exists sp, line_trailing i = Ok sp (adv (w ++ c ++ le) i).
Proof.
  intros H Hw Hc Hl. rewrite line_trailing_unfold.
  assert (E1 : exists o, (ws ;;; opt comment) i = Ok o (adv (w ++ c) i)).
  { rewrite (bind_ok _ _ _ _ _ (ws_complete i w _ H Hw (opt_comment_lend_stops_ws c le r Hc Hl))).
    pose proof (rest_adv w _ i H) as R1. destruct Hc as [-> | Hc].
    - rewrite app_nil_r. cbn [app] in R1. eexists. apply opt_fails, comment_fails. rewrite R1. apply lend_stops_hash, Hl.
    - eexists. rewrite <- adv_adv. apply opt_ok. apply (comment_complete _ c _ R1 Hc (lend_stops_non_eol le r Hl)). }
  destruct E1 as (o & E1). rewrite (bind_ok _ _ _ _ _ (span_ok _ _ _ _ E1)).
  assert (R2 : rest (adv (w ++ c) i) = le ++ r) by (apply rest_adv; rewrite H, <- app_assoc; reflexivity).
  rewrite (bind_ok _ _ _ _ _ (line_ending_complete _ le r R2 Hl)). rewrite adv_adv, <- app_assoc. eexists. reflexivity.
Qed.

Lemma line_trailing_sound i sp i' : line_trailing i = Ok sp i' ->
  exists w c le, ws_tok w /\ opt_comment c /\ splits i (w ++ c ++ le) i' /\ lend le (rest i').
Proof.
  rewrite line_trailing_unfold. intro H. apply bind_inv in H as (a & j1 & H1 & H).
  apply span_inv in H1 as (o & H1 & _). apply bind_inv in H1 as (w & k1 & Ew & H1). apply ws_sound in Ew as (Hw & S1 & _).
  apply bind_inv in H as (u & j2 & H2 & H). apply line_ending_sound in H2 as (le & S3 & Hl). apply ret_inv in H as [_ ->].
  apply opt_inv in H1 as [(x & -> & H1) | (-> & -> & _)].
  - apply comment_sound in H1 as (c & Hc & S2 & _). exists w, c, le. split; [exact Hw|]. split; [right; exact Hc|].
    split; [|exact Hl]. exact (splits_trans _ _ _ _ _ S1 (splits_trans _ _ _ _ _ S2 S3)).
  - exists w, [], le. split; [exact Hw|]. split; [left; reflexivity|]. split; [|exact Hl].
    cbn [app]. exact (splits_trans _ _ _ _ _ S1 S3).
Qed.

(* ---- key = value lines ---------------------------------------------------------------------------- *)
Lemma parse_keyval_unfold i :
  parse_keyval i =
  (kp <- key_ ;;
   '(pre, v, suf) <- cut_err (context (byte_ KEYVAL_SEP) ;;;
                              pre <- span_ ws ;; v <- value_ ;; suf <- context line_trailing ;; ret (pre, v, suf)) ;;
   match pop_key kp with
   | None => fun _ => Panic P_key_path_empty
   | Some (path, k) => ret (path, (k, IValue (value_decorate v (raw_with_span pre) (raw_with_span suf))))
   end) i.
Proof. reflexivity. Qed.

Lemma parse_keyval_sound i x i1 : parse_keyval i = Ok x i1 ->
  exists w0 t p a w c le,
    ws_tok w0 /\ keyval_tok t p a /\ ws_tok w /\ opt_comment c /\ splits i (w0 ++ (t ++ w ++ c) ++ le) i1
    /\ lend le (rest i1) /\ length p < LIMIT /\ prel (depth i) x (p, a).
Proof.
  rewrite parse_keyval_unfold. intro H. apply bind_inv in H as (kp & j1 & H1 & H).
  apply key_sound in H1 as (w0 & kt & w1 & Hw0 & Hkt & Hw1 & S1 & Hlen).
  apply bind_inv in H as ([[pre v] suf] & j2 & H2 & H).
  apply cut_err_inv in H2. apply bind_inv in H2 as (y & k1 & E1 & H2). apply context_inv, byte_inv in E1 as [_ Se].
  apply bind_inv in H2 as (pre' & k2 & E2 & H2). apply span_ws_inv in E2 as (w2 & Hw2 & S2 & _).
  apply bind_inv in H2 as (v' & k3 & E3 & H2). apply value_sound in E3 as (t & a & Ht & S3 & Hv).
  apply bind_inv in H2 as (suf' & k4 & E4 & H2). apply context_inv, line_trailing_sound in E4 as (w & c & le & Hw & Hc & S4 & Hl).
  apply ret_inv in H2 as [E ->]. injection E as -> -> ->.
  destruct (pop_key kp) as [[path k]|] eqn:Ep; [|discriminate]. apply ret_inv in H as [-> ->].
  exists w0, (kt ++ w1 ++ [x3d] ++ w2 ++ t), (map k_key kp), a, w, c, le.
  split; [exact Hw0|]. split; [exists kt, w1, w2, t; auto|]. split; [exact Hw|]. split; [exact Hc|]. split; [|split; [exact Hl|split]].
  - pose proof (splits_trans _ _ _ _ _ S1 (splits_trans _ _ _ _ _ Se (splits_trans _ _ _ _ _ S2 (splits_trans _ _ _ _ _ S3 S4)))) as S.
    rewrite <- !app_assoc in *. exact S.
  - rewrite map_length. exact Hlen.
  - split; cbn [fst snd]; [apply (pop_key_keys _ _ _ Ep)|]. eexists. split; [reflexivity|]. apply vrel_decorate.
    rewrite <- (splits_depth _ _ _ (splits_trans _ _ _ _ _ S1 (splits_trans _ _ _ _ _ Se S2))). exact Hv.
Qed.

Lemma key_tok_stops_ws t p r : key_tok t p -> stops wschar (t ++ r).
Proof. intro H. destruct (key_tok_head t p H) as (b & t' & -> & Hb & _). exact Hb. Qed.

Lemma parse_keyval_complete i t p a w c le r :
  keyval_tok t p a -> ws_tok w -> opt_comment c -> rest i = (t ++ w ++ c) ++ le ++ r -> lend le r ->
  length p < LIMIT -> aval_ok a = true -> within (depth i) a = true ->
  exists x, parse_keyval i = Ok x (adv ((t ++ w ++ c) ++ le) i) /\ prel (depth i) x (p, a).
Proof.
  intros (kt & w1 & w2 & v & -> & Hkt & Hw1 & Hw2 & Hv) Hw Hc H Hl Hp Hok Hwi. rewrite parse_keyval_unfold.
  assert (H1 : rest i = [] ++ kt ++ w1 ++ (x3d :: w2 ++ v ++ w ++ c ++ le ++ r)) by (rewrite H, <- !app_assoc; reflexivity).
  destruct (key_complete i [] kt p w1 _ eq_refl Hkt Hw1 H1
              (ex_intro _ x3d (ex_intro _ _ (conj eq_refl (or_introl eq_refl)))) Hp) as (kp & Ek & Hkp).
  rewrite (bind_ok _ _ _ _ _ Ek). cbn [app]. set (j1 := adv (kt ++ w1) i).
  assert (R1 : rest j1 = x3d :: w2 ++ v ++ w ++ c ++ le ++ r) by (apply rest_adv; rewrite H1, <- !app_assoc; reflexivity).
  assert (R2 : rest (adv [KEYVAL_SEP] j1) = w2 ++ v ++ w ++ c ++ le ++ r) by (apply (rest_adv [x3d]); exact R1).
  destruct (val_tok_head v a Hv) as (b & v' & E & Hb).
  assert (S2 : stops wschar (v ++ w ++ c ++ le ++ r)) by (rewrite E; apply (vhead_facts b Hb)).
  assert (R3 : rest (adv w2 (adv [KEYVAL_SEP] j1)) = v ++ w ++ c ++ le ++ r) by (apply rest_adv; exact R2).
  assert (Hf : vfollow (w ++ c ++ le ++ r)).
  { exists w, (c ++ le ++ r). split; [reflexivity|]. split; [exact Hw|apply opt_comment_lend_vstop; assumption]. }
  destruct (value_complete v a _ _ Hv R3 Hf Hok Hwi) as (val & Ev & Hval).
  assert (R4 : rest (adv v (adv w2 (adv [KEYVAL_SEP] j1))) = w ++ c ++ le ++ r) by (apply rest_adv; exact R3).
  destruct (line_trailing_complete _ w c le r R4 Hw Hc Hl) as (sp & Et).
  assert (Erhs : cut_err (context (byte_ KEYVAL_SEP) ;;;
                   pre <- span_ ws ;; v0 <- value_ ;; suf <- context line_trailing ;; ret (pre, v0, suf)) j1
                 = Ok ((pos (adv [KEYVAL_SEP] j1), pos (adv w2 (adv [KEYVAL_SEP] j1))), val, sp)
                      (adv (w ++ c ++ le) (adv v (adv w2 (adv [KEYVAL_SEP] j1))))).
  { apply cut_err_ok.
    rewrite (bind_ok _ _ _ _ _ (context_ok _ _ _ _ (byte_ok KEYVAL_SEP j1 _ R1))).
    rewrite (bind_ok _ _ _ _ _ (span_ws_complete _ w2 _ R2 Hw2 S2)).
    rewrite (bind_ok _ _ _ _ _ Ev). rewrite (bind_ok _ _ _ _ _ (context_ok _ _ _ _ Et)). reflexivity. }
  rewrite (bind_ok _ _ _ _ _ Erhs). cbv beta iota.
  assert (Hne : kp <> []) by (intros ->; apply (key_tok_nonempty _ _ Hkt); rewrite <- Hkp; reflexivity).
  destruct (pop_key_total kp Hne) as (path & k & Ep). rewrite Ep.
  eexists. split.
  - unfold ret, j1. rewrite !adv_adv. f_equal. f_equal. rewrite <- ?app_assoc. cbn [app]. rewrite <- ?app_assoc. reflexivity.
  - split; cbn [fst snd].
    + rewrite <- Hkp. apply (pop_key_keys _ _ _ Ep).
    + eexists. split; [reflexivity|]. apply vrel_decorate. exact Hval.
Qed.

(* ---- table headers ---------------------------------------------------------------------------------- *)
Definition topen (arr : bool) : bytes := if arr then [x5b; x5b] else [x5b].
Definition tclose (arr : bool) : bytes := if arr then [x5d; x5d] else [x5d].
Definition open_p (arr : bool) : parser unit := if arr then pvoid (lit ARRAY_TABLE_OPEN) else pvoid (byte_ STD_TABLE_OPEN).
Definition close_p (arr : bool) : parser unit := if arr then pvoid (lit ARRAY_TABLE_CLOSE) else pvoid (byte_ STD_TABLE_CLOSE).

Definition header_text (arr : bool) : parser ((list key * (N * N)) * (N * N)) :=
  pair_ (with_span (delimited (open_p arr) (cut_err key_) (context (cut_err (close_p arr)))))
        (context (cut_err line_trailing)).

Lemma header_unfold arr st :
  header arr st = try_map (fun '((h, sp), t) => lift_state (on_header arr st h t sp)) (header_text arr).
Proof. destruct arr; reflexivity. Qed.

Definition table_tok (arr : bool) (t : bytes) (p : list bytes) : Prop :=
  if arr then array_table_tok t p else std_table_tok t p.

Lemma table_tok_eq arr t p :
  table_tok arr t p <-> exists w1 k w2, t = topen arr ++ w1 ++ k ++ w2 ++ tclose arr /\ ws_tok w1 /\ key_tok k p /\ ws_tok w2.
Proof. destruct arr; reflexivity. Qed.

Lemma open_p_ok arr i r : rest i = topen arr ++ r -> open_p arr i = Ok tt (adv (topen arr) i).
Proof.
  destruct arr; intro H; unfold open_p, topen in *.
  - apply (pvoid_ok _ _ ARRAY_TABLE_OPEN). apply (lit_ok ARRAY_TABLE_OPEN i r H).
  - apply (pvoid_ok _ _ STD_TABLE_OPEN). apply (byte_ok STD_TABLE_OPEN i r H).
Qed.
Lemma close_p_ok arr i r : rest i = tclose arr ++ r -> close_p arr i = Ok tt (adv (tclose arr) i).
Proof.
  destruct arr; intro H; unfold close_p, tclose in *.
  - apply (pvoid_ok _ _ ARRAY_TABLE_CLOSE). apply (lit_ok ARRAY_TABLE_CLOSE i r H).
  - apply (pvoid_ok _ _ STD_TABLE_CLOSE). apply (byte_ok STD_TABLE_CLOSE i r H).
Qed.
Lemma open_p_inv arr i u i' : open_p arr i = Ok u i' -> splits i (topen arr) i'.
Proof.
  destruct arr; unfold open_p, topen; intro H; apply pvoid_inv in H as (a & H).
  - apply lit_inv in H as [_ S]. exact S.
  - apply byte_inv in H as [_ S]. exact S.
Qed.
Lemma close_p_inv arr i u i' : close_p arr i = Ok u i' -> splits i (tclose arr) i'.
Proof.
  destruct arr; unfold close_p, tclose; intro H; apply pvoid_inv in H as (a & H).
  - apply lit_inv in H as [_ S]. exact S.
  - apply byte_inv in H as [_ S]. exact S.
Qed.

Lemma header_text_sound arr i kp sp tr i1 : header_text arr i = Ok ((kp, sp), tr) i1 ->
  exists t p w c le,
    table_tok arr t p /\ ws_tok w /\ opt_comment c /\ splits i ((t ++ w ++ c) ++ le) i1 /\ lend le (rest i1)
    /\ map k_key kp = p /\ length kp < LIMIT /\ kp <> [].
Proof.
  unfold header_text, pair_. intro H. apply bind_inv in H as ([kp0 sp0] & j1 & H1 & H).
  apply bind_inv in H as (tr0 & j2 & H2 & H). apply ret_inv in H as [E ->]. injection E as <- <- <-.
  apply with_span_inv in H1 as (kp1 & H1 & E). injection E as <- _.
  unfold delimited in H1. apply bind_inv in H1 as (u & k1 & Eo & H1). apply open_p_inv in Eo.
  apply bind_inv in H1 as (kp2 & k2 & Ek & H1). apply cut_err_inv in Ek.
  apply bind_inv in H1 as (u2 & k3 & Ec & H1). apply context_inv, cut_err_inv, close_p_inv in Ec.
  apply ret_inv in H1 as [<- ->].
  apply key_sound in Ek as (w1 & kt & w2 & Hw1 & Hkt & Hw2 & Sk & Hlen).
  apply context_inv, cut_err_inv, line_trailing_sound in H2 as (w & c & le & Hw & Hc & S2 & Hl).
  exists (topen arr ++ w1 ++ kt ++ w2 ++ tclose arr), (map k_key kp), w, c, le.
  split; [apply table_tok_eq; exists w1, kt, w2; auto|]. split; [exact Hw|]. split; [exact Hc|]. split; [|split; [exact Hl|split; [reflexivity|split; [exact Hlen|]]]].
  - pose proof (splits_trans _ _ _ _ _ Eo (splits_trans _ _ _ _ _ Sk (splits_trans _ _ _ _ _ Ec S2))) as S.
    rewrite <- !app_assoc in *. exact S.
  - intros ->. apply (key_tok_nonempty _ _ Hkt). reflexivity.
Qed.

Lemma tclose_key_stop arr r : key_stop (tclose arr ++ r).
Proof. destruct arr; eexists _, _; (split; [reflexivity|]); auto. Qed.

Lemma header_text_complete arr i t p w c le r :
  table_tok arr t p -> ws_tok w -> opt_comment c -> rest i = (t ++ w ++ c) ++ le ++ r -> lend le r ->
  length p < LIMIT ->
  exists kp sp tr, header_text arr i = Ok ((kp, sp), tr) (adv ((t ++ w ++ c) ++ le) i) /\ map k_key kp = p.
Proof.
  intros Ht Hw Hc H Hl Hp. apply table_tok_eq in Ht as (w1 & kt & w2 & -> & Hw1 & Hkt & Hw2).
  assert (H0 : rest i = topen arr ++ w1 ++ kt ++ w2 ++ (tclose arr ++ w ++ c ++ le ++ r))
    by (rewrite H, <- !app_assoc; reflexivity).
  set (j1 := adv (topen arr) i). pose proof (rest_adv _ _ i H0) as R1. fold j1 in R1.
  destruct (key_complete j1 w1 kt p w2 _ Hw1 Hkt Hw2 R1 (tclose_key_stop arr _) Hp) as (kp & Ek & Hkp).
  set (j2 := adv (w1 ++ kt ++ w2) j1) in *.
  assert (R2 : rest j2 = tclose arr ++ w ++ c ++ le ++ r) by (apply rest_adv; rewrite R1, <- !app_assoc; reflexivity).
  assert (Ed : delimited (open_p arr) (cut_err key_) (context (cut_err (close_p arr))) i = Ok kp (adv (tclose arr) j2)).
  { unfold delimited. rewrite (bind_ok _ _ _ _ _ (open_p_ok arr i _ H0)). fold j1.
    rewrite (bind_ok _ _ _ _ _ (cut_err_ok _ _ _ _ Ek)). fold j2.
    rewrite (bind_ok _ _ _ _ _ (context_ok _ _ _ _ (cut_err_ok _ _ _ _ (close_p_ok arr j2 _ R2)))). reflexivity. }
  set (j3 := adv (tclose arr) j2) in *.
  assert (R3 : rest j3 = w ++ c ++ le ++ r) by (apply rest_adv; exact R2).
  destruct (line_trailing_complete j3 w c le r R3 Hw Hc Hl) as (tr & Et).
  exists kp, (pos i, pos j3), tr. split; [|exact Hkp].
  unfold header_text, pair_. rewrite (bind_ok _ _ _ _ _ (with_span_ok _ _ _ _ Ed)).
  rewrite (bind_ok _ _ _ _ _ (context_ok _ _ _ _ (cut_err_ok _ _ _ _ Et))).
  unfold ret, j3, j2, j1. rewrite !adv_adv. f_equal. f_equal. rewrite <- !app_assoc. reflexivity.
Qed.

(* table.rs `table`: "[[" selects array_table *)
Lemma table_unfold st i :
  table st i = context (two <- peek (take_n 2) ;; if bytes_eqb two [x5b; x5b] then header true st else header false st) i.
Proof. reflexivity. Qed.

Lemma table_inv st i st1 i1 : table st i = Ok st1 i1 -> exists arr, header arr st i = Ok st1 i1.
Proof.
  rewrite table_unfold. intro H. apply context_inv in H. apply bind_inv in H as (two & j & H1 & H).
  apply peek_inv in H1 as [-> _]. destruct (bytes_eqb two [x5b; x5b]); eauto.
Qed.

Lemma simple_key_not_open t k : simple_key_tok t k -> exists b t', t = b :: t' /\ b <> x5b.
Proof.
  intros [(_ & body & -> & _) | [(_ & body & -> & _) | [[Hne Ha] _]]].
  - exists x22, (body ++ [x22]). split; [reflexivity|discriminate].
  - exists x27, (body ++ [x27]). split; [reflexivity|discriminate].
  - destruct t as [|b t']; [congruence|]. exists b, t'. split; [reflexivity|].
    unfold all in Ha. cbn [forallb] in Ha. apply andb_true_iff in Ha as [Hb _]. intros ->. discriminate Hb.
Qed.

Lemma table_dispatch arr st i t p r :
  table_tok arr t p -> rest i = t ++ r -> table st i = context (header arr st) i.
Proof.
  intros Ht H. apply table_tok_eq in Ht as (w1 & kt & w2 & -> & Hw1 & Hkt & Hw2). rewrite table_unfold.
  assert (E : exists b1 b2 tl, rest i = b1 :: b2 :: tl /\ bytes_eqb [b1; b2] [x5b; x5b] = arr).
  { destruct arr; unfold topen in H.
    - exists x5b, x5b, (w1 ++ kt ++ w2 ++ tclose true ++ r). split; [rewrite H, <- !app_assoc; reflexivity|reflexivity].
    - assert (G : exists b tl, w1 ++ kt ++ w2 ++ tclose false ++ r = b :: tl /\ b <> x5b).
      { destruct w1 as [|b w1'].
        - assert (Hk : exists b t', kt = b :: t' /\ b <> x5b).
          { destruct Hkt as [t0 k0 Hs | t0 k0 wa wb u ks Hs _ _ _]; destruct (simple_key_not_open _ _ Hs) as (b & t' & -> & Hb);
              eexists b, _; (split; [reflexivity|exact Hb]). }
          destruct Hk as (b & t' & -> & Hb). exists b, (t' ++ w2 ++ tclose false ++ r). split; [reflexivity|exact Hb].
        - exists b, (w1' ++ kt ++ w2 ++ tclose false ++ r). split; [reflexivity|].
          unfold ws_tok, all in Hw1. cbn [forallb] in Hw1. apply andb_true_iff in Hw1 as [Hb _]. intros ->. discriminate Hb. }
      destruct G as (b & tl & G & Hb). exists x5b, b, tl.
      split; [rewrite H; rewrite <- ?app_assoc; cbn [app]; rewrite <- ?app_assoc; rewrite <- G; reflexivity|].
      cbn [bytes_eqb]. change (byte_eqb x5b x5b) with true. cbn [andb]. apply byte_eqb_neq in Hb. rewrite Hb. reflexivity. }
  destruct E as (b1 & b2 & tl & R & Eb).
  unfold context, bind, peek, take_n. rewrite R. cbn [length Nat.ltb Nat.leb firstn]. rewrite Eb. destruct arr; reflexivity.
Qed.
