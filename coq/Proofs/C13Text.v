(* Proofs/C13Text.v — property C13 at the level of text (Proofs/C13TextModel.v): the decoding routes agree. *)
From TV Require Import Base.Prelude Base.Utf8.
From TV Require Import Model.Datetime Model.Numbers Model.Tree Model.Parse Model.Document Model.Encode Model.Build.
From TV Require Import Spec.SerdeData Model.Ser Model.De Model.SerdeRoutes Model.SerDoc.
From TV Require Import Proofs.SpansDefs Proofs.SpansDespan Proofs.SpansDespanTotal Proofs.NoPanicTop.
From TV Require Import Proofs.RoutesRefuted Proofs.RoutesConv Proofs.RoutesTwins Proofs.RoutesTop Proofs.RoutesDecode.
From TV Require Proofs.DefsEquivBase Proofs.DefsEquivSpec Proofs.FrontEndsReady.
From TV Require Import Proofs.C13TextModel.
Require Import Lia.

(* ================================================================================================================== *)
(* into_mut does not change what the deserializer walks                                                               *)
(* ================================================================================================================== *)
Lemma omap_list_F2 {A B} (f : A -> option B) : forall l l', omap_list f l = Some l' -> Forall2 (fun a b => f a = Some b) l l'.
Proof.
  induction l as [|a l IH]; intros l' H; cbn [omap_list] in H; [injection H as <-; constructor|].
  destruct (f a) as [b|] eqn:Fa; [|discriminate].
  change ((fix go (l : list A) : option (list B) :=
             match l with [] => Some [] | a :: tl => match f a, go tl with Some b, Some r => Some (b :: r) | _, _ => None end end) l)
    with (omap_list f l) in H.
  destruct (omap_list f l) as [r|] eqn:R; [|discriminate]. injection H as <-. constructor; [exact Fa|apply IH; reflexivity].
Qed.

Section DespanAbs.
  Variable src : bytes.
  Definition avi (it : item) : list Build.aval := match it with IValue e => [abs_value e] | _ => [] end.
  Definition aki (kv : key * item) : list (bytes * Build.aval) := match kv with (k, IValue e) => [(k_key k, abs_value e)] | _ => [] end.
  Definition ati (kv : key * item) : list (bytes * anode) := match kv with (k, i0) => map (fun n => (k_key k, n)) (Build.abs_item i0) end.

  Definition Dv (v : value) : Prop := forall v', value_despan src v = Some v' -> abs_value v' = abs_value v.
  Definition Dt (t : tbl) : Prop := forall t', tbl_despan src t = Some t' -> Build.abs_tbl t' = Build.abs_tbl t.
  Definition Di (it : item) : Prop :=
    forall it', item_despan src it = Some it' -> Build.abs_item it' = Build.abs_item it /\ avi it' = avi it.

  Lemma kvs_abs (items items' : list (key * item)) :
    Forall (fun kv => Di (snd kv)) items -> omap_list (kv_despan src) items = Some items' ->
    flat_map aki items' = flat_map aki items /\ flat_map ati items' = flat_map ati items.
  Proof.
    intros IH H. apply omap_list_F2 in H. induction H as [|[k0 i0] [k i] l l' E _ IHl]; [auto|]. inversion IH as [|? ? H1 H2]; subst.
    destruct (IHl H2) as [A1 A2]. cbn [flat_map]. rewrite A1, A2. cbn [kv_despan] in E.
    destruct (key_despan src k0) as [k1|] eqn:K; [|discriminate]. destruct (item_despan src i0) as [i1|] eqn:I0; [|discriminate]. injection E as <- <-.
    destruct (H1 _ I0) as [B1 B2]. cbn [snd] in *.
    assert (Ek : k_key k1 = k_key k0).
    { unfold key_despan in K. destruct (decor_despan src (k_leaf k0)); [|discriminate]. destruct (decor_despan src (k_dotted k0)); [|discriminate].
      destruct (oraw_despan src (k_repr k0)); [|discriminate]. injection K as <-. reflexivity. }
    split; f_equal.
    - unfold aki. rewrite Ek. unfold avi in B2. destruct i1, i0; try discriminate; try reflexivity. injection B2 as ->. reflexivity.
    - unfold ati. rewrite Ek, B1. reflexivity.
  Qed.

  Theorem despan_abs : (forall v, Dv v) /\ (forall it, Di it) /\ (forall t, Dt t).
  Proof.
    apply tree_ind3.
    - intros x r d v' H. cbn [value_despan] in H. destruct (oraw_despan src r); [|discriminate]. destruct (decor_despan src d); [|discriminate].
      injection H as <-. reflexivity.
    - intros vals tr c d sp IH v' H. rewrite value_despan_array in H.
      destruct (omap_list (item_despan src) vals) as [vals'|] eqn:V; [|discriminate]. destruct (raw_despan src tr); [|discriminate].
      destruct (decor_despan src d); [|discriminate]. injection H as <-. cbn [abs_value]. f_equal.
      apply omap_list_F2 in V. induction V as [|a b l l' E _ IHl]; [reflexivity|]. inversion IH as [|? ? H1 H2]; subst.
      cbn [flat_map]. rewrite (IHl H2). f_equal. apply (H1 _ E).
    - intros items pre im dt d sp IH v' H. rewrite value_despan_inline in H.
      destruct (omap_list (kv_despan src) items) as [items'|] eqn:V; [|discriminate]. destruct (raw_despan src pre); [|discriminate].
      destruct (decor_despan src d); [|discriminate]. injection H as <-. cbn [abs_value]. f_equal. apply (kvs_abs items items' IH V).
    - intros it' H. injection H as <-. auto.
    - intros v IH it' H. change (item_despan src (IValue v)) with (optmap IValue (value_despan src v)) in H.
      destruct (value_despan src v) as [v'|] eqn:E; [|discriminate]. injection H as <-. cbn [Build.abs_item avi]. rewrite (IH _ E). auto.
    - intros t IH it' H. change (item_despan src (ITable t)) with (optmap ITable (tbl_despan src t)) in H.
      destruct (tbl_despan src t) as [t'|] eqn:E; [|discriminate]. injection H as <-. cbn [Build.abs_item avi]. rewrite (IH _ E). auto.
    - intros ts sp IH it' H. rewrite item_despan_aot in H. destruct (omap_list (tbl_despan src) ts) as [ts'|] eqn:E; [|discriminate]. injection H as <-.
      cbn [Build.abs_item avi]. split; [|reflexivity]. do 2 f_equal. apply omap_list_F2 in E.
      induction E as [|a b l l' Eab _ IHl]; [reflexivity|]. inversion IH as [|? ? H1 H2]; subst. cbn [map]. rewrite (IHl H2), (H1 _ Eab). reflexivity.
    - intros items d im dt p sp IH t' H. rewrite tbl_despan_eq in H. destruct (omap_list (kv_despan src) items) as [items'|] eqn:V; [|discriminate].
      destruct (decor_despan src d); [|discriminate]. injection H as <-. cbn [Build.abs_tbl]. apply (kvs_abs items items' IH V).
  Qed.
End DespanAbs.

Lemma into_mut_walk back s d root : into_mut s d = Some root -> walk back root = walk back (doc_root d).
Proof. unfold into_mut, walk. intro H. rewrite (proj2 (proj2 (despan_abs s)) (doc_root d) root H). reflexivity. Qed.

(* ================================================================================================================== *)
(* the root of a parsed document as the deserializer sees it: a table with distinct keys                              *)
(* ================================================================================================================== *)
Lemma abs_item_single it : DefsEquivBase.mok_item it = true -> exists n, Build.abs_item it = [n].
Proof. destruct it; [discriminate|eexists; reflexivity..]. Qed.

Lemma walk_keys t : DefsEquivBase.mok_tbl t = true -> map fst (Build.abs_tbl t) = map fst (DefsEquivBase.abs_tbl t).
Proof.
  rewrite DefsEquivBase.mok_tbl_eq, DefsEquivBase.abs_tbl_eq. destruct t as [items d im dt p sp]. cbn [t_items Build.abs_tbl].
  unfold DefsEquivBase.mok_items, DefsEquivBase.abs_items. induction items as [|[k it] tl IH]; [reflexivity|]. cbn [forallb snd]. intro H.
  apply andb_true_iff in H as [Hi Hm]. cbn [flat_map map]. rewrite map_app, (IH Hm). destruct (abs_item_single it Hi) as (n & ->). reflexivity.
Qed.

(* the first key of the root table spells the private name of the date-time tunnel (F14) *)
Definition root_first_private (d : doc) : bool :=
  match t_items (doc_root d) with (k, _) :: _ => bytes_eqb (k_key k) DT_FIELD | [] => false end.

Lemma walk_is_table back t : exists es, walk back t = VTab es /\ map fst es = map fst (Build.abs_tbl t).
Proof. unfold walk, tomlval_of_abs. eexists. split; [reflexivity|]. rewrite map_map. reflexivity. Qed.

Theorem parsed_root_plain back s d : parse_document s = POk d -> root_first_private d = false -> plain_root (walk back (doc_root d)) = true.
Proof.
  intros Hp Hf. destruct (FrontEndsReady.parse_document_swf s d Hp) as [Hm Hs]. destruct (walk_is_table back (doc_root d)) as (es & -> & Ek).
  cbn [plain_root]. rewrite Ek, (walk_keys _ Hm). apply DefsEquivSpec.swf_split in Hs as [_ Hn]. rewrite (FrontEndsReady.snodup_nodup _ Hn). cbn [andb].
  destruct es as [|[k x] es']; [reflexivity|]. cbn [map fst] in Ek. rewrite (walk_keys _ Hm), DefsEquivBase.abs_tbl_eq in Ek.
  unfold root_first_private in Hf. destruct (t_items (doc_root d)) as [|[k0 it0] tl]; [discriminate|]. cbn [DefsEquivBase.abs_items map DefsEquivBase.abs_kv fst] in Ek.
  injection Ek as -> _. rewrite Hf. reflexivity.
Qed.

(* ================================================================================================================== *)
(* (a) the routes agree                                                                                               *)
(* ================================================================================================================== *)
Lemma lift_ok r o : lift r = TOk o -> r = Ok o.
Proof. destruct r as [o'|e]; [intro H; injection H as <-; reflexivity|destruct e; discriminate]. Qed.
Lemma lift_not_panic r : lift r <> TPanic.
Proof. destruct r as [o'|e]; [discriminate|destruct e; discriminate]. Qed.
Lemma lift_not_parse r : lift r <> TParseErr.
Proof. destruct r as [o'|e]; [discriminate|destruct e; discriminate]. Qed.

Section Agree.
  Variable back : fval -> N.

  (* the routes that hand the parsed root to T::deserialize: one composition of the same two calls, four times *)
  Theorem direct_routes_same tg s :
    toml_from_str back tg s = edit_from_str back tg s /\ route_im back tg s = edit_from_str back tg s
    /\ route_fromstr back tg s = edit_from_str back tg s.
  Proof.
    unfold toml_from_str, edit_from_str, route_im, route_fromstr, edit_deserializer_parse, edit_from_document_im, im_parse.
    destruct (parse_document s); auto.
  Qed.

  (* the bytes entry point: the UTF-8 gate, then the string entry point *)
  Theorem slice_route tg bs :
    (utf8_valid_b bs = true -> edit_from_slice back tg bs = edit_from_str back tg bs)
    /\ (utf8_valid_b bs = false -> edit_from_slice back tg bs = TUtf8Err).
  Proof. unfold edit_from_slice. destruct (utf8_valid_b bs); split; intro; congruence. Qed.

  (* DocumentMut: into_mut never fails on the document of a &str, and the deserializer walks the same tree *)
  Theorem mut_route tg s : utf8_valid_b s = true -> route_mut back tg s = edit_from_str back tg s.
  Proof.
    intro Hu. unfold route_mut, edit_from_str, edit_deserializer_parse, im_parse. destruct (parse_document s) as [d|e a|m] eqn:Hp; try reflexivity.
    destruct (despan_total s d Hu Hp) as (r & t & Er & _). unfold into_mut. rewrite Er. unfold edit_from_document_mut. f_equal.
    pose proof (into_mut_walk back s d r Er) as Ew. unfold deserialize. rewrite Ew. reflexivity.
  Qed.

  Theorem no_route_panics r t s : utf8_valid_b s = true -> run_route back r t s <> TPanic.
  Proof.
    intro Hu. assert (He : forall tg, edit_from_str back tg s <> TPanic).
    { intro tg. unfold edit_from_str, edit_deserializer_parse, im_parse. destruct (parse_document s) as [d|e a|m] eqn:Hp.
      - apply lift_not_panic.
      - discriminate.
      - exfalso. exact (proj1 (entry_points_total s m) Hp). }
    destruct r; cbn [run_route].
    - rewrite (proj1 (direct_routes_same (ToTy t) s)). apply He.
    - apply He.
    - rewrite (proj1 (slice_route (ToTy t) s) Hu). apply He.
    - rewrite (mut_route (ToTy t) s Hu). apply He.
    - rewrite (proj1 (proj2 (direct_routes_same (ToTy t) s))). apply He.
    - rewrite (proj2 (proj2 (direct_routes_same (ToTy t) s))). apply He.
    - unfold route_tval, value_from_str. rewrite (proj1 (direct_routes_same ToValue s)). pose proof (He ToValue) as H.
      destruct (edit_from_str back ToValue s) as [[v|y]| | | | |]; try discriminate; [|congruence].
      unfold try_into. apply lift_not_panic.
    - unfold route_ttab, table_from_str. rewrite (proj1 (direct_routes_same ToTable s)). pose proof (He ToTable) as H.
      destruct (edit_from_str back ToTable s) as [[v|y]| | | | |]; try discriminate; [|congruence].
      unfold try_into. apply lift_not_panic.
  Qed.

  (* all direct routes give the same answer on a &str *)
  Theorem direct_routes_agree r t s : utf8_valid_b s = true -> direct_route r = true ->
    run_route back r t s = edit_from_str back (ToTy t) s.
  Proof.
    intros Hu Hr. destruct r; try discriminate; cbn [run_route].
    - apply (proj1 (direct_routes_same (ToTy t) s)).
    - reflexivity.
    - apply (proj1 (slice_route (ToTy t) s) Hu).
    - apply (mut_route (ToTy t) s Hu).
    - apply (proj1 (proj2 (direct_routes_same (ToTy t) s))).
    - apply (proj2 (proj2 (direct_routes_same (ToTy t) s))).
  Qed.

  (* what a route returns in terms of the parsed document *)
  Lemma edit_from_str_ok tg s o : edit_from_str back tg s = TOk o ->
    exists d, parse_document s = POk d /\ deserialize back tg (doc_root d) = Ok o.
  Proof.
    unfold edit_from_str, edit_deserializer_parse, im_parse. destruct (parse_document s) as [d|e a|m]; try discriminate.
    intro H. exists d. split; [reflexivity|]. apply lift_ok, H.
  Qed.

  Lemma route_tval_ok t s v : route_tval back t s = TOk (OVal v) ->
    exists d y, parse_document s = POk d /\ to_toml_value (walk back (doc_root d)) = Ok y /\ tv_de t y = Ok v.
  Proof.
    unfold route_tval, value_from_str. rewrite (proj1 (direct_routes_same ToValue s)).
    destruct (edit_from_str back ToValue s) as [[v0|y]| | | | |] eqn:E; try discriminate. intro H.
    destruct (edit_from_str_ok _ _ _ E) as (d & Hp & Hd). exists d, y. split; [exact Hp|]. cbn [deserialize] in Hd.
    destruct (to_toml_value (walk back (doc_root d))) as [y0|] eqn:Ey; [|discriminate]. injection Hd as <-. split; [reflexivity|].
    unfold try_into in H. apply lift_ok in H. destruct (tv_de t y0); [injection H as <-; reflexivity|discriminate].
  Qed.

  Lemma route_ttab_ok t s v : route_ttab back t s = TOk (OVal v) ->
    exists d y, parse_document s = POk d /\ to_toml_table (walk back (doc_root d)) = Ok y /\ tv_de t y = Ok v.
  Proof.
    unfold route_ttab, table_from_str. rewrite (proj1 (direct_routes_same ToTable s)).
    destruct (edit_from_str back ToTable s) as [[v0|y]| | | | |] eqn:E; try discriminate. intro H.
    destruct (edit_from_str_ok _ _ _ E) as (d & Hp & Hd). exists d, y. split; [exact Hp|]. cbn [deserialize] in Hd.
    destruct (to_toml_table (walk back (doc_root d))) as [y0|] eqn:Ey; [|discriminate]. injection Hd as <-. split; [reflexivity|].
    unfold try_into in H. apply lift_ok in H. destruct (tv_de t y0); [injection H as <-; reflexivity|discriminate].
  Qed.

  (* every route is `decode` (Model/SerdeRoutes.v) on the tree the deserializer walks *)
  Definition tree_route (r : text_route) : dec_route :=
    match r with Tt => R_t | Te => R_e | Tesl => R_esl | Tedoc => R_edoc | Teim => R_eim | Tefs => R_efs | Ttval => R_tval | Tttab => R_ttab end.

  Theorem route_is_decode r t s v : utf8_valid_b s = true -> run_route back r t s = TOk (OVal v) ->
    exists d, parse_document s = POk d /\ decode (tree_route r) t (walk back (doc_root d)) = Ok v.
  Proof.
    intros Hu H. destruct (direct_route r) eqn:Hr.
    - rewrite (direct_routes_agree r t s Hu Hr) in H. destruct (edit_from_str_ok _ _ _ H) as (d & Hp & Hd). exists d. split; [exact Hp|].
      cbn [deserialize] in Hd. destruct (de_value t (walk back (doc_root d))) as [v0|] eqn:E; [|discriminate]. injection Hd as <-.
      destruct r; try discriminate; exact E.
    - destruct r; try discriminate; cbn [run_route] in H.
      + destruct (route_tval_ok t s v H) as (d & y & Hp & Ey & Ev). exists d. split; [exact Hp|]. cbn [tree_route decode]. rewrite Ey. exact Ev.
      + destruct (route_ttab_ok t s v H) as (d & y & Hp & Ey & Ev). exists d. split; [exact Hp|]. cbn [tree_route decode]. rewrite Ey. exact Ev.
  Qed.

  (* any two routes that succeed return equal values *)
  Theorem text_routes_agree r1 r2 t s v1 v2 :
    utf8_valid_b s = true -> twin_ty t = true ->
    (r1 = Tttab \/ r2 = Tttab -> forall d, parse_document s = POk d -> root_first_private d = false) ->
    run_route back r1 t s = TOk (OVal v1) -> run_route back r2 t s = TOk (OVal v2) -> sval_eq v1 v2 \/ sval_eq v2 v1.
  Proof.
    intros Hu Htw Hpl H1 H2. destruct (route_is_decode r1 t s v1 Hu H1) as (d & Hp & D1). destruct (route_is_decode r2 t s v2 Hu H2) as (d' & Hp' & D2).
    rewrite Hp in Hp'. injection Hp' as <-. apply (decode_routes_agree t (walk back (doc_root d)) (tree_route r1) (tree_route r2) v1 v2 Htw); [|exact D1|exact D2].
    intro Hr. apply (parsed_root_plain back s d Hp). apply (Hpl); [|exact Hp].
    destruct Hr as [Hr | Hr]; [left; destruct r1; try discriminate; reflexivity|right; destruct r2; try discriminate; reflexivity].
  Qed.

  (* the parser's verdict is the verdict of every route *)
  Theorem route_parse_error r t s : utf8_valid_b s = true ->
    (run_route back r t s = TParseErr <-> exists e a, parse_document s = PErr e a).
  Proof.
    intro Hu. assert (He : forall tg, edit_from_str back tg s = TParseErr <-> exists e a, parse_document s = PErr e a).
    { intro tg. unfold edit_from_str, edit_deserializer_parse, im_parse. destruct (parse_document s) as [d|e a|m].
      - split; [intro H; exfalso; exact (lift_not_parse _ H)|intros (e & a & H); discriminate].
      - split; [eauto|reflexivity].
      - split; [discriminate|intros (e & a & H); discriminate]. }
    destruct (direct_route r) eqn:Hr; [rewrite (direct_routes_agree r t s Hu Hr); apply He|].
    destruct r; try discriminate; cbn [run_route].
    - unfold route_tval, value_from_str. rewrite (proj1 (direct_routes_same ToValue s)). rewrite <- (He ToValue).
      destruct (edit_from_str back ToValue s) as [[v0|y]| | | | |]; try (split; [discriminate|discriminate]); try tauto.
      unfold try_into. split; [intro H; exfalso; exact (lift_not_parse _ H)|discriminate].
    - unfold route_ttab, table_from_str. rewrite (proj1 (direct_routes_same ToTable s)). rewrite <- (He ToTable).
      destruct (edit_from_str back ToTable s) as [[v0|y]| | | | |]; try (split; [discriminate|discriminate]); try tauto.
      unfold try_into. split; [intro H; exfalso; exact (lift_not_parse _ H)|discriminate].
  Qed.
End Agree.

(* ================================================================================================================== *)
(* (b) on the text a serializer writes, the direct routes return the value                                            *)
(* ================================================================================================================== *)
From TV Require Import Base.Winnow Gen.Consts Model.Write Model.SerFmt Proofs.BuiltRTValue Proofs.BuiltRTTop
                       Proofs.SerDocDe Proofs.SerDocWf Proofs.SerDocBuilt Proofs.SerDocBack Proofs.SerDocTop.

(* the text of a text route (None: the serializer returned an error) *)
Definition ser_text_bytes (fd : N -> fval) (r : troute) (t : ty) (v : sval) : option bytes :=
  match ser_doc fd r t v with Some T => Some (display_document (render_tbl float_text T) REmpty) | None => None end.

Theorem serialized_direct fd back : float_oracle fd back -> forall r0 ty v out,
  has_type v ty -> utf8_ty ty = true -> utf8_sv v = true ->
  ser_text r0 ty v = SerdeData.Ok out -> tv_depth out <= LIMIT ->
  exists text d v',
    ser_text_bytes fd r0 ty v = Some text /\ parse_document text = POk d /\ sval_eq v v'
    /\ tv_equiv out (walk back (doc_root d))
    /\ (forall r, r = Tt \/ r = Te \/ r = Teim \/ r = Tefs -> run_route back r ty text = TOk (OVal v'))
    /\ (utf8_valid_b text = true -> forall r, direct_route r = true -> run_route back r ty text = TOk (OVal v')).
Proof.
  intros Ho r0 ty v out Hty Ht Hu Hser Hd.
  destruct (text_roundtrip fd back Ho r0 ty v out Hty Ht Hu Hser Hd) as (T & d & v' & H1 & _ & H3 & _ & H5 & H6 & H7).
  exists (display_document (render_tbl float_text T) REmpty), d, v'. unfold ser_text_bytes. rewrite H1.
  split; [reflexivity|]. split; [exact H3|]. split; [exact H7|]. split; [exact H5|].
  assert (He : edit_from_str back (ToTy ty) (display_document (render_tbl float_text T) REmpty) = TOk (OVal v')).
  { unfold edit_from_str, edit_deserializer_parse, im_parse. rewrite H3. cbn [deserialize]. unfold de_doc in H6. unfold walk. rewrite H6. reflexivity. }
  split.
  - intros r [-> | [-> | [-> | ->]]]; cbn [run_route].
    + rewrite (proj1 (direct_routes_same back (ToTy ty) _)). exact He.
    + exact He.
    + rewrite (proj1 (proj2 (direct_routes_same back (ToTy ty) _))). exact He.
    + rewrite (proj2 (proj2 (direct_routes_same back (ToTy ty) _))). exact He.
  - intros Hv r Hr. rewrite (direct_routes_agree back r ty _ Hv Hr). exact He.
Qed.
