(* Proofs/WFReparse.v — WF backbone applied to parsed documents: if the despanned tree of a parsed document is
   well-formed and Display's data `abs_doc_of` is the document's data, the printed text is accepted again and
   decodes to the same data.  Both premises are decidable (`wfdoc_b`, `stree_eqb`): the theorem can be run as a
   certified check on any document; Proofs/WFParse*.v discharge them for all parsed documents of the covered class. *)
From TV Require Import Base.Prelude Base.Utf8 Base.Winnow Gen.Consts Spec.Abnf Spec.Lex Spec.Defs Spec.DatetimeSpec Spec.Syntax Spec.WF.
From TV Require Import Model.Datetime Model.Numbers Model.Tree Model.Parse Model.Document Model.Write Model.Encode.
From TV Require Import Proofs.GrammarBase Proofs.PrintBackBase.
From TV Require Import Proofs.WFBool Proofs.WFBoolSound Proofs.WFTree Proofs.WFPrintTop.
Require Import Lia NArith ZArith.

(* ---- deciding equality of data trees ------------------------------------------------------------------------------------ *)
Fixpoint dval_eqb (a b : dval) {struct a} : bool :=
  match a, b with
  | DStr x, DStr y => bytes_eqb x y
  | DInt x, DInt y => Z.eqb x y
  | DFloat x, DFloat y => fval_eqb x y
  | DBool x, DBool y => Bool.eqb x y
  | DDate x, DDate y => datetime_eqb x y
  | DArr l, DArr m =>
    (fix go (l m : list dval) {struct l} : bool :=
       match l, m with
       | [], [] => true
       | x :: l', y :: m' => dval_eqb x y && go l' m'
       | _, _ => false
       end) l m
  | DTab l, DTab m =>
    (fix go (l m : list (bytes * dval)) {struct l} : bool :=
       match l, m with
       | [], [] => true
       | (k, x) :: l', (k', y) :: m' => bytes_eqb k k' && dval_eqb x y && go l' m'
       | _, _ => false
       end) l m
  | _, _ => false
  end.

Lemma dval_ind' (P : dval -> Prop) :
  (forall s, P (DStr s)) -> (forall z, P (DInt z)) -> (forall f, P (DFloat f)) -> (forall b, P (DBool b)) -> (forall d, P (DDate d)) ->
  (forall l, Forall P l -> P (DArr l)) -> (forall l, Forall (fun kv => P (snd kv)) l -> P (DTab l)) -> forall v, P v.
Proof.
  intros H1 H2 H3 H4 H5 H6 H7. fix IH 1. intros [s|z|f|b|d|l|l]; [apply H1|apply H2|apply H3|apply H4|apply H5| |].
  - apply H6. induction l; constructor; [apply IH|assumption].
  - apply H7. induction l as [|[k x] l IHl]; constructor; [apply IH|assumption].
Qed.

Lemma dval_eqb_eq : forall a b, dval_eqb a b = true -> a = b.
Proof.
  induction a as [s|z|f|b0|d|l IH|l IH] using dval_ind'; intros [s'|z'|f'|b'|d'|m|m] H; cbn [dval_eqb] in H; try discriminate.
  - apply bytes_eqb_eq in H. congruence.
  - apply Z.eqb_eq in H. congruence.
  - apply fval_eqb_eq in H. congruence.
  - apply Bool.eqb_prop in H. congruence.
  - apply datetime_eqb_eq in H. congruence.
  - f_equal. revert m H. induction IH as [|x l Hx _ IHl]; intros [|y m] H; try discriminate; [reflexivity|].
    apply andb_true_iff in H as [H1 H2]. rewrite (Hx _ H1), (IHl _ H2). reflexivity.
  - f_equal. revert m H. induction IH as [|[k x] l Hx _ IHl]; intros [|[k' y] m] H; try discriminate; [reflexivity|].
    apply andb_true_iff in H as [H H3]. apply andb_true_iff in H as [H1 H2]. apply bytes_eqb_eq in H1. cbn [snd] in Hx.
    rewrite H1, (Hx _ H2), (IHl _ H3). reflexivity.
Qed.

Definition kind_eqb (a b : kind) : bool :=
  match a, b with KSuper, KSuper | KHeader, KHeader | KDotted, KDotted => true | _, _ => false end.
Fixpoint node_eqb (a b : node dval) {struct a} : bool :=
  match a, b with
  | NVal x, NVal y => dval_eqb x y
  | NTab k l, NTab k' m =>
    kind_eqb k k' &&
    (fix go (l m : list (bytes * node dval)) {struct l} : bool :=
       match l, m with
       | [], [] => true
       | (key, x) :: l', (key', y) :: m' => bytes_eqb key key' && node_eqb x y && go l' m'
       | _, _ => false
       end) l m
  | NAot es, NAot fs =>
    (fix goe (es fs : list (list (bytes * node dval))) {struct es} : bool :=
       match es, fs with
       | [], [] => true
       | l :: es', m :: fs' =>
         (fix go (l m : list (bytes * node dval)) {struct l} : bool :=
            match l, m with
            | [], [] => true
            | (key, x) :: l', (key', y) :: m' => bytes_eqb key key' && node_eqb x y && go l' m'
            | _, _ => false
            end) l m && goe es' fs'
       | _, _ => false
       end) es fs
  | _, _ => false
  end.
Definition stree_eqb (a b : stree dval) : bool := node_eqb (NTab KHeader a) (NTab KHeader b).

Lemma node_ind' (P : node dval -> Prop) :
  (forall v, P (NVal v)) -> (forall k l, Forall (fun kn => P (snd kn)) l -> P (NTab k l)) ->
  (forall es, Forall (Forall (fun kn => P (snd kn))) es -> P (NAot es)) -> forall n, P n.
Proof.
  intros H1 H2 H3. fix IH 1. intros [v|k l|es]; [apply H1| |].
  - apply H2. induction l as [|[key x] l IHl]; constructor; [apply IH|assumption].
  - apply H3. induction es as [|l es IHe]; constructor; [|assumption].
    induction l as [|[key x] l IHl]; constructor; [apply IH|assumption].
Qed.

Lemma node_eqb_eq : forall a b, node_eqb a b = true -> a = b.
Proof.
  assert (L : forall l : list (bytes * node dval), Forall (fun kn => forall b, node_eqb (snd kn) b = true -> snd kn = b) l ->
              forall m, (fix go (l m : list (bytes * node dval)) {struct l} : bool :=
                           match l, m with
                           | [], [] => true
                           | (key, x) :: l', (key', y) :: m' => bytes_eqb key key' && node_eqb x y && go l' m'
                           | _, _ => false
                           end) l m = true -> l = m).
  { induction 1 as [|[k x] l Hx _ IHl]; intros [|[k' y] m] H; try discriminate; [reflexivity|].
    apply andb_true_iff in H as [H H3]. apply andb_true_iff in H as [H1 H2]. apply bytes_eqb_eq in H1. cbn [snd] in Hx.
    rewrite H1, (Hx _ H2), (IHl _ H3). reflexivity. }
  induction a as [v|k l IH|es IH] using node_ind'; intros [v'|k' m|fs] H; cbn [node_eqb] in H; try discriminate.
  - apply dval_eqb_eq in H. congruence.
  - apply andb_true_iff in H as [H1 H2]. rewrite (L l IH m H2). destruct k, k'; try discriminate; reflexivity.
  - f_equal. revert fs H. induction IH as [|l es Hl _ IHe]; intros [|m fs] H; try discriminate; [reflexivity|].
    apply andb_true_iff in H as [H1 H2]. rewrite (L l Hl m H1), (IHe _ H2). reflexivity.
Qed.
Lemma stree_eqb_eq a b : stree_eqb a b = true -> a = b.
Proof. intro H. apply node_eqb_eq in H. congruence. Qed.

(* ---- the certified check ------------------------------------------------------------------------------------------------- *)
Theorem reparse_of_wf s d r t :
  parse_document s = POk d -> tbl_despan s (doc_root d) = Some r -> raw_despan s (doc_trailing d) = Some t ->
  WFdoc r t -> abs_doc_of r = abs_doc d ->
  print_doc s d = Some (display_document r t)
  /\ exists d', parse_document (display_document r t) = POk d' /\ abs_doc d' = abs_doc d.
Proof.
  intros _ Er Et Hw Ha. split; [unfold print_doc; rewrite Er, Et; reflexivity|].
  destruct (WF_print_parse r t Hw) as (d' & P & A). exists d'. split; [exact P|congruence].
Qed.

Definition reparse_check (s : bytes) (d : doc) : bool :=
  match tbl_despan s (doc_root d), raw_despan s (doc_trailing d) with
  | Some r, Some t => wfdoc_b r t && stree_eqb (abs_doc_of r) (abs_doc d)
  | _, _ => false
  end.

Theorem reparse_checked s d :
  parse_document s = POk d -> reparse_check s d = true ->
  exists o d', print_doc s d = Some o /\ parse_document o = POk d' /\ abs_doc d' = abs_doc d.
Proof.
  intros Hp Hc. unfold reparse_check in Hc. destruct (tbl_despan s (doc_root d)) as [r|] eqn:Er; [|discriminate].
  destruct (raw_despan s (doc_trailing d)) as [t|] eqn:Et; [|discriminate]. apply andb_true_iff in Hc as [H1 H2].
  destruct (reparse_of_wf s d r t Hp Er Et (wfdoc_b_sound _ _ H1) (stree_eqb_eq _ _ H2)) as (Eo & d' & P & A).
  exists (display_document r t), d'. auto.
Qed.
