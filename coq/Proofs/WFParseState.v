(* Proofs/WFParseState.v — parsed documents are well-formed, part 3: the parse state (state.rs).
   `twl top h n t`: the slot-level half of Spec/WF.v `tbl_wf` + `tbl_lim` on the despanned table (decor is legal trivia,
   keys are fit for lines, values are well-formed and within the limits, a dotted table is implicit, header tables
   lie less than LIMIT deep), WITHOUT the clauses on key uniqueness and on which tables print something (those come
   from C09's simulation and from the specification side, Proofs/WFParseFlags.v).  It is kept by descend_path
   (`with_table_at`) and by on_keyval / finalize_table / start_table / start_array_table. *)
From TV Require Import Base.Prelude Base.Utf8 Base.Winnow Gen.Consts Spec.Abnf Spec.Lex Spec.Defs Spec.DatetimeSpec Spec.Syntax Spec.WF.
From TV Require Import Model.Trivia Model.Strings Model.Datetime Model.Numbers Model.Tree Model.Parse Model.Document Model.Write Model.Encode.
From TV Require Import Proofs.PrintBackBase Proofs.PrintBackEnc.
From TV Require Import Proofs.WFTok Proofs.WFPrintKey Proofs.WFPrintFlat Proofs.WFPrintValue Proofs.WFTree Proofs.WFParseBase Proofs.WFParseValue.
Require Import Lia NArith.

Section PS.
  Variable s : bytes.

  (* a key fit for a key/value line or a header *)
  Definition kline (k : key) : Prop := key_wf true (tkey s k).

  Lemma ws_lines_raw r : raw_ok SWs r -> raw_ok SLines r.
  Proof. destruct r; cbn [raw_ok slot_ok]; auto; apply ln_last. Qed.
  Lemma kgood_kline k : kgood s k -> kline k.
  Proof.
    intros (H1 & H2 & [H3 H4]). split; [exact H1|]. split; [exact H2|]. split; [|exact H4].
    destruct (d_prefix (k_leaf (tkey s k))); [apply ws_lines_raw, H3|exact I].
  Qed.

  Fixpoint twl (top : bool) (h n : nat) (t : tbl) {struct t} : Prop :=
    match t with
    | Tbl items d im dt _ _ =>
      decor_ok SLines (if top then SLines else SLineTrail) (tdecor s d) /\ (dt = true -> im = true)
      /\ all_P (fun kv => kline (fst kv) /\
                          match snd kv with
                          | INone => True
                          | IValue v => pair_wf true (IValue (tvalue s v)) /\ line_lim (S n) (IValue (tvalue s v))
                          | ITable sub => if t_dotted sub then twl false (S h) (S n) sub else S h < LIMIT /\ twl false (S h) 0 sub
                          | IAot ts _ => S h < LIMIT /\ all_P (twl false (S h) 0) ts
                          end) items
    end.
  Definition tentry (h n : nat) (kv : key * item) : Prop :=
    kline (fst kv) /\
    match snd kv with
    | INone => True
    | IValue v => pair_wf true (IValue (tvalue s v)) /\ line_lim (S n) (IValue (tvalue s v))
    | ITable sub => if t_dotted sub then twl false (S h) (S n) sub else S h < LIMIT /\ twl false (S h) 0 sub
    | IAot ts _ => S h < LIMIT /\ all_P (twl false (S h) 0) ts
    end.
  Lemma twl_eq top h n t :
    twl top h n t <-> decor_ok SLines (if top then SLines else SLineTrail) (tdecor s (t_decor t))
                      /\ (t_dotted t = true -> t_implicit t = true) /\ all_P (tentry h n) (t_items t).
  Proof. destruct t; reflexivity. Qed.
  Lemma twl_set_items top h n t m : twl top h n t -> all_P (tentry h n) m -> twl top h n (t_set_items t m).
  Proof. destruct t. cbn [t_set_items]. rewrite !twl_eq. cbn. tauto. Qed.
  Lemma twl_set_span top h n t sp : twl top h n (t_set_span t sp) <-> twl top h n t.
  Proof. destruct t. reflexivity. Qed.
  Lemma twl_new top h n im dt : (dt = true -> im = true) -> twl top h n (Tbl [] decor_default im dt None None).
  Proof. intro H. cbn. split; [split; exact I|]. split; [exact H|exact I]. Qed.
  Lemma t_dotted_set_items t m : t_dotted (t_set_items t m) = t_dotted t. Proof. destruct t; reflexivity. Qed.
  Lemma t_items_set_items t m : t_items (t_set_items t m) = m. Proof. destruct t; reflexivity. Qed.

  (* ---- descend_path ------------------------------------------------------------------------------------------------ *)
  Lemma wta_twl {X} dotted (f : tbl -> cres (tbl * X)) : forall path t top h n t' x,
    with_table_at t path dotted f = COk (t', x) ->
    twl top h n t -> Forall kline path -> (dotted = false -> h + length path < LIMIT) ->
    (forall table top' n' table', top' = (match path with [] => top | _ => false end) -> n' <= n + length path ->
        twl top' (h + length path) n' table -> f table = COk (table', x) ->
        twl top' (h + length path) n' table' /\ t_dotted table' = t_dotted table) ->
    twl top h n t' /\ t_dotted t' = t_dotted t
    /\ exists table table' top' n', n' <= n + length path /\ twl top' (h + length path) n' table /\ f table = COk (table', x).
  Proof.
    induction path as [|k ptl IH]; intros t top h n t' x H Ht Hp Hlen Hf; cbn [with_table_at] in H.
    - specialize (Hf t top n t' eq_refl). cbn [length] in *. rewrite !Nat.add_0_r in *. destruct (Hf (Nat.le_refl _) Ht H) as [H1 H2].
      split; [exact H1|]. split; [exact H2|]. exists t, t', top, n. auto.
    - inversion Hp as [|? ? Hk Hptl]; subst. cbn [length] in Hlen.
      assert (Hlen' : dotted = false -> S h + length ptl < LIMIT) by (intro Hd0; specialize (Hlen Hd0); lia).
      assert (Hf' : forall n1, n1 <= S n -> forall table top' n' table',
                 top' = (match ptl with [] => false | _ => false end) -> n' <= n1 + length ptl ->
                 twl top' (S h + length ptl) n' table -> f table = COk (table', x) ->
                 twl top' (S h + length ptl) n' table' /\ t_dotted table' = t_dotted table).
      { intros n1 Hn1 table top' n' table' Et Hn' Htab Hft. replace (S h + length ptl) with (h + length (k :: ptl)) in * by (cbn [length]; lia).
        apply Hf; [destruct ptl; exact Et|cbn [length]; lia|exact Htab|exact Hft]. }
      apply twl_eq in Ht. destruct Ht as (Hd & Hdi & Hall).
      destruct (kv_get (t_items t) (k_key k)) as [[k0 it0]|] eqn:G.
      + pose proof (all_P_get _ _ _ _ _ Hall G) as [Hk0 Hent]. cbn [fst snd] in Hk0, Hent.
        destruct it0 as [|v0|sub|ts asp].
        * discriminate.
        * discriminate.
        * destruct (dotted && negb (t_implicit sub)); [discriminate|].
          destruct (with_table_at sub ptl dotted f) as [[sub' x']| |] eqn:E; try discriminate. injection H as <- <-.
          destruct (t_dotted sub) eqn:Ed.
          -- destruct (IH sub false (S h) (S n) sub' x' E Hent Hptl Hlen') as (Hs' & Ed' & table & table' & top' & n' & Hn' & Htab & Hft).
             { intros table top' n' table' Et Hn'. apply (Hf' (S n) (Nat.le_refl _) table top' n' table'); [destruct ptl; exact Et|exact Hn']. }
             split; [|split; [apply t_dotted_set_items|]].
             ++ apply twl_set_items; [apply twl_eq; auto|]. apply (all_P_set _ _ _ k0 _ _ Hall G). split; [exact Hk0|]. cbn [snd]. rewrite Ed', Ed. exact Hs'.
             ++ exists table, table', top', n'. replace (h + length (k :: ptl)) with (S h + length ptl) by (cbn [length]; lia).
                split; [cbn [length]; lia|auto].
          -- destruct Hent as [Hh Hent].
             destruct (IH sub false (S h) 0 sub' x' E Hent Hptl Hlen') as (Hs' & Ed' & table & table' & top' & n' & Hn' & Htab & Hft).
             { intros table top' n' table' Et Hn'. apply (Hf' 0 (Nat.le_0_l _) table top' n' table'); [destruct ptl; exact Et|exact Hn']. }
             split; [|split; [apply t_dotted_set_items|]].
             ++ apply twl_set_items; [apply twl_eq; auto|]. apply (all_P_set _ _ _ k0 _ _ Hall G). split; [exact Hk0|]. cbn [snd]. rewrite Ed', Ed. auto.
             ++ exists table, table', top', n'. replace (h + length (k :: ptl)) with (S h + length ptl) by (cbn [length]; lia).
                split; [cbn [length]; lia|auto].
        * destruct (dotted && match ptl with [] => false | _ => true end); [discriminate|].
          destruct (rev ts) as [|last rinit] eqn:Er; [discriminate|].
          destruct (with_table_at last ptl dotted f) as [[last' x']| |] eqn:E; try discriminate. injection H as <- <-.
          destruct Hent as [Hh Hts].
          assert (Ets : ts = rev rinit ++ [last]) by (rewrite <- (rev_involutive ts), Er; reflexivity).
          rewrite Ets in Hts. apply all_P_app in Hts as [Hinit [Hlast _]].
          destruct (IH last false (S h) 0 last' x' E Hlast Hptl Hlen') as (Hs' & Ed' & table & table' & top' & n' & Hn' & Htab & Hft).
          { intros table top' n' table' Et Hn'. apply (Hf' 0 (Nat.le_0_l _) table top' n' table'); [destruct ptl; exact Et|exact Hn']. }
          split; [|split; [apply t_dotted_set_items|]].
          -- apply twl_set_items; [apply twl_eq; auto|]. apply (all_P_set _ _ _ k0 _ _ Hall G). split; [exact Hk0|]. cbn [snd]. split; [exact Hh|].
             cbn [rev]. apply all_P_app. split; [exact Hinit|split; [exact Hs'|exact I]].
          -- exists table, table', top', n'. replace (h + length (k :: ptl)) with (S h + length ptl) by (cbn [length]; lia).
             split; [cbn [length]; lia|auto].
      + destruct (with_table_at (Tbl [] decor_default true dotted None None) ptl dotted f) as [[sub' x']| |] eqn:E; try discriminate. injection H as <- <-.
        destruct (IH _ false (S h) (if dotted then S n else 0) sub' x' E (twl_new _ _ _ true dotted (fun _ => eq_refl)) Hptl Hlen')
          as (Hs' & Ed' & table & table' & top' & n' & Hn' & Htab & Hft).
        { intros table top' n' table' Et Hn'. apply (Hf' (if dotted then S n else 0)); [destruct dotted; lia|destruct ptl; exact Et|exact Hn']. }
        cbn [t_dotted] in Ed'.
        split; [|split; [apply t_dotted_set_items|]].
        * apply twl_set_items; [apply twl_eq; auto|]. apply all_P_push; [exact Hall|]. split; [exact Hk|]. cbn [snd]. rewrite Ed'.
          destruct dotted; [exact Hs'|]. split; [specialize (Hlen eq_refl); lia|exact Hs'].
        * exists table, table', top', n'. replace (h + length (k :: ptl)) with (S h + length ptl) by (cbn [length]; lia).
          split; [destruct dotted; cbn [length]; lia|auto].
  Qed.

  Lemma pop_key_app l pre k : pop_key l = Some (pre, k) -> l = pre ++ [k].
  Proof.
    unfold pop_key. destruct (rev l) as [|x r] eqn:E; [discriminate|]. intro H. inversion H; subst.
    rewrite <- (rev_involutive l), E. reflexivity.
  Qed.

  (* ---- the state ------------------------------------------------------------------------------------------------------ *)
  Definition sinv (st : pstate) : Prop :=
    twl true 0 0 (st_root st)
    /\ twl false (length (st_path st)) 0 (st_current st)
    /\ t_dotted (st_current st) = false
    /\ Forall kline (st_path st) /\ length (st_path st) < LIMIT
    /\ (st_path st = [] -> t_decor (st_current st) = decor_default)
    /\ t_dotted (st_root st) = false.

  Lemma limit_pos : 0 < LIMIT. Proof. unfold LIMIT. lia. Qed.
  Lemma sinv_new : sinv state_new.
  Proof.
    unfold sinv, state_new. cbn [st_root st_current st_path length]. split; [apply twl_new; discriminate|].
    split; [apply twl_set_span, twl_new; discriminate|]. split; [reflexivity|]. split; [constructor|]. split; [apply limit_pos|split; reflexivity].
  Qed.
  Lemma sinv_on_ws st sp : sinv st -> sinv (on_ws st sp).
  Proof. exact (fun H => H). Qed.

  Lemma twl_top_default h n t : twl false h n t -> t_decor t = decor_default -> twl true h n t.
  Proof. rewrite !twl_eq. intros (_ & H2 & H3) E. rewrite E. split; [split; exact I|auto]. Qed.

  (* ---- on_keyval ----------------------------------------------------------------------------------------------------- *)
  (* the leaf prefix on_keyval gives the key: the trivia collected since the last item, up to the key *)
  Definition kv_prefix (st : pstate) (k : key) : raw :=
    match (match st_trailing st, (match d_prefix (k_leaf k) with Some r => raw_span r | None => None end) with
           | Some p, Some kk => Some (fst p, snd kk)
           | Some p, None => Some p
           | None, Some p => Some p
           | None, None => None
           end) with
    | Some sp => raw_with_span sp
    | None => REmpty
    end.

  Lemma on_keyval_sinv st path k v st' :
    on_keyval st path k (IValue v) = COk st' -> sinv st ->
    Forall kline path -> kgood s k -> raw_ok SLines (traw s (kv_prefix st k)) ->
    value_wf CLine (tvalue s v) -> written v -> value_lim 0 (tvalue s v) -> S (length path) < LIMIT ->
    sinv st' /\ st_path st' = st_path st /\ st_trailing st' = None.
  Proof.
    unfold on_keyval. cbv zeta. fold (kv_prefix st k).
    set (k' := set_leaf k (mkDecor (Some (kv_prefix st k)) (d_suffix (k_leaf k)))).
    set (cur := match t_span (st_current st), item_span (IValue v) with
                | Some e, Some vs => t_set_span (st_current st) (Some (fst e, snd vs))
                | _, _ => st_current st end).
    intros H (Hr & Hc & Hcd & Hp & Hl & Hdef & Hrd) Hpath Hk Hpre Hv Hwr Hvl Hlen.
    assert (Hk' : kline k').
    { destruct Hk as (H1 & H2 & [_ H4]). split; [exact H1|]. split; [exact H2|]. split; [exact Hpre|exact H4]. }
    assert (Hcur : twl false (length (st_path st)) 0 cur).
    { subst cur. destruct (t_span (st_current st)); [destruct (item_span (IValue v)); [apply twl_set_span|]|]; exact Hc. }
    assert (Hcurd : t_dotted cur = false /\ t_decor cur = t_decor (st_current st)).
    { subst cur. destruct (t_span (st_current st)); [destruct (item_span (IValue v))|]; destruct (st_current st); auto. }
    match type of H with context [with_table_at cur path true ?F] => set (f := F) in * end.
    destruct (with_table_at cur path true f) as [[cur' u]| |] eqn:E; try discriminate. injection H as <-.
    destruct (wta_twl true f path cur false _ 0 cur' u E Hcur Hpath (fun X => match Bool.diff_true_false X with end)) as (Hc' & Hd' & _).
    { intros table top' n' table' _ Hn' Htab Hft. subst f. cbv beta in Hft.
      destruct (Bool.eqb (t_dotted table) _); [discriminate|]. destruct (kv_get (t_items table) (k_key k')) eqn:G; [discriminate|].
      injection Hft as <-. split; [|apply t_dotted_set_items]. apply twl_eq in Htab as (Hd & Hdi & Hall). apply twl_set_items; [apply twl_eq; auto|].
      apply all_P_push; [exact Hall|]. split; [exact Hk'|]. cbn [snd]. rewrite (written_plain_pair _ (proj2 (written_t s v) Hwr)).
      split; [exact Hv|]. pose proof (proj2 (written_t s v) Hwr) as Hw'. destruct (tvalue s v) as [x r d|vals tr c d sp|sub pre im dt d sp]; cbn [line_lim].
      - split; [lia|exact Hvl].
      - split; [lia|exact Hvl].
      - destruct Hw' as [_ ->]. split; [lia|exact Hvl]. }
    cbn [st_path st_trailing]. split; [|auto]. unfold sinv. cbn [st_root st_current st_path].
    split; [exact Hr|]. split; [exact Hc'|]. split; [rewrite Hd'; apply Hcurd|]. split; [exact Hp|]. split; [exact Hl|]. split; [|exact Hrd].
    intro E0. specialize (Hdef E0).
    (* the decor of the current table is not touched by descend_path *)
    clear -E Hdef Hcurd. destruct Hcurd as [_ Ed]. rewrite <- Ed in Hdef. clear Ed.
    destruct path as [|pk ptl]; cbn [with_table_at] in E.
    - subst f. cbv beta in E. destruct (Bool.eqb _ _); [discriminate|]. destruct (kv_get _ _); [discriminate|]. injection E as <- _.
      destruct cur; exact Hdef.
    - destruct (kv_get (t_items cur) (k_key pk)) as [[k0 [|v0|sub|ts asp]]|].
      + discriminate.
      + discriminate.
      + destruct (true && negb (t_implicit sub)); [discriminate|]. destruct (with_table_at sub ptl true f) as [[a b]| |]; try discriminate.
        injection E as <- _. destruct cur; exact Hdef.
      + destruct (true && _); [discriminate|]. destruct (rev ts); [discriminate|]. destruct (with_table_at t ptl true f) as [[a b]| |]; try discriminate.
        injection E as <- _. destruct cur; exact Hdef.
      + destruct (with_table_at _ ptl true f) as [[a b]| |]; try discriminate. injection E as <- _. destruct cur; exact Hdef.
  Qed.

  (* the span bookkeeping of dotted tables changes spans only *)
  Lemma set_dotted_spans_twl : forall path t e top h n, twl top h n (set_dotted_spans t path e) <-> twl top h n t.
  Proof.
    induction path as [|k ptl IH]; intros t e top h n; [reflexivity|]. cbn [set_dotted_spans].
    destruct (kv_get (t_items t) (k_key k)) as [[k0 [|v0|sub|ts asp]]|] eqn:G; try reflexivity.
    set (sub1 := if t_dotted sub then match key_span k, e with Some ks, Some e0 => t_set_span sub (widen (t_span sub) ks e0) | _, _ => sub end else sub).
    assert (E1 : forall top' h' n', twl top' h' n' sub1 <-> twl top' h' n' sub).
    { intros. subst sub1. destruct (t_dotted sub); [|reflexivity]. destruct (key_span k); [|reflexivity]. destruct e; [|reflexivity]. apply twl_set_span. }
    assert (Ed1 : t_dotted sub1 = t_dotted sub).
    { subst sub1. destruct (t_dotted sub) eqn:Ed; [|exact Ed]. destruct (key_span k); [|exact Ed]. destruct e; [|exact Ed]. destruct sub; exact Ed. }
    assert (Ed2 : forall t0 p0, t_dotted (set_dotted_spans t0 p0 e) = t_dotted t0).
    { intros t0 p0. destruct p0 as [|k1 p1]; [reflexivity|]. cbn [set_dotted_spans].
      destruct (kv_get (t_items t0) (k_key k1)) as [[k2 [|v2|s2|ts2 a2]]|]; try reflexivity. apply t_dotted_set_items. }
    rewrite !twl_eq. destruct t as [items d im dt p sp]. cbn [t_set_items t_decor t_dotted t_implicit t_items] in *.
    assert (Hent : forall h0 n0, tentry h0 n0 (k0, ITable (set_dotted_spans sub1 ptl e)) <-> tentry h0 n0 (k0, ITable sub)).
    { intros h0 n0. unfold tentry. cbn [fst snd]. rewrite Ed2, Ed1. destruct (t_dotted sub); rewrite IH, E1; reflexivity. }
    split; intros (H1 & H2 & H3); (split; [exact H1|split; [exact H2|]]).
    - clear -H3 G Hent. revert H3 G. induction items as [|[k1 v1] items IHi]; cbn [kv_get kv_set all_P]; [auto|].
      destruct (bytes_eqb (k_key k1) (k_key k)).
      + intros [Ha Hb] E. inversion E; subst. cbn [all_P]. split; [apply Hent, Ha|exact Hb].
      + intros [Ha Hb] E. cbn [all_P]. split; [exact Ha|apply IHi; assumption].
    - apply (all_P_set _ _ _ k0 _ _ H3 G). apply Hent. exact (all_P_get _ _ _ _ _ H3 G).
  Qed.
  Lemma set_dotted_spans_dotted : forall p0 t0 e, t_dotted (set_dotted_spans t0 p0 e) = t_dotted t0 /\ t_decor (set_dotted_spans t0 p0 e) = t_decor t0.
  Proof.
    intros p0 t0 e. destruct p0 as [|k1 p1]; [auto|]. cbn [set_dotted_spans].
    destruct (kv_get (t_items t0) (k_key k1)) as [[k2 [|v2|s2|ts2 a2]]|]; auto. destruct t0; auto.
  Qed.

  Lemma on_keyval_sp_sinv st path k v st' :
    on_keyval_sp st path k (IValue v) = COk st' -> sinv st ->
    Forall kline path -> kgood s k -> raw_ok SLines (traw s (kv_prefix st k)) ->
    value_wf CLine (tvalue s v) -> written v -> value_lim 0 (tvalue s v) -> S (length path) < LIMIT ->
    sinv st' /\ st_path st' = st_path st /\ st_trailing st' = None.
  Proof.
    unfold on_keyval_sp. intros H Hs Hp Hk Hpre Hv Hw Hl Hlen. destruct (on_keyval st path k (IValue v)) as [st1| |] eqn:E; try discriminate.
    injection H as <-. destruct (on_keyval_sinv st path k v st1 E Hs Hp Hk Hpre Hv Hw Hl Hlen) as ((Hr & Hc & Hcd & Hpp & Hll & Hdef & Hrd) & Ep & Et).
    cbn [st_path st_trailing]. split; [|auto]. unfold sinv. cbn [st_root st_current st_path].
    destruct (set_dotted_spans_dotted path (st_current st1) (item_end (IValue v))) as [Ed Edec].
    split; [exact Hr|]. split; [apply set_dotted_spans_twl, Hc|]. split; [rewrite Ed; exact Hcd|]. split; [exact Hpp|]. split; [exact Hll|]. split; [|exact Hrd].
    intro E0. rewrite Edec. apply Hdef, E0.
  Qed.

  (* ---- finalize_table -------------------------------------------------------------------------------------------------- *)
  Lemma pop_key_none l : pop_key l = None -> l = [].
  Proof.
    unfold pop_key. destruct (rev l) eqn:E; [|discriminate]. intros _. apply (f_equal (@rev key)) in E. rewrite rev_involutive in E. exact E.
  Qed.

  Lemma finalize_sinv st st' :
    finalize_table st = COk st' -> sinv st ->
    twl true 0 0 (st_root st') /\ t_dotted (st_root st') = false /\ st_path st' = [] /\ st_trailing st' = st_trailing st /\ st_current st' = tbl_new.
  Proof.
    unfold finalize_table. cbv zeta. intros H (Hr & Hc & Hcd & Hp & Hl & Hdef & Hrd).
    destruct (pop_key (st_path st)) as [[ppath k]|] eqn:Ep.
    - pose proof (pop_key_app _ _ _ Ep) as Epath. rewrite Epath in Hp, Hl, Hc. apply Forall_app in Hp as [Hpp Hk]. inversion Hk as [|? ? Hk' _]; subst.
      rewrite app_length in Hl, Hc. cbn [length] in Hl, Hc.
      assert (Hcur : forall n', tentry (length ppath) n' (k, ITable (st_current st))).
      { intro n'. split; [exact Hk'|]. cbn [snd]. rewrite Hcd. split; [lia|]. replace (S (length ppath)) with (length ppath + 1) by lia. exact Hc. }
      destruct (st_is_array st).
      + match type of H with context [with_table_at (st_root st) ppath false ?F] => set (f := F) in * end.
        destruct (with_table_at (st_root st) ppath false f) as [[root' u]| |] eqn:E; try discriminate. injection H as <-.
        cbn [st_root st_path st_trailing st_current].
        destruct (wta_twl false f ppath (st_root st) true 0 0 root' u E Hr Hpp (fun _ => ltac:(cbn; lia))) as (Hr' & Hd' & _); [|split; [exact Hr'|split; [rewrite Hd'; exact Hrd|auto]]].
        intros table top' n' table' _ Hn' Htab Hft. subst f. cbv beta in Hft. cbn [Nat.add] in *.
        apply twl_eq in Htab as (Hd & Hdi & Hall).
        destruct (kv_get (t_items table) (k_key k)) as [[k0 [|v0|t0|ts asp]]|] eqn:G; try discriminate.
        * injection Hft as <-. split; [|apply t_dotted_set_items]. apply twl_set_items; [apply twl_eq; auto|].
          pose proof (all_P_get _ _ _ _ _ Hall G) as [Hk0 [Hh Hts]]. cbn [fst snd] in *.
          apply (all_P_set _ _ _ k0 _ _ Hall G). split; [exact Hk0|]. cbn [snd]. split; [exact Hh|]. apply all_P_app. split; [exact Hts|].
          split; [|exact I]. replace (S (length ppath)) with (length ppath + 1) by lia. exact Hc.
        * injection Hft as <-. split; [|apply t_dotted_set_items]. apply twl_set_items; [apply twl_eq; auto|].
          apply all_P_push; [exact Hall|]. split; [exact Hk'|]. cbn [snd]. split; [lia|]. split; [|exact I].
          replace (S (length ppath)) with (length ppath + 1) by lia. exact Hc.
      + match type of H with context [with_table_at (st_root st) ppath false ?F] => set (f := F) in * end.
        destruct (with_table_at (st_root st) ppath false f) as [[root' u]| |] eqn:E; try discriminate. injection H as <-.
        cbn [st_root st_path st_trailing st_current].
        destruct (wta_twl false f ppath (st_root st) true 0 0 root' u E Hr Hpp (fun _ => ltac:(cbn; lia))) as (Hr' & Hd' & _); [|split; [exact Hr'|split; [rewrite Hd'; exact Hrd|auto]]].
        intros table top' n' table' _ Hn' Htab Hft. subst f. cbv beta in Hft. cbn [Nat.add] in *.
        apply twl_eq in Htab as (Hd & Hdi & Hall).
        destruct (kv_get (t_items table) (k_key k)) as [[k0 [|v0|t0|ts asp]]|] eqn:G; try discriminate.
        * destruct (t_implicit t0); [|discriminate]. injection Hft as <-. split; [|apply t_dotted_set_items]. apply twl_set_items; [apply twl_eq; auto|].
          pose proof (all_P_get _ _ _ _ _ Hall G) as [Hk0 _]. cbn [fst] in Hk0.
          apply (all_P_set _ _ _ k0 _ _ Hall G). split; [exact Hk0|]. exact (proj2 (Hcur n')).
        * injection Hft as <-. split; [|apply t_dotted_set_items]. apply twl_set_items; [apply twl_eq; auto|].
          apply all_P_push; [exact Hall|]. apply Hcur.
    - apply pop_key_none in Ep. destruct (tbl_is_empty (st_root st)); [|discriminate]. injection H as <-.
      cbn [st_root st_path st_trailing st_current]. split; [|split; [exact Hcd|auto]]. rewrite Ep in Hc. cbn [length] in Hc. apply twl_top_default; [exact Hc|apply Hdef, Ep].
  Qed.

  (* ---- start_table / start_array_table ---------------------------------------------------------------------------------- *)
  Lemma all_P_remove (P : key * item -> Prop) m k : all_P P m -> all_P P (kv_remove m k).
  Proof.
    induction m as [|[k1 v1] m IH]; cbn [kv_remove all_P]; [auto|]. intros [H1 H2]. destruct (bytes_eqb (k_key k1) k); [exact H2|]. cbn [all_P]. auto.
  Qed.
  Lemma tentry_empty h n h' n' m : all_P (tentry h n) m -> forallb (fun kv => item_is_none (snd kv)) m = true -> all_P (tentry h' n') m.
  Proof.
    induction m as [|[k1 v1] m IH]; cbn [all_P forallb]; [auto|]. intros [[H1 _] H2] Hb. apply andb_true_iff in Hb as [Hb1 Hb2]. cbn [snd fst] in *.
    split; [|apply IH; assumption]. destruct v1; try discriminate. split; [exact H1|exact I].
  Qed.

  Lemma open_table_sinv st root' cur path dec sp arr :
    twl true 0 0 root' -> t_dotted root' = false -> all_P (tentry (length path) 0) (t_items cur) -> decor_ok SLines SLineTrail (tdecor s dec) ->
    Forall kline path -> length path < LIMIT -> path <> [] ->
    sinv (open_table st root' cur path dec sp arr).
  Proof.
    intros Hr Hrd Hitems Hdec Hp Hl Hne. unfold open_table, sinv. cbn [st_root st_current st_path].
    split; [exact Hr|]. split; [apply twl_eq; cbn [t_decor t_dotted t_implicit t_items]; split; [exact Hdec|split; [discriminate|exact Hitems]]|].
    split; [reflexivity|]. split; [exact Hp|]. split; [exact Hl|]. split; [intro E; contradiction|exact Hrd].
  Qed.

  Lemma start_table_sinv st path dec sp st' :
    start_table st path dec sp = COk st' -> sinv st -> Forall kline path -> length path < LIMIT ->
    decor_ok SLines SLineTrail (tdecor s dec) ->
    sinv st' /\ st_path st' = path /\ st_trailing st' = st_trailing st.
  Proof.
    unfold start_table. intros H (Hr & Hc & Hcd & Hp & Hl & Hdef & Hrd) Hpath Hlen Hdec.
    destruct (negb (tbl_is_empty (st_current st))) eqn:Ee; [discriminate|]. apply negb_false_iff in Ee.
    destruct (st_path st) eqn:Epath; [|discriminate]. cbn [length] in Hc.
    destruct (pop_key path) as [[ppath k]|] eqn:Ep; [|discriminate].
    pose proof (pop_key_app _ _ _ Ep) as Epp. assert (Hne : path <> []) by (rewrite Epp; destruct ppath; discriminate).
    pose proof Hpath as Hpath0. rewrite Epp in Hpath. apply Forall_app in Hpath as [Hpp Hk]. assert (Hk' : kline k) by (inversion Hk; assumption).
    assert (Elen : length path = S (length ppath)) by (rewrite Epp, app_length; cbn; lia).
    match type of H with context [with_table_at (st_root st) ppath false ?F] => set (f := F) in * end.
    destruct (with_table_at (st_root st) ppath false f) as [[root' taken]| |] eqn:E; try discriminate. injection H as <-.
    destruct (wta_twl false f ppath (st_root st) true 0 0 root' taken E Hr Hpp (fun _ => ltac:(cbn; lia)))
      as (Hr' & Hd' & table & table' & top' & n' & Hn' & Htab & Hft).
    { intros table top' n' table' _ Hn' Htab Hft. subst f. cbv beta in Hft.
      destruct (kv_get (t_items table) (k_key k)) as [[k0 [|v0|t0|ts asp]]|] eqn:G; try discriminate.
      - destruct (t_implicit t0 && negb (t_dotted t0)); [|discriminate]. injection Hft as <- _. split; [|apply t_dotted_set_items].
        apply twl_eq in Htab as (Hd & Hdi & Hall). apply twl_set_items; [apply twl_eq; auto|]. apply all_P_remove, Hall.
      - injection Hft as <- _. auto. }
    split; [|split; reflexivity]. apply open_table_sinv; [exact Hr'|rewrite Hd'; exact Hrd| |exact Hdec|exact Hpath0|exact Hlen|exact Hne].
    subst f. cbv beta in Hft. cbn [Nat.add] in Htab. apply twl_eq in Htab as (_ & _ & Hall).
    destruct (kv_get (t_items table) (k_key k)) as [[k0 [|v0|t0|ts asp]]|] eqn:G; try discriminate.
    - destruct (t_implicit t0 && negb (t_dotted t0)) eqn:Ef; [|discriminate]. injection Hft as _ <-.
      apply andb_true_iff in Ef as [_ Ef]. apply negb_true_iff in Ef.
      pose proof (all_P_get _ _ _ _ _ Hall G) as [_ Hent]. cbn [snd] in Hent. rewrite Ef in Hent. destruct Hent as [_ Hent].
      rewrite Elen. apply twl_eq in Hent as (_ & _ & Hitems). exact Hitems.
    - injection Hft as _ <-. apply twl_eq in Hc as (_ & _ & Hitems). apply (tentry_empty 0 0); [exact Hitems|exact Ee].
  Qed.

  Lemma start_array_table_sinv st path dec sp st' :
    start_array_table st path dec sp = COk st' -> sinv st -> Forall kline path -> length path < LIMIT ->
    decor_ok SLines SLineTrail (tdecor s dec) ->
    sinv st' /\ st_path st' = path /\ st_trailing st' = st_trailing st.
  Proof.
    unfold start_array_table. intros H (Hr & Hc & Hcd & Hp & Hl & Hdef & Hrd) Hpath Hlen Hdec.
    destruct (negb (tbl_is_empty (st_current st))) eqn:Ee; [discriminate|]. apply negb_false_iff in Ee.
    destruct (st_path st) eqn:Epath; [|discriminate]. cbn [length] in Hc.
    destruct (pop_key path) as [[ppath k]|] eqn:Ep; [|discriminate].
    pose proof (pop_key_app _ _ _ Ep) as Epp. assert (Hne : path <> []) by (rewrite Epp; destruct ppath; discriminate).
    pose proof Hpath as Hpath0. rewrite Epp in Hpath. apply Forall_app in Hpath as [Hpp Hk]. assert (Hk' : kline k) by (inversion Hk; assumption).
    assert (Elen : length path = S (length ppath)) by (rewrite Epp, app_length; cbn; lia).
    match type of H with context [with_table_at (st_root st) ppath false ?F] => set (f := F) in * end.
    destruct (with_table_at (st_root st) ppath false f) as [[root' u]| |] eqn:E; try discriminate. injection H as <-.
    destruct (wta_twl false f ppath (st_root st) true 0 0 root' u E Hr Hpp (fun _ => ltac:(cbn; lia))) as (Hr' & Hd' & _).
    { intros table top' n' table' _ Hn' Htab Hft. subst f. cbv beta in Hft. cbn [Nat.add] in *.
      destruct (kv_get (t_items table) (k_key k)) as [[k0 [|v0|t0|ts asp]]|] eqn:G; try discriminate.
      - injection Hft as <-. auto.
      - injection Hft as <-. split; [|apply t_dotted_set_items]. apply twl_eq in Htab as (Hd & Hdi & Hall). apply twl_set_items; [apply twl_eq; auto|].
        apply all_P_push; [exact Hall|]. split; [exact Hk'|]. cbn [snd]. split; [lia|exact I]. }
    split; [|split; reflexivity]. apply open_table_sinv; [exact Hr'|rewrite Hd'; exact Hrd| |exact Hdec|exact Hpath0|exact Hlen|exact Hne].
    apply twl_eq in Hc as (_ & _ & Hitems). apply (tentry_empty 0 0); [exact Hitems|exact Ee].
  Qed.

  (* ---- on_header -------------------------------------------------------------------------------------------------------- *)
  Definition trailing_raw (st : pstate) : raw := match st_trailing st with Some sp => raw_with_span sp | None => REmpty end.

  Lemma on_header_sinv arr st path trailing sp st' :
    on_header arr st path trailing sp = COk st' -> sinv st -> Forall kline path -> length path < LIMIT ->
    raw_ok SLines (traw s (trailing_raw st)) -> raw_ok SLineTrail (traw s (raw_with_span trailing)) ->
    sinv st' /\ st_path st' = path /\ st_trailing st' = None.
  Proof.
    unfold on_header. intros H Hs Hpath Hlen Hlead Htr. destruct path as [|k0 ptl] eqn:Epath; [discriminate|]. rewrite <- Epath in *.
    destruct (finalize_table st) as [st1| |] eqn:Ef; try discriminate.
    destruct (finalize_sinv st st1 Ef Hs) as (Hr1 & Hrd1 & Ep1 & Et1 & Ec1).
    unfold take_trailing in H. cbv zeta in H.
    set (st2 := mkState (st_root st1) None (st_position st1) (st_current st1) (st_is_array st1) (st_path st1)) in *.
    assert (Hs2 : sinv st2).
    { unfold sinv, st2. cbn [st_root st_current st_path]. rewrite Ec1, Ep1. cbn [length]. split; [exact Hr1|]. split; [apply twl_new; discriminate|].
      split; [reflexivity|]. split; [constructor|]. split; [apply limit_pos|split; [reflexivity|exact Hrd1]]. }
    assert (Hdec : decor_ok SLines SLineTrail (tdecor s (decor_new (match st_trailing st1 with Some sp0 => raw_with_span sp0 | None => REmpty end) (raw_with_span trailing)))).
    { split; cbn [tdecor decor_new d_prefix d_suffix toraw oraw_ok]; [rewrite Et1; exact Hlead|exact Htr]. }
    destruct arr.
    - destruct (start_array_table_sinv st2 path _ sp st' H Hs2 Hpath Hlen Hdec) as (H1 & H2 & H3). auto.
    - destruct (start_table_sinv st2 path _ sp st' H Hs2 Hpath Hlen Hdec) as (H1 & H2 & H3). auto.
  Qed.
End PS.
