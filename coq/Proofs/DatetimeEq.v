(* Proofs/DatetimeEq.v — the standalone date-time parser (toml_datetime FromStr) and the
   document grammar's date_time agree; closure under RFC 3339 ranges; truncation of the
   fraction; print/parse round trip.  All lemmas behind Props/C12.v. *)
From Coq Require Import List Bool Arith NArith ZArith Lia ZifyBool ZifyN.
From Coq.Strings Require Import Byte.
From TV Require Import Base.Prelude Base.Utf8 Base.Winnow Gen.Consts Model.Datetime Model.DatetimeStd Spec.DatetimeSpec.
Import ListNotations.

(* ---------------------------------------------------------------------------------- *)
(* bytes and digits                                                                    *)
(* ---------------------------------------------------------------------------------- *)
Lemma is_digit_iff b : is_digit b = true <-> (48 <= b2n b <= 57)%N.
Proof. unfold is_digit. lia. Qed.

Lemma is_digit_val b : is_digit b = true -> (digit_val b <= 9)%N.
Proof. intro H. apply is_digit_iff in H. unfold digit_val. lia. Qed.

Lemma in_class_digit b : in_class DT_DIGIT b = is_digit b.
Proof. unfold in_class, DT_DIGIT, is_digit. cbn [existsb fst snd]. apply orb_false_r. Qed.

Lemma b2n_inj a b : b2n a = b2n b -> a = b.
Proof.
  unfold b2n. intro H.
  assert (E : Byte.of_N (Byte.to_N a) = Byte.of_N (Byte.to_N b)) by (rewrite H; reflexivity).
  rewrite !Byte.of_to_N in E. congruence.
Qed.

Lemma byte_eqb_n a b : byte_eqb a b = (b2n a =? b2n b)%N.
Proof.
  destruct (byte_eqb a b) eqn:E.
  - apply byte_eqb_eq in E. subst. symmetry. apply N.eqb_refl.
  - symmetry. apply N.eqb_neq. intro H. apply b2n_inj in H. subst.
    rewrite byte_eqb_refl in E. discriminate.
Qed.

Lemma byte_eqb_sym a b : byte_eqb a b = byte_eqb b a.
Proof. rewrite !byte_eqb_n. apply N.eqb_sym. Qed.

Lemma in_class_delim b :
  in_class TIME_DELIM b = byte_eqb b x54 || byte_eqb b x74 || byte_eqb b x20.
Proof.
  rewrite !byte_eqb_n. unfold in_class, TIME_DELIM. cbn [existsb fst snd].
  change (b2n x54) with 84%N. change (b2n x74) with 116%N. change (b2n x20) with 32%N. lia.
Qed.

Lemma digit_number_start b : is_digit b = true -> in_class VALUE_NUMBER_START b = true.
Proof.
  intro H. apply is_digit_iff in H. unfold in_class, VALUE_NUMBER_START. cbn [existsb fst snd]. lia.
Qed.

Lemma digit_ascii b : is_digit b = true -> (b2n b <=? 127)%N = true.
Proof. intro H. apply is_digit_iff in H. lia. Qed.

Lemma utf8_valid_digits l : forallb is_digit l = true -> utf8_valid_b l = true.
Proof.
  induction l as [|b l IH]; [reflexivity|]. cbn [forallb]. intro H.
  apply andb_true_iff in H as [H1 H2]. cbn [utf8_valid_b].
  rewrite (digit_ascii _ H1). exact (IH H2).
Qed.

Lemma colon_not_digit : is_digit colon = false.
Proof. reflexivity. Qed.

(* ---------------------------------------------------------------------------------- *)
(* primitives of the grammar expressed through the primitives of the standalone parser *)
(* ---------------------------------------------------------------------------------- *)
Lemma parse_unsigned_2 b0 b1 :
  is_digit b0 = true -> is_digit b1 = true ->
  parse_unsigned 8 [b0; b1] = Some (digit_val b0 * 10 + digit_val b1)%N.
Proof.
  intros H0 H1. unfold parse_unsigned. cbn [forallb]. rewrite H0, H1. cbn [andb].
  unfold dec_value. cbn [dec_value_acc]. change (2 ^ 8)%N with 256%N.
  pose proof (is_digit_val _ H0). pose proof (is_digit_val _ H1).
  destruct (_ <? 256)%N eqn:E; [f_equal; lia | lia].
Qed.

Lemma parse_unsigned_4 b0 b1 b2 b3 :
  is_digit b0 = true -> is_digit b1 = true -> is_digit b2 = true -> is_digit b3 = true ->
  parse_unsigned 16 [b0; b1; b2; b3]
  = Some (digit_val b0 * 1000 + digit_val b1 * 100 + digit_val b2 * 10 + digit_val b3)%N.
Proof.
  intros H0 H1 H2 H3. unfold parse_unsigned. cbn [forallb]. rewrite H0, H1, H2, H3. cbn [andb].
  unfold dec_value. cbn [dec_value_acc]. change (2 ^ 16)%N with 65536%N.
  pose proof (is_digit_val _ H0). pose proof (is_digit_val _ H1).
  pose proof (is_digit_val _ H2). pose proof (is_digit_val _ H3).
  destruct (_ <? 65536)%N eqn:E; [f_equal; lia | lia].
Qed.

Lemma two_digit_field_two lo hi s p d :
  two_digit_field lo hi (mkIn s p d) =
  match two s with
  | Some (v, r) => if (lo <=? v)%N && (v <=? hi)%N then Ok v (mkIn r (p + 2)%N d)
                   else Bt (err_of OutOfRange) (mkIn s p d)
  | None => Bt err0 (mkIn s p d)
  end.
Proof.
  unfold two_digit_field, try_map, unsigned_digits, unchecked_utf8, take_while_mn, two, sbind, sdigit, sret.
  cbn [rest].
  destruct s as [|b0 [|b1 r]].
  - reflexivity.
  - cbn [take_upto]. rewrite in_class_digit. destruct (is_digit b0); reflexivity.
  - cbn [take_upto]. rewrite !in_class_digit. destruct (is_digit b0) eqn:E0; [|reflexivity].
    destruct (is_digit b1) eqn:E1; [|reflexivity].
    change (Nat.ltb (length [b0; b1]) 2) with false. cbv iota.
    rewrite utf8_valid_digits by (cbn [forallb]; rewrite E0, E1; reflexivity).
    rewrite (parse_unsigned_2 _ _ E0 E1).
    destruct (_ && _); reflexivity.
Qed.

Definition four : sp N :=
  sbind sdigit (fun y1 => sbind sdigit (fun y2 => sbind sdigit (fun y3 => sbind sdigit (fun y4 =>
    sret (y1 * 1000 + y2 * 100 + y3 * 10 + y4)%N)))).

Lemma date_fullyear_four s p d :
  date_fullyear (mkIn s p d) =
  match four s with
  | Some (v, r) => Ok v (mkIn r (p + 4)%N d)
  | None => Bt err0 (mkIn s p d)
  end.
Proof.
  unfold date_fullyear, try_map, unsigned_digits, unchecked_utf8, take_while_mn, four, sbind, sdigit, sret.
  cbn [rest].
  destruct s as [|b0 s]; [reflexivity|].
  cbn [take_upto]. rewrite in_class_digit. destruct (is_digit b0) eqn:E0; [|reflexivity].
  destruct s as [|b1 s]; [reflexivity|].
  cbn [take_upto]. rewrite in_class_digit. destruct (is_digit b1) eqn:E1; [|reflexivity].
  destruct s as [|b2 s]; [reflexivity|].
  cbn [take_upto]. rewrite in_class_digit. destruct (is_digit b2) eqn:E2; [|reflexivity].
  destruct s as [|b3 s]; [reflexivity|].
  cbn [take_upto]. rewrite in_class_digit. destruct (is_digit b3) eqn:E3; [|reflexivity].
  change (Nat.ltb (length [b0; b1; b2; b3]) 4) with false. cbv iota.
  rewrite utf8_valid_digits by (cbn [forallb]; rewrite E0, E1, E2, E3; reflexivity).
  rewrite (parse_unsigned_4 _ _ _ _ E0 E1 E2 E3). reflexivity.
Qed.

Lemma bind_byte {B} c (k : parser B) s p d :
  bind (byte_ c) (fun _ => k) (mkIn s p d) =
  match sexpect c s with
  | Some (_, r) => k (mkIn r (p + 1)%N d)
  | None => Bt err0 (mkIn s p d)
  end.
Proof.
  unfold bind, byte_, one_of, sexpect. cbn [rest].
  destruct s as [|b r]; [reflexivity|]. rewrite (byte_eqb_sym c b).
  destruct (byte_eqb b c); reflexivity.
Qed.

Lemma bind_two {B} lo hi (k : N -> parser B) s p d :
  bind (two_digit_field lo hi) k (mkIn s p d) =
  match two s with
  | Some (v, r) => if (lo <=? v)%N && (v <=? hi)%N then k v (mkIn r (p + 2)%N d)
                   else Bt (err_of OutOfRange) (mkIn s p d)
  | None => Bt err0 (mkIn s p d)
  end.
Proof.
  unfold bind. rewrite two_digit_field_two.
  destruct (two s) as [[v r]|]; [|reflexivity]. destruct (_ && _); reflexivity.
Qed.

(* ---------------------------------------------------------------------------------- *)
(* the fraction of a second                                                            *)
(* ---------------------------------------------------------------------------------- *)
Definition W : list N :=
  [100000000; 10000000; 1000000; 100000; 10000; 1000; 100; 10; 1]%N.

(* value of a digit run as a fraction, digit k weighing 10^(8-k); digits past the ninth
   weigh nothing *)
Fixpoint fracval (i : nat) (ds : bytes) : N :=
  match ds with
  | [] => 0%N
  | b :: r => (nth i W 0 * digit_val b + fracval (S i) r)%N
  end.

Lemma weight_step i acc v :
  (if Nat.ltb i 9 then acc + 10 ^ (8 - N.of_nat i) * v else acc)%N = (acc + nth i W 0 * v)%N.
Proof.
  do 9 (destruct i as [|i]; [reflexivity|]).
  change (Nat.ltb (S (S (S (S (S (S (S (S (S i))))))))) 9) with false. cbv iota.
  cbn [nth W]. destruct i; lia.
Qed.

Lemma frac_loop_span s : forall i acc,
  frac_loop i acc s =
  ((acc + fracval i (fst (span_while is_digit s)))%N,
   (i + length (fst (span_while is_digit s)))%nat,
   snd (span_while is_digit s)).
Proof.
  induction s as [|b r IH]; intros i acc.
  - cbn [frac_loop span_while fst snd fracval length]. f_equal. f_equal; lia.
  - cbn [frac_loop span_while]. destruct (is_digit b).
    + rewrite IH. destruct (span_while is_digit r) as [a q]. cbn [fst snd fracval length].
      rewrite weight_step. f_equal. f_equal; lia.
    + cbn [fst snd fracval length]. f_equal. f_equal; lia.
Qed.

Lemma span_while_ext f g s : (forall b, f b = g b) -> span_while f s = span_while g s.
Proof.
  intro E. induction s as [|b r IH]; [reflexivity|]. cbn [span_while]. rewrite E, IH. reflexivity.
Qed.

Lemma skipn_span f s : skipn (length (fst (span_while f s))) s = snd (span_while f s).
Proof.
  induction s as [|b r IH]; [reflexivity|]. cbn [span_while]. destruct (f b); [|reflexivity].
  destruct (span_while f r) as [a q]. cbn [fst snd length skipn] in *. exact IH.
Qed.

Lemma fracval_ge l : forall i, (9 <= i)%nat -> fracval i l = 0%N.
Proof.
  induction l as [|b l IH]; intros i Hi; [reflexivity|]. cbn [fracval].
  rewrite (IH (S i)) by lia. rewrite nth_overflow by (change (length W) with 9%nat; lia). lia.
Qed.

Lemma fracval_firstn l : forall i, fracval i l = fracval i (firstn (9 - i) l).
Proof.
  induction l as [|b l IH]; intros i.
  - rewrite firstn_nil. reflexivity.
  - destruct (9 - i)%nat as [|k] eqn:E.
    + cbn [firstn]. rewrite fracval_ge by lia. reflexivity.
    + cbn [firstn fracval]. rewrite (IH (S i)). replace (9 - S i)%nat with k by lia. reflexivity.
Qed.

Lemma forallb_firstn {A} (f : A -> bool) n l : forallb f l = true -> forallb f (firstn n l) = true.
Proof.
  revert n; induction l as [|a l IH]; intros n H; [rewrite firstn_nil; reflexivity|].
  destruct n; [reflexivity|]. cbn [firstn forallb] in *.
  apply andb_true_iff in H as [H1 H2]. rewrite H1, (IH n H2). reflexivity.
Qed.

Lemma pow2_32 : (2 ^ 32 = 4294967296)%N.
Proof. reflexivity. Qed.

Ltac digit_bounds Hd :=
  cbn [forallb] in Hd; rewrite ?andb_true_iff in Hd;
  repeat match goal with H : _ /\ _ |- _ => destruct H end;
  repeat match goal with H : is_digit _ = true |- _ => apply is_digit_val in H end.

Lemma secfrac_short l :
  (1 <= length l <= 9)%nat -> forallb is_digit l = true ->
  parse_unsigned 32 l = Some (dec_value l) /\
  exists sc, nth_error DT_SCALE (length l) = Some sc /\
             (dec_value l * sc = fracval 0 l)%N /\ (fracval 0 l <= 999999999)%N.
Proof.
  intros Hlen Hd.
  destruct l as [|b0 l]; [cbn [length] in Hlen; lia|].
  do 9 (destruct l as [|? l];
        [ pose proof Hd as Hd'; digit_bounds Hd; split;
          [ unfold parse_unsigned; rewrite Hd'; unfold dec_value; cbn [dec_value_acc];
            rewrite pow2_32; destruct (_ <? _)%N eqn:E; [reflexivity | lia]
          | eexists; split; [reflexivity|];
            unfold dec_value; cbn [dec_value_acc fracval nth W]; lia ]
        | ]).
  cbn [length] in Hlen. lia.
Qed.

Lemma secfrac_value_digits ds :
  ds <> [] -> forallb is_digit ds = true -> secfrac_value ds = TmOk (fracval 0 ds).
Proof.
  intros Hne Hd. unfold secfrac_value. change (length DT_SCALE - 1)%nat with 9%nat.
  set (repr := if Nat.ltb 9 (length ds) then firstn 9 ds else ds).
  assert (Hr : repr = firstn 9 ds).
  { unfold repr. destruct (Nat.ltb 9 (length ds)) eqn:E; [reflexivity|].
    apply Nat.ltb_ge in E. symmetry. apply firstn_all2. exact E. }
  assert (Hl : (1 <= length repr <= 9)%nat).
  { rewrite Hr, firstn_length. destruct ds; [congruence|]. cbn [length]. lia. }
  assert (Hf : fracval 0 repr = fracval 0 ds).
  { rewrite Hr. symmetry. apply (fracval_firstn ds 0). }
  assert (Hdr : forallb is_digit repr = true) by (rewrite Hr; apply forallb_firstn; exact Hd).
  destruct (secfrac_short repr Hl Hdr) as (Hp & sc & Hs & Hm & Hb).
  rewrite Hp, Hs, Hm, pow2_32, Hf in *.
  destruct (_ <? _)%N eqn:E; [reflexivity | lia].
Qed.
(* ---------------------------------------------------------------------------------- *)
(* coarse view of grammar results                                                      *)
(* ---------------------------------------------------------------------------------- *)
Definition okr {A} (x : res A) (a : A) (r : bytes) : Prop := exists p d, x = Ok a (mkIn r p d).
Definition soft {A} (x : res A) : Prop := exists e i, x = Bt e i.
Definition hard {A} (x : res A) : Prop := exists e i, x = Cut e i.

Lemma okr_intro {A} (a : A) r p d : okr (Ok a (mkIn r p d)) a r.
Proof. exists p, d. reflexivity. Qed.
Lemma soft_intro {A} e i : soft (@Bt A e i).
Proof. exists e, i. reflexivity. Qed.
Lemma hard_intro {A} e i : hard (@Cut A e i).
Proof. exists e, i. reflexivity. Qed.
#[local] Hint Resolve okr_intro soft_intro hard_intro : core.

Definition std_frac : sp N :=
  fun s => match s with
           | b :: r =>
             if byte_eqb b dot
             then (let '(acc, n, q) := frac_loop 0 0%N r in
                   if Nat.eqb n 0 then None else Some (acc, q))
             else Some (0%N, s)
           | [] => Some (0%N, s)
           end.

Lemma std_frac_spec s :
  std_frac s =
  match s with
  | b :: r =>
    if byte_eqb b dot
    then match fst (span_while is_digit r) with
         | [] => None
         | ds => Some (fracval 0 ds, snd (span_while is_digit r))
         end
    else Some (0%N, s)
  | [] => Some (0%N, s)
  end.
Proof.
  unfold std_frac. destruct s as [|b r]; [reflexivity|]. destruct (byte_eqb b dot); [|reflexivity].
  rewrite frac_loop_span. destruct (fst (span_while is_digit r)) as [|x ds]; reflexivity.
Qed.

Lemma opt_secfrac s p d :
  opt time_secfrac (mkIn s p d) =
  match s with
  | b :: r =>
    if byte_eqb b dot
    then match fst (span_while is_digit r) with
         | [] => Ok None (mkIn s p d)
         | ds => Ok (Some (fracval 0 ds))
                    (mkIn (snd (span_while is_digit r)) (p + 1 + N.of_nat (length ds))%N d)
         end
    else Ok None (mkIn s p d)
  | [] => Ok None (mkIn s p d)
  end.
Proof.
  unfold opt, time_secfrac, try_map, preceded. rewrite bind_byte. unfold sexpect.
  destruct s as [|b r]; [reflexivity|]. destruct (byte_eqb b dot); [|reflexivity].
  unfold unsigned_digits, unchecked_utf8, take_while_mn. cbn [rest].
  rewrite (span_while_ext _ is_digit r in_class_digit).
  pose proof (span_while_all is_digit r) as Hall. pose proof (skipn_span is_digit r) as Hskip.
  destruct (fst (span_while is_digit r)) as [|x ds] eqn:E; [reflexivity|].
  change (Nat.ltb (length (x :: ds)) 1) with false. cbv iota.
  rewrite (utf8_valid_digits _ Hall). assert (Hne : x :: ds <> []) by discriminate.
  rewrite (secfrac_value_digits _ Hne Hall).
  unfold advance. cbn [rest pos depth]. rewrite Hskip. reflexivity.
Qed.
(* ---------------------------------------------------------------------------------- *)
(* the time stage                                                                      *)
(* ---------------------------------------------------------------------------------- *)
Definition time8 : sp (N * N * N) :=
  sbind two (fun h => sbind (sexpect colon) (fun _ =>
  sbind two (fun mi => sbind (sexpect colon) (fun _ =>
  sbind two (fun sec => sret (h, mi, sec)))))).

Ltac std_ranges := repeat (destruct (_ <? _)%N; try reflexivity).

Lemma std_time_nf s :
  std_time s =
  match time8 s with
  | None => None
  | Some ((h, mi, sec), r) =>
    match std_frac r with
    | None => None
    | Some (ns, q) =>
      if (23 <? h)%N then None else if (59 <? mi)%N then None else if (60 <? sec)%N then None
      else if (999999999 <? ns)%N then None else Some (mkTime h mi sec ns, q)
    end
  end.
Proof.
  unfold std_time, time8, sbind.
  destruct (two s) as [[h r1]|]; [|reflexivity].
  destruct (sexpect colon r1) as [[[] r2]|]; [|reflexivity].
  destruct (two r2) as [[mi r3]|]; [|reflexivity].
  destruct (sexpect colon r3) as [[[] r4]|]; [|reflexivity].
  destruct (two r4) as [[sec r5]|]; [|reflexivity].
  unfold sret, speek, std_frac, snext, sfail, SD_HOUR_MAX, SD_MINUTE_MAX, SD_SECOND_MAX, SD_NANO_MAX.
  destruct r5 as [|b r6]; [std_ranges|].
  destruct (byte_eqb b dot); [|std_ranges]. cbn [tl].
  destruct (frac_loop 0 0%N r6) as [[acc n] q]. destruct (Nat.eqb n 0); [reflexivity|std_ranges].
Qed.

Definition finish_time (h mi sec : N) (x : res (option N)) : res time :=
  match x with
  | Ok ns i => Ok (mkTime h mi sec (match ns with Some n => n | None => 0%N end)) i
  | Bt e i => Cut e i
  | Cut e i => Cut e i
  | Panic st => Panic st
  end.

Lemma rng_hi lo hi v : lo = 0%N -> ((lo <=? v)%N && (v <=? hi)%N) = negb (hi <? v)%N.
Proof. intros ->. lia. Qed.

Ltac tail8 :=
  repeat first [ destruct (sexpect colon _) as [[[] ?]|] | destruct (two _) as [[? ?]|] ];
  unfold sret; cbv beta iota;
  repeat match goal with H : (_ <? _)%N = _ |- _ => rewrite H end; cbn [orb];
  first [apply soft_intro | apply hard_intro | left; apply soft_intro | right; apply hard_intro].

Lemma partial_time_nf s p d :
  match time8 s with
  | None => soft (partial_time (mkIn s p d)) \/ hard (partial_time (mkIn s p d))
  | Some ((h, mi, sec), r) =>
    if (23 <? h)%N then soft (partial_time (mkIn s p d))
    else if (59 <? mi)%N || (60 <? sec)%N then hard (partial_time (mkIn s p d))
    else partial_time (mkIn s p d)
         = finish_time h mi sec (opt time_secfrac (mkIn r (p + 2 + 1 + 2 + 1 + 2)%N d))
  end.
Proof.
  unfold partial_time, time_hour, time_minute, time_second. rewrite bind_two.
  unfold time8, sbind.
  destruct (two s) as [[h r1]|]; [|left; apply soft_intro].
  rewrite (rng_hi DT_HOUR_MIN DT_HOUR_MAX h eq_refl). change DT_HOUR_MAX with 23%N.
  destruct (23 <? h)%N eqn:Hh; cbn [negb].
  { tail8. }
  rewrite bind_byte.
  destruct (sexpect colon r1) as [[[] r2]|]; [|left; apply soft_intro].
  unfold cut_err. rewrite bind_two.
  destruct (two r2) as [[mi r3]|]; [|right; apply hard_intro].
  rewrite (rng_hi DT_MINUTE_MIN DT_MINUTE_MAX mi eq_refl). change DT_MINUTE_MAX with 59%N.
  destruct (59 <? mi)%N eqn:Hmi; cbn [negb].
  { tail8. }
  rewrite bind_byte.
  destruct (sexpect colon r3) as [[[] r4]|]; [|right; apply hard_intro].
  rewrite bind_two.
  destruct (two r4) as [[sec r5]|]; [|right; apply hard_intro].
  rewrite (rng_hi DT_SECOND_MIN DT_SECOND_MAX sec eq_refl). change DT_SECOND_MAX with 60%N.
  unfold sret. rewrite Hh, Hmi. cbn [orb].
  destruct (60 <? sec)%N eqn:Hsec; cbn [negb]; [apply hard_intro|].
  unfold bind, ret, finish_time. destruct (opt time_secfrac _); reflexivity.
Qed.
Lemma fracval_bound l : forallb is_digit l = true -> (fracval 0 l <= 999999999)%N.
Proof.
  intro Hd. destruct l as [|b l]; [cbn [fracval]; lia|].
  rewrite (fracval_firstn (b :: l) 0). change (9 - 0)%nat with 9%nat.
  assert (Hl : (1 <= length (firstn 9 (b :: l)) <= 9)%nat)
    by (rewrite firstn_length; cbn [length]; lia).
  destruct (secfrac_short _ Hl (forallb_firstn _ 9 _ Hd)) as (_ & sc & _ & _ & Hb). exact Hb.
Qed.

(* The two time parsers agree, except that after `hh:mm:ss` followed by a dot that no digit
   follows the standalone parser fails while the grammar stops in front of the dot. *)
Lemma time_stage s p d :
  match std_time s with
  | Some (t, r) => okr (partial_time (mkIn s p d)) t r
  | None => soft (partial_time (mkIn s p d)) \/ hard (partial_time (mkIn s p d)) \/
            exists t r, okr (partial_time (mkIn s p d)) t (dot :: r)
  end.
Proof.
  rewrite std_time_nf. pose proof (partial_time_nf s p d) as H.
  destruct (time8 s) as [[[[h mi] sec] r]|]; [|tauto].
  rewrite std_frac_spec. rewrite opt_secfrac in H.
  destruct (23 <? h)%N; [destruct r as [|b r']; [|destruct (byte_eqb b dot); [destruct (fst (span_while is_digit r'))|]]; auto|].
  destruct (59 <? mi)%N; cbn [orb] in H;
    [destruct r as [|b r']; [|destruct (byte_eqb b dot); [destruct (fst (span_while is_digit r'))|]]; auto|].
  destruct (60 <? sec)%N;
    [destruct r as [|b r']; [|destruct (byte_eqb b dot); [destruct (fst (span_while is_digit r'))|]]; auto|].
  destruct r as [|b r'].
  - change (999999999 <? 0)%N with false. cbv iota. rewrite H. apply okr_intro.
  - destruct (byte_eqb b dot) eqn:Eb.
    + pose proof (span_while_all is_digit r') as Hall.
      destruct (fst (span_while is_digit r')) as [|x ds].
      * right; right. apply byte_eqb_eq in Eb. subst b. rewrite H. eexists _, r'. apply okr_intro.
      * apply fracval_bound in Hall.
        destruct (999999999 <? fracval 0 (x :: ds))%N eqn:E; [lia|].
        rewrite H. apply okr_intro.
    + change (999999999 <? 0)%N with false. cbv iota. rewrite H. apply okr_intro.
Qed.
(* ---------------------------------------------------------------------------------- *)
(* the date stage                                                                      *)
(* ---------------------------------------------------------------------------------- *)
Lemma bind_four {B} (k : N -> parser B) s p d :
  bind date_fullyear k (mkIn s p d) =
  match four s with
  | Some (v, r) => k v (mkIn r (p + 4)%N d)
  | None => Bt err0 (mkIn s p d)
  end.
Proof. unfold bind. rewrite date_fullyear_four. destruct (four s) as [[v r]|]; reflexivity. Qed.

Lemma bind_cut_two {B} lo hi (k : N -> parser B) s p d :
  bind (cut_err (two_digit_field lo hi)) k (mkIn s p d) =
  match two s with
  | Some (v, r) => if (lo <=? v)%N && (v <=? hi)%N then k v (mkIn r (p + 2)%N d)
                   else Cut (err_of OutOfRange) (mkIn s p d)
  | None => Cut err0 (mkIn s p d)
  end.
Proof.
  unfold bind, cut_err. rewrite two_digit_field_two.
  destruct (two s) as [[v r]|]; [|reflexivity]. destruct (_ && _); reflexivity.
Qed.

Lemma bind_cut_byte {B} c (k : parser B) s p d :
  bind (cut_err (byte_ c)) (fun _ => k) (mkIn s p d) =
  match sexpect c s with
  | Some (_, r) => k (mkIn r (p + 1)%N d)
  | None => Cut err0 (mkIn s p d)
  end.
Proof.
  unfold bind, cut_err, byte_, one_of, sexpect. cbn [rest].
  destruct s as [|b r]; [reflexivity|]. rewrite (byte_eqb_sym c b).
  destruct (byte_eqb b c); reflexivity.
Qed.

Definition date10 : sp (N * N * N) :=
  sbind four (fun y => sbind (sexpect dash) (fun _ =>
  sbind two (fun m => sbind (sexpect dash) (fun _ =>
  sbind two (fun d => sret (y, m, d)))))).

Lemma std_date_nf s :
  std_date s =
  match date10 s with
  | None => None
  | Some ((y, m, d), r) =>
    if (m <? 1)%N || (12 <? m)%N then None
    else if (d <? 1)%N || (max_days SD_MAXDAYS m (is_leap_year y) <? d)%N then None
    else Some (mkDate y m d, r)
  end.
Proof.
  unfold std_date, date10, four, sbind.
  destruct (sdigit s) as [[y1 r1]|]; [|reflexivity].
  destruct (sdigit r1) as [[y2 r2]|]; [|reflexivity].
  destruct (sdigit r2) as [[y3 r3]|]; [|reflexivity].
  destruct (sdigit r3) as [[y4 r4]|]; [|reflexivity].
  change (sret (y1 * 1000 + y2 * 100 + y3 * 10 + y4)%N r4) with (Some ((y1 * 1000 + y2 * 100 + y3 * 10 + y4)%N, r4)). cbv iota.
  destruct (sexpect dash r4) as [[[] r5]|]; [|reflexivity].
  destruct (two r5) as [[m r6]|]; [|reflexivity].
  destruct (sexpect dash r6) as [[[] r7]|]; [|reflexivity].
  destruct (two r7) as [[d r8]|]; [|reflexivity].
  unfold sret, sfail, SD_MONTH_MIN, SD_MONTH_MAX, SD_DAY_MIN.
  destruct (_ || _); [reflexivity|]. destruct (_ || _); reflexivity.
Qed.

Lemma rng_lohi lo hi v : ((lo <=? v)%N && (v <=? hi)%N) = negb ((v <? lo)%N || (hi <? v)%N).
Proof. lia. Qed.

Ltac tail10 :=
  repeat first [ destruct (sexpect dash _) as [[[] ?]|] | destruct (two _) as [[? ?]|] ];
  unfold sret; cbv beta iota;
  repeat match goal with H : (_ || _) = _ |- _ => rewrite H end;
  first [apply soft_intro | apply hard_intro | left; apply soft_intro | right; apply hard_intro].

Lemma full_date_nf s p d0 :
  match date10 s with
  | None => soft (full_date (mkIn s p d0)) \/ hard (full_date (mkIn s p d0))
  | Some ((y, m, d), r) =>
    if (m <? 1)%N || (12 <? m)%N then hard (full_date (mkIn s p d0))
    else if (d <? 1)%N || (31 <? d)%N then hard (full_date (mkIn s p d0))
    else if (max_days DT_MAXDAYS m (is_leap_year y) <? d)%N then hard (full_date (mkIn s p d0))
    else full_date (mkIn s p d0) = Ok (mkDate y m d) (mkIn r (p + 4 + 1 + 2 + 1 + 2)%N d0)
  end.
Proof.
  unfold full_date, date_month, date_mday. rewrite bind_four.
  unfold date10. unfold sbind at 1.
  destruct (four s) as [[y r1]|]; [|left; apply soft_intro].
  unfold sbind. rewrite bind_byte.
  destruct (sexpect dash r1) as [[[] r2]|]; [|left; apply soft_intro].
  rewrite bind_cut_two.
  destruct (two r2) as [[m r3]|]; [|right; apply hard_intro].
  rewrite rng_lohi. change DT_MONTH_MIN with 1%N. change DT_MONTH_MAX with 12%N.
  destruct ((m <? 1)%N || (12 <? m)%N) eqn:Hm; cbn [negb].
  { tail10. }
  rewrite bind_cut_byte.
  destruct (sexpect dash r3) as [[[] r4]|]; [|right; apply hard_intro].
  rewrite bind_cut_two.
  destruct (two r4) as [[d r5]|]; [|right; apply hard_intro].
  rewrite rng_lohi. change DT_MDAY_MIN with 1%N. change DT_MDAY_MAX with 31%N.
  unfold sret. rewrite Hm.
  destruct ((d <? 1)%N || (31 <? d)%N) eqn:Hd; cbn [negb]; [apply hard_intro|].
  destruct (max_days DT_MAXDAYS m (is_leap_year y) <? d)%N; [apply hard_intro|].
  reflexivity.
Qed.

Lemma max_days_le m l : (max_days DT_MAXDAYS m l <= 31)%N.
Proof.
  unfold DT_MAXDAYS. cbn [max_days].
  repeat match goal with |- context [if ?c then _ else _] => destruct c end; lia.
Qed.

Lemma date_stage s p d0 :
  match std_date s with
  | Some (dt, r) => okr (full_date (mkIn s p d0)) dt r
  | None => soft (full_date (mkIn s p d0)) \/ hard (full_date (mkIn s p d0))
  end.
Proof.
  rewrite std_date_nf. pose proof (full_date_nf s p d0) as H.
  destruct (date10 s) as [[[[y m] d] r]|]; [|assumption].
  destruct ((m <? 1)%N || (12 <? m)%N); [auto|].
  change SD_MAXDAYS with DT_MAXDAYS.
  pose proof (max_days_le m (is_leap_year y)) as Hle.
  destruct (d <? 1)%N eqn:E1; cbn [orb] in *; [auto|].
  destruct (31 <? d)%N eqn:E2.
  - destruct (max_days DT_MAXDAYS m (is_leap_year y) <? d)%N eqn:E3; [auto|lia].
  - destruct (max_days DT_MAXDAYS m (is_leap_year y) <? d)%N eqn:E3; [auto|].
    rewrite H. apply okr_intro.
Qed.
(* ---------------------------------------------------------------------------------- *)
(* the offset stage                                                                    *)
(* ---------------------------------------------------------------------------------- *)
Definition signed_hm : parser Z :=
  bind (one_of (fun b => byte_eqb b plus || byte_eqb b dash)) (fun sign =>
  bind (cut_err (bind time_hour (fun h => bind (byte_ colon) (fun _ =>
                 bind time_minute (fun mi => ret (h, mi))))))
       (fun x => match x with
                 | (h, mi) =>
                   if byte_eqb sign plus then ret (Z.of_N (h * 60 + mi))
                   else if byte_eqb sign dash then ret (- Z.of_N (h * 60 + mi))%Z
                   else (fun _ => Panic P_unreachable_sign)
                 end)).

Lemma time_offset_eq :
  time_offset =
  context (alt (pvalue OffZ (one_of (fun b => byte_eqb b x5a || byte_eqb b x7a)))
               (pmap OffCustom
                  (verify (fun mins => (DT_OFFSET_MIN <=? mins)%Z && (mins <=? DT_OFFSET_MAX)%Z)
                          signed_hm))).
Proof. reflexivity. Qed.

Definition hm5 : sp (N * N) :=
  sbind two (fun h => sbind (sexpect colon) (fun _ => sbind two (fun mi => sret (h, mi)))).

Definition sign_of (b : byte) : option Z :=
  if byte_eqb b plus then Some 1%Z else if byte_eqb b dash then Some (-1)%Z else None.

Lemma bind_one_of {B} f (k : byte -> parser B) b r p d :
  bind (one_of f) k (mkIn (b :: r) p d) =
  if f b then k b (mkIn r (p + 1)%N d) else Bt err0 (mkIn (b :: r) p d).
Proof. unfold bind, one_of. cbn [rest]. destruct (f b); reflexivity. Qed.

Lemma signed_hm_spec b r p d X :
  X = signed_hm (mkIn (b :: r) p d) ->
  match sign_of b with
  | None => soft X
  | Some sg =>
    match hm5 r with
    | None => hard X
    | Some ((h, mi), q) =>
      if (23 <? h)%N || (59 <? mi)%N then hard X
      else X = Ok (sg * Z.of_N (h * 60 + mi))%Z (mkIn q (p + 1 + 2 + 1 + 2)%N d)
    end
  end.
Proof.
  intro HX. unfold signed_hm in HX. rewrite bind_one_of in HX. unfold sign_of.
  assert (HK : forall Y (k : N * N -> parser Z),
    Y = bind (cut_err (bind time_hour (fun h => bind (byte_ colon) (fun _ =>
                 bind time_minute (fun mi => ret (h, mi)))))) k (mkIn r (p + 1)%N d) ->
    match hm5 r with
    | None => hard Y
    | Some ((h, mi), q) =>
      if (23 <? h)%N || (59 <? mi)%N then hard Y
      else Y = k (h, mi) (mkIn q (p + 1 + 2 + 1 + 2)%N d)
    end).
  { intros Y k HY. unfold bind at 1 in HY. unfold cut_err, time_hour, time_minute in HY.
    rewrite bind_two in HY. unfold hm5, sbind.
    destruct (two r) as [[h r1]|]; [|subst Y; apply hard_intro].
    rewrite (rng_hi DT_HOUR_MIN DT_HOUR_MAX h eq_refl) in HY. change DT_HOUR_MAX with 23%N in HY.
    destruct (23 <? h)%N eqn:Hh; cbn [negb] in HY.
    { subst Y. repeat first [ destruct (sexpect colon _) as [[[] ?]|] | destruct (two _) as [[? ?]|] ];
        unfold sret; cbv beta iota; rewrite ?Hh; cbn [orb]; apply hard_intro. }
    rewrite bind_byte in HY.
    destruct (sexpect colon r1) as [[[] r2]|]; [|subst Y; apply hard_intro].
    rewrite bind_two in HY.
    destruct (two r2) as [[mi r3]|]; [|subst Y; apply hard_intro].
    rewrite (rng_hi DT_MINUTE_MIN DT_MINUTE_MAX mi eq_refl) in HY. change DT_MINUTE_MAX with 59%N in HY.
    unfold sret. rewrite Hh. cbn [orb].
    destruct (59 <? mi)%N eqn:Hmi; cbn [negb] in HY; [subst Y; apply hard_intro|].
    exact HY. }
  destruct (byte_eqb b plus) eqn:E1; cbn [orb] in HX.
  - specialize (HK X _ HX). destruct (hm5 r) as [[[h mi] q]|]; [|exact HK].
    destruct (_ || _); [exact HK|]. rewrite HK. unfold ret. f_equal; lia.
  - destruct (byte_eqb b dash) eqn:E2; [|subst X; apply soft_intro].
    specialize (HK X _ HX). destruct (hm5 r) as [[[h mi] q]|]; [|exact HK].
    destruct (_ || _); [exact HK|]. rewrite HK. unfold ret. f_equal; lia.
Qed.

Lemma std_offset_nf b r :
  std_offset (b :: r) =
  if byte_eqb b x5a || byte_eqb b x7a then Some (Some OffZ, r)
  else match sign_of b with
       | None => None
       | Some sg =>
         match hm5 r with
         | None => None
         | Some ((h, mi), q) =>
           if (23 <? h)%N || (59 <? mi)%N then None
           else if (-1440 <=? sg * Z.of_N (h * 60 + mi))%Z && (sg * Z.of_N (h * 60 + mi) <=? 1440)%Z
                then Some (Some (OffCustom (sg * Z.of_N (h * 60 + mi))%Z), q) else None
         end
       end.
Proof.
  unfold std_offset, sbind, speek. cbv beta iota.
  destruct (_ || _); [reflexivity|].
  unfold sign_of, hm5, sbind.
  assert (HT : forall sg : Z,
    match snext (b :: r) with
    | Some (_, r0) =>
      match two r0 with
      | Some (a0, r1) =>
        match sexpect colon r1 with
        | Some (_, r2) =>
          match two r2 with
          | Some (a2, r3) =>
            (if (SD_OFFSET_HOUR_MAX <? a0)%N || (SD_OFFSET_MINUTE_MAX <? a2)%N
             then sfail
             else
               if (SD_OFFSET_MIN <=? sg * Z.of_N (a0 * 60 + a2))%Z && (sg * Z.of_N (a0 * 60 + a2) <=? SD_OFFSET_MAX)%Z
               then sret (Some (OffCustom (sg * Z.of_N (a0 * 60 + a2)))) else sfail) r3
          | None => None
          end
        | None => None
        end
      | None => None
      end
    | None => None
    end =
    match
      match two r with
      | Some (a, r0) =>
        match sexpect colon r0 with
        | Some (_, r1) => match two r1 with Some (a1, r2) => sret (a, a1) r2 | None => None end
        | None => None
        end
      | None => None
      end
    with
    | Some (h, mi, q) =>
      if (23 <? h)%N || (59 <? mi)%N then None
      else if (-1440 <=? sg * Z.of_N (h * 60 + mi))%Z && (sg * Z.of_N (h * 60 + mi) <=? 1440)%Z
           then Some (Some (OffCustom (sg * Z.of_N (h * 60 + mi))), q) else None
    | None => None
    end).
  { intro sg. unfold snext. cbn [tl].
    destruct (two r) as [[h r1]|]; [|reflexivity].
    destruct (sexpect colon r1) as [[[] r2]|]; [|reflexivity].
    destruct (two r2) as [[mi r3]|]; [|reflexivity].
    unfold sret, sfail, SD_OFFSET_HOUR_MAX, SD_OFFSET_MINUTE_MAX, SD_OFFSET_MIN, SD_OFFSET_MAX.
    destruct (_ || _); [reflexivity|]. destruct (_ && _); reflexivity. }
  destruct (byte_eqb b plus); [unfold sret at 1; apply HT|].
  destruct (byte_eqb b dash); [unfold sret at 1; apply HT|]. reflexivity.
Qed.

Lemma offset_stage s p d X :
  X = opt time_offset (mkIn s p d) ->
  match std_offset s with
  | Some (o, r) => okr X o r
  | None => hard X \/ (s <> [] /\ okr X None s)
  end.
Proof.
  intro HX. rewrite time_offset_eq in HX. destruct s as [|b r].
  - subst X. apply okr_intro.
  - rewrite std_offset_nf. unfold opt, context, alt, pvalue, pmap, verify in HX.
    unfold one_of in HX. cbn [rest] in HX.
    destruct (byte_eqb b x5a || byte_eqb b x7a).
    + subst X. unfold advance. cbn [skipn rest pos depth]. apply okr_intro.
    + pose proof (signed_hm_spec b r p d _ eq_refl) as HS.
      destruct (sign_of b) as [sg|].
      2:{ destruct HS as (e & i & HS). rewrite HS in HX. subst X.
          right. split; [discriminate|apply okr_intro]. }
      destruct (hm5 r) as [[[h mi] q]|].
      2:{ destruct HS as (e & i & HS). rewrite HS in HX. subst X. left. apply hard_intro. }
      destruct (_ || _).
      { destruct HS as (e & i & HS). rewrite HS in HX. subst X. left. apply hard_intro. }
      rewrite HS in HX. change DT_OFFSET_MIN with (-1440)%Z in HX. change DT_OFFSET_MAX with 1440%Z in HX.
      destruct (_ && _); subst X; [apply okr_intro|].
      right. split; [discriminate|apply okr_intro].
Qed.
(* ---------------------------------------------------------------------------------- *)
(* putting the stages together                                                         *)
(* ---------------------------------------------------------------------------------- *)
Definition fin (x : res datetime) : option datetime :=
  match x with
  | Ok d i => match rest i with [] => Some d | _ => None end
  | _ => None
  end.

Lemma doc_datetime_fin a r :
  doc_datetime (a :: r) =
  if in_class VALUE_NUMBER_START a then fin (date_time (new_input (a :: r))) else None.
Proof. reflexivity. Qed.

Definition time_only_dt (t : time) : datetime := mkDT None (Some t) None.

Lemma date_time_soft i :
  soft (full_date i) -> date_time i = context (pmap time_only_dt partial_time) i.
Proof. intros (e & i' & H). unfold date_time, alt, context, bind. rewrite H. reflexivity. Qed.

Lemma date_time_hard i : hard (full_date i) -> hard (date_time i).
Proof. intros (e & i' & H). unfold date_time, alt, context, bind. rewrite H. apply hard_intro. Qed.

Definition after_date : parser (option (time * option offset)) :=
  opt (bind time_delim (fun _ => bind partial_time (fun t =>
       bind (opt time_offset) (fun off => ret (t, off))))).

Definition mk_after (dt : date) (o : option (time * option offset)) : datetime :=
  match o with
  | Some (t, off) => mkDT (Some dt) (Some t) off
  | None => mkDT (Some dt) None None
  end.

Lemma date_time_ok i dt i1 o i2 :
  full_date i = Ok dt i1 -> after_date i1 = Ok o i2 -> date_time i = Ok (mk_after dt o) i2.
Proof.
  intros H1 H2. unfold date_time, alt, context. unfold bind at 1. rewrite H1.
  unfold bind at 1. fold after_date. rewrite H2. reflexivity.
Qed.

Lemma date_time_ok_hard i dt i1 :
  full_date i = Ok dt i1 -> hard (after_date i1) -> hard (date_time i).
Proof.
  intros H1 (e & i' & H2). unfold date_time, alt, context. unfold bind at 1. rewrite H1.
  unfold bind at 1. fold after_date. rewrite H2. apply hard_intro.
Qed.

(* what the standalone parser does after the date *)
Definition std_tail (dt : date) : sp datetime :=
  sbind speek (fun nx =>
    match nx with
    | Some b =>
      if byte_eqb b x54 || byte_eqb b x74 || byte_eqb b x20
      then sbind snext (fun _ => sbind std_time (fun t => sbind std_offset (fun off =>
             sret (mkDT (Some dt) (Some t) off))))
      else sret (mkDT (Some dt) None None)
    | None => sret (mkDT (Some dt) None None)
    end).

Lemma after_date_stage dt r1 p1 d1 X :
  X = after_date (mkIn r1 p1 d1) ->
  match std_tail dt r1 with
  | Some (v, q) => exists o, okr X o q /\ v = mk_after dt o
  | None => hard X \/ exists o q, q <> [] /\ okr X o q
  end.
Proof.
  intro HX. unfold std_tail, sbind, speek. destruct r1 as [|b r2].
  - subst X. exists None. split; [apply okr_intro|reflexivity].
  - cbv beta iota. unfold after_date in HX. unfold opt at 1 in HX. unfold time_delim in HX. rewrite bind_one_of in HX.
    rewrite in_class_delim in HX.
    destruct (byte_eqb b x54 || byte_eqb b x74 || byte_eqb b x20).
    2:{ subst X. exists None. split; [apply okr_intro|reflexivity]. }
    unfold snext. cbn [tl]. unfold bind at 1 in HX.
    pose proof (time_stage r2 (p1 + 1)%N d1) as HT.
    destruct (std_time r2) as [[t r3]|].
    + destruct HT as (p3 & d3 & ET). rewrite ET in HX. unfold bind, ret in HX.
      pose proof (offset_stage r3 p3 d3 _ eq_refl) as HO.
      destruct (std_offset r3) as [[o r4]|].
      * destruct HO as (p4 & d4 & EO). rewrite EO in HX. subst X.
        exists (Some (t, o)). split; [apply okr_intro|reflexivity].
      * destruct HO as [(e & i' & EO)|(Hne & p4 & d4 & EO)]; rewrite EO in HX; subst X.
        -- left. apply hard_intro.
        -- right. exists (Some (t, None)), r3. split; [exact Hne|apply okr_intro].
    + destruct HT as [(e & i' & ET)|[(e & i' & ET)|(t & q & p3 & d3 & ET)]]; rewrite ET in HX.
      * subst X. right. exists None, (b :: r2). split; [discriminate|apply okr_intro].
      * subst X. left. apply hard_intro.
      * unfold bind, ret in HX.
        pose proof (offset_stage (dot :: q) p3 d3 _ eq_refl) as HO.
        change (std_offset (dot :: q)) with (@None (option offset * bytes)) in HO.
        destruct HO as [(e & i' & EO)|(Hne & p4 & d4 & EO)]; rewrite EO in HX; subst X.
        -- left. apply hard_intro.
        -- right. exists (Some (t, None)), (dot :: q). split; [exact Hne|apply okr_intro].
Qed.
Lemma four_third a b c r : is_digit c = false -> four (a :: b :: c :: r) = None.
Proof.
  intro H. unfold four, sbind, sdigit. destruct (is_digit a); [|reflexivity].
  destruct (is_digit b); [|reflexivity]. rewrite H. reflexivity.
Qed.

Lemma four_short s : (length s < 3)%nat -> four s = None.
Proof.
  intro H. unfold four, sbind, sdigit.
  destruct s as [|a [|b [|c r]]]; [| | |cbn [length] in H; lia];
    repeat match goal with |- context [is_digit ?x] => destruct (is_digit x) end; reflexivity.
Qed.

Lemma full_date_soft s p d : four s = None -> soft (full_date (mkIn s p d)).
Proof. intro H. unfold full_date. rewrite bind_four, H. apply soft_intro. Qed.

Lemma partial_time_soft s p d :
  (forall a b c r, s = a :: b :: c :: r -> byte_eqb c colon = false) ->
  soft (partial_time (mkIn s p d)).
Proof.
  intro H. unfold partial_time, time_hour. rewrite bind_two. unfold two, sbind, sdigit, sret.
  destruct s as [|a [|b [|c r]]].
  - apply soft_intro.
  - destruct (is_digit a); apply soft_intro.
  - destruct (is_digit a); [|apply soft_intro]. destruct (is_digit b); [|apply soft_intro].
    destruct (_ && _); [|apply soft_intro]. rewrite bind_byte. apply soft_intro.
  - destruct (is_digit a); [|apply soft_intro]. destruct (is_digit b); [|apply soft_intro].
    destruct (_ && _); [|apply soft_intro]. rewrite bind_byte. unfold sexpect.
    rewrite (H _ _ _ _ eq_refl). apply soft_intro.
Qed.

Lemma std_date_digit a r x : std_date (a :: r) = Some x -> is_digit a = true.
Proof.
  unfold std_date. unfold sbind at 1. unfold sdigit at 1.
  destruct (is_digit a); [reflexivity|discriminate].
Qed.

Lemma std_time_digit a r x : std_time (a :: r) = Some x -> is_digit a = true.
Proof.
  unfold std_time. unfold sbind at 1. unfold two. unfold sbind at 1. unfold sdigit at 1.
  destruct (is_digit a); [reflexivity|discriminate].
Qed.

Lemma doc_short s : (length s < 3)%nat -> doc_datetime s = None.
Proof.
  intro H. destruct s as [|a r]; [reflexivity|]. rewrite doc_datetime_fin.
  destruct (in_class _ a); [|reflexivity]. unfold new_input.
  rewrite date_time_soft by (apply full_date_soft, four_short, H).
  destruct (partial_time_soft (a :: r) 0%N 0) as (e & i & E).
  { intros a' b c r' Heq. injection Heq as _ ->. cbn [length] in H. lia. }
  unfold context, pmap. rewrite E. reflexivity.
Qed.

Lemma std_short s : (length s < 3)%nat -> std_from_str s = None.
Proof.
  intro H. unfold std_from_str. change SD_MIN_LEN with 3%nat.
  apply Nat.ltb_lt in H. rewrite H. reflexivity.
Qed.

Lemma std_from_str_3 a b c r :
  std_from_str (a :: b :: c :: r) =
  if byte_eqb c colon
  then match std_time (a :: b :: c :: r) with
       | Some (t, []) => Some (time_only_dt t)
       | _ => None
       end
  else match std_date (a :: b :: c :: r) with
       | Some (dt, r1) => match std_tail dt r1 with Some (v, []) => Some v | _ => None end
       | None => None
       end.
Proof.
  unfold std_from_str.
  change (Nat.ltb (length (a :: b :: c :: r)) SD_MIN_LEN) with false. cbv iota zeta.
  cbn [nth_error]. destruct (byte_eqb c colon).
  - unfold sbind. destruct (std_time _) as [[t [|]]|]; reflexivity.
  - unfold sbind at 1. destruct (std_date _) as [[dt r1]|]; reflexivity.
Qed.

Theorem agree s : std_from_str s = doc_datetime s.
Proof.
  destruct (Nat.ltb (length s) 3) eqn:Hlen.
  { apply Nat.ltb_lt in Hlen. rewrite std_short, doc_short by exact Hlen. reflexivity. }
  destruct s as [|a [|b [|c r]]]; try discriminate Hlen. clear Hlen.
  rewrite std_from_str_3, doc_datetime_fin. unfold new_input.
  set (s := a :: b :: c :: r).
  destruct (byte_eqb c colon) eqn:Ec.
  - assert (Hs : soft (full_date (mkIn s 0%N 0))).
    { apply full_date_soft, four_third. apply byte_eqb_eq in Ec. subst c. reflexivity. }
    rewrite (date_time_soft _ Hs). pose proof (time_stage s 0%N 0) as HT.
    destruct (std_time s) as [[t q]|] eqn:Est.
    + rewrite (digit_number_start a (std_time_digit _ _ _ Est)).
      destruct HT as (p' & d' & E). unfold context, pmap. rewrite E. cbn [fin rest].
      destruct q; reflexivity.
    + destruct (in_class _ a); [|reflexivity].
      destruct HT as [(e & i & E)|[(e & i & E)|(t & q & p' & d' & E)]];
        unfold context, pmap; rewrite E; reflexivity.
  - pose proof (date_stage s 0%N 0) as HD.
    destruct (std_date s) as [[dt r1]|] eqn:Esd.
    + rewrite (digit_number_start a (std_date_digit _ _ _ Esd)).
      destruct HD as (p1 & d1 & E1).
      pose proof (after_date_stage dt r1 p1 d1 _ eq_refl) as HA.
      destruct (std_tail dt r1) as [[v q]|].
      * destruct HA as (o & (p2 & d2 & E2) & ->). rewrite (date_time_ok _ _ _ _ _ E1 E2).
        cbn [fin rest]. destruct q; reflexivity.
      * destruct HA as [Hh|(o & q & Hne & (p2 & d2 & E2))].
        -- destruct (date_time_ok_hard _ _ _ E1 Hh) as (e & i & E). rewrite E. reflexivity.
        -- rewrite (date_time_ok _ _ _ _ _ E1 E2). cbn [fin rest].
           destruct q; [congruence|reflexivity].
    + destruct (in_class _ a); [|reflexivity]. destruct HD as [Hs|Hh].
      * rewrite (date_time_soft _ Hs).
        destruct (partial_time_soft s 0%N 0) as (e & i & E).
        { intros a' b' c' r' Heq. unfold s in Heq. injection Heq as -> -> -> ->. exact Ec. }
        unfold context, pmap. rewrite E. reflexivity.
      * destruct (date_time_hard _ Hh) as (e & i & E). rewrite E. reflexivity.
Qed.
(* ---------------------------------------------------------------------------------- *)
(* closure: whatever the standalone parser accepts is within the RFC 3339 ranges       *)
(* ---------------------------------------------------------------------------------- *)
Lemma std_time_ok s t r : std_time s = Some (t, r) -> time_ok t = true.
Proof.
  rewrite std_time_nf. destruct (time8 s) as [[[[h mi] sec] q]|]; [|discriminate].
  destruct (std_frac q) as [[ns q']|]; [|discriminate].
  destruct (23 <? h)%N eqn:E1; [discriminate|]. destruct (59 <? mi)%N eqn:E2; [discriminate|].
  destruct (60 <? sec)%N eqn:E3; [discriminate|]. destruct (999999999 <? ns)%N eqn:E4; [discriminate|].
  intro H. injection H as <- _. unfold time_ok. cbn [hour minute second nanosecond]. lia.
Qed.

Lemma sdigit_bound s v r : sdigit s = Some (v, r) -> (v <= 9)%N.
Proof.
  unfold sdigit. destruct s as [|b q]; [discriminate|]. destruct (is_digit b) eqn:E; [|discriminate].
  intro H. injection H as <- _. apply is_digit_val, E.
Qed.

Lemma four_bound s y r : four s = Some (y, r) -> (y <= 9999)%N.
Proof.
  unfold four, sbind.
  destruct (sdigit s) as [[y1 r1]|] eqn:E1; [|discriminate].
  destruct (sdigit r1) as [[y2 r2]|] eqn:E2; [|discriminate].
  destruct (sdigit r2) as [[y3 r3]|] eqn:E3; [|discriminate].
  destruct (sdigit r3) as [[y4 r4]|] eqn:E4; [|discriminate].
  apply sdigit_bound in E1, E2, E3, E4. unfold sret. intro H. injection H as <- _. lia.
Qed.

Lemma max_days_spec m y :
  (1 <= m <= 12)%N -> max_days SD_MAXDAYS m (is_leap_year y) = days_in_month y m.
Proof.
  intro H.
  assert (Hm : (m = 1 \/ m = 2 \/ m = 3 \/ m = 4 \/ m = 5 \/ m = 6 \/ m = 7 \/ m = 8 \/ m = 9
               \/ m = 10 \/ m = 11 \/ m = 12)%N) by lia.
  repeat (destruct Hm as [Hm|Hm]); subst m; unfold days_in_month, is_leap_year, leap;
    destruct (_ && _); reflexivity.
Qed.

Lemma date10_year s y m d r : date10 s = Some ((y, m, d), r) -> (y <= 9999)%N.
Proof.
  unfold date10. unfold sbind at 1. destruct (four s) as [[y' r1]|] eqn:E; [|discriminate].
  apply four_bound in E. unfold sbind.
  destruct (sexpect dash r1) as [[[] r2]|]; [|discriminate].
  destruct (two r2) as [[m' r3]|]; [|discriminate].
  destruct (sexpect dash r3) as [[[] r4]|]; [|discriminate].
  destruct (two r4) as [[d' r5]|]; [|discriminate].
  unfold sret. intro H. injection H as <- _ _ _. exact E.
Qed.

Lemma std_date_ok s dt r : std_date s = Some (dt, r) -> date_ok dt = true.
Proof.
  rewrite std_date_nf. destruct (date10 s) as [[[[y m] d] q]|] eqn:E10; [|discriminate].
  apply date10_year in E10.
  destruct ((m <? 1)%N || (12 <? m)%N) eqn:E1; [discriminate|].
  destruct ((d <? 1)%N || (max_days SD_MAXDAYS m (is_leap_year y) <? d)%N) eqn:E2; [discriminate|].
  intro H. injection H as <- _. unfold date_ok. cbn [year month day].
  rewrite max_days_spec in E2 by lia. lia.
Qed.

Lemma std_offset_ok s o r : std_offset s = Some (Some o, r) -> offset_ok o = true.
Proof.
  destruct s as [|b q]; [discriminate|]. rewrite std_offset_nf.
  destruct (_ || _); [intro H; injection H as <- _; reflexivity|].
  unfold sign_of.
  assert (HS : forall sg : Z, (sg = 1 \/ sg = -1)%Z ->
    match hm5 q with
    | Some (h, mi, q0) =>
      if (23 <? h)%N || (59 <? mi)%N then None
      else if (-1440 <=? sg * Z.of_N (h * 60 + mi))%Z && (sg * Z.of_N (h * 60 + mi) <=? 1440)%Z
           then Some (Some (OffCustom (sg * Z.of_N (h * 60 + mi))), q0) else None
    | None => None
    end = Some (Some o, r) -> offset_ok o = true).
  { intros sg Hsg. destruct (hm5 q) as [[[h mi] q0]|]; [|discriminate].
    destruct ((23 <? h)%N || (59 <? mi)%N) eqn:E1; [discriminate|].
    destruct (_ && _); [|discriminate]. intro H. injection H as <- _.
    unfold offset_ok. lia. }
  destruct (byte_eqb b plus); [apply HS; lia|].
  destruct (byte_eqb b dash); [apply HS; lia|discriminate].
Qed.

Lemma std_tail_ok dt r1 v q :
  date_ok dt = true -> std_tail dt r1 = Some (v, q) -> in_range v = true.
Proof.
  intros Hd. unfold std_tail, sbind, speek.
  assert (H0 : in_range (mkDT (Some dt) None None) = true) by exact Hd.
  destruct r1 as [|b r2]; [unfold sret; intro H; injection H as <- _; exact H0|].
  destruct (_ || _); [|unfold sret; intro H; injection H as <- _; exact H0].
  unfold snext. cbn [tl].
  destruct (std_time r2) as [[t r3]|] eqn:Et; [|discriminate]. apply std_time_ok in Et.
  destruct (std_offset r3) as [[[o|] r4]|] eqn:Eo; [| |discriminate].
  - apply std_offset_ok in Eo. unfold sret. intro H. injection H as <- _.
    unfold in_range. cbn [d_date d_time d_offset]. rewrite Hd, Et, Eo. reflexivity.
  - unfold sret. intro H. injection H as <- _.
    unfold in_range. cbn [d_date d_time d_offset]. rewrite Hd, Et. reflexivity.
Qed.

Theorem closed s d : std_from_str s = Some d -> in_range d = true.
Proof.
  destruct (Nat.ltb (length s) 3) eqn:Hlen.
  { apply Nat.ltb_lt in Hlen. rewrite std_short by exact Hlen. discriminate. }
  destruct s as [|a [|b [|c r]]]; try discriminate Hlen. clear Hlen.
  rewrite std_from_str_3. destruct (byte_eqb c colon).
  - destruct (std_time _) as [[t [|]]|] eqn:Et; try discriminate.
    apply std_time_ok in Et. intro H. injection H as <-. exact Et.
  - destruct (std_date _) as [[dt r1]|] eqn:Ed; [|discriminate]. apply std_date_ok in Ed.
    destruct (std_tail dt r1) as [[v [|]]|] eqn:Ev; try discriminate.
    intro H. injection H as <-. exact (std_tail_ok _ _ _ _ Ed Ev).
Qed.
(* ---------------------------------------------------------------------------------- *)
(* truncation of the fraction to nine digits                                           *)
(* ---------------------------------------------------------------------------------- *)
Lemma span_while_forallb f l : forallb f l = true -> span_while f l = (l, []).
Proof.
  induction l as [|b l IH]; [reflexivity|]. cbn [forallb span_while]. intro H.
  apply andb_true_iff in H as [H1 H2]. rewrite H1, (IH H2). reflexivity.
Qed.

Lemma fracval_nine ds :
  length ds = 9%nat -> forallb is_digit ds = true ->
  fracval 0 ds = dec_value ds /\ (dec_value ds <= 999999999)%N.
Proof.
  intros Hl Hd.
  destruct (secfrac_short ds ltac:(lia) Hd) as (_ & sc & Hs & Hm & Hb).
  rewrite Hl in Hs. injection Hs as <-. split; lia.
Qed.

Theorem truncation ds es :
  length ds = 9%nat -> forallb is_digit ds = true -> forallb is_digit es = true ->
  std_from_str ([x30; x30; x3a; x30; x30; x3a; x30; x30; x2e] ++ ds ++ es)
  = Some (mkDT None (Some (mkTime 0 0 0 (dec_value ds))) None).
Proof.
  intros Hl Hd He. cbn [app]. rewrite std_from_str_3.
  change (byte_eqb x3a colon) with true. cbv iota. rewrite std_time_nf.
  change (time8 (x30 :: x30 :: x3a :: x30 :: x30 :: x3a :: x30 :: x30 :: x2e :: ds ++ es))
    with (Some ((0, 0, 0)%N, x2e :: ds ++ es)).
  cbv iota. rewrite std_frac_spec. change (byte_eqb x2e dot) with true. cbv iota.
  rewrite span_while_forallb by (rewrite forallb_app, Hd, He; reflexivity). cbn [fst snd].
  destruct (fracval_nine ds Hl Hd) as [Hf Hb].
  assert (Hv : fracval 0 (ds ++ es) = dec_value ds).
  { rewrite (fracval_firstn (ds ++ es) 0). change (9 - 0)%nat with 9%nat.
    rewrite firstn_app, Hl. change (9 - 9)%nat with 0%nat. rewrite firstn_O.
    rewrite app_nil_r, <- Hl, firstn_all. exact Hf. }
  destruct (ds ++ es) as [|x l] eqn:E.
  { destruct ds; [discriminate Hl|discriminate E]. }
  rewrite Hv.
  change (23 <? 0)%N with false. change (59 <? 0)%N with false. change (60 <? 0)%N with false.
  cbv iota. destruct (999999999 <? dec_value ds)%N eqn:E9; [lia|]. reflexivity.
Qed.
(* ---------------------------------------------------------------------------------- *)
(* printing: zero-padded decimal fields                                                *)
(* ---------------------------------------------------------------------------------- *)
Lemma digit_byte_spec v :
  (v <= 9)%N -> is_digit (digit_byte v) = true /\ digit_val (digit_byte v) = v.
Proof.
  intro H.
  assert (Hv : (v = 0 \/ v = 1 \/ v = 2 \/ v = 3 \/ v = 4 \/ v = 5 \/ v = 6 \/ v = 7 \/ v = 8 \/ v = 9)%N)
    by lia.
  repeat (destruct Hv as [Hv|Hv]); subst v; split; reflexivity.
Qed.

(* the k low-order decimal digits of n, most significant first *)
Fixpoint digs (k : nat) (n : N) : bytes :=
  match k with
  | O => []
  | S k' => digs k' (n / 10) ++ [digit_byte (n mod 10)]
  end.

Fixpoint pow10 (k : nat) : N := match k with O => 1%N | S k' => (10 * pow10 k')%N end.

Lemma digs_zero k : digs k 0 = repeat x30 k.
Proof.
  induction k as [|k IH]; [reflexivity|]. cbn [digs].
  change (0 / 10)%N with 0%N. change (0 mod 10)%N with 0%N. rewrite IH.
  change (digit_byte 0) with x30. symmetry. apply repeat_cons.
Qed.

Lemma digits_rev_digs k : forall fuel n,
  (1 <= k <= fuel)%nat -> (n < pow10 k)%N ->
  (length (digits_rev fuel n) <= k)%nat /\
  repeat x30 (k - length (digits_rev fuel n)) ++ rev (digits_rev fuel n) = digs k n.
Proof.
  induction k as [|k IH]; intros fuel n Hk Hn; [lia|].
  destruct fuel as [|f]; [lia|]. cbn [digits_rev].
  destruct (n <? 10)%N eqn:E.
  - cbn [length rev app]. split; [lia|]. cbn [digs].
    replace (n / 10)%N with 0%N by lia. replace (n mod 10)%N with n by lia.
    rewrite digs_zero. replace (S k - 1)%nat with k by lia. reflexivity.
  - destruct k as [|k'].
    { cbn [pow10] in Hn. lia. }
    destruct (IH f (n / 10)%N ltac:(lia)) as [Hl Hr].
    { cbn [pow10] in *. lia. }
    cbn [length rev]. split; [lia|]. cbn [digs] in *. rewrite <- Hr.
    replace (S (S k') - S (length (digits_rev f (n / 10))))%nat
      with (S k' - length (digits_rev f (n / 10)))%nat by lia.
    rewrite app_assoc. reflexivity.
Qed.

Lemma pad0_digs k n : (1 <= k <= 40)%nat -> (n < pow10 k)%N -> pad0 k n = digs k n.
Proof.
  intros Hk Hn. unfold pad0, dec_digits. rewrite rev_length.
  apply (digits_rev_digs k 40 n Hk Hn).
Qed.

Lemma digs_digits k : forall n, forallb is_digit (digs k n) = true.
Proof.
  induction k as [|k IH]; intro n; [reflexivity|]. cbn [digs].
  rewrite forallb_app, IH. cbn [forallb].
  destruct (digit_byte_spec (n mod 10)%N ltac:(lia)) as [-> _]. reflexivity.
Qed.

Lemma dec_value_acc_app l : forall acc b,
  dec_value_acc acc (l ++ [b]) = (dec_value_acc acc l * 10 + digit_val b)%N.
Proof. induction l as [|x l IH]; intros acc b; [reflexivity|]. cbn [app dec_value_acc]. apply IH. Qed.

Lemma digs_value k : forall n, (n < pow10 k)%N -> dec_value (digs k n) = n.
Proof.
  unfold dec_value. induction k as [|k IH]; intros n Hn.
  - cbn [pow10] in Hn. cbn [digs dec_value_acc]. lia.
  - cbn [digs]. rewrite dec_value_acc_app. rewrite IH by (cbn [pow10] in Hn; lia).
    destruct (digit_byte_spec (n mod 10)%N ltac:(lia)) as [_ ->]. lia.
Qed.

Lemma digs_length k : forall n, length (digs k n) = k.
Proof.
  induction k as [|k IH]; intro n; [reflexivity|]. cbn [digs]. rewrite app_length, IH. cbn [length]. lia.
Qed.
Lemma pad0_2_shape n :
  (n < 100)%N -> pad0 2 n = [digit_byte (n / 10 mod 10); digit_byte (n mod 10)].
Proof. intro H. rewrite pad0_digs by (change (pow10 2) with 100%N; lia). reflexivity. Qed.

Lemma pad0_4_shape n :
  (n < 10000)%N ->
  pad0 4 n = [digit_byte (n / 10 / 10 / 10 mod 10); digit_byte (n / 10 / 10 mod 10);
              digit_byte (n / 10 mod 10); digit_byte (n mod 10)].
Proof. intro H. rewrite pad0_digs by (change (pow10 4) with 10000%N; lia). reflexivity. Qed.

Ltac use_digit v :=
  let H1 := fresh in let H2 := fresh in
  destruct (digit_byte_spec v ltac:(lia)) as [H1 H2]; rewrite ?H1, ?H2; clear H1 H2.

Lemma two_pad n r : (n < 100)%N -> two (pad0 2 n ++ r) = Some (n, r).
Proof.
  intro H. rewrite pad0_2_shape by exact H. cbn [app]. unfold two, sbind, sdigit, sret.
  use_digit (n / 10 mod 10)%N. use_digit (n mod 10)%N. f_equal. f_equal. lia.
Qed.

Lemma four_pad n r : (n < 10000)%N -> four (pad0 4 n ++ r) = Some (n, r).
Proof.
  intro H. rewrite pad0_4_shape by exact H. cbn [app]. unfold four, sbind, sdigit, sret.
  use_digit (n / 10 / 10 / 10 mod 10)%N. use_digit (n / 10 / 10 mod 10)%N.
  use_digit (n / 10 mod 10)%N. use_digit (n mod 10)%N. f_equal. f_equal. lia.
Qed.

(* trailing zeros *)
Lemma trim_rev_split l :
  exists z, l = z ++ trim_end_zeros_rev l /\ (forall b, In b z -> b = x30).
Proof.
  induction l as [|b l (z & Hz & Hall)].
  - exists []. split; [reflexivity|]. intros b [].
  - cbn [trim_end_zeros_rev]. destruct (byte_eqb b x30) eqn:E.
    + apply byte_eqb_eq in E. subst b. exists (x30 :: z). split.
      * cbn [app]. f_equal. exact Hz.
      * intros b [Hb|Hb]; [auto|apply Hall, Hb].
    + exists []. split; [reflexivity|]. intros ? [].
Qed.

Lemma trim_split l :
  exists z, l = trim_end_zeros l ++ z /\ (forall b, In b z -> b = x30).
Proof.
  destruct (trim_rev_split (rev l)) as (z & Hz & Hall). exists (rev z). split.
  - unfold trim_end_zeros. rewrite <- rev_app_distr, <- Hz, rev_involutive. reflexivity.
  - intros b Hb. apply Hall, in_rev, Hb.
Qed.

Lemma fracval_zeros z : (forall b, In b z -> b = x30) -> forall i, fracval i z = 0%N.
Proof.
  induction z as [|b z IH]; intros Hall i; [reflexivity|]. cbn [fracval].
  rewrite (Hall b (or_introl eq_refl)). change (digit_val x30) with 0%N.
  rewrite IH by (intros b' Hb'; apply Hall; right; exact Hb'). lia.
Qed.

Lemma fracval_app_zeros t z :
  (forall b, In b z -> b = x30) -> forall i, fracval i (t ++ z) = fracval i t.
Proof.
  intro Hall. induction t as [|b t IH]; intro i.
  - cbn [app fracval]. apply fracval_zeros, Hall.
  - cbn [app fracval]. rewrite IH. reflexivity.
Qed.

Definition stops (rest : bytes) : Prop :=
  match rest with [] => True | b :: _ => is_digit b = false end.

Lemma span_while_app_stop t rest :
  forallb is_digit t = true -> stops rest -> span_while is_digit (t ++ rest) = (t, rest).
Proof.
  intros Ht Hr. induction t as [|b t IH].
  - cbn [app]. destruct rest as [|b q]; [reflexivity|]. cbn [span_while]. cbn in Hr. rewrite Hr. reflexivity.
  - cbn [forallb] in Ht. apply andb_true_iff in Ht as [H1 H2]. cbn [app span_while].
    rewrite H1, (IH H2). reflexivity.
Qed.

Lemma frac_print ns rest :
  (0 < ns <= 999999999)%N -> stops rest ->
  std_frac (dot :: trim_end_zeros (pad0 9 ns) ++ rest) = Some (ns, rest).
Proof.
  intros Hns Hr. rewrite std_frac_spec. change (byte_eqb dot dot) with true. cbv iota.
  assert (Hp : (ns < pow10 9)%N) by (change (pow10 9) with 1000000000%N; lia).
  rewrite pad0_digs by (exact Hp || lia).
  destruct (trim_split (digs 9 ns)) as (z & Hz & Hall).
  set (t := trim_end_zeros (digs 9 ns)) in *.
  pose proof (digs_digits 9 ns) as Hd.
  destruct (fracval_nine (digs 9 ns) (digs_length 9 ns) Hd) as [Hf _].
  rewrite (digs_value 9 ns Hp) in Hf.
  rewrite Hz in Hd, Hf. rewrite forallb_app in Hd. apply andb_true_iff in Hd as [Hdt _].
  rewrite (fracval_app_zeros t z Hall) in Hf.
  rewrite (span_while_app_stop t rest Hdt Hr). cbn [fst snd].
  destruct t as [|x t']; [cbn [fracval] in Hf; lia|]. rewrite Hf. reflexivity.
Qed.
(* ---------------------------------------------------------------------------------- *)
(* printing then parsing, stage by stage                                               *)
(* ---------------------------------------------------------------------------------- *)
Definition stops2 (rest : bytes) : Prop :=
  match rest with [] => True | b :: _ => is_digit b = false /\ byte_eqb b dot = false end.

Lemma stops2_stops rest : stops2 rest -> stops rest.
Proof. destruct rest as [|b q]; [auto|]. intros [H _]. exact H. Qed.

Lemma sexpect_same c r : sexpect c (c :: r) = Some (tt, r).
Proof. unfold sexpect. rewrite byte_eqb_refl. reflexivity. Qed.

Lemma time_print t rest :
  time_ok t = true -> stops2 rest -> std_time (display_time t ++ rest) = Some (t, rest).
Proof.
  destruct t as [h mi sec ns]. unfold time_ok, display_time. cbn [hour minute second nanosecond].
  intros Hok Hr. rewrite std_time_nf.
  set (F := if (ns =? 0)%N then [] else dot :: trim_end_zeros (pad0 9 ns)).
  assert (H8 : time8 ((pad0 2 h ++ [colon] ++ pad0 2 mi ++ [colon] ++ pad0 2 sec ++ F) ++ rest)
               = Some ((h, mi, sec), F ++ rest)).
  { repeat rewrite <- app_assoc. unfold time8, sbind.
    rewrite two_pad by lia. cbn [app]. rewrite sexpect_same.
    rewrite two_pad by lia. cbn [app]. rewrite sexpect_same.
    rewrite two_pad by lia. reflexivity. }
  rewrite H8.
  assert (HF : std_frac (F ++ rest) = Some (ns, rest)).
  { unfold F. destruct (ns =? 0)%N eqn:E0.
    - apply N.eqb_eq in E0. subst ns. cbn [app]. unfold std_frac.
      destruct rest as [|b q]; [reflexivity|]. destruct Hr as [_ Hr]. rewrite Hr. reflexivity.
    - cbn [app]. apply frac_print; [lia|apply stops2_stops, Hr]. }
  rewrite HF.
  destruct (23 <? h)%N eqn:E1; [lia|]. destruct (59 <? mi)%N eqn:E2; [lia|].
  destruct (60 <? sec)%N eqn:E3; [lia|]. destruct (999999999 <? ns)%N eqn:E4; [lia|]. reflexivity.
Qed.

Lemma days_in_month_le y m : (1 <= m <= 12)%N -> (days_in_month y m <= 31)%N.
Proof.
  intro H. rewrite <- max_days_spec by exact H. change SD_MAXDAYS with DT_MAXDAYS. apply max_days_le.
Qed.

Lemma date_print dt rest :
  date_ok dt = true -> std_date (display_date dt ++ rest) = Some (dt, rest).
Proof.
  destruct dt as [y m d]. unfold date_ok, display_date. cbn [year month day]. intro Hok.
  assert (Hm : (1 <= m <= 12)%N) by lia.
  pose proof (days_in_month_le y m Hm) as Hle.
  rewrite std_date_nf.
  assert (H10 : date10 ((pad0 4 y ++ [dash] ++ pad0 2 m ++ [dash] ++ pad0 2 d) ++ rest)
                = Some ((y, m, d), rest)).
  { repeat rewrite <- app_assoc. unfold date10, sbind.
    rewrite four_pad by lia. cbn [app]. rewrite sexpect_same.
    rewrite two_pad by lia. cbn [app]. rewrite sexpect_same.
    rewrite two_pad by lia. reflexivity. }
  rewrite H10. rewrite max_days_spec by exact Hm.
  destruct ((m <? 1)%N || (12 <? m)%N) eqn:E1; [lia|].
  destruct ((d <? 1)%N || (days_in_month y m <? d)%N) eqn:E2; [lia|]. reflexivity.
Qed.

Lemma offset_print o :
  offset_ok o = true -> std_offset (display_offset o) = Some (Some o, []).
Proof.
  destruct o as [|m]; [reflexivity|]. unfold offset_ok, display_offset. intro Hok.
  set (a := Z.to_N (Z.abs m)). rewrite std_offset_nf.
  assert (Ha : (a <= 1439)%N) by (unfold a; lia).
  assert (H5 : hm5 (pad0 2 (a / 60) ++ [colon] ++ pad0 2 (a mod 60))
               = Some ((a / 60, a mod 60)%N, [])).
  { unfold hm5, sbind. rewrite two_pad by lia. cbn [app]. rewrite sexpect_same.
    rewrite <- (app_nil_r (pad0 2 (a mod 60))). rewrite two_pad by lia. reflexivity. }
  rewrite H5.
  destruct ((23 <? a / 60)%N || (59 <? a mod 60)%N) eqn:E1; [lia|].
  destruct (m <? 0)%Z eqn:Em.
  - change (byte_eqb dash x5a || byte_eqb dash x7a) with false.
    change (sign_of dash) with (Some (-1)%Z). cbv iota.
    assert (Hx : (-1 * Z.of_N (a / 60 * 60 + a mod 60))%Z = m) by (unfold a; lia).
    rewrite Hx. destruct ((-1440 <=? m)%Z && (m <=? 1440)%Z) eqn:E2; [reflexivity|lia].
  - change (byte_eqb plus x5a || byte_eqb plus x7a) with false.
    change (sign_of plus) with (Some 1%Z). cbv iota.
    assert (Hx : (1 * Z.of_N (a / 60 * 60 + a mod 60))%Z = m) by (unfold a; lia).
    rewrite Hx. destruct ((-1440 <=? m)%Z && (m <=? 1440)%Z) eqn:E2; [reflexivity|lia].
Qed.
Lemma std_from_str_nth s c :
  nth_error s 2 = Some c ->
  std_from_str s =
  if byte_eqb c colon
  then match std_time s with Some (t, []) => Some (time_only_dt t) | _ => None end
  else match std_date s with
       | Some (dt, r1) => match std_tail dt r1 with Some (v, []) => Some v | _ => None end
       | None => None
       end.
Proof.
  destruct s as [|a [|b [|c' r]]]; try discriminate. cbn [nth_error]. intro H. injection H as ->.
  apply std_from_str_3.
Qed.

Lemma digit_not_colon v : (v <= 9)%N -> byte_eqb (digit_byte v) colon = false.
Proof.
  intro H. destruct (digit_byte_spec v H) as [Hd _].
  destruct (byte_eqb (digit_byte v) colon) eqn:E; [|reflexivity].
  apply byte_eqb_eq in E. rewrite E in Hd. discriminate Hd.
Qed.

Lemma date_third dt rest :
  date_ok dt = true ->
  exists c, nth_error (display_date dt ++ rest) 2 = Some c /\ byte_eqb c colon = false.
Proof.
  destruct dt as [y m d]. unfold date_ok, display_date. cbn [year month day]. intro Hok.
  rewrite pad0_4_shape by lia. cbn [app nth_error]. eexists. split; [reflexivity|].
  apply digit_not_colon. lia.
Qed.

Lemma time_third t rest :
  time_ok t = true -> nth_error (display_time t ++ rest) 2 = Some colon.
Proof.
  destruct t as [h mi sec ns]. unfold time_ok, display_time. cbn [hour minute second nanosecond].
  intro Hok. rewrite pad0_2_shape by lia. reflexivity.
Qed.

Definition display_off (oo : option offset) : bytes :=
  match oo with Some o => display_offset o | None => [] end.

Lemma offset_print_opt oo :
  (forall o, oo = Some o -> offset_ok o = true) ->
  std_offset (display_off oo) = Some (oo, []) /\ stops2 (display_off oo).
Proof.
  intro H. destruct oo as [o|]; [|split; [reflexivity|exact I]]. split.
  - apply offset_print, H. reflexivity.
  - destruct o as [|m]; [split; reflexivity|]. unfold display_off, display_offset.
    destruct (m <? 0)%Z; split; reflexivity.
Qed.

Lemma tail_print dt t oo :
  time_ok t = true -> (forall o, oo = Some o -> offset_ok o = true) ->
  std_tail dt (x54 :: display_time t ++ display_off oo) = Some (mkDT (Some dt) (Some t) oo, []).
Proof.
  intros Ht Ho. destruct (offset_print_opt oo Ho) as [H1 H2].
  unfold std_tail, sbind, speek. cbv beta iota.
  change (byte_eqb x54 x54 || byte_eqb x54 x74 || byte_eqb x54 x20) with true. cbv iota.
  unfold snext. cbn [tl]. rewrite (time_print t _ Ht H2). rewrite H1. reflexivity.
Qed.

Theorem print_parse_std d : in_range d = true -> std_from_str (display_datetime d) = Some d.
Proof.
  destruct d as [[dt|] [t|] oo]; unfold in_range, display_datetime; cbn [d_date d_time d_offset].
  - (* date and time, offset or not *)
    intro H.
    match goal with |- context [(_ ++ display_time t) ++ ?O] => change O with (display_off oo) end.
    assert (Hd : date_ok dt = true) by (destruct oo; lia).
    assert (Ht : time_ok t = true) by (destruct oo; lia).
    assert (Ho : forall o, oo = Some o -> offset_ok o = true) by (intros o ->; lia).
    match goal with |- std_from_str (display_date dt ++ ?R) = _ =>
      destruct (date_third dt R Hd) as (c & Hc & Hcc) end.
    rewrite (std_from_str_nth _ c Hc), Hcc. rewrite (date_print dt _ Hd).
    rewrite <- app_assoc. cbn [app].
    rewrite (tail_print dt t oo Ht Ho). reflexivity.
  - (* date only *)
    destruct oo; [discriminate|]. intro Hd. cbn [app].
    destruct (date_third dt [] Hd) as (c & Hc & Hcc).
    rewrite (std_from_str_nth _ c Hc), Hcc. rewrite (date_print dt _ Hd). reflexivity.
  - (* time only *)
    destruct oo; [discriminate|]. intro Ht. cbn [app].
    rewrite (std_from_str_nth _ colon (time_third t [] Ht)).
    change (byte_eqb colon colon) with true. cbv iota.
    rewrite (time_print t [] Ht I). reflexivity.
  - destruct oo; discriminate.
Qed.

Theorem print_parse d :
  in_range d = true ->
  std_from_str (display_datetime d) = Some d /\ doc_datetime (display_datetime d) = Some d.
Proof.
  intro H. pose proof (print_parse_std d H) as Hs. split; [exact Hs|]. rewrite <- agree. exact Hs.
Qed.
