(* Proofs/SerDocWf.v — C07 through text: what every tree ValueSerializer returns looks like (`out_ok`):
   the keys of a table are pairwise distinct; integers are i64; floats are 64-bit patterns; date-times are in range;
   and, when the names in the type and the strings in the value are UTF-8 (Rust strings are), so is every string and
   key written.  These are the side conditions under which the printed tree is inside Model/Build.v's `Built`. *)
From TV Require Import Base.Prelude Base.Utf8 Model.Datetime Model.DatetimeStd Model.WriteFloat Model.Numbers Model.SerNum
  Spec.DatetimeSpec Spec.SerdeData Model.Ser Model.De Model.SerDoc
  Proofs.LexEquivUtf8 Proofs.NumbersRT_Int Proofs.NumbersRT_Widen Proofs.NumbersRT_Ser Proofs.DatetimeStdTotal
  Proofs.SerdeRTBase Proofs.SerdeRTEq Proofs.SerdeRTLeaf Proofs.SerdeRTLists Proofs.SerdeRT Proofs.SerDocDe.
Require Import Lia ZifyBool ZifyN ZifyNat.

Fixpoint out_ok (x : tomlval) : bool :=
  match x with
  | VStr s => utf8_valid_b s
  | VInt z => in_i64 z
  | VFloat b => (b <? 2 ^ 64)%N
  | VBool _ => true
  | VDatetime d => in_range d
  | VArr xs => forallb out_ok xs
  | VTab es => nodup_bytes (map fst es) && forallb (fun kx => utf8_valid_b (fst kx) && out_ok (snd kx)) es
  end.

(* ---- leaves ---- *)
Lemma canon_nan_lt b : (b < 2 ^ 64)%N -> (canon_nan b < 2 ^ 64)%N.
Proof.
  intro H. unfold canon_nan. destruct (is_nan64 b); [|exact H].
  eapply N.le_lt_trans; [apply N.mod_le; discriminate|exact H].
Qed.
Lemma widen32_lt b : (widen32 b < 2 ^ 64)%N.
Proof.
  rewrite widen32_eq. destruct (wide_fields_bounds b) as [B1 B2]. pose proof (sign32_lt b) as Hs.
  change (2 ^ 64)%N with 18446744073709551616%N. unfold p63, p52 in *. lia.
Qed.

(* ---- keys ---- *)
Lemma utf8_ty_newtype n t : utf8_ty (TNewtype n t) = utf8_ty t. Proof. reflexivity. Qed.
Lemma utf8_ty_enum n vs : utf8_ty (TEnum n vs) = forallb (fun nv => utf8_valid_b (fst nv) && utf8_variant (snd nv)) vs.
Proof. reflexivity. Qed.
Lemma utf8_ty_struct n fs : utf8_ty (TStruct n fs) = forallb (fun ft => utf8_valid_b (fst ft) && utf8_ty (snd ft)) fs.
Proof. reflexivity. Qed.
Lemma utf8_variant_struct fs : utf8_variant (VStruct fs) = forallb (fun ft => utf8_valid_b (fst ft) && utf8_ty (snd ft)) fs.
Proof. reflexivity. Qed.

Lemma enum_name_utf8 (vs : list (bytes * variant)) i vn var :
  forallb (fun nv => utf8_valid_b (fst nv) && utf8_variant (snd nv)) vs = true -> nth_error vs i = Some (vn, var) ->
  utf8_valid_b vn = true /\ utf8_variant var = true.
Proof.
  intros H Hn. rewrite forallb_forall in H. specialize (H _ (nth_error_In _ _ Hn)). simpl in H.
  apply andb_true_iff in H. exact H.
Qed.

Lemma key_text_utf8 t : forall a s, utf8_ty t = true -> utf8_sv a = true -> key_text t a = Some s -> utf8_valid_b s = true.
Proof.
  induction t using ty_ind2 with (Q := fun _ => True); try exact I; intros a s Ht Ha Hk;
    try (destruct a; simpl in Hk; discriminate).
  - destruct a; simpl in Hk; try discriminate. injection Hk as <-. exact Ha.
  - destruct a; try (simpl in Hk; discriminate). rewrite kt_newtype in Hk. apply (IHt a s Ht Ha Hk).
  - destruct a as [| | | | | | | | | | | | | |i p]; try (simpl in Hk; discriminate). rewrite kt_enum in Hk.
    destruct (pick_cases key_text_variant None vs i) as [([vn var] & Hn & E)|[_ E]]; rewrite E in Hk; [|discriminate].
    unfold key_text_variant in Hk. simpl in Hk. destruct var; try discriminate. injection Hk as <-.
    rewrite utf8_ty_enum in Ht. apply (enum_name_utf8 vs i vn VUnit Ht Hn).
Qed.

(* ---- tables ---- *)
Lemma forallb_Forall {A} (f : A -> bool) l : forallb f l = true <-> Forall (fun a => f a = true) l.
Proof. rewrite forallb_forall, Forall_forall. reflexivity. Qed.

Definition OK (t : ty) : Prop :=
  forall v x, has_type_b t v = true -> utf8_ty t = true -> utf8_sv v = true -> ser_value t v = Ok x -> out_ok x = true.
Definition OKV (var : variant) : Prop :=
  forall p x, has_type_variant_b var p = true -> utf8_variant var = true -> utf8_sv p = true -> ser_payload var p = Ok x ->
              out_ok x = true.

Lemma ok_list t : OK t -> forall vs xs, forallb (has_type_b t) vs = true -> utf8_ty t = true -> forallb utf8_sv vs = true ->
  mapM (ser_value t) vs = Ok xs -> forallb out_ok xs = true.
Proof.
  intros IH. induction vs as [|v vs IHvs]; intros xs Hty Ht Hu H; simpl in *.
  - injection H as <-. reflexivity.
  - apply andb_true_iff in Hty as [Hv Hvs]. apply andb_true_iff in Hu as [Hu1 Hu2].
    apply rbind_ok in H as (x & Hx & H). apply rbind_ok in H as (xs' & Hxs & H). injection H as <-.
    simpl. rewrite (IH v x Hv Ht Hu1 Hx), (IHvs xs' Hvs Ht Hu2 Hxs). reflexivity.
Qed.

Lemma ok_tuple ts : Forall OK ts -> forall vs xs, all2b has_type_b ts vs = true -> forallb utf8_ty ts = true -> forallb utf8_sv vs = true ->
  zipM ser_value ts vs = Ok xs -> forallb out_ok xs = true.
Proof.
  induction 1 as [|t ts IHt _ IH]; intros [|v vs] xs Hty Ht Hu H; simpl in *; try discriminate.
  - injection H as <-. reflexivity.
  - apply andb_true_iff in Hty as [Hv Hvs]. apply andb_true_iff in Hu as [Hu1 Hu2]. apply andb_true_iff in Ht as [Ht1 Ht2].
    apply rbind_ok in H as (x & Hx & H). apply rbind_ok in H as (xs' & Hxs & H). injection H as <-.
    simpl. rewrite (IHt v x Hv Ht1 Hu1 Hx), (IH vs xs' Hvs Ht2 Hu2 Hxs). reflexivity.
Qed.

(* the fields written: names from the type, values by induction *)
Lemma ok_fields fs : Forall (fun ft => OK (snd ft)) fs -> forall vs ps,
  all2b (fun ft v' => has_type_b (snd ft) v') fs vs = true ->
  forallb (fun ft => utf8_valid_b (fst ft) && utf8_ty (snd ft)) fs = true -> forallb utf8_sv vs = true ->
  ser_fields fs vs = Ok ps ->
  forallb (fun kx : bytes * tomlval => utf8_valid_b (fst kx) && out_ok (snd kx)) (somes ps) = true.
Proof.
  unfold ser_fields.
  induction 1 as [|[f t] fs IHt _ IH]; intros [|v vs] ps Hty Ht Hu H; simpl in *; try discriminate.
  - injection H as <-. reflexivity.
  - apply andb_true_iff in Hty as [Hv Hvs]. apply andb_true_iff in Hu as [Hu1 Hu2]. apply andb_true_iff in Ht as [Ht1 Ht2].
    apply andb_true_iff in Ht1 as [Hf Ht1].
    apply rbind_ok in H as (p & Hp & H). apply rbind_ok in H as (ps' & Hps & H). injection H as <-.
    specialize (IH vs ps' Hvs Ht2 Hu2 Hps).
    apply rmap_ok in Hp as (ox & Hox & ->).
    destruct (ser_map_value_cases ser_value t v) as [(t' & -> & -> & E)|[_ E]]; rewrite E in Hox.
    + injection Hox as <-. simpl. exact IH.
    + apply rmap_ok in Hox as (x & Hx & ->). simpl. rewrite Hf, (IHt v x Hv Ht1 Hu1 Hx), IH. reflexivity.
Qed.

Lemma ok_struct_fields fs : Forall (fun ft => OK (snd ft)) fs -> forall vs ps,
  nodup_bytes (map fst fs) = true ->
  all2b (fun ft v' => has_type_b (snd ft) v') fs vs = true ->
  forallb (fun ft => utf8_valid_b (fst ft) && utf8_ty (snd ft)) fs = true -> forallb utf8_sv vs = true ->
  ser_fields fs vs = Ok ps -> out_ok (table_of ps) = true.
Proof.
  intros IH vs ps Hnd Hty Ht Hu H. apply nodup_bytes_NoDup in Hnd.
  assert (IH0 : Forall (fun ft : bytes * ty => RT (snd ft)) fs) by (apply Forall_forall; intros ft _; apply roundtrip_value).
  pose proof (rt_fields fs IH0 vs ps Hty H) as F.
  destruct (rt_struct_insertion de_value fs vs ps F Hnd) as (E1 & _ & _).
  pose proof (fields_somes_nodup de_value _ _ _ F Hnd) as Hes.
  unfold table_of, somes_pairs. rewrite E1. cbn [out_ok]. apply andb_true_iff. split.
  - apply nodup_bytes_NoDup, Hes.
  - apply (ok_fields fs IH vs ps Hty Ht Hu H).
Qed.

Theorem ser_out_ok : forall t, OK t.
Proof.
  induction t using ty_ind2 with (Q := OKV); unfold OK, OKV in *.
  - (* TBool *) intros v x _ _ _ Hser. destruct v; simpl in Hser; try discriminate. injection Hser as <-. reflexivity.
  - (* TInt *) intros v x Hty _ _ Hser. destruct v; simpl in Hser; try discriminate. simpl in Hty.
    unfold ser_int_value in Hser. destruct (ser_int w z) as [i|] eqn:E; [|discriminate]. injection Hser as <-.
    destruct (ser_exact w z i Hty E) as [_ Hf]. exact Hf.
  - (* TFloat *) intros v x Hty _ _ Hser. destruct w; destruct v; simpl in Hser; try discriminate; injection Hser as <-; simpl in Hty.
    + cbn [out_ok]. apply N.ltb_lt. apply canon_nan_lt, widen32_lt.
    + cbn [out_ok]. apply N.ltb_lt. apply canon_nan_lt. apply N.ltb_lt, Hty.
  - (* TChar *) intros v x Hty _ _ Hser. destruct v; simpl in Hser; try discriminate. injection Hser as <-. simpl in Hty.
    cbn [out_ok]. apply utf8_encode_valid0, Hty.
  - (* TStr *) intros v x _ _ Hu Hser. destruct v; simpl in Hser; try discriminate. injection Hser as <-. exact Hu.
  - (* TDatetime *) intros v x Hty _ _ Hser. destruct v; simpl in Hser; try discriminate. simpl in Hty.
    apply andb_true_iff in Hty as [Hr _]. rewrite (ser_datetime_ok d x Hr Hser). exact Hr.
  - (* TUnit *) intros v x _ _ _ Hser. destruct v; simpl in Hser; discriminate.
  - (* TUnitStruct *) intros v x _ _ _ Hser. destruct v; simpl in Hser; discriminate.
  - (* TOpt *) intros v x Hty Ht Hu Hser. destruct v; try (simpl in Hser; discriminate).
    rewrite sv_opt_some in Hser. rewrite ht_opt_some in Hty. apply (IHt v x Hty Ht Hu Hser).
  - (* TSeq *) intros v x Hty Ht Hu Hser. destruct v; try (simpl in Hser; discriminate).
    rewrite sv_seq in Hser. rewrite ht_seq in Hty. apply rmap_ok in Hser as (xs & Hxs & ->).
    apply (ok_list t IHt vs xs Hty Ht Hu Hxs).
  - (* TTuple *) intros v x Hty Ht Hu Hser. destruct v; try (simpl in Hser; discriminate).
    rewrite sv_tuple in Hser. rewrite ht_tuple in Hty. apply rmap_ok in Hser as (xs & Hxs & ->).
    apply (ok_tuple ts H vs xs Hty Ht Hu Hxs).
  - (* TMap *) intros v x Hty Ht Hu Hser. destruct v; try (simpl in Hty; discriminate).
    rewrite ht_map in Hty. apply andb_true_iff in Hty as [Hty Hnd]. apply andb_true_iff in Hty as [Hno Hes].
    apply negb_true_iff in Hno. apply nodup_bytes_NoDup in Hnd.
    rewrite sv_map in Hser. apply rmap_ok in Hser as (ps & Hps & ->).
    destruct (ser_entries_info t1 t2 Hno es ps Hes Hps) as (xs & -> & F).
    assert (Hk : somes (map (fun kv => key_text t1 (fst kv)) es) = map fst xs).
    { apply (entries_keys t1 es xs (fun kv kx => de_key t1 (fst kx) = Ok (fst kv) /\ sval_eq (fst kv) (fst kv) /\
                                      has_type_b t2 (snd kv) = true /\ ser_value t2 (snd kv) = Ok (snd kx))). exact F. }
    rewrite Hk in Hnd.
    unfold table_of, somes_pairs. rewrite somes_map_Some, (tab_of_pairs_nodup xs Hnd).
    cbn [out_ok]. apply andb_true_iff. split; [apply nodup_bytes_NoDup, Hnd|].
    simpl in Ht. apply andb_true_iff in Ht as [Htk Htv]. simpl in Hu.
    clear - F Htk Htv Hu IHt2. induction F as [|[k v] [s x] es xs (K1 & _ & _ & Hv & Hx) _ IH]; [reflexivity|].
    simpl in *. apply andb_true_iff in Hu as [Hu1 Hu2]. apply andb_true_iff in Hu1 as [Hk1 Hv1].
    rewrite (key_text_utf8 t1 k s Htk Hk1 K1), (IHt2 v x Hv Htv Hv1 Hx), (IH Hu2). reflexivity.
  - (* TStruct *) intros v x Hty Ht Hu Hser. destruct v; try (simpl in Hser; discriminate).
    rewrite ht_struct in Hty. apply andb_true_iff in Hty as [Hty Hvs]. apply andb_true_iff in Hty as [Hpriv Hnd].
    apply negb_true_iff in Hpriv. rewrite sv_struct, (private_not_dt n Hpriv) in Hser.
    apply rmap_ok in Hser as (ps & Hps & ->). rewrite utf8_ty_struct in Ht.
    apply (ok_struct_fields fs H vs ps Hnd Hvs Ht Hu Hps).
  - (* TNewtype *) intros v x Hty Ht Hu Hser. destruct v; try (simpl in Hser; discriminate).
    rewrite sv_newtype in Hser. rewrite ht_newtype in Hty. apply (IHt v x Hty Ht Hu Hser).
  - (* TTupleStruct *) intros v x Hty Ht Hu Hser. destruct v; try (simpl in Hser; discriminate).
    rewrite sv_tuple_struct in Hser. rewrite ht_tuple_struct in Hty. apply rmap_ok in Hser as (xs & Hxs & ->).
    apply (ok_tuple ts H vs xs Hty Ht Hu Hxs).
  - (* TEnum *) intros v x Hty Ht Hu Hser. destruct v as [| | | | | | | | | | | | | |i p]; try (simpl in Hser; discriminate).
    rewrite ht_enum in Hty. apply andb_true_iff in Hty as [Hnd Hp].
    rewrite sv_enum in Hser.
    destruct (pick_cases (ser_variant p) (Err EBadCase) vs i) as [([vn var] & Hn & E)|[_ E]]; rewrite E in Hser; [|discriminate].
    rewrite (pick_nth _ _ _ _ _ Hn) in Hp. simpl in Hp.
    rewrite utf8_ty_enum in Ht. destruct (enum_name_utf8 vs i vn var Ht Hn) as [Hvn Hvar].
    assert (HQ : forall q y, has_type_variant_b var q = true -> utf8_variant var = true -> utf8_sv q = true ->
                             ser_payload var q = Ok y -> out_ok y = true).
    { rewrite Forall_forall in H. apply (H (vn, var)). eapply nth_error_In; exact Hn. }
    unfold ser_variant in Hser. simpl in Hser. simpl in Hu.
    destruct var as [|tv|tsv|fsv].
    + destruct p; try discriminate Hser. injection Hser as <-. exact Hvn.
    + apply rmap_ok in Hser as (y & Hy & ->). cbn [out_ok map fst snd nodup_bytes mem_bytes forallb negb andb].
      rewrite Hvn, (HQ p y Hp Hvar Hu Hy). reflexivity.
    + apply rmap_ok in Hser as (y & Hy & ->). cbn [out_ok map fst snd nodup_bytes mem_bytes forallb negb andb].
      rewrite Hvn, (HQ p y Hp Hvar Hu Hy). reflexivity.
    + apply rmap_ok in Hser as (y & Hy & ->). cbn [out_ok map fst snd nodup_bytes mem_bytes forallb negb andb].
      rewrite Hvn, (HQ p y Hp Hvar Hu Hy). reflexivity.
  - (* VUnit *) intros p x _ _ _ Hser. simpl in Hser. discriminate.
  - (* VNewtype *) intros p x Hty Ht Hu Hser. rewrite sp_newtype in Hser. rewrite htv_newtype in Hty.
    apply (IHt p x Hty Ht Hu Hser).
  - (* VTuple *) intros p x Hty Ht Hu Hser. destruct p; try (simpl in Hty; discriminate).
    rewrite sp_tuple in Hser. rewrite htv_tuple in Hty. apply rmap_ok in Hser as (xs & Hxs & ->).
    apply (ok_tuple ts H vs xs Hty Ht Hu Hxs).
  - (* VStruct *) intros p x Hty Ht Hu Hser. destruct p; try (simpl in Hty; discriminate).
    rewrite htv_struct in Hty. apply andb_true_iff in Hty as [Hnd Hvs].
    rewrite sp_struct in Hser. apply rmap_ok in Hser as (ps & Hps & ->). rewrite utf8_variant_struct in Ht.
    apply (ok_struct_fields fs H vs ps Hnd Hvs Ht Hu Hps).
Qed.

(* ---- the text of a date-time is ASCII (toml::to_string writes a root Datetime as { "$__toml_private_datetime" = "<text>" }) ---- *)
Definition AA (s : bytes) : Prop := forall b, In b s -> ascii_b b = true.
Lemma AA_app a b : AA a -> AA b -> AA (a ++ b).
Proof. intros Ha Hb x Hx. apply in_app_or in Hx as [H|H]; auto. Qed.
Lemma AA_cons x s : ascii_b x = true -> AA s -> AA (x :: s).
Proof. intros Hx Hs y [<-|Hy]; auto. Qed.
Lemma AA_nil : AA []. Proof. intros b []. Qed.
Lemma AA_rev s : AA s -> AA (rev s).
Proof. intros H b Hb. apply H. apply in_rev. exact Hb. Qed.
Lemma AA_valid s : AA s -> utf8_valid_b s = true.
Proof.
  induction s as [|b s IH]; intro H; [reflexivity|]. rewrite utf8_cons_ascii by (apply H; left; reflexivity).
  apply IH. intros c Hc. apply H. right. exact Hc.
Qed.
Lemma digit_byte_asc d : (d < 10)%N -> ascii_b (digit_byte d) = true.
Proof. intro H. apply digit_ascii, NumbersRT_Int.digit_byte_is_digit, H. Qed.
Lemma digits_rev_AA fuel : forall n, AA (digits_rev fuel n).
Proof.
  induction fuel as [|f IH]; intro n; cbn [digits_rev]; [apply AA_nil|].
  destruct (n <? 10)%N eqn:E.
  - apply AA_cons; [apply digit_byte_asc; lia|apply AA_nil].
  - apply AA_cons; [apply digit_byte_asc; apply N.mod_lt; discriminate|apply IH].
Qed.
Lemma pad0_AA w n : AA (pad0 w n).
Proof.
  unfold pad0, dec_digits. apply AA_app; [|apply AA_rev, digits_rev_AA].
  intros b Hb. apply repeat_spec in Hb. subst. reflexivity.
Qed.
Lemma trim_rev_AA s : AA s -> AA (trim_end_zeros_rev s).
Proof.
  induction s as [|b s IH]; intro H; cbn [trim_end_zeros_rev]; [exact H|].
  destruct (byte_eqb b x30); [apply IH; intros c Hc; apply H; right; exact Hc|exact H].
Qed.
Lemma display_datetime_AA d : AA (display_datetime d).
Proof.
  unfold display_datetime. repeat apply AA_app.
  - destruct (d_date d) as [x|]; [|apply AA_nil]. unfold display_date.
    repeat (first [apply pad0_AA | apply AA_app | apply AA_cons; [reflexivity|] | apply AA_nil]).
  - destruct (d_time d) as [t|]; [|apply AA_nil]. apply AA_app.
    + destruct (d_date d); [apply AA_cons; [reflexivity|apply AA_nil]|apply AA_nil].
    + unfold display_time.
      repeat (first [apply pad0_AA | apply AA_app | apply AA_cons; [reflexivity|] | apply AA_nil]).
      destruct (nanosecond t =? 0)%N; [apply AA_nil|]. apply AA_cons; [reflexivity|].
      unfold trim_end_zeros. apply AA_rev, trim_rev_AA, AA_rev, pad0_AA.
  - destruct (d_offset d) as [[|m]|]; [apply AA_cons; [reflexivity|apply AA_nil]| |apply AA_nil].
    unfold display_offset. apply AA_cons; [destruct (m <? 0)%Z; reflexivity|].
    repeat (first [apply pad0_AA | apply AA_app | apply AA_cons; [reflexivity|] | apply AA_nil]).
Qed.

(* ---- the roots of the text routes ---- *)
Lemma edit_root_out_ok t v x :
  has_type_b t v = true -> utf8_ty t = true -> utf8_sv v = true -> ser_edit_root t v = Ok x ->
  out_ok x = true /\ exists es, x = VTab es.
Proof.
  intros Hty Ht Hu H0. apply edit_root_is_table in H0 as (es & -> & H0).
  split; [apply (ser_out_ok t v _ Hty Ht Hu H0)|eauto].
Qed.

Lemma toml_root_out_ok t v x :
  has_type_b t v = true -> utf8_ty t = true -> utf8_sv v = true -> ser_toml_root t v = Ok x ->
  out_ok x = true /\ exists es, x = VTab es.
Proof.
  intros Hty Ht Hu H.
  assert (Edit : ser_edit_root t v = Ok x -> out_ok x = true /\ exists es, x = VTab es)
    by (apply edit_root_out_ok; assumption).
  destruct t; try (apply Edit; destruct v; exact H).
  - (* Datetime at the root *)
    destruct v; try (apply Edit; exact H).
    simpl in H. injection H as <-. split; [|eauto].
    cbn [out_ok map fst snd nodup_bytes mem_bytes forallb negb andb]. rewrite (AA_valid _ (display_datetime_AA d)).
    vm_compute. reflexivity.
  - (* struct at the root *)
    destruct v; try (apply Edit; exact H).
    rewrite ht_struct in Hty. apply andb_true_iff in Hty as [Hty Hvs]. apply andb_true_iff in Hty as [Hpriv Hnd].
    simpl in H. apply rmap_ok in H as (ps & Hps & ->). split; [|unfold table_of; eauto].
    rewrite utf8_ty_struct in Ht.
    assert (IH : Forall (fun ft : bytes * ty => OK (snd ft)) fs) by (apply Forall_forall; intros ft _; apply ser_out_ok).
    apply (ok_struct_fields fs IH vs ps Hnd Hvs Ht Hu Hps).
  - (* enum at the root *)
    destruct v as [| | | | | | | | | | | | | |i p]; try (apply Edit; exact H).
    simpl in H.
    match type of H with pick ?f ?d vs i = _ => destruct (pick_cases f d vs i) as [([vn var] & Hn & E)|[_ E]]; rewrite E in H end;
      [|discriminate].
    simpl in H. destruct var; try discriminate H.
    + apply Edit. exact H.
    + apply Edit. exact H.
    + destruct p; try discriminate H. destruct (zipM ser_value ts vs0); discriminate H.
Qed.

Theorem ser_text_out_ok r t v x :
  has_type v t -> utf8_ty t = true -> utf8_sv v = true -> ser_text r t v = Ok x ->
  out_ok x = true /\ exists es, x = VTab es.
Proof.
  intros Hty Ht Hu H. destruct r; simpl in H;
    first [apply (edit_root_out_ok t v x Hty Ht Hu H) | apply (toml_root_out_ok t v x Hty Ht Hu H)].
Qed.
