(* Proofs/SerDocWf.v — C07 through text: what every tree ValueSerializer returns looks like (`out_ok`):
   the keys of a table are pairwise distinct; integers are i64; floats are 64-bit patterns; date-times are in range;
   and, when the names in the type and the strings in the value are UTF-8 (Rust strings are), so is every string and
   key written.  These are the side conditions under which the printed tree is inside Model/Build.v's `Built`. *)
From TV Require Import Base.Prelude Base.Utf8 Model.Datetime Model.DatetimeStd Model.WriteFloat Model.Numbers Model.SerNum
  Spec.DatetimeSpec Spec.SerdeData Model.Ser Model.De Model.SerDoc
  Proofs.LexEquivUtf8 Proofs.NumbersRT_Int Proofs.NumbersRT_Widen Proofs.NumbersRT_Ser Proofs.DatetimeStdTotal
  Proofs.SerdeRTBase Proofs.SerdeRTEq Proofs.SerdeRTLeaf Proofs.SerdeRTLists Proofs.SerdeRT Proofs.SerDocDe.
Require Import Lia ZifyBool ZifyN ZifyNat.

Fixpoint out_ok (x : tomlval) : bool :=
  match x with
  | VStr s => utf8_valid_b s
  | VInt z => in_i64 z
  | VFloat b => (b <? 2 ^ 64)%N
  | VBool _ => true
  | VDatetime d => in_range d
  | VArr xs => forallb out_ok xs
  | VTab es => nodup_bytes (map fst es) && forallb (fun kx => utf8_valid_b (fst kx) && out_ok (snd kx)) es
  end.

(* ---- leaves ---- *)
Lemma canon_nan_lt b : (b < 2 ^ 64)%N -> (canon_nan b < 2 ^ 64)%N.
Proof.
  intro H. unfold canon_nan. destruct (is_nan64 b); [|exact H].
  eapply N.le_lt_trans; [apply N.mod_le; discriminate|exact H].
Qed.
Lemma widen32_lt b : (widen32 b < 2 ^ 64)%N.
Proof.
  rewrite widen32_eq. destruct (wide_fields_bounds b) as [B1 B2]. pose proof (sign32_lt b) as Hs.
  change (2 ^ 64)%N with 18446744073709551616%N. unfold p63, p52 in *. lia.
Qed.

(* ---- keys ---- *)
Lemma utf8_ty_newtype n t : utf8_ty (TNewtype n t) = utf8_ty t. Proof. reflexivity. Qed.
Lemma utf8_ty_enum n vs : utf8_ty (TEnum n vs) = forallb (fun nv => utf8_valid_b (fst nv) && utf8_variant (snd nv)) vs.
Proof. reflexivity. Qed.
Lemma utf8_ty_struct n fs : utf8_ty (TStruct n fs) = forallb (fun ft => utf8_valid_b (fst ft) && utf8_ty (snd ft)) fs.
Proof. reflexivity. Qed.
Lemma utf8_variant_struct fs : utf8_variant (VStruct fs) = forallb (fun ft => utf8_valid_b (fst ft) && utf8_ty (snd ft)) fs.
Proof. reflexivity. Qed.

Lemma enum_name_utf8 (vs : list (bytes * variant)) i vn var :
  forallb (fun nv => utf8_valid_b (fst nv) && utf8_variant (snd nv)) vs = true -> nth_error vs i = Some (vn, var) ->
  utf8_valid_b vn = true /\ utf8_variant var = true.
Proof.
  intros H Hn. rewrite forallb_forall in H. specialize (H _ (nth_error_In _ _ Hn)). simpl in H.
  apply andb_true_iff in H. exact H.
Qed.

Lemma key_text_utf8 t : forall a s, utf8_ty t = true -> utf8_sv a = true -> key_text t a = Some s -> utf8_valid_b s = true.
Proof.
  induction t using ty_ind2 with (Q := fun _ => True); try exact I; intros a s Ht Ha Hk;
    try (destruct a; simpl in Hk; discriminate).
  - destruct a; simpl in Hk; try discriminate. injection Hk as <-. exact Ha.
  - destruct a; try (simpl in Hk; discriminate). rewrite kt_newtype in Hk. apply (IHt a s Ht Ha Hk).
  - destruct a as [| | | | | | | | | | | | | |i p]; try (simpl in Hk; discriminate). rewrite kt_enum in Hk.
    destruct (pick_cases key_text_variant None vs i) as [([vn var] & Hn & E)|[_ E]]; rewrite E in Hk; [|discriminate].
    unfold key_text_variant in Hk. simpl in Hk. destruct var; try discriminate. injection Hk as <-.
    rewrite utf8_ty_enum in Ht. apply (enum_name_utf8 vs i vn VUnit Ht Hn).
Qed.

(* ---- tables ---- *)
Lemma forallb_Forall {A} (f : A -> bool) l : forallb f l = true <-> Forall (fun a => f a = true) l.
Proof. rewrite forallb_forall, Forall_forall. reflexivity. Qed.

Definition OK (t : ty) : Prop :=
  forall v x, has_type_b t v = true -> utf8_ty t = true -> utf8_sv v = true -> ser_value t v = Ok x -> out_ok x = true.
Definition OKV (var : variant) : Prop :=
  forall p x, has_type_variant_b var p = true -> utf8_variant var = true -> utf8_sv p = true -> ser_payload var p = Ok x ->
              out_ok x = true.

Lemma ok_list t : OK t -> forall vs xs, forallb (has_type_b t) vs = true -> utf8_ty t = true -> forallb utf8_sv vs = true ->
  mapM (ser_value t) vs = Ok xs -> forallb out_ok xs = true.
Proof.
  intros IH. induction vs as [|v vs IHvs]; intros xs Hty Ht Hu H; simpl in *.
  - injection H as <-. reflexivity.
  - apply andb_true_iff in Hty as [Hv Hvs]. apply andb_true_iff in Hu as [Hu1 Hu2].
    apply rbind_ok in H as (x & Hx & H). apply rbind_ok in H as (xs' & Hxs & H). injection H as <-.
    simpl. rewrite (IH v x Hv Ht Hu1 Hx), (IHvs xs' Hvs Ht Hu2 Hxs). reflexivity.
Qed.

Lemma ok_tuple ts : Forall OK ts -> forall vs xs, all2b has_type_b ts vs = true -> forallb utf8_ty ts = true -> forallb utf8_sv vs = true ->
  zipM ser_value ts vs = Ok xs -> forallb out_ok xs = true.
Proof.
  induction 1 as [|t ts IHt _ IH]; intros [|v vs] xs Hty Ht Hu H; simpl in *; try discriminate.
  - injection H as <-. reflexivity.
  - apply andb_true_iff in Hty as [Hv Hvs]. apply andb_true_iff in Hu as [Hu1 Hu2]. apply andb_true_iff in Ht as [Ht1 Ht2].
    apply rbind_ok in H as (x & Hx & H). apply rbind_ok in H as (xs' & Hxs & H). injection H as <-.
    simpl. rewrite (IHt v x Hv Ht1 Hu1 Hx), (IH vs xs' Hvs Ht2 Hu2 Hxs). reflexivity.
Qed.

(* the fields written: names from the type, values by induction *)
Lemma ok_fields fs : Forall (fun ft => OK (snd ft)) fs -> forall vs ps,
  all2b (fun ft v' => has_type_b (snd ft) v') fs vs = true ->
  forallb (fun ft => utf8_valid_b (fst ft) && utf8_ty (snd ft)) fs = true -> forallb utf8_sv vs = true ->
  ser_fields fs vs = Ok ps ->
  forallb (fun kx : bytes * tomlval => utf8_valid_b (fst kx) && out_ok (snd kx)) (somes ps) = true.
Proof.
  unfold ser_fields.
  induction 1 as [|[f t] fs IHt _ IH]; intros [|v vs] ps Hty Ht Hu H; simpl in *; try discriminate.
  - injection H as <-. reflexivity.
  - apply andb_true_iff in Hty as [Hv Hvs]. apply andb_true_iff in Hu as [Hu1 Hu2]. apply andb_true_iff in Ht as [Ht1 Ht2].
    apply andb_true_iff in Ht1 as [Hf Ht1].
    apply rbind_ok in H as (p & Hp & H). apply rbind_ok in H as (ps' & Hps & H). injection H as <-.
    specialize (IH vs ps' Hvs Ht2 Hu2 Hps).
    apply rmap_ok in Hp as (ox & Hox & ->).
    destruct (ser_map_value_cases ser_value t v) as [(t' & -> & -> & E)|[_ E]]; rewrite E in Hox.
    + injection Hox as <-. simpl. exact IH.
    + apply rmap_ok in Hox as (x & Hx & ->). simpl. rewrite Hf, (IHt v x Hv Ht1 Hu1 Hx), IH. reflexivity.
Qed.

Lemma ok_struct_fields fs : Forall (fun ft => OK (snd ft)) fs -> forall vs ps,
  nodup_bytes (map fst fs) = true ->
  all2b (fun ft v' => has_type_b (snd ft) v') fs vs = true ->
  forallb (fun ft => utf8_valid_b (fst ft) && utf8_ty (snd ft)) fs = true -> forallb utf8_sv vs = true ->
  ser_fields fs vs = Ok ps -> out_ok (table_of ps) = true.
Proof.
  intros IH vs ps Hnd Hty Ht Hu H. apply nodup_bytes_NoDup in Hnd.
  assert (IH0 : Forall (fun ft : bytes * ty => RT (snd ft)) fs) by (apply Forall_forall; intros ft _; apply roundtrip_value).
  pose proof (rt_fields fs IH0 vs ps Hty H) as F.
  destruct (rt_struct_insertion de_value fs vs ps F Hnd) as (E1 & _ & _).
  pose proof (fields_somes_nodup de_value _ _ _ F Hnd) as Hes.
  unfold table_of, somes_pairs. rewrite E1. cbn [out_ok]. apply andb_true_iff. split.
  - apply nodup_bytes_NoDup, Hes.
  - apply (ok_fields fs IH vs ps Hty Ht Hu H).
Qed.

Theorem ser_out_ok : forall t, OK t.
Proof.
  induction t using ty_ind2 with (Q := OKV); unfold OK, OKV in *.
  - (* TBool *) intros v x _ _ _ Hser. destruct v; simpl in Hser; try discriminate. injection Hser as <-. reflexivity.
  - (* TInt *) intros v x Hty _ _ Hser. destruct v; simpl in Hser; try discriminate. simpl in Hty.
    unfold ser_int_value in Hser. destruct (ser_int w z) as [i|] eqn:E; [|discriminate]. injection Hser as <-.
    destruct (ser_exact w z i Hty E) as [_ Hf]. exact Hf.
  - (* TFloat *) intros v x Hty _ _ Hser. destruct w; destruct v; simpl in Hser; try discriminate; injection Hser as <-; simpl in Hty.
    + cbn [out_ok]. apply N.ltb_lt. apply canon_nan_lt, widen32_lt.
    + cbn [out_ok]. apply N.ltb_lt. apply canon_nan_lt. apply N.ltb_lt, Hty.
  - (* TChar *) intros v x Hty _ _ Hser. destruct v; simpl in Hser; try discriminate. injection Hser as <-. simpl in Hty.
    cbn [out_ok]. apply utf8_encode_valid0, Hty.
  - (* TStr *) intros v x _ _ Hu Hser. destruct v; simpl in Hser; try discriminate. injection Hser as <-. exact Hu.
  - (* TDatetime *) intros v x Hty _ _ Hser. destruct v; simpl in Hser; try discriminate. simpl in Hty.
    apply andb_true_iff in Hty as [Hr _]. rewrite (ser_datetime_ok d x Hr Hser). exact Hr.
  - (* TUnit *) intros v x _ _ _ Hser. destruct v; simpl in Hser; discriminate.
  - (* TUnitStruct *) intros v x _ _ _ Hser. destruct v; simpl in Hser; discriminate.
  - (* TOpt *) intros v x Hty Ht Hu Hser. destruct v; try (simpl in Hser; discriminate).
    rewrite sv_opt_some in Hser. rewrite ht_opt_some in Hty. apply (IHt v x Hty Ht Hu Hser).
  - (* TSeq *) intros v x Hty Ht Hu Hser. destruct v; try (simpl in Hser; discriminate).
    rewrite sv_seq in Hser. rewrite ht_seq in Hty. apply rmap_ok in Hser as (xs & Hxs & ->).
    apply (ok_list t IHt vs xs Hty Ht Hu Hxs).
  - (* TTuple *) intros v x Hty Ht Hu Hser. destruct v; try (simpl in Hser; discriminate).
    rewrite sv_tuple in Hser. rewrite ht_tuple in Hty. apply rmap_ok in Hser as (xs & Hxs & ->).
    apply (ok_tuple ts H vs xs Hty Ht Hu Hxs).
  - (* TMap *) intros v x Hty Ht Hu Hser. destruct v; try (simpl in Hty; discriminate).
    rewrite ht_map in Hty. apply andb_true_iff in Hty as [Hty Hnd]. apply andb_true_iff in Hty as [Hno Hes].
    apply negb_true_iff in Hno. apply nodup_bytes_NoDup in Hnd.
    rewrite sv_map in Hser. apply rmap_ok in Hser as (ps & Hps & ->).
    destruct (ser_entries_info t1 t2 Hno es ps Hes Hps) as (xs & -> & F).
    assert (Hk : somes (map (fun kv => key_text t1 (fst kv)) es) = map fst xs).
    { apply (entries_keys t1 es xs (fun kv kx => de_key t1 (fst kx) = Ok (fst kv) /\ sval_eq (fst kv) (fst kv) /\
                                      has_type_b t2 (snd kv) = true /\ ser_value t2 (snd kv) = Ok (snd kx))). exact F. }
    rewrite Hk in Hnd.
    unfold table_of, somes_pairs. rewrite somes_map_Some, (tab_of_pairs_nodup xs Hnd).
    cbn [out_ok]. apply andb_true_iff. split; [apply nodup_bytes_NoDup, Hnd|].
    simpl in Ht. apply andb_true_iff in Ht as [Htk Htv]. simpl in Hu.
    clear - F Htk Htv Hu IHt2. induction F as [|[k v] [s x] es xs (K1 & _ & _ & Hv & Hx) _ IH]; [reflexivity|].
    simpl in *. apply andb_true_iff in Hu as [Hu1 Hu2]. apply andb_true_iff in Hu1 as [Hk1 Hv1].
    rewrite (key_text_utf8 t1 k s Htk Hk1 K1), (IHt2 v x Hv Htv Hv1 Hx), (IH Hu2). reflexivity.
  - (* TStruct *) intros v x Hty Ht Hu Hser. destruct v; try (simpl in Hser; discriminate).
    rewrite ht_struct in Hty. apply andb_true_iff in Hty as [Hty Hvs]. apply andb_true_iff in Hty as [Hpriv Hnd].
    apply negb_true_iff in Hpriv. rewrite sv_struct, (private_not_dt n Hpriv) in Hser.
    apply rmap_ok in Hser as (ps & Hps & ->). rewrite utf8_ty_struct in Ht.
    apply (ok_struct_fields fs H vs ps Hnd Hvs Ht Hu Hps).
  - (* TNewtype *) intros v x Hty Ht Hu Hser. destruct v; try (simpl in Hser; discriminate).
    rewrite sv_newtype in Hser. rewrite ht_newtype in Hty. apply (IHt v x Hty Ht Hu Hser).
  - (* TTupleStruct *) intros v x Hty Ht Hu Hser. destruct v; try (simpl in Hser; discriminate).
    rewrite sv_tuple_struct in Hser. rewrite ht_tuple_struct in Hty. apply rmap_ok in Hser as (xs & Hxs & ->).
    apply (ok_tuple ts H vs xs Hty Ht Hu Hxs).
  - (* TEnum *) intros v x Hty Ht Hu Hser. destruct v as [| | | | | | | | | | | | | |i p]; try (simpl in Hser; discriminate).
    rewrite ht_enum in Hty. apply andb_true_iff in Hty as [Hnd Hp].
    rewrite sv_enum in Hser.
    destruct (pick_cases (ser_variant p) (Err EBadCase) vs i) as [([vn var] & Hn & E)|[_ E]]; rewrite E in Hser; [|discriminate].
    rewrite (pick_nth _ _ _ _ _ Hn) in Hp. simpl in Hp.
    rewrite utf8_ty_enum in Ht. destruct (enum_name_utf8 vs i vn var Ht Hn) as [Hvn Hvar].
    assert (HQ : forall q y, has_type_variant_b var q = true -> utf8_variant var = true -> utf8_sv q = true ->
                             ser_payload var q = Ok y -> out_ok y = true).
    { rewrite Forall_forall in H. apply (H (vn, var)). eapply nth_error_In; exact Hn. }
    unfold ser_variant in Hser. simpl in Hser. simpl in Hu.
    destruct var as [|tv|tsv|fsv].
    + destruct p; try discriminate Hser. injection Hser as <-. exact Hvn.
    + apply rmap_ok in Hser as (y & Hy & ->). cbn [out_ok map fst snd nodup_bytes mem_bytes forallb negb andb].
      rewrite Hvn, (HQ p y Hp Hvar Hu Hy). reflexivity.
    + apply rmap_ok in Hser as (y & Hy & ->). cbn [out_ok map fst snd nodup_bytes mem_bytes forallb negb andb].
      rewrite Hvn, (HQ p y Hp Hvar Hu Hy). reflexivity.
    + apply rmap_ok in Hser as (y & Hy & ->). cbn [out_ok map fst snd nodup_bytes mem_bytes forallb negb andb].
      rewrite Hvn, (HQ p y Hp Hvar Hu Hy). reflexivity.
  - (* VUnit *) intros p x _ _ _ Hser. simpl in Hser. discriminate.
  - (* VNewtype *) intros p x Hty Ht Hu Hser. rewrite sp_newtype in Hser. rewrite htv_newtype in Hty.
    apply (IHt p x Hty Ht Hu Hser).
  - (* VTuple *) intros p x Hty Ht Hu Hser. destruct p; try (simpl in Hty; discriminate).
    rewrite sp_tuple in Hser. rewrite htv_tuple in Hty. apply rmap_ok in Hser as (xs & Hxs & ->).
    apply (ok_tuple ts H vs xs Hty Ht Hu Hxs).
  - (* VStruct *) intros p x Hty Ht Hu Hser. destruct p; try (simpl in Hty; discriminate).
    rewrite htv_struct in Hty. apply andb_true_iff in Hty as [Hnd Hvs].
    rewrite sp_struct in Hser. apply rmap_ok in Hser as (ps & Hps & ->). rewrite utf8_variant_struct in Ht.
    apply (ok_struct_fields fs H vs ps Hnd Hvs Ht Hu Hps).
Qed.

(* ---- the text of a date-time is ASCII (toml::to_string writes a root Datetime as { "$__toml_private_datetime" = "<text>" }) ---- *)
Definition AA (s : bytes) : Prop := forall b, In b s -> ascii_b b = true.
Lemma AA_app a b : AA a -> AA b -> AA (a ++ b).
Proof. intros Ha Hb x Hx. apply in_app_or in Hx as [H|H]; auto. Qed.
Lemma AA_cons x s : ascii_b x = true -> AA s -> AA (x :: s).
Proof. intros Hx Hs y [<-|Hy]; auto. Qed.
Lemma AA_nil : AA []. Proof. intros b []. Qed.
Lemma AA_rev s : AA s -> AA (rev s).
Proof. intros H b Hb. apply H. apply in_rev. exact Hb. Qed.
Lemma AA_valid s : AA s -> utf8_valid_b s = true.
Proof.
  induction s as [|b s IH]; intro H; [reflexivity|]. rewrite utf8_cons_ascii by (apply H; left; reflexivity).
  apply IH. intros c Hc. apply H. right. exact Hc.
Qed.
Lemma digit_byte_asc d : (d < 10)%N -> ascii_b (digit_byte d) = true.
Proof. intro H. apply digit_ascii, NumbersRT_Int.digit_byte_is_digit, H. Qed.
Lemma digits_rev_AA fuel : forall n, AA (digits_rev fuel n).
Proof.
  induction fuel as [|f IH]; intro n; cbn [digits_rev]; [apply AA_nil|].
  destruct (n <? 10)%N eqn:E.
  - apply AA_cons; [apply digit_byte_asc; lia|apply AA_nil].
  - apply AA_cons; [apply digit_byte_asc; apply N.mod_lt; discriminate|apply IH].
Qed.
Lemma pad0_AA w n : AA (pad0 w n).
Proof.
  unfold pad0, dec_digits. apply AA_app; [|apply AA_rev, digits_rev_AA].
  intros b Hb. apply repeat_spec in Hb. subst. reflexivity.
Qed.
Lemma trim_rev_AA s : AA s -> AA (trim_end_zeros_rev s).
Proof.
  induction s as [|b s IH]; intro H; cbn [trim_end_zeros_rev]; [exact H|].
  destruct (byte_eqb b x30); [apply IH; intros c Hc; apply H; right; exact Hc|exact H].
Qed.
Lemma display_datetime_AA d : AA (display_datetime d).
Proof.
  unfold display_datetime. repeat apply AA_app.
  - destruct (d_date d) as [x|]; [|apply AA_nil]. unfold display_date.
    repeat (first [apply pad0_AA | apply AA_app | apply AA_cons; [reflexivity|] | apply AA_nil]).
  - destruct (d_time d) as [t|]; [|apply AA_nil]. apply AA_app.
    + destruct (d_date d); [apply AA_cons; [reflexivity|apply AA_nil]|apply AA_nil].
    + unfold display_time.
      repeat (first [apply pad0_AA | apply AA_app | apply AA_cons; [reflexivity|] | apply AA_nil]).
      destruct (nanosecond t =? 0)%N; [apply AA_nil|]. apply AA_cons; [reflexivity|].
      unfold trim_end_zeros. apply AA_rev, trim_rev_AA, AA_rev, pad0_AA.
  - destruct (d_offset d) as [[|m]|]; [apply AA_cons; [reflexivity|apply AA_nil]| |apply AA_nil].
    unfold display_offset. apply AA_cons; [destruct (m <? 0)%Z; reflexivity|].
    repeat (first [apply pad0_AA | apply AA_app | apply AA_cons; [reflexivity|] | apply AA_nil]).
Qed.

(* ---- the roots of the text routes ---- *)
Lemma edit_root_out_ok t v x :
  has_type_b t v = true -> utf8_ty t = true -> utf8_sv v = true -> ser_edit_root t v = Ok x ->
  out_ok x = true /\ exists es, x = VTab es.
Proof.
  intros Hty Ht Hu H0. apply edit_root_is_table in H0 as (es & -> & H0).
  split; [apply (ser_out_ok t v _ Hty Ht Hu H0)|eauto].
Qed.

Lemma toml_root_out_ok t v x :
  has_type_b t v = true -> utf8_ty t = true -> utf8_sv v = true -> ser_toml_root t v = Ok x ->
  out_ok x = true /\ exists es, x = VTab es.
Proof.
  intros Hty Ht Hu H.
  assert (Edit : ser_edit_root t v = Ok x -> out_ok x = true /\ exists es, x = VTab es)
    by (apply edit_root_out_ok; assumption).
  destruct t; try (apply Edit; destruct v; exact H).
  - (* enum at the root *)
    destruct v as [| | | | | | | | | | | | | |i p]; try (apply Edit; exact H).
    simpl in H.
    match type of H with pick ?f ?d vs i = _ => destruct (pick_cases f d vs i) as [([vn var] & Hn & E)|[_ E]]; rewrite E in H end;
      [|discriminate].
    simpl in H. destruct var; try discriminate H.
    + apply Edit. exact H.
    + apply Edit. exact H.
    + destruct p; try discriminate H. destruct (zipM ser_value ts vs0); discriminate H.
Qed.

Theorem ser_text_out_ok r t v x :
  has_type v t -> utf8_ty t = true -> utf8_sv v = true -> ser_text r t v = Ok x ->
  out_ok x = true /\ exists es, x = VTab es.
Proof.
  intros Hty Ht Hu H. destruct r; simpl in H;
    first [apply (edit_root_out_ok t v x Hty Ht Hu H) | apply (toml_root_out_ok t v x Hty Ht Hu H)].
Qed.

(* ---- nesting: the value tree is never deeper than the type (every struct / map / sequence / tuple / variant with a
        payload is one level; Option and newtype structs are none) ---- *)
Lemma tab_insert_in k x es k' x' : In (k', x') (tab_insert k x es) -> In (k', x') es \/ x' = x.
Proof.
  induction es as [|[k0 x0] es IH]; simpl; intro H.
  - destruct H as [H|[]]. injection H as _ <-. right; reflexivity.
  - destruct (bytes_eqb k0 k).
    + destruct H as [H|H]; [injection H as _ <-; right; reflexivity|left; right; exact H].
    + destruct H as [H|H]; [left; left; exact H|]. destruct (IH H) as [G|G]; [left; right; exact G|right; exact G].
Qed.

Lemma tab_of_pairs_in ps k x : In (k, x) (tab_of_pairs ps) -> exists k', In (k', x) ps.
Proof.
  unfold tab_of_pairs.
  assert (G : forall acc, In (k, x) (fold_left (fun acc p => tab_insert (fst p) (snd p) acc) ps acc) ->
                          (exists k', In (k', x) ps) \/ In (k, x) acc).
  { induction ps as [|[k0 x0] ps IH]; intros acc H; simpl in H; [right; exact H|].
    destruct (IH _ H) as [(k' & Hk)|Hin]; [left; exists k'; right; exact Hk|].
    destruct (tab_insert_in _ _ _ _ _ Hin) as [Ha| ->]; [right; exact Ha|left; exists k0; left; reflexivity]. }
  intro H. destruct (G [] H) as [E|[]]. exact E.
Qed.

Lemma tab_depth_bound (es : list (bytes * tomlval)) B :
  (forall k x, In (k, x) es -> tv_depth x <= B) -> tv_depth (VTab es) <= S B.
Proof.
  intro H. cbn [tv_depth]. apply le_n_S. induction es as [|[k x] es IH]; [cbn; lia|]. cbn [fold_right snd].
  pose proof (H k x (or_introl eq_refl)). specialize (IH (fun k' x' Hin => H k' x' (or_intror Hin))). lia.
Qed.
Lemma arr_depth_bound (xs : list tomlval) B :
  (forall x, In x xs -> tv_depth x <= B) -> tv_depth (VArr xs) <= S B.
Proof.
  intro H. cbn [tv_depth]. apply le_n_S. induction xs as [|x xs IH]; [cbn; lia|]. cbn [fold_right].
  pose proof (H x (or_introl eq_refl)). specialize (IH (fun x' Hin => H x' (or_intror Hin))). lia.
Qed.
Lemma fold_max_ge {A} (f : A -> nat) l a : In a l -> f a <= fold_right (fun y acc => Nat.max (f y) acc) 0 l.
Proof. induction l as [|y l IH]; [contradiction|]. cbn [fold_right]. intros [<- | H]; [lia|]. specialize (IH H). lia. Qed.

Definition DP (t : ty) : Prop := forall v x, ser_value t v = Ok x -> tv_depth x <= ty_depth t.
Definition DPV (var : variant) : Prop := forall p y, ser_payload var p = Ok y -> S (tv_depth y) <= variant_depth var.

Lemma dp_tuple ts : Forall DP ts -> forall vs xs, zipM ser_value ts vs = Ok xs ->
  forall x, In x xs -> tv_depth x <= fold_right (fun t' acc => Nat.max (ty_depth t') acc) 0 ts.
Proof.
  induction 1 as [|t ts IHt _ IH]; intros [|v vs] xs H x Hin; simpl in H; try discriminate.
  - injection H as <-. contradiction.
  - apply rbind_ok in H as (x0 & Hx0 & H). apply rbind_ok in H as (xs' & Hxs & H). injection H as <-.
    cbn [fold_right]. destruct Hin as [<-|Hin]; [pose proof (IHt v x0 Hx0); lia|]. pose proof (IH vs xs' Hxs x Hin). lia.
Qed.

Lemma dp_fields fs : Forall (fun ft => DP (snd ft)) fs -> forall vs ps, ser_fields fs vs = Ok ps ->
  forall k x, In (k, x) (somes ps) -> tv_depth x <= fold_right (fun ft acc => Nat.max (ty_depth (snd ft)) acc) 0 fs.
Proof.
  unfold ser_fields.
  induction 1 as [|[f t] fs IHt _ IH]; intros [|v vs] ps H k x Hin; simpl in H; try discriminate.
  - injection H as <-. contradiction.
  - apply rbind_ok in H as (p & Hp & H). apply rbind_ok in H as (ps' & Hps & H). injection H as <-.
    cbn [fold_right snd]. apply rmap_ok in Hp as (ox & Hox & ->).
    destruct (ser_map_value_cases ser_value t v) as [(t' & -> & -> & E)|[_ E]]; rewrite E in Hox.
    + injection Hox as <-. simpl in Hin. pose proof (IH vs ps' Hps k x Hin). lia.
    + apply rmap_ok in Hox as (x0 & Hx0 & ->). simpl in Hin. destruct Hin as [Hin|Hin].
      * injection Hin as _ <-. pose proof (IHt v x0 Hx0). simpl in *. lia.
      * pose proof (IH vs ps' Hps k x Hin). lia.
Qed.

Lemma dp_table fs vs ps : Forall (fun ft => DP (snd ft)) fs -> ser_fields fs vs = Ok ps ->
  tv_depth (table_of ps) <= S (fold_right (fun ft acc => Nat.max (ty_depth (snd ft)) acc) 0 fs).
Proof.
  intros IH H. unfold table_of, somes_pairs. apply tab_depth_bound. intros k x Hin.
  destruct (tab_of_pairs_in _ _ _ Hin) as (k' & Hk'). apply (dp_fields fs IH vs ps H k' x Hk').
Qed.

Theorem ser_depth_le : forall t, DP t.
Proof.
  induction t using ty_ind2 with (Q := DPV); unfold DP, DPV in *.
  - intros v x H. destruct v; simpl in H; try discriminate. injection H as <-. cbn. lia.
  - intros v x H. destruct v; simpl in H; try discriminate. unfold ser_int_value in H. destruct (ser_int w z); [|discriminate].
    injection H as <-. cbn. lia.
  - intros v x H. destruct w; destruct v; simpl in H; try discriminate; injection H as <-; cbn; lia.
  - intros v x H. destruct v; simpl in H; try discriminate. injection H as <-. cbn. lia.
  - intros v x H. destruct v; simpl in H; try discriminate. injection H as <-. cbn. lia.
  - intros v x H. destruct v; simpl in H; try discriminate. unfold ser_datetime in H. apply rmap_ok in H as (d' & _ & ->). cbn. lia.
  - intros v x H. destruct v; simpl in H; discriminate.
  - intros v x H. destruct v; simpl in H; discriminate.
  - intros v x H. destruct v; try (simpl in H; discriminate). rewrite sv_opt_some in H. apply (IHt v x H).
  - intros v x H. destruct v; try (simpl in H; discriminate). rewrite sv_seq in H. apply rmap_ok in H as (xs & Hxs & ->).
    cbn [ty_depth]. apply arr_depth_bound. intros x Hx. apply mapM_ok in Hxs.
    clear - Hxs Hx IHt. induction Hxs as [|v x0 vs xs Hv _ IH]; [contradiction|]. destruct Hx as [<-|Hx]; [apply (IHt v x0 Hv)|apply IH, Hx].
  - intros v x H0. destruct v; try (simpl in H0; discriminate). rewrite sv_tuple in H0. apply rmap_ok in H0 as (xs & Hxs & ->).
    cbn [ty_depth]. apply arr_depth_bound. apply (dp_tuple ts H vs xs Hxs).
  - intros v x H. destruct v; try (simpl in H; discriminate). rewrite sv_map in H. apply rmap_ok in H as (ps & Hps & ->).
    cbn [ty_depth]. unfold table_of, somes_pairs. apply tab_depth_bound. intros k x Hin.
    destruct (tab_of_pairs_in _ _ _ Hin) as (k' & Hk'). apply somes_In in Hk'.
    unfold ser_entries in Hps. apply mapM_ok in Hps.
    clear - Hps Hk' IHt2. induction Hps as [|kv p es ps Hp _ IH]; [contradiction|]. destruct Hk' as [->|Hk']; [|apply IH, Hk'].
    apply rbind_ok in Hp as (s & _ & Hp). apply rmap_ok in Hp as (ox & Hox & E).
    destruct ox as [x0|]; [|discriminate]. simpl in E. injection E as _ <-.
    destruct (ser_map_value_cases ser_value t2 (snd kv)) as [(t' & -> & Hv & E2)|[_ E2]]; rewrite E2 in Hox; [discriminate|].
    apply rmap_ok in Hox as (x1 & Hx1 & E3). injection E3 as <-. apply (IHt2 _ _ Hx1).
  - intros v x H0. destruct v; try (simpl in H0; discriminate). rewrite sv_struct in H0.
    destruct (bytes_eqb n DT_NAME).
    + (* a struct the program named like the date-time tunnel: a date-time leaf or an error *)
      assert (G : forall fs vs acc x, ser_dt_struct fs vs acc = Ok x -> tv_depth x = 0).
      { clear. induction fs as [|[f t] fs IH]; intros [|v vs] acc x H; simpl in H; try discriminate.
        - destruct acc; [injection H as <-; reflexivity|discriminate].
        - destruct (bytes_eqb f DT_FIELD); [|apply (IH _ _ _ H)].
          apply rbind_ok in H as (d & _ & H). apply (IH _ _ _ H). }
      rewrite (G _ _ _ _ H0). lia.
    + apply rmap_ok in H0 as (ps & Hps & ->). cbn [ty_depth]. apply (dp_table fs vs ps H Hps).
  - intros v x H. destruct v; try (simpl in H; discriminate). rewrite sv_newtype in H. apply (IHt v x H).
  - intros v x H0. destruct v; try (simpl in H0; discriminate). rewrite sv_tuple_struct in H0. apply rmap_ok in H0 as (xs & Hxs & ->).
    cbn [ty_depth]. apply arr_depth_bound. apply (dp_tuple ts H vs xs Hxs).
  - intros v x H0. destruct v as [| | | | | | | | | | | | | |i p]; try (simpl in H0; discriminate). rewrite sv_enum in H0.
    destruct (pick_cases (ser_variant p) (Err EBadCase) vs i) as [([vn var] & Hn & E)|[_ E]]; rewrite E in H0; [|discriminate].
    assert (HQ : forall q y, ser_payload var q = Ok y -> S (tv_depth y) <= variant_depth var).
    { rewrite Forall_forall in H. apply (H (vn, var)). eapply nth_error_In; exact Hn. }
    assert (Hmax : variant_depth var <= ty_depth (TEnum n vs)).
    { cbn [ty_depth]. apply (fold_max_ge (fun nv : bytes * variant => variant_depth (snd nv)) vs (vn, var)). eapply nth_error_In; exact Hn. }
    unfold ser_variant in H0. simpl in H0. destruct var.
    + destruct p; try discriminate H0. injection H0 as <-. cbn [tv_depth]. lia.
    + apply rmap_ok in H0 as (y & Hy & ->). pose proof (HQ p y Hy). cbn [tv_depth fold_right snd]. lia.
    + apply rmap_ok in H0 as (y & Hy & ->). pose proof (HQ p y Hy). cbn [tv_depth fold_right snd]. lia.
    + apply rmap_ok in H0 as (y & Hy & ->). pose proof (HQ p y Hy). cbn [tv_depth fold_right snd]. lia.
  - intros p y H. simpl in H. discriminate.
  - intros p y H. rewrite sp_newtype in H. cbn [variant_depth]. apply le_n_S. apply (IHt p y H).
  - intros p y H0. destruct p; try (simpl in H0; discriminate). rewrite sp_tuple in H0. apply rmap_ok in H0 as (xs & Hxs & ->).
    cbn [variant_depth]. apply le_n_S. apply arr_depth_bound. apply (dp_tuple ts H vs xs Hxs).
  - intros p y H0. destruct p; try (simpl in H0; discriminate). rewrite sp_struct in H0. apply rmap_ok in H0 as (ps & Hps & ->).
    cbn [variant_depth]. apply le_n_S. apply (dp_table fs vs ps H Hps).
Qed.

(* the roots *)
Lemma ty_depth_struct n fs : ty_depth (TStruct n fs) = S (fold_right (fun ft acc => Nat.max (ty_depth (snd ft)) acc) 0 fs).
Proof. reflexivity. Qed.

Lemma toml_root_depth t v x : ser_toml_root t v = Ok x -> tv_depth x <= Nat.max 1 (ty_depth t).
Proof.
  intro H.
  assert (Edit : ser_edit_root t v = Ok x -> tv_depth x <= Nat.max 1 (ty_depth t)).
  { intro H0. apply edit_root_is_table in H0 as (es & -> & H0). pose proof (ser_depth_le t v _ H0). lia. }
  destruct t; try (apply Edit; destruct v; exact H).
  - destruct v as [| | | | | | | | | | | | | |i p]; try (apply Edit; exact H).
    simpl in H.
    match type of H with pick ?f ?d vs i = _ => destruct (pick_cases f d vs i) as [([vn var] & Hn & E)|[_ E]]; rewrite E in H end;
      [|discriminate].
    simpl in H. destruct var; try discriminate H.
    + apply Edit. exact H.
    + apply Edit. exact H.
    + destruct p; try discriminate H. destruct (zipM ser_value ts vs0); discriminate H.
Qed.

Theorem ser_text_depth r t v x : ser_text r t v = Ok x -> tv_depth x <= Nat.max 1 (ty_depth t).
Proof.
  intro H. destruct r; simpl in H; try (apply (toml_root_depth t v x H)).
  all: apply edit_root_is_table in H as (es & -> & H); pose proof (ser_depth_le t v _ H); lia.
Qed.
