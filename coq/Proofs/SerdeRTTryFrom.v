(* Proofs/SerdeRTTryFrom.v — C07, toml::Value::try_from / toml::Table::try_from (Model/Ser.v tv_ser, tv_ser_table):
   the former witnesses of the REPAIRED defect C07-tryfrom-nested-none-dropped, kept as regression statements.
   `SerializeMap::serialize_value` (crates/toml/src/value.rs) swallowed ANY UnsupportedNone coming out of a field's
   value, not only a direct None, so that V { v: Some(vec![Some(1), None]) } became the empty table and read back as
   V { v: None }.  Now only a None handed DIRECTLY to the field's serializer leaves the entry out, as in toml_edit. *)
From TV Require Import Base.Prelude Model.Datetime Model.SerNum Spec.SerdeData Model.Ser Model.De
  Proofs.SerdeRTBase Extract.Show.
Require Import String.

(* struct V { v: Option<Vec<Option<i32>>> }    V { v: Some(vec![Some(1), None]) } *)
Definition s3_ty : ty := TStruct (str "V") [(str "v", TOpt (TSeq (TOpt (TInt TI32))))].
Definition s3_val : sval := SRec [SSome (SSeq [SSome (SInt 1); SNone])].
(* struct V { a: i32, v: Vec<Option<i32>> }    V { a: 1, v: vec![None] } *)
Definition s3b_ty : ty := TStruct (str "V") [(str "a", TInt TI32); (str "v", TSeq (TOpt (TInt TI32)))].
Definition s3b_val : sval := SRec [SInt 1; SSeq [SNone]].

(* both are refused by Value::try_from and Table::try_from, with the error every other route gives *)
Theorem tryfrom_nested_none_refused :
  has_type s3_val s3_ty /\ has_type s3b_val s3b_ty
  /\ tv_ser s3_ty s3_val = Err EUnsupportedNone /\ tv_ser_table s3_ty s3_val = Err EUnsupportedNone
  /\ ser_value s3_ty s3_val = Err EUnsupportedNone
  /\ tv_ser s3b_ty s3b_val = Err EUnsupportedNone /\ tv_ser_table s3b_ty s3b_val = Err EUnsupportedNone
  /\ ser_value s3b_ty s3b_val = Err EUnsupportedNone.
Proof. repeat split; vm_compute; reflexivity. Qed.

(* the shapes a None can hide in below a field:
   struct N { a: Option<Option<i32>>, b: W(Option<i32>), c: (Option<i32>, i32), d: E, e: Option<i32>, m: BTreeMap<String, Vec<Option<i32>>> }
   enum E { P(Option<i32>), Q { x: Option<i32> } } *)
Definition nn_i : ty := TOpt (TInt TI32).
Definition nn_e : ty := TEnum (str "E") [(str "P", VNewtype nn_i); (str "Q", VStruct [(str "x", nn_i)])].
Definition nn_ty : ty :=
  TStruct (str "N") [(str "a", TOpt nn_i); (str "b", TNewtype (str "W") nn_i); (str "c", TTuple [nn_i; TInt TI32]);
                     (str "d", nn_e); (str "e", nn_i); (str "m", TMap TStr (TSeq nn_i))].
Definition nn_val (a b c d e m : sval) : sval := SRec [a; b; c; d; e; m].
Definition nn_1 : sval := SSome (SInt 1).
Definition nn_c : sval := SSeq [nn_1; SInt 2].
Definition nn_d : sval := SVariant 0 nn_1.
Definition nn_m (x : sval) : sval := SMap [(SStr (str "k"), SSeq [x])].

(* a None handed directly to a field (a, e, and x of the struct variant Q) leaves the entry out ... *)
Theorem tryfrom_direct_none_skipped :
  let v := nn_val SNone (SNewtype nn_1) nn_c (SVariant 1 (SRec [SNone])) SNone (nn_m nn_1) in
  has_type v nn_ty
  /\ tv_ser nn_ty v = Ok (VTab [(str "b", VInt 1); (str "c", VArr [VInt 1; VInt 2]); (str "d", VTab [(str "Q", VTab [])]);
                                (str "m", VTab [(str "k", VArr [VInt 1])])])
  /\ ser_value nn_ty v = tv_ser nn_ty v /\ tv_ser_table nn_ty v = tv_ser nn_ty v.
Proof. repeat split; vm_compute; reflexivity. Qed.

(* ... and a None anywhere deeper is an error, as on the document routes: Some(None), a newtype around None, None in a
   tuple, in a newtype variant's payload, in a sequence inside a map *)
Theorem tryfrom_nested_none_shapes :
  Forall (fun v => has_type v nn_ty /\ tv_ser nn_ty v = Err EUnsupportedNone /\ tv_ser_table nn_ty v = Err EUnsupportedNone
                   /\ ser_value nn_ty v = Err EUnsupportedNone)
    [nn_val (SSome SNone) (SNewtype nn_1) nn_c nn_d nn_1 (nn_m nn_1);
     nn_val (SSome nn_1) (SNewtype SNone) nn_c nn_d nn_1 (nn_m nn_1);
     nn_val (SSome nn_1) (SNewtype nn_1) (SSeq [SNone; SInt 2]) nn_d nn_1 (nn_m nn_1);
     nn_val (SSome nn_1) (SNewtype nn_1) nn_c (SVariant 0 SNone) nn_1 (nn_m nn_1);
     nn_val (SSome nn_1) (SNewtype nn_1) nn_c nn_d nn_1 (nn_m SNone)].
Proof. repeat (apply Forall_cons; [repeat split; vm_compute; reflexivity|]). apply Forall_nil. Qed.
