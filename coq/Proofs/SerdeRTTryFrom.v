(* Proofs/SerdeRTTryFrom.v — C07, toml::Value::try_from / toml::Table::try_from (Model/Ser.v tv_ser,
   tv_ser_table) read back by Value::try_into (Model/De.v tv_de).

   FINDING (known class C07-tryfrom-nested-none-dropped): `SerializeMap::serialize_value`
   (crates/toml/src/value.rs) swallows ANY UnsupportedNone coming out of a field's value, not only a
   direct None, so the round-trip statement is FALSE for this family: tryfrom_refuted. *)
From TV Require Import Base.Prelude Model.Datetime Model.SerNum Spec.SerdeData Model.Ser Model.De
  Proofs.SerdeRTBase Extract.Show.
Require Import String.

(* struct V { v: Option<Vec<Option<i32>>> }    V { v: Some(vec![Some(1), None]) } *)
Definition s3_ty : ty := TStruct (str "V") [(str "v", TOpt (TSeq (TOpt (TInt TI32))))].
Definition s3_val : sval := SRec [SSome (SSeq [SSome (SInt 1); SNone])].
(* struct V { a: i32, v: Vec<Option<i32>> }    V { a: 1, v: vec![None] } *)
Definition s3b_ty : ty := TStruct (str "V") [(str "a", TInt TI32); (str "v", TSeq (TOpt (TInt TI32)))].
Definition s3b_val : sval := SRec [SInt 1; SSeq [SNone]].

(* the value is accepted, the field is silently dropped, and what reads back is a different value
   (every other route refuses the same value with UnsupportedNone) *)
Theorem tryfrom_refuted :
  exists t v out,
    has_type v t /\ tv_ser t v = Ok out /\ tv_ser_table t v = Ok out
    /\ ser_value t v = Err EUnsupportedNone
    /\ exists v', tv_de t out = Ok v' /\ ~ sval_eq v v'.
Proof.
  exists s3_ty, s3_val, (VTab []). repeat split; try (vm_compute; reflexivity).
  exists (SRec [SNone]). split; [vm_compute; reflexivity|].
  intro H. inversion H as [| | | | | | | | | | | |xs ys F| |]; subst.
  inversion F as [|a b l l' Hab _]; subst. inversion Hab.
Qed.

(* ... or does not read back at all *)
Theorem tryfrom_refuted_undecodable :
  exists t v out,
    has_type v t /\ tv_ser t v = Ok out /\ ser_value t v = Err EUnsupportedNone /\ tv_de t out = Err EDe.
Proof. exists s3b_ty, s3b_val, (VTab [(str "a", VInt 1)]). repeat split; vm_compute; reflexivity. Qed.
