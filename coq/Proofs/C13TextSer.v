(* Proofs/C13TextSer.v — C13 at the level of text, (b): on the text a serializer writes every route returns the value. *)
From TV Require Import Base.Prelude Base.Utf8 Base.Winnow Gen.Consts.
From TV Require Import Model.Datetime Model.Numbers Model.Tree Model.Document Model.Encode Model.Write Model.Build.
From TV Require Import Spec.SerdeData Model.Ser Model.De Model.SerdeRoutes Model.SerFmt Model.SerDoc.
From TV Require Import Proofs.SerDocDe Proofs.C13TextModel Proofs.C13Text Proofs.C13TextTwin.

Theorem serialized_value_first fd back : float_oracle fd back -> forall r0 ty v out,
  has_type v ty -> utf8_ty ty = true -> utf8_sv v = true ->
  ser_text r0 ty v = SerdeData.Ok out -> tv_depth out <= LIMIT -> tunnel_free out = true ->
  exists text v2,
    ser_text_bytes fd r0 ty v = Some text /\ sval_eq v v2
    /\ run_route back Ttval ty text = TOk (OVal v2) /\ run_route back Tttab ty text = TOk (OVal v2).
Proof.
  intros Ho r0 ty v out Hty Ht Hu Hser Hd Hf.
  destruct (serialized_direct fd back Ho r0 ty v out Hty Ht Hu Hser Hd) as (text & d & v' & Htext & Hp & _ & He & _).
  destruct (text_route_value_back r0 ty v out _ Hty Hser Hf He) as (y' & v2 & C1 & C2 & D & Ev).
  exists text, v2. split; [exact Htext|]. split; [exact Ev|]. cbn [run_route].
  unfold route_tval, route_ttab, value_from_str, table_from_str, toml_from_str, edit_deserializer_parse, im_parse. rewrite Hp. cbn [deserialize].
  rewrite C1, C2. cbn [rmap lift]. unfold try_into. rewrite D. split; reflexivity.
Qed.
