(* Proofs/CanonicalOrder.v — the value read back from the canonical document:
     * it is the written value with every table's entries regrouped (`canon`), whatever the layout;
     * sorting every map gives the same value as sorting the written one (insensitive to map order);
     * writing it again gives the same document (one-step fixed point);
     * no section of a table follows one of its sub-sections (values before tables). *)
From TV Require Import Base.Prelude Spec.Ordered Model.TomlValue Spec.Canonical.
From TV Require Import Proofs.ContainersOrder Proofs.CanonicalBase Proofs.CanonicalEmit Proofs.CanonicalRead.
From Coq Require Import Permutation.

(* ------------------------------------------------------------------------------------------ *)
(** * freeze *)

Definition freeze_map (m : list (bytes * rnode)) : list (bytes * tv) := map (fun kv => (fst kv, freeze (snd kv))) m.

Lemma freeze_go m :
  (fix go (m : list (bytes * rnode)) : list (bytes * tv) :=
     match m with [] => [] | (k, x) :: r => (k, freeze x) :: go r end) m = freeze_map m.
Proof. induction m as [|[k x] r IH]; [reflexivity|]. cbn [freeze_map map fst snd]. rewrite IH. reflexivity. Qed.

Lemma freeze_tab e m : freeze (RTab e m) = TTab (freeze_map m).
Proof. cbn [freeze]. rewrite freeze_go. reflexivity. Qed.

Lemma freeze_aot done cur : freeze (RAot done cur) = TArr (map (fun e => TTab (freeze_map e)) (done ++ [cur])).
Proof.
  cbn [freeze]. rewrite map_app. cbn [map]. rewrite freeze_go. f_equal. f_equal.
  induction done as [|e q IH]; [reflexivity|]. cbn [map]. rewrite freeze_go, IH. reflexivity.
Qed.

Lemma read_back_eq d : read_back d = optmap freeze_map (place_all [] d).
Proof. unfold read_back. destruct (place_all [] d) as [m|]; [|reflexivity]. rewrite freeze_tab. reflexivity. Qed.

(* ------------------------------------------------------------------------------------------ *)
(** * the value that is read back *)

(* a table in a document position (root, sub-table, element of an array of tables) *)
Definition cdoc (ml tn : bool) (v : tv) : tv := TTab (freeze_map (expect ml tn v)).
(* an entry of such a table *)
Definition centry (ml tn : bool) (x : tv) : tv :=
  match x with
  | TTab _ => cdoc ml tn x
  | TArr l => if is_aot x then TArr (map (cdoc ml tn) l) else value_of (inline_of ml tn x)
  | TLeaf t => TLeaf t
  end.
Definition ckv (ml tn : bool) (kv : bytes * tv) : bytes * tv := (fst kv, centry ml tn (snd kv)).

Lemma centry_line ml tn x : is_line x = true -> centry ml tn x = value_of (inline_of ml tn x).
Proof.
  unfold is_line. destruct x as [t|l|m]; cbn [is_table negb andb]; try discriminate; intro H; [reflexivity|].
  cbn [centry]. apply negb_true_iff in H. rewrite H. reflexivity.
Qed.

Lemma freeze_sub ml tn x : is_aot x = true \/ is_table x = true -> freeze (sub_rnode ml tn x) = centry ml tn x.
Proof.
  intros [A|T].
  - destruct x as [t|l|m]; try discriminate. cbn [sub_rnode centry]. rewrite A. unfold aot_of. rewrite freeze_aot.
    assert (NE : map (expect ml tn) l <> []) by (destruct l; [discriminate|discriminate]).
    rewrite <- (app_removelast_last [] NE). rewrite map_map. reflexivity.
  - destruct x as [t|l|m]; try discriminate. cbn [sub_rnode centry]. rewrite freeze_tab. reflexivity.
Qed.

Lemma is_plain_line x : is_plain x = true -> is_line x = true.
Proof. unfold is_plain. intro H. apply andb_true_iff in H as [H _]. exact H. Qed.
Lemma is_mixed_line x : is_mixed x = true -> is_line x = true.
Proof.
  unfold is_mixed, is_line. intro H. apply andb_true_iff in H as [H1 H2]. rewrite H2.
  destruct x; try discriminate. reflexivity.
Qed.

Lemma lines_e_line three m kv : In kv (lines_e three m) -> is_line (snd kv) = true.
Proof.
  unfold lines_e. destruct three.
  - rewrite in_app_iff. intros [H|H]; apply filter_In in H as [_ H]; [apply is_plain_line|apply is_mixed_line]; exact H.
  - intro H. apply filter_In in H as [_ H]. exact H.
Qed.

Lemma freeze_expect_root ml three tn m : freeze_map (expect_root ml three tn m) = map (ckv ml tn) (doc_order three m).
Proof.
  unfold expect_root, freeze_map, doc_order. rewrite !map_app, !map_map. cbn [fst snd]. f_equal.
  - apply map_ext_in. intros [k x] H. unfold ckv. cbn [fst snd]. f_equal. symmetry. apply centry_line.
    exact (lines_e_line three m (k, x) H).
  - apply map_ext_in. intros [k x] H. unfold ckv. cbn [fst snd]. f_equal. apply freeze_sub.
    exact (proj2 (subs_e_cases three m (k, x) H)).
Qed.

Lemma freeze_expect ml tn m : freeze_map (expect ml tn (TTab m)) = map (ckv ml tn) (doc_order tn m).
Proof. rewrite expect_tab. apply (freeze_expect_root ml tn tn m). Qed.

Lemma cdoc_tab ml tn m : cdoc ml tn (TTab m) = TTab (map (ckv ml tn) (doc_order tn m)).
Proof. unfold cdoc. rewrite freeze_expect. reflexivity. Qed.

(* the decoded root table, entries in order of first appearance *)
Definition canon_root (ml three tn : bool) (m : list (bytes * tv)) : list (bytes * tv) :=
  map (ckv ml tn) (doc_order three m).

Theorem read_back_canonical ml three tn m :
  wf_tv (TTab m) = true -> read_back (sections_of ml three tn m) = Some (canon_root ml three tn m).
Proof.
  intro W. rewrite read_back_eq, (place_all_canonical ml three tn m W). cbn [optmap]. rewrite freeze_expect_root. reflexivity.
Qed.

(* ------------------------------------------------------------------------------------------ *)
(** * sorting a map with distinct keys does not depend on the order of its entries *)

Definition kle (a b : bytes * tv) : bool := key_leb (fst a) (fst b).

Lemma sort_entries_eq m : sort_entries m = stable_sort kle m.
Proof. reflexivity. Qed.

Lemma sort_tv_tab m : sort_tv (TTab m) = TTab (sort_entries (map (fun kv => (fst kv, sort_tv (snd kv))) m)).
Proof.
  cbn [sort_tv]. do 2 f_equal. induction m as [|[k x] r IH]; [reflexivity|]. cbn [map fst snd]. rewrite IH. reflexivity.
Qed.

Lemma key_leb_antisym a b : key_leb a b = true -> key_leb b a = true -> a = b.
Proof.
  unfold key_leb. rewrite (key_compare_antisym a b). destruct (key_compare a b) eqn:E; cbn; try discriminate.
  intros _ _. apply key_compare_eq. exact E.
Qed.

Lemma nodup_key_inj {A} (l : list (bytes * A)) a b :
  NoDup (map fst l) -> In a l -> In b l -> fst a = fst b -> a = b.
Proof.
  induction l as [|c r IH]; intros ND Ha Hb E; [destruct Ha|].
  cbn [map] in ND. inversion ND as [|? ? Hc ND']; subst.
  destruct Ha as [<-|Ha]; destruct Hb as [<-|Hb].
  - reflexivity.
  - exfalso. apply Hc. rewrite E. apply in_map. exact Hb.
  - exfalso. apply Hc. rewrite <- E. apply in_map. exact Ha.
  - apply IH; assumption.
Qed.

Lemma sorted_perm_eq (l : list (bytes * tv)) : forall l',
  sorted_by (fun a b => kle a b = true) l -> sorted_by (fun a b => kle a b = true) l' ->
  Permutation l l' -> NoDup (map fst l) -> l = l'.
Proof.
  induction l as [|a r IH]; intros l' S S' P ND.
  - apply Permutation_nil in P. congruence.
  - destruct l' as [|b r']; [apply Permutation_sym, Permutation_nil in P; discriminate|].
    destruct S as [Sa Sr]. destruct S' as [Sb Sr'].
    assert (E : a = b).
    { assert (Ha : In a (b :: r')) by (eapply Permutation_in; [exact P|left; reflexivity]).
      assert (Hb : In b (a :: r)) by (eapply Permutation_in; [apply Permutation_sym; exact P|left; reflexivity]).
      destruct Ha as [<-|Ha]; [reflexivity|]. destruct Hb as [->|Hb]; [reflexivity|].
      rewrite Forall_forall in Sa, Sb. specialize (Sa b Hb). specialize (Sb a Ha). unfold kle in Sa, Sb.
      apply (nodup_key_inj (a :: r) a b ND); [left; reflexivity|right; exact Hb|].
      apply key_leb_antisym; assumption. }
    subst b. f_equal. apply IH; [exact Sr|exact Sr'| |].
    + eapply Permutation_cons_inv. exact P.
    + cbn [map] in ND. inversion ND; assumption.
Qed.

Lemma kle_trans a b c : kle a b = true -> kle b c = true -> kle a c = true.
Proof. apply key_leb_trans. Qed.
Lemma kle_total a b : kle a b = false -> kle b a = true.
Proof. apply key_leb_total. Qed.

Lemma sort_entries_perm l l' : Permutation l l' -> NoDup (map fst l) -> sort_entries l = sort_entries l'.
Proof.
  intros P ND. apply sorted_perm_eq.
  - apply (stable_sort_sorted kle kle_trans kle_total).
  - apply (stable_sort_sorted kle kle_trans kle_total).
  - rewrite (stable_sort_perm kle l), (stable_sort_perm kle l'). exact P.
  - eapply Permutation_NoDup; [|exact ND]. apply Permutation_map. symmetry. apply (stable_sort_perm kle).
Qed.

(* ------------------------------------------------------------------------------------------ *)
(** * the value read back equals the written value up to the order of map entries *)

Lemma value_of_inline_tab ml tn m :
  value_of (inline_of ml tn (TTab m)) = TTab (map (fun kv => (fst kv, value_of (inline_of ml tn (snd kv)))) (ordn tn m)).
Proof. rewrite inline_of_tab, value_of_inl, map_map. reflexivity. Qed.

Lemma map_fst_map {A B} (g : A -> B) (l : list (bytes * A)) : map fst (map (fun kv => (fst kv, g (snd kv))) l) = map fst l.
Proof. rewrite map_map. reflexivity. Qed.

Lemma sort_inline ml tn v : wf_tv v = true -> sort_tv (value_of (inline_of ml tn v)) = sort_tv v.
Proof.
  induction v as [t|l IH|m IH] using tv_ind'; intro W.
  - reflexivity.
  - cbn [inline_of value_of sort_tv]. f_equal. rewrite !map_map. apply map_ext_in. intros e He.
    rewrite Forall_forall in IH. apply IH; [exact He|]. apply wf_arr in W. rewrite Forall_forall in W. apply W. exact He.
  - rewrite value_of_inline_tab, !sort_tv_tab. f_equal. rewrite map_map. cbn [fst snd].
    apply wf_tab in W as [ND W].
    rewrite (map_ext_in _ (fun kv => (fst kv, sort_tv (snd kv))) (ordn tn m)).
    + apply sort_entries_perm.
      * apply Permutation_map. apply ordn_perm.
      * rewrite map_fst_map. eapply Permutation_NoDup; [|exact ND]. apply Permutation_map. symmetry. apply ordn_perm.
    + intros kv Hin. f_equal.
      assert (Hm : In kv m) by (eapply Permutation_in; [apply ordn_perm|exact Hin]).
      rewrite Forall_forall in IH, W. apply IH; [exact Hm|]. apply W. exact Hm.
Qed.

Lemma sort_doc_level ml tn m :
  NoDup (map fst m) -> (forall kv, In kv m -> sort_tv (centry ml tn (snd kv)) = sort_tv (snd kv)) ->
  forall m2, Permutation m2 m -> sort_tv (TTab (map (ckv ml tn) m2)) = sort_tv (TTab m).
Proof.
  intros ND H m2 P. rewrite !sort_tv_tab. f_equal. rewrite map_map. unfold ckv. cbn [fst snd].
  rewrite (map_ext_in _ (fun kv => (fst kv, sort_tv (snd kv))) m2).
  - apply sort_entries_perm.
    + apply Permutation_map. exact P.
    + rewrite map_fst_map. eapply Permutation_NoDup; [|exact ND]. apply Permutation_map. symmetry. exact P.
  - intros kv Hin. f_equal. apply H. eapply Permutation_in; [exact P|exact Hin].
Qed.

Lemma sort_cdoc ml tn v : wf_tv v = true -> is_table v = true -> sort_tv (cdoc ml tn v) = sort_tv v.
Proof.
  induction v as [t|l IH|m IH] using tv_ind2; intros W T; try discriminate.
  rewrite cdoc_tab. apply wf_tab in W as [ND W]. apply sort_doc_level; [exact ND| |apply doc_order_perm].
  intros [k x] Hin. cbn [snd]. rewrite Forall_forall in IH, W. destruct (IH _ Hin) as [Hx Hl]. specialize (W _ Hin).
  cbn [snd] in *. destruct x as [t|l|m'].
  - reflexivity.
  - cbn [centry]. destruct (is_aot (TArr l)) eqn:A; [|apply sort_inline; exact W].
    cbn [sort_tv]. f_equal. rewrite map_map. apply map_ext_in. intros e He.
    specialize (Hl l eq_refl). rewrite Forall_forall in Hl. apply wf_arr in W. rewrite Forall_forall in W.
    apply Hl; [exact He|apply W; exact He|].
    assert (Tl : forallb is_table l = true) by (destruct l; [discriminate|exact A]).
    rewrite forallb_forall in Tl. apply Tl. exact He.
  - cbn [centry]. apply Hx; [exact W|reflexivity].
Qed.

Lemma sort_centry ml tn x : wf_tv x = true -> sort_tv (centry ml tn x) = sort_tv x.
Proof.
  intro W. destruct x as [t|l|m'].
  - reflexivity.
  - cbn [centry]. destruct (is_aot (TArr l)) eqn:A; [|apply sort_inline; exact W].
    cbn [sort_tv]. f_equal. rewrite map_map. apply map_ext_in. intros e He.
    apply wf_arr in W. rewrite Forall_forall in W.
    assert (Tl : forallb is_table l = true) by (destruct l; [discriminate|exact A]).
    rewrite forallb_forall in Tl. apply sort_cdoc; [apply W; exact He|apply Tl; exact He].
  - cbn [centry]. apply sort_cdoc; [exact W|reflexivity].
Qed.

Theorem canon_root_equiv ml three tn m :
  wf_tv (TTab m) = true -> sort_tv (TTab (canon_root ml three tn m)) = sort_tv (TTab m).
Proof.
  intro W. apply wf_tab in W as [ND W]. unfold canon_root.
  apply sort_doc_level; [exact ND| |apply doc_order_perm].
  intros kv Hin. apply sort_centry. rewrite Forall_forall in W. apply W. exact Hin.
Qed.

(* the value read back has distinct keys again *)
Lemma wf_tab_intro m :
  NoDup (map fst m) -> Forall (fun kv => wf_tv (snd kv) = true) m -> wf_tv (TTab m) = true.
Proof.
  intros ND F. cbn [wf_tv]. apply andb_true_iff. split; [apply keys_distinct_spec; exact ND|].
  clear ND. induction m as [|[k x] r IH]; [reflexivity|]. inversion F; subst. cbn [snd] in *.
  apply andb_true_iff. split; [assumption|apply IH; assumption].
Qed.

Lemma wf_gval ml tn v : wf_tv v = true -> wf_tv (value_of (inline_of ml tn v)) = true.
Proof.
  induction v as [t|l IH|m IH] using tv_ind'; intro W.
  - reflexivity.
  - cbn [inline_of value_of wf_tv]. rewrite map_map, forallb_map. apply forallb_forall. intros e He.
    rewrite Forall_forall in IH. apply IH; [exact He|]. apply wf_arr in W. rewrite Forall_forall in W. apply W. exact He.
  - rewrite value_of_inline_tab. apply wf_tab in W as [ND W]. apply wf_tab_intro.
    + rewrite map_map. cbn [fst]. eapply Permutation_NoDup; [|exact ND]. apply Permutation_map. symmetry. apply ordn_perm.
    + apply Forall_forall. intros kv Hin. apply in_map_iff in Hin as (kv' & <- & Hin'). cbn [snd].
      assert (Hm : In kv' m) by (eapply Permutation_in; [apply ordn_perm|exact Hin']).
      rewrite Forall_forall in IH, W. apply IH; [exact Hm|apply W; exact Hm].
Qed.

Lemma wf_doc_level ml tn m m2 :
  NoDup (map fst m) -> Permutation m2 m -> (forall kv, In kv m -> wf_tv (centry ml tn (snd kv)) = true) ->
  wf_tv (TTab (map (ckv ml tn) m2)) = true.
Proof.
  intros ND P H. apply wf_tab_intro.
  - unfold ckv. rewrite map_fst_map. eapply Permutation_NoDup; [|exact ND]. apply Permutation_map. symmetry. exact P.
  - apply Forall_forall. intros kv Hin. apply in_map_iff in Hin as (kv' & <- & Hin'). cbn [ckv snd].
    apply H. eapply Permutation_in; [exact P|exact Hin'].
Qed.

Lemma wf_cdoc ml tn v : wf_tv v = true -> is_table v = true -> wf_tv (cdoc ml tn v) = true.
Proof.
  induction v as [t|l IH|m IH] using tv_ind2; intros W T; try discriminate.
  rewrite cdoc_tab. apply wf_tab in W as [ND W]. apply (wf_doc_level ml tn m); [exact ND|apply doc_order_perm|].
  intros [k x] Hin. cbn [snd]. rewrite Forall_forall in IH, W. destruct (IH _ Hin) as [Hx Hl]. specialize (W _ Hin).
  cbn [snd] in *. destruct x as [t|l|m'].
  - reflexivity.
  - cbn [centry]. destruct (is_aot (TArr l)) eqn:A; [|apply wf_gval; exact W].
    cbn [wf_tv]. rewrite forallb_map. apply forallb_forall. intros e He.
    specialize (Hl l eq_refl). rewrite Forall_forall in Hl. apply wf_arr in W. rewrite Forall_forall in W.
    apply Hl; [exact He|apply W; exact He|].
    assert (Tl : forallb is_table l = true) by (destruct l; [discriminate|exact A]).
    rewrite forallb_forall in Tl. apply Tl. exact He.
  - cbn [centry]. apply Hx; [exact W|reflexivity].
Qed.

Lemma wf_centry ml tn x : wf_tv x = true -> wf_tv (centry ml tn x) = true.
Proof.
  intro W. destruct x as [t|l|m'].
  - reflexivity.
  - cbn [centry]. destruct (is_aot (TArr l)) eqn:A; [|apply wf_gval; exact W].
    cbn [wf_tv]. rewrite forallb_map. apply forallb_forall. intros e He.
    apply wf_arr in W. rewrite Forall_forall in W.
    assert (Tl : forallb is_table l = true) by (destruct l; [discriminate|exact A]).
    rewrite forallb_forall in Tl. apply wf_cdoc; [apply W; exact He|apply Tl; exact He].
  - cbn [centry]. apply wf_cdoc; [exact W|reflexivity].
Qed.

Theorem wf_canon_root ml three tn m : wf_tv (TTab m) = true -> wf_tv (TTab (canon_root ml three tn m)) = true.
Proof.
  intro W. apply wf_tab in W as [ND W]. apply (wf_doc_level ml tn m); [exact ND|apply doc_order_perm|].
  intros kv Hin. apply wf_centry. rewrite Forall_forall in W. apply W. exact Hin.
Qed.

(* ------------------------------------------------------------------------------------------ *)
(** * values before tables *)

Lemma strict_prefix_neq p q : strict_prefix p q -> q <> p.
Proof.
  intros (k & r & ->) E. apply (f_equal (@length bytes)) in E. rewrite app_length in E. cbn [length] in E. lia.
Qed.

Lemma rest_secs_rel ml three tn m : Forall nonroot (rest_secs ml three tn m []).
Proof. rewrite rest_groups. apply groups_nonroot. Qed.

Lemma rest_secs_shift ml three tn m p : rest_secs ml three tn m p = map (shift p) (rest_secs ml three tn m []).
Proof.
  pose proof (sections_shift ml tn (TTab m) three p [] KArr) as H. rewrite app_nil_r in H.
  rewrite !sections_at_tab in H.
  unfold own_section in H. cbn [own_visible] in H. rewrite map_app in H. cbn [map app] in H.
  injection H as _ H. exact H.
Qed.

Lemma rest_secs_strict ml three tn m p : Forall (fun s => strict_prefix p (s_path s)) (rest_secs ml three tn m p).
Proof.
  rewrite rest_secs_shift. apply Forall_forall. intros s H. apply in_map_iff in H as (s' & <- & Hin).
  pose proof (rest_secs_rel ml three tn m) as NR. rewrite Forall_forall in NR. specialize (NR s' Hin).
  unfold nonroot in NR. cbn [shift s_path]. destruct (s_path s') as [|k r]; [congruence|]. exists k, r. reflexivity.
Qed.

Lemma split_tail {A} (P : A -> Prop) own : forall rest pre s post,
  own ++ rest = pre ++ s :: post -> (forall o, In o own -> ~ P o) -> P s -> Forall P rest -> Forall P post.
Proof.
  induction own as [|o own' IH]; intros rest pre s post E No Ps Pr.
  - cbn [app] in E. subst rest. apply Forall_app in Pr as [_ Pr]. inversion Pr; assumption.
  - destruct pre as [|x pre'].
    + cbn [app] in E. injection E as E1 E2. subst o. exfalso. apply (No s); [left; reflexivity|exact Ps].
    + cbn [app] in E. injection E as E1 E2. apply (IH rest pre' s post E2); [|exact Ps|exact Pr].
      intros o' Ho. apply No. right. exact Ho.
Qed.

(* in the sections of a table at path p: once a section below p has been written, every later
   section is below p too — no key/value line of the table itself (they all sit in its own section,
   the only one with path p) comes after one of its sub-tables or arrays of tables *)
Theorem values_before_tables ml three tn m p kind pre s post :
  sections_at ml three tn (TTab m) p kind = pre ++ s :: post ->
  strict_prefix p (s_path s) ->
  Forall (fun s' => strict_prefix p (s_path s')) post.
Proof.
  rewrite sections_at_tab. intros E Ps.
  apply (split_tail (fun s' => strict_prefix p (s_path s')) _ _ _ _ _ E); [|exact Ps|apply rest_secs_strict].
  intros o Ho Po. unfold own_section in Ho. destruct (own_visible kind m (own_lines ml three tn m)); [|destruct Ho].
  destruct Ho as [<-|[]]. cbn [s_path] in Po. exact (strict_prefix_neq p p Po eq_refl).
Qed.

(* all key/value lines of the table are in its own section *)
Theorem own_section_first ml three tn m p kind :
  sections_at ml three tn (TTab m) p kind = own_section ml three tn m p kind ++ rest_secs ml three tn m p /\
  Forall (fun s => strict_prefix p (s_path s)) (rest_secs ml three tn m p).
Proof. split; [apply sections_at_tab|apply rest_secs_strict]. Qed.

(* ------------------------------------------------------------------------------------------ *)
(** * plain and pretty layouts read back to the same value *)

Lemma value_inline_layout ml tn v : value_of (inline_of ml tn v) = value_of (inline_of false tn v).
Proof. rewrite !inline_of_fmt. apply value_of_fmt_value. Qed.

Lemma centry_layout ml tn x : centry ml tn x = centry false tn x.
Proof.
  induction x as [t|l IH|m IH] using tv_ind2.
  - reflexivity.
  - cbn [centry]. destruct (is_aot (TArr l)) eqn:A; [|apply value_inline_layout].
    f_equal. apply map_ext_in. intros e He. rewrite Forall_forall in IH. specialize (IH e He).
    assert (Tl : forallb is_table l = true) by (destruct l; [discriminate|exact A]).
    rewrite forallb_forall in Tl. specialize (Tl e He). destruct e; try discriminate. exact IH.
  - cbn [centry]. rewrite !cdoc_tab. f_equal. apply map_ext_in. intros kv Hin. unfold ckv. f_equal.
    assert (Hm : In kv m) by (eapply Permutation_in; [apply doc_order_perm|exact Hin]).
    rewrite Forall_forall in IH. exact (proj1 (IH kv Hm)).
Qed.

Theorem canon_root_layout ml three tn m : canon_root ml three tn m = canon_root false three tn m.
Proof.
  unfold canon_root. apply map_ext; intro kv; unfold ckv; f_equal; apply centry_layout.
Qed.

(* ------------------------------------------------------------------------------------------ *)
(** * the regrouped value has the same kinds of entries *)

Lemma map_ext_in_filter {A B} (f g : A -> B) (p : A -> bool) l :
  (forall x, p x = true -> f x = g x) -> map f (filter p l) = map g (filter p l).
Proof. intro H. apply map_ext_in. intros x Hin. apply filter_In in Hin as [_ Hp]. apply H. exact Hp. Qed.

Lemma doc_order_true m : doc_order true m = order4 m.
Proof. unfold doc_order, lines_e, subs_e, order4. rewrite <- app_assoc. reflexivity. Qed.

Definition gval (ml : bool) (v : tv) : tv := value_of (inline_of ml true v).

Lemma gval_arr ml l : gval ml (TArr l) = TArr (map (gval ml) l).
Proof. unfold gval. cbn [inline_of value_of]. rewrite map_map. reflexivity. Qed.

Lemma gval_tab ml m : gval ml (TTab m) = TTab (map (fun kv => (fst kv, gval ml (snd kv))) (order3 m)).
Proof. apply (value_of_inline_tab ml true). Qed.

Lemma is_table_gval ml v : is_table (gval ml v) = is_table v.
Proof. destruct v as [t|l|m]; [reflexivity|rewrite gval_arr; reflexivity|rewrite gval_tab; reflexivity]. Qed.

Lemma is_table_cdoc ml tn v : is_table (cdoc ml tn v) = true.
Proof. reflexivity. Qed.

Lemma forallb_ext_all {A} (f g : A -> bool) l : (forall x, f x = g x) -> forallb f l = forallb g l.
Proof. intro H. induction l as [|x r IH]; [reflexivity|]. cbn [forallb]. rewrite H, IH. reflexivity. Qed.
Lemma existsb_ext_all {A} (f g : A -> bool) l : (forall x, f x = g x) -> existsb f l = existsb g l.
Proof. intro H. induction l as [|x r IH]; [reflexivity|]. cbn [existsb]. rewrite H, IH. reflexivity. Qed.

Lemma is_aot_gval ml v : is_aot (gval ml v) = is_aot v.
Proof.
  destruct v as [t|l|m]; [reflexivity| |rewrite gval_tab; reflexivity].
  rewrite gval_arr. destruct l as [|x r]; [reflexivity|].
  change (forallb is_table (map (gval ml) (x :: r)) = forallb is_table (x :: r)).
  rewrite forallb_map. apply forallb_ext_all. intro. apply is_table_gval.
Qed.

Lemma any_table_gval ml v : arr_any_table (gval ml v) = arr_any_table v.
Proof.
  destruct v as [t|l|m]; [reflexivity| |rewrite gval_tab; reflexivity].
  rewrite gval_arr. cbn [arr_any_table]. rewrite existsb_map. apply existsb_ext_all. intro. apply is_table_gval.
Qed.

Lemma centry_cases ml x :
  (is_line x = true /\ centry ml true x = gval ml x) \/
  (exists m', x = TTab m' /\ centry ml true x = cdoc ml true x) \/
  (exists l, x = TArr l /\ is_aot x = true /\ centry ml true x = TArr (map (cdoc ml true) l)).
Proof.
  destruct x as [t|l|m'].
  - left. split; reflexivity.
  - destruct (is_aot (TArr l)) eqn:A.
    + right. right. exists l. cbn [centry]. rewrite A. repeat split.
    + left. split; [unfold is_line; rewrite A; reflexivity|]. cbn [centry]. rewrite A. reflexivity.
  - right. left. exists m'. split; reflexivity.
Qed.

Lemma is_table_centry ml x : is_table (centry ml true x) = is_table x.
Proof.
  destruct (centry_cases ml x) as [[L E]|[(m' & -> & E)|(l & -> & A & E)]]; rewrite E;
    [apply is_table_gval|reflexivity|reflexivity].
Qed.

Lemma is_aot_centry ml x : is_aot (centry ml true x) = is_aot x.
Proof.
  destruct (centry_cases ml x) as [[L E]|[(m' & -> & E)|(l & -> & A & E)]]; rewrite E.
  - apply is_aot_gval.
  - reflexivity.
  - rewrite A. destruct l as [|e r]; [discriminate|]. cbn [map is_aot forallb is_table cdoc]. 
    clear. induction r as [|e' r' IH]; [reflexivity|]. exact IH.
Qed.

Lemma any_table_centry ml x : arr_any_table (centry ml true x) = arr_any_table x.
Proof.
  destruct (centry_cases ml x) as [[L E]|[(m' & -> & E)|(l & -> & A & E)]]; rewrite E.
  - apply any_table_gval.
  - reflexivity.
  - rewrite (is_aot_any _ A). destruct l as [|e r]; [discriminate|]. reflexivity.
Qed.

Lemma is_line_centry ml x : is_line (centry ml true x) = is_line x.
Proof. unfold is_line. rewrite is_table_centry, is_aot_centry. reflexivity. Qed.
Lemma is_mixed_centry ml x : is_mixed (centry ml true x) = is_mixed x.
Proof. unfold is_mixed. rewrite any_table_centry, is_aot_centry. reflexivity. Qed.
Lemma is_plain_centry ml x : is_plain (centry ml true x) = is_plain x.
Proof. unfold is_plain. rewrite is_line_centry, is_mixed_centry. reflexivity. Qed.

Lemma pass_gval ml x : pass1 (gval ml x) = pass1 x /\ pass2 (gval ml x) = pass2 x /\ pass3 (gval ml x) = pass3 x.
Proof.
  unfold pass1, pass2, pass3. rewrite any_table_gval, is_table_gval. repeat split.
  destruct x as [t|l|m]; [reflexivity| |rewrite gval_tab; reflexivity].
  rewrite gval_arr. cbn [is_table is_array negb andb orb arr_no_table].
  f_equal. rewrite existsb_map. apply existsb_ext_all. intro. apply is_table_gval.
Qed.

(* filters over a regrouped list *)
Lemma filter_map_kv {A} (c : A -> A) (p : A -> bool) (l : list (bytes * A)) :
  (forall x, p (c x) = p x) ->
  filter (fun kv => p (snd kv)) (map (fun kv => (fst kv, c (snd kv))) l)
  = map (fun kv => (fst kv, c (snd kv))) (filter (fun kv => p (snd kv)) l).
Proof.
  intro H. induction l as [|[k x] r IH]; [reflexivity|]. cbn [map filter fst snd]. rewrite H.
  destruct (p x); cbn [map fst snd]; rewrite IH; reflexivity.
Qed.

Lemma filter_filter_same {A} (p q : A -> bool) l :
  (forall x, q x = true -> p x = true) -> filter p (filter q l) = filter q l.
Proof.
  intro H. induction l as [|x r IH]; [reflexivity|]. cbn [filter]. destruct (q x) eqn:E; [|exact IH].
  cbn [filter]. rewrite (H x E), IH. reflexivity.
Qed.

Lemma filter_filter_disj {A} (p q : A -> bool) l :
  (forall x, q x = true -> p x = false) -> filter p (filter q l) = [].
Proof.
  intro H. induction l as [|x r IH]; [reflexivity|]. cbn [filter]. destruct (q x) eqn:E; [|exact IH].
  cbn [filter]. rewrite (H x E). exact IH.
Qed.

Lemma order3_idem m : order3 (order3 m) = order3 m.
Proof.
  unfold order3 at 1. unfold order3. rewrite !filter_app.
  rewrite (filter_filter_same (fun kv => pass1 (snd kv)) (fun kv => pass1 (snd kv))) by auto.
  rewrite (filter_filter_same (fun kv => pass2 (snd kv)) (fun kv => pass2 (snd kv))) by auto.
  rewrite (filter_filter_same (fun kv => pass3 (snd kv)) (fun kv => pass3 (snd kv))) by auto.
  rewrite !filter_filter_disj; [cbn [app]; rewrite !app_nil_r; reflexivity| | | | | |]; intros [k x] H; cbn [snd] in *;
    destruct (pass_cases x) as [(A & B & C)|[(A & B & C)|(A & B & C)]]; congruence.
Qed.

Lemma order3_map ml m :
  order3 (map (fun kv => (fst kv, gval ml (snd kv))) m) = map (fun kv => (fst kv, gval ml (snd kv))) (order3 m).
Proof.
  unfold order3. rewrite !map_app.
  rewrite (filter_map_kv (gval ml) pass1) by (intro; apply pass_gval).
  rewrite (filter_map_kv (gval ml) pass2) by (intro; apply pass_gval).
  rewrite (filter_map_kv (gval ml) pass3) by (intro; apply pass_gval).
  reflexivity.
Qed.

(* writing a value that was read from a key/value line gives the same line again *)
Lemma inline_gval ml ml' v : inline_of ml' true (gval ml v) = inline_of ml' true v.
Proof.
  induction v as [t|l IH|m IH] using tv_ind'.
  - reflexivity.
  - rewrite gval_arr. cbn [inline_of]. rewrite map_length, map_map. f_equal. apply Forall_map_ext. exact IH.
  - rewrite gval_tab, !inline_of_tab. unfold ordn. rewrite order3_map, order3_idem, map_map. cbn [fst snd]. f_equal.
    apply map_ext_in. intros kv Hin. f_equal.
    assert (Hm : In kv m) by (eapply Permutation_in; [apply order3_perm|exact Hin]).
    rewrite Forall_forall in IH. apply IH. exact Hm.
Qed.

(* ------------------------------------------------------------------------------------------ *)
(** * writing the value that was read back gives the same document *)

Lemma class_excl x :
  (is_plain x = true -> is_mixed x = false /\ is_aot x = false /\ is_table x = false) /\
  (is_mixed x = true -> is_plain x = false /\ is_aot x = false /\ is_table x = false) /\
  (is_aot x = true -> is_plain x = false /\ is_mixed x = false /\ is_table x = false) /\
  (is_table x = true -> is_plain x = false /\ is_mixed x = false /\ is_aot x = false).
Proof.
  destruct (class_cases x) as [(A & B & C & D)|[(A & B & C & D)|[(A & B & C & D)|(A & B & C & D)]]];
    rewrite A, B, C, D; repeat split; congruence.
Qed.

Lemma order4_plain m : filter (fun kv => is_plain (snd kv)) (order4 m) = filter (fun kv => is_plain (snd kv)) m.
Proof.
  unfold order4. rewrite !filter_app. rewrite filter_filter_same by auto.
  rewrite !filter_filter_disj; [cbn [app]; rewrite ?app_nil_r; reflexivity| | |]; intros [k x] H; cbn [snd] in *;
    pose proof (class_excl x); intuition congruence.
Qed.
Lemma order4_mixed m : filter (fun kv => is_mixed (snd kv)) (order4 m) = filter (fun kv => is_mixed (snd kv)) m.
Proof.
  unfold order4. rewrite !filter_app. rewrite (filter_filter_same (fun kv => is_mixed (snd kv)) (fun kv => is_mixed (snd kv))) by auto.
  rewrite !filter_filter_disj; [cbn [app]; rewrite ?app_nil_r; reflexivity| | |]; intros [k x] H; cbn [snd] in *;
    pose proof (class_excl x); intuition congruence.
Qed.
Lemma order4_aot m : filter (fun kv => is_aot (snd kv)) (order4 m) = filter (fun kv => is_aot (snd kv)) m.
Proof.
  unfold order4. rewrite !filter_app. rewrite (filter_filter_same (fun kv => is_aot (snd kv)) (fun kv => is_aot (snd kv))) by auto.
  rewrite !filter_filter_disj; [cbn [app]; rewrite ?app_nil_r; reflexivity| | |]; intros [k x] H; cbn [snd] in *;
    pose proof (class_excl x); intuition congruence.
Qed.
Lemma order4_table m : filter (fun kv => is_table (snd kv)) (order4 m) = filter (fun kv => is_table (snd kv)) m.
Proof.
  unfold order4. rewrite !filter_app. rewrite (filter_filter_same (fun kv => is_table (snd kv)) (fun kv => is_table (snd kv))) by auto.
  rewrite !filter_filter_disj; [cbn [app]; rewrite ?app_nil_r; reflexivity| | |]; intros [k x] H; cbn [snd] in *;
    pose proof (class_excl x); intuition congruence.
Qed.

Lemma nonempty_perm {A} (l l' : list A) : Permutation l l' -> nonempty l = nonempty l'.
Proof.
  intro P. destruct l; destruct l'; try reflexivity.
  - apply Permutation_nil in P. discriminate.
  - apply Permutation_sym, Permutation_nil in P. discriminate.
Qed.

Lemma filter_ckv ml (p : tv -> bool) l : (forall x, p (centry ml true x) = p x) ->
  filter (fun kv => p (snd kv)) (map (ckv ml true) l) = map (ckv ml true) (filter (fun kv => p (snd kv)) l).
Proof. intro H. exact (filter_map_kv (centry ml true) p l H). Qed.

Lemma lines_where_canon ml ml' (p : tv -> bool) l l0 :
  (forall x, p (centry ml true x) = p x) -> (forall x, p x = true -> is_line x = true) ->
  filter (fun kv => p (snd kv)) l = filter (fun kv => p (snd kv)) l0 ->
  lines_where ml' true p (map (ckv ml true) l) = lines_where ml' true p l0.
Proof.
  intros Hc Hl E. unfold lines_where. rewrite (filter_ckv ml p l Hc), E, map_map. unfold ckv. cbn [fst snd].
  apply map_ext_in_filter. intros [k x] H. cbn [fst snd] in *. f_equal.
  rewrite (centry_line ml true x (Hl x H)). apply inline_gval.
Qed.

Lemma flat_map_map {A B C} (f : A -> B) (g : B -> list C) l : flat_map g (map f l) = flat_map (fun x => g (f x)) l.
Proof. induction l as [|x r IH]; [reflexivity|]. cbn [map flat_map]. rewrite IH. reflexivity. Qed.

Lemma flat_map_canon ml (F : bytes * tv -> list section) (cls : tv -> bool) (l l0 : list (bytes * tv)) :
  (forall kv, F kv = if cls (snd kv) then F kv else []) ->
  (forall x, cls (centry ml true x) = cls x) ->
  filter (fun kv => cls (snd kv)) l = filter (fun kv => cls (snd kv)) l0 ->
  (forall kv, In kv l0 -> cls (snd kv) = true -> F (ckv ml true kv) = F kv) ->
  flat_map F (map (ckv ml true) l) = flat_map F l0.
Proof.
  intros HF Hc E Hp.
  rewrite (flat_map_filter (fun kv => cls (snd kv)) F F (map (ckv ml true) l) HF).
  rewrite (flat_map_filter (fun kv => cls (snd kv)) F F l0 HF).
  rewrite (filter_ckv ml cls l Hc), E, flat_map_map. apply flat_map_ext_Forall. apply Forall_forall.
  intros kv Hin. apply filter_In in Hin as [Hin H]. apply Hp; assumption.
Qed.

Definition fix_ok (ml : bool) (v : tv) : Prop :=
  is_table v = true -> forall ml' p kind, sections_at ml' true true (cdoc ml true v) p kind = sections_at ml' true true v p kind.

Lemma aot_secs_self ml tn p kv : aot_secs ml tn p kv = if is_aot (snd kv) then aot_secs ml tn p kv else [].
Proof. unfold aot_secs. destruct (is_aot (snd kv)); reflexivity. Qed.
Lemma tab_secs_self ml tn p kv : tab_secs ml tn p kv = if is_table (snd kv) then tab_secs ml tn p kv else [].
Proof. unfold tab_secs. destruct (snd kv); reflexivity. Qed.
Lemma sub_secs_self ml tn p kv : sub_secs ml tn p kv = if negb (is_line (snd kv)) then sub_secs ml tn p kv else [].
Proof.
  unfold sub_secs, is_line. destruct (snd kv) as [t|l|m'] eqn:E; try reflexivity.
  cbn [is_table negb andb]. destruct (is_aot (TArr l)); reflexivity.
Qed.

Lemma elems_fix ml ml' p k l : forallb is_table l = true -> Forall (fix_ok ml) l ->
  elem_secs ml' true p k (map (cdoc ml true) l) = elem_secs ml' true p k l.
Proof.
  intros T H. unfold elem_secs. rewrite flat_map_map. apply flat_map_ext_Forall.
  rewrite forallb_forall in T. rewrite Forall_forall in H |- *. intros e He. apply (H e He). apply T. exact He.
Qed.

Lemma entry_fix ml kv :
  fix_ok ml (snd kv) -> (forall l, snd kv = TArr l -> Forall (fix_ok ml) l) ->
  forall ml' p,
    (is_aot (snd kv) = true -> aot_secs ml' true p (ckv ml true kv) = aot_secs ml' true p kv) /\
    (is_table (snd kv) = true -> tab_secs ml' true p (ckv ml true kv) = tab_secs ml' true p kv) /\
    (negb (is_line (snd kv)) = true -> sub_secs ml' true p (ckv ml true kv) = sub_secs ml' true p kv).
Proof.
  destruct kv as [k x]. cbn [snd]. intros Hx Hl ml' p.
  assert (HA : is_aot x = true -> aot_secs ml' true p (ckv ml true (k, x)) = aot_secs ml' true p (k, x) /\
                                  sub_secs ml' true p (ckv ml true (k, x)) = sub_secs ml' true p (k, x)).
  { intro A. destruct x as [t|l|m']; try discriminate.
    assert (Tl : forallb is_table l = true) by (destruct l; [discriminate|exact A]).
    pose proof (is_aot_centry ml (TArr l)) as A'. rewrite A in A'.
    unfold aot_secs, sub_secs, ckv. cbn [fst snd]. rewrite A'. cbn [centry]. rewrite A.
    rewrite (elems_fix ml ml' p k l Tl (Hl l eq_refl)). split; reflexivity. }
  assert (HT : is_table x = true -> tab_secs ml' true p (ckv ml true (k, x)) = tab_secs ml' true p (k, x) /\
                                    sub_secs ml' true p (ckv ml true (k, x)) = sub_secs ml' true p (k, x)).
  { intro T. destruct x as [t|l|m']; try discriminate.
    pose proof (Hx eq_refl ml' (p ++ [k]) KStd) as E.
    unfold tab_secs, sub_secs, ckv. cbn [fst snd centry]. unfold cdoc at 1 3. cbn beta iota.
    split; exact E. }
  repeat split.
  - intro A. exact (proj1 (HA A)).
  - intro T. exact (proj1 (HT T)).
  - intro N. destruct (not_line_cases x N) as [A|T]; [exact (proj2 (HA A))|exact (proj2 (HT T))].
Qed.

Lemma fix_level ml m :
  Forall (fun kv => fix_ok ml (snd kv) /\ forall l, snd kv = TArr l -> Forall (fix_ok ml) l) m ->
  fix_ok ml (TTab m).
Proof.
  intros IH _ ml' p kind. rewrite cdoc_tab, doc_order_true, !sections_at_tab. rewrite Forall_forall in IH.
  assert (EL : own_lines ml' true true (map (ckv ml true) (order4 m)) = own_lines ml' true true m).
  { unfold own_lines. f_equal; apply lines_where_canon.
    - apply is_plain_centry. - apply is_plain_line. - apply order4_plain.
    - apply is_mixed_centry. - apply is_mixed_line. - apply order4_mixed. }
  f_equal.
  - unfold own_section. rewrite EL.
    assert (EN : nonempty (map (ckv ml true) (order4 m)) = nonempty m).
    { rewrite nonempty_map. apply nonempty_perm. apply order4_perm. }
    destruct kind; cbn [own_visible]; rewrite ?EN; reflexivity.
  - unfold rest_secs. f_equal.
    + apply (flat_map_canon ml (aot_secs ml' true p) is_aot).
      * apply aot_secs_self. * apply is_aot_centry. * apply order4_aot.
      * intros kv Hin A. destruct (IH kv Hin) as [Hx Hl]. exact (proj1 (entry_fix ml kv Hx Hl ml' p) A).
    + apply (flat_map_canon ml (tab_secs ml' true p) is_table).
      * apply tab_secs_self. * apply is_table_centry. * apply order4_table.
      * intros kv Hin T. destruct (IH kv Hin) as [Hx Hl]. exact (proj1 (proj2 (entry_fix ml kv Hx Hl ml' p)) T).
Qed.

Lemma fix_ok_all ml v : fix_ok ml v.
Proof.
  induction v as [t|l IH|m IH] using tv_ind2.
  - intro T. discriminate.
  - intro T. discriminate.
  - apply fix_level. exact IH.
Qed.

Lemma filter_line_split (m : list (bytes * tv)) :
  filter (fun kv => is_line (snd kv))
    (filter (fun kv => is_line (snd kv)) m ++ filter (fun kv => negb (is_line (snd kv))) m)
  = filter (fun kv => is_line (snd kv)) m.
Proof.
  rewrite filter_app, filter_filter_same by auto.
  rewrite filter_filter_disj; [apply app_nil_r|]. intros kv H. apply negb_true_iff in H. exact H.
Qed.

Lemma filter_nonline_split (m : list (bytes * tv)) :
  filter (fun kv => negb (is_line (snd kv)))
    (filter (fun kv => is_line (snd kv)) m ++ filter (fun kv => negb (is_line (snd kv))) m)
  = filter (fun kv => negb (is_line (snd kv))) m.
Proof.
  rewrite filter_app. rewrite (filter_filter_same (fun kv => negb (is_line (snd kv))) (fun kv => negb (is_line (snd kv)))) by auto.
  rewrite filter_filter_disj; [reflexivity|]. intros kv H. rewrite H. reflexivity.
Qed.

Theorem fixpoint_canonical ml ml' three m :
  sections_of ml' three true (canon_root ml three true m) = sections_of ml' three true m.
Proof.
  unfold sections_of, canon_root. destruct three.
  - pose proof (fix_ok_all ml (TTab m) eq_refl ml' [] KRoot) as H. rewrite cdoc_tab in H. exact H.
  - unfold doc_order, lines_e, subs_e. rewrite !sections_at_tab. f_equal.
    + unfold own_section. cbn [own_visible]. do 2 f_equal.
      unfold own_lines. apply lines_where_canon; [apply is_line_centry|auto|apply filter_line_split].
    + unfold rest_secs. apply (flat_map_canon ml (sub_secs ml' true []) (fun x => negb (is_line x))).
      * apply sub_secs_self.
      * intro x. rewrite is_line_centry. reflexivity.
      * apply filter_nonline_split.
      * intros kv Hin N.
        assert (Hx : fix_ok ml (snd kv)) by apply fix_ok_all.
        assert (Hl : forall l, snd kv = TArr l -> Forall (fix_ok ml) l).
        { intros l _. apply Forall_forall. intros e _. apply fix_ok_all. }
        exact (proj2 (proj2 (entry_fix ml kv Hx Hl ml' [])) N).
Qed.
