(* Proofs/DatetimeExact.v — both date-time parsers accept EXACTLY the date-time tokens of the specification
   (Spec/Syntax.v date_time_tok: the four TOML shapes with RFC 3339 field ranges), as whole strings. *)
From TV Require Import Base.Prelude Base.Winnow Gen.Consts Model.Datetime Model.DatetimeStd
  Spec.Abnf Spec.Syntax Spec.DatetimeSpec.
From TV Require Import Proofs.ConstsOk Proofs.LexEquivBase Proofs.LexEquivDatetime Proofs.DatetimeEq.

Theorem doc_datetime_exact s d : doc_datetime s = Some d <-> date_time_tok s d.
Proof.
  split.
  - unfold doc_datetime. destruct s as [|b s']; [discriminate|].
    destruct (in_class VALUE_NUMBER_START b); [|discriminate].
    destruct (date_time (new_input (b :: s'))) as [d' i'| | |] eqn:E; try discriminate.
    destruct (rest i') eqn:R; [|discriminate]. intro H; inversion H; subst d'.
    apply date_time_sound in E as [t [Ht [Hs _]]]. cbn [rest new_input] in Hs. rewrite R, app_nil_r in Hs. rewrite Hs. exact Ht.
  - intro Ht. destruct (date_time_tok_head _ _ Ht) as [b [t' [-> Hb]]].
    unfold doc_datetime. rewrite VALUE_NUMBER_START_ok, Hb, !orb_true_r.
    assert (Hr : rest (new_input (b :: t')) = (b :: t') ++ []) by (cbn [rest new_input]; rewrite app_nil_r; reflexivity).
    rewrite (date_time_complete (new_input (b :: t')) (b :: t') d [] Ht Hr I).
    rewrite (rest_adv _ _ _ Hr). reflexivity.
Qed.

Theorem std_datetime_exact s d : std_from_str s = Some d <-> date_time_tok s d.
Proof. rewrite agree. apply doc_datetime_exact. Qed.

(* nothing else is accepted, and every spelling the specification allows is *)
Corollary std_datetime_rejects s : std_from_str s = None <-> forall d, ~ date_time_tok s d.
Proof.
  split.
  - intros H d Ht. apply std_datetime_exact in Ht. congruence.
  - intro H. destruct (std_from_str s) as [d|] eqn:E; [|reflexivity]. apply std_datetime_exact in E. destruct (H d E).
Qed.
