(* Proofs/StringsRTQuotes.v — mlb_quotes / mll_quotes (`quotes2`): one or two quote characters
   followed (peek) by a terminator, and the two terminators the string parsers use. *)
From TV Require Import Base.Prelude Base.Utf8 Base.Winnow Gen.Consts.
From TV Require Import Model.Trivia Model.Strings Model.Write.
From TV Require Import Proofs.StringsRTDefs Proofs.StringsRTBase Proofs.StringsRTWrite.
Require Import Lia ZifyBool ZifyN ZifyNat.

Definition t_ok (t : parser unit) (X : bytes) : Prop :=
  forall p d, exists i', t (mkIn X p d) = Ok tt i'.
Definition t_bt (t : parser unit) (X : bytes) : Prop :=
  forall p d, exists e i', t (mkIn X p d) = Bt e i'.

Lemma term1_ok q t X p d : t_ok t X ->
  terminated (lit [q]) (peek t) (mkIn (q :: X) p d) = Ok [q] (after [q] X p d).
Proof.
  intro H. unfold terminated.
  rewrite (bind_ok _ _ _ _ _ (lit_yes [q] X p d)).
  destruct (H (p + N.of_nat (length [q]))%N d) as [i' Hi]. unfold after at 1.
  rewrite (bind_ok _ _ _ _ _ (peek_ok _ _ _ _ Hi)). reflexivity.
Qed.
Lemma term1_bt q t X p d : t_bt t X ->
  exists e i', terminated (lit [q]) (peek t) (mkIn (q :: X) p d) = Bt e i'.
Proof.
  intro H. unfold terminated.
  rewrite (bind_ok _ _ _ _ _ (lit_yes [q] X p d)).
  destruct (H (p + N.of_nat (length [q]))%N d) as [e [i' Hi]]. unfold after at 1.
  rewrite (bind_bt _ _ _ _ _ (peek_bt _ _ _ _ Hi)). eauto.
Qed.
Lemma term2_ok q t X p d : t_ok t X ->
  terminated (lit [q; q]) (peek t) (mkIn (q :: q :: X) p d) = Ok [q; q] (after [q; q] X p d).
Proof.
  intro H. unfold terminated.
  rewrite (bind_ok _ _ _ _ _ (lit_yes [q; q] X p d)).
  destruct (H (p + N.of_nat (length [q; q]))%N d) as [i' Hi]. unfold after at 1.
  rewrite (bind_ok _ _ _ _ _ (peek_ok _ _ _ _ Hi)). reflexivity.
Qed.
Lemma term2_bt q t X p d : t_bt t X ->
  exists e i', terminated (lit [q; q]) (peek t) (mkIn (q :: q :: X) p d) = Bt e i'.
Proof.
  intro H. unfold terminated.
  rewrite (bind_ok _ _ _ _ _ (lit_yes [q; q] X p d)).
  destruct (H (p + N.of_nat (length [q; q]))%N d) as [e [i' Hi]]. unfold after at 1.
  rewrite (bind_bt _ _ _ _ _ (peek_bt _ _ _ _ Hi)). eauto.
Qed.
Lemma term_lit_bt {A} l (t : parser A) Y p d : strip_prefix l Y = None ->
  exists e i', terminated (lit l) (peek t) (mkIn Y p d) = Bt e i'.
Proof.
  intro H. unfold terminated. rewrite (bind_bt _ _ _ _ _ (lit_no l Y p d H)). eauto.
Qed.

(* the first attempt (two quote characters) backtracks *)
Definition two_bt (q : byte) (t : parser unit) (Y : bytes) : Prop :=
  strip_prefix [q; q] Y = None \/ exists X, Y = q :: q :: X /\ t_bt t X.
Definition one_bt (q : byte) (t : parser unit) (Y : bytes) : Prop :=
  strip_prefix [q] Y = None \/ exists X, Y = q :: X /\ t_bt t X.

Section Quotes.
  Variable q : byte.
  Hypothesis Hq : (b2n q <= 127)%N.

  Lemma q_valid1 : utf8_valid_b [q] = true.
  Proof. rewrite utf8_cons_ascii by exact Hq. reflexivity. Qed.
  Lemma q_valid2 : utf8_valid_b [q; q] = true.
  Proof. rewrite !utf8_cons_ascii by exact Hq. reflexivity. Qed.

  Lemma quotes2_two t X p d : t_ok t X ->
    quotes2 q t (mkIn (q :: q :: X) p d) = Ok [q; q] (after [q; q] X p d).
  Proof.
    intro H. unfold quotes2, unchecked_utf8. rewrite (term2_ok q t X p d H). rewrite q_valid2. reflexivity.
  Qed.

  Lemma two_bt_spec t Y p d : two_bt q t Y ->
    exists e i', terminated (lit [q; q]) (peek t) (mkIn Y p d) = Bt e i'.
  Proof.
    intros [H|[X [-> H]]]; [apply term_lit_bt; exact H|apply term2_bt; exact H].
  Qed.

  Lemma quotes2_one t X p d : two_bt q t (q :: X) -> t_ok t X ->
    quotes2 q t (mkIn (q :: X) p d) = Ok [q] (after [q] X p d).
  Proof.
    intros H2 H1. unfold quotes2, unchecked_utf8 at 1.
    destruct (two_bt_spec t (q :: X) p d H2) as [e [i' He]]. rewrite He.
    unfold unchecked_utf8. rewrite (term1_ok q t X p d H1). rewrite q_valid1. reflexivity.
  Qed.

  Lemma quotes2_none t Y p d : two_bt q t Y -> one_bt q t Y ->
    exists e i', quotes2 q t (mkIn Y p d) = Bt e i'.
  Proof.
    intros H2 H1. unfold quotes2, unchecked_utf8 at 1.
    destruct (two_bt_spec t Y p d H2) as [e [i' He]]. rewrite He.
    unfold unchecked_utf8.
    destruct H1 as [H|[X [-> H]]].
    - destruct (term_lit_bt [q] t Y p d H) as [e1 [i1 H1]]. rewrite H1. eauto.
    - destruct (term1_bt q t X p d H) as [e1 [i1 H1]]. rewrite H1. eauto.
  Qed.

  (* the terminator `none_of(q)` *)
  Definition t_other : parser unit := pvoid (none_of (byte_eqb q)).
  Lemma t_other_ok b X : byte_eqb q b = false -> t_ok t_other (b :: X).
  Proof.
    intros H p d. unfold t_other, pvoid, none_of. eexists.
    erewrite pmap_ok; [reflexivity|]. apply one_of_yes. rewrite H. reflexivity.
  Qed.
  Lemma t_other_bt_q X : t_bt t_other (q :: X).
  Proof.
    intros p d. unfold t_other, pvoid, none_of. do 2 eexists.
    erewrite pmap_bt; [reflexivity|]. apply one_of_no. cbn. rewrite byte_eqb_refl. reflexivity.
  Qed.
  Lemma t_other_bt_nil : t_bt t_other [].
  Proof.
    intros p d. unfold t_other, pvoid, none_of. do 2 eexists.
    erewrite pmap_bt; [reflexivity|]. apply one_of_no. exact I.
  Qed.

  (* the terminator `lit(delim)` *)
  Definition t_delim : parser unit := pvoid (lit [q; q; q]).
  Lemma t_delim_ok X : t_ok t_delim (q :: q :: q :: X).
  Proof.
    intros p d. unfold t_delim, pvoid. eexists.
    erewrite pmap_ok; [reflexivity|]. apply (lit_yes [q; q; q] X p d).
  Qed.
  Lemma t_delim_bt Y : strip_prefix [q; q; q] Y = None -> t_bt t_delim Y.
  Proof.
    intros H p d. unfold t_delim, pvoid. do 2 eexists.
    erewrite pmap_bt; [reflexivity|]. apply lit_no. exact H.
  Qed.
End Quotes.

(* what may follow the closing delimiter: not another quote character *)
Definition not_head (q : byte) (r : bytes) : Prop :=
  match r with [] => True | b :: _ => byte_eqb q b = false end.

Lemma strip3_2 q r : not_head q r -> strip_prefix [q; q; q] (q :: q :: r) = None.
Proof.
  intro H. cbn. rewrite !byte_eqb_refl. destruct r as [|b r]; [reflexivity|]. cbn in H. rewrite H. reflexivity.
Qed.
Lemma strip3_1 q r : not_head q r -> strip_prefix [q; q; q] (q :: r) = None.
Proof.
  intro H. cbn. rewrite !byte_eqb_refl. destruct r as [|b r]; [reflexivity|]. cbn in H. rewrite H. reflexivity.
Qed.
Lemma strip3_0 q r : not_head q r -> strip_prefix [q; q; q] r = None.
Proof.
  intro H. cbn. destruct r as [|b r]; [reflexivity|]. cbn in H. rewrite H. reflexivity.
Qed.

(* ---- the situations the multi-line parsers meet ------------------------------------------------- *)
Section Situations.
  Variable q : byte.
  Hypothesis Hq : (b2n q <= 127)%N.

  (* three quote characters ahead: the in-body quote parser (terminator: not a quote) refuses *)
  Lemma quotes2_other_qqq Z p d :
    exists e i', quotes2 q (t_other q) (mkIn (q :: q :: q :: Z) p d) = Bt e i'.
  Proof.
    apply quotes2_none.
    - right. exists (q :: Z). split; [reflexivity|apply t_other_bt_q].
    - right. exists (q :: q :: Z). split; [reflexivity|apply t_other_bt_q].
  Qed.

  (* one or two quote characters and then a different byte *)
  Lemma quotes2_other_1 b Z p d : byte_eqb q b = false ->
    quotes2 q (t_other q) (mkIn (q :: b :: Z) p d) = Ok [q] (after [q] (b :: Z) p d).
  Proof.
    intro H. apply quotes2_one; [exact Hq| |apply t_other_ok; exact H].
    left. cbn. rewrite byte_eqb_refl, H. reflexivity.
  Qed.
  Lemma quotes2_other_2 b Z p d : byte_eqb q b = false ->
    quotes2 q (t_other q) (mkIn (q :: q :: b :: Z) p d) = Ok [q; q] (after [q; q] (b :: Z) p d).
  Proof. intro H. apply quotes2_two; [exact Hq|apply t_other_ok; exact H]. Qed.

  (* in front of the closing delimiter, with 0, 1 or 2 quote characters belonging to the string *)
  Lemma quotes2_delim_0 r p d : not_head q r ->
    exists e i', quotes2 q (t_delim q) (mkIn (q :: q :: q :: r) p d) = Bt e i'.
  Proof.
    intro H. apply quotes2_none.
    - right. exists (q :: r). split; [reflexivity|apply t_delim_bt, strip3_1; exact H].
    - right. exists (q :: q :: r). split; [reflexivity|apply t_delim_bt, strip3_2; exact H].
  Qed.
  Lemma quotes2_delim_1 r p d : not_head q r ->
    quotes2 q (t_delim q) (mkIn (q :: q :: q :: q :: r) p d) = Ok [q] (after [q] (q :: q :: q :: r) p d).
  Proof.
    intro H. apply quotes2_one; [exact Hq| |apply t_delim_ok].
    right. exists (q :: q :: r). split; [reflexivity|apply t_delim_bt, strip3_2; exact H].
  Qed.
  Lemma quotes2_delim_2 r p d :
    quotes2 q (t_delim q) (mkIn (q :: q :: q :: q :: q :: r) p d) = Ok [q; q] (after [q; q] (q :: q :: q :: r) p d).
  Proof. apply quotes2_two; [exact Hq|apply t_delim_ok]. Qed.
End Situations.

(* ---- strings without a run of three quote characters --------------------------------------------- *)
Lemma no3_skip q k b r : byte_eqb b q = false -> no3 q k (b :: r) = no3 q 0 r.
Proof. intro H. cbn [no3]. rewrite H. reflexivity. Qed.

Lemma no3_cases q s : no3 q 0 s = true -> (match s with [] => True | b :: _ => byte_eqb b q = true end) ->
  s = [] \/ s = [q] \/ s = [q; q] \/
  (exists b s2, s = q :: b :: s2 /\ byte_eqb b q = false /\ no3 q 0 (b :: s2) = true) \/
  (exists b s2, s = q :: q :: b :: s2 /\ byte_eqb b q = false /\ no3 q 0 (b :: s2) = true).
Proof.
  intros H Hh. destruct s as [|b0 s1]; [auto|]. apply byte_eqb_eq in Hh. subst b0.
  cbn [no3] in H. rewrite byte_eqb_refl in H. apply andb_true_iff in H as [_ H].
  destruct s1 as [|b1 s2]; [auto|]. cbn [no3] in H.
  destruct (byte_eqb b1 q) eqn:E1.
  - apply byte_eqb_eq in E1. subst b1. apply andb_true_iff in H as [_ H].
    destruct s2 as [|b2 s3]; [auto|]. cbn [no3] in H.
    destruct (byte_eqb b2 q) eqn:E2.
    + apply andb_true_iff in H as [H _]. change (0 + 1 + 1)%N with 2%N in H. discriminate.
    + right; right; right; right. exists b2, s3. repeat split; auto. rewrite no3_skip by exact E2. exact H.
  - right; right; right; left. exists b1, s2. repeat split; auto. rewrite no3_skip by exact E1. exact H.
Qed.

Lemma no3_app_other q : forall c k s, forallb (fun b => negb (byte_eqb b q)) c = true -> c <> [] ->
  no3 q k (c ++ s) = no3 q 0 s.
Proof.
  induction c as [|b c IH]; intros k s Hc Hne; [congruence|].
  cbn [forallb] in Hc. apply andb_true_iff in Hc as [Hb Hc].
  assert (E : byte_eqb b q = false) by (destruct (byte_eqb b q); [discriminate|reflexivity]).
  cbn [app]. rewrite no3_skip by exact E. destruct c as [|b' c']; [reflexivity|].
  apply IH; [exact Hc|discriminate].
Qed.
