(* Spec/EditSpec.v — the reference side of property C08.

   Part 1: the edit vocabulary (paths, the values handed to the API, the operations).
   Part 2: the plain ordered tree: keys, order, plain values; no decor, no reprs, no spans,
           no flags.  `abs` forgets the formatting of a document tree (Model/Tree.v).
   Part 3: `spec_apply`: what every operation does to the plain tree, written from the API
           documentation with positional list combinators (position of the first entry with a
           key, firstn / skipn splices, the reference stable sort of Spec/Ordered.v) and NOT by
           transcription of the Rust methods (that is Model/Edit.v):
             insert   an existing key keeps its position and gets the new value, a new key goes last
                      (a key that only holds an `Item::None` placeholder counts as new)
             remove   the other entries keep their order
             push / insert / replace / remove on arrays and arrays of tables: the Vec laws
             sort     stable sort by key (dotted sub-tables are part of the syntactic table: sorted too)
             sort_by  stable sort by the caller's comparator, at the table and inside its dotted sub-tables
             fmt      no change of content
             make_value        a table becomes an inline table, an array of tables an array, all the way down
             into_table        an inline table becomes a table (its children stay what they are)
             into_array_of_tables  a non-empty array of inline tables becomes an array of tables
             doc[a][b].. = x   walks / creates the path (missing steps become inline tables) and assigns
   `spec_apply` is total: where the API call is not offered or panics it returns the tree
   unchanged; the theorems only speak about applicable operations. *)
From TV Require Import Base.Prelude Spec.Ordered Model.Datetime Model.Numbers Model.Tree.

(* ------------------------------------------------------------------------------------ *)
(** * 1. Vocabulary *)

Inductive seg : Set := SKey (k : bytes) | SIdx (n : nat).
Definition path := list seg.

(* a value built through the API: `Value::from(i64 / &str / bool)`, `Array::from_iter`,
   `InlineTable::from_iter` *)
Inductive pv : Set :=
| PVInt (z : Z)
| PVStr (s : bytes)
| PVBool (b : bool)
| PVArr (l : list pv)
| PVInl (l : list (bytes * pv)).

(* an item assigned through `IndexMut` *)
Inductive ipay : Set := IPValue (v : pv) | IPTable.

(* the comparators handed to sort_values_by (the closures of harness/src/bin/c08.rs):
     CKeyDesc   |k1, _, k2, _| k2.get().cmp(k1.get())         keys, descending
     CRank      |_, a, _, b| rank(a).cmp(&rank(b))            placeholders, then everything that is not an
                                                               integer (all tied), then integers by value *)
Inductive scmp : Set := CKeyDesc | CRank.

Inductive op : Set :=
| OInsert (p : path) (k : bytes) (v : pv)       (* Table::insert(k, value(v)) / InlineTable::insert(k, v) *)
| OInsertTable (p : path) (k : bytes)           (* Table::insert(k, Item::Table(Table::new())) *)
| OInsertAot (p : path) (k : bytes)             (* Table::insert(k, Item::ArrayOfTables(a)), a = one Table::new() pushed *)
| ORemove (p : path) (k : bytes)                (* Table::remove / InlineTable::remove *)
| OArrPush (p : path) (v : pv)                  (* Array::push *)
| OArrInsert (p : path) (i : nat) (v : pv)      (* Array::insert *)
| OArrReplace (p : path) (i : nat) (v : pv)     (* Array::replace *)
| OArrRemove (p : path) (i : nat)               (* Array::remove *)
| OAotPush (p : path)                           (* ArrayOfTables::push(Table::new()) *)
| OAotRemove (p : path) (i : nat)               (* ArrayOfTables::remove *)
| OSort (p : path)                              (* Table::sort_values / InlineTable::sort_values *)
| OFmt (p : path)                               (* Table::fmt / InlineTable::fmt / Array::fmt *)
| OMakeValue (p : path) (k : bytes)             (* Item::make_value on the entry k of the table at p *)
| OIntoTable (p : path) (k : bytes)             (* Item::into_table, result stored back in the slot *)
| OIntoAot (p : path) (k : bytes)               (* Item::into_array_of_tables, result stored back *)
| OISet (ks : list bytes) (x : ipay)            (* doc[k1][k2]...[kn] = x  (IndexMut, auto-vivification) *)
| OSortBy (p : path) (c : scmp).                (* Table::sort_values_by / InlineTable::sort_values_by *)

(* ------------------------------------------------------------------------------------ *)
(** * 2. The plain ordered tree *)

Inductive plain : Set :=
| PNone                                        (* an `Item::None` placeholder entry (never in a parsed document) *)
| PScalar (s : scalar)
| PArr (aot : bool) (l : list plain)           (* aot = array of tables (elements are tables) *)
| PTab (il dotted : bool) (l : list (bytes * plain)).
    (* il = inline table; dotted = the table is the proxy of a dotted key (`a.b = 1` makes `a` one).
       The dotted bit is the one piece of syntax the content keeps: `sort_values` is documented to
       sort "the syntactic table (everything under the [header])", i.e. dotted sub-tables too. *)

Definition entries := list (bytes * plain).

Fixpoint abs_value (v : value) : plain :=
  match v with
  | VScalar s _ _ => PScalar s
  | VArray vals _ _ _ _ => PArr false (map abs_item vals)
  | VInline items _ _ dt _ _ =>
    PTab true dt (map (fun kv => match kv with (k, i) => (k_key k, abs_item i) end) items)
  end
with abs_item (i : item) : plain :=
  match i with
  | INone => PNone
  | IValue v => abs_value v
  | ITable t => abs_tbl t
  | IAot ts _ => PArr true (map abs_tbl ts)
  end
with abs_tbl (t : tbl) : plain :=
  match t with
  | Tbl items _ _ dt _ _ =>
    PTab false dt (map (fun kv => match kv with (k, i) => (k_key k, abs_item i) end) items)
  end.

(* the content of a whole document *)
Definition abs (root : tbl) : plain := abs_tbl root.

(* no placeholder anywhere (true of every parsed document; kept by every operation) *)
Fixpoint no_none (x : plain) : bool :=
  match x with
  | PNone => false
  | PScalar _ => true
  | PArr _ l => forallb no_none l
  | PTab _ _ l => forallb (fun kv => match kv with (_, c) => no_none c end) l
  end.

(* ------------------------------------------------------------------------------------ *)
(** * 3. Reference operations *)

(* -- ordered entries, by position -- *)
Fixpoint pos_from (n : nat) (k : bytes) (l : entries) : option nat :=
  match l with
  | [] => None
  | (k', _) :: l' => if bytes_eqb k' k then Some n else pos_from (S n) k l'
  end.
(* position of the first entry whose key is k *)
Definition pos (k : bytes) (l : entries) : option nat := pos_from 0 k l.

Definition e_get (k : bytes) (l : entries) : option plain :=
  match pos k l with Some i => optmap snd (nth_error l i) | None => None end.
(* an existing key keeps its position (and spelling); a new key goes last *)
Definition e_put0 (k : bytes) (x : plain) (l : entries) : entries :=
  match pos k l with
  | Some i => firstn i l ++ map (fun kv => (fst kv, x)) (firstn 1 (skipn i l)) ++ skipn (S i) l
  | None => l ++ [(k, x)]
  end.
(* the other entries keep their order *)
Definition e_del (k : bytes) (l : entries) : entries :=
  match pos k l with
  | Some i => firstn i l ++ skipn (S i) l
  | None => l
  end.
(* a key whose item is a placeholder is absent: the write and entry paths forget it first
   (never the case on a document reached from a parsed one) *)
Definition e_forget (k : bytes) (l : entries) : entries :=
  match e_get k l with Some PNone => e_del k l | _ => l end.
Definition e_put (k : bytes) (x : plain) (l : entries) : entries := e_put0 k x (e_forget k l).
(* change the value stored under k *)
Definition e_upd (k : bytes) (g : plain -> plain) (l : entries) : entries :=
  match pos k l with
  | Some i => firstn i l ++ map (fun kv => (fst kv, g (snd kv))) (firstn 1 (skipn i l)) ++ skipn (S i) l
  | None => l
  end.
Definition e_sort (l : entries) : entries := stable_sort (fun a b => key_leb (fst a) (fst b)) l.
Definition e_of_list (l : entries) : entries := fold_left (fun acc kv => e_put (fst kv) (snd kv) acc) l [].

(* -- vectors, by position -- *)
Definition v_ins {A} (i : nat) (x : A) (l : list A) : list A := firstn i l ++ x :: skipn i l.
Definition v_del {A} (i : nat) (l : list A) : list A := firstn i l ++ skipn (S i) l.
Definition v_upd {A} (i : nat) (g : A -> A) (l : list A) : list A :=
  firstn i l ++ map g (firstn 1 (skipn i l)) ++ skipn (S i) l.

(* -- the value built from a payload -- *)
Fixpoint pv_plain (v : pv) : plain :=
  match v with
  | PVInt z => PScalar (SInt z)
  | PVStr s => PScalar (SString s)
  | PVBool b => PScalar (SBool b)
  | PVArr l => PArr false (map pv_plain l)
  | PVInl l => PTab true false (e_of_list (map (fun kv => match kv with (k, x) => (k, pv_plain x) end) l))
  end.
Definition ipay_plain (x : ipay) : plain :=
  match x with IPValue v => pv_plain v | IPTable => PTab false false [] end.

(* -- walking a path -- *)
Fixpoint spec_at (p : path) (f : plain -> plain) (t : plain) : plain :=
  match p with
  | [] => f t
  | SKey k :: p' => match t with PTab il d l => PTab il d (e_upd k (spec_at p' f) l) | _ => t end
  | SIdx n :: p' => match t with PArr a l => PArr a (v_upd n (spec_at p' f) l) | _ => t end
  end.

(* -- conversions -- *)
(* Item::make_value: "a table becomes an inline table, an array of tables an array", recursively
   through tables; values are left alone *)
Fixpoint spec_make_value (x : plain) : plain :=
  match x with
  | PTab false _ l => PTab true false (map (fun kv => match kv with (k, c) => (k, spec_make_value c) end) l)
  | PArr true l => PArr false (map spec_make_value l)
  | _ => x
  end.
Definition spec_into_table (x : plain) : plain :=
  match x with PTab true _ l => PTab false false l | _ => x end.
Definition is_inline_tab (x : plain) : bool := match x with PTab true _ _ => true | _ => false end.
Definition spec_into_aot (x : plain) : plain :=
  match x with
  | PArr false l =>
    match l with
    | [] => x
    | _ => if forallb is_inline_tab l then PArr true (map spec_into_table l) else x
    end
  | _ => x
  end.

(* sort_values: "sorts the syntactic table (everything under the [header])": the entries of the
   table and of the dotted tables of the same kind below it; "does not affect sub-tables" *)
Fixpoint spec_sort (x : plain) : plain :=
  match x with
  | PTab il d l =>
    PTab il d (e_sort (map (fun kv => match kv with
                                       | (k, c) =>
                                         (k, match c with
                                             | PTab il' true _ => if Bool.eqb il il' then spec_sort c else c
                                             | _ => c
                                             end)
                                       end) l))
  | _ => x
  end.

(* sort_values_by: the same with the caller's comparator: "sorts the syntactic table (everything under the
   [header])", stable.  What the comparator is shown:
     Table::sort_values_by         the key and the item;
     InlineTable::sort_values_by   the key and the VALUE: entries that are not values (never stored by the parser;
                                   left by an assignment through IndexMut) are put in front of all values, tied *)
Definition rank_le (a b : nat * Z) : bool :=
  Nat.ltb (fst a) (fst b) || (Nat.eqb (fst a) (fst b) && Z.leb (snd a) (snd b)).
Definition plain_rank (x : plain) : nat * Z :=
  match x with
  | PNone => (0, 0%Z)
  | PScalar (SInt z) => (2, z)
  | _ => (1, 0%Z)
  end.
Definition is_val (x : plain) : bool :=
  match x with PScalar _ | PArr false _ | PTab true _ _ => true | _ => false end.
Definition scmp_base (c : scmp) (a b : bytes * plain) : bool :=
  match c with
  | CKeyDesc => key_leb (fst b) (fst a)
  | CRank => rank_le (plain_rank (snd a)) (plain_rank (snd b))
  end.
(* "a is not greater than b" for the entries of a table (il = false) / an inline table (il = true) *)
Definition scmp_le (c : scmp) (il : bool) (a b : bytes * plain) : bool :=
  if il then
    match is_val (snd a), is_val (snd b) with
    | true, true => scmp_base c a b
    | true, false => false
    | false, _ => true
    end
  else scmp_base c a b.
Fixpoint spec_sort_by (cm : scmp) (x : plain) : plain :=
  match x with
  | PTab il d l =>
    PTab il d (stable_sort (scmp_le cm il)
                 (map (fun kv => match kv with
                                 | (k, c) =>
                                   (k, match c with
                                       | PTab il' true _ => if Bool.eqb il il' then spec_sort_by cm c else c
                                       | _ => c
                                       end)
                                 end) l))
  | _ => x
  end.

(* doc[k1]...[kn] = x *)
Fixpoint spec_iset (ks : list bytes) (x : plain) (t : plain) : plain :=
  match ks with
  | [] => x
  | k :: ks' =>
    match t with
    | PTab il d l =>
      PTab il d (e_put k (spec_iset ks' x (match e_get k (e_forget k l) with Some c => c | None => PNone end)) l)
    | PNone => PTab true false [(k, spec_iset ks' x PNone)]
    | _ => t
    end
  end.

Definition on_tab (g : entries -> entries) (x : plain) : plain :=
  match x with PTab il d l => PTab il d (g l) | _ => x end.
Definition on_std_tab (g : entries -> entries) (x : plain) : plain :=
  match x with PTab false d l => PTab false d (g l) | _ => x end.
Definition on_arr (aot : bool) (g : list plain -> list plain) (x : plain) : plain :=
  match x with PArr a l => if Bool.eqb a aot then PArr a (g l) else x | _ => x end.

(* the reference step *)
Definition spec_apply (o : op) (t : plain) : plain :=
  match o with
  | OInsert p k v => spec_at p (on_tab (e_put k (pv_plain v))) t
  | OInsertTable p k => spec_at p (on_std_tab (e_put k (PTab false false []))) t
  | OInsertAot p k => spec_at p (on_std_tab (e_put k (PArr true [PTab false false []]))) t
  | ORemove p k => spec_at p (on_tab (e_del k)) t
  | OArrPush p v => spec_at p (on_arr false (fun l => l ++ [pv_plain v])) t
  | OArrInsert p i v => spec_at p (on_arr false (v_ins i (pv_plain v))) t
  | OArrReplace p i v => spec_at p (on_arr false (v_upd i (fun _ => pv_plain v))) t
  | OArrRemove p i => spec_at p (on_arr false (v_del i)) t
  | OAotPush p => spec_at p (on_arr true (fun l => l ++ [PTab false false []])) t
  | OAotRemove p i => spec_at p (on_arr true (v_del i)) t
  | OSort p => spec_at p spec_sort t
  | OFmt p => t
  | OMakeValue p k => spec_at p (on_std_tab (e_upd k spec_make_value)) t
  | OIntoTable p k => spec_at p (on_std_tab (e_upd k spec_into_table)) t
  | OIntoAot p k => spec_at p (on_std_tab (e_upd k spec_into_aot)) t
  | OISet ks x => spec_iset ks (ipay_plain x) t
  | OSortBy p c => spec_at p (spec_sort_by c) t
  end.
