(* Spec/Lex.v — the lexical rules of toml.abnf v1.0.0 as value-carrying relations over byte
   strings: `tok t v` reads "the text t is a <rule> and denotes v".  Written from the grammar
   and the prose of the TOML 1.0.0 README; independent of the parser (the byte classes come
   from Spec/Abnf.v; the only thing taken from the model is the *type* `fval` of exact
   decimals, Model/Numbers.v).

   Reading of `non-ascii` (Spec/Abnf.v): a byte >= 0x80, together with the side condition that
   the token text is well-formed UTF-8 (`utf8_valid_b t = true` in the four string relations):
   on well-formed text every such byte belongs to the encoding of one scalar value in
   %x80-D7FF / %xE000-10FFFF, which is what the ABNF says.  (Proofs/LexEquivBase.v,
   `non_ascii_bytes_ok`, proves that reading: well-formed texts are exactly the sequences of
   ASCII bytes and UTF-8 encodings of those scalar values.)

   Prose rules attached to the relations, each marked (prose) below:
     - escapes denote the named scalar; \uXXXX / \UXXXXXXXX must be Unicode scalar values;
     - a newline immediately following an opening delimiter (3 quotation marks or 3 apostrophes) is trimmed;
     - a line-ending backslash trims the newline and ALL following whitespace and newlines;
     - a newline inside a multi-line string denotes LF also when spelled CR LF (the
       normalisation toml-test and the code use);
     - integers: value by positional (Horner) evaluation; floats: the exact decimal written. *)
From TV Require Import Base.Prelude Base.Utf8 Spec.Abnf.
From TV Require Model.Numbers.

Local Open Scope N_scope.

Notation fval := Numbers.fval.
Notation FDec := Numbers.FDec.
Notation FInf := Numbers.FInf.
Notation FNan := Numbers.FNan.

(* every byte of t is in class c *)
Definition all (c : byte -> bool) (t : bytes) : Prop := forallb c t = true.

(* ---- trivia and bare keys (no value) --------------------------------------------------- *)

(* ws = *wschar *)
Definition ws_tok (t : bytes) : Prop := all wschar t.

(* newline = %x0A / %x0D.0A *)
Definition newline_tok (t : bytes) : Prop := t = [x0a] \/ t = [x0d; x0a].

(* comment = comment-start-symbol *non-eol ;  comment-start-symbol = %x23 *)
Definition comment_tok (t : bytes) : Prop := exists u, t = x23 :: u /\ all non_eol u.

(* unquoted-key = 1*( ALPHA / DIGIT / %x2D / %x5F ) ; it denotes itself *)
Definition unquoted_key_tok (t : bytes) : Prop := t <> [] /\ all unquoted_key_char t.

(* ---- value-carrying languages: text ⇓ bytes ---------------------------------------------- *)
Definition lang := bytes -> bytes -> Prop.

(* one byte of class c, denoting itself *)
Definition one (c : byte -> bool) : lang := fun t v => exists b, c b = true /\ t = [b] /\ v = [b].
(* a fixed spelling, denoting nothing *)
Definition skip (l : bytes) : lang := fun t v => t = l /\ v = [].
(* a fixed spelling, denoting itself *)
Definition keep (l : bytes) : lang := fun t v => t = l /\ v = l.
(* L1 L2 *)
Definition cat (L1 L2 : lang) : lang :=
  fun t v => exists t1 v1 t2 v2, t = t1 ++ t2 /\ v = v1 ++ v2 /\ L1 t1 v1 /\ L2 t2 v2.
(* L1 / L2 *)
Definition either (L1 L2 : lang) : lang := fun t v => L1 t v \/ L2 t v.
(* [ L ] *)
Definition maybe (L : lang) : lang := fun t v => (t = [] /\ v = []) \/ L t v.
(* *L *)
Inductive star (L : lang) : lang :=
| star_nil : star L [] []
| star_cons t1 v1 t2 v2 : L t1 v1 -> star L t2 v2 -> star L (t1 ++ t2) (v1 ++ v2).
(* 1*L *)
Definition star1 (L : lang) : lang := cat L (star L).

(* ---- numbers ------------------------------------------------------------------------------- *)

(* value of one digit: '0'-'9', 'A'-'F', 'a'-'f' (HEXDIG is case-insensitive, RFC 5234) *)
Definition digit_of (b : byte) : N :=
  if rng 48 57 b then b2n b - 48 else if rng 65 70 b then b2n b - 55 else b2n b - 87.
(* positional value of a digit string *)
Definition horner (radix : N) (ds : bytes) : N :=
  fold_left (fun acc b => acc * radix + digit_of b) ds 0.

(* [ minus / plus ] ;  minus = %x2D, plus = %x2B *)
Definition sign (t : bytes) (neg : bool) : Prop :=
  (t = [] /\ neg = false) \/ (t = [x2b] /\ neg = false) \/ (t = [x2d] /\ neg = true).
Definition signed (neg : bool) (n : N) : Z := if neg then (- Z.of_N n)%Z else Z.of_N n.

(* ( d / underscore d ) ⇓ the digit ;  underscore = %x5F *)
Definition us_digit (d : byte -> bool) : lang := either (one d) (cat (skip [x5f]) (one d)).

(* unsigned-dec-int = DIGIT / digit1-9 1*( DIGIT / underscore DIGIT )   ⇓ its digits *)
Definition unsigned_dec_int : lang :=
  either (one digit) (cat (one digit1_9) (star1 (us_digit digit))).

(* dec-int = [ minus / plus ] unsigned-dec-int *)
Definition dec_int_tok (t : bytes) (z : Z) : Prop :=
  exists s neg u ds, t = s ++ u /\ sign s neg /\ unsigned_dec_int u ds /\ z = signed neg (horner 10 ds).

(* hex-int = hex-prefix HEXDIG *( HEXDIG / underscore HEXDIG ) ; likewise oct-int, bin-int *)
Definition prefixed_int_tok (prefix : bytes) (d : byte -> bool) (radix : N) (t : bytes) (z : Z) : Prop :=
  exists u ds, t = prefix ++ u /\ cat (one d) (star (us_digit d)) u ds /\ z = Z.of_N (horner radix ds).
Definition hex_int_tok := prefixed_int_tok [x30; x78] hexdig 16.       (* hex-prefix = %x30.78 *)
Definition oct_int_tok := prefixed_int_tok [x30; x6f] digit0_7 8.      (* oct-prefix = %x30.6F *)
Definition bin_int_tok := prefixed_int_tok [x30; x62] digit0_1 2.      (* bin-prefix = %x30.62 *)

(* integer = dec-int / hex-int / oct-int / bin-int *)
Definition integer_tok (t : bytes) (z : Z) : Prop :=
  dec_int_tok t z \/ hex_int_tok t z \/ oct_int_tok t z \/ bin_int_tok t z.

(* boolean = true / false *)
Definition boolean_tok (t : bytes) (b : bool) : Prop :=
  (t = t_true /\ b = true) \/ (t = t_false /\ b = false).

(* zero-prefixable-int = DIGIT *( DIGIT / underscore DIGIT )   ⇓ its digits *)
Definition zero_prefixable_int_tok : lang := cat (one digit) (star (us_digit digit)).
(* frac = decimal-point zero-prefixable-int ;  decimal-point = %x2E *)
Definition frac_tok : lang := cat (skip [x2e]) zero_prefixable_int_tok.
(* exp = "e" float-exp-part ;  float-exp-part = [ minus / plus ] zero-prefixable-int *)
Definition exp_tok (t : bytes) (e : Z) : Prop :=
  exists c s neg u ds, t = c :: s ++ u /\ (c = x65 \/ c = x45) /\ sign s neg
                       /\ zero_prefixable_int_tok u ds /\ e = signed neg (horner 10 ds).

(* float = float-int-part ( exp / frac [ exp ] ) / special-float ;  float-int-part = dec-int
   special-float = [ minus / plus ] ( inf / nan )
   The value is the exact decimal written: sign, all mantissa digits, decimal exponent
   (FDec neg m e stands for (-1)^neg * m * 10^e; the sign of zero is kept). *)
Inductive float_tok : bytes -> fval -> Prop :=
| float_exp s neg ip ipd ex e :
    sign s neg -> unsigned_dec_int ip ipd -> exp_tok ex e ->
    float_tok (s ++ ip ++ ex) (FDec neg (horner 10 ipd) e)
| float_frac s neg ip ipd fr frd :
    sign s neg -> unsigned_dec_int ip ipd -> frac_tok fr frd ->
    float_tok (s ++ ip ++ fr) (FDec neg (horner 10 (ipd ++ frd)) (- Z.of_nat (length frd))%Z)
| float_frac_exp s neg ip ipd fr frd ex e :
    sign s neg -> unsigned_dec_int ip ipd -> frac_tok fr frd -> exp_tok ex e ->
    float_tok (s ++ ip ++ fr ++ ex) (FDec neg (horner 10 (ipd ++ frd)) (e - Z.of_nat (length frd))%Z)
| float_inf s neg : sign s neg -> float_tok (s ++ t_inf) (FInf neg)
| float_nan s neg : sign s neg -> float_tok (s ++ t_nan) (FNan neg).

(* ---- strings ------------------------------------------------------------------------------- *)

(* newline inside a multi-line string ⇓ LF  (prose: CR LF is normalised) *)
Definition newline_lf : lang := fun t v => newline_tok t /\ v = [x0a].

(* escaped = escape escape-seq-char ;  escape = %x5C
   escape-seq-char = %x22 / %x5C / %x62 / %x66 / %x6E / %x72 / %x74 / %x75 4HEXDIG / %x55 8HEXDIG
   (prose) it denotes the UTF-8 encoding of the named scalar value; \u and \U must name a
   Unicode scalar value (0..D7FF or E000..10FFFF). *)
Inductive escaped_tok : lang :=
| esc_simple b n : escape_simple b = Some n -> escaped_tok [x5c; b] (utf8_encode n)
| esc_hex b k h : escape_hex b = Some k -> length h = k -> all hexdig h ->
    is_scalar (horner 16 h) = true ->
    escaped_tok (x5c :: b :: h) (utf8_encode (horner 16 h)).

(* basic-char = basic-unescaped / escaped *)
Definition basic_char : lang := either (one basic_unescaped) escaped_tok.
(* basic-string = quotation-mark *basic-char quotation-mark ;  quotation-mark = %x22 *)
Definition basic_string_tok (t v : bytes) : Prop :=
  utf8_valid_b t = true /\ exists body, t = [x22] ++ body ++ [x22] /\ star basic_char body v.

(* literal-string = apostrophe *literal-char apostrophe ;  apostrophe = %x27 *)
Definition literal_string_tok (t v : bytes) : Prop :=
  utf8_valid_b t = true /\ exists body, t = [x27] ++ body ++ [x27] /\ star (one literal_char) body v.

(* quoted-key = basic-string / literal-string ;  simple-key = quoted-key / unquoted-key *)
Definition simple_key_tok (t v : bytes) : Prop :=
  basic_string_tok t v \/ literal_string_tok t v \/ (unquoted_key_tok t /\ v = t).

(* (prose) "a newline immediately following the opening delimiter will be trimmed":
   [ newline ] is taken whenever the text after the delimiter starts with one *)
Definition starts_with_newline (t : bytes) : Prop := exists nl t', newline_tok nl /\ t = nl ++ t'.
Definition first_newline (nl body : bytes) : Prop :=
  newline_tok nl \/ (nl = [] /\ ~ starts_with_newline body).

(* mll-content = mll-char / newline *)
Definition mll_content_tok : lang := either (one mll_char) newline_lf.
(* mll-quotes = 1*2apostrophe *)
Definition mll_quotes : lang := either (keep [x27]) (keep [x27; x27]).
(* ml-literal-body = *mll-content *( mll-quotes 1*mll-content ) [ mll-quotes ] *)
Definition ml_literal_body_tok : lang :=
  cat (star mll_content_tok) (cat (star (cat mll_quotes (star1 mll_content_tok))) (maybe mll_quotes)).
(* ml-literal-string = ml-literal-string-delim [ newline ] ml-literal-body ml-literal-string-delim
   ml-literal-string-delim = 3apostrophe *)
Definition ml_literal_string_tok (t v : bytes) : Prop :=
  utf8_valid_b t = true /\
  exists nl body, t = [x27; x27; x27] ++ nl ++ body ++ [x27; x27; x27]
                  /\ first_newline nl body /\ ml_literal_body_tok body v.

(* mlb-escaped-nl = escape ws newline *( wschar / newline )      ⇓ nothing *)
Inductive ws_newline_run : bytes -> Prop :=
| wn_nil : ws_newline_run []
| wn_ws b t : wschar b = true -> ws_newline_run t -> ws_newline_run (b :: t)
| wn_nl nl t : newline_tok nl -> ws_newline_run t -> ws_newline_run (nl ++ t).
Definition mlb_escaped_nl_tok (t : bytes) : Prop :=
  exists w nl tl, t = [x5c] ++ w ++ nl ++ tl /\ ws_tok w /\ newline_tok nl /\ ws_newline_run tl.
(* (prose) "... it will be trimmed along with all whitespace and newlines up to the next
   non-whitespace character or closing delimiter": what follows mlb-escaped-nl starts with
   neither a wschar nor a newline *)
Definition starts_with_ws_or_newline (t : bytes) : Prop :=
  (exists b t', t = b :: t' /\ wschar b = true) \/ starts_with_newline t.

(* mlb-char = mlb-unescaped / escaped *)
Definition mlb_char : lang := either (one mlb_unescaped) escaped_tok.
(* *mlb-content ;  mlb-content = mlb-char / newline / mlb-escaped-nl *)
Inductive mlb_contents : lang :=
| mlc_nil : mlb_contents [] []
| mlc_char c v t w : mlb_char c v -> mlb_contents t w -> mlb_contents (c ++ t) (v ++ w)
| mlc_newline c v t w : newline_lf c v -> mlb_contents t w -> mlb_contents (c ++ t) (v ++ w)
| mlc_escaped_nl e t w : mlb_escaped_nl_tok e -> ~ starts_with_ws_or_newline t ->
    mlb_contents t w -> mlb_contents (e ++ t) w.
(* 1*mlb-content *)
Definition mlb_contents1 : lang := fun t v => t <> [] /\ mlb_contents t v.
(* mlb-quotes = 1*2quotation-mark *)
Definition mlb_quotes : lang := either (keep [x22]) (keep [x22; x22]).
(* ml-basic-body = *mlb-content *( mlb-quotes 1*mlb-content ) [ mlb-quotes ] *)
Definition ml_basic_body_tok : lang :=
  cat mlb_contents (cat (star (cat mlb_quotes mlb_contents1)) (maybe mlb_quotes)).
(* ml-basic-string = ml-basic-string-delim [ newline ] ml-basic-body ml-basic-string-delim
   ml-basic-string-delim = 3quotation-mark *)
Definition ml_basic_string_tok (t v : bytes) : Prop :=
  utf8_valid_b t = true /\
  exists nl body, t = [x22; x22; x22] ++ nl ++ body ++ [x22; x22; x22]
                  /\ first_newline nl body /\ ml_basic_body_tok body v.

(* string = ml-basic-string / basic-string / ml-literal-string / literal-string *)
Definition string_tok (t v : bytes) : Prop :=
  ml_basic_string_tok t v \/ basic_string_tok t v \/ ml_literal_string_tok t v \/ literal_string_tok t v.
