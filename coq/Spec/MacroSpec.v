(* Spec/MacroSpec.v — what C19 quantifies over and what it compares with.

   * `astmt`: a TOML document as a list of abstract statements WITH the spelling choices that
     decide which Rust tokens the text lexes to (bare or quoted key segments, sign and digits of
     numbers, the delimiter / fraction / offset spelling of a date-time, a trailing comma).
   * `tokens_of`: the Rust token trees rustc hands to `toml!` for that text.
   * `macro_supported`: the decidable class of spellings the claim is about — every statement
     is built from token shapes some rule of the macro is meant for (see the comment there for
     what is excluded and why).
   * `eval`: what PARSING the same text yields, stated on the abstract statements with the
     definition rules of Spec/Defs.v (`at_path`, `insert_kv`, `def_elem`: the Coq rendering of
     lib/gen_toml.py `ref_eval`), numbers read by the TOML rules, date-times read by the
     document grammar (`doc_datetime`).  `eval l = None` for a document that is not valid TOML
     1.0.0 (or is in the undecided class U1): the claim is about valid documents only.

   Order of keys: a `toml::Table` is a BTreeMap (or, with `preserve_order`, an IndexMap); the
   claim is "up to map key order".  `eval` keeps every table in first-mention order (a [header]
   that arrives for a table so far only implied by a longer header leaves it where it is —
   `def_table_here`; Spec/Defs.v moves it to the end, which is the only difference and only a
   difference of order), and with that convention the model of the macro produces LITERALLY the
   same association lists; both observations sort by key. *)
From TV Require Import Base.Prelude Base.Utf8 Model.Datetime Model.Numbers Model.Macro Spec.Defs.

(* ------------------------------------------------------------------------------------------ *)
(* abstract statements                                                                        *)
(* ------------------------------------------------------------------------------------------ *)
(* a bare key is cut by its dashes into parts; each part lexes as a Rust identifier or as an
   integer literal *)
Inductive kpart : Set := KPIdent (s : bytes) | KPInt (s : bytes).
Inductive kseg : Set := KBare (parts : list kpart) | KQuoted (s : bytes).
Definition kpath := list kseg.

Inductive sign : Set := SgNone | SgPlus | SgMinus.

Inductive dtoff : Set :=
| ONone
| OZ (c : byte)                              (* Z or z, glued to the seconds token *)
| ONum (neg : bool) (hh mm : bytes).         (* -hh:mm / +hh:mm *)
Record dtsp : Set := mkDtsp {
  ds_date : option (bytes * bytes * bytes);                  (* yyyy mm dd *)
  ds_delim : byte;                                           (* T, t or space; used when date and time are both there *)
  ds_time : option (bytes * bytes * bytes * option bytes);   (* hh mm ss and the fraction digits *)
  ds_off : dtoff }.

Inductive aval : Set :=
| AStr (s : bytes)                           (* a basic string, by value *)
| AInt (sg : sign) (text : bytes)            (* 42, 1_000, 0xff, 0o7, 0b1: the unsigned spelling *)
| AFloat (sg : sign) (text : bytes)          (* 1.5, 1e6, 6.0E-2, 1_0.0_1 *)
| ASpecial (sg : sign) (nan : bool)          (* inf, nan *)
| ABool (b : bool)
| ADt (d : dtsp)
| AArr (l : list aval) (trailing : bool)     (* [v, v,] *)
| AInl (l : list (kpath * aval)).            (* { p = v, p = v } *)

Inductive astmt : Set :=
| AHeader (p : kpath)
| AArrHeader (p : kpath)
| AKeyVal (p : kpath) (v : aval).

(* ------------------------------------------------------------------------------------------ *)
(* the source text's key strings and date-time text                                           *)
(* ------------------------------------------------------------------------------------------ *)
Definition part_text (p : kpart) : bytes := match p with KPIdent s => s | KPInt s => s end.
Definition seg_string (s : kseg) : bytes :=
  match s with
  | KQuoted s => s
  | KBare ps => join_bytes [c_minus] (List.map part_text ps)
  end.
Definition path_strings (p : kpath) : list bytes := List.map seg_string p.

Definition off_text (o : dtoff) : bytes :=
  match o with
  | ONone => []
  | OZ c => [c]
  | ONum neg hh mm => [if neg then c_minus else c_plus] ++ hh ++ [c_colon] ++ mm
  end.
Definition time_text (t : bytes * bytes * bytes * option bytes) : bytes :=
  let '(hh, mi, ss, fr) := t in
  hh ++ [c_colon] ++ mi ++ [c_colon] ++ ss ++ (match fr with Some f => [c_dot] ++ f | None => [] end).
Definition date_text (d : bytes * bytes * bytes) : bytes :=
  let '(y, m, dd) := d in y ++ [c_minus] ++ m ++ [c_minus] ++ dd.
(* the date-time exactly as the TOML text spells it *)
Definition dt_text (d : dtsp) : bytes :=
  match ds_date d, ds_time d with
  | Some dd, Some t => date_text dd ++ [ds_delim d] ++ time_text t ++ off_text (ds_off d)
  | Some dd, None => date_text dd
  | None, Some t => time_text t ++ off_text (ds_off d)
  | None, None => []
  end.

(* ------------------------------------------------------------------------------------------ *)
(* tokens_of                                                                                  *)
(* ------------------------------------------------------------------------------------------ *)
Definition part_tok (p : kpart) : tt := match p with KPIdent s => TIdent s | KPInt s => TLit (LInt s) end.
Definition seg_toks (s : kseg) : list tt :=
  match s with
  | KQuoted s => [TLit (LStr s)]
  | KBare ps => join_tts (Some c_minus) (List.map (fun p => [part_tok p]) ps)
  end.
Definition key_toks (p : kpath) : list tt := join_tts (Some c_dot) (List.map seg_toks p).

Definition sign_toks (s : sign) : list tt :=
  match s with SgNone => [] | SgPlus => [TPunct c_plus] | SgMinus => [TPunct c_minus] end.

Definition c_space : byte := x20.
(* the seconds token: `00`, `00Z`, `00.5`, `00.5z` *)
Definition sec_tok (ss : bytes) (fr : option bytes) (o : dtoff) : tt :=
  let suf := match o with OZ c => [c] | _ => [] end in
  match fr with
  | Some f => TLit (LFloat (ss ++ [c_dot] ++ f ++ suf))
  | None => TLit (LInt (ss ++ suf))
  end.
Definition off_toks (o : dtoff) : list tt :=
  match o with
  | ONum neg hh mm => [TPunct (if neg then c_minus else c_plus); TLit (LInt hh); TPunct c_colon; TLit (LInt mm)]
  | _ => []
  end.
Definition time_toks (hh : list tt) (t : bytes * bytes * bytes * option bytes) (o : dtoff) : list tt :=
  let '(_, mi, ss, fr) := t in
  hh ++ [TPunct c_colon; TLit (LInt mi); TPunct c_colon; sec_tok ss fr o] ++ off_toks o.
Definition dt_toks (d : dtsp) : list tt :=
  match ds_date d, ds_time d with
  | Some (y, m, dd), None =>
    [TLit (LInt y); TPunct c_minus; TLit (LInt m); TPunct c_minus; TLit (LInt dd)]
  | Some (y, m, dd), Some ((hh, _, _, _) as t) =>
    [TLit (LInt y); TPunct c_minus; TLit (LInt m); TPunct c_minus]
    ++ time_toks (if byte_eqb (ds_delim d) c_space
                  then [TLit (LInt dd); TLit (LInt hh)]          (* `27 07` *)
                  else [TLit (LInt (dd ++ [ds_delim d] ++ hh))]) (* `27T07`: one literal with a suffix *)
                 t (ds_off d)
  | None, Some ((hh, _, _, _) as t) => time_toks [TLit (LInt hh)] t (ds_off d)
  | None, None => []
  end.

Fixpoint val_toks (v : aval) : list tt :=
  match v with
  | AStr s => [TLit (LStr s)]
  | AInt sg t => sign_toks sg ++ [TLit (LInt t)]
  | AFloat sg t => sign_toks sg ++ [TLit (LFloat t)]
  | ASpecial sg nan => sign_toks sg ++ [TIdent (if nan then id_nan else id_inf)]
  | ABool b => [TIdent (if b then id_true else id_false)]
  | ADt d => dt_toks d
  | AArr l tr =>
    [TGroup DBracket (join_tts (Some c_comma) (List.map val_toks l) ++ (if tr then [TPunct c_comma] else []))]
  | AInl ps =>
    [TGroup DBrace (join_tts (Some c_comma)
                      (List.map (fun px => key_toks (fst px) ++ [TPunct c_eq] ++ val_toks (snd px)) ps))]
  end.

Definition stmt_toks (s : astmt) : list tt :=
  match s with
  | AHeader p => [TGroup DBracket (key_toks p)]
  | AArrHeader p => [TGroup DBracket [TGroup DBracket (key_toks p)]]
  | AKeyVal p v => key_toks p ++ [TPunct c_eq] ++ val_toks v
  end.
Definition tokens_of (l : list astmt) : list tt := flat_map stmt_toks l.

(* ------------------------------------------------------------------------------------------ *)
(* macro_supported                                                                            *)
(* ------------------------------------------------------------------------------------------ *)
Definition is_alpha_ (b : byte) : bool := inr 65 90 b || inr 97 122 b || byte_eqb b x5f.
Definition is_alnum_ (b : byte) : bool := is_alpha_ b || is_digit b.
(* lexes as ONE Rust identifier (or keyword) token other than `_` *)
Definition ident_ok (s : bytes) : bool :=
  match s with
  | [] => false
  | b :: r => is_alpha_ b && forallb is_alnum_ r && negb (bytes_eqb s [x5f])
  end.
(* An integer-like key part reaches `concat!`, which prints the literal's VALUE: supported are
   the spellings that print as themselves (decimal, no leading zero, no underscore, no radix
   prefix).  `05`, `1_000`, `0x10` compile and silently name another key: Props/C19.v
   `C19_int_key_refuted`. *)
Definition int_key_ok (s : bytes) : bool :=
  match s with
  | [] => false
  | _ => forallb is_digit s && bytes_eqb (DatetimeStd.dec_digits (dec_value s)) s
  end.
Definition part_ok (p : kpart) : bool :=
  match p with KPIdent s => ident_ok s | KPInt s => int_key_ok s end.
Definition seg_ok (s : kseg) : bool :=
  match s with
  | KQuoted _ => true
  | KBare ps => match ps with [] => false | _ => forallb part_ok ps end
  end.
(* rustc's LEXER: an integer directly followed by `.` and then by something that does not start an
   identifier is one float literal (`1.2`, `1."x"` give the tokens `1.2` / `1.` `"x"`), so the text of
   such a path does not lex to `key_toks`: a bare segment ending in an integer part must be followed
   by a bare segment starting with an identifier part (`1.e5` and `1.b` do lex as `1` `.` `b`). *)
Definition seg_ends_int (s : kseg) : bool :=
  match s with
  | KBare ps => match rev ps with KPInt _ :: _ => true | _ => false end
  | KQuoted _ => false
  end.
Definition seg_starts_ident (s : kseg) : bool :=
  match s with KBare (KPIdent _ :: _) => true | _ => false end.
Fixpoint path_lex_ok (p : kpath) : bool :=
  match p with
  | s1 :: ((s2 :: _) as tl) => (negb (seg_ends_int s1) || seg_starts_ident s2) && path_lex_ok tl
  | _ => true
  end.
Definition path_ok (p : kpath) : bool :=
  match p with [] => false | _ => forallb seg_ok p && path_lex_ok p end.

Definition digits_ok (s : bytes) : bool := match s with [] => false | _ => forallb is_digit s end.

(* digits of the radix and underscores only, at least one digit: what the Rust lexer takes as
   the body of an integer literal without a suffix *)
Definition radix_char (base : N) (b : byte) : bool :=
  byte_eqb b x5f || match radix_digit base b with Some _ => true | None => false end.
Definition int_text_ok (t : bytes) : bool :=
  let '(base, body) := int_prefix t in
  forallb (radix_char base) body
  && existsb (fun b => match radix_digit base b with Some _ => true | None => false end) body.
Definition int_magnitude (t : bytes) : N :=
  let '(base, body) := int_prefix t in
  match radix_value base 0 (remove_us body) with Some v => v | None => 0%N end.
(* An unsigned or `+` integer is an i32 in the macro (inference fallback of an unsuffixed literal): above
   i32::MAX it is a compile error.  A NEGATIVE integer is typed i64 (`macros::number`): everything TOML
   allows, down to i64::MIN. *)
Definition int_ok (sg : sign) (t : bytes) : bool :=
  int_text_ok t
  && match sg with
     | SgMinus => (int_magnitude t <=? 9223372036854775808)%N
     | _ => (int_magnitude t <=? 2147483647)%N
     end.

Definition float_char (b : byte) : bool :=
  is_digit b || byte_eqb b x5f || byte_eqb b c_dot || byte_eqb b x65 || byte_eqb b x45
  || byte_eqb b c_plus || byte_eqb b c_minus.
Definition float_ok (t : bytes) : bool :=
  match t with b :: _ => is_digit b && forallb float_char t | [] => false end.

Definition delim_ok (b : byte) : bool := byte_eqb b x54 || byte_eqb b x74 || byte_eqb b c_space.
Definition time_ok_sp (t : bytes * bytes * bytes * option bytes) : bool :=
  let '(hh, mi, ss, fr) := t in
  digits_ok hh && digits_ok mi && digits_ok ss && match fr with Some f => digits_ok f | None => true end.
Definition date_ok_sp (d : bytes * bytes * bytes) : bool :=
  let '(y, m, dd) := d in digits_ok y && digits_ok m && digits_ok dd.
(* the macro has rules for `-hh:mm` and for a glued `Z`; `+hh:mm` matches no rule (a compile
   error, outside the claim) *)
Definition off_ok (o : dtoff) : bool :=
  match o with
  | ONone => true
  | OZ c => byte_eqb c x5a || byte_eqb c x7a
  | ONum neg hh mm => neg && digits_ok hh && digits_ok mm
  end.
Definition dt_ok (d : dtsp) : bool :=
  match ds_date d, ds_time d with
  | Some dd, Some t => date_ok_sp dd && delim_ok (ds_delim d) && time_ok_sp t && off_ok (ds_off d)
  | Some dd, None => date_ok_sp dd && match ds_off d with ONone => true | _ => false end
  | None, Some t => time_ok_sp t && match ds_off d with ONone => true | _ => false end
  | None, None => false
  end.

Fixpoint val_ok (v : aval) : bool :=
  match v with
  | AStr _ => true
  | AInt sg t => int_ok sg t
  | AFloat _ t => float_ok t
  | ASpecial _ _ => true
  | ABool _ => true
  | ADt d => dt_ok d
  | AArr l tr => forallb val_ok l && (match l with [] => negb tr | _ => true end)
  | AInl ps => forallb (fun px => path_ok (fst px) && val_ok (snd px)) ps
  end.
Definition stmt_ok (s : astmt) : bool :=
  match s with
  | AHeader p => path_ok p
  | AArrHeader p => path_ok p
  | AKeyVal p v => path_ok p && val_ok v
  end.
(* `toml!{}` needs at least one token *)
Definition macro_supported (l : list astmt) : bool :=
  match l with [] => false | _ => forallb stmt_ok l end.

(* ------------------------------------------------------------------------------------------ *)
(* eval: what parsing the text yields                                                         *)
(* ------------------------------------------------------------------------------------------ *)
(* ---- numbers by the TOML rules ---- *)
(* digit (_? digit)* *)
Fixpoint us_digits (isd : byte -> bool) (prev_digit : bool) (s : bytes) : bool :=
  match s with
  | [] => prev_digit
  | b :: r => if isd b then us_digits isd true r
              else if byte_eqb b x5f then prev_digit && us_digits isd false r
              else false
  end.
Definition is_radix_digit (base : N) (b : byte) : bool :=
  match radix_digit base b with Some _ => true | None => false end.
Definition no_leading_zero (s : bytes) : bool :=
  match s with x30 :: _ :: _ => false | _ => true end.
Definition toml_int_syntax (sg : sign) (t : bytes) : bool :=
  let '(base, body) := int_prefix t in
  us_digits (is_radix_digit base) false body
  && (if (base =? 10)%N then no_leading_zero body else match sg with SgNone => true | _ => false end).
Definition apply_sign (sg : sign) (n : N) : Z :=
  match sg with SgMinus => (- Z.of_N n)%Z | _ => Z.of_N n end.
Definition int_meaning (sg : sign) (t : bytes) : option Z :=
  if toml_int_syntax sg t then
    let '(base, body) := int_prefix t in
    match radix_value base 0 (remove_us body) with
    | Some v => let z := apply_sign sg v in if in_i64 z then Some z else None
    | None => None
    end
  else None.

(* dec-int (frac [exp] | exp) *)
Definition split_first (f : byte -> bool) (s : bytes) : bytes * bytes := span_while (fun b => negb (f b)) s.
Definition toml_float_syntax (t : bytes) : bool :=
  let '(ip, r1) := split_first (fun b => byte_eqb b c_dot || byte_eqb b x65 || byte_eqb b x45) t in
  us_digits is_digit false ip && no_leading_zero ip &&
  match r1 with
  | [] => false
  | b :: r2 =>
    let exp_ok (e : bytes) : bool :=
        match e with
        | s :: e' => if byte_eqb s c_plus || byte_eqb s c_minus then us_digits is_digit false e'
                     else us_digits is_digit false e
        | [] => false
        end in
    if byte_eqb b c_dot
    then let '(fp, r3) := split_first (fun b => byte_eqb b x65 || byte_eqb b x45) r2 in
         us_digits is_digit false fp && match r3 with [] => true | _ :: e => exp_ok e end
    else exp_ok r2
  end.
Definition is_minus (sg : sign) : bool := match sg with SgMinus => true | _ => false end.
Definition float_meaning (sg : sign) (t : bytes) : option fval :=
  if toml_float_syntax t then
    match fdec_of_text (remove_us t) with
    | FDec _ m e => if overflows m e then None else Some (FDec (is_minus sg) m e)
    | _ => None
    end
  else None.

(* ---- trees to plain values ---- *)
Fixpoint erase_node (n : node mval) : mval :=
  match n with
  | NVal v => v
  | NTab _ items => MTab (List.map (fun kn => (fst kn, erase_node (snd kn))) items)
  | NAot elems => MArr (List.map (fun el => MTab (List.map (fun kn => (fst kn, erase_node (snd kn))) el)) elems)
  end.
Definition erase_tree (t : stree mval) : mtab := List.map (fun kn => (fst kn, erase_node (snd kn))) t.

(* ---- values ---- *)
Fixpoint val_meaning (v : aval) : option mval :=
  match v with
  | AStr s => Some (MStr s)
  | AInt sg t => optmap MInt (int_meaning sg t)
  | AFloat sg t => optmap MFloat (float_meaning sg t)
  | ASpecial sg nan => Some (MFloat (if nan then FNan (is_minus sg) else FInf (is_minus sg)))
  | ABool b => Some (MBool b)
  | ADt d => optmap MDatetime (doc_datetime (dt_text d))
  | AArr l _ =>
    optmap MArr
      ((fix go (l : list aval) : option (list mval) :=
          match l with
          | [] => Some []
          | x :: tl => match val_meaning x, go tl with
                       | Some a, Some b => Some (a :: b)
                       | _, _ => None
                       end
          end) l)
  | AInl ps =>
    match (fix go (l : list (kpath * aval)) : option (list (list bytes * mval)) :=
             match l with
             | [] => Some []
             | px :: tl => match val_meaning (snd px), go tl with
                           | Some a, Some b => Some ((path_strings (fst px), a) :: b)
                           | _, _ => None
                           end
             end) ps with
    | Some pairs =>
      (* an inline table is its own closed world with the key/value rule of Spec/Defs.v *)
      match inline_fold [] pairs with
      | ROk t => Some (MTab (erase_tree t))
      | _ => None
      end
    | None => None
    end
  end.

(* ---- statements ---- *)
Definition stmt_meaning (s : astmt) : option (stmt mval) :=
  match s with
  | AHeader p => Some (SHeader (path_strings p))
  | AArrHeader p => Some (SArrHeader (path_strings p))
  | AKeyVal p v => optmap (SKeyVal (path_strings p)) (val_meaning v)
  end.

(* [.. k] for a table that so far is only a super-table: it becomes defined, in place *)
Definition def_table_here (k : bytes) (t : stree mval) : res (stree mval) :=
  match sget t k with
  | None => ROk (spush t k (NTab KHeader []))
  | Some (NTab KSuper c) => ROk (sset t k (NTab KHeader c))
  | Some _ => RInvalid
  end.

Definition ref_step (s : sstate mval) (st : stmt mval) : res (sstate mval) :=
  let '(t, cur) := s in
  match st with
  | SKeyVal p v => t' <~ at_path cur (insert_kv true p v) t ;; ROk (t', cur)
  | SHeader p =>
    match unsnoc p with
    | None => RInvalid
    | Some (pre, k) => t' <~ at_path pre (def_table_here k) t ;; ROk (t', p)
    end
  | SArrHeader p =>
    match unsnoc p with
    | None => RInvalid
    | Some (pre, k) => t' <~ at_path pre (def_elem k) t ;; ROk (t', p)
    end
  end.

Fixpoint ref_fold (s : sstate mval) (l : list astmt) : option (sstate mval) :=
  match l with
  | [] => Some s
  | st :: tl =>
    match stmt_meaning st with
    | Some m => match ref_step s m with ROk s' => ref_fold s' tl | _ => None end
    | None => None
    end
  end.

(* the table a valid document denotes; None = not (decidedly) valid *)
Definition eval (l : list astmt) : option mval :=
  match ref_fold sstate0 l with
  | Some (t, _) => Some (MTab (erase_tree t))
  | None => None
  end.
Definition valid (l : list astmt) : Prop := exists v, eval l = Some v.

(* the same statements through the unmodified Spec/Defs.v interpreter (moves a table to the
   end when its own header arrives late).  Proofs/MacroEq.v `eval_same_as_spec`: whenever this
   says valid, so does `eval`, and the two trees have the same content under every key,
   recursively (the order of keys is the only difference) *)
Fixpoint stmts_meaning (l : list astmt) : option (list (stmt mval)) :=
  match l with
  | [] => Some []
  | s :: tl => match stmt_meaning s, stmts_meaning tl with
               | Some a, Some b => Some (a :: b)
               | _, _ => None
               end
  end.
Definition spec_eval (l : list astmt) : option (stree mval) :=
  match stmts_meaning l with
  | Some ms => match spec_run ms with Valid t => Some t | _ => None end
  | None => None
  end.
