(* Spec/SerdeData.v — the universe the serde properties (C07, C13, C17) quantify over:
   descriptors `ty` of Rust types expressible in the part of the serde data model TOML
   supports, values `sval`, the typing judgement `has_type`, value equality `sval_eq`
   (equality except NaN = NaN ignoring sign and payload, maps unordered), the TOML value tree
   `tomlval` both serializer families produce, and the independent notion of "documented
   unsupported shape" (`unsupported`).

   Mirrors lib/gen_serde.py / harness/src/bin/serde/dynty.rs (`DynType`, `Dyn`):
     types   b | i8..u128 | f32 f64 | c | s | dt da ti | u | O t | L t | T<n> t* | M k v
             S<n> name (field t)* | N name t | P<n> name t* | Z name | E<n> name variant*
     values  B I D G C S X U N | O v | L<n> v* | M<n> (k v)* | R<n> v* | W v | E<idx> payload
   Not in the universe (the extracted driver answers `-` for them): the untyped `toml::Value`
   leaf (`v`), `Spanned<T>`. *)
From TV Require Import Base.Prelude Base.Utf8 Model.Datetime Model.SerNum Spec.DatetimeSpec.
From Coq Require Import Permutation.

(* ---- types ---------------------------------------------------------------------------- *)
Inductive fw : Set := F32 | F64.
Inductive dtk : Set := KDatetime | KDate | KTime.      (* toml_datetime::{Datetime, Date, Time} *)

Inductive ty : Set :=
| TBool
| TInt (w : int_ty)
| TFloat (w : fw)
| TChar
| TStr
| TDatetime (k : dtk)
| TUnit                                      (* () *)
| TUnitStruct (name : bytes)                 (* struct Z; *)
| TOpt (t : ty)                              (* Option<T> *)
| TSeq (t : ty)                              (* Vec<T> *)
| TTuple (ts : list ty)                      (* (T0, T1, ..) *)
| TMap (k : ty) (v : ty)                     (* BTreeMap<K, V> / HashMap<K, V> *)
| TStruct (name : bytes) (fs : list (bytes * ty))
| TNewtype (name : bytes) (t : ty)           (* struct N(T); *)
| TTupleStruct (name : bytes) (ts : list ty) (* struct P(T0, T1, ..); *)
| TEnum (name : bytes) (vs : list (bytes * variant))
with variant : Set :=
| VUnit
| VNewtype (t : ty)
| VTuple (ts : list ty)
| VStruct (fs : list (bytes * ty)).

(* ---- values --------------------------------------------------------------------------- *)
Inductive sval : Set :=
| SBool (b : bool)
| SInt (z : Z)
| SF64 (bits : N)            (* IEEE-754 binary64 bit pattern *)
| SF32 (bits : N)            (* IEEE-754 binary32 bit pattern *)
| SChar (c : N)              (* Unicode scalar value *)
| SStr (s : bytes)
| SDt (d : datetime)
| SUnit
| SNone
| SSome (v : sval)
| SSeq (vs : list sval)      (* Vec, tuple, tuple struct, tuple-variant payload *)
| SMap (es : list (sval * sval))
| SRec (vs : list sval)      (* struct, struct-variant payload: the field values in order *)
| SNewtype (v : sval)
| SVariant (idx : nat) (payload : sval).

(* ---- the TOML value tree (toml_edit::Value without formatting / toml::Value) ------------- *)
Inductive tomlval : Set :=
| VStr (s : bytes)
| VInt (z : Z)
| VFloat (bits : N)
| VBool (b : bool)
| VDatetime (d : datetime)
| VArr (xs : list tomlval)
| VTab (es : list (bytes * tomlval)).      (* entries in iteration order *)

(* ---- names the two crates reserve for their in-band tunnels ------------------------------- *)
(* toml_datetime/src/datetime.rs: FIELD = "$__toml_private_datetime", NAME = "$__toml_private_Datetime" *)
Definition DT_FIELD : bytes :=
  [x24; x5f; x5f; x74; x6f; x6d; x6c; x5f; x70; x72; x69; x76; x61; x74; x65; x5f; x64; x61; x74; x65; x74; x69; x6d; x65].
Definition DT_NAME : bytes :=
  [x24; x5f; x5f; x74; x6f; x6d; x6c; x5f; x70; x72; x69; x76; x61; x74; x65; x5f; x44; x61; x74; x65; x74; x69; x6d; x65].
(* serde_spanned/src/spanned.rs: NAME = "$__serde_spanned_private_Spanned" *)
Definition SPANNED_NAME : bytes :=
  [x24; x5f; x5f; x73; x65; x72; x64; x65; x5f; x73; x70; x61; x6e; x6e; x65; x64; x5f; x70; x72; x69; x76; x61; x74; x65; x5f;
   x53; x70; x61; x6e; x6e; x65; x64].
Definition private_name (n : bytes) : bool := bytes_eqb n DT_NAME || bytes_eqb n SPANNED_NAME.

(* ---- floats as bit patterns ---------------------------------------------------------------- *)
Local Open Scope N_scope.
Definition is_nan64 (b : N) : bool := ((b / 2 ^ 52) mod 2 ^ 11 =? 2047) && negb (b mod 2 ^ 52 =? 0).
Definition is_nan32 (b : N) : bool := ((b / 2 ^ 23) mod 2 ^ 8 =? 255) && negb (b mod 2 ^ 23 =? 0).
Definition f64_eq (a b : N) : Prop := a = b \/ (is_nan64 a = true /\ is_nan64 b = true).
Definition f32_eq (a b : N) : Prop := a = b \/ (is_nan32 a = true /\ is_nan32 b = true).
Local Close Scope N_scope.

(* ---- small list helpers --------------------------------------------------------------------- *)
Fixpoint mem_bytes (k : bytes) (l : list bytes) : bool :=
  match l with [] => false | x :: l' => bytes_eqb k x || mem_bytes k l' end.
Fixpoint nodup_bytes (l : list bytes) : bool :=
  match l with [] => true | x :: l' => negb (mem_bytes x l') && nodup_bytes l' end.

Section All2.
  Context {A B : Type}.
  Variable f : A -> B -> bool.
  Fixpoint all2b (l1 : list A) (l2 : list B) : bool :=
    match l1, l2 with
    | [], [] => true
    | a :: l1', b :: l2' => f a b && all2b l1' l2'
    | _, _ => false
    end.
End All2.

(* the i-th element handed to a continuation (written this way so that recursive definitions
   over `ty` can call themselves on the selected variant) *)
Definition pick {A R : Type} (f : A -> R) (d : R) : list A -> nat -> R :=
  fix go (l : list A) (i : nat) : R :=
    match l, i with
    | a :: _, O => f a
    | _ :: l', S i' => go l' i'
    | [], _ => d
    end.

(* ---- map keys: the text a key value stands for (None: not a string-like key) ------------------
   strings, unit variants, newtype structs of those (toml_edit/src/ser/key.rs) *)
Fixpoint key_text (t : ty) (v : sval) {struct t} : option bytes :=
  match t, v with
  | TStr, SStr s => Some s
  | TNewtype _ t', SNewtype v' => key_text t' v'
  | TEnum _ vs, SVariant i _ =>
    pick (fun nv => match snd nv with VUnit => Some (fst nv) | _ => None end) None vs i
  | _, _ => None
  end.

Fixpoint somes {A} (l : list (option A)) : list A :=
  match l with [] => [] | Some a :: l' => a :: somes l' | None :: l' => somes l' end.

(* ---- typing -----------------------------------------------------------------------------------
   has_type v t: the value is one of the Rust type, AND the type nodes the value visits are
   ones a Rust program can declare and the property speaks about:
     * field names of a struct / struct variant pairwise distinct, variant names of an enum
       pairwise distinct (Rust identifiers are);
     * struct names are not the reserved tunnel names;
     * keys of one map stand for pairwise distinct texts (no colliding keys);
     * the value type of a map is not an Option (a `None` map value is dropped by design and
       cannot be told from an absent entry — coordinator decision S4; lib/props/c07.py excludes
       the slightly larger class "Option behind newtypes");
     * date-times are values the date-time parser can produce (`in_range`, C12).
   Option<Option<_>> is NOT excluded here (lib/props/c07.py excludes it; the theorems hold
   with it). *)
Definition dt_kind_ok (k : dtk) (d : datetime) : bool :=
  match k, d_date d, d_time d, d_offset d with
  | KDatetime, _, _, _ => true
  | KDate, Some _, None, None => true
  | KTime, None, Some _, None => true
  | _, _, _, _ => false
  end.

Definition is_opt (t : ty) : bool := match t with TOpt _ => true | _ => false end.

Fixpoint has_type_b (t : ty) (v : sval) {struct t} : bool :=
  match t, v with
  | TBool, SBool _ => true
  | TInt w, SInt z => in_ty w z
  | TFloat F64, SF64 b => (b <? 2 ^ 64)%N
  | TFloat F32, SF32 b => (b <? 2 ^ 32)%N
  | TChar, SChar c => is_scalar c
  | TStr, SStr _ => true
  | TDatetime k, SDt d => in_range d && dt_kind_ok k d
  | TUnit, SUnit => true
  | TUnitStruct _, SUnit => true
  | TOpt _, SNone => true
  | TOpt t', SSome v' => has_type_b t' v'
  | TSeq t', SSeq vs => forallb (has_type_b t') vs
  | TTuple ts, SSeq vs => all2b has_type_b ts vs
  | TMap kt vt, SMap es =>
    negb (is_opt vt)
    && forallb (fun kv => has_type_b kt (fst kv) && has_type_b vt (snd kv)) es
    && nodup_bytes (somes (map (fun kv => key_text kt (fst kv)) es))
  | TStruct n fs, SRec vs =>
    negb (private_name n) && nodup_bytes (map fst fs)
    && all2b (fun ft v' => has_type_b (snd ft) v') fs vs
  | TNewtype n t', SNewtype v' => has_type_b t' v'
  | TTupleStruct n ts, SSeq vs => all2b has_type_b ts vs
  | TEnum n vs, SVariant i p =>
    nodup_bytes (map fst vs)
    && pick (fun nv => has_type_variant_b (snd nv) p) false vs i
  | _, _ => false
  end
with has_type_variant_b (var : variant) (p : sval) {struct var} : bool :=
  match var, p with
  | VUnit, SUnit => true
  | VNewtype t, p => has_type_b t p
  | VTuple ts, SSeq vs => all2b has_type_b ts vs
  | VStruct fs, SRec vs => nodup_bytes (map fst fs) && all2b (fun ft v' => has_type_b (snd ft) v') fs vs
  | _, _ => false
  end.

Definition has_type (v : sval) (t : ty) : Prop := has_type_b t v = true.
Definition has_type_variant (p : sval) (var : variant) : Prop := has_type_variant_b var p = true.

(* ---- equality of values: equal except NaN = NaN (sign and payload ignored); maps unordered ----- *)
Inductive sval_eq : sval -> sval -> Prop :=
| eq_bool b : sval_eq (SBool b) (SBool b)
| eq_int z : sval_eq (SInt z) (SInt z)
| eq_f64 a b : f64_eq a b -> sval_eq (SF64 a) (SF64 b)
| eq_f32 a b : f32_eq a b -> sval_eq (SF32 a) (SF32 b)
| eq_char c : sval_eq (SChar c) (SChar c)
| eq_str s : sval_eq (SStr s) (SStr s)
| eq_dt d : sval_eq (SDt d) (SDt d)
| eq_unit : sval_eq SUnit SUnit
| eq_none : sval_eq SNone SNone
| eq_some a b : sval_eq a b -> sval_eq (SSome a) (SSome b)
| eq_seq xs ys : Forall2 sval_eq xs ys -> sval_eq (SSeq xs) (SSeq ys)
| eq_map es fs fs' :
    Permutation fs fs' ->
    Forall2 (fun p q => sval_eq (fst p) (fst q) /\ sval_eq (snd p) (snd q)) es fs' ->
    sval_eq (SMap es) (SMap fs)
| eq_rec xs ys : Forall2 sval_eq xs ys -> sval_eq (SRec xs) (SRec ys)
| eq_newtype a b : sval_eq a b -> sval_eq (SNewtype a) (SNewtype b)
| eq_variant i a b : sval_eq a b -> sval_eq (SVariant i a) (SVariant i b).

(* ---- error kinds of the serializers (toml_edit::ser::Error, wrapped by toml::ser::Error) -------- *)
Inductive err : Set :=
| EUnsupportedType (name : option bytes)   (* "unsupported {name} type" / "unsupported rust type" *)
| EOutOfRange (name : option bytes)        (* "out-of-range value for {name} type" *)
| EUnsupportedNone                         (* "unsupported None value" *)
| EKeyNotString                            (* "map key was not a string" *)
| EDateInvalid                             (* "a serialized date was invalid" *)
| EInt128 (unsigned : bool)                (* serde default: Custom("i128 is not supported") / "u128 is not supported" *)
| EU64TooLarge                             (* toml::Value: Custom("u64 value was too large") *)
| ECustomDatetime                          (* Custom("failed to parse datetime") *)
| EBadCase                                 (* the (type, value) pair is ill-typed: not a Rust value *)
| EDe                                      (* any deserialization error (messages are not modelled) *)
| EUnmodelled.                             (* a deserializer path the model does not cover (unreachable from serializer output) *)

Inductive result (A : Type) : Type := Ok (a : A) | Err (e : err).
Arguments Ok {A} a.
Arguments Err {A} e.

Definition rbind {A B} (r : result A) (f : A -> result B) : result B :=
  match r with Ok a => f a | Err e => Err e end.
Definition rmap {A B} (f : A -> B) (r : result A) : result B :=
  match r with Ok a => Ok (f a) | Err e => Err e end.

Section ListM.
  Context {A B C : Type}.
  Variable f : A -> result C.
  Fixpoint mapM (l : list A) : result (list C) :=
    match l with
    | [] => Ok []
    | a :: l' => rbind (f a) (fun c => rbind (mapM l') (fun cs => Ok (c :: cs)))
    end.
  Variable g : A -> B -> result C.
  Fixpoint zipM (l1 : list A) (l2 : list B) : result (list C) :=
    match l1, l2 with
    | [], [] => Ok []
    | a :: l1', b :: l2' => rbind (g a b) (fun c => rbind (zipM l1' l2') (fun cs => Ok (c :: cs)))
    | _, _ => Err EBadCase
    end.
End ListM.

(* ---- the documented unsupported shapes ------------------------------------------------------------
   `unsupported c t v e`: the value v : t contains, at a position the data model mapping cannot
   express, the shape named by error e.  c = CField: v is directly the value of a struct field,
   struct-variant field or map entry (the only place a `None` is tolerated: the entry is left
   out); c = CElem: anywhere else.
     - None anywhere but directly in a field / map entry (in a sequence, tuple, newtype, variant
       payload, behind Some)                                             EUnsupportedNone
     - unit, unit structs                                                EUnsupportedType (Some name)
     - a map key that is not a string / unit variant / newtype of those    EKeyNotString (EInt128 for 128-bit keys)
     - u64 beyond i64::MAX                                               EOutOfRange (Some "u64")
     - any i128 / u128 (serde's default `serialize_i128` refuses them)    EInt128 *)
Inductive ctx : Set := CField | CElem.

Definition S_unit : bytes := [x75; x6e; x69; x74].      (* "unit" *)
Definition S_u64 : bytes := [x75; x36; x34].            (* "u64" *)

(* a key the key serializer refuses *)
Inductive bad_key : ty -> sval -> err -> Prop :=
| bk_newtype n t v e : bad_key t v e -> bad_key (TNewtype n t) (SNewtype v) e
| bk_i128 v : bad_key (TInt TI128) v (EInt128 false)
| bk_u128 v : bad_key (TInt TU128) v (EInt128 true)
| bk_other t v : key_text t v = None ->
    (forall n t', t <> TNewtype n t') -> t <> TInt TI128 -> t <> TInt TU128 ->
    bad_key t v EKeyNotString.

Inductive unsupported : ctx -> ty -> sval -> err -> Prop :=
| u_none t : unsupported CElem (TOpt t) SNone EUnsupportedNone
| u_some c t v e : unsupported CElem t v e -> unsupported c (TOpt t) (SSome v) e
| u_unit c : unsupported c TUnit SUnit (EUnsupportedType (Some S_unit))
| u_unit_struct c n : unsupported c (TUnitStruct n) SUnit (EUnsupportedType (Some n))
| u_u64 c w z : ser_method_of w = M_u64 -> fits_i64 z = false ->
    unsupported c (TInt w) (SInt z) (EOutOfRange (Some S_u64))
| u_i128 c w z : ser_method_of w = M_i128 -> unsupported c (TInt w) (SInt z) (EInt128 false)
| u_u128 c w z : ser_method_of w = M_u128 -> unsupported c (TInt w) (SInt z) (EInt128 true)
| u_seq c t vs v e : In v vs -> unsupported CElem t v e -> unsupported c (TSeq t) (SSeq vs) e
| u_tuple c ts vs i t v e : nth_error ts i = Some t -> nth_error vs i = Some v ->
    unsupported CElem t v e -> unsupported c (TTuple ts) (SSeq vs) e
| u_tuple_struct c n ts vs i t v e : nth_error ts i = Some t -> nth_error vs i = Some v ->
    unsupported CElem t v e -> unsupported c (TTupleStruct n ts) (SSeq vs) e
| u_map_key c kt vt es k v e : In (k, v) es -> bad_key kt k e -> unsupported c (TMap kt vt) (SMap es) e
| u_map_val c kt vt es k v e : In (k, v) es -> unsupported CField vt v e -> unsupported c (TMap kt vt) (SMap es) e
| u_struct c n fs vs i f t v e : nth_error fs i = Some (f, t) -> nth_error vs i = Some v ->
    unsupported CField t v e -> unsupported c (TStruct n fs) (SRec vs) e
| u_newtype c n t v e : unsupported CElem t v e -> unsupported c (TNewtype n t) (SNewtype v) e
| u_variant c n vs i vn var p e : nth_error vs i = Some (vn, var) ->
    unsupported_variant var p e -> unsupported c (TEnum n vs) (SVariant i p) e
with unsupported_variant : variant -> sval -> err -> Prop :=
| uv_newtype t p e : unsupported CElem t p e -> unsupported_variant (VNewtype t) p e
| uv_tuple ts vs i t v e : nth_error ts i = Some t -> nth_error vs i = Some v ->
    unsupported CElem t v e -> unsupported_variant (VTuple ts) (SSeq vs) e
| uv_struct fs vs i f t v e : nth_error fs i = Some (f, t) -> nth_error vs i = Some v ->
    unsupported CField t v e -> unsupported_variant (VStruct fs) (SRec vs) e.

Definition supported (t : ty) (v : sval) : Prop := forall e, ~ unsupported CElem t v e.

(* ---- the document root --------------------------------------------------------------------------------
   A TOML document is a table.  `table_shaped t v`: the value is written as a table — a struct, a
   map, or a newtype / tuple / struct variant (a one-entry table), possibly behind Some / newtype
   structs.  toml::to_string looks at the root value itself first: a struct variant there is
   refused by name and a tuple variant is written as a bare array (hence refused as a non-table).
   (A Datetime at the root is a non-table on every document route since the repair of
   C06-root-datetime-printed-as-table: toml's serialize_struct passes the struct name on.) *)
Fixpoint table_shaped (t : ty) (v : sval) {struct t} : bool :=
  match t, v with
  | TOpt t', SSome v' => table_shaped t' v'
  | TNewtype _ t', SNewtype v' => table_shaped t' v'
  | TMap _ _, SMap _ => true
  | TStruct _ _, SRec _ => true
  | TEnum _ vs, SVariant i _ => pick (fun nv => match snd nv with VUnit => false | _ => true end) false vs i
  | _, _ => false
  end.

Definition toml_root_shaped (t : ty) (v : sval) : bool :=
  match t, v with
  | TEnum _ vs, SVariant i _ => pick (fun nv => match snd nv with VNewtype _ => true | _ => false end) false vs i
  | _, _ => table_shaped t v
  end.

(* the root value is a struct variant of the enum called n *)
Definition root_struct_variant (t : ty) (v : sval) (n : bytes) : Prop :=
  exists vs i p vn fs, t = TEnum n vs /\ v = SVariant i p /\ nth_error vs i = Some (vn, VStruct fs).

(* ---- induction principle for the nested mutual type ------------------------------------------------ *)
Section TyInd.
  Variable P : ty -> Prop.
  Variable Q : variant -> Prop.
  Hypothesis HBool : P TBool.
  Hypothesis HInt : forall w, P (TInt w).
  Hypothesis HFloat : forall w, P (TFloat w).
  Hypothesis HChar : P TChar.
  Hypothesis HStr : P TStr.
  Hypothesis HDatetime : forall k, P (TDatetime k).
  Hypothesis HUnit : P TUnit.
  Hypothesis HUnitStruct : forall n, P (TUnitStruct n).
  Hypothesis HOpt : forall t, P t -> P (TOpt t).
  Hypothesis HSeq : forall t, P t -> P (TSeq t).
  Hypothesis HTuple : forall ts, Forall P ts -> P (TTuple ts).
  Hypothesis HMap : forall k v, P k -> P v -> P (TMap k v).
  Hypothesis HStruct : forall n fs, Forall (fun ft => P (snd ft)) fs -> P (TStruct n fs).
  Hypothesis HNewtype : forall n t, P t -> P (TNewtype n t).
  Hypothesis HTupleStruct : forall n ts, Forall P ts -> P (TTupleStruct n ts).
  Hypothesis HEnum : forall n vs, Forall (fun nv => Q (snd nv)) vs -> P (TEnum n vs).
  Hypothesis HVUnit : Q VUnit.
  Hypothesis HVNewtype : forall t, P t -> Q (VNewtype t).
  Hypothesis HVTuple : forall ts, Forall P ts -> Q (VTuple ts).
  Hypothesis HVStruct : forall fs, Forall (fun ft => P (snd ft)) fs -> Q (VStruct fs).

  Fixpoint ty_ind2 (t : ty) : P t :=
    match t with
    | TBool => HBool
    | TInt w => HInt w
    | TFloat w => HFloat w
    | TChar => HChar
    | TStr => HStr
    | TDatetime k => HDatetime k
    | TUnit => HUnit
    | TUnitStruct n => HUnitStruct n
    | TOpt t' => HOpt t' (ty_ind2 t')
    | TSeq t' => HSeq t' (ty_ind2 t')
    | TTuple ts =>
      HTuple ts ((fix go (l : list ty) : Forall P l :=
                    match l with [] => Forall_nil _ | x :: l' => Forall_cons x (ty_ind2 x) (go l') end) ts)
    | TMap k v => HMap k v (ty_ind2 k) (ty_ind2 v)
    | TStruct n fs =>
      HStruct n fs ((fix go (l : list (bytes * ty)) : Forall (fun ft => P (snd ft)) l :=
                       match l with
                       | [] => Forall_nil _
                       | x :: l' => Forall_cons x (match x return P (snd x) with (_, t') => ty_ind2 t' end) (go l')
                       end) fs)
    | TNewtype n t' => HNewtype n t' (ty_ind2 t')
    | TTupleStruct n ts =>
      HTupleStruct n ts ((fix go (l : list ty) : Forall P l :=
                            match l with [] => Forall_nil _ | x :: l' => Forall_cons x (ty_ind2 x) (go l') end) ts)
    | TEnum n vs =>
      HEnum n vs ((fix go (l : list (bytes * variant)) : Forall (fun nv => Q (snd nv)) l :=
                     match l with
                     | [] => Forall_nil _
                     | x :: l' => Forall_cons x (match x return Q (snd x) with (_, var) => variant_ind2 var end) (go l')
                     end) vs)
    end
  with variant_ind2 (var : variant) : Q var :=
    match var with
    | VUnit => HVUnit
    | VNewtype t => HVNewtype t (ty_ind2 t)
    | VTuple ts =>
      HVTuple ts ((fix go (l : list ty) : Forall P l :=
                     match l with [] => Forall_nil _ | x :: l' => Forall_cons x (ty_ind2 x) (go l') end) ts)
    | VStruct fs =>
      HVStruct fs ((fix go (l : list (bytes * ty)) : Forall (fun ft => P (snd ft)) l :=
                      match l with
                      | [] => Forall_nil _
                      | x :: l' => Forall_cons x (match x return P (snd x) with (_, t') => ty_ind2 t' end) (go l')
                      end) fs)
    end.
End TyInd.
