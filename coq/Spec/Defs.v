(* Spec/Defs.v — the definition rules of TOML 1.0.0 ("how keys, tables, inline tables and
   arrays of tables may be defined"), DESIGN.md 3.2 / 3.3, as a small interpreter over an
   ordered tree whose table nodes remember HOW they came into being:

     KSuper   the table exists only because a longer [header] / [[header]] mentioned it
     KHeader  the table has its own [header]
     KDotted  the table was created by dotted keys of a key/value statement

   (the root, and the elements of an array of tables, are explicit by position and carry no
   tag).  Values are closed and opaque (type parameter V).  There is no "current table
   detached from the root", no flag pairs and no positions here: every statement is applied
   in place, the current section is simply re-addressed by its header path ("a path through
   an array of tables means its most recently defined element").

   Order convention: a key/value pair sits at the position of its statement; a table sits at
   the position of the statement that defines it — its own [header] if it has one, otherwise
   its first mention (so a [header] arriving for a table that so far was only a super-table
   moves the table to the end of its parent).

   Same semantics as lib/gen_toml.py `ref_eval` (the `owner` check there is unreachable: a
   dotted table is only ever reachable by dotted keys from the section that created it). *)
From TV Require Import Base.Prelude.

Inductive kind : Set := KSuper | KHeader | KDotted.

Inductive res (A : Type) : Type := ROk (a : A) | RInvalid | RUndecided.
Arguments ROk {A}. Arguments RInvalid {A}. Arguments RUndecided {A}.

Definition rbind {A B} (r : res A) (f : A -> res B) : res B :=
  match r with ROk a => f a | RInvalid => RInvalid | RUndecided => RUndecided end.
Notation "x <~ r ;; k" := (rbind r (fun x => k)) (at level 61, r at next level, right associativity).

(* p = pre ++ [last] *)
Definition unsnoc {A} (p : list A) : option (list A * A) :=
  match rev p with [] => None | l :: r => Some (rev r, l) end.

Section Defs.
Variable V : Type.

Inductive stmt : Type :=
| SHeader (p : list bytes)                 (* [p]      *)
| SArrHeader (p : list bytes)              (* [[p]]    *)
| SKeyVal (p : list bytes) (v : V).        (* p = v    *)

Inductive node : Type :=
| NVal (v : V)
| NTab (kd : kind) (items : list (bytes * node))
| NAot (elems : list (list (bytes * node))).

(* the content of a table, in order *)
Definition stree := list (bytes * node).

Fixpoint sget (t : stree) (k : bytes) : option node :=
  match t with
  | [] => None
  | (k', n) :: tl => if bytes_eqb k' k then Some n else sget tl k
  end.
(* replace in place *)
Fixpoint sset (t : stree) (k : bytes) (n : node) : stree :=
  match t with
  | [] => []
  | (k', n') :: tl => if bytes_eqb k' k then (k', n) :: tl else (k', n') :: sset tl k n
  end.
Definition spush (t : stree) (k : bytes) (n : node) : stree := t ++ [(k, n)].
Fixpoint sremove (t : stree) (k : bytes) : stree :=
  match t with
  | [] => []
  | (k', n) :: tl => if bytes_eqb k' k then tl else (k', n) :: sremove tl k
  end.

(* Apply f to the table addressed by the header path p below t.  Missing tables are created
   as super-tables; a value on the way is an error; an array of tables stands for its most
   recently defined element; tables of every kind may be passed through ("defining a
   super-table afterwards is ok", "the [table] form can be used to define sub-tables within
   tables defined via dotted keys"). *)
Fixpoint at_path (p : list bytes) (f : stree -> res stree) (t : stree) : res stree :=
  match p with
  | [] => f t
  | k :: p' =>
    match sget t k with
    | None => c <~ at_path p' f [] ;; ROk (spush t k (NTab KSuper c))
    | Some (NVal _) => RInvalid
    | Some (NTab kd c) => c' <~ at_path p' f c ;; ROk (sset t k (NTab kd c'))
    | Some (NAot es) =>
      match rev es with
      | [] => RInvalid
      | e :: before => e' <~ at_path p' f e ;; ROk (sset t k (NAot (rev before ++ [e'])))
      end
    end
  end.

(* [.. k]: "tables cannot be defined more than once"; a table that is so far only a
   super-table becomes defined here (and moves to the end of its parent) *)
Definition def_table (k : bytes) (t : stree) : res stree :=
  match sget t k with
  | None => ROk (spush t k (NTab KHeader []))
  | Some (NTab KSuper c) => ROk (spush (sremove t k) k (NTab KHeader c))
  | Some _ => RInvalid
  end.

(* [[.. k]]: a new element; the name must be new or already an array of tables *)
Definition def_elem (k : bytes) (t : stree) : res stree :=
  match sget t k with
  | None => ROk (spush t k (NAot [[]]))
  | Some (NAot es) => ROk (sset t k (NAot (es ++ [[]])))
  | Some _ => RInvalid
  end.

(* p = v inside the table t (a section, or a table created by dotted keys of that section).
   Dotted keys create tables or re-enter tables created by dotted keys; they may not reopen a
   table defined by a header, an array of tables or a value; the last key must be new.
   Meeting a table that is only a super-table is class U1: `strict = true` (the
   specification) answers Undecided; `strict = false` records what the pinned code does
   (reject if it is the table that would receive the key, otherwise walk through it) — used
   only to state facts that hold for ALL statement sequences. *)
Fixpoint insert_kv (strict : bool) (p : list bytes) (v : V) (t : stree) : res stree :=
  match p with
  | [] => RInvalid
  | [k] => match sget t k with None => ROk (spush t k (NVal v)) | Some _ => RInvalid end
  | k :: ((_ :: p'') as p') =>
    match sget t k with
    | None => c <~ insert_kv strict p' v [] ;; ROk (spush t k (NTab KDotted c))
    | Some (NTab KDotted c) => c' <~ insert_kv strict p' v c ;; ROk (sset t k (NTab KDotted c'))
    | Some (NTab KSuper c) =>
      if strict then RUndecided
      else match p'' with
           | [] => RInvalid
           | _ => c' <~ insert_kv strict p' v c ;; ROk (sset t k (NTab KSuper c'))
           end
    | Some _ => RInvalid
    end
  end.

(* state: the tree so far and the header path of the current section *)
Definition sstate : Type := stree * list bytes.
Definition sstate0 : sstate := ([], []).

Definition spec_step (strict : bool) (s : sstate) (st : stmt) : res sstate :=
  let '(t, cur) := s in
  match st with
  | SKeyVal p v => t' <~ at_path cur (insert_kv strict p v) t ;; ROk (t', cur)
  | SHeader p =>
    match unsnoc p with
    | None => RInvalid
    | Some (pre, k) => t' <~ at_path pre (def_table k) t ;; ROk (t', p)
    end
  | SArrHeader p =>
    match unsnoc p with
    | None => RInvalid
    | Some (pre, k) => t' <~ at_path pre (def_elem k) t ;; ROk (t', p)
    end
  end.

Fixpoint spec_fold (strict : bool) (s : sstate) (l : list stmt) : res sstate :=
  match l with
  | [] => ROk s
  | st :: tl => s' <~ spec_step strict s st ;; spec_fold strict s' tl
  end.

Inductive verdict : Type := Valid (t : stree) | Invalid | Undecided.

Definition run (strict : bool) (l : list stmt) : verdict :=
  match spec_fold strict sstate0 l with
  | ROk (t, _) => Valid t
  | RInvalid => Invalid
  | RUndecided => Undecided
  end.

(* THE specification *)
Definition spec_run : list stmt -> verdict := run true.

(* class U1 (DESIGN.md 3.3): the statement sequence is valid up to a key/value statement whose
   dotted key runs into a table that exists only as a super-table *)
Definition u1_b (l : list stmt) : bool :=
  match spec_run l with Undecided => true | _ => false end.

(* the pinned code's resolution of U1 — never Undecided (Proofs/DefsEquiv) *)
Definition code_run : list stmt -> verdict := run false.

(* an inline table { p1 = v1, ..., pn = vn }: the same key/value rule inside one closed table
   (there are no headers, hence no super-tables; explicitly given inline-table values are
   values, hence closed) *)
Fixpoint inline_fold (t : stree) (pairs : list (list bytes * V)) : res stree :=
  match pairs with
  | [] => ROk t
  | (p, v) :: tl => t' <~ insert_kv true p v t ;; inline_fold t' tl
  end.
Definition inline_run (pairs : list (list bytes * V)) : option stree :=
  match inline_fold [] pairs with ROk t => Some t | _ => None end.

End Defs.

Arguments SHeader {V}. Arguments SArrHeader {V}. Arguments SKeyVal {V}.
Arguments NVal {V}. Arguments NTab {V}. Arguments NAot {V}.
Arguments Valid {V}. Arguments Invalid {V}. Arguments Undecided {V}.
Arguments sget {V}. Arguments sset {V}. Arguments spush {V}. Arguments sremove {V}.
Arguments at_path {V}. Arguments def_table {V}. Arguments def_elem {V}. Arguments insert_kv {V}.
Arguments sstate0 {V}. Arguments spec_step {V}. Arguments spec_fold {V}. Arguments run {V}.
Arguments spec_run {V}. Arguments u1_b {V}. Arguments code_run {V}.
Arguments inline_fold {V}. Arguments inline_run {V}.
