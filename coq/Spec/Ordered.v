(* Spec/Ordered.v — the reference containers of property C16 (DESIGN.md 3.6).

   Part 1: plain ordered maps and vectors as lists, written with the list combinators
           (find / filter / map / firstn / skipn), independently of Model/Containers.v
           (which transcribes the Rust methods as recursive functions over the raw entries).
   Part 2: the call vocabulary (what a history is made of, what a call can return).
   Part 3: the reference interpreter: what every call returns and does on the reference.

   Nothing here knows about placeholders (`Item::None` entries): the reference never stores one. *)
From TV Require Import Base.Prelude.

(* ------------------------------------------------------------------------------------ *)
(** * 1. Reference containers *)

(* key order = Rust `str` / `String` Ord: bytewise lexicographic *)
Fixpoint key_compare (a b : bytes) : comparison :=
  match a, b with
  | [], [] => Eq
  | [], _ :: _ => Lt
  | _ :: _, [] => Gt
  | x :: a', y :: b' =>
    match N.compare (b2n x) (b2n y) with
    | Eq => key_compare a' b'
    | c => c
    end
  end.
Definition key_ltb (a b : bytes) : bool := match key_compare a b with Lt => true | _ => false end.
Definition key_leb (a b : bytes) : bool := match key_compare a b with Gt => false | _ => true end.

(* stable sort of a list by a "less or equal" test *)
Section Sort.
  Context {A : Type} (le : A -> A -> bool).
  Fixpoint sorted_insert (x : A) (l : list A) : list A :=
    match l with
    | [] => [x]
    | y :: l' => if le x y then x :: l else y :: sorted_insert x l'
    end.
  Definition stable_sort (l : list A) : list A := fold_right sorted_insert [] l.
End Sort.

Section OMap.
  Context {V : Type}.
  Definition omap := list (bytes * V).
  Definition has_key (k : bytes) (kv : bytes * V) : bool := bytes_eqb (fst kv) k.

  Definition om_get (k : bytes) (m : omap) : option V := optmap snd (find (has_key k) m).
  Definition om_mem (k : bytes) (m : omap) : bool := existsb (has_key k) m.
  (* an existing key keeps its position, a new key goes last *)
  Definition om_insert (k : bytes) (v : V) (m : omap) : omap :=
    if om_mem k m then map (fun kv => if has_key k kv then (fst kv, v) else kv) m
    else m ++ [(k, v)].
  (* removal keeps the other entries in order *)
  Definition om_remove (k : bytes) (m : omap) : omap := filter (fun kv => negb (has_key k kv)) m.
  Definition om_retain (f : bytes -> V -> bool) (m : omap) : omap := filter (fun kv => f (fst kv) (snd kv)) m.
  Definition om_sort_by (le : bytes * V -> bytes * V -> bool) (m : omap) : omap := stable_sort le m.
  Definition om_sort_keys (m : omap) : omap := om_sort_by (fun a b => key_leb (fst a) (fst b)) m.

  (* the SORTED variant (toml::Map without preserve_order = BTreeMap): entries are kept in
     ascending key order; a key lands between the smaller and the larger keys *)
  Definition sm_insert (k : bytes) (v : V) (m : omap) : omap :=
    filter (fun kv => key_ltb (fst kv) k) m ++ [(k, v)] ++ filter (fun kv => key_ltb k (fst kv)) m.
End OMap.
Arguments omap : clear implicits.

Section Vec.
  Context {A : Type}.
  Definition vec_push (x : A) (v : list A) : list A := v ++ [x].
  (* None = the documented out-of-range panic *)
  Definition vec_insert (i : nat) (x : A) (v : list A) : option (list A) :=
    if (i <=? length v)%nat then Some (firstn i v ++ x :: skipn i v) else None.
  Definition vec_remove (i : nat) (v : list A) : option (A * list A) :=
    match nth_error v i with
    | Some x => Some (x, firstn i v ++ skipn (S i) v)
    | None => None
    end.
  Definition vec_replace (i : nat) (x : A) (v : list A) : option (A * list A) :=
    match nth_error v i with
    | Some old => Some (old, firstn i v ++ x :: skipn (S i) v)
    | None => None
    end.
End Vec.

(* ------------------------------------------------------------------------------------ *)
(** * 2. Call vocabulary *)

(* what is stored: an integer value, an (empty) table, an (empty) inline table *)
Inductive pay := PInt (z : Z) | PTab | PInl.
(* what a call can hand back: Rust's `Item` is `Item::None` or a real item *)
Inductive item := INone | IReal (p : pay).

(* the user closures passed to retain / sort_values_by come from small families *)
Inductive pred := PKeyNe (k : bytes) | PIsInt | PIntLt (n : Z) | PAll | PNo.
Inductive cmpk := CKeyDesc | CValAsc.

Definition pred_eval (f : pred) (k : bytes) (i : item) : bool :=
  match f with
  | PKeyNe k0 => negb (bytes_eqb k k0)
  | PIsInt => match i with IReal (PInt _) => true | _ => false end
  | PIntLt n => match i with IReal (PInt z) => (z <? n)%Z | _ => false end
  | PAll => true
  | PNo => false
  end.

(* `vasc`: by rank = (0,_) for Item::None, (1,_) for non-integers, (2,z) for the integer z *)
Definition rank (i : item) : Z * Z :=
  match i with
  | INone => (0, 0)
  | IReal (PInt z) => (2, z)
  | IReal _ => (1, 0)
  end%Z.
Definition rank_leb (a b : Z * Z) : bool :=
  ((fst a <? fst b) || ((fst a =? fst b) && (snd a <=? snd b)))%Z.

Inductive mkind := KTable | KInline | KInlineTL | KMapSorted | KMapOrdered.

Inductive mop :=
| MIns (k : bytes) (p : pay)      (* insert *)
| MInsF (k : bytes) (p : pay)     (* insert_formatted *)
| MRm (k : bytes)                 (* remove *)
| MRmE (k : bytes)                (* remove_entry *)
| MGet (k : bytes) | MGetM (k : bytes)       (* get, get_mut *)
| MGkv (k : bytes) | MGkvM (k : bytes)       (* get_key_value, get_key_value_mut *)
| MCk (k : bytes)                 (* contains_key *)
| MCt (k : bytes) | MCv (k : bytes) | MCa (k : bytes)   (* contains_table / _value / _array_of_tables *)
| MKey (k : bytes)                (* key(k).is_some() *)
| MLen | MEmp | MIter | MIterM | MKeys | MVals | MClr
| MEnt (k : bytes)                (* entry(k): occupied (with what) or vacant; dropped *)
| MEoi (k : bytes) (p : pay)      (* entry(k).or_insert(p) *)
| MEins (k : bytes) (p : pay)     (* entry(k): Occupied::insert(p) / Vacant::insert(p) *)
| MErm (k : bytes)                (* entry(k): Occupied::remove() *)
| MGoi (k : bytes) (p : pay)      (* InlineTable::get_or_insert *)
| MRet (f : pred)                 (* retain *)
| MSort                           (* sort_values *)
| MSortBy (c : cmpk)              (* sort_values_by *)
| MIdx (k : bytes)                (* &c[k] *)
| MIdxM (k : bytes)               (* &mut c[k], nothing assigned *)
| MISet (k : bytes) (p : pay)     (* c[k] = p *)
| MIoi (k : bytes) (p : pay)      (* c[k].or_insert(p) *)
| MExt (l : list (bytes * pay))   (* extend *)
| MFrom (l : list (bytes * pay))  (* container replaced by collect() *)
| MInto.                          (* clone().into_iter() *)

Inductive out :=
| OUnit | ONA | OPanic
| OBool (b : bool) | ONat (n : nat)
| OItem (i : item)
| OOpt (o : option item)
| OOptKV (o : option (bytes * item))
| OList (l : list (bytes * item))
| OKeys (l : list bytes)
| OVals (l : list item)
| OVac | OOcc (i : item).

(* which calls exist on which container *)
Definition avail (kd : mkind) (o : mop) : bool :=
  match kd with
  | KTable => match o with MKeys | MVals | MGoi _ _ => false | _ => true end
  | KInline => match o with MCt _ | MCv _ | MCa _ | MKeys | MVals => false | _ => true end
  | KInlineTL =>
    match o with
    | MIns _ _ | MRm _ | MGet _ | MGetM _ | MGkv _ | MGkvM _ | MCk _ | MKey _ | MLen | MEmp | MIter | MIterM
    | MClr | MEnt _ | MEoi _ _ | MEins _ _ | MErm _ | MSort | MIdxM _ | MISet _ _ | MIoi _ _ => true
    | _ => false
    end
  | KMapSorted | KMapOrdered =>
    match o with
    | MIns _ _ | MRm _ | MGet _ | MGetM _ | MGkv _ | MCk _ | MLen | MEmp | MIter | MIterM | MKeys | MVals
    | MClr | MEnt _ | MEoi _ _ | MEins _ _ | MErm _ | MRet _ | MIdx _ | MIdxM _ | MISet _ _
    | MExt _ | MFrom _ | MInto => true
    | _ => false
    end
  end.

(* an inline table stores values only: a table payload enters it as an (empty) inline table *)
Definition norm (kd : mkind) (p : pay) : pay :=
  match kd, p with
  | (KInline | KInlineTL), PTab => PInl
  | _, _ => p
  end.

Definition is_map_kind (kd : mkind) : bool := match kd with KMapSorted | KMapOrdered => true | _ => false end.

(* vectors *)
Inductive vkind := KArray | KAot.
Inductive vpred := VLt (n : Z) | VOdd | VAll | VNo.
Inductive vcmp := VAsc | VDesc | VMod3.   (* VMod3: compare `x mod 3` — a comparator with many ties *)
Inductive vop :=
| VPush (z : Z) | VPushF (z : Z)
| VIns (i : nat) (z : Z) | VInsF (i : nat) (z : Z)
| VRep (i : nat) (z : Z) | VRepF (i : nat) (z : Z)
| VRm (i : nat)
| VGet (i : nat) | VGetM (i : nat)
| VLen | VEmp | VIter | VIterM | VClr
| VRet (f : vpred) | VSortBy (c : vcmp) | VSortKey
| VExt (l : list Z) | VFrom (l : list Z) | VInto
| VIdx (i : nat) | VIGet (i : nat) | VISet (i : nat) (z : Z).   (* Item-level usize index *)
Inductive vout :=
| VOUnit | VONA | VOPanic | VOBool (b : bool) | VONat (n : nat)
| VOElem (z : Z) | VOOpt (o : option Z) | VOList (l : list Z).

Definition vpred_eval (f : vpred) (z : Z) : bool :=
  match f with
  | VLt n => (z <? n)%Z
  | VOdd => (z mod 2 =? 1)%Z
  | VAll => true
  | VNo => false
  end.
Definition vcmp_le (c : vcmp) (a b : Z) : bool :=
  match c with VAsc => (a <=? b)%Z | VDesc => (b <=? a)%Z | VMod3 => (a mod 3 <=? b mod 3)%Z end.

Definition vavail (kd : vkind) (o : vop) : bool :=
  match kd with
  | KArray => true
  | KAot =>
    match o with
    | VPushF _ | VIns _ _ | VInsF _ _ | VRep _ _ | VRepF _ _ | VSortBy _ | VSortKey => false
    | _ => true
    end
  end.

(* ------------------------------------------------------------------------------------ *)
(** * 3. Reference interpreter *)

Definition real (p : pay) : item := IReal p.
Definition kreal (kv : bytes * pay) : bytes * item := (fst kv, IReal (snd kv)).

Definition ref_insert (kd : mkind) : bytes -> pay -> omap pay -> omap pay :=
  match kd with KMapSorted => sm_insert | _ => om_insert end.

Definition cmp_le (c : cmpk) (a b : bytes * pay) : bool :=
  match c with
  | CKeyDesc => key_leb (fst b) (fst a)
  | CValAsc => rank_leb (rank (IReal (snd a))) (rank (IReal (snd b)))
  end.

Definition ref_step (kd : mkind) (m : omap pay) (o : mop) : omap pay * out :=
  if negb (avail kd o) then (m, ONA) else
  let ins k p := ref_insert kd k (norm kd p) m in
  match o with
  | MIns k p | MInsF k p => (ins k p, OOpt (optmap real (om_get k m)))
  | MRm k => (om_remove k m, OOpt (optmap real (om_get k m)))
  | MRmE k => (om_remove k m, OOptKV (optmap (fun p => (k, IReal p)) (om_get k m)))
  | MGet k | MGetM k => (m, OOpt (optmap real (om_get k m)))
  | MGkv k | MGkvM k => (m, OOptKV (optmap (fun p => (k, IReal p)) (om_get k m)))
  | MCk k | MKey k => (m, OBool (om_mem k m))
  | MCt k => (m, OBool (match om_get k m with Some PTab => true | _ => false end))
  | MCv k => (m, OBool (match om_get k m with Some (PInt _) | Some PInl => true | _ => false end))
  | MCa k => (m, OBool false)
  | MLen => (m, ONat (length m))
  | MEmp => (m, OBool (match m with [] => true | _ => false end))
  | MIter | MIterM | MInto => (m, OList (map kreal m))
  | MKeys => (m, OKeys (map fst m))
  | MVals => (m, OVals (map (fun kv => IReal (snd kv)) m))
  | MClr => ([], OUnit)
  | MEnt k => (m, match om_get k m with Some q => OOcc (IReal q) | None => OVac end)
  | MEoi k p | MGoi k p =>
    match om_get k m with
    | Some q => (m, OItem (IReal q))
    | None => (ins k p, OItem (IReal (norm kd p)))
    end
  | MEins k p => (ins k p, match om_get k m with Some q => OItem (IReal q) | None => OVac end)
  | MErm k =>
    match om_get k m with
    | Some q => (om_remove k m, OItem (IReal q))
    | None => (m, OVac)
    end
  | MRet f => (om_retain (fun k p => pred_eval f k (IReal p)) m, OUnit)
  | MSort => (om_sort_keys m, OUnit)
  | MSortBy c => (om_sort_by (cmp_le c) m, OUnit)
  | MIdx k => (m, match om_get k m with Some q => OItem (IReal q) | None => OPanic end)
  | MIdxM k =>
    (* `&mut c[k]`: toml_edit hands out a (none) item for a missing key; toml::Map panics *)
    (m, match om_get k m with
        | Some q => OItem (IReal q)
        | None => if is_map_kind kd then OPanic else OItem INone
        end)
  | MISet k p =>
    if is_map_kind kd && negb (om_mem k m) then (m, OPanic) else (ins k p, OUnit)
  | MIoi k p =>
    match om_get k m with
    | Some q => (m, OItem (IReal q))
    | None => (ins k p, OItem (IReal (norm kd p)))
    end
  | MExt l => (fold_left (fun acc kv => ref_insert kd (fst kv) (norm kd (snd kv)) acc) l m, OUnit)
  | MFrom l => (fold_left (fun acc kv => ref_insert kd (fst kv) (norm kd (snd kv)) acc) l [], OUnit)
  end.

(* the observation after the last call *)
Record obs := mkObs {
  o_len : nat;
  o_emp : bool;
  o_iter : list (bytes * item);
  o_get : list (bytes * option item);
  o_ck : list (bytes * bool);
  o_values : list (bytes * pay)      (* what Display prints, in order (get_values) *)
}.

Definition ref_values (kd : mkind) (m : omap pay) : list (bytes * pay) :=
  match kd with
  | KTable => filter (fun kv => match snd kv with PTab => false | _ => true end) m  (* sub-tables print under their own header *)
  | KInline | KInlineTL => m
  | _ => []
  end.

Definition ref_observe (kd : mkind) (ks : list bytes) (m : omap pay) : obs :=
  mkObs (length m)
        (match m with [] => true | _ => false end)
        (map kreal m)
        (map (fun k => (k, optmap real (om_get k m))) ks)
        (map (fun k => (k, om_mem k m)) ks)
        (ref_values kd m).

(* vectors *)
Definition vref_step (kd : vkind) (v : list Z) (o : vop) : list Z * vout :=
  if negb (vavail kd o) then (v, VONA) else
  match o with
  | VPush z | VPushF z => (vec_push z v, VOUnit)
  | VIns i z | VInsF i z =>
    match vec_insert i z v with Some v' => (v', VOUnit) | None => (v, VOPanic) end
  | VRep i z | VRepF i z =>
    match vec_replace i z v with Some (old, v') => (v', VOElem old) | None => (v, VOPanic) end
  | VRm i =>
    match vec_remove i v with
    | Some (old, v') => (v', match kd with KArray => VOElem old | KAot => VOUnit end)
    | None => (v, VOPanic)
    end
  | VGet i | VGetM i | VIGet i => (v, VOOpt (nth_error v i))
  | VLen => (v, VONat (length v))
  | VEmp => (v, VOBool (match v with [] => true | _ => false end))
  | VIter | VIterM | VInto => (v, VOList v)
  | VClr => ([], VOUnit)
  | VRet f => (filter (vpred_eval f) v, VOUnit)
  | VSortBy c => (stable_sort (vcmp_le c) v, VOUnit)
  | VSortKey => (stable_sort (fun a b => (a mod 3 <=? b mod 3)%Z) v, VOUnit)
  | VExt l => (v ++ l, VOUnit)
  | VFrom l => (l, VOUnit)
  | VIdx i => (v, match nth_error v i with Some x => VOElem x | None => VOPanic end)
  | VISet i z =>
    match vec_replace i z v with Some (_, v') => (v', VOUnit) | None => (v, VOPanic) end
  end.

Record vobs := mkVObs {
  vo_len : nat;
  vo_emp : bool;
  vo_iter : list Z;
  vo_get : list (nat * option Z)
}.
Definition vref_observe (v : list Z) : vobs :=
  mkVObs (length v) (match v with [] => true | _ => false end) v
         (map (fun i => (i, nth_error v i)) (seq 0 (S (length v)))).

(* running a history *)
Section Run.
  Context {S O R : Type} (step : S -> O -> S * R).
  Fixpoint run (s : S) (h : list O) : S * list R :=
    match h with
    | [] => (s, [])
    | o :: h' => let (s1, r) := step s o in let (s2, rs) := run s1 h' in (s2, r :: rs)
    end.
End Run.
