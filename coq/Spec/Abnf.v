(* Spec/Abnf.v — the byte classes of toml.abnf v1.0.0, transcribed from the grammar (with the
   prose rule "control characters other than tab are not permitted in comments", which
   excludes DEL from non-eol, as toml-test's invalid/control/comment-del does).
   `non-ascii = %x80-D7FF / %xE000-10FFFF` is read on bytes as "any byte >= 0x80": on UTF-8-valid
   text every such byte belongs to the encoding of a scalar value in that range.
   Independent of the code: no import of Gen.Consts. *)
From TV Require Import Base.Prelude.
Local Open Scope N_scope.

Definition rng (lo hi : N) (b : byte) : bool := (lo <=? b2n b) && (b2n b <=? hi).
Definition non_ascii (b : byte) : bool := rng 128 255 b.

(* wschar = %x20 / %x09 *)
Definition wschar (b : byte) : bool := rng 32 32 b || rng 9 9 b.
(* non-eol = %x09 / %x20-7E / non-ascii *)
Definition non_eol (b : byte) : bool := rng 9 9 b || rng 32 126 b || non_ascii b.
(* basic-unescaped = wschar / %x21 / %x23-5B / %x5D-7E / non-ascii *)
Definition basic_unescaped (b : byte) : bool :=
  wschar b || rng 33 33 b || rng 35 91 b || rng 93 126 b || non_ascii b.
(* mlb-unescaped = wschar / %x21 / %x23-5B / %x5D-7E / non-ascii *)
Definition mlb_unescaped (b : byte) : bool := basic_unescaped b.
(* literal-char = %x09 / %x20-26 / %x28-7E / non-ascii *)
Definition literal_char (b : byte) : bool := rng 9 9 b || rng 32 38 b || rng 40 126 b || non_ascii b.
(* mll-char = %x09 / %x20-26 / %x28-7E / non-ascii *)
Definition mll_char (b : byte) : bool := literal_char b.
(* unquoted-key = 1*( ALPHA / DIGIT / %x2D / %x5F ) *)
Definition unquoted_key_char (b : byte) : bool :=
  rng 65 90 b || rng 97 122 b || rng 48 57 b || rng 45 45 b || rng 95 95 b.
(* DIGIT, digit1-9, digit0-7, digit0-1, HEXDIG (RFC 5234: case-insensitive) *)
Definition digit (b : byte) : bool := rng 48 57 b.
Definition digit1_9 (b : byte) : bool := rng 49 57 b.
Definition digit0_7 (b : byte) : bool := rng 48 55 b.
Definition digit0_1 (b : byte) : bool := rng 48 49 b.
Definition hexdig (b : byte) : bool := rng 48 57 b || rng 65 70 b || rng 97 102 b.
(* time-delim = T / %x20  (ABNF strings are case-insensitive: T or t) *)
Definition time_delim (b : byte) : bool := rng 84 84 b || rng 116 116 b || rng 32 32 b.

(* escape-seq-char and the scalar it denotes:
   %x22 / %x5C / %x62 b / %x66 f / %x6E n / %x72 r / %x74 t *)
Definition escape_simple (b : byte) : option N :=
  match b2n b with
  | 34 => Some 34 | 92 => Some 92 | 98 => Some 8 | 102 => Some 12
  | 110 => Some 10 | 114 => Some 13 | 116 => Some 9
  | _ => None
  end.
(* %x75 4HEXDIG / %x55 8HEXDIG *)
Definition escape_hex (b : byte) : option nat :=
  match b2n b with 117 => Some 4%nat | 85 => Some 8%nat | _ => None end.

(* literal tokens *)
Definition t_true : bytes := [x74; x72; x75; x65].
Definition t_false : bytes := [x66; x61; x6c; x73; x65].
Definition t_inf : bytes := [x69; x6e; x66].
Definition t_nan : bytes := [x6e; x61; x6e].
