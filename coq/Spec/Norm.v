(* Spec/Norm.v — the normal form of a document text for round-tripping (DESIGN.md 3.5, property
   C03), independent of the parser: a six-state scanner (normal | comment | basic | literal |
   ml_basic | ml_literal) labels every byte; `normalize`
     - drops a leading UTF-8 byte-order mark,
     - deletes every CR that is not inside a multi-line-string body,
     - appends LF if the text does not end in a newline and its last logical line (the text after
       the last LF outside multi-line strings) holds a statement (something other than blanks
       before any comment).
   This is the same algorithm as lib/toml_text.py (`scan`, `normalize`), byte for byte: the two
   are compared on every generated document by lib/props/c03.py.  Only meaningful on valid
   documents. *)
From TV Require Import Base.Prelude.

Inductive label : Set := LNormal | LComment | LBasic | LLiteral | LMlBasic | LMlLiteral.

(* scanner states; `SEmit ls next`: the next |ls| bytes (ls is never empty) get the labels ls,
   then the scanner is in state next.  (python: the places where `i` advances by 2 or more) *)
Inductive sstate : Set :=
| SNormal | SComment | SBasic | SLiteral | SMlBasic | SMlLiteral
| SEmit (ls : list label) (next : sstate).

Definition emit (ls : list label) (next : sstate) : sstate :=
  match ls with [] => next | _ => SEmit ls next end.

Definition starts3 (q : byte) (s : bytes) : bool :=
  match s with a :: b :: c :: _ => byte_eqb a q && byte_eqb b q && byte_eqb c q | _ => false end.

(* length of the run of q at the head of s *)
Fixpoint run_len (q : byte) (s : bytes) : nat :=
  match s with b :: tl => if byte_eqb b q then S (run_len q tl) else 0 | [] => 0 end.

(* closing a multi-line string at a run of >= 3 quotes: up to two quotes belong to the body, the
   delimiter is the next three (python: body_q = min(run - 3, 2)) *)
Definition ml_close (q : byte) (lab : label) (s : bytes) : list label :=
  repeat lab (Nat.min (run_len q s - 3) 2) ++ [LNormal; LNormal; LNormal].

(* one byte: its label and the state after it.  `s` is the text from this byte on (lookahead). *)
Definition step (st : sstate) (c : byte) (s : bytes) : label * sstate :=
  let tl := match s with _ :: t => t | [] => [] end in
  let normal :=
      if byte_eqb c x23 then (LComment, SComment)
      else if starts3 x22 s then (LNormal, SEmit [LNormal; LNormal] SMlBasic)
      else if starts3 x27 s then (LNormal, SEmit [LNormal; LNormal] SMlLiteral)
      else if byte_eqb c x22 then (LNormal, SBasic)
      else if byte_eqb c x27 then (LNormal, SLiteral)
      else (LNormal, SNormal) in
  match st with
  | SNormal => normal
  | SComment =>
    (* a newline ends the comment and is itself scanned in state normal *)
    if byte_eqb c x0a || (byte_eqb c x0d && match tl with b :: _ => byte_eqb b x0a | [] => false end)
    then normal else (LComment, SComment)
  | SBasic =>
    if byte_eqb c x5c && negb (match tl with [] => true | _ => false end) then (LBasic, SEmit [LBasic] SBasic)
    else if byte_eqb c x22 then (LNormal, SNormal)
    else (LBasic, SBasic)
  | SLiteral => if byte_eqb c x27 then (LNormal, SNormal) else (LLiteral, SLiteral)
  | SMlBasic =>
    if byte_eqb c x5c && negb (match tl with [] => true | _ => false end) then (LMlBasic, SEmit [LMlBasic] SMlBasic)
    else if starts3 x22 s
         then match ml_close x22 LMlBasic s with l :: ls => (l, emit ls SNormal) | [] => (LNormal, SNormal) end
         else (LMlBasic, SMlBasic)
  | SMlLiteral =>
    if starts3 x27 s
    then match ml_close x27 LMlLiteral s with l :: ls => (l, emit ls SNormal) | [] => (LNormal, SNormal) end
    else (LMlLiteral, SMlLiteral)
  | SEmit (l :: ls) next => (l, emit ls next)
  | SEmit [] next => (LNormal, next)        (* never built *)
  end.

(* python `scan`: the label of every byte *)
Fixpoint labels (st : sstate) (s : bytes) : list label :=
  match s with
  | [] => []
  | c :: tl => let '(l, st') := step st c s in l :: labels st' tl
  end.

Definition in_ml (l : label) : bool := match l with LMlBasic | LMlLiteral => true | _ => false end.
Definition is_comment (l : label) : bool := match l with LComment => true | _ => false end.

(* the bytes that stay: everything but a CR outside multi-line-string bodies *)
Definition kept (z : byte * label) : bool := negb (byte_eqb (fst z) x0d && negb (in_ml (snd z))).
(* a newline that ends a logical line *)
Definition line_nl (z : byte * label) : bool := byte_eqb (fst z) x0a && negb (in_ml (snd z)).

(* the text after the last line_nl *)
Fixpoint before_nl (zs : list (byte * label)) : list (byte * label) :=
  match zs with
  | [] => []
  | z :: tl => if line_nl z then [] else z :: before_nl tl
  end.
Definition last_line (zs : list (byte * label)) : list (byte * label) := rev (before_nl (rev zs)).

(* does a line hold a statement: its first byte that is not a blank or CR is not in a comment *)
Fixpoint has_stmt (zs : list (byte * label)) : bool :=
  match zs with
  | [] => false
  | (c, l) :: tl =>
    if is_comment l then false
    else if byte_eqb c x20 || byte_eqb c x09 || byte_eqb c x0d then has_stmt tl
    else true
  end.

Definition ends_lf (s : bytes) : bool := match rev s with b :: _ => byte_eqb b x0a | [] => false end.

Definition bom : bytes := [xef; xbb; xbf].
Definition drop_bom (s : bytes) : bytes :=
  match strip_prefix bom s with Some r => r | None => s end.

Definition normalize (text : bytes) : bytes :=
  let s := drop_bom text in
  let zs := combine s (labels SNormal s) in
  let out := map fst (filter kept zs) in
  if has_stmt (last_line zs) && negb (ends_lf out) then out ++ [x0a] else out.

(* the comments of a text, CR removed, in order (python `scan`'s second result before sorting) *)
Fixpoint comments_of (zs : list (byte * label)) (cur : option bytes) : list bytes :=
  match zs with
  | [] => match cur with Some c => [rev c] | None => [] end
  | (b, l) :: tl =>
    if is_comment l
    then comments_of tl (Some (if byte_eqb b x0d then match cur with Some c => c | None => [] end
                               else b :: match cur with Some c => c | None => [] end))
    else match cur with Some c => rev c :: comments_of tl None | None => comments_of tl None end
  end.
Definition comments (text : bytes) : list bytes :=
  let s := drop_bom text in comments_of (combine s (labels SNormal s)) None.
