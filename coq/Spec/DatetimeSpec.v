(* Spec/DatetimeSpec.v — RFC 3339 section 5.6/5.7 field ranges as TOML 1.0.0 uses them, and the
   four legal shapes of a TOML date-time.  Written from the RFC, independently of the
   code's constants (no import of Gen.Consts). *)
From TV Require Import Base.Prelude Model.Datetime.

Local Open Scope N_scope.

Definition leap (y : N) : bool :=
  (y mod 4 =? 0) && (negb (y mod 100 =? 0) || (y mod 400 =? 0)).

Definition days_in_month (y m : N) : N :=
  match m with
  | 1 | 3 | 5 | 7 | 8 | 10 | 12 => 31
  | 4 | 6 | 9 | 11 => 30
  | 2 => if leap y then 29 else 28
  | _ => 0
  end.

Definition date_ok (d : date) : bool :=
  (year d <=? 9999) && (1 <=? month d) && (month d <=? 12) && (1 <=? day d) && (day d <=? days_in_month (year d) (month d)).

Definition time_ok (t : time) : bool :=
  (hour t <=? 23) && (minute t <=? 59) && (second t <=? 60) && (nanosecond t <=? 999999999).

(* time-numoffset = ("+" / "-") time-hour ":" time-minute, hour 00-23, minute 00-59 *)
Definition offset_ok (o : offset) : bool :=
  match o with
  | OffZ => true
  | OffCustom m => ((-1439 <=? m) && (m <=? 1439))%Z
  end.

(* offset date-time | local date-time | local date | local time *)
Definition in_range (d : datetime) : bool :=
  match d_date d, d_time d, d_offset d with
  | Some dt, Some t, Some o => date_ok dt && time_ok t && offset_ok o
  | Some dt, Some t, None => date_ok dt && time_ok t
  | Some dt, None, None => date_ok dt
  | None, Some t, None => time_ok t
  | _, _, _ => false
  end.
