(* Spec/Canonical.v — the reference for property C17, written directly on toml::Value trees and
   independently of the serializer pipeline of Model/TomlValue.v:

     sections_of : the canonical document of a table: its own key/value lines first, then its
                   arrays of tables and sub-tables, depth first, in the order the serializer calls
                   `serialize_entry` (toml::Value: three loops; a struct or map: its own order);
     read_back   : a tiny interpreter of abstract documents (what a TOML reader does with headers
                   and key/value lines): every section's pairs are placed at its header path;
                   anything TOML forbids (a key or a table defined twice, a header through a value)
                   is an error;
     sort_tv     : the same value with every map in ascending key order (what the value is in the
                   default build, where toml::Map is a BTreeMap);
     wf_tv       : keys of every map are distinct (an invariant of toml::Map). *)
From TV Require Import Base.Prelude Spec.Ordered Model.TomlValue.
From Coq Require Import Permutation.

(* ------------------------------------------------------------------------------------------ *)
(** * what kind of entry a key of a table is, in a document *)

(* a non-empty array holding only tables is written as [[key]] sections *)
Definition is_aot (v : tv) : bool :=
  match v with TArr (x :: l) => forallb is_table (x :: l) | _ => false end.
(* everything else that is not a table is a key/value line *)
Definition is_line (v : tv) : bool := negb (is_table v) && negb (is_aot v).
(* an array holding tables and something else: a value line, but written after the plain values *)
Definition is_mixed (v : tv) : bool := arr_any_table v && negb (is_aot v).
Definition is_plain (v : tv) : bool := is_line v && negb (is_mixed v).

(* ------------------------------------------------------------------------------------------ *)
(** * the canonical document *)

(* Two switches say who calls `serialize_entry` for the entries of a table, hence in which order:
     three : for the table at hand   — true: `impl Serialize for Value` (three loops),
                                       false: the map / the struct itself, in its own order;
     tn    : for every table below it (inside arrays, inline tables, sub-tables) likewise.
   toml::Value -> (true, true); toml::Table at the root -> (false, true); a derived struct or any
   other Serialize impl, at every level -> (false, false). *)

(* a value on a key/value line: an inline table lists its entries in the serializer's order *)
Fixpoint inline_of (ml tn : bool) (v : tv) : iv :=
  match v with
  | TLeaf t => VLeaf t
  | TArr l => VArr (ml && (2 <=? length l)%nat) (map (inline_of ml tn) l)
  | TTab m =>
    VInl (if tn
          then
            (* plain values, then arrays holding tables, then tables *)
            (fix p1 (m : list (bytes * tv)) : list (bytes * iv) :=
               match m with
               | [] => []
               | (k, x) :: r => if pass1 x then (k, inline_of ml tn x) :: p1 r else p1 r
               end) m ++
            (fix p2 (m : list (bytes * tv)) : list (bytes * iv) :=
               match m with
               | [] => []
               | (k, x) :: r => if pass2 x then (k, inline_of ml tn x) :: p2 r else p2 r
               end) m ++
            (fix p3 (m : list (bytes * tv)) : list (bytes * iv) :=
               match m with
               | [] => []
               | (k, x) :: r => if pass3 x then (k, inline_of ml tn x) :: p3 r else p3 r
               end) m
          else
            (fix all (m : list (bytes * tv)) : list (bytes * iv) :=
               match m with
               | [] => []
               | (k, x) :: r => (k, inline_of ml tn x) :: all r
               end) m)
  end.

Definition lines_where (ml tn : bool) (p : tv -> bool) (m : list (bytes * tv)) : list (bytes * iv) :=
  map (fun kv => (fst kv, inline_of ml tn (snd kv))) (filter (fun kv => p (snd kv)) m).

(* the key/value lines of a table: three loops -> plain values, then mixed arrays; else map order *)
Definition own_lines (ml three tn : bool) (m : list (bytes * tv)) : list (bytes * iv) :=
  if three then lines_where ml tn is_plain m ++ lines_where ml tn is_mixed m
  else lines_where ml tn is_line m.

(* is the table's own section written?  always for the root and for array elements; a [header]
   is left out exactly when the table has entries but no key/value line *)
Definition own_visible (kind : skind) (m : list (bytes * tv)) (lines : list (bytes * iv)) : bool :=
  match kind with
  | KStd => negb (nonempty m && negb (nonempty lines))
  | _ => true
  end.

(* sections of the table v placed at path p *)
Fixpoint sections_at (ml three tn : bool) (v : tv) (p : path) (kind : skind) : list section :=
  match v with
  | TTab m =>
    let lines := own_lines ml three tn m in
    (if own_visible kind m lines then [mkSec p kind lines] else []) ++
    (if three
     then
       (* arrays of tables, in map order ... *)
       (fix aots (m : list (bytes * tv)) : list section :=
          match m with
          | [] => []
          | (k, x) :: r =>
            (if is_aot x
             then match x with
                  | TArr l => (fix elems (l : list tv) : list section :=
                                 match l with
                                 | [] => []
                                 | e :: q => sections_at ml tn tn e (p ++ [k]) KArr ++ elems q
                                 end) l
                  | _ => []
                  end
             else []) ++ aots r
          end) m ++
       (* ... then sub-tables, in map order *)
       (fix tabs (m : list (bytes * tv)) : list section :=
          match m with
          | [] => []
          | (k, x) :: r =>
            (match x with TTab _ => sections_at ml tn tn x (p ++ [k]) KStd | _ => [] end) ++ tabs r
          end) m
     else
       (* arrays of tables and sub-tables as the serializer yields them *)
       (fix subs (m : list (bytes * tv)) : list section :=
          match m with
          | [] => []
          | (k, x) :: r =>
            (match x with
             | TTab _ => sections_at ml tn tn x (p ++ [k]) KStd
             | TArr l => if is_aot x
                         then (fix elems (l : list tv) : list section :=
                                 match l with
                                 | [] => []
                                 | e :: q => sections_at ml tn tn e (p ++ [k]) KArr ++ elems q
                                 end) l
                         else []
             | TLeaf _ => []
             end) ++ subs r
          end) m)
  | _ => []
  end.

(* the document of a root table *)
Definition sections_of (ml three tn : bool) (m : list (bytes * tv)) : list section :=
  sections_at ml three tn (TTab m) [] KRoot.

(* ------------------------------------------------------------------------------------------ *)
(** * reading a document back *)

(* an inline value as a toml::Value (the line layout of arrays is forgotten) *)
Fixpoint value_of (v : iv) : tv :=
  match v with
  | VLeaf t => TLeaf t
  | VArr _ l => TArr (map value_of l)
  | VInl m =>
    TTab ((fix go (m : list (bytes * iv)) : list (bytes * tv) :=
             match m with
             | [] => []
             | (k, x) :: r => (k, value_of x) :: go r
             end) m)
  end.

Definition key_in {A} (k : bytes) (m : list (bytes * A)) : bool := existsb (fun kv => bytes_eqb (fst kv) k) m.
Fixpoint keys_distinct {A} (m : list (bytes * A)) : bool :=
  match m with
  | [] => true
  | (k, _) :: r => negb (key_in k r) && keys_distinct r
  end.

(* an inline table must not define a key twice *)
Fixpoint iv_ok (v : iv) : bool :=
  match v with
  | VLeaf _ => true
  | VArr _ l => forallb iv_ok l
  | VInl m =>
    keys_distinct m &&
    (fix go (m : list (bytes * iv)) : bool :=
       match m with
       | [] => true
       | (_, x) :: r => iv_ok x && go r
       end) m
  end.

(* the tree a reader builds: a key holds a value (closed), a table (defined by a [header] or only
   implied by the headers of its sub-tables) or an array of tables (finished elements, last element) *)
Inductive rnode : Type :=
| RVal (v : tv)
| RTab (explicit : bool) (m : list (bytes * rnode))
| RAot (done : list (list (bytes * rnode))) (cur : list (bytes * rnode)).

Definition rlookup (k : bytes) (m : list (bytes * rnode)) : option rnode :=
  optmap snd (find (fun kv => bytes_eqb (fst kv) k) m).
(* a new key goes last (insertion order = order of first appearance), an existing key keeps its place *)
Definition rset (k : bytes) (n : rnode) (m : list (bytes * rnode)) : list (bytes * rnode) :=
  if key_in k m then map (fun kv => if bytes_eqb (fst kv) k then (fst kv, n) else kv) m
  else m ++ [(k, n)].

(* the key/value lines of a section go into its table; every key must be new *)
Fixpoint add_lines (lines : list (bytes * iv)) (m : list (bytes * rnode)) : option (list (bytes * rnode)) :=
  match lines with
  | [] => Some m
  | (k, v) :: r =>
    if key_in k m || negb (iv_ok v) then None
    else add_lines r (m ++ [(k, RVal (value_of v))])
  end.

(* a section with header path `p` (relative to the node `n`, None = no such key yet) *)
Fixpoint place (n : option rnode) (p : path) (kind : skind) (lines : list (bytes * iv)) : option rnode :=
  match p with
  | [] =>
    match kind, n with
    | KStd, None => optmap (RTab true) (add_lines lines [])
    | KStd, Some (RTab false m) => optmap (RTab true) (add_lines lines m)     (* was only implied so far *)
    | KArr, None => optmap (RAot []) (add_lines lines [])
    | KArr, Some (RAot done cur) => optmap (RAot (done ++ [cur])) (add_lines lines [])
    | _, _ => None                                                          (* defined twice, or not a table *)
    end
  | k :: p' =>
    let down (m : list (bytes * rnode)) : option (list (bytes * rnode)) :=
      optmap (fun n' => rset k n' m) (place (rlookup k m) p' kind lines) in
    match n with
    | None => optmap (RTab false) (down [])
    | Some (RTab e m) => optmap (RTab e) (down m)
    | Some (RAot done cur) => optmap (RAot done) (down cur)                  (* the last element *)
    | Some (RVal _) => None
    end
  end.

Definition place_root (m : list (bytes * rnode)) (s : section) : option (list (bytes * rnode)) :=
  match s_path s with
  | [] => match s_kind s with KRoot => add_lines (s_lines s) m | _ => None end
  | k :: p' => optmap (fun n' => rset k n' m) (place (rlookup k m) p' (s_kind s) (s_lines s))
  end.

Fixpoint place_all (m : list (bytes * rnode)) (d : list section) : option (list (bytes * rnode)) :=
  match d with
  | [] => Some m
  | s :: d' => match place_root m s with Some m' => place_all m' d' | None => None end
  end.

Fixpoint freeze (n : rnode) : tv :=
  match n with
  | RVal v => v
  | RTab _ m =>
    TTab ((fix go (m : list (bytes * rnode)) : list (bytes * tv) :=
             match m with [] => [] | (k, x) :: r => (k, freeze x) :: go r end) m)
  | RAot done cur =>
    TArr ((fix elems (l : list (list (bytes * rnode))) : list tv :=
             match l with
             | [] => []
             | e :: q => TTab ((fix go (m : list (bytes * rnode)) : list (bytes * tv) :=
                                 match m with [] => [] | (k, x) :: r => (k, freeze x) :: go r end) e) :: elems q
             end) done ++
          [TTab ((fix go (m : list (bytes * rnode)) : list (bytes * tv) :=
                    match m with [] => [] | (k, x) :: r => (k, freeze x) :: go r end) cur)])
  end.

(* the decoded root table, entries in order of first appearance *)
Definition read_back (d : list section) : option (list (bytes * tv)) :=
  match place_all [] d with
  | Some m => match freeze (RTab true m) with TTab r => Some r | _ => None end
  | None => None
  end.

(* ------------------------------------------------------------------------------------------ *)
(** * values up to map order *)

Definition sort_entries (m : list (bytes * tv)) : list (bytes * tv) :=
  stable_sort (fun a b => key_leb (fst a) (fst b)) m.

Fixpoint sort_tv (v : tv) : tv :=
  match v with
  | TLeaf t => TLeaf t
  | TArr l => TArr (map sort_tv l)
  | TTab m =>
    TTab (sort_entries ((fix go (m : list (bytes * tv)) : list (bytes * tv) :=
                           match m with [] => [] | (k, x) :: r => (k, sort_tv x) :: go r end) m))
  end.

(* equal up to the order of the entries of every map (the maps have distinct keys) *)
Definition tv_equiv (v w : tv) : Prop := sort_tv v = sort_tv w.

Fixpoint wf_tv (v : tv) : bool :=
  match v with
  | TLeaf _ => true
  | TArr l => forallb wf_tv l
  | TTab m =>
    keys_distinct m &&
    (fix go (m : list (bytes * tv)) : bool :=
       match m with [] => true | (_, x) :: r => wf_tv x && go r end) m
  end.

(* decoding under the two configurations of toml::Map *)
Definition decode (o : morder) (d : list section) : option (list (bytes * tv)) :=
  match read_back d with
  | Some m => Some (match o with
                    | OInsertion => m
                    | OSorted => match sort_tv (TTab m) with TTab r => r | _ => m end
                    end)
  | None => None
  end.

(* boolean equality of values, for the observation commands *)
Fixpoint tv_eqb (a b : tv) : bool :=
  match a, b with
  | TLeaf s, TLeaf t => bytes_eqb s t
  | TArr l, TArr l' =>
    (fix go (l : list tv) (l' : list tv) : bool :=
       match l, l' with
       | [], [] => true
       | x :: r, y :: r' => tv_eqb x y && go r r'
       | _, _ => false
       end) l l'
  | TTab m, TTab m' =>
    (fix go (m : list (bytes * tv)) (m' : list (bytes * tv)) : bool :=
       match m, m' with
       | [], [] => true
       | (k, x) :: r, (k', y) :: r' => bytes_eqb k k' && tv_eqb x y && go r r'
       | _, _ => false
       end) m m'
  | _, _ => false
  end.

(* ------------------------------------------------------------------------------------------ *)
(** * vocabulary of the property statements (Props/C17.v) *)

(* q is strictly below p *)
Definition strict_prefix (p q : path) : Prop := exists k r, q = p ++ k :: r.

(* the kind of section a table written at path p gets (a = it is an element of an array of tables) *)
Definition kind_of (p : path) (a : bool) : skind :=
  match p with [] => KRoot | _ :: _ => if a then KArr else KStd end.

(* a BTreeMap-backed value: every map in ascending key order *)
Definition sorted_tv (v : tv) : Prop := sort_tv v = v.
(* what a value of the given Map configuration satisfies *)
Definition order_inv (o : morder) (m : list (bytes * tv)) : Prop :=
  match o with OSorted => sorted_tv (TTab m) | OInsertion => True end.

(* w is v with the entries of any of its maps, at any depth, permuted *)
Inductive perm_tv : tv -> tv -> Prop :=
| PLeaf t : perm_tv (TLeaf t) (TLeaf t)
| PArr l l' : Forall2 perm_tv l l' -> perm_tv (TArr l) (TArr l')
| PTab m m1 m' :
    Permutation m m1 ->
    Forall2 (fun a b => fst a = fst b /\ perm_tv (snd a) (snd b)) m1 m' ->
    perm_tv (TTab m) (TTab m').

(* who hands the entries of the tables to the serializer *)
Inductive writer :=
| WValue     (* toml::Value: `impl Serialize for Value`, three loops at every level *)
| WTable     (* toml::Table at the root: map order there, Values below *)
| WStruct.   (* a derived struct / any impl that keeps its own order, at every level (ser_plain) *)
Definition w_three (w : writer) : bool := match w with WValue => true | _ => false end.
Definition w_tn (w : writer) : bool := match w with WStruct => false | _ => true end.

(* the document the model of the crates writes *)
Definition emit_doc (w : writer) (ml : bool) (m : list (bytes * tv)) : list section :=
  match w with
  | WValue => emit_value_doc ml m
  | WTable => emit_table_doc ml m
  | WStruct => emit_struct_doc ml m
  end.
