(* Spec/WF.v — well-formed DESPANNED document trees: the trees that print (Model/Encode.v, Display for
   DocumentMut) as a TOML text denoting their own data.

   A tree is despanned when every raw string is empty or explicit (ImDocument::into_mut, Model/Encode.v
   `tbl_despan`); a document fresh from the parser and despanned is well-formed (Proofs/WFParse*.v), so is
   whatever the construction API builds, and the edit operations are meant to preserve it.

   WF says, slot by slot, that what the printer writes there is what the grammar of Spec/Syntax.v allows there:
     * decor (what `raw_encode` prints for it, i.e. with every CR removed) is legal trivia for its slot:
         ws          blanks                              dotted-key decor, key suffix, value decor inside inline
                                                         tables, the text after `{`, value prefix on a key/value line
         line-trail  ws [ comment ]                      value suffix on a key/value line, header suffix
         lines       *( ws [ comment ] LF ) ws           key prefix on a key/value line or above a header, header
                                                         prefix, the root table's decor
         wscn        ws-comment-newline (LF only)        value decor inside arrays, array trailing
         doc-trail   *( ws [ comment ] LF ) ws [ comment ]   the document's trailing text
       an absent decor prints as the slot's default, which is legal;
     * a stored scalar repr is a token of the scalar's kind denoting the stored scalar; an absent repr is
       allowed where the default writer is proved to produce such a token (not for finite floats: their
       shortest decimal is std's, Model/Encode.v `float_marker`); a stored key repr is a simple-key spelling
       the key, an absent one needs a UTF-8 key;
     * arrays and inline tables hold values only; tables hold no `Item::None`; an array of tables has at
       least one element and its elements are not dotted; the keys of every table are distinct; a dotted inline
       table (below a table or an inline table) has at least one entry (otherwise nothing creates it);
     * a table that prints no `[header]` and has no key/value line of its own (directly or through tables made of
       dotted keys) — an implicit table without lines, or a table made of dotted keys whose lines are gone (edits:
       Table::insert of a table over its last value) — has a header printed below it (otherwise it vanishes); a table
       made of dotted keys without a line is then, in the printed text, a super-table of that header;
     * the implementation limits (Spec/Syntax.v `within`, `stmt_within`);
     * `order_ok`: the `position`s let the sections come out in an order that defines the same tables
       (Proofs/WFOrder.v; for now: positions are non-decreasing along the pre-order walk, as for every
       constructed tree and every edited tree whose positions were left alone or cleared). *)
From TV Require Import Base.Prelude Base.Utf8 Gen.Consts Spec.Abnf Spec.Lex Spec.Defs Spec.DatetimeSpec Spec.Syntax.
From TV Require Import Model.Datetime Model.Numbers Model.Tree Model.Parse Model.Write Model.Encode.

(* ---- trivia languages ---------------------------------------------------------------------------------- *)
(* *( ws [ comment ] LF ) ws *)
Inductive lines_tok : bytes -> Prop :=
| ln_last w : ws_tok w -> lines_tok w
| ln_more w c t : ws_tok w -> opt_comment c -> lines_tok t -> lines_tok (w ++ c ++ [x0a] ++ t).
(* ws [ comment ] *)
Definition line_trail_tok (t : bytes) : Prop := exists w c, t = w ++ c /\ ws_tok w /\ opt_comment c.
(* *( ws [ comment ] LF ) ws [ comment ] *)
Inductive doc_trail_tok : bytes -> Prop :=
| dt_last t : line_trail_tok t -> doc_trail_tok t
| dt_more w c t : ws_tok w -> opt_comment c -> doc_trail_tok t -> doc_trail_tok (w ++ c ++ [x0a] ++ t).

Inductive slot : Set := SWs | SLineTrail | SLines | SWscn | SDocTrail.
Definition slot_ok (sl : slot) (t : bytes) : Prop :=
  match sl with
  | SWs => ws_tok t
  | SLineTrail => line_trail_tok t
  | SLines => lines_tok t
  | SWscn => wscn_tok t
  | SDocTrail => doc_trail_tok t
  end.

(* a despanned raw string, printing (CR stripped) as legal trivia for the slot *)
Definition raw_ok (sl : slot) (r : raw) : Prop :=
  match r with
  | RSpanned _ _ => False
  | _ => slot_ok sl (raw_encode r [])
  end.
Definition oraw_ok (sl : slot) (o : option raw) : Prop := match o with Some r => raw_ok sl r | None => True end.
Definition decor_ok (pre suf : slot) (d : decor) : Prop := oraw_ok pre (d_prefix d) /\ oraw_ok suf (d_suffix d).

(* ---- scalars and keys -------------------------------------------------------------------------------------- *)
Definition scalar_tok (t : bytes) (x : scalar) : Prop :=
  match x with
  | SString v => string_tok t v
  | SInt z => integer_tok t z
  | SFloat f => float_tok t f
  | SBool b => boolean_tok t b
  | SDatetime d => date_time_tok t d
  end.
(* Spec/Syntax.v `within` on a scalar *)
Definition scalar_lim (x : scalar) : Prop :=
  match x with
  | SInt z => in_i64 z = true
  | SFloat (FDec _ m e) => overflows m e = false
  | _ => True
  end.
(* the default writer (Model/Encode.v scalar_default_repr) produces a token denoting the scalar *)
Definition default_ok (x : scalar) : Prop :=
  match x with
  | SString v => utf8_valid_b v = true
  | SInt _ => True
  | SFloat (FDec _ _ _) => False
  | SFloat _ => True
  | SBool _ => True
  | SDatetime d => in_range d = true
  end.
Definition repr_ok (x : scalar) (r : option raw) : Prop :=
  match r with
  | None => default_ok x
  | Some (RExplicit s) => scalar_tok s x
  | Some _ => False
  end.

Definition key_repr_ok (k : key) : Prop :=
  match k_repr k with
  | None => utf8_valid_b (k_key k) = true
  | Some (RExplicit s) => simple_key_tok s (k_key k)
  | Some _ => False
  end.
(* `line` = the key may end the key path of a key/value line or of a header (its leaf prefix is then printed
   at the start of a line); otherwise it is a key inside an inline table *)
Definition key_wf (line : bool) (k : key) : Prop :=
  key_repr_ok k
  /\ decor_ok SWs SWs (k_dotted k)
  /\ decor_ok (if line then SLines else SWs) SWs (k_leaf k).

(* ---- values ------------------------------------------------------------------------------------------------- *)
Inductive vctx : Set := CLine | CArr | CInl.
Definition vdecor_ok (c : vctx) (d : decor) : Prop :=
  match c with
  | CLine => decor_ok SWs SLineTrail d
  | CArr => decor_ok SWscn SWscn d
  | CInl => decor_ok SWs SWs d
  end.

Section AllP.
  Context {A : Type}.
  Variable P : A -> Prop.
  Fixpoint all_P (l : list A) : Prop :=
    match l with [] => True | x :: tl => P x /\ all_P tl end.
End AllP.

Definition kkeys (m : kvs) : list bytes := map (fun kv => k_key (fst kv)) m.

Fixpoint value_wf (c : vctx) (v : value) {struct v} : Prop :=
  match v with
  | VScalar x r d => repr_ok x r /\ scalar_lim x /\ vdecor_ok c d
  | VArray vals tr _ d _ =>
    vdecor_ok c d /\ raw_ok SWscn tr
    /\ all_P (fun it => match it with IValue e => value_wf CArr e | _ => False end) vals
  | VInline items pre _ _ d _ =>
    vdecor_ok c d /\ raw_ok SWs pre /\ NoDup (kkeys items)
    /\ all_P (fun kv => key_wf false (fst kv) /\ pair_wf false (snd kv)) items
  end
(* an entry of an inline table (line = false), or a value entry of a table section (line = true): a dotted
   inline table is flattened into the key paths of its entries *)
with pair_wf (line : bool) (it : item) {struct it} : Prop :=
  match it with
  | IValue v =>
    match v with
    | VInline sub _ _ true _ _ =>
      sub <> [] /\ NoDup (kkeys sub)
      /\ all_P (fun kv => key_wf line (fst kv) /\ pair_wf line (snd kv)) sub
    | _ => value_wf (if line then CLine else CInl) v
    end
  | _ => False
  end.

(* ---- tables ---------------------------------------------------------------------------------------------------- *)
(* the table has a key/value line of its own (directly, or through tables made of dotted keys) *)
Fixpoint has_line (t : tbl) : bool :=
  match t with
  | Tbl items _ _ _ _ _ =>
    existsb (fun kv => match snd kv with
                       | IValue _ => true
                       | ITable sub => t_dotted sub && has_line sub
                       | _ => false
                       end) items
  end.
(* its `[header]` is written: not (implicit and without lines) *)
Definition shown (t : tbl) : bool := negb (t_implicit t && negb (has_line t)).
(* some header is written for or below it *)
Fixpoint prints_header (t : tbl) : bool :=
  match t with
  | Tbl items _ _ _ _ _ =>
    existsb (fun kv => match snd kv with
                       | ITable sub => (negb (t_dotted sub) && shown sub) || prints_header sub
                       | IAot ts _ => match ts with [] => false | _ => true end
                       | _ => false
                       end) items
  end.

(* top = the root table (its decor suffix is printed after the last section, in front of the trailing text) *)
Fixpoint tbl_wf (top : bool) (t : tbl) {struct t} : Prop :=
  match t with
  | Tbl items d _ _ _ _ =>
    decor_ok SLines (if top then SLines else SLineTrail) d /\ NoDup (kkeys items)
    /\ all_P (fun kv =>
                key_wf true (fst kv) /\
                match snd kv with
                | INone => False
                | IValue _ => pair_wf true (snd kv)
                | ITable sub =>
                  tbl_wf false sub /\ (if t_dotted sub then has_line sub = true \/ prints_header sub = true
                                 else shown sub = true \/ prints_header sub = true)
                | IAot ts _ =>
                  ts <> [] /\ all_P (fun e => t_dotted e = false /\ tbl_wf false e) ts
                end) items
  end.

(* ---- limits ------------------------------------------------------------------------------------------------------ *)
(* Spec/Syntax.v `within d`: d arrays / inline tables are open around the value *)
Fixpoint value_lim (d : nat) (v : value) {struct v} : Prop :=
  match v with
  | VScalar _ _ _ => True
  | VArray vals _ _ _ _ =>
    S d < LIMIT /\ all_P (fun it => match it with IValue e => value_lim (S d) e | _ => True end) vals
  | VInline items _ _ _ _ _ => S d < LIMIT /\ all_P (fun kv => pair_lim (S d) 1 (snd kv)) items
  end
(* n = length of the key path down to and including this entry's key *)
with pair_lim (d n : nat) (it : item) {struct it} : Prop :=
  match it with
  | IValue v =>
    match v with
    | VInline sub _ _ true _ _ => all_P (fun kv => pair_lim d (S n) (snd kv)) sub
    | _ => n + value_depth v < LIMIT /\ value_lim d v
    end
  | _ => True
  end.
(* a key/value line of a section: the key path has n keys *)
Fixpoint line_lim (n : nat) (it : item) {struct it} : Prop :=
  match it with
  | IValue v =>
    match v with
    | VInline sub _ _ true _ _ => all_P (fun kv => line_lim (S n) (snd kv)) sub
    | _ => n < LIMIT /\ value_lim 0 v
    end
  | _ => True
  end.
(* h = length of the header path of the table; n = length of the key path inside the current section *)
Fixpoint tbl_lim (h n : nat) (t : tbl) {struct t} : Prop :=
  match t with
  | Tbl items _ _ _ _ _ =>
    all_P (fun kv =>
             match snd kv with
             | IValue _ => line_lim (S n) (snd kv)
             | ITable sub => if t_dotted sub then tbl_lim (S h) (S n) sub else S h < LIMIT /\ tbl_lim (S h) 0 sub
             | IAot ts _ => S h < LIMIT /\ all_P (fun e => tbl_lim (S h) 0 e) ts
             | INone => True
             end) items
  end.

(* ---- the order of the sections --------------------------------------------------------------------------------- *)
(* the sections in visiting order (Model/Encode.v nested_tables, fuel-free) *)
Fixpoint sections (t : tbl) (path : list key) (is_array : bool) {struct t} : list (tbl * list key * bool) :=
  (if t_dotted t then [] else [(t, path, is_array)])
  ++ match t with
     | Tbl items _ _ _ _ _ =>
       flat_map (fun kv =>
                   match snd kv with
                   | ITable sub => sections sub (path ++ [fst kv]) false
                   | IAot ts _ => flat_map (fun sub => sections sub (path ++ [fst kv]) true) ts
                   | _ => []
                   end) items
     end.
Fixpoint nondecreasing (l : list N) : Prop :=
  match l with
  | a :: ((b :: _) as tl) => (a <= b)%N /\ nondecreasing tl
  | _ => True
  end.
(* the positions `assign_positions` gives (a table without position inherits the last one), along the walk *)
Definition order_ok (root : tbl) : Prop :=
  nondecreasing (map fst (assign_positions 0 (sections root [] false))).

(* ---- the document ------------------------------------------------------------------------------------------------- *)
Definition WF (root : tbl) : Prop :=
  t_dotted root = false
  /\ tbl_wf true root
  /\ tbl_lim 0 0 root
  /\ order_ok root.
Definition WFdoc (root : tbl) (trailing : raw) : Prop := WF root /\ raw_ok SDocTrail trailing.
