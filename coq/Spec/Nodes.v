(* Spec/Nodes.v — what "every node of a document, in document order" and "rewrite every scalar
   of one kind and nothing else" mean.  Written from the data structure (Model/Tree.v), without
   looking at the visitor code: the document is first turned into an ordinary labelled rose
   tree, and everything else (preorder listing, positions, document order) is the textbook
   definition on rose trees.

   Nodes of a document:
     - a table           (the root, a [header] table, an implicit or dotted table, an element of
                          an array of tables)
     - a key/value pair  (an entry of a table or of an inline table that holds something;
                          an `Item::None` placeholder left behind by `doc["a"]["b"]` indexing is
                          not a pair: Table::len, InlineTable::len, InlineTable::iter skip it)
     - an array of tables
     - a value           (a scalar, an array, an inline table)
   The elements of an array are the `Item::Value`s of its vector (Array::iter, Array::get);
   an element of any other shape is invisible through the Array API and is not a node. *)
From TV Require Import Base.Prelude Model.Datetime Model.Numbers Model.Tree.

Inductive node : Set :=
| NTable (t : tbl)
| NKv (k : key) (i : item)
| NAot (ts : list tbl) (sp : ospan)
| NValue (v : value).

Inductive rose : Set := Rose (n : node) (cs : list rose).

Definition label (r : rose) : node := match r with Rose n _ => n end.
Definition kids (r : rose) : list rose := match r with Rose _ cs => cs end.

(* ---- the document as a rose tree --------------------------------------------------------- *)

Fixpoint rose_value (v : value) : rose :=
  Rose (NValue v)
       match v with
       | VScalar _ _ _ => []
       | VArray vals _ _ _ _ =>
         flat_map (fun it => match it with IValue e => [rose_value e] | _ => [] end) vals
       | VInline items _ _ _ _ _ =>
         flat_map (fun kv => match kv with
                             | (k, i) => match i with
                                         | INone => []
                                         | _ => [Rose (NKv k i) (rose_item i)]
                                         end
                             end) items
       end
(* what a key/value pair holds *)
with rose_item (i : item) : list rose :=
  match i with
  | INone => []
  | IValue v => [rose_value v]
  | ITable t => [rose_tbl t]
  | IAot ts sp => [Rose (NAot ts sp) (map (fun t => rose_tbl t) ts)]
  end
with rose_tbl (t : tbl) : rose :=
  Rose (NTable t)
       match t with
       | Tbl items _ _ _ _ _ =>
         flat_map (fun kv => match kv with
                             | (k, i) => match i with
                                         | INone => []
                                         | _ => [Rose (NKv k i) (rose_item i)]
                                         end
                             end) items
       end.

(* ---- document order ---------------------------------------------------------------------- *)

(* preorder: a node, then its children's subtrees from first to last *)
Fixpoint preorder (r : rose) : list node :=
  match r with
  | Rose n cs => n :: flat_map preorder cs
  end.

Definition nodes (t : tbl) : list node := preorder (rose_tbl t).

(* positions: the i-th child of the j-th child of ... of the root *)
Definition path := list nat.

Fixpoint subtree (r : rose) (p : path) : option rose :=
  match p with
  | [] => Some r
  | i :: q => match nth_error (kids r) i with
              | Some c => subtree c q
              | None => None
              end
  end.

Definition node_at (t : tbl) (p : path) : option node := optmap label (subtree (rose_tbl t) p).

(* document order on positions: a node comes before its descendants, an earlier sibling's
   subtree before a later sibling's (lexicographic order) *)
Fixpoint path_lt (p q : path) : Prop :=
  match p, q with
  | [], [] => False
  | [], _ :: _ => True
  | _ :: _, [] => False
  | i :: p', j :: q' => i < j \/ (i = j /\ path_lt p' q')
  end.

(* ---- rewriting the scalars --------------------------------------------------------------- *)

Section MapScalars.
  (* g s = Some s': the scalar s is replaced by s' (a freshly formatted value: no stored
     spelling; the surrounding whitespace/comments stay).  g s = None: s stays as it is. *)
  Variable g : scalar -> option scalar.

  Fixpoint map_value (v : value) : value :=
    match v with
    | VScalar s r d => match g s with Some s' => VScalar s' None d | None => v end
    | VArray vals tr c d sp =>
      VArray (map (fun it => match it with IValue e => IValue (map_value e) | _ => it end) vals) tr c d sp
    | VInline items pre im dt d sp =>
      VInline (map (fun kv => match kv with (k, i) => (k, map_item i) end) items) pre im dt d sp
    end
  with map_item (i : item) : item :=
    match i with
    | INone => INone
    | IValue v => IValue (map_value v)
    | ITable t => ITable (map_tbl t)
    | IAot ts sp => IAot (map (fun t => map_tbl t) ts) sp
    end
  with map_tbl (t : tbl) : tbl :=
    match t with
    | Tbl items d im dt p sp =>
      Tbl (map (fun kv => match kv with (k, i) => (k, map_item i) end) items) d im dt p sp
    end.

  Definition map_node (n : node) : node :=
    match n with
    | NTable t => NTable (map_tbl t)
    | NKv k i => NKv k (map_item i)
    | NAot ts sp => NAot (map map_tbl ts) sp
    | NValue v => NValue (map_value v)
    end.
End MapScalars.

Definition map_scalars (g : scalar -> option scalar) (t : tbl) : tbl := map_tbl g t.

(* every integer z becomes f z *)
Definition rw_integer (f : Z -> Z) (s : scalar) : option scalar :=
  match s with SInt z => Some (SInt (f z)) | _ => None end.
(* every string x becomes f x *)
Definition rw_string (f : bytes -> bytes) (s : scalar) : option scalar :=
  match s with SString x => Some (SString (f x)) | _ => None end.

(* the scalars of a document, in document order *)
Definition scalars (t : tbl) : list scalar :=
  flat_map (fun n => match n with NValue (VScalar s _ _) => [s] | _ => [] end) (nodes t).
