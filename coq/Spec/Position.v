(* Spec/Position.v — what "line and column of byte offset i" means (property C15).

   Lines are terminated by LF (the terminator belongs to the line it ends).  Offset i is
   reported on the line of byte i; the end of input (i = length s) has no byte of its own and
   is reported on the line of the LAST byte, one past that line's last character — also when
   that last character is a final newline ("pointing one past the last line's end at end of
   input").  Columns count characters (bytes that are not UTF-8 continuation bytes), not
   bytes.  Both numbers are 0-based here; the rendered text adds 1.

   Written as counts over prefixes computed left to right; the code searches backwards. *)
From TV Require Import Base.Prelude Base.Utf8.

Definition lf (b : byte) : bool := byte_eqb b x0a.

Definition count_lf (s : bytes) : nat := length (filter lf s).
Definition count_chars (s : bytes) : nat := length (filter is_boundary_byte s).

(* the bytes after the last LF of s (all of s if there is none), scanning left to right *)
Definition current_line (s : bytes) : bytes :=
  fold_left (fun acc b => if lf b then [] else acc ++ [b]) s [].

(* the byte whose line the offset is reported on: byte i, or the last byte at end of input *)
Definition anchor (s : bytes) (i : nat) : nat := Nat.min i (length s - 1).

(* number of LF bytes before the anchor (= before offset i, except that at end of input a
   final LF does not open a new line) *)
Definition lines_before (s : bytes) (i : nat) : nat :=
  count_lf (firstn (anchor s i) s).

(* number of characters between the start of that line and offset i *)
Definition chars_since_line_start (s : bytes) (i : nat) : nat :=
  count_chars (current_line (firstn (anchor s i) s) ++ skipn (anchor s i) (firstn i s)).

(* sanity: inside the text this is the plain reading *)
Lemma anchor_inside s i : i < length s -> anchor s i = i.
Proof. unfold anchor; lia. Qed.

Lemma lines_before_inside s i : i < length s -> lines_before s i = count_lf (firstn i s).
Proof. intro H; unfold lines_before; rewrite anchor_inside by exact H; reflexivity. Qed.

Lemma chars_since_line_start_inside s i :
  i < length s -> chars_since_line_start s i = count_chars (current_line (firstn i s)).
Proof.
  intro H; unfold chars_since_line_start; rewrite anchor_inside by exact H.
  assert (E : skipn i (firstn i s) = []).
  { apply length_zero_iff_nil. rewrite skipn_length, firstn_length. lia. }
  rewrite E, app_nil_r; reflexivity.
Qed.

Example pos_ex1 : (lines_before [x61; x0a; x62] 2, chars_since_line_start [x61; x0a; x62] 2) = (1, 0).
Proof. reflexivity. Qed.
(* end of input without a final newline: one past the last character *)
Example pos_ex2 : (lines_before [x61; x0a; x62] 3, chars_since_line_start [x61; x0a; x62] 3) = (1, 1).
Proof. reflexivity. Qed.
(* end of input right after a final newline: still line 0, one past the newline *)
Example pos_ex3 : (lines_before [x61; x0a] 2, chars_since_line_start [x61; x0a] 2) = (0, 2).
Proof. reflexivity. Qed.
(* multi-byte characters count once: "é" é, offset 5 -> column 4 (0-based) *)
Example pos_ex4 : chars_since_line_start [x22; xc3; xa9; x22; x20; xc3; xa9] 5 = 4.
Proof. reflexivity. Qed.
Example pos_ex5 : (lines_before [] 0, chars_since_line_start [] 0) = (0, 0).
Proof. reflexivity. Qed.
