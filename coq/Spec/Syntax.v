(* Spec/Syntax.v — the syntactic layer of toml.abnf v1.0.0 above the tokens of Spec/Lex.v:
   date-time, key, val / array / inline-table, keyval, std-table, array-table, expression and
   toml, as value-carrying relations over byte strings (`rule t v`: the text t is a <rule>
   and denotes v); the abstract syntax they produce; what an abstract document denotes
   (through the definition rules of Spec/Defs.v); and the implementation limits of
   DESIGN.md 3.4.  Written from the grammar and the prose of the TOML 1.0.0 README and
   RFC 3339; independent of the parser (only the *types* `datetime` and `fval` and the two
   limit tests `in_i64`, `overflows` come from the model, and LIMIT from the generated
   constants). *)
From TV Require Import Base.Prelude Base.Utf8 Spec.Abnf Spec.Lex Spec.Defs Spec.DatetimeSpec.
From TV Require Model.Datetime Model.Numbers Gen.Consts.

Notation datetime := Datetime.datetime.
Notation date := Datetime.date.
Notation time := Datetime.time.
Notation offset := Datetime.offset.

(* ================================================================================================= *)
(* date-time (RFC 3339 as profiled by toml.abnf)                                                     *)
(* ================================================================================================= *)
Local Open Scope N_scope.

(* nDIGIT ⇓ its decimal value *)
Definition digits_tok (n : nat) (t : bytes) (v : N) : Prop :=
  length t = n /\ all digit t /\ v = horner 10 t.

(* full-date = date-fullyear "-" date-month "-" date-mday
   date-fullyear = 4DIGIT ; date-month = 2DIGIT ; 01-12
   date-mday = 2DIGIT ; 01-28, 01-29, 01-30, 01-31 based on month/year   (RFC 3339 5.7) *)
Definition full_date_tok (t : bytes) (d : date) : Prop :=
  exists ty tm td y m dd,
    t = ty ++ [x2d] ++ tm ++ [x2d] ++ td
    /\ digits_tok 4 ty y /\ digits_tok 2 tm m /\ digits_tok 2 td dd
    /\ d = Datetime.mkDate y m dd /\ date_ok d = true.

(* time-secfrac = "." 1*DIGIT
   (prose) "If the value contains greater precision than the implementation can support, the
   additional precision must be truncated, not rounded": nanoseconds = the first nine
   fraction digits, a shorter fraction being padded with zeros on the right *)
Definition nanos (ds : bytes) : N := horner 10 (firstn 9 (ds ++ repeat x30 9)).
Definition secfrac_tok (t : bytes) (ns : N) : Prop :=
  exists ds, t = x2e :: ds /\ ds <> [] /\ all digit ds /\ ns = nanos ds.

(* partial-time = time-hour ":" time-minute ":" time-second [ time-secfrac ]
   time-hour = 2DIGIT ; 00-23   time-minute = 2DIGIT ; 00-59
   time-second = 2DIGIT ; 00-58, 00-59, 00-60 based on leap second rules (60 always allowed) *)
Definition partial_time_tok (t : bytes) (tm : time) : Prop :=
  exists th tmi ts tf h mi s ns,
    t = th ++ [x3a] ++ tmi ++ [x3a] ++ ts ++ tf
    /\ digits_tok 2 th h /\ digits_tok 2 tmi mi /\ digits_tok 2 ts s
    /\ ((tf = [] /\ ns = 0) \/ secfrac_tok tf ns)
    /\ h <= 23 /\ mi <= 59 /\ s <= 60
    /\ tm = Datetime.mkTime h mi s ns.

(* time-offset = "Z" / time-numoffset ;  time-numoffset = ( "+" / "-" ) time-hour ":" time-minute
   ("Z" is an ABNF string: case-insensitive).  The value is the offset in minutes. *)
Definition time_offset_tok (t : bytes) (o : offset) : Prop :=
  ((t = [x5a] \/ t = [x7a]) /\ o = Datetime.OffZ)
  \/ exists sg neg th tmi h mi,
       t = sg ++ th ++ [x3a] ++ tmi
       /\ ((sg = [x2b] /\ neg = false) \/ (sg = [x2d] /\ neg = true))
       /\ digits_tok 2 th h /\ digits_tok 2 tmi mi /\ h <= 23 /\ mi <= 59
       /\ o = Datetime.OffCustom (signed neg (h * 60 + mi)).

(* date-time = offset-date-time / local-date-time / local-date / local-time
   offset-date-time = full-date time-delim full-time ;  full-time = partial-time time-offset
   local-date-time = full-date time-delim partial-time
   local-date = full-date ;  local-time = partial-time *)
Definition date_time_tok (t : bytes) (d : datetime) : Prop :=
  (exists td dl tt tz dt tm o,
     t = td ++ [dl] ++ tt ++ tz /\ full_date_tok td dt /\ time_delim dl = true
     /\ partial_time_tok tt tm /\ time_offset_tok tz o
     /\ d = Datetime.mkDT (Some dt) (Some tm) (Some o))
  \/ (exists td dl tt dt tm,
        t = td ++ [dl] ++ tt /\ full_date_tok td dt /\ time_delim dl = true
        /\ partial_time_tok tt tm /\ d = Datetime.mkDT (Some dt) (Some tm) None)
  \/ (exists dt, full_date_tok t dt /\ d = Datetime.mkDT (Some dt) None None)
  \/ (exists tm, partial_time_tok t tm /\ d = Datetime.mkDT None (Some tm) None).

(* a continuation that cannot extend a date-time: no digit, no ".", no time-delim letter, no
   offset; a space only if no digit follows it *)
Definition dt_stop (r : bytes) : Prop :=
  match r with
  | [] => True
  | b :: r' =>
    digit b = false /\ b <> x2e /\ b <> x54 /\ b <> x74 /\ b <> x5a /\ b <> x7a /\ b <> x2b /\ b <> x2d
    /\ (b = x20 -> match r' with [] => True | c :: _ => digit c = false end)
  end.

Local Close Scope N_scope.

(* ================================================================================================= *)
(* trivia between array elements, keys                                                               *)
(* ================================================================================================= *)
(* [ comment ] *)
Definition opt_comment (c : bytes) : Prop := c = [] \/ comment_tok c.

(* ws-comment-newline = *( wschar / [ comment ] newline ) *)
Inductive wscn_tok : bytes -> Prop :=
| wscn_nil : wscn_tok []
| wscn_ws b t : wschar b = true -> wscn_tok t -> wscn_tok (b :: t)
| wscn_nl c nl t : opt_comment c -> newline_tok nl -> wscn_tok t -> wscn_tok (c ++ nl ++ t).

(* a continuation that cannot extend ws-comment-newline *)
Definition wscn_stop (r : bytes) : Prop :=
  match r with
  | [] => True
  | b :: _ => wschar b = false /\ b <> x23 /\ b <> x0a /\ b <> x0d
  end.

(* key = simple-key / dotted-key ;  dotted-key = simple-key 1*( dot-sep simple-key )
   dot-sep = ws %x2E ws                                   ⇓ the list of decoded keys *)
Inductive key_tok : bytes -> list bytes -> Prop :=
| key_one t k : simple_key_tok t k -> key_tok t [k]
| key_dot t k w1 w2 u ks :
    simple_key_tok t k -> ws_tok w1 -> ws_tok w2 -> key_tok u ks ->
    key_tok (t ++ w1 ++ [x2e] ++ w2 ++ u) (k :: ks).

(* what follows a key (and the ws after it): keyval-sep's "=" or a table header's "]" *)
Definition key_stop (r : bytes) : Prop := exists b r', r = b :: r' /\ (b = x3d \/ b = x5d).

(* ================================================================================================= *)
(* abstract syntax of values; val / array / inline-table                                             *)
(* ================================================================================================= *)
Inductive aval : Type :=
| AStr (s : bytes)
| AInt (z : Z)
| AFloat (f : fval)
| ABool (b : bool)
| ADate (d : datetime)
| AArr (l : list aval)
| AInl (kvs : list (list bytes * aval)).       (* key path = value, in source order *)

(* val = string / boolean / array / inline-table / date-time / float / integer

   array = array-open [ array-values ] ws-comment-newline array-close
   array-open = %x5B ;  array-close = %x5D ;  array-sep = %x2C
   array-values =  ws-comment-newline val ws-comment-newline array-sep array-values
   array-values =/ ws-comment-newline val ws-comment-newline [ array-sep ]

   inline-table = inline-table-open [ inline-table-keyvals ] inline-table-close
   inline-table-open = %x7B ws ;  inline-table-close = ws %x7D ;  inline-table-sep = ws %x2C ws
   inline-table-keyvals = keyval [ inline-table-sep inline-table-keyvals ]
   keyval = key keyval-sep val ;  keyval-sep = ws %x3D ws *)
Inductive val_tok : bytes -> aval -> Prop :=
| v_string t s : string_tok t s -> val_tok t (AStr s)
| v_boolean t b : boolean_tok t b -> val_tok t (ABool b)
| v_array_empty w : wscn_tok w -> val_tok ([x5b] ++ w ++ [x5d]) (AArr [])
| v_array vs l w : array_values_tok vs l -> wscn_tok w -> val_tok ([x5b] ++ vs ++ w ++ [x5d]) (AArr l)
| v_inline_empty w : ws_tok w -> val_tok ([x7b] ++ w ++ [x7d]) (AInl [])
| v_inline w1 kvs l w2 :
    ws_tok w1 -> inline_keyvals_tok kvs l -> ws_tok w2 -> val_tok ([x7b] ++ w1 ++ kvs ++ w2 ++ [x7d]) (AInl l)
| v_date_time t d : date_time_tok t d -> val_tok t (ADate d)
| v_float t f : float_tok t f -> val_tok t (AFloat f)
| v_integer t z : integer_tok t z -> val_tok t (AInt z)
with array_values_tok : bytes -> list aval -> Prop :=
| av_last w1 t a w2 c :
    wscn_tok w1 -> val_tok t a -> wscn_tok w2 -> (c = [] \/ c = [x2c]) ->
    array_values_tok (w1 ++ t ++ w2 ++ c) [a]
| av_more w1 t a w2 u l :
    wscn_tok w1 -> val_tok t a -> wscn_tok w2 -> array_values_tok u l ->
    array_values_tok (w1 ++ t ++ w2 ++ [x2c] ++ u) (a :: l)
with inline_keyvals_tok : bytes -> list (list bytes * aval) -> Prop :=
| ik_last k p w1 w2 t a :
    key_tok k p -> ws_tok w1 -> ws_tok w2 -> val_tok t a ->
    inline_keyvals_tok (k ++ w1 ++ [x3d] ++ w2 ++ t) [(p, a)]
| ik_more k p w1 w2 t a w3 w4 u l :
    key_tok k p -> ws_tok w1 -> ws_tok w2 -> val_tok t a ->
    ws_tok w3 -> ws_tok w4 -> inline_keyvals_tok u l ->
    inline_keyvals_tok (k ++ w1 ++ [x3d] ++ w2 ++ t ++ w3 ++ [x2c] ++ w4 ++ u) ((p, a) :: l).

Scheme val_tok_ind3 := Induction for val_tok Sort Prop
  with array_values_tok_ind3 := Induction for array_values_tok Sort Prop
  with inline_keyvals_tok_ind3 := Induction for inline_keyvals_tok Sort Prop.
Scheme val_tok_min := Minimality for val_tok Sort Prop
  with array_values_tok_min := Minimality for array_values_tok Sort Prop
  with inline_keyvals_tok_min := Minimality for inline_keyvals_tok Sort Prop.
Combined Scheme val_tok_mutind from val_tok_min, array_values_tok_min, inline_keyvals_tok_min.

(* what can follow a value: optional whitespace, then the end of the text, a comment, a
   newline, "," "]" or "}" *)
Definition vstop (r : bytes) : Prop :=
  match r with
  | [] => True
  | b :: _ => b = x23 \/ b = x0a \/ b = x0d \/ b = x2c \/ b = x5d \/ b = x7d
  end.
Definition vfollow (r : bytes) : Prop := exists w r', r = w ++ r' /\ ws_tok w /\ vstop r'.

(* ================================================================================================= *)
(* keyval, tables, expression, toml                                                                  *)
(* ================================================================================================= *)
Definition astmt : Type := stmt aval.

(* keyval = key keyval-sep val *)
Definition keyval_tok (t : bytes) (p : list bytes) (a : aval) : Prop :=
  exists k w1 w2 v, t = k ++ w1 ++ [x3d] ++ w2 ++ v /\ key_tok k p /\ ws_tok w1 /\ ws_tok w2 /\ val_tok v a.

(* std-table = std-table-open key std-table-close ;  std-table-open = %x5B ws ;  -close = ws %x5D *)
Definition std_table_tok (t : bytes) (p : list bytes) : Prop :=
  exists w1 k w2, t = [x5b] ++ w1 ++ k ++ w2 ++ [x5d] /\ ws_tok w1 /\ key_tok k p /\ ws_tok w2.

(* array-table = array-table-open key array-table-close ;  -open = %x5B.5B ws ;  -close = ws %x5D.5D *)
Definition array_table_tok (t : bytes) (p : list bytes) : Prop :=
  exists w1 k w2, t = [x5b; x5b] ++ w1 ++ k ++ w2 ++ [x5d; x5d] /\ ws_tok w1 /\ key_tok k p /\ ws_tok w2.

(* expression =  ws [ comment ]
   expression =/ ws keyval ws [ comment ]
   expression =/ ws table ws [ comment ] ;  table = std-table / array-table
   ⇓ the statement it makes, if any *)
Inductive expression_tok : bytes -> list astmt -> Prop :=
| ex_blank w c : ws_tok w -> opt_comment c -> expression_tok (w ++ c) []
| ex_keyval w t p a w2 c :
    ws_tok w -> keyval_tok t p a -> ws_tok w2 -> opt_comment c ->
    expression_tok (w ++ t ++ w2 ++ c) [SKeyVal p a]
| ex_std_table w t p w2 c :
    ws_tok w -> std_table_tok t p -> ws_tok w2 -> opt_comment c ->
    expression_tok (w ++ t ++ w2 ++ c) [SHeader p]
| ex_array_table w t p w2 c :
    ws_tok w -> array_table_tok t p -> ws_tok w2 -> opt_comment c ->
    expression_tok (w ++ t ++ w2 ++ c) [SArrHeader p].

(* toml = expression *( newline expression )        ⇓ its statements in order *)
Inductive toml_tok : bytes -> list astmt -> Prop :=
| toml_one e l : expression_tok e l -> toml_tok e l
| toml_more e l nl t l' :
    expression_tok e l -> newline_tok nl -> toml_tok t l' -> toml_tok (e ++ nl ++ t) (l ++ l').

(* the one documented extension (DESIGN.md 3.1): a text may start with the UTF-8 byte-order mark *)
Definition strip_bom (s : bytes) : bytes :=
  match s with
  | b0 :: b1 :: b2 :: r => if byte_eqb b0 xef && byte_eqb b1 xbb && byte_eqb b2 xbf then r else s
  | _ => s
  end.
Definition toml_text (s : bytes) (stmts : list astmt) : Prop := toml_tok (strip_bom s) stmts.

(* ================================================================================================= *)
(* denotation                                                                                        *)
(* ================================================================================================= *)
(* the data a value denotes: an inline table denotes the table its key/value pairs define *)
Inductive dval : Type :=
| DStr (s : bytes)
| DInt (z : Z)
| DFloat (f : fval)
| DBool (b : bool)
| DDate (d : datetime)
| DArr (l : list dval)
| DTab (items : list (bytes * dval)).          (* in order *)

(* a Spec/Defs.v tree whose leaves are data, as data (kinds forgotten) *)
Fixpoint node_dval (n : node dval) : dval :=
  match n with
  | NVal v => v
  | NTab _ items => DTab (map (fun kn => (fst kn, node_dval (snd kn))) items)
  | NAot es => DArr (map (fun e => DTab (map (fun kn => (fst kn, node_dval (snd kn))) e)) es)
  end.
Definition tree_dval (t : stree dval) : list (bytes * dval) := map (fun kn => (fst kn, node_dval (snd kn))) t.

(* { p1 = v1, ..., pn = vn } denotes inline_run [(p1, v1); ...] (Spec/Defs.v: the key/value
   definition rules inside one closed table); an ill-defined inline table (see aval_ok)
   denotes the empty table *)
Fixpoint den (a : aval) : dval :=
  match a with
  | AStr s => DStr s
  | AInt z => DInt z
  | AFloat f => DFloat f
  | ABool b => DBool b
  | ADate d => DDate d
  | AArr l => DArr (map den l)
  | AInl kvs =>
    match inline_run (map (fun pv => (fst pv, den (snd pv))) kvs) with
    | Some t => DTab (tree_dval t)
    | None => DTab []
    end
  end.

(* every inline table in the value obeys the definition rules ("you cannot define a key more
   than once", dotted keys may not reopen a value or an explicitly written inline table) *)
Fixpoint aval_ok (a : aval) : bool :=
  match a with
  | AArr l => forallb aval_ok l
  | AInl kvs =>
    forallb (fun pv => aval_ok (snd pv)) kvs
    && match inline_run (map (fun pv => (fst pv, tt)) kvs) with Some _ => true | None => false end
  | _ => true
  end.

Definition stmt_ok (s : astmt) : bool := match s with SKeyVal _ v => aval_ok v | _ => true end.
Definition stmt_den (s : astmt) : stmt dval :=
  match s with SHeader p => SHeader p | SArrHeader p => SArrHeader p | SKeyVal p v => SKeyVal p (den v) end.

(* THE verdict on an abstract document: Valid with the tree it denotes / Invalid / Undecided
   (class U1, DESIGN.md 3.3) *)
Definition verdict (l : list astmt) : Defs.verdict dval :=
  if forallb stmt_ok l then spec_run (map stmt_den l) else Invalid.

(* ================================================================================================= *)
(* implementation limits (DESIGN.md 3.4)                                                             *)
(* ================================================================================================= *)
Definition lmaxn {A} (f : A -> nat) (l : list A) : nat := fold_right (fun x acc => Nat.max (f x) acc) 0 l.

(* nesting of arrays / tables in a datum *)
Fixpoint ddepth (v : dval) : nat :=
  match v with
  | DArr l => S (lmaxn ddepth l)
  | DTab items => S (lmaxn (fun kv => ddepth (snd kv)) items)
  | _ => 0
  end.

(* `d` = number of arrays / inline tables open around the value.  Integers fit i64; no decimal
   float reaches the binary64 overflow boundary; fewer than LIMIT arrays / inline tables are open
   at any point; inside an inline table, key path length + nesting of the value's datum stays
   below LIMIT. *)
Fixpoint within (d : nat) (a : aval) : bool :=
  match a with
  | AInt z => Numbers.in_i64 z
  | AFloat (FDec _ m e) => negb (Numbers.overflows m e)
  | AArr l => Nat.ltb (S d) Consts.LIMIT && forallb (within (S d)) l
  | AInl kvs =>
    Nat.ltb (S d) Consts.LIMIT
    && forallb (fun pv => Nat.ltb (length (fst pv) + ddepth (den (snd pv))) Consts.LIMIT && within (S d) (snd pv)) kvs
  | _ => true
  end.

(* every key path has fewer than LIMIT parts *)
Definition stmt_within (s : astmt) : bool :=
  match s with
  | SHeader p | SArrHeader p => Nat.ltb (length p) Consts.LIMIT
  | SKeyVal p v => Nat.ltb (length p) Consts.LIMIT && within 0 v
  end.
Definition within_limits (l : list astmt) : bool := forallb stmt_within l.
