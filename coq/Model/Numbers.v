(* Model/Numbers.v — crates/toml_edit/src/parser/numbers.rs.
   Integers are exact (Z).  A decimal float literal is kept as the exact decimal it denotes
   (FDec sign mantissa exponent10); the final rounding `str::parse::<f64>` is std's and is an
   oracle (DESIGN.md 4.4).  The only float fact decided here is the overflow guard, which is
   exact arithmetic on Z. *)
From TV Require Import Base.Prelude Base.Utf8 Base.Winnow Gen.Consts Model.Datetime Model.Strings.

Inductive fval : Set :=
| FNan (neg : bool)
| FInf (neg : bool)
| FDec (neg : bool) (m : N) (e : Z).

(* numbers.rs: true_ / false_ = (peek(LIT[0]), cut_err(LIT)).value(b) *)
Definition bool_lit (l : bytes) (v : bool) : parser bool :=
  match l with
  | c :: _ => peek (byte_ c) ;;; cut_err (lit l) ;;; ret v
  | [] => fun _ => Panic (P_other 1)      (* TRUE[0] on an empty constant *)
  end.
Definition true_ : parser bool := bool_lit TRUE true.
Definition false_ : parser bool := bool_lit FALSE false.

Definition digit : parser byte := one_of (in_class DIGIT).
Definition hexdig : parser byte := one_of (in_class HEXDIG).
Definition underscore : byte := x5f.

(* `(first, repeat(0.., alt((d.void(), (one_of(b'_'), cut_err(d).context(..)).void()))))` *)
Definition digits_us (first d : parser byte) : parser unit :=
  first ;;;
  pvoid (repeat0 (pvoid d <|> (byte_ underscore ;;; pvoid (context (cut_err d))))).

(* numbers.rs: dec_int *)
Definition dec_int : parser bytes :=
  context
    (unchecked_utf8 10
       (taken
          (opt (one_of (fun b => byte_eqb b plus || byte_eqb b dash)) ;;;
           (digits_us (one_of (in_class DIGIT1_9)) digit <|> pvoid digit)))).

Definition prefixed_int (where_ : N) (prefix : bytes) (d : parser byte) : parser bytes :=
  context
    (unchecked_utf8 where_
       (preceded (lit prefix) (taken (cut_err (digits_us d d))))).

(* numbers.rs: hex_int / oct_int / bin_int *)
Definition hex_int : parser bytes := prefixed_int 11 HEX_PREFIX hexdig.
Definition oct_int : parser bytes := prefixed_int 12 OCT_PREFIX (one_of (in_class DIGIT0_7)).
Definition bin_int : parser bytes := prefixed_int 13 BIN_PREFIX (one_of (in_class DIGIT0_1)).

Definition remove_us (s : bytes) : bytes := filter (fun b => negb (byte_eqb b underscore)) s.

(* digit value in radix r as i64::from_str_radix sees it (char::to_digit) *)
Definition radix_digit (r : N) (b : byte) : option N :=
  let n := b2n b in
  let v := if inr 48 57 b then Some (n - 48)%N
           else if inr 97 122 b then Some (n - 87)%N
           else if inr 65 90 b then Some (n - 55)%N
           else None in
  match v with Some x => if (x <? r)%N then Some x else None | None => None end.
Fixpoint radix_value (r : N) (acc : N) (s : bytes) : option N :=
  match s with
  | [] => Some acc
  | b :: t => match radix_digit r b with Some d => radix_value r (acc * r + d)%N t | None => None end
  end.

Definition i64_min : Z := (- 2 ^ 63)%Z.
Definition i64_max : Z := (2 ^ 63 - 1)%Z.
Definition in_i64 (z : Z) : bool := ((i64_min <=? z) && (z <=? i64_max))%Z.

(* i64::from_str_radix(s, r): optional sign, at least one digit, range checked *)
Definition i64_from_str_radix (r : N) (s : bytes) : option Z :=
  let '(neg, ds) := match s with
                    | b :: t => if byte_eqb b plus then (false, t) else if byte_eqb b dash then (true, t) else (false, s)
                    | [] => (false, s)
                    end in
  match ds with
  | [] => None
  | _ => match radix_value r 0 ds with
         | Some v => let z := if neg then (- Z.of_N v)%Z else Z.of_N v in
                     if in_i64 z then Some z else None
         | None => None
         end
  end.

Definition int_of (r : N) (s : bytes) : tm Z :=
  match i64_from_str_radix r (remove_us s) with Some z => TmOk z | None => TmErr IntError end.

(* numbers.rs: integer — dispatch!{peek(opt(take(2)))} *)
Definition integer : parser Z :=
  fun i =>
    let two := firstn 2 (rest i) in
    if bytes_eqb two [x30; x78] then cut_err (try_map (int_of 16) hex_int) i
    else if bytes_eqb two [x30; x6f] then cut_err (try_map (int_of 8) oct_int) i
    else if bytes_eqb two [x30; x62] then cut_err (try_map (int_of 2) bin_int) i
    else and_then dec_int
           (fun s => match int_of 10 s with
                     | TmOk z => SubOk z
                     | TmErr c => SubCut (err_of c)
                     | TmPanic st => SubPanic st
                     end) i.

(* numbers.rs: zero_prefixable_int, frac, exp, float_ *)
Definition zero_prefixable_int : parser bytes :=
  unchecked_utf8 14 (taken (digits_us digit digit)).
Definition frac : parser bytes :=
  unchecked_utf8 15 (taken (byte_ dot ;;; context (cut_err zero_prefixable_int))).
Definition exp : parser bytes :=
  unchecked_utf8 16
    (taken (one_of (fun b => byte_eqb b x65 || byte_eqb b x45) ;;;
            opt (one_of (fun b => byte_eqb b plus || byte_eqb b dash)) ;;;
            cut_err zero_prefixable_int)).
Definition float_ : parser bytes :=
  unchecked_utf8 17
    (taken (dec_int ;;; (pvoid exp <|> (frac ;;; pvoid (opt exp))))).

(* the exact decimal denoted by a cleaned literal  [sign] digits [. digits] [(e|E) [sign] digits] *)
Definition split_at_byte (f : byte -> bool) (s : bytes) : bytes * option bytes :=
  let (a, r) := span_while (fun b => negb (f b)) s in
  match r with [] => (a, None) | _ :: t => (a, Some t) end.

Definition fdec_of_text (s : bytes) : fval :=
  let '(neg, body) := match s with
                      | b :: t => if byte_eqb b plus then (false, t) else if byte_eqb b dash then (true, t) else (false, s)
                      | [] => (false, s)
                      end in
  let '(mant, ex) := split_at_byte (fun b => byte_eqb b x65 || byte_eqb b x45) body in
  let '(ip, fp) := split_at_byte (byte_eqb dot) mant in
  let fp := match fp with Some f => f | None => [] end in
  let e10 := match ex with
             | None => 0%Z
             | Some t => match t with
                         | b :: u => if byte_eqb b plus then Z.of_N (dec_value u)
                                     else if byte_eqb b dash then (- Z.of_N (dec_value u))%Z
                                     else Z.of_N (dec_value t)
                         | [] => 0%Z
                         end
             end in
  FDec neg (dec_value (ip ++ fp)) (e10 - Z.of_nat (length fp))%Z.

(* round-to-nearest-even overflow threshold of binary64: 2^1024 - 2^970 *)
Definition f64_overflow_threshold : N := (2 ^ 1024 - 2 ^ 970)%N.
Fixpoint ndigits_f (fuel : nat) (m : N) : nat :=
  match fuel with
  | O => O
  | S f => if (m =? 0)%N then O else S (ndigits_f f (m / 10)%N)
  end.
Definition ndigits (m : N) : nat := ndigits_f (S (N.size_nat m)) m.

(* m * 10^e >= 2^1024 - 2^970, decided without building astronomically large powers *)
Definition overflows (m : N) (e : Z) : bool :=
  if (m =? 0)%N then false
  else
    let nd := Z.of_nat (ndigits m) in
    if (nd + e <=? 308)%Z then false
    else if (310 <? nd + e)%Z then true
    else if (0 <=? e)%Z then (f64_overflow_threshold <=? m * 10 ^ Z.to_N e)%N
         else (f64_overflow_threshold * 10 ^ Z.to_N (- e) <=? m)%N.

(* `rest.try_map(|s| s.replace('_', "").parse::<f64>()).verify(|f| *f != f64::INFINITY)`:
   the grammar of float_ is a subset of what f64::from_str accepts, so the parse itself does not
   fail; the verify refuses the infinities named by the generated FLOAT_REJECT_* flags. *)
Definition float_of (s : bytes) : sub fval :=
  match fdec_of_text (remove_us s) with
  | FDec neg m e =>
    if overflows m e && (if neg then FLOAT_REJECT_NEG_INF else FLOAT_REJECT_POS_INF)
    then SubCut err0
    else if overflows m e then SubOk (FInf neg) else SubOk (FDec neg m e)
  | v => SubOk v
  end.

(* numbers.rs: inf / nan / special_float *)
Definition inf : parser fval := pvalue (FInf false) (lit INF).
Definition nan : parser fval := pvalue (FNan false) (lit NAN).
Definition fneg (f : fval) : fval :=
  match f with FNan n => FNan (negb n) | FInf n => FInf (negb n) | FDec n m e => FDec (negb n) m e end.
Definition special_float : parser fval :=
  s <- opt (one_of (fun b => byte_eqb b plus || byte_eqb b dash)) ;;
  f <- (inf <|> nan) ;;
  match s with
  | None => ret f
  | Some b => if byte_eqb b plus then ret f
              else if byte_eqb b dash then ret (fneg f)
              else (fun _ => Panic P_unreachable_sign)
  end.

(* numbers.rs: float *)
Definition float : parser fval :=
  context (and_then float_ float_of <|> special_float).
