(* Model/SerdeRoutes.v — the decoding and encoding ROUTES of the two crates on the level of the TOML
   value tree (property C13), assembled from Model/Ser.v and Model/De.v plus the two conversions
   that were not needed for C07:

   to_toml_value   crates/toml/src/value.rs   `impl Deserialize for Value` (ValueVisitor, DatetimeOrTable)
                   driven by toml_edit's deserializer: what `toml::from_str::<toml::Value>` /
                   `Value::deserialize(ValueDeserializer)` build from the parsed tree.  A date-time comes
                   through the tunnel (visit_map with the key FIELD); a TABLE WHOSE FIRST KEY IS FIELD is
                   taken for a date-time too (F14, known class private-datetime-key); tables become
                   BTreeMaps (sorted by key), a repeated key is an error.
   to_toml_table   crates/toml/src/map.rs     `impl Deserialize for Map<String, Value>` (`str::parse::<toml::Table>`):
                   the root is read entry by entry with `insert` — no tunnel check at the root.
   ser_value_text  crates/toml/src/ser.rs     `impl Serializer for ValueSerializer` (toml::ser::ValueSerializer,
                   the text of a single value): like toml's document Serializer it looks at the ROOT value
                   itself (a struct variant is refused by name) but does not ask for a table.  A struct goes to
                   toml_edit's ValueSerializer::serialize_struct WITH its name since the repair of
                   C06-root-datetime-printed-as-table (before: serialize_map, a root Datetime was written as
                   { FIELD = "text" }).  A tuple variant at
                   the root goes to toml_edit's ValueSerializer::serialize_tuple_variant ({ T = [..] }) since
                   the repair of C13-valueser-root-tuple-variant (before: serialize_seq, a bare array).

   Text-level facts (which text a tree is printed as, which tree a text parses to) are C01-C03/C06. *)
From TV Require Import Base.Prelude Model.Datetime Model.DatetimeStd Spec.SerdeData Model.Ser Model.De.

Fixpoint to_toml_value (x : tomlval) : result tomlval :=
  match x with
  | VStr _ | VInt _ | VFloat _ | VBool _ => Ok x
  | VDatetime d => rmap VDatetime (de_dt_str (display_datetime d))      (* DatetimeDeserializer -> DatetimeFromString *)
  | VArr xs => rmap VArr (mapM to_toml_value xs)
  | VTab es =>
    match es with
    | [] => Ok (VTab [])
    | (k, y) :: _ =>
      if bytes_eqb k DT_FIELD                                            (* DatetimeOrTable on the FIRST key *)
      then match y with VStr s => rmap VDatetime (de_dt_str s) | _ => Err EDe end
      else rbind (mapM (fun kx => rmap (fun y' => (fst kx, y')) (to_toml_value (snd kx))) es)
                 (fun es' => if nodup_bytes (map fst es')               (* `duplicate key` *)
                             then Ok (VTab (btree_of_pairs es')) else Err EDe)
    end
  end.

Definition to_toml_table (x : tomlval) : result tomlval :=
  match x with
  | VTab es => rmap (fun es' => VTab (btree_of_pairs es'))
                    (mapM (fun kx => rmap (fun y' => (fst kx, y')) (to_toml_value (snd kx))) es)
  | _ => Err EDe
  end.

Definition ser_value_text (t : ty) (v : sval) : result tomlval :=
  match t, v with
  | TEnum n vs, SVariant i p =>
    pick (fun nv =>
            match snd nv with
            | VStruct _ => Err (EUnsupportedType (Some n))
            | _ => ser_value t v
            end) (Err EBadCase) vs i
  | _, _ => ser_value t v
  end.

(* ---- decoding routes (lib/props/c13.py names) ---- *)
Inductive dec_route : Set :=
| R_t        (* toml::from_str *)
| R_e        (* toml_edit::de::from_str *)
| R_esl      (* toml_edit::de::from_slice *)
| R_edoc     (* toml_edit::de::from_document(DocumentMut) *)
| R_eim      (* toml_edit::de::from_document(ImDocument) *)
| R_efs      (* toml_edit::de::Deserializer::from_str *)
| R_tval     (* toml::from_str::<toml::Value>, then Value::try_into *)
| R_ttab     (* str::parse::<toml::Table>, then Table::try_into *)
| R_tvd      (* toml::de::ValueDeserializer (a single value) *)
| R_evd      (* toml_edit::de::ValueDeserializer (a single value) *)
| R_tvdval.  (* Value::deserialize(toml::de::ValueDeserializer), then Value::try_into *)

(* what a route makes of the tree the text parses to *)
Definition decode (r : dec_route) (t : ty) (x : tomlval) : result sval :=
  match r with
  | R_t | R_e | R_esl | R_edoc | R_eim | R_efs | R_tvd | R_evd => de_value t x
  | R_tval | R_tvdval => rbind (to_toml_value x) (tv_de t)
  | R_ttab => rbind (to_toml_table x) (tv_de t)
  end.

(* ---- hypotheses of the C13 statements (decidable predicates on trees / types) ---- *)
(* no table key spelling the private tunnel name: where the in-band signalling F14 (private-datetime-key)
   cannot show.  (Date-times are allowed since the repairs of C13-tryfrom-datetime-table and
   C13-tryinto-datetime-string.) *)
Fixpoint tunnel_free (x : tomlval) : bool :=
  match x with
  | VDatetime _ => true
  | VArr xs => forallb tunnel_free xs
  | VTab es => forallb (fun kx => negb (bytes_eqb (fst kx) DT_FIELD) && tunnel_free (snd kx)) es
  | _ => true
  end.

(* a root the table route (`str::parse::<toml::Table>`) and the value route read alike: a table with
   pairwise distinct keys (every parsed table is) whose first key is not the tunnel name *)
Definition plain_root (x : tomlval) : bool :=
  match x with
  | VTab es => nodup_bytes (map fst es) && match es with (k, _) :: _ => negb (bytes_eqb k DT_FIELD) | [] => true end
  | _ => false
  end.

(* map key types on which both deserializer families are injective on arbitrary byte strings: not
   `char` (two ill-formed UTF-8 strings may decode to the same char; Rust strings are well-formed) *)
Fixpoint key_ty_ok (t : ty) : bool :=
  match t with
  | TChar => false
  | TNewtype _ t' => key_ty_ok t'
  | _ => true
  end.
Fixpoint twin_ty (t : ty) {struct t} : bool :=
  match t with
  | TOpt t' | TSeq t' | TNewtype _ t' => twin_ty t'
  | TTuple ts | TTupleStruct _ ts => forallb twin_ty ts
  | TMap k v => key_ty_ok k && twin_ty k && twin_ty v
  | TStruct _ fs => forallb (fun ft => twin_ty (snd ft)) fs
  | TEnum _ vs => forallb (fun nv => twin_variant (snd nv)) vs
  | _ => true
  end
with twin_variant (var : variant) {struct var} : bool :=
  match var with
  | VUnit => true
  | VNewtype t => twin_ty t
  | VTuple ts => forallb twin_ty ts
  | VStruct fs => forallb (fun ft => twin_ty (snd ft)) fs
  end.
