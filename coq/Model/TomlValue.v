(* Model/TomlValue.v — how a toml::Value tree becomes the LINE STRUCTURE of a TOML document
   (property C17).  Transcribed stage by stage:

     1. crates/toml/src/value.rs   `impl Serialize for Value` (the three loops over a table),
        crates/toml/src/map.rs     `impl Serialize for Map<String, Value>` (one loop, map order),
        received by toml_edit::ser::ValueSerializer: maps become InlineTable, sequences Array      -> [ev]
     2. crates/toml/src/ser.rs     write_document: Item::Value(v).into_table(), then
        crates/toml/src/fmt.rs     DocumentFormatter (visit_item_mut / visit_table_mut / visit_array_mut) -> [dt]
     3. crates/toml_edit/src/encode.rs  Display for DocumentMut: visit_nested_tables, sort by position,
        visit_table (header, then `get_values`)                                                    -> [list section]

   Leaves (strings, integers, floats, booleans, date-times) are opaque tokens carried along:
   how a leaf is written and read back is the subject of C10 / C11 / C12.
   A map is the list of its entries IN THE ORDER THE MAP ITERATES (BTreeMap: ascending keys;
   IndexMap under `preserve_order`: insertion order).  No proofs in this file. *)
From TV Require Import Base.Prelude Spec.Ordered.

Definition path := list bytes.

(* ------------------------------------------------------------------------------------------ *)
(** * toml::Value *)

(* crates/toml/src/value.rs `enum Value`: String | Integer | Float | Boolean | Datetime are the
   leaves (the token says which one and what it holds), Array, Table *)
Inductive tv : Type :=
| TLeaf (tok : bytes)
| TArr (l : list tv)
| TTab (m : list (bytes * tv)).

(* Value::is_table / Value::is_array *)
Definition is_table (v : tv) : bool := match v with TTab _ => true | _ => false end.
Definition is_array (v : tv) : bool := match v with TArr _ => true | _ => false end.

(* the two configurations of toml::map::Map *)
Inductive morder := OSorted | OInsertion.

(* Map::insert: BTreeMap::insert / IndexMap::insert (an existing key keeps its place) *)
Definition map_insert (o : morder) (k : bytes) (v : tv) (m : list (bytes * tv)) : list (bytes * tv) :=
  match o with OSorted => sm_insert k v m | OInsertion => om_insert k v m end.

(* a value built by inserting the described entries one after the other into empty maps *)
Fixpoint build (o : morder) (v : tv) : tv :=
  match v with
  | TLeaf t => TLeaf t
  | TArr l => TArr (map (build o) l)
  | TTab m =>
    TTab ((fix go (m : list (bytes * tv)) (acc : list (bytes * tv)) : list (bytes * tv) :=
             match m with
             | [] => acc
             | (k, x) :: r => go r (map_insert o k (build o x) acc)
             end) m [])
  end.

(* ------------------------------------------------------------------------------------------ *)
(** * 1. impl Serialize for Value, into toml_edit::ser::ValueSerializer *)

(* toml_edit::Value as the serializer builds it: scalars, Array, InlineTable *)
Inductive ev : Type :=
| ELeaf (tok : bytes)
| EArr (l : list ev)
| EInl (m : list (bytes * ev)).

(* the tests of the three loops in `Value::Table(ref t) => { ... }`:
     loop 1: !v.is_table() && !v.is_array() || v.as_array().map(|a| !a.iter().any(|v| v.is_table())).unwrap_or(false)
     loop 2: v.as_array().map(|a| a.iter().any(|v| v.is_table())).unwrap_or(false)
     loop 3: v.is_table() *)
Definition arr_any_table (v : tv) : bool := match v with TArr l => existsb is_table l | _ => false end.
Definition arr_no_table (v : tv) : bool := match v with TArr l => negb (existsb is_table l) | _ => false end.
Definition pass1 (v : tv) : bool := (negb (is_table v) && negb (is_array v)) || arr_no_table v.
Definition pass2 (v : tv) : bool := arr_any_table v.
Definition pass3 (v : tv) : bool := is_table v.

(* the entries one loop hands to `map.serialize_entry(k, v)` *)
Definition pick (p : tv -> bool) (ent : list (bytes * tv * ev)) : list (bytes * ev) :=
  map (fun e => (fst (fst e), snd e)) (filter (fun e => p (snd (fst e))) ent).

Fixpoint ser_value (v : tv) : ev :=
  match v with
  | TLeaf t => ELeaf t                       (* serialize_str / _i64 / _f64 / _bool / Datetime::serialize *)
  | TArr l => EArr (map ser_value l)         (* Vec<Value>::serialize -> serialize_seq *)
  | TTab m =>                                (* the three loops, then map.end() *)
    let ent := (fix go (m : list (bytes * tv)) : list (bytes * tv * ev) :=
                  match m with
                  | [] => []
                  | (k, x) :: r => (k, x, ser_value x) :: go r
                  end) m in
    EInl (pick pass1 ent ++ pick pass2 ent ++ pick pass3 ent)
  end.

(* impl Serialize for Map<String, Value>: `for (k, v) in self { serialize_key; serialize_value }` *)
Definition ser_map (m : list (bytes * tv)) : list (bytes * ev) :=
  map (fun kv => (fst kv, ser_value (snd kv))) m.

(* a derived `Serialize` impl (serde_derive: one `serialize_field` per field, in declaration order), or
   any other impl that hands its entries over in an order of its own, at every level: the tree `v` is
   read as the call tree of the serializer — TTab = struct / map with the fields in that order *)
Fixpoint ser_plain (v : tv) : ev :=
  match v with
  | TLeaf t => ELeaf t
  | TArr l => EArr (map ser_plain l)
  | TTab m =>
    EInl ((fix go (m : list (bytes * tv)) : list (bytes * ev) :=
             match m with
             | [] => []
             | (k, x) :: r => (k, ser_plain x) :: go r
             end) m)
  end.
Definition ser_root_plain (m : list (bytes * tv)) : list (bytes * ev) :=
  match ser_plain (TTab m) with EInl em => em | _ => [] end.

(* what `value.serialize(Serializer)` hands to write_document, for the two root types *)
Definition ser_root_value (m : list (bytes * tv)) : list (bytes * ev) :=
  match ser_value (TTab m) with EInl em => em | _ => [] end.

(* ------------------------------------------------------------------------------------------ *)
(** * 2. write_document + DocumentFormatter *)

(* a value that stays on its key/value line; `multiline` is what visit_array_mut decided *)
Inductive iv : Type :=
| VLeaf (tok : bytes)
| VArr (multiline : bool) (l : list iv)
| VInl (m : list (bytes * iv)).

(* toml_edit::Table (implicit flag, items) and Item (Value | Table | ArrayOfTables) *)
Inductive dt : Type :=
| DT (implicit : bool) (items : list (bytes * ditem))
with ditem : Type :=
| IVal (v : iv)
| ITbl (t : dt)
| IAot (ts : list dt).

Definition is_inl (e : ev) : bool := match e with EInl _ => true | _ => false end.
Definition nonempty {A} (l : list A) : bool := match l with [] => false | _ => true end.

(* visit_value_mut below an item that is a value (`is_value` = true: nothing is converted);
   visit_array_mut: `!self.multiline_array || (0..=1).contains(&node.len())` -> one line *)
Fixpoint fmt_value (ml : bool) (e : ev) : iv :=
  match e with
  | ELeaf t => VLeaf t
  | EArr l => VArr (ml && (2 <=? length l)%nat) (map (fmt_value ml) l)
  | EInl m =>
    VInl ((fix go (m : list (bytes * ev)) : list (bytes * iv) :=
             match m with
             | [] => []
             | (k, x) :: r => (k, fmt_value ml x) :: go r
             end) m)
  end.

(* Item::into_array_of_tables on Item::Value(Value::Array(a)):
   `!a.is_empty() && a.iter().all(|v| v.is_inline_table())` *)
Definition aot_able (l : list ev) : bool := nonempty l && forallb is_inl l.

(* visit_item_mut with `is_value` = false (the item sits in a table that is written with a
   header): into_table, else into_array_of_tables, else it is a value;
   visit_table_mut: `if !node.is_empty() { node.set_implicit(true) }`.
   (In the IAot branch every element is an EInl, so every fmt_item below yields ITbl.) *)
Fixpoint fmt_item (ml : bool) (e : ev) : ditem :=
  match e with
  | ELeaf t => IVal (VLeaf t)
  | EInl m =>
    ITbl (DT (nonempty m)
             ((fix go (m : list (bytes * ev)) : list (bytes * ditem) :=
                 match m with
                 | [] => []
                 | (k, x) :: r => (k, fmt_item ml x) :: go r
                 end) m))
  | EArr l =>
    if aot_able l
    then IAot ((fix go (l : list ev) : list dt :=
                  match l with
                  | [] => []
                  | x :: r => match fmt_item ml x with ITbl t => t :: go r | _ => go r end
                  end) l)
    else IVal (fmt_value ml (EArr l))
  end.

(* write_document: the root InlineTable becomes a Table, `settings.visit_table_mut(&mut table)` *)
Definition fmt_root (ml : bool) (em : list (bytes * ev)) : dt :=
  DT (nonempty em) (map (fun kv => (fst kv, fmt_item ml (snd kv))) em).

(* ------------------------------------------------------------------------------------------ *)
(** * 3. Display for DocumentMut *)

Inductive skind := KRoot | KStd | KArr.      (* no header | [path] | [[path]] *)
Record section := mkSec { s_path : path; s_kind : skind; s_lines : list (bytes * iv) }.

(* Table::get_values (no dotted tables are ever built here): the Item::Value entries in order *)
Definition get_values (items : list (bytes * ditem)) : list (bytes * iv) :=
  flat_map (fun kv => match snd kv with IVal v => [(fst kv, v)] | _ => [] end) items.

(* visit_nested_tables: the callback sees (table, path, is_array_of_tables) in pre-order *)
Fixpoint visit_nested (t : dt) (p : path) (is_aot : bool) : list (dt * path * bool) :=
  match t with
  | DT _ items =>
    (t, p, is_aot) ::
    (fix go (items : list (bytes * ditem)) : list (dt * path * bool) :=
       match items with
       | [] => []
       | (k, it) :: r =>
         match it with
         | ITbl t' => visit_nested t' (p ++ [k]) false ++ go r
         | IAot ts =>
           (fix ga (ts : list dt) : list (dt * path * bool) :=
              match ts with
              | [] => []
              | t' :: q => visit_nested t' (p ++ [k]) true ++ ga q
              end) ts ++ go r
         | IVal _ => go r
         end
       end) items
  end.

(* `tables.sort_by_key(|&(id, ..)| id)`: no table built by write_document has a position, so every
   id is 0 and the stable sort keeps the visiting order.
   visit_table: no header for the root; `[[path]]` for an array element; `[path]` unless the table
   is implicit and has no values of its own; then one line per value.  The root is always listed
   (it prints nothing when it has no values). *)
Definition visit_table (x : dt * path * bool) : list section :=
  match x with
  | (DT implicit items, p, is_aot) =>
    let children := get_values items in
    match p with
    | [] => [mkSec [] KRoot children]
    | _ :: _ =>
      if is_aot then [mkSec p KArr children]
      else if negb (implicit && negb (nonempty children)) then [mkSec p KStd children]
      else []
    end
  end.

Definition emit_root (ml : bool) (em : list (bytes * ev)) : list section :=
  flat_map visit_table (visit_nested (fmt_root ml em) [] false).

(* toml::to_string(&Value::Table(m)) (ml = false) / toml::to_string_pretty (ml = true) *)
Definition emit_value_doc (ml : bool) (m : list (bytes * tv)) : list section :=
  emit_root ml (ser_root_value m).

(* toml::to_string(&m) for m : toml::Table = Display for Table *)
Definition emit_table_doc (ml : bool) (m : list (bytes * tv)) : list section :=
  emit_root ml (ser_map m).

(* toml::to_string(&s) for a struct / map s whose impl is ser_plain *)
Definition emit_struct_doc (ml : bool) (m : list (bytes * tv)) : list section :=
  emit_root ml (ser_root_plain m).

(* Display for Value: ValueSerializer + write_value, one inline value, no DocumentFormatter *)
Definition display_value (v : tv) : iv := fmt_value false (ser_value v).
