(* Model/Parse.v — crates/toml_edit/src/parser/{key,value,array,inline_table}.rs *)
From TV Require Import Base.Prelude Base.Utf8 Base.Winnow Gen.Consts.
From TV Require Import Model.Trivia Model.Strings Model.Datetime Model.Numbers Model.Tree.

(* ---- key.rs --------------------------------------------------------------------------- *)
(* key.rs: unquoted_key *)
Definition unquoted_key : parser bytes :=
  unchecked_utf8 30 (take_while1 (in_class UNQUOTED_CHAR)).

(* key.rs: simple_key — dispatch on peek(any): QUOTATION_MARK => basic_string, APOSTROPHE => literal_string,
   otherwise unquoted_key; then .context(Label("key")) around the whole dispatch (neither peek(any) on the
   empty input nor unquoted_key on a byte no key starts with has a context of its own); then .with_span() *)
Definition simple_key : parser (raw * bytes) :=
  pmap (fun '(k, sp) => (raw_with_span sp, k))
    (with_span
       (context
          (b <- peek any ;;
           if byte_eqb b QUOTATION_MARK then basic_string
           else if byte_eqb b APOSTROPHE then literal_string
           else unquoted_key))).

Definition key_part : parser key :=
  pre <- span_ ws ;;
  '(r, k) <- simple_key ;;
  suf <- span_ ws ;;
  ret (mkKey k (Some r) decor_default (decor_new (raw_with_span pre) (raw_with_span suf))).

(* RecursionCheck::check_depth *)
Definition check_depth (n : nat) : bool := Nat.leb LIMIT n.   (* true = limit exceeded *)

Definition set_dotted_prefix (k : key) (r : raw) : key :=
  mkKey (k_key k) (k_repr k) (k_leaf k) (mkDecor (Some r) (d_suffix (k_dotted k))).
Definition set_dotted_suffix (k : key) (r : raw) : key :=
  mkKey (k_key k) (k_repr k) (k_leaf k) (mkDecor (d_prefix (k_dotted k)) (Some r)).
Definition set_leaf (k : key) (d : decor) : key := mkKey (k_key k) (k_repr k) d (k_dotted k).

(* the decor shuffle at the end of `key`: the first key's dotted prefix and the last key's
   dotted suffix move into the last key's leaf decor *)
Definition fix_key_path (path : list key) : option (list key) :=
  match path with
  | [] => None
  | first :: tl =>
    let leaf_pre := match d_prefix (k_dotted first) with Some p => p | None => REmpty end in
    let first' := match d_prefix (k_dotted first) with Some _ => set_dotted_prefix first REmpty | None => first end in
    let path' := first' :: tl in
    match rev path' with
    | [] => None
    | last :: rinit =>
      let leaf_suf := match d_suffix (k_dotted last) with Some p => p | None => REmpty end in
      let last' := match d_suffix (k_dotted last) with Some _ => set_dotted_suffix last REmpty | None => last end in
      Some (rev (set_leaf last' (decor_new leaf_pre leaf_suf) :: rinit))
    end
  end.

(* key.rs: key *)
Definition key_ : parser (list key) :=
  path <- try_map (fun k : list key => if check_depth (length k) then TmErr RecursionLimit else TmOk k)
            (context (separated1 key_part (byte_ DOT_SEP))) ;;
  match fix_key_path path with
  | Some p => ret p
  | None => fun _ => Panic P_key_path_empty
  end.

(* ---- prelude: check_recursion ---------------------------------------------------------- *)
Definition set_depth (d : nat) (i : input) : input := mkIn (rest i) (pos i) d.
Definition check_recursion {A} (p : parser A) : parser A :=
  fun i =>
    let i1 := set_depth (S (depth i)) i in
    if Nat.leb LIMIT (depth i1) then Cut (err_of RecursionLimit) i1
    else match p i1 with
         | Ok a i2 =>
           match depth i2 with
           | O => Panic P_depth_underflow
           | S d => Ok a (set_depth d i2)
           end
         | r => r
         end.

(* ---- inline_table.rs: table_from_pairs / descend_path ---------------------------------- *)
Inductive cres (A : Type) : Type := COk (a : A) | CErr (c : custom) | CPanic (s : site).
Arguments COk {A}. Arguments CErr {A}. Arguments CPanic {A}.

(* insert (key, value) at `path` below the inline table with items `m`; returns the new items.
   `dotted_here` = is_dotted() of the table whose items are `m`. *)
Fixpoint inline_insert (m : kvs) (dotted_here : bool) (path : list key) (path_was_empty : bool)
         (k : key) (v : item) : cres kvs :=
  match path with
  | [] =>
    (* mixed_table_types = table.is_dotted() == path.is_empty() *)
    if Bool.eqb dotted_here path_was_empty then CErr DuplicateKey
    else match kv_get m (k_key k) with
         | None => COk (kv_push m k v)
         | Some _ => CErr DuplicateKey
         end
  | pk :: ptl =>
    match kv_get m (k_key pk) with
    | None =>
      (* or_insert_with: new implicit, dotted inline table *)
      match inline_insert [] true ptl path_was_empty k v with
      | COk sub => COk (kv_push m pk (IValue (VInline sub REmpty true true decor_default None)))
      | CErr c => CErr c
      | CPanic s => CPanic s
      end
    | Some (_, IValue (VInline sub pre imp dt dec sp)) =>
      if negb imp then CErr DuplicateKey          (* dotted && !is_implicit() *)
      else match inline_insert sub dt ptl path_was_empty k v with
           | COk sub' => COk (kv_set m (k_key pk) (IValue (VInline sub' pre imp dt dec sp)))
           | CErr c => CErr c
           | CPanic s => CPanic s
           end
    | Some (_, IValue _) => CErr ExtendWrongType
    | Some (_, _) =>
      (* entry_format turns a non-value item into a value; the parser never stores one here *)
      CPanic (P_other 2)
    end
  end.

Fixpoint table_from_pairs_loop (m : kvs) (pairs : list (list key * (key * item))) : cres kvs :=
  match pairs with
  | [] => COk m
  | (path, (k, v)) :: tl =>
    match inline_insert m false path (match path with [] => true | _ => false end) k v with
    | COk m' => table_from_pairs_loop m' tl
    | e => e
    end
  end.

(* inline_table.rs: value_depth — nesting of arrays / inline tables below a value *)
Fixpoint value_depth (v : value) : nat :=
  match v with
  | VScalar _ _ _ => 0
  | VArray vals _ _ _ _ =>
    S (fold_right (fun it acc => match it with IValue e => Nat.max (value_depth e) acc | _ => acc end) 0 vals)
  | VInline items _ _ _ _ _ =>
    S (fold_right (fun kv acc => match kv with (_, IValue e) => Nat.max (value_depth e) acc | _ => acc end) 0 items)
  end.
Definition item_depth (it : item) : nat := match it with IValue e => value_depth e | _ => 0 end.

(* the loop of table_from_pairs as it is in the source: each pair first passes
   RecursionCheck::check_depth(path.len() + 1 + value_depth(value)).
   `table_from_pairs_loop` above is the same loop without that check (they agree whenever every
   check passes: Proofs/Depth.v). *)
Fixpoint table_from_pairs_loop_d (m : kvs) (pairs : list (list key * (key * item))) : cres kvs :=
  match pairs with
  | [] => COk m
  | (path, (k, v)) :: tl =>
    if check_depth (length path + 1 + item_depth v) then CErr RecursionLimit
    else
      match inline_insert m false path (match path with [] => true | _ => false end) k v with
      | COk m' => table_from_pairs_loop_d m' tl
      | e => e
      end
  end.

(* spans of tables made of dotted keys: from the table's first key to the end of its last value
   (inline_table.rs descend_path: `if sweet_child_of_mine.is_dotted() { ... span ... }`).
   The Rust code widens the span while descending; doing it for all pairs after the loop gives the
   same result (min/max are order-independent) and leaves the loop functions untouched. *)
Definition key_span (k : key) : ospan := match k_repr k with Some r => raw_span r | None => None end.
Definition item_end (it : item) : option N := match item_span it with Some sp => Some (snd sp) | None => None end.
Definition widen (sp : ospan) (ks : N * N) (e : N) : ospan :=
  Some (match sp with Some s => (N.min (fst s) (fst ks), N.max (snd s) e) | None => (fst ks, e) end).
Fixpoint inline_set_spans (m : kvs) (path : list key) (value_end : option N) : kvs :=
  match path with
  | [] => m
  | k :: ptl =>
    match kv_get m (k_key k) with
    | Some (_, IValue (VInline sub pre imp dt dec sp)) =>
      let sp1 := if dt then match key_span k, value_end with
                            | Some ks, Some e => widen sp ks e
                            | _, _ => sp end
                 else sp in
      kv_set m (k_key k) (IValue (VInline (inline_set_spans sub ptl value_end) pre imp dt dec sp1))
    | _ => m
    end
  end.
Definition inline_spans_pass (m : kvs) (pairs : list (list key * (key * item))) : kvs :=
  fold_left (fun acc p => match p with (path, (_, v)) => inline_set_spans acc path (item_end v) end) pairs m.

Definition table_from_pairs (pairs : list (list key * (key * item))) (preamble : raw) : tm value :=
  match table_from_pairs_loop_d [] pairs with
  | COk m => TmOk (VInline (inline_spans_pass m pairs) preamble false false decor_default None)
  | CErr c => TmErr c
  | CPanic s => TmPanic s
  end.

(* split the parsed key path into (path, leaf): `path.pop().expect("grammar ensures at least 1")` *)
Definition pop_key (p : list key) : option (list key * key) :=
  match rev p with
  | [] => None
  | last :: rinit => Some (rev rinit, last)
  end.

(* ---- value.rs / array.rs / inline_table.rs: the recursive knot -------------------------- *)
Definition scalar_value (s : scalar) : value := VScalar s None decor_default.

(* value.rs: apply_raw *)
Definition apply_raw (v : value) (sp : N * N) : value :=
  let v' := match v with
            | VScalar s _ d => VScalar s (Some (raw_with_span sp)) d
            | VArray a t c d _ => VArray a t c d (Some sp)
            | VInline i p im dt d _ => VInline i p im dt d (Some sp)
            end in
  value_decorate v' REmpty REmpty.

Section Knot.
  Variable value_rec : parser value.

  (* array.rs: array_value *)
  Definition array_value : parser item :=
    pre <- span_ ws_comment_newline ;;
    v <- value_rec ;;
    suf <- span_ ws_comment_newline ;;
    ret (IValue (value_decorate v (raw_with_span pre) (raw_with_span suf))).

  (* array.rs: array_values *)
  Definition array_values : parser value :=
    c <- peek (opt (byte_ ARRAY_CLOSE)) ;;
    match c with
    | Some _ => ret (VArray [] REmpty false decor_default None)
    | None =>
      vals <- separated0 array_value (byte_ ARRAY_SEP) ;;
      comma <- (match vals with
                | [] => ret false
                | _ => pmap (fun o => match o with Some _ => true | None => false end) (opt (byte_ ARRAY_SEP))
                end) ;;
      tr <- span_ ws_comment_newline ;;
      ret (VArray vals (raw_with_span tr) comma decor_default None)
    end.

  (* array.rs: array *)
  Definition array : parser value :=
    byte_ ARRAY_OPEN ;;;
    a <- cut_err array_values ;;
    context (cut_err (byte_ ARRAY_CLOSE)) ;;;
    ret a.

  (* inline_table.rs: keyval *)
  Definition inline_keyval : parser (list key * (key * item)) :=
    kp <- key_ ;;
    '(pre, v, suf) <- cut_err (context (byte_ KEYVAL_SEP) ;;;
                               pre <- span_ ws ;; v <- value_rec ;; suf <- span_ ws ;; ret (pre, v, suf)) ;;
    match pop_key kp with
    | None => fun _ => Panic P_key_path_empty
    | Some (path, k) =>
      ret (path, (k, IValue (value_decorate v (raw_with_span pre) (raw_with_span suf))))
    end.

  (* inline_table.rs: inline_table_keyvals + inline_table *)
  Definition inline_table : parser value :=
    byte_ INLINE_TABLE_OPEN ;;;
    t <- cut_err (try_map (fun '(kv, p) => table_from_pairs kv p)
                    (kv <- separated0 inline_keyval (byte_ INLINE_TABLE_SEP) ;;
                     p <- span_ ws ;;
                     ret (kv, raw_with_span p))) ;;
    context (cut_err (byte_ INLINE_TABLE_CLOSE)) ;;;
    ret t.

  (* value.rs: value — dispatch!{peek(any); ...}.with_span().map(apply_raw) *)
  Definition value_body : parser value :=
    b <- context (peek any) ;;
    if byte_eqb b QUOTATION_MARK || byte_eqb b APOSTROPHE then pmap (fun s => scalar_value (SString s)) string_
    else if byte_eqb b ARRAY_OPEN then check_recursion array
    else if byte_eqb b INLINE_TABLE_OPEN then check_recursion inline_table
    else if in_class VALUE_NUMBER_START b then
      pmap (fun d => scalar_value (SDatetime d)) date_time
      <|> pmap (fun f => scalar_value (SFloat f)) float
      <|> pmap (fun z => scalar_value (SInt z)) integer
    else if byte_eqb b x5f then context (pmap (fun z => scalar_value (SInt z)) integer)
    else if byte_eqb b x2e then context (pmap (fun f => scalar_value (SFloat f)) float)
    else if byte_eqb b x74 then context (pmap (fun v => scalar_value (SBool v)) true_)
    else if byte_eqb b x66 then context (pmap (fun v => scalar_value (SBool v)) false_)
    else if byte_eqb b x69 then context (pmap (fun f => scalar_value (SFloat f)) inf)
    else if byte_eqb b x6e then context (pmap (fun f => scalar_value (SFloat f)) nan)
    else context fail.

  Definition value_step : parser value :=
    pmap (fun '(v, sp) => apply_raw v sp) (with_span value_body).
End Knot.

(* fuel: one unit per nesting level; S (length text) always suffices *)
Fixpoint value_f (fuel : nat) : parser value :=
  match fuel with
  | O => fun _ => Panic P_out_of_fuel
  | S f => fun i => value_step (value_f f) i
  end.
Definition value_ : parser value := fun i => value_f (S (length (rest i))) i.
